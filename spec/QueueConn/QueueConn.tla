------------------------------ MODULE QueueConn ------------------------------
(* common/turbotunnel: QueuePacketConn (queuepacketconn.go) over ClientMap /
   clientMapInner (clientmap.go), with an explicit clock.

   State: the clock `now`; one record per client address that has one
   (`rec[a]`: the handle of its outgoing queue and the time it was last
   seen); the outgoing queues themselves, by handle (`ch[h]`: a Go channel of
   capacity QCap that may be closed - a consumer can keep holding a handle
   after the record is gone); the incoming queue `recvQ` of <<packet, addr>>;
   `closed`.  `held[a]` is the handle a consumer obtained from its latest
   OutgoingQueue(a) call (the harness plays the consumer).

   Operations (= the exported API, plus the two clientMapInner entry points
   that the periodic sweeper goroutine of ClientMap drives with the real
   clock):
     W(a)  WriteTo(p, a)           Touch(a); Enqueue or DropFull
     O(a)  OutgoingQueue(a)        Touch(a); the consumer now holds the handle
     D(a)  non-blocking receive on the held handle   (Dequeue)
     I(a)  QueueIncoming(p, a)
     R     ReadFrom                (only when it would not block)
     S     Sweep = removeExpired(now, T)
     A     Advance: now' = now + 1
     C     Close

   The expected result of every operation is computed here and printed by
   Emit; the Go harness only executes and compares.

   Don't-care (never generated, never compared):
   * OutgoingQueue and receives on a held handle after Close (the statement
     speaks of the net.PacketConn operations failing; what the side channel
     does after Close is not specified);
   * ReadFrom when it would block (open, nothing queued);
   * error values (only "error or not"); the byte count returned by a WriteTo
     that drops the packet (the code reports len(p), as for a UDP send);
   * the order in which Sweep closes several expired records. *)
EXTENDS Integers, Sequences, FiniteSets, TLC, Json

CONSTANTS
  NAddr,     \* client addresses are 1..NAddr
  T,         \* timeout in clock ticks
  QCap,      \* capacity of every queue (2048 in the code)
  MaxNow,    \* the clock stops here                  (guard of A)
  MaxPkts,   \* bound on packets offered              (guard of W, I; "mc" only)
  MaxH,      \* bound on queues ever created          (guard of Touch; "mc" only)
  Mode,      \* "mc" | "periodic" | "gen" | "fullsend" | "fullrecv"
  H,         \* "periodic": the sweeper runs every H ticks (T/2 in the code)
  N,         \* "gen": length of the emitted operation sequences
  PerRecordSweep,  \* TRUE: additionally offer the record-by-record sweep B / S1(a)  ("mc" only)
  SnapshotSweep,   \* TRUE: S1 does not look at the record again (what the sweep must NOT be)
  Target     \* "inner": all operations but no Close/I/R  (replayed on clientMapInner, explicit clock)
             \* "conn" : no A (the real QueuePacketConn stamps records with the wall clock)
             \* "all"  : everything (model checking)

Addrs == 1..NAddr

VARIABLES now, rec, ch, held, recvQ, closed, npkt, last, hist,
          swept   \* [at: the time of the latest Sweep (Mode = "periodic"); snap: the records a
                  \*  sweep that proceeds record by record still has to look at (PerRecordSweep)]
vars == <<now, rec, ch, held, recvQ, closed, npkt, last, hist, swept>>

NoRec == [h |-> 0, seen |-> 0]
NoRes == [op |-> "none", res |-> "none", pkt |-> 0, from |-> 0]

Init ==
  /\ now = 0 /\ rec = [a \in Addrs |-> NoRec] /\ ch = <<>> /\ held = [a \in Addrs |-> 0]
  /\ recvQ = <<>> /\ closed = FALSE /\ npkt = 0 /\ last = NoRes /\ hist = <<>> /\ swept = [at |-> 0, snap |-> {}]

Present == {a \in Addrs : rec[a].h # 0}
Idle(a) == now - rec[a].seen
Expired == {a \in Present : Idle(a) >= T}

(* Touch(a): clientMapInner.SendQueue(a, now) - refresh the record or create
   one with a fresh queue.  As a pair of functions of the current state. *)
TouchRec(a) == IF rec[a].h # 0 THEN [rec EXCEPT ![a].seen = now]
               ELSE [rec EXCEPT ![a] = [h |-> Len(ch) + 1, seen |-> now]]
TouchCh(a)  == IF rec[a].h # 0 THEN ch ELSE Append(ch, [a |-> a, q |-> <<>>, open |-> TRUE])
Bounded == Mode \in {"mc", "periodic"}
CanTouch(a) == rec[a].h # 0 \/ ~Bounded \/ Len(ch) < MaxH

Res(o, r, p, f) == [op |-> o, res |-> r, pkt |-> p, from |-> f]

W(a) ==
  /\ (Bounded => npkt < MaxPkts) /\ CanTouch(a)
  /\ npkt' = npkt + 1
  /\ IF closed
     THEN /\ last' = Res("W", "err", npkt + 1, 0)                 \* OpsFailAfterClose
          /\ UNCHANGED <<rec, ch>>
     ELSE LET r2 == TouchRec(a) c2 == TouchCh(a) h == r2[a].h IN
          /\ rec' = r2
          /\ IF Len(c2[h].q) < QCap
             THEN ch' = [c2 EXCEPT ![h].q = Append(@, npkt + 1)]     \* Enqueue
             ELSE ch' = c2                                            \* DropFull
          /\ last' = Res("W", "ok", npkt + 1, 0)
  /\ UNCHANGED <<now, held, recvQ, closed, swept>>

O(a) ==
  /\ ~closed /\ CanTouch(a)
  /\ rec' = TouchRec(a) /\ ch' = TouchCh(a)
  /\ held' = [held EXCEPT ![a] = TouchRec(a)[a].h]
  /\ last' = Res("O", "ok", 0, 0)
  /\ UNCHANGED <<now, recvQ, closed, npkt, swept>>

D(a) ==
  /\ ~closed /\ held[a] # 0
  /\ LET h == held[a] IN
     IF ch[h].q # <<>>
     THEN /\ last' = Res("D", "pkt", Head(ch[h].q), a)                    \* Dequeue: FIFO per address
          /\ ch' = [ch EXCEPT ![h].q = Tail(@)]
     ELSE /\ last' = Res("D", IF ch[h].open THEN "empty" ELSE "closed", 0, 0)
          /\ UNCHANGED ch
  /\ UNCHANGED <<now, rec, held, recvQ, closed, npkt, swept>>

I(a) ==
  /\ (Bounded => npkt < MaxPkts)
  /\ npkt' = npkt + 1
  /\ recvQ' = (IF ~closed /\ Len(recvQ) < QCap THEN Append(recvQ, <<npkt + 1, a>>) ELSE recvQ)
  /\ last' = Res("I", "ok", npkt + 1, 0)
  /\ UNCHANGED <<now, rec, ch, held, closed, swept>>

R ==
  /\ closed \/ recvQ # <<>>
  /\ IF closed
     THEN last' = Res("R", "err", 0, 0) /\ UNCHANGED recvQ                \* OpsFailAfterClose
     ELSE last' = Res("R", "pkt", Head(recvQ)[1], Head(recvQ)[2]) /\ recvQ' = Tail(recvQ)
  /\ UNCHANGED <<now, rec, ch, held, closed, npkt, swept>>

S ==
  /\ rec' = [a \in Addrs |-> IF a \in Expired THEN NoRec ELSE rec[a]]
  /\ ch' = [h \in DOMAIN ch |-> IF ch[h].a \in Expired /\ rec[ch[h].a].h = h THEN [ch[h] EXCEPT !.open = FALSE] ELSE ch[h]]
  /\ last' = Res("S", "ok", 0, 0)
  /\ swept' = [at |-> now, snap |-> {}]
  /\ UNCHANGED <<now, held, recvQ, closed, npkt>>

A ==
  /\ now < MaxNow
  /\ now' = now + 1 /\ last' = Res("A", "ok", 0, 0)
  /\ UNCHANGED <<rec, ch, held, recvQ, closed, npkt, swept>>

(* A sweep that does not hold the map for the whole pass: B notes which
   records are expired now, S1(a) then deals with one of them per step, and
   other operations (in particular Touch, from WriteTo/OutgoingQueue) may come
   in between.  What such a sweep must be: atomic PER RECORD with respect to
   Touch - S1(a) looks at the record again and discards it only if it is
   (still) idle for the timeout.  SnapshotSweep = TRUE is the variant that
   trusts the note taken by B: it discards a client that was seen in between
   (NeverDiscardEarly and KeptWhileSeen fail; kept as a sensitivity run). *)
B ==
  /\ swept' = [swept EXCEPT !.snap = Expired]
  /\ last' = Res("B", "ok", 0, 0)
  /\ UNCHANGED <<now, rec, ch, held, recvQ, closed, npkt>>

S1(a) ==
  /\ a \in swept.snap
  /\ swept' = [swept EXCEPT !.snap = @ \ {a}]
  /\ last' = Res("S", "ok", 0, 0)
  /\ IF rec[a].h # 0 /\ (SnapshotSweep \/ a \in Expired)
     THEN /\ rec' = [rec EXCEPT ![a] = NoRec]
          /\ ch' = [ch EXCEPT ![rec[a].h].open = FALSE]
     ELSE UNCHANGED <<rec, ch>>
  /\ UNCHANGED <<now, held, recvQ, closed, npkt>>

C ==
  /\ closed' = TRUE
  /\ last' = Res("C", IF closed THEN "err" ELSE "ok", 0, 0)
  /\ UNCHANGED <<now, rec, ch, held, recvQ, npkt, swept>>

-----------------------------------------------------------------------------
(* Which operations a configuration offers. *)
Inner == Target \in {"inner", "all"}
Conn  == Target \in {"conn", "all"}

Op(name, a) ==
  CASE name = "W" -> W(a)
    [] name = "O" -> O(a)
    [] name = "D" -> D(a)
    [] name = "I" -> Conn /\ I(a)
    [] name = "R" -> Conn /\ a = 0 /\ R
    [] name = "S" -> a = 0 /\ S
    [] name = "A" -> Target # "conn" /\ a = 0 /\ A
    [] name = "C" -> Conn /\ a = 0 /\ C
    [] name = "B" -> PerRecordSweep /\ a = 0 /\ B
    [] name = "S1" -> PerRecordSweep /\ S1(a)

Names == {"W", "O", "D", "I", "R", "S", "A", "C", "B", "S1"}
WithAddr(name) == name \in {"W", "O", "D", "I", "S1"}

(* gen: every sequence of exactly N operations; the addresses are introduced
   in order (address 2 only after address 1 was used) - the two are
   interchangeable. *)
Used == {hist[i].a : i \in DOMAIN hist}
Entry(name, a) == [op |-> name, a |-> a, res |-> last'.res, pkt |-> last'.pkt, from |-> last'.from,
                   present |-> {x \in Addrs : rec'[x].h # 0}]
GenNext ==
  /\ Len(hist) < N
  /\ \E name \in Names : \E a \in (IF WithAddr(name) THEN Addrs ELSE {0}) :
       /\ (a > 1 => (a - 1) \in Used)
       /\ Op(name, a)
       /\ hist' = Append(hist, Entry(name, a))

McNext == (\E name \in Names : \E a \in (IF WithAddr(name) THEN Addrs ELSE {0}) : Op(name, a)) /\ UNCHANGED hist

(* fullsend: hold address 1's queue, write QCap + 2 packets to it, then drain
   it until it is empty.  fullrecv: the same for the incoming queue. *)
Count(name) == Cardinality({i \in DOMAIN hist : hist[i].op = name})
FullSendNext ==
  /\ \/ hist = <<>> /\ O(1) /\ hist' = Append(hist, Entry("O", 1))
     \/ hist # <<>> /\ Count("W") < QCap + 2 /\ W(1) /\ hist' = Append(hist, Entry("W", 1))
     \/ Count("W") = QCap + 2 /\ last.res # "empty" /\ D(1) /\ hist' = Append(hist, Entry("D", 1))
FullRecvNext ==
  /\ \/ Count("I") < QCap + 2 /\ I(1) /\ hist' = Append(hist, Entry("I", 1))
     \/ Count("I") = QCap + 2 /\ recvQ # <<>> /\ R /\ hist' = Append(hist, Entry("R", 0))

(* periodic: as "mc", but the Sweep is not free - it happens exactly at the
   multiples of H, before anything else at that instant (the sweeper goroutine
   of ClientMap: for { Sleep(timeout/2); removeExpired(now, timeout) }). *)
SweepDue == now % H = 0 /\ swept.at # now
PeriodicNext ==
  /\ UNCHANGED hist
  /\ IF SweepDue THEN S
     ELSE \E name \in Names \ {"S"} : \E a \in (IF WithAddr(name) THEN Addrs ELSE {0}) : Op(name, a)

Next == CASE Mode = "mc" -> McNext
          [] Mode = "periodic" -> PeriodicNext
          [] Mode = "gen" -> GenNext
          [] Mode = "fullsend" -> FullSendNext
          [] Mode = "fullrecv" -> FullRecvNext

Spec == Init /\ [][Next]_vars

Emit ==
  \/ Mode \in {"mc", "periodic"}
  \/ Mode = "gen" /\ (Len(hist) < N \/ PrintT(ToJson([ops |-> hist])))
  \/ Mode \in {"fullsend", "fullrecv"} /\ (ENABLED Next \/ PrintT(ToJson([ops |-> hist])))

-----------------------------------------------------------------------------
(* Properties (model checking, Mode = "mc"). *)

Increasing(s) == \A i \in 1..(Len(s) - 1) : s[i] < s[i + 1]

TypeOK ==
  /\ now \in 0..MaxNow /\ closed \in BOOLEAN
  /\ \A a \in Addrs : rec[a].h \in 0..Len(ch) /\ held[a] \in 0..Len(ch)
  /\ \A h \in DOMAIN ch : Len(ch[h].q) <= QCap /\ ch[h].a \in Addrs
  /\ Len(recvQ) <= QCap

(* Records and queues are mutually consistent: a record's queue is open and
   belongs to its address, every open queue belongs to a record. *)
Consistent ==
  /\ \A a \in Present : ch[rec[a].h].open /\ ch[rec[a].h].a = a
  /\ \A h \in DOMAIN ch : ch[h].open => rec[ch[h].a].h = h

(* Per-address FIFO and packet identity: every queue holds distinct packets
   in the order they were accepted (ids are issued increasingly), and only
   packets addressed to it. *)
FIFO ==
  /\ \A h \in DOMAIN ch : Increasing(ch[h].q)
  /\ Increasing([i \in DOMAIN recvQ |-> recvQ[i][1]])
DequeueIsHead ==
  [][\A a \in Addrs : (held[a] # 0 /\ ch'[held[a]].q # ch[held[a]].q /\ Len(ch'[held[a]].q) < Len(ch[held[a]].q))
        => (last'.res = "pkt" /\ last'.pkt = Head(ch[held[a]].q) /\ ch'[held[a]].q = Tail(ch[held[a]].q))]_vars
NoCrossTalk ==   \* an accepted packet appears only in the queue of the address it was written to (W enqueues to rec'[a].h)
  [][\A h \in DOMAIN ch' : (h \in DOMAIN ch /\ Len(ch'[h].q) > Len(ch[h].q)) => (ch'[h].q = Append(ch[h].q, npkt') /\ rec'[ch[h].a].h = h)]_vars

(* A record disappears, and a queue is closed, only in a Sweep, and only when
   it has been idle for the full timeout. *)
NeverDiscardEarly ==
  [][/\ \A a \in Addrs : (rec[a].h # 0 /\ rec'[a].h # rec[a].h) => (now - rec[a].seen >= T /\ now' = now /\ last'.res = "ok")
     /\ \A h \in DOMAIN ch : (ch[h].open /\ ~ch'[h].open) => (now - rec[ch[h].a].seen >= T)]_vars
(* A queue and its contents are kept while its client is seen within the
   timeout: nothing but a dequeue at the head or an enqueue at the tail. *)
KeptWhileSeen ==
  [][\A a \in Addrs : (rec[a].h # 0 /\ now - rec[a].seen < T) =>
        /\ rec'[a].h = rec[a].h
        /\ LET q == ch[rec[a].h].q  q2 == ch'[rec[a].h].q IN
           \/ q2 = q \/ (q # <<>> /\ q2 = Tail(q)) \/ (Len(q2) = Len(q) + 1 /\ SubSeq(q2, 1, Len(q)) = q)]_vars
(* After a Sweep nothing idle for the timeout or longer remains. *)
IsSweep == now' = now /\ closed' = closed /\ npkt' = npkt /\ recvQ' = recvQ /\ held' = held
           /\ \A h \in DOMAIN ch : ch'[h].q = ch[h].q
           /\ \A a \in Addrs : rec'[a].seen = rec[a].seen \/ rec'[a] = NoRec
SweepComplete ==
  [][(rec' # rec /\ IsSweep) => \A a \in Addrs : rec'[a].h # 0 => now' - rec'[a].seen < T]_vars
(* With the periodic sweeper a record is discarded at the first sweep after it
   has been idle for the timeout: it is never present with an idleness of
   T + H or more (nominally one and a half timeouts). *)
SweptInTime == Mode = "periodic" => \A a \in Present : Idle(a) < T + H

(* Everything fails after Close; a closed conn accepts nothing. *)
OpsFailAfterClose ==
  [][closed => /\ closed' /\ recvQ' = recvQ
               /\ \A h \in DOMAIN ch : ch'[h].q = ch[h].q
               /\ (last'.op \in {"W", "R", "C"} => last'.res = "err")]_vars
=============================================================================
