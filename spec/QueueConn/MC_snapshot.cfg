CONSTANTS
  NAddr = 2
  T = 2
  QCap = 2
  MaxNow = 3
  MaxPkts = 1
  MaxH = 3
  Mode = "mc"
  H = 1
  N = 0
  PerRecordSweep = TRUE
  SnapshotSweep = TRUE
  Target = "inner"
SPECIFICATION Spec
INVARIANTS TypeOK Consistent FIFO
PROPERTIES DequeueIsHead NoCrossTalk NeverDiscardEarly KeptWhileSeen
CHECK_DEADLOCK FALSE
