CONSTANTS
  NAddr = 2
  T = 2
  QCap = 2048
  MaxNow = 100
  MaxPkts = 0
  MaxH = 0
  Mode = "fullsend"
  H = 1
  N = 0
  PerRecordSweep = FALSE
  SnapshotSweep = FALSE
  Target = "conn"
SPECIFICATION Spec
INVARIANTS Emit
CHECK_DEADLOCK FALSE
