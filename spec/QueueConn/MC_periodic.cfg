CONSTANTS
  NAddr = 2
  T = 2
  QCap = 2
  MaxNow = 6
  MaxPkts = 2
  MaxH = 3
  Mode = "periodic"
  H = 1
  N = 0
  PerRecordSweep = FALSE
  SnapshotSweep = FALSE
  Target = "all"
SPECIFICATION Spec
INVARIANTS TypeOK Consistent FIFO SweptInTime
PROPERTIES DequeueIsHead NoCrossTalk NeverDiscardEarly KeptWhileSeen SweepComplete OpsFailAfterClose
CHECK_DEADLOCK FALSE
