--------------------------- MODULE QueueConn_Trace ---------------------------
(* Trace specification for the periodic sweeper of the real ClientMap
   (NewClientMap(T): for { Sleep(T/2); removeExpired(time.Now(), T) }),
   observed in real time by TestVerifSweeper.  Times are microseconds on the
   test's monotonic clock.  One client = one record; the bounds are those of
   QueueConn: NeverDiscardEarly (a record is discarded only when idle >= T),
   KeptWhileSeen (same queue, contents intact, while seen within T) and
   SweptInTime of the periodic mode (never present when idle >= T + H), the
   latter with a scheduling allowance Slack.

   Events, in time order:
     touch{a, t0, t1, same}   SendQueue(a) started at t0, returned at t1;
                              same: it returned the queue the client already had
     kept{a, n}               number of packets in the client's queue after its
                              last touch (one was put in at the first touch)
     closed{a, t}             the client's watcher saw the queue closed at t
     open{a, t}               the watcher gave up at t, the queue was still open

   The record's LastSeen lies in [t0, t1] of its latest touch and a close is
   observed after it happened, hence:  early  <=>  t - t0 < T   (no allowance
   needed),  late  <=>  t - t1 > T + H + Slack. *)
EXTENDS Integers, Sequences, TLC, Json

CONSTANTS T, H, Slack, NClients

TraceLog == ndJsonDeserialize("trace.ndjson")

VARIABLES l, s0, s1, gone, repl
\* s0[a], s1[a]: start/end of the latest touch of client a (-1: never touched); gone[a]: its queue was seen closed
\* repl[a]: some touch of a legitimately returned a new queue (the client had been idle for T)
vars == <<l, s0, s1, gone, repl>>
Clients == 0..(NClients - 1)
Ev == TraceLog[l]
Is(name) == l <= Len(TraceLog) /\ Ev.ev = name

Init == l = 1 /\ s0 = [a \in Clients |-> -1] /\ s1 = [a \in Clients |-> -1] /\ gone = [a \in Clients |-> FALSE] /\ repl = [a \in Clients |-> FALSE] /\ TLCSet(1, 1)

Touch ==
  /\ Is("touch") /\ ~gone[Ev.a]
  /\ \/ s0[Ev.a] = -1                       \* first touch creates the record
     \/ Ev.same                             \* the record was kept
     \/ Ev.t1 - s0[Ev.a] >= T               \* or it may have been discarded: it had been idle for T
  /\ s0' = [s0 EXCEPT ![Ev.a] = Ev.t0] /\ s1' = [s1 EXCEPT ![Ev.a] = Ev.t1]
  /\ repl' = [repl EXCEPT ![Ev.a] = @ \/ (s0[Ev.a] # -1 /\ ~Ev.same)]
  /\ l' = l + 1 /\ UNCHANGED gone

Kept ==      \* the packet queued at the first touch must still be there, unless the queue was
             \* legitimately replaced (a gap of T or more between two touches, e.g. a stalled test)
  /\ Is("kept") /\ (Ev.n = 1 \/ repl[Ev.a])
  /\ l' = l + 1 /\ UNCHANGED <<s0, s1, gone, repl>>

Closed ==
  /\ Is("closed") /\ ~gone[Ev.a] /\ s0[Ev.a] # -1
  /\ Ev.t - s0[Ev.a] >= T                   \* NeverDiscardEarly
  /\ Ev.t - s1[Ev.a] <= T + H + Slack       \* SweptInTime (+ allowance)
  /\ gone' = [gone EXCEPT ![Ev.a] = TRUE]
  /\ l' = l + 1 /\ UNCHANGED <<s0, s1, repl>>

\* open{a,t} has no action: a queue still open after the watcher's patience is never explained.

Next == Touch \/ Kept \/ Closed
Spec == Init /\ [][Next]_vars

Mark == IF l > TLCGet(1) THEN TLCSet(1, l) ELSE TRUE
Accepted ==
  \/ TLCGet(1) = Len(TraceLog) + 1
  \/ /\ PrintT(<<"UNEXPLAINED", TLCGet(1)>>)
     /\ PrintT(ToJson(TraceLog[TLCGet(1)]))
     /\ FALSE
=============================================================================
