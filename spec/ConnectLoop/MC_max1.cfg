CONSTANTS
  Max = 1
  NPeers = 3
  RT = 2
  DCT = 2
  ST = 3
  Poll = 1
  Cap = 8
  Modes <- ModesMC
  Jumps = {}
  Timed = TRUE
  Backoff = FALSE
  BackoffReal = FALSE
  LateTimer = FALSE
  MaxAge = 24
  MaxEnv = 5
SPECIFICATION Spec
INVARIANTS TypeOK RecollectBound CarrierGapBound LoopStops AfterEnd NoCatchAfterEnd AllClosedAfterEnd Bound StaleBound CarrierLive
CHECK_DEADLOCK FALSE
