CONSTANTS
  Max = 1
  NPeers = 40
  RT = 2
  DCT = 2
  ST = 4
  Poll = 1
  Cap = 720
  Modes <- ModesGen
  Jumps = {12, 120, 720, 2000}
  Timed = TRUE
  Backoff = FALSE
  BackoffReal = FALSE
  LateTimer = FALSE
  MaxAge = 100000000
  MaxEnv = 40
  MinEnv = 14
SPECIFICATION GSpec
CHECK_DEADLOCK FALSE
