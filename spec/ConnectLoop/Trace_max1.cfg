CONSTANTS
  Max = 1
  NPeers = 96
  RT = 10000
  DCT = 10000
  ST = 20000
  Poll = 1000
  Cap = 3600000
  Modes <- ModesOK
  Jumps = {}
  Timed = FALSE
  Backoff = FALSE
  BackoffReal = FALSE
  LateTimer = FALSE
  MaxAge = 1000000000
  MaxEnv = 1000000
SPECIFICATION TSpec
CONSTRAINT Mark
POSTCONDITION Post
INVARIANTS TRecollectBound CarrierGapBound LoopStops AfterEnd NoCatchAfterEnd AllClosedAfterEnd Bound StaleBound CarrierLive
CHECK_DEADLOCK FALSE
