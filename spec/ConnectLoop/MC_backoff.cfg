CONSTANTS
  Max = 1
  NPeers = 3
  RT = 2
  DCT = 2
  ST = 3
  Poll = 1
  Cap = 8
  Modes <- ModesOK
  Jumps = {}
  Timed = TRUE
  Backoff = TRUE
  BackoffReal = FALSE
  LateTimer = FALSE
  MaxAge = 12
  MaxEnv = 4
SPECIFICATION Spec
INVARIANTS TypeOK RecollectBound CarrierGapBound LoopStops AfterEnd NoCatchAfterEnd AllClosedAfterEnd Bound StaleBound CarrierLive
CHECK_DEADLOCK FALSE
