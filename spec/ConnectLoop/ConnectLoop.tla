---------------------------- MODULE ConnectLoop ----------------------------
(* The client's collection loop WITH AN EXPLICIT CLOCK.

   client/lib/snowflake.go connectLoop:
       for { timer := time.After(ReconnectTimeout)      -- LStart (timer armed BEFORE Collect)
             _, err := snowflakes.Collect()             -- LCheck .. LRet
             select { case <-timer: continue            -- LStart again, at max(start+RT, end)
                      case <-snowflakes.Melted(): return } }   -- LExit
   client/lib/peers.go Collect (lock; melt test; Count = purge + capacity test; Tongue.Catch;
   PushBack; select{send, melt}; unlock), Pop (receive; skip closed peers), End (close(melt);
   lock; close(chan); close every peer), and the one caller of Pop, newSession's dialContext
   (RedialPacketConn redials only when its carrier has failed: Pop is called only while the
   session has no live carrier).  spec/Peers owns the untimed interleavings of these steps;
   this module owns TIME: how long the loop may stay away from Collect, and how long a session
   whose carrier died waits for the replacement.

   Clock.  `now` counts units (MC: abstract, RT = 2 or 3; traces: milliseconds).  With
   Timed = TRUE the code's steps are urgent (Tick may not pass a deadline: the loop's timer,
   the end of the attempt in flight, the staleness limit; every other code step is
   instantaneous) - this is the model TLC checks.  With Timed = FALSE (trace validation) time
   comes from the log and only the invariants judge it.

   What the code guarantees (read from the loop) and what is checked:
     RecollectBound   while the loop is not inside Collect and End has not been called,
                      now <= max(start of the last attempt + RT, end of the last attempt):
                      the timer runs from BEFORE Collect, so a finished attempt is followed
                      by the next one RT after its START, or at once when it took longer.
                      Independent of the age of the session and of the outcomes so far.
     CarrierGapBound  while a Pop is pending, the Tongue delivers and no peer has died since,
                      the time spent OUTSIDE an attempt is <= RT and at most one attempt
                      starts (it serves the Pop): gap <= RT + remainder of a failing attempt
                      in flight + one attempt.
     LoopStops, AfterEnd, NoCatchAfterEnd   once End has been called the loop leaves its wait
                      at once; at most one more Collect starts (timer and melt ready at the
                      same instant) and it never reaches the Tongue after End returned.
     Bound            never more than Max live peers.
     StaleBound       a frozen peer is closed within ST + Poll (checkForStaleness).
   What-if constants (FALSE/"none" = the code): Backoff (the seeded change: the delay doubles
   after EVERY Collect error, i.e. also "At capacity", capped at Cap), BackoffReal (doubles
   after rendezvous / data channel failures only), LateTimer (timer armed after Collect).

   Don't-cares: error texts; which of two same-instant ready cases a select takes; how long a
   rendezvous takes (environment: Modes); attempts spaced MORE closely than RT (polling
   faster is not forbidden by C01/C15; the model's timer guard says what the code does). *)
EXTENDS Integers, Sequences, FiniteSets, TLC

CONSTANTS Max, NPeers, RT, DCT, ST, Poll, Cap,
          Modes,        \* set of <<class, duration>> the Tongue can be switched to
          Jumps,        \* generation only: numbers of loop periods skipped at rest
          Timed, Backoff, BackoffReal, LateTimer, MaxAge, MaxEnv

VARIABLES now, loop, out, lastStart, lastEnd, delay, deadline, att, tongue,
          nextPeer, live, active, chan, chanClosed, carrier, frozen,
          pop, endpc, melted, meltTime, idle, gapAtt, startsAfter, nenv

vars == <<now, loop, out, lastStart, lastEnd, delay, deadline, att, tongue, nextPeer, live, active,
          chan, chanClosed, carrier, frozen, pop, endpc, melted, meltTime, idle, gapAtt, startsAfter, nenv>>

(* a .cfg cannot spell a tuple: the mode sets live here (Modes <- ModesMC) *)
ModesMC  == {<<"ok", 0>>, <<"ok", 1>>, <<"rv", 1>>, <<"rv", 3>>, <<"dc", 0>>}
ModesOK  == {<<"ok", 0>>}
ModesMin == {<<"ok", 0>>, <<"rv", 1>>}
ModesGen == {<<"ok", 0>>, <<"ok", 1>>, <<"rv", 1>>, <<"rv", 3>>, <<"dc", 0>>}

Max2(a, b) == IF a >= b THEN a ELSE b
Min2(a, b) == IF a <= b THEN a ELSE b
AttLen(m) == IF m[1] = "dc" THEN m[2] + DCT ELSE m[2]
AtCap == Cardinality(active \cap live) >= Max
LiveInChan == {i \in 1..Len(chan) : chan[i] \in live}
GapOn == pop = "pending" /\ tongue[1] = "ok" /\ ~melted
Fails == {"rv", "dc"}

Init ==
  /\ now = 0 /\ loop = "wait" /\ out = "none" /\ lastStart = 0 - RT /\ lastEnd = 0
  /\ delay = RT /\ deadline = 0 /\ att = <<"none", 0>> /\ tongue \in {m \in Modes : m[1] = "ok"}
  /\ nextPeer = 1 /\ live = {} /\ active = {} /\ chan = <<>> /\ chanClosed = FALSE
  /\ carrier = 0 /\ frozen = [p \in 1..NPeers |-> -1]
  /\ pop = "idle" /\ endpc = "idle" /\ melted = FALSE /\ meltTime = -1
  /\ idle = 0 /\ gapAtt = 0 /\ startsAfter = 0 /\ nenv = 0

-----------------------------------------------------------------------------
(* the loop *)
UEnv == UNCHANGED <<tongue, carrier, frozen, pop, endpc, melted, meltTime, idle, nenv>>

LStart ==
  /\ loop = "wait" /\ (Timed => now >= deadline)
  /\ loop' = "check" /\ lastStart' = now
  /\ deadline' = IF LateTimer THEN deadline ELSE now + delay
  /\ gapAtt' = IF GapOn THEN gapAtt + 1 ELSE gapAtt
  /\ startsAfter' = IF endpc = "returned" THEN startsAfter + 1 ELSE startsAfter
  /\ UNCHANGED <<now, out, lastEnd, delay, att, nextPeer, live, active, chan, chanClosed>> /\ UEnv

(* Collect up to the capacity test: the lock is free (End's critical section is one step) *)
LCheckFail ==
  /\ loop = "check" /\ (melted \/ AtCap)
  /\ loop' = "ret" /\ out' = IF melted THEN "melted" ELSE "atCapacity"
  /\ active' = IF melted THEN active ELSE active \cap live      \* purgeClosedPeers
  /\ UNCHANGED <<now, lastStart, lastEnd, delay, deadline, att, nextPeer, live, chan, chanClosed, gapAtt, startsAfter>> /\ UEnv

LCatch ==
  /\ loop = "check" /\ ~melted /\ ~AtCap
  /\ loop' = "catch" /\ active' = active \cap live
  /\ att' = <<tongue[1], now + AttLen(tongue)>>
  /\ UNCHANGED <<now, out, lastStart, lastEnd, delay, deadline, nextPeer, live, chan, chanClosed, gapAtt, startsAfter>> /\ UEnv

LCatchOK ==
  /\ loop = "catch" /\ att[1] = "ok" /\ (Timed => now >= att[2]) /\ nextPeer <= NPeers
  /\ loop' = "send" /\ live' = live \cup {nextPeer} /\ active' = active \cup {nextPeer}
  /\ nextPeer' = nextPeer + 1
  /\ UNCHANGED <<now, out, lastStart, lastEnd, delay, deadline, att, chan, chanClosed, gapAtt, startsAfter>> /\ UEnv

LCatchFail ==
  /\ loop = "catch" /\ att[1] \in Fails /\ (Timed => now >= att[2])
  /\ loop' = "ret" /\ out' = att[1]
  /\ UNCHANGED <<now, lastStart, lastEnd, delay, deadline, att, nextPeer, live, active, chan, chanClosed, gapAtt, startsAfter>> /\ UEnv

(* select { case snowflakeChan <- connection: ; case <-melt: connection.Close() } *)
LSend ==
  /\ loop = "send"
  /\ \/ /\ Len(chan) < Max /\ ~chanClosed
        /\ chan' = Append(chan, nextPeer - 1) /\ out' = "ok" /\ live' = live
     \/ /\ melted
        /\ chan' = chan /\ out' = "melted" /\ live' = live \ {nextPeer - 1}
  /\ loop' = "ret"
  /\ UNCHANGED <<now, lastStart, lastEnd, delay, deadline, att, nextPeer, active, chanClosed, gapAtt, startsAfter>> /\ UEnv

Doubles(o) == (Backoff /\ o # "ok") \/ (BackoffReal /\ o \in Fails)
LRet ==
  /\ loop = "ret"
  /\ loop' = "wait" /\ lastEnd' = now
  /\ delay' = IF Doubles(out) THEN Min2(2 * delay, Cap) ELSE IF out = "ok" THEN RT ELSE delay
  /\ deadline' = IF LateTimer THEN now + delay ELSE deadline
  /\ UNCHANGED <<now, out, lastStart, att, nextPeer, live, active, chan, chanClosed, gapAtt, startsAfter>> /\ UEnv

LExit ==
  /\ loop = "wait" /\ melted
  /\ loop' = "exited"
  /\ UNCHANGED <<now, out, lastStart, lastEnd, delay, deadline, att, nextPeer, live, active, chan, chanClosed, gapAtt, startsAfter>> /\ UEnv

-----------------------------------------------------------------------------
(* the data path: Pop *)
ULoop == UNCHANGED <<now, loop, out, lastStart, lastEnd, delay, deadline, att, nextPeer, startsAfter>>

PopCall ==
  /\ pop = "idle" /\ carrier = 0 /\ nenv < MaxEnv
  /\ pop' = "pending" /\ idle' = 0 /\ gapAtt' = 0 /\ nenv' = nenv + 1
  /\ ULoop /\ UNCHANGED <<tongue, live, active, chan, chanClosed, carrier, frozen, endpc, melted, meltTime>>

PopDrain ==      \* Pop skips a closed peer
  /\ pop = "pending" /\ chan # <<>> /\ Head(chan) \notin live
  /\ chan' = Tail(chan)
  /\ ULoop /\ UNCHANGED <<tongue, live, active, chanClosed, carrier, frozen, pop, endpc, melted, meltTime, idle, gapAtt, nenv>>

PopServe ==
  /\ pop = "pending" /\ chan # <<>> /\ Head(chan) \in live
  /\ carrier' = Head(chan) /\ chan' = Tail(chan) /\ pop' = "idle" /\ idle' = 0 /\ gapAtt' = 0
  /\ ULoop /\ UNCHANGED <<tongue, live, active, chanClosed, frozen, endpc, melted, meltTime, nenv>>

PopNil ==        \* the channel is closed and empty: Pop returns nil
  /\ pop = "pending" /\ chan = <<>> /\ chanClosed
  /\ pop' = "done" /\ idle' = 0 /\ gapAtt' = 0
  /\ ULoop /\ UNCHANGED <<tongue, live, active, chan, chanClosed, carrier, frozen, endpc, melted, meltTime, nenv>>

-----------------------------------------------------------------------------
(* the environment *)
Die(p) ==
  /\ live' = live \ {p} /\ carrier' = IF carrier = p THEN 0 ELSE carrier
  /\ idle' = 0 /\ gapAtt' = 0
  /\ ULoop /\ UNCHANGED <<tongue, active, chan, chanClosed, frozen, pop, endpc, melted, meltTime>>

PeerDies(p) ==      \* remote close (DataChannel.OnClose -> WebRTCPeer.Close)
  /\ p \in live /\ frozen[p] < 0 /\ nenv < MaxEnv /\ ~(loop = "send" /\ p = nextPeer - 1)
  /\ nenv' = nenv + 1 /\ Die(p)

Freeze(p) ==        \* the proxy stops talking; checkForStaleness will close the peer
  /\ p = carrier /\ p \in live /\ frozen[p] < 0 /\ nenv < MaxEnv
  /\ frozen' = [frozen EXCEPT ![p] = now] /\ nenv' = nenv + 1
  /\ ULoop /\ UNCHANGED <<tongue, live, active, chan, chanClosed, carrier, pop, endpc, melted, meltTime, idle, gapAtt>>

StaleDeath(p) ==
  /\ p \in live /\ frozen[p] >= 0 /\ (Timed => now > frozen[p] + ST)
  /\ nenv' = nenv /\ Die(p)

SetTongue(c, d) ==
  /\ <<c, d>> \in Modes /\ <<c, d>> # tongue /\ nenv < MaxEnv
  /\ tongue' = <<c, d>> /\ idle' = 0 /\ gapAtt' = 0 /\ nenv' = nenv + 1
  /\ ULoop /\ UNCHANGED <<live, active, chan, chanClosed, carrier, frozen, pop, endpc, melted, meltTime>>

EndCall ==
  /\ endpc = "idle" /\ nenv < MaxEnv
  /\ endpc' = "called" /\ nenv' = nenv + 1
  /\ ULoop /\ UNCHANGED <<tongue, live, active, chan, chanClosed, carrier, frozen, pop, melted, meltTime, idle, gapAtt>>

EMelt ==
  /\ endpc = "called"
  /\ endpc' = "lock" /\ melted' = TRUE /\ meltTime' = now
  /\ ULoop /\ UNCHANGED <<tongue, live, active, chan, chanClosed, carrier, frozen, pop, idle, gapAtt, nenv>>

ELock ==         \* lock; close(chan); close all; unlock - needs the lock Collect holds from the melt test to its return
  /\ endpc = "lock" /\ loop \notin {"catch", "send"}
  /\ endpc' = "done" /\ chanClosed' = TRUE /\ live' = live \ active /\ active' = {}
  /\ carrier' = IF carrier \in active THEN 0 ELSE carrier
  /\ ULoop /\ UNCHANGED <<tongue, chan, frozen, pop, melted, meltTime, idle, gapAtt, nenv>>

ERet ==
  /\ endpc = "done"
  /\ endpc' = "returned"
  /\ ULoop /\ UNCHANGED <<tongue, live, active, chan, chanClosed, carrier, frozen, pop, melted, meltTime, idle, gapAtt, nenv>>

-----------------------------------------------------------------------------
(* time *)
CodeStep == LCheckFail \/ LCatch \/ LSend \/ LRet \/ LExit \/ PopDrain \/ PopServe \/ PopNil \/ EMelt \/ ELock \/ ERet
(* a code step that takes no time is due (= ENABLED CodeStep, written out) *)
Instant ==
  \/ loop \in {"check", "ret"} \/ (loop = "wait" /\ melted)
  \/ (loop = "send" /\ (Len(chan) < Max \/ melted))
  \/ (pop = "pending" /\ (chan # <<>> \/ chanClosed))
  \/ endpc \in {"called", "done"} \/ (endpc = "lock" /\ loop \notin {"catch", "send"})
AttemptDue == loop = "catch" /\ now >= att[2]
TimerDue == loop = "wait" /\ now >= deadline

CanPass(d) ==
  /\ ~Instant
  /\ loop = "wait" => now + d <= deadline
  /\ loop = "catch" => now + d <= att[2]
  /\ \A p \in live : frozen[p] >= 0 => now + d <= frozen[p] + ST + Poll

Advance(d) ==
  /\ now' = now + d
  /\ idle' = IF GapOn /\ loop = "wait" THEN idle + d ELSE idle
  /\ UNCHANGED <<loop, out, lastStart, lastEnd, delay, deadline, att, tongue, nextPeer, live, active, chan, chanClosed,
                 carrier, frozen, pop, endpc, melted, meltTime, gapAtt, startsAfter, nenv>>

Tick == (Timed => CanPass(1)) /\ now < MaxAge /\ Advance(1)

(* generation only: k whole periods pass in a steady state (healthy session at capacity, or a
   Tongue that fails faster than the period): every iteration repeats the previous one.  Taken
   right after an iteration; lands one unit later, so that jumps do not follow one another. *)
Steady == /\ loop = "wait" /\ endpc = "idle" /\ now = lastEnd /\ now + 1 <= deadline /\ ~Instant
          /\ ~Backoff /\ ~BackoffReal /\ ~LateTimer
          /\ \A p \in live : frozen[p] < 0
          /\ AtCap \/ (tongue[1] \in Fails /\ AttLen(tongue) < RT)
Idle(k) ==
  /\ k \in Jumps /\ Steady /\ (~AtCap => k <= 120) /\ nenv < MaxEnv
  /\ now' = now + k * RT + 1 /\ lastStart' = lastStart + k * RT /\ lastEnd' = lastEnd + k * RT /\ deadline' = deadline + k * RT
  /\ nenv' = nenv + 1
  /\ UNCHANGED <<loop, out, delay, att, tongue, nextPeer, live, active, chan, chanClosed, carrier, frozen, pop, endpc,
                 melted, meltTime, idle, gapAtt, startsAfter>>

Env == \/ PopCall \/ EndCall
       \/ \E p \in 1..NPeers : PeerDies(p) \/ Freeze(p) \/ StaleDeath(p)
       \/ \E m \in Modes : SetTongue(m[1], m[2])

Next == LStart \/ CodeStep \/ LCatchOK \/ LCatchFail \/ Env \/ Tick \/ (\E k \in Jumps : Idle(k))
Spec == Init /\ [][Next]_vars

(* the environment of the generation sub-model (ConnectLoop_Gen) acts only at rest *)
Rest == ~Instant /\ ~TimerDue /\ ~AttemptDue

-----------------------------------------------------------------------------
TypeOK ==
  /\ now \in Nat /\ loop \in {"wait", "check", "catch", "send", "ret", "exited"}
  /\ out \in {"none", "ok", "atCapacity", "melted", "rv", "dc"}
  /\ lastStart \in Int /\ lastEnd \in Nat /\ delay \in Nat /\ deadline \in Int
  /\ tongue \in Modes /\ nextPeer \in 1..(NPeers + 1)
  /\ live \subseteq 1..NPeers /\ active \subseteq 1..NPeers /\ Len(chan) <= Max
  /\ carrier \in 0..NPeers /\ pop \in {"idle", "pending", "done"}
  /\ endpc \in {"idle", "called", "lock", "done", "returned"}

RecollectBound == (loop = "wait" /\ ~melted) => now <= Max2(lastStart + RT, lastEnd)
CarrierGapBound == GapOn => (idle <= RT /\ gapAtt <= 1)
LoopStops == (loop = "wait" /\ melted) => now = Max2(meltTime, lastEnd)
AfterEnd == startsAfter <= 1
NoCatchAfterEnd == endpc \in {"done", "returned"} => loop \notin {"catch", "send"}
AllClosedAfterEnd == endpc = "returned" => (live = {} /\ active = {})
Bound == Cardinality(live) <= Max
StaleBound == \A p \in live : frozen[p] >= 0 => now <= frozen[p] + ST + Poll
CarrierLive == carrier # 0 => carrier \in live
AgeOK == now <= MaxAge
=============================================================================
