--------------------------- MODULE ConnectLoop_Gen ---------------------------
(* Generation sub-model of ConnectLoop for `tlc -simulate`: the environment acts only when
   the code is at rest (the harness issues a command after synctest.Wait), and the random
   walk is shaped so that behaviours are worth replaying: one change of the Tongue per
   instant, End only after MinEnv other commands, long steady stretches skipped by Idle(k).
   The walk only PROPOSES command sequences; the recorded traces are judged by
   ConnectLoop_Trace from their own timestamps. *)
EXTENDS ConnectLoop
CONSTANT MinEnv
VARIABLE lastEnv
gvars == <<vars, lastEnv>>

GInit == Init /\ lastEnv = "none"
Keep == UNCHANGED lastEnv
Set(x) == lastEnv' = x

GCode == (LStart \/ CodeStep \/ LCatchOK \/ LCatchFail) /\ Keep
GStale(p) == StaleDeath(p) /\ Set("death")
GPopCall == Rest /\ PopCall /\ Set("pop")
GEndCall == Rest /\ nenv >= MinEnv /\ EndCall /\ Set("end")
GPeerDies(p) == Rest /\ endpc = "idle" /\ PeerDies(p) /\ Set("death")
GFreeze(p) == Rest /\ endpc = "idle" /\ Freeze(p) /\ Set("freeze")
GSetTongue(c, d) == Rest /\ endpc = "idle" /\ lastEnv = "time" /\ now = lastEnd /\ SetTongue(c, d) /\ Set("tongue")
Over == loop = "exited" /\ endpc = "returned" /\ pop # "pending"
GTick == ~Over /\ Tick /\ Set("time")
GIdle(k) == Idle(k) /\ Set("time")

GNext == \/ GCode \/ GPopCall \/ GEndCall \/ GTick
         \/ (\E p \in 1..NPeers : GStale(p) \/ GPeerDies(p) \/ GFreeze(p))
         \/ (\E m \in Modes : GSetTongue(m[1], m[2]))
         \/ (\E k \in Jumps : GIdle(k))
GSpec == GInit /\ [][GNext]_gvars
=============================================================================
