------------------------- MODULE ConnectLoop_Trace -------------------------
(* Trace specification for ConnectLoop.

   traces.ndjson: one JSON object per line, {"id": n, "max": Max, "events": [...]}, recorded by
   harness/inpkg/client_lib/connectloop_clock_verif_test.go from the REAL Peers and the REAL
   connectLoop inside a testing/synctest bubble (fake clock).  All traces of one file have the
   same Max (= the constant).  Every event carries "t": integer milliseconds of fake time since
   the loop was started.  Units of this configuration are milliseconds (RT = 10000 ...): the
   constants come from the .cfg, never from the code.

     collect.start              the loop calls Collect (logged by the collector wrapper)
     catch.start {cls}          Tongue.Catch entered (cls = the scripted class ok|rv|dc)
     catch.end   {ok, k}        Tongue.Catch about to return peer k / the scripted error
     collect.end {out}          Collect returned: ok|atCapacity|melted|rv|dc
     run {first, n, gmax}       n back-to-back iterations "collect.start, collect.end(atCapacity)"
                                compressed by the recorder: first = t of the first start, t = t of
                                the last, gmax = largest distance between consecutive starts
     loop.exit                  connectLoop returned
     pop.call / pop.blocked / pop.served {k}    the data path (k = 0: Pop returned nil);
                                pop.blocked is an observation at rest (synctest.Wait)
     peer.died {k, cause}       kill (the driver closes it, as DataChannel.OnClose does) | stale
     peer.frozen {k}            the driver stops feeding lastReceive
     tongue {cls, dur}          the Tongue's script changes
     end.called / end.returned {open}    Peers.End; open = peers made and not closed

   Time comes from the log (Timed = FALSE): TTick moves `now` to the next event's t whenever
   no SILENT code step is due; the invariants of ConnectLoop judge the times.  Silent steps:
   the capacity/melt test that fails (LCheckFail), the hand-over (LSend), Pop skipping a closed
   peer, End's close(melt) and End's critical section. *)
EXTENDS ConnectLoop, Json, TLCExt

VARIABLES tr, l, worst, early
tvars == <<vars, tr, l, worst, early>>

Traces == ndJsonDeserialize("traces.ndjson")
NTr == Len(Traces)
Events(t) == Traces[t].events

TInit == tr \in 1..NTr /\ l = 1 /\ worst = 0 /\ early = {} /\ Init /\ TLCSet(tr, 1)

HasNext == l <= Len(Events(tr))
E == Events(tr)[l]
IsEv(n) == HasNext /\ E.ev = n /\ E.t = now
Adv == l' = l + 1 /\ UNCHANGED <<tr, worst, early>>
Same == UNCHANGED <<tr, l, worst, early>>

TStart     == IsEv("collect.start") /\ LStart /\ Adv
TCatch     == IsEv("catch.start") /\ E.cls = tongue[1] /\ LCatch /\ Adv
TCatchOK   == IsEv("catch.end") /\ E.ok /\ E.k = nextPeer /\ LCatchOK /\ Adv
TCatchFail == IsEv("catch.end") /\ ~E.ok /\ LCatchFail /\ Adv
TRet       == IsEv("collect.end") /\ E.out = out /\ LRet /\ Adv
TExit      == IsEv("loop.exit") /\ LExit /\ Adv
TPopCall   == IsEv("pop.call") /\ PopCall /\ Adv
TPopServe  == IsEv("pop.served") /\ E.k # 0 /\ chan # <<>> /\ E.k = Head(chan) /\ PopServe /\ Adv
TPopNil    == IsEv("pop.served") /\ E.k = 0 /\ PopNil /\ Adv
TBlocked   == IsEv("pop.blocked") /\ pop = "pending" /\ LiveInChan = {} /\ UNCHANGED vars /\ Adv
TKill      == IsEv("peer.died") /\ E.cause = "kill" /\ E.k \in live /\ nenv' = nenv /\ Die(E.k) /\ Adv
TStale     == IsEv("peer.died") /\ E.cause = "stale" /\ E.k \in live /\ frozen[E.k] >= 0 /\ now > frozen[E.k] + ST
              /\ nenv' = nenv /\ Die(E.k) /\ Adv
(* checkForStaleness closes the peer on its own goroutine; the rig's watcher logs the death after the fact,
   possibly after events of the same instant that already saw the peer closed: the death may be taken
   silently ahead of its event when that event follows at the same instant *)
StaleAhead(p) == \E j \in l..Len(Events(tr)) : /\ Events(tr)[j].t = now /\ Events(tr)[j].ev = "peer.died"
                                               /\ Events(tr)[j].cause = "stale" /\ Events(tr)[j].k = p
TStaleEarly == /\ HasNext /\ \E p \in live \ early : /\ frozen[p] >= 0 /\ now > frozen[p] + ST /\ StaleAhead(p)
                                                   /\ nenv' = nenv /\ Die(p) /\ early' = early \cup {p}
               /\ UNCHANGED <<tr, l, worst>>
TStaleLate == IsEv("peer.died") /\ E.cause = "stale" /\ E.k \in early /\ early' = early \ {E.k}
              /\ UNCHANGED vars /\ l' = l + 1 /\ UNCHANGED <<tr, worst>>
TFreeze    == IsEv("peer.frozen") /\ Freeze(E.k) /\ Adv
TTongue    == /\ IsEv("tongue") /\ tongue' = <<E.cls, E.dur>> /\ idle' = 0 /\ gapAtt' = 0
              /\ ULoop /\ UNCHANGED <<live, active, chan, chanClosed, carrier, frozen, pop, endpc, melted, meltTime, nenv>> /\ Adv
TEndCall   == IsEv("end.called") /\ EndCall /\ Adv
TEndRet    == IsEv("end.returned") /\ E.open = Cardinality(live) /\ ERet /\ Adv

SilentDue ==
  \/ (loop = "check" /\ (melted \/ AtCap))
  \/ (loop = "send" /\ (Len(chan) < Max \/ melted))
  \/ (pop = "pending" /\ chan # <<>> /\ Head(chan) \notin live)
  \/ endpc = "called" \/ (endpc = "lock" /\ loop \notin {"catch", "send"})
TSilent == HasNext /\ (LCheckFail \/ LSend \/ PopDrain \/ EMelt \/ ELock) /\ Same

TTick == HasNext /\ E.ev # "run" /\ now < E.t /\ ~SilentDue /\ Advance(E.t - now) /\ Same

(* a compressed run of "at capacity" iterations: the loop is in its wait, the collection is
   full, nothing else happened in between.  The lateness of the first start and the largest
   distance between two starts are folded into `worst` (judged by TRecollectBound). *)
TRun ==
  /\ HasNext /\ E.ev = "run" /\ now <= E.first /\ ~SilentDue
  /\ loop = "wait" /\ ~melted /\ AtCap
  /\ worst' = Max2(worst, Max2(E.first - Max2(lastStart + RT, lastEnd), E.gmax - RT))
  /\ now' = E.t /\ lastStart' = E.t /\ lastEnd' = E.t /\ out' = "atCapacity"
  /\ active' = active \cap live
  /\ idle' = IF GapOn THEN idle + (E.t - now) ELSE idle
  /\ UNCHANGED <<loop, delay, deadline, att, tongue, nextPeer, live, chan, chanClosed, carrier, frozen, pop,
                 endpc, melted, meltTime, gapAtt, startsAfter, nenv>>
  /\ l' = l + 1 /\ UNCHANGED <<tr, early>>

TNext == \/ TStart \/ TCatch \/ TCatchOK \/ TCatchFail \/ TRet \/ TExit \/ TPopCall \/ TPopServe \/ TPopNil
         \/ TBlocked \/ TKill \/ TStale \/ TStaleEarly \/ TStaleLate \/ TFreeze \/ TTongue \/ TEndCall \/ TEndRet \/ TSilent \/ TTick \/ TRun

TSpec == TInit /\ [][TNext]_tvars

TRecollectBound == RecollectBound /\ worst <= 0

Mark == (IF l > TLCGet(tr) THEN TLCSet(tr, l) ELSE TRUE)
Rejected == {t \in 1..NTr : TLCGet(t) # Len(Events(t)) + 1}
Post == PrintT(ToJson([nt |-> NTr, rejected |-> {<<Traces[t].id, TLCGet(t)>> : t \in Rejected}]))
=============================================================================
