CONSTANTS
  Max = 1
  NPeers = 3
  RT = 2
  DCT = 2
  ST = 3
  Poll = 1
  Cap = 8
  Modes <- ModesMin
  Jumps = {}
  Timed = TRUE
  Backoff = FALSE
  BackoffReal = TRUE
  LateTimer = FALSE
  MaxAge = 12
  MaxEnv = 4
SPECIFICATION Spec
INVARIANTS TypeOK RecollectBound CarrierGapBound LoopStops AfterEnd NoCatchAfterEnd AllClosedAfterEnd Bound StaleBound CarrierLive
CHECK_DEADLOCK FALSE
