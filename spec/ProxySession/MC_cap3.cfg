\* capacity 3, four sessions, accepted offers only (rejections are covered at capacity 1 and 2): all overlaps of three served sessions and the blocked fourth get()
CONSTANTS
  N = 3
  MaxSess = 4
  Round = 2
  AsIs_D11 = FALSE
  Pattern = "suffix"
  AllowNonTLS = FALSE
  Classes = {"in_wss"}
  MaxNoOffer = 0
  MaxTimeouts = 3
  EnvAtQuiet = FALSE
  GenNoFaults = FALSE
  GenHold = 0
  MaxPhantom = 0
  AddrKinds = {"real"}
SPECIFICATION FairSpec
INVARIANTS TypeOK SlotRange CapacityHonoured ReleasedAtMostOnce ReleasedAtEnd NoEarlyRelease RetNeverBlocks CounterMatches ReportedOK RelayPolicy FullCapacityAgain ToldAddrRight
PROPERTY PollsAgain
CHECK_DEADLOCK TRUE
