\* small replayable state graph (environment acts at rest) for the dot dump: goal-directed maximal paths
CONSTANTS
  N = 2
  MaxSess = 3
  Round = 8
  AsIs_D11 = FALSE
  Pattern = "suffix"
  AllowNonTLS = TRUE
  Classes = {"in_ws", "out_ws"}
  MaxNoOffer = 1
  MaxTimeouts = 1
  EnvAtQuiet = TRUE
  GenNoFaults = FALSE
  GenHold = 0
  MaxPhantom = 0
  AddrKinds = {"real"}
SPECIFICATION Spec
INVARIANTS TypeOK
CHECK_DEADLOCK FALSE
