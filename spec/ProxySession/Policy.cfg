\* emission of the expected relay-policy table: one initial state per (pattern, flag, class)
CONSTANTS
  N = 1
  MaxSess = 1
  Round = 8
  AsIs_D11 = FALSE
  Pattern = "suffix"
  AllowNonTLS = FALSE
  Classes = {}
  MaxNoOffer = 0
  MaxTimeouts = 0
  EnvAtQuiet = FALSE
  GenNoFaults = FALSE
  GenHold = 0
  MaxPhantom = 0
  AddrKinds = {"real"}
INIT PolicyInit
NEXT PolicyNext
INVARIANT PolicyEmit
CHECK_DEADLOCK FALSE
