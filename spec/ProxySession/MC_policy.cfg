\* relay policy: every URL class with one session; Pattern / AllowNonTLS are rewritten by the check (3 x 2 runs)
CONSTANTS
  N = 1
  MaxSess = 2
  Round = 2
  AsIs_D11 = FALSE
  Pattern = "suffix"
  AllowNonTLS = FALSE
  Classes = {"in_wss", "in_ws", "in_https", "in_port", "sub_wss", "glue_wss", "upper_wss", "out_wss", "out_ws", "out_inpath", "ui_in_at_out", "ui_out_at_in", "opaque", "empty", "unparsable"}
  MaxNoOffer = 0
  MaxTimeouts = 1
  EnvAtQuiet = TRUE
  GenNoFaults = FALSE
  GenHold = 0
  MaxPhantom = 0
  AddrKinds = {"real"}
SPECIFICATION Spec
INVARIANTS TypeOK SlotRange CapacityHonoured ReleasedAtMostOnce ReleasedAtEnd RelayPolicy FullCapacityAgain ToldAddrRight
CHECK_DEADLOCK TRUE
