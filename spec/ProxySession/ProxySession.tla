---------------------------- MODULE ProxySession ----------------------------
(* proxy/lib: the session-slot accounting of a Snowflake proxy
   (tokens.go, snowflake.go Start / runSession / pollOffer /
   makePeerConnectionFromOffer's OnDataChannel callback / datachannelHandler)
   and the relay-URL policy of runSession.

   Goroutines.
     main      the polling loop of Start(): tick, tokens.get(), runSession().
               It is strictly sequential: at most one session is being
               negotiated; sessions overlap only through their handlers.
     h[s]      the datachannelHandler goroutine of session s, spawned by the
               pion OnDataChannel callback.

   Grain.  tokens.get() and tokens.ret() are two steps each because the code
   changes the atomic counter BEFORE it touches the channel:
       get:  clients++   ;  ch <- token   (blocks while len(ch) = N)
       ret:  clients--   ;  <-ch          (blocks while len(ch) = 0)
   `inUse` is len(ch), `clients` is the atomic counter.

   Environment choices (what a scripted broker, a harness WebRTC client and a
   relay listener decide): the answer to every poll (NoOffer,
   BadBrokerResponse, OfferUndecodable, Offer(class, sdp)), the answer to
   every /answer post (AnswerOK / AnswerFail), whether and when the client
   opens the data channel (DCOpen), the 20 s timer (DCTimerFire), whether the
   relay accepts (RelayAccept / RelayDialFail) and when the relayed
   connection ends (RelayEnd).  Everything else is a step of the proxy.

   Deviation constant AsIs_D11.  In the pinned code the timeout branch AND the
   answer-failure branch of runSession call tokens.ret() unconditionally,
   while a data channel that opened meanwhile has already spawned a handler
   whose deferred tokens.ret() releases the same slot again (D11).  With
   AsIs_D11 = FALSE the model is the repaired code: the slot has one owner,
   decided by a compare-and-swap between runSession (timeout / answer
   failure) and the handler goroutine.

   Don't-care regions (the property says nothing about them):
     * how long anything takes; which of several ready select branches fires;
     * what happens to the bytes relayed;
     * a data channel callback that would run after pc.Close() has returned
       (not reproducible with the harness; the repaired code is immune);
     * a second data channel on the same peer connection (C13 territory);
     * capacity 0 (unlimited), which the property excludes (capacities >= 1);
     * whether an accepted URL is actually reachable: RelayPolicy bounds the
       set of URLs dialled from above, it does not demand a dial.           *)
EXTENDS Integers, Sequences, FiniteSets, TLC, Json

CONSTANTS
  N,            \* capacity, >= 1
  MaxSess,      \* number of sessions (slots taken by the main loop) explored
  Round,        \* rounding unit of the reported load (8 in the code)
  AsIs_D11,     \* TRUE: pinned code, FALSE: repaired code
  Pattern,      \* abstract RelayDomainNamePattern: "suffix" | "exact" | "any"
  AllowNonTLS,  \* SnowflakeProxy.AllowNonTLSRelay
  Classes,      \* relay-URL classes the broker may return in this configuration
  MaxNoOffer,   \* generation bounds, written as action guards
  MaxTimeouts,
  EnvAtQuiet,   \* TRUE: environment steps only when the proxy is at rest (replayable behaviours)
  GenNoFaults,  \* generation only: TRUE switches the failing environment choices off
  GenHold,      \* generation only: relayed connections end only while a poll that reported a load
                \* >= GenHold is held (or the session bound is exhausted); 0 = no restriction
  MaxPhantom,   \* slots the environment may occupy itself (the in-package rig calling tokens.get()); 0 = none
  AddrKinds     \* what the offers of this configuration let the proxy derive as client address (see addr)

VARIABLES
  inUse,        \* len(tokens.ch)
  clients,      \* tokens.clients
  mpc,          \* pc of the main loop
  cur,          \* index of the session of the main loop (0 = none yet)
  cls,          \* cls[s]: relay-URL class of the offer of session s, "-" = none
  sdp,          \* sdp[s]: "good" | "bad" (fails SetRemoteDescription)
  hpc,          \* pc of handler goroutine of session s
  released,     \* number of tokens.ret() calls made for the slot of session s
  owner,        \* repaired code: who owns the release: "none" | "main" | "handler"
  opened,       \* dataChan of session s closed
  closed,       \* sessions whose peer connection runSession itself closed (answer failure, timeout)
  relayDialed,  \* set of URL classes handed to websocket.Dial
  reported,     \* last poll: [val |-> Clients field, inUse |-> len(ch) at that moment]
  nNoOffer, nTimeouts,
  addr,         \* addr[s]: what remoteIPFromSDP derives from the offer of session s:
                \*   "none"  nothing (no candidate, or only local / loopback / unspecified ones, c= unspecified)
                \*   "own"   an address that only session s has (first remote candidate of its offer)
                \*   "real"  the address of the machine the harness client really runs on (offer untouched)
  told,         \* told[s]: the client_ip the relay was told for session s: [kind, of] with kind
                \*   "-" not dialled, "absent" no parameter, "own" the own address of session `of`, "real", "other"
  phantom,      \* slots currently held by the environment itself ("phantom sessions" of the rig)
  pcase         \* policy-table emission only (see PolicyInit)

vars == <<inUse, clients, mpc, cur, cls, sdp, hpc, released, owner, opened, closed,
          relayDialed, reported, nNoOffer, nTimeouts, addr, told, phantom, pcase>>

Sessions == 1..MaxSess

-----------------------------------------------------------------------------
(* Relay-URL policy.  A class is an abstract broker-supplied RelayURL; the
   harness concretises it (table in harness/inpkg/proxy_lib).                 *)

AllClasses == {"in_wss", "in_ws", "in_https", "in_port", "sub_wss", "glue_wss",
               "upper_wss", "out_wss", "out_ws", "out_inpath", "ui_in_at_out",
               "ui_out_at_in", "opaque", "empty", "unparsable"}
Patterns == {"suffix", "exact", "any"}

Scheme(c) == CASE c \in {"in_ws", "out_ws"} -> "ws"
               [] c = "in_https" -> "https"
               [] c \in {"empty", "unparsable"} -> "-"
               [] OTHER -> "wss"

(* Which host the URL's Hostname() is: the allowed relay name itself, a
   subdomain of it, a name that merely ends in it without a dot boundary, the
   allowed name in upper case, an unrelated name, or no host at all. *)
HostKind(c) == CASE c \in {"in_wss", "in_ws", "in_https", "in_port", "ui_out_at_in"} -> "in"
                 [] c = "sub_wss" -> "sub"
                 [] c = "glue_wss" -> "glue"
                 [] c = "upper_wss" -> "upper"
                 [] c \in {"out_wss", "out_ws", "out_inpath", "ui_in_at_out"} -> "out"
                 [] OTHER -> "none"      \* opaque, empty, unparsable

Parsable(c) == c # "unparsable"

(* namematcher semantics on the abstract host kinds: a suffix pattern accepts
   every name ending in the suffix (documented: no look-behind for a dot), an
   exact pattern only the name itself, "$" everything (even no host).
   Matching is case-sensitive. *)
Member(p, h) == CASE p = "suffix" -> h \in {"in", "sub", "glue"}
                  [] p = "exact" -> h = "in"
                  [] p = "any" -> TRUE

(* THE PROPERTY's notion: a broker-supplied URL may be dialled only if its
   hostname passes the pattern and its scheme is wss unless non-TLS relays were
   allowed.  The empty string is not a URL: the proxy then uses the relay its
   operator configured, which the statement does not restrict. *)
Accepted(p, a, c) ==
  \/ c = "empty"
  \/ (Parsable(c) /\ Member(p, HostKind(c)) /\ (a \/ Scheme(c) = "wss"))

(* Where a dial of class c ends up (decoy listener kinds of the harness). *)
Target(c) == CASE c = "empty" -> "default"
               [] HostKind(c) \in {"in", "sub", "glue", "upper"} -> "inside"   \* name resolution ignores case
               [] HostKind(c) = "out" -> "outside"
               [] OTHER -> "other"

(* Don't-care: a hostname that differs from an accepted one only in letter
   case names the same host (name resolution ignores case).  The matcher of
   the repository is case-sensitive, so the code refuses it; an implementation
   that folded case first would not relay anywhere the operator did not
   consent to.  The oracle therefore does not object to a dial for such a
   class, and does not expect one either. *)
Folded(c) == IF c = "upper_wss" THEN "in_wss" ELSE c
MayDial(p, a, c) == Accepted(p, a, c) \/ Accepted(p, a, Folded(c))

Expected(p, a, c) ==
  [pattern |-> p, allow |-> a, class |-> c,
   accepted |-> Accepted(p, a, c),
   may_dial |-> MayDial(p, a, c),
   target |-> IF MayDial(p, a, c) THEN Target(c) ELSE "none"]

(* What runSession does (written after the code, line by line):
     url.Parse error                                  -> reject
     relayURL != "" && (!IsMember(Hostname()) ||
        (!AllowNonTLSRelay && Scheme != "wss"))       -> reject            *)
CodeAccepts(c) ==
  /\ Parsable(c)
  /\ ~(c # "empty" /\ (~Member(Pattern, HostKind(c)) \/ (~AllowNonTLS /\ Scheme(c) # "wss")))

-----------------------------------------------------------------------------
InitCore ==
  /\ inUse = 0 /\ clients = 0 /\ mpc = "tick" /\ cur = 0
  /\ cls = [s \in Sessions |-> "-"]
  /\ sdp = [s \in Sessions |-> "-"]
  /\ hpc = [s \in Sessions |-> "none"]
  /\ released = [s \in Sessions |-> 0]
  /\ owner = [s \in Sessions |-> "none"]
  /\ opened = [s \in Sessions |-> FALSE]
  /\ closed = {}
  /\ relayDialed = {}
  /\ reported = [val |-> 0, inUse |-> 0]
  /\ nNoOffer = 0 /\ nTimeouts = 0
  /\ phantom = 0
  /\ addr = [s \in Sessions |-> "-"]
  /\ told = [s \in Sessions |-> [kind |-> "-", of |-> 0]]
Init == InitCore /\ pcase = <<>>

(* The proxy is at rest: every goroutine is parked on something only the
   environment (or, for a full token channel, another session's end) can
   change.  "tick" is not at rest: the ticker fires by itself. *)
HandlerParked(s) == hpc[s] \in {"none", "dialing", "relaying", "done"}
MainParked ==
  \/ mpc \in {"polled", "answer"}
  \/ (mpc = "waitdc" /\ ~opened[cur])       \* with the channel open the select takes <-dataChan at once
  \/ (mpc = "get" /\ inUse = N)
  \/ (mpc = "tick" /\ cur = MaxSess)
Quiet == MainParked /\ \A s \in Sessions : HandlerParked(s)
EnvOK == (~EnvAtQuiet) \/ Quiet
FaultOK == ~GenNoFaults
Relaying == {s \in Sessions : hpc[s] = "relaying"}
HoldOK == GenHold = 0 \/ (mpc = "polled" /\ reported.val >= GenHold) \/ (cur = MaxSess /\ mpc = "tick")

(* ---- main loop ---- *)
GetInc ==                                   \* tokens.get(): atomic add, before blocking
  /\ mpc = "tick" /\ cur < MaxSess
  /\ clients' = clients + 1 /\ mpc' = "get"
  /\ UNCHANGED <<inUse, cur, cls, sdp, hpc, released, owner, opened, closed, relayDialed, reported, nNoOffer, nTimeouts, addr, told, phantom, pcase>>

Get ==                                      \* tokens.get(): channel send; blocks at capacity
  /\ mpc = "get" /\ inUse < N
  /\ inUse' = inUse + 1 /\ cur' = cur + 1 /\ mpc' = "poll"
  /\ UNCHANGED <<clients, cls, sdp, hpc, released, owner, opened, closed, relayDialed, reported, nNoOffer, nTimeouts, addr, told, phantom, pcase>>

Poll ==                                     \* pollOffer: numClients := (count()/8)*8 ; POST /proxy
  /\ mpc = "poll"
  /\ reported' = [val |-> Round * (clients \div Round), inUse |-> inUse]
  /\ mpc' = "polled"
  /\ UNCHANGED <<inUse, clients, cur, cls, sdp, hpc, released, owner, opened, closed, relayDialed, nNoOffer, nTimeouts, addr, told, phantom, pcase>>

NoOffer ==                                  \* "no match": stay in pollOffer, poll again after 5 s
  /\ mpc = "polled" /\ EnvOK /\ nNoOffer < MaxNoOffer
  /\ mpc' = "poll" /\ nNoOffer' = nNoOffer + 1
  /\ UNCHANGED <<inUse, clients, cur, cls, sdp, hpc, released, owner, opened, closed, relayDialed, reported, nTimeouts, addr, told, phantom, pcase>>

ToRet == mpc' = "ret"

BadBrokerResponse ==                        \* HTTP error, malformed JSON, error status, match without offer
  /\ mpc = "polled" /\ EnvOK /\ FaultOK /\ ToRet
  /\ UNCHANGED <<inUse, clients, cur, cls, sdp, hpc, released, owner, opened, closed, relayDialed, reported, nNoOffer, nTimeouts, addr, told, phantom, pcase>>

OfferUndecodable ==                         \* offer string that DeserializeSessionDescription refuses
  /\ mpc = "polled" /\ EnvOK /\ FaultOK /\ ToRet
  /\ UNCHANGED <<inUse, clients, cur, cls, sdp, hpc, released, owner, opened, closed, relayDialed, reported, nNoOffer, nTimeouts, addr, told, phantom, pcase>>

Offer(c, k, a) ==                              \* client match: relay URL class c, SDP kind k, derivable client address a
  /\ mpc = "polled" /\ EnvOK /\ (k = "good" \/ FaultOK)
  /\ cls' = [cls EXCEPT ![cur] = c] /\ sdp' = [sdp EXCEPT ![cur] = k] /\ addr' = [addr EXCEPT ![cur] = a]
  /\ mpc' = "check"
  /\ UNCHANGED <<inUse, clients, cur, hpc, released, owner, opened, closed, relayDialed, reported, nNoOffer, nTimeouts, told, phantom, pcase>>

RelayRejected(c) ==                         \* runSession: bad or rejected Relay URL
  /\ mpc = "check" /\ cls[cur] = c /\ ~CodeAccepts(c) /\ ToRet
  /\ UNCHANGED <<inUse, clients, cur, cls, sdp, hpc, released, owner, opened, closed, relayDialed, reported, nNoOffer, nTimeouts, addr, told, phantom, pcase>>

RelayOK ==
  /\ mpc = "check" /\ CodeAccepts(cls[cur]) /\ mpc' = "pc"
  /\ UNCHANGED <<inUse, clients, cur, cls, sdp, hpc, released, owner, opened, closed, relayDialed, reported, nNoOffer, nTimeouts, addr, told, phantom, pcase>>

PCFail ==                                   \* makePeerConnectionFromOffer fails (SetRemoteDescription)
  /\ mpc = "pc" /\ sdp[cur] = "bad" /\ ToRet
  /\ sdp' = [sdp EXCEPT ![cur] = "-"]
  /\ UNCHANGED <<inUse, clients, cur, cls, hpc, released, owner, opened, closed, relayDialed, reported, nNoOffer, nTimeouts, addr, told, phantom, pcase>>

PCOk ==                                     \* answer created and POSTed to /answer
  /\ mpc = "pc" /\ sdp[cur] = "good" /\ mpc' = "answer"
  /\ sdp' = [sdp EXCEPT ![cur] = "-"]
  /\ UNCHANGED <<inUse, clients, cur, cls, hpc, released, owner, opened, closed, relayDialed, reported, nNoOffer, nTimeouts, addr, told, phantom, pcase>>

(* runSession gives the slot up (answer failure, timeout).  Pinned code:
   always ret().  Repaired code: ret() only if the handler has not claimed
   the slot. *)
MainGiveUp ==
  /\ closed' = closed \cup {cur}                 \* pc.Close()
  /\ IF AsIs_D11 THEN mpc' = "ret" /\ UNCHANGED owner
     ELSE IF owner[cur] = "none" THEN mpc' = "ret" /\ owner' = [owner EXCEPT ![cur] = "main"]
     ELSE mpc' = "tick" /\ UNCHANGED owner

AnswerFail ==                               \* "client gone", HTTP error or garbage on /answer ; pc.Close()
  /\ mpc = "answer" /\ EnvOK /\ FaultOK /\ MainGiveUp
  /\ UNCHANGED <<inUse, clients, cur, cls, sdp, hpc, released, opened, relayDialed, reported, nNoOffer, nTimeouts, addr, told, phantom, pcase>>

AnswerOK ==
  /\ mpc = "answer" /\ EnvOK /\ mpc' = "waitdc"
  /\ UNCHANGED <<inUse, clients, cur, cls, sdp, hpc, released, owner, opened, closed, relayDialed, reported, nNoOffer, nTimeouts, addr, told, phantom, pcase>>

DCSeen ==                                   \* select: <-dataChan ; "Connection successful."
  /\ mpc = "waitdc" /\ opened[cur] /\ mpc' = "tick"
  /\ UNCHANGED <<inUse, clients, cur, cls, sdp, hpc, released, owner, opened, closed, relayDialed, reported, nNoOffer, nTimeouts, addr, told, phantom, pcase>>

DCTimerFire ==                              \* select: <-time.After(20 s) chosen
  /\ mpc = "waitdc" /\ EnvOK /\ nTimeouts < MaxTimeouts
  /\ mpc' = "dctimeout" /\ nTimeouts' = nTimeouts + 1
  /\ UNCHANGED <<inUse, clients, cur, cls, sdp, hpc, released, owner, opened, closed, relayDialed, reported, nNoOffer, addr, told, phantom, pcase>>

DCTimeoutRelease ==                         \* pc.Close() ; tokens.ret()
  /\ mpc = "dctimeout" /\ MainGiveUp
  /\ UNCHANGED <<inUse, clients, cur, cls, sdp, hpc, released, opened, relayDialed, reported, nNoOffer, nTimeouts, addr, told, phantom, pcase>>

MainReleaseDec ==                           \* tokens.ret(): atomic add
  /\ mpc = "ret"
  /\ clients' = clients - 1 /\ released' = [released EXCEPT ![cur] = @ + 1]
  /\ mpc' = "ret2"
  /\ UNCHANGED <<inUse, cur, cls, sdp, hpc, owner, opened, closed, relayDialed, reported, nNoOffer, nTimeouts, addr, told, phantom, pcase>>

MainReleaseTake ==                          \* tokens.ret(): channel receive; blocks on an empty channel
  /\ mpc = "ret2" /\ inUse > 0
  /\ inUse' = inUse - 1 /\ mpc' = "tick"
  /\ UNCHANGED <<clients, cur, cls, sdp, hpc, released, owner, opened, closed, relayDialed, reported, nNoOffer, nTimeouts, addr, told, phantom, pcase>>

(* ---- data channel callback and handler goroutine ---- *)
(* OnDataChannel: close(dataChan) ; go handler(...).  Possible from the moment
   the answer is at the broker (the client may get it before the proxy gets
   the broker's reply) until runSession has closed the peer connection; in
   particular while the main loop is already in its timeout branch.  While the
   main loop sits in the timeout branch the step is a gate of the harness, so
   it is exempt from EnvAtQuiet. *)
DCOpen(s) ==
  /\ s = cur /\ mpc \in {"answer", "waitdc", "dctimeout"}
  /\ (mpc = "dctimeout" \/ EnvOK)
  /\ hpc[s] = "none" /\ ~opened[s]
  /\ opened' = [opened EXCEPT ![s] = TRUE]
  /\ hpc' = [hpc EXCEPT ![s] = "spawned"]
  /\ UNCHANGED <<inUse, clients, mpc, cur, cls, sdp, released, owner, closed, relayDialed, reported, nNoOffer, nTimeouts, addr, told, phantom, pcase>>

HandlerStart(s) ==                          \* repaired code: claim the slot or stand down
  /\ hpc[s] = "spawned"
  /\ IF AsIs_D11 THEN hpc' = [hpc EXCEPT ![s] = "dial"] /\ UNCHANGED owner
     ELSE IF owner[s] = "none"
       THEN hpc' = [hpc EXCEPT ![s] = "dial"] /\ owner' = [owner EXCEPT ![s] = "handler"]
       ELSE hpc' = [hpc EXCEPT ![s] = "done"] /\ UNCHANGED owner
  /\ UNCHANGED <<inUse, clients, mpc, cur, cls, sdp, released, opened, closed, relayDialed, reported, nNoOffer, nTimeouts, addr, told, phantom, pcase>>

(* datachannelHandler: `if remoteAddr != nil { q.Set("client_ip", ...) }` on the URL parsed for THIS
   connection: the session's own address, or no parameter at all. *)
ToldByCode(s) == CASE addr[s] = "own" -> [kind |-> "own", of |-> s]
                   [] addr[s] = "real" -> [kind |-> "real", of |-> 0]
                   [] OTHER -> [kind |-> "absent", of |-> 0]

HandlerDial(s) ==                           \* websocket.DefaultDialer.Dial(relay URL)
  /\ hpc[s] = "dial"
  /\ relayDialed' = relayDialed \cup {cls[s]}
  /\ hpc' = [hpc EXCEPT ![s] = "dialing"]
  /\ told' = [told EXCEPT ![s] = ToldByCode(s)]     \* client_ip query parameter
  /\ UNCHANGED <<inUse, clients, mpc, cur, cls, sdp, released, owner, opened, closed, reported, nNoOffer, nTimeouts, addr, phantom, pcase>>

RelayDialFail(s) ==
  /\ hpc[s] = "dialing" /\ EnvOK /\ FaultOK
  /\ hpc' = [hpc EXCEPT ![s] = "ret"]
  /\ UNCHANGED <<inUse, clients, mpc, cur, cls, sdp, released, owner, opened, closed, relayDialed, reported, nNoOffer, nTimeouts, addr, told, phantom, pcase>>

RelayAccept(s) ==
  /\ hpc[s] = "dialing" /\ EnvOK
  /\ hpc' = [hpc EXCEPT ![s] = "relaying"]
  /\ UNCHANGED <<inUse, clients, mpc, cur, cls, sdp, released, owner, opened, closed, relayDialed, reported, nNoOffer, nTimeouts, addr, told, phantom, pcase>>

RelayEnd(s) ==                              \* relay or client closes; copyLoop ends
  /\ hpc[s] = "relaying" /\ ((EnvOK /\ HoldOK) \/ s \in closed)   \* a closed peer connection ends the copy loop by itself
  /\ hpc' = [hpc EXCEPT ![s] = "ret"]
  /\ UNCHANGED <<inUse, clients, mpc, cur, cls, sdp, released, owner, opened, closed, relayDialed, reported, nNoOffer, nTimeouts, addr, told, phantom, pcase>>

HandlerReleaseDec(s) ==                     \* deferred tokens.ret(): atomic add
  /\ hpc[s] = "ret"
  /\ clients' = clients - 1 /\ released' = [released EXCEPT ![s] = @ + 1]
  /\ hpc' = [hpc EXCEPT ![s] = "ret2"]
  /\ UNCHANGED <<inUse, mpc, cur, cls, sdp, owner, opened, closed, relayDialed, reported, nNoOffer, nTimeouts, addr, told, phantom, pcase>>

HandlerReleaseTake(s) ==                    \* deferred tokens.ret(): channel receive
  /\ hpc[s] = "ret2" /\ inUse > 0
  /\ inUse' = inUse - 1
  /\ hpc' = [hpc EXCEPT ![s] = "done"]
  /\ UNCHANGED <<clients, mpc, cur, cls, sdp, released, owner, opened, closed, relayDialed, reported, nNoOffer, nTimeouts, addr, told, phantom, pcase>>

(* ---- phantom sessions ----
   The in-package rig may occupy slots itself by calling tokens.get() /
   tokens.ret() (recorded through the same tok.* hooks).  It does so only
   while the main loop is parked in a poll request it holds, and never at
   capacity, so neither call blocks and each is one step here.  This makes
   "eight slots in use" reachable in seconds instead of eight real sessions. *)
PhantomGet ==
  /\ mpc = "polled" /\ EnvOK /\ phantom < MaxPhantom /\ inUse < N
  /\ clients' = clients + 1 /\ inUse' = inUse + 1 /\ phantom' = phantom + 1
  /\ UNCHANGED <<mpc, cur, cls, sdp, hpc, released, owner, opened, closed, relayDialed, reported, nNoOffer, nTimeouts, addr, told, pcase>>

PhantomRet ==
  /\ mpc = "polled" /\ EnvOK /\ phantom > 0
  /\ clients' = clients - 1 /\ inUse' = inUse - 1 /\ phantom' = phantom - 1
  /\ UNCHANGED <<mpc, cur, cls, sdp, hpc, released, owner, opened, closed, relayDialed, reported, nNoOffer, nTimeouts, addr, told, pcase>>

(* All sessions of the bound are over and the loop is back at its ticker. *)
AllOver == cur = MaxSess /\ mpc = "tick" /\ \A s \in Sessions : hpc[s] \in {"none", "done"}
Finished == AllOver /\ UNCHANGED vars

ProxyStep ==
  \/ GetInc \/ Get \/ Poll \/ RelayOK \/ PCFail \/ PCOk \/ DCSeen \/ DCTimeoutRelease
  \/ MainReleaseDec \/ MainReleaseTake
  \/ (\E c \in AllClasses : RelayRejected(c))
  \/ (\E s \in Sessions : HandlerStart(s) \/ HandlerDial(s) \/ HandlerReleaseDec(s) \/ HandlerReleaseTake(s))

EnvStep ==
  \/ NoOffer \/ BadBrokerResponse \/ OfferUndecodable \/ AnswerFail \/ AnswerOK \/ DCTimerFire
  \/ PhantomGet \/ PhantomRet
  \/ (\E c \in Classes, k \in {"good", "bad"}, a \in AddrKinds : Offer(c, k, a))
  \/ (\E s \in Sessions : DCOpen(s) \/ RelayDialFail(s) \/ RelayAccept(s) \/ RelayEnd(s))

Next == ProxyStep \/ EnvStep \/ Finished

Spec == Init /\ [][Next]_vars

(* The proxy keeps going: weak fairness on every step of the proxy itself
   (one conjunct per step kind), none on the environment. *)
Fair ==
  /\ WF_vars(GetInc) /\ WF_vars(Get) /\ WF_vars(Poll) /\ WF_vars(RelayOK) /\ WF_vars(PCFail) /\ WF_vars(PCOk)
  /\ WF_vars(DCSeen) /\ WF_vars(DCTimeoutRelease) /\ WF_vars(MainReleaseDec) /\ WF_vars(MainReleaseTake)
  /\ WF_vars(\E c \in AllClasses : RelayRejected(c))
  /\ \A s \in Sessions : WF_vars(HandlerStart(s)) /\ WF_vars(HandlerDial(s))
                         /\ WF_vars(HandlerReleaseDec(s)) /\ WF_vars(HandlerReleaseTake(s))
FairSpec == Spec /\ Fair

-----------------------------------------------------------------------------
(* Properties *)

MainPCs == {"tick", "get", "poll", "polled", "check", "pc", "answer", "waitdc", "dctimeout", "ret", "ret2"}
HandlerPCs == {"none", "spawned", "dial", "dialing", "relaying", "ret", "ret2", "done"}

TypeOK ==
  /\ inUse \in Int /\ clients \in Int
  /\ mpc \in MainPCs /\ cur \in 0..MaxSess
  /\ cls \in [Sessions -> AllClasses \cup {"-"}]
  /\ sdp \in [Sessions -> {"-", "good", "bad"}]
  /\ hpc \in [Sessions -> HandlerPCs]
  /\ released \in [Sessions -> 0..3]
  /\ owner \in [Sessions -> {"none", "main", "handler"}]
  /\ opened \in [Sessions -> BOOLEAN]
  /\ closed \subseteq Sessions
  /\ phantom \in 0..MaxPhantom
  /\ addr \in [Sessions -> {"-", "none", "own", "real"}]
  /\ relayDialed \subseteq AllClasses

(* the main loop has left session s *)
MainDone(s) == s < cur \/ (s = cur /\ mpc \in {"tick", "get"})
Ended(s) == s <= cur /\ MainDone(s) /\ hpc[s] \in {"none", "done"}

(* session s is being negotiated or served, i.e. legitimately occupies a slot
   (once the handler has run to its end the session no longer does, even if
   the main loop has not yet heard back from the broker about the answer) *)
Serving(s) ==
  \/ (s = cur /\ mpc \in {"poll", "polled", "check", "pc", "answer", "waitdc"} /\ hpc[s] \in {"none", "spawned"})
  \/ hpc[s] \in {"dial", "dialing", "relaying"}

SlotRange == 0 <= inUse /\ inUse <= N
CapacityHonoured == Cardinality({s \in Sessions : Serving(s)}) + phantom <= N
ReleasedAtMostOnce == \A s \in Sessions : released[s] <= 1
ReleasedAtEnd == \A s \in Sessions : Ended(s) => released[s] = 1
(* a slot is never given back while its session is still negotiated or served *)
NoEarlyRelease == \A s \in Sessions : Serving(s) => released[s] = 0
(* a ret() in progress always finds a token: nothing parks forever in ret() *)
InRet == Cardinality({s \in Sessions : hpc[s] = "ret2"}) + (IF mpc = "ret2" THEN 1 ELSE 0)
RetNeverBlocks == InRet <= inUse
(* outside get()/ret() the counter and the channel agree *)
CounterMatches == (mpc # "get" /\ InRet = 0) => clients = inUse
ReportedOK == reported.val % Round = 0 /\ reported.val >= 0 /\ reported.val <= reported.inUse
RelayPolicy == relayDialed \subseteq {c \in AllClasses : Accepted(Pattern, AllowNonTLS, c)}
(* C18, proxy side: the relay (and through it the bridge) is never told an address that belongs to
   ANOTHER session.  Don't-care: no parameter although the offer had an address; the real address of
   the client's machine although the offer text hid it (it IS this client's address); any address that
   is no session's ("other": the bridge sanitises what it is given, that is the server half of C18). *)
ToldAddrRight == \A s \in Sessions : told[s].kind = "own" => told[s].of = s

(* after any sequence of sessions the loop polls with full capacity: only its own slot is taken *)
FullCapacityAgain ==
  /\ ((mpc \in {"poll", "polled"} /\ \A s \in 1..(cur - 1) : Ended(s)) => (inUse = 1 + phantom /\ clients = 1 + phantom))
  /\ (AllOver => (inUse = phantom /\ clients = phantom))

(* the loop always comes back to polling (or exhausts the session bound) *)
(* some goroutine waits for the environment (broker reply, client, relay) *)
EnvPending == mpc \in {"polled", "answer", "waitdc"} \/ \E s \in Sessions : hpc[s] \in {"dialing", "relaying"}
PollsAgain == []<>(AllOver \/ EnvPending)

-----------------------------------------------------------------------------
(* Policy table: one initial state per (pattern, flag, class); Emit prints the
   expected outcome computed by the operators above. *)
PolicyInit ==
  /\ InitCore
  /\ pcase \in {<<p, a, c>> : p \in Patterns, a \in BOOLEAN, c \in AllClasses}
PolicyNext == UNCHANGED vars
PolicyEmit == PrintT(ToJson(Expected(pcase[1], pcase[2], pcase[3])))
=============================================================================
