\* behaviour sampling (tlc -simulate): environment acts at rest; bounds are rewritten by lib/checks/c16.py
CONSTANTS
  N = 2
  MaxSess = 6
  Round = 8
  AsIs_D11 = FALSE
  Pattern = "suffix"
  AllowNonTLS = TRUE
  Classes = {"in_ws", "out_ws"}
  MaxNoOffer = 1
  MaxTimeouts = 1
  EnvAtQuiet = TRUE
  GenNoFaults = FALSE
  GenHold = 0
  MaxPhantom = 0
  AddrKinds = {"real"}
SPECIFICATION Spec
INVARIANTS TypeOK
CHECK_DEADLOCK FALSE
