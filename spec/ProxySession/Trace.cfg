\* template: lib/checks/c16.py rewrites N / MaxSess / AsIs_D11 per recorded trace
CONSTANTS
  N = 1
  MaxSess = 4
  Round = 8
  AsIs_D11 = FALSE
  Pattern = "suffix"
  AllowNonTLS = TRUE
  Classes = {"in_wss", "in_ws", "in_https", "in_port", "sub_wss", "glue_wss", "upper_wss", "out_wss", "out_ws", "out_inpath", "ui_in_at_out", "ui_out_at_in", "opaque", "empty", "unparsable"}
  MaxNoOffer = 1000000
  MaxTimeouts = 1000000
  EnvAtQuiet = FALSE
  GenNoFaults = FALSE
  GenHold = 0
  MaxPhantom = 1000000
  AddrKinds = {"none", "own", "real"}
SPECIFICATION TSpec
CONSTRAINT Mark
INVARIANTS TypeOK SlotRange CapacityHonoured ReleasedAtMostOnce ReleasedAtEnd NoEarlyRelease RetNeverBlocks CounterMatches ReportedOK RelayPolicy FullCapacityAgain ToldAddrRight
POSTCONDITION TraceAccepted
CHECK_DEADLOCK FALSE
