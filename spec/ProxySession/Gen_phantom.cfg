\* capacity 9 with eight slots occupied by the rig itself (phantom sessions): polls across the rounding step
\* within one pollOffer call; no offers (the sessions end by broker errors); dot dump, goal-directed path
CONSTANTS
  N = 9
  MaxSess = 2
  Round = 8
  AsIs_D11 = FALSE
  Pattern = "suffix"
  AllowNonTLS = TRUE
  Classes = {}
  MaxNoOffer = 1
  MaxTimeouts = 0
  EnvAtQuiet = TRUE
  GenNoFaults = FALSE
  GenHold = 0
  MaxPhantom = 8
  AddrKinds = {"real"}
SPECIFICATION Spec
INVARIANTS TypeOK SlotRange CapacityHonoured ReleasedAtMostOnce ReleasedAtEnd NoEarlyRelease RetNeverBlocks CounterMatches ReportedOK FullCapacityAgain ToldAddrRight
CHECK_DEADLOCK FALSE
