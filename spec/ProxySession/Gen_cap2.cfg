\* behaviour generation (simulation): environment steps only at rest, one timeout, one empty poll
CONSTANTS
  N = 2
  MaxSess = 6
  Round = 8
  AsIs_D11 = FALSE
  Pattern = "suffix"
  AllowNonTLS = FALSE
  Classes = {"in_wss", "out_wss"}
  MaxNoOffer = 1
  MaxTimeouts = 1
  EnvAtQuiet = TRUE
SPECIFICATION Spec
INVARIANTS TypeOK
CHECK_DEADLOCK FALSE
