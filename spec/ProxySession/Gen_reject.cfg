\* every rejection CLASS of runSession's relay-URL test as an exit path: AllowNonTLSRelay = FALSE, so a URL whose
\* host is inside the pattern is still refused for its scheme; plus the empty URL (operator's relay, served).
\* Pattern / Classes are rewritten by lib/checks/c16.py; dot dump, goal-directed paths
CONSTANTS
  N = 1
  MaxSess = 3
  Round = 8
  AsIs_D11 = FALSE
  Pattern = "suffix"
  AllowNonTLS = FALSE
  Classes = {"in_ws", "in_https", "upper_wss", "out_wss", "out_ws", "out_inpath", "ui_in_at_out", "opaque", "unparsable", "empty"}
  MaxNoOffer = 0
  MaxTimeouts = 0
  EnvAtQuiet = TRUE
  GenNoFaults = TRUE
  GenHold = 0
  MaxPhantom = 0
  AddrKinds = {"real"}
SPECIFICATION Spec
INVARIANTS TypeOK SlotRange CapacityHonoured ReleasedAtMostOnce ReleasedAtEnd NoEarlyRelease RetNeverBlocks CounterMatches ReportedOK RelayPolicy FullCapacityAgain ToldAddrRight
CHECK_DEADLOCK FALSE
