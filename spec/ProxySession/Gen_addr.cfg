\* C18 proxy side: sessions on the operator's default relay (class "empty") and on broker-named URLs, with and
\* without a derivable client address, capacity 2 (two at once); no faults; dot dump, goal-directed paths
CONSTANTS
  N = 2
  MaxSess = 3
  Round = 8
  AsIs_D11 = FALSE
  Pattern = "suffix"
  AllowNonTLS = TRUE
  Classes = {"empty", "in_ws"}
  MaxNoOffer = 0
  MaxTimeouts = 0
  EnvAtQuiet = TRUE
  GenNoFaults = TRUE
  GenHold = 0
  MaxPhantom = 0
  AddrKinds = {"none", "own"}
SPECIFICATION Spec
INVARIANTS TypeOK SlotRange CapacityHonoured ReleasedAtMostOnce ReleasedAtEnd NoEarlyRelease RetNeverBlocks CounterMatches ReportedOK RelayPolicy FullCapacityAgain ToldAddrRight
CHECK_DEADLOCK FALSE
