\* the pinned code (deviation D11 on): TLC must find the double release
CONSTANTS
  N = 2
  MaxSess = 3
  Round = 2
  AsIs_D11 = TRUE
  Pattern = "suffix"
  AllowNonTLS = FALSE
  Classes = {"in_wss"}
  MaxNoOffer = 0
  MaxTimeouts = 2
  EnvAtQuiet = FALSE
  GenNoFaults = FALSE
  GenHold = 0
  MaxPhantom = 0
  AddrKinds = {"real"}
SPECIFICATION Spec
INVARIANTS CapacityHonoured
CHECK_DEADLOCK FALSE
