------------------------- MODULE ProxySession_Trace -------------------------
(* Trace validation: is the event log recorded from the real proxy
   (harness/inpkg/proxy_lib) a behaviour of ProxySession, and do the property
   invariants hold on every state of it?

   One trace action per event name.  Steps of the proxy that have no hook of
   their own (RelayOK, PCOk, HandlerStart) are silent.  Three kinds of step
   may be logged LATER than they really happened, because the hook line runs
   after the operation and the log order between goroutines is the order of
   the hook calls, not of the operations:
     * the two halves of a handler's tokens.ret()   (tok.ret.dec / tok.ret),
     * the end of a relayed connection that the proxy itself brought about by
       closing the peer connection                  (relay.end by=proxy).
   Those may be taken silently as soon as the model enables them; the event
   that arrives afterwards is then matched as an acknowledgement (pend).  At
   the `end` event nothing may be left unacknowledged.  Informative events of
   the rig (net.dial, tcp.accept, relay.req, client.open) are skipped.

   The real token state read by the rig while the main loop is parked in a
   poll (count, len) must equal the model's (clients, inUse) whenever no
   handler is inside ret(); the Clients field of the real poll request must
   be a multiple of Round that does not exceed inUse (see TPoll).            *)
EXTENDS ProxySession, TLCExt

VARIABLES l, pend
tvars == <<vars, l, pend>>

TraceLog == ndJsonDeserialize("trace.ndjson")
NEv == Len(TraceLog)
Ev == TraceLog[l]
Is(name) == l <= NEv /\ Ev.ev = name
Has(f) == f \in DOMAIN Ev
Step == l' = l + 1

TInit == Init /\ l = 1 /\ pend = [s \in Sessions |-> {}] /\ TLCSet(1, 1)

Skip == /\ l <= NEv
        /\ Ev.ev \in {"start", "net.dial", "tcp.accept", "client.open", "dh.start", "harness.note",
                     \* the data path of a session is the business of spec/ProxyRelay
                     "rs.conn", "dc.onmsg", "dc.onclose", "conn.write", "conn.write.counted", "conn.pcclose", "cl.end", "event.over",
                     "client.send", "client.recv", "client.close", "client.abort", "client.vanish", "client.sawclose", "client.stall", "client.resume",
                     "relay.send", "relay.recv", "relay.close"}
        /\ Step /\ UNCHANGED <<vars, pend>>

NoHandlerInRet == \A s \in Sessions : hpc[s] \notin {"ret", "ret2"}

(* ---- main loop ---- *)
(* phantom sessions of the rig: the first half of get()/ret() is skipped, the second is the step *)
TPhantomHalf == l <= NEv /\ Ev.ev \in {"tok.get.inc", "tok.ret.dec"} /\ Ev.g = "ph" /\ Step /\ UNCHANGED <<vars, pend>>
TPhantomGet == Is("tok.get") /\ Ev.g = "ph" /\ PhantomGet /\ Step /\ UNCHANGED pend
TPhantomRet == Is("tok.ret") /\ Ev.g = "ph" /\ PhantomRet /\ Step /\ UNCHANGED pend
TGetInc == Is("tok.get.inc") /\ Ev.g = "main" /\ GetInc /\ Step /\ UNCHANGED pend
TGet == Is("tok.get") /\ Ev.g = "main" /\ Get /\ Step /\ UNCHANGED pend
(* The load in the real request is judged by the PROPERTY (a multiple of Round
   that does not exceed the slots in use), not by the formula of the model: a
   proxy that reported less than it could would not break C16.  `reported`
   takes the observed value, so ReportedOK speaks about the real request. *)
TPoll ==
  /\ Is("poll") /\ Step /\ UNCHANGED pend
  /\ mpc = "poll" /\ Ev.s = cur
  /\ Ev.clients % Round = 0 /\ Ev.clients >= 0 /\ Ev.clients <= inUse
  /\ (NoHandlerInRet => (Ev.count = clients /\ Ev.len = inUse))
  /\ reported' = [val |-> Ev.clients, inUse |-> inUse]
  /\ mpc' = "polled"
  /\ UNCHANGED <<inUse, clients, cur, cls, sdp, hpc, released, owner, opened, closed, relayDialed, nNoOffer, nTimeouts, addr, told, phantom, pcase>>
TResp ==
  /\ Is("resp") /\ Step /\ UNCHANGED pend
  /\ CASE Ev.kind = "nomatch" -> NoOffer
       [] Ev.kind = "bad" -> BadBrokerResponse
       [] Ev.kind = "undecodable" -> OfferUndecodable
       [] Ev.kind = "offer" -> Offer(Ev.cls, Ev.sdp, Ev.addr)
       [] OTHER -> FALSE
TExit ==
  /\ Is("rs.exit") /\ Ev.g = "main" /\ Step /\ UNCHANGED pend
  /\ CASE Ev.kind = "badoffer" -> (mpc = "ret" /\ cls[cur] = "-" /\ UNCHANGED vars)
       [] Ev.kind \in {"rejected", "badurl"} -> RelayRejected(cls[cur])
       [] Ev.kind = "pcfail" -> PCFail
       [] Ev.kind = "answerfail" -> (mpc \in {"ret", "tick"} /\ cur \in closed /\ UNCHANGED vars)
       [] Ev.kind = "connected" -> DCSeen
       [] Ev.kind = "timeout" -> DCTimeoutRelease
       [] OTHER -> FALSE
TAnswer == Is("answer") /\ mpc = "answer" /\ Ev.s = cur /\ Step /\ UNCHANGED <<vars, pend>>
TAResp ==
  /\ Is("aresp") /\ Step /\ UNCHANGED pend
  /\ CASE Ev.kind = "ok" -> AnswerOK
       [] Ev.kind = "fail" -> AnswerFail
       [] OTHER -> FALSE
TTimer == Is("rs.dctimeout") /\ Ev.g = "main" /\ DCTimerFire /\ Step /\ UNCHANGED pend
TMainDec == Is("tok.ret.dec") /\ Ev.g = "main" /\ MainReleaseDec /\ Step /\ UNCHANGED pend
TMainTake == Is("tok.ret") /\ Ev.g = "main" /\ MainReleaseTake /\ Step /\ UNCHANGED pend

(* ---- callback, handler, relay ---- *)
TOnDC == Is("rs.ondc") /\ DCOpen(Ev.s) /\ Step /\ UNCHANGED pend
TDial == Is("dh.dial") /\ Ev.g = "h" /\ HandlerDial(Ev.s) /\ Step /\ UNCHANGED pend
(* the WebSocket request as the relay sees it: `told` takes the client_ip the relay was REALLY told
   (the rig names it: absent / own address of session k / real / other), so ToldAddrRight speaks
   about the real connection *)
TRelayReq ==
  /\ Is("relay.req") /\ Step /\ UNCHANGED pend
  /\ hpc[Ev.s] = "dialing"
  /\ told' = [told EXCEPT ![Ev.s] = [kind |-> Ev.told, of |-> Ev.of]]
  /\ UNCHANGED <<inUse, clients, mpc, cur, cls, sdp, hpc, released, owner, opened, closed, relayDialed, reported,
                 nNoOffer, nTimeouts, addr, phantom, pcase>>
TRelayAccept == Is("relay.accept") /\ RelayAccept(Ev.s) /\ Step /\ UNCHANGED pend
TRelayRefuse == Is("relay.refuse") /\ RelayDialFail(Ev.s) /\ Step /\ UNCHANGED pend

(* a step that may have been taken silently before its event arrives *)
Laggy(name, s, Act) ==
  \/ (name \in pend[s] /\ pend' = [pend EXCEPT ![s] = @ \ {name}] /\ UNCHANGED vars)
  \/ (name \notin pend[s] /\ Act /\ UNCHANGED pend)
TRelayEnd == Is("relay.end") /\ Step /\ Laggy("end", Ev.s, RelayEnd(Ev.s))
THDec == Is("tok.ret.dec") /\ Ev.g = "h" /\ Step /\ Laggy("dec", Ev.s, HandlerReleaseDec(Ev.s))
THTake == Is("tok.ret") /\ Ev.g = "h" /\ Step /\ Laggy("take", Ev.s, HandlerReleaseTake(Ev.s))
THEnd == Is("dh.end") /\ Ev.g = "h" /\ hpc[Ev.s] = "done" /\ pend[Ev.s] \subseteq {"end"} /\ Step /\ UNCHANGED <<vars, pend>>

(* ---- silent steps (l unchanged) ---- *)
Silent ==
  /\ l <= NEv /\ UNCHANGED l
  /\ \/ (RelayOK /\ UNCHANGED pend)
     \/ (PCOk /\ UNCHANGED pend)
     \/ (\E s \in Sessions : HandlerStart(s) /\ UNCHANGED pend)
     \/ (\E s \in Sessions : (s \in closed \/ (s = cur /\ mpc = "dctimeout"))   \* pc.Close() precedes the rs.exit hook
                              /\ RelayEnd(s) /\ pend' = [pend EXCEPT ![s] = @ \cup {"end"}])
     \/ (\E s \in Sessions : HandlerReleaseDec(s) /\ pend' = [pend EXCEPT ![s] = @ \cup {"dec"}])
     \/ (\E s \in Sessions : HandlerReleaseTake(s) /\ pend' = [pend EXCEPT ![s] = @ \cup {"take"}])

(* ---- end of the recording ---- *)
TEnd ==
  /\ Is("end") /\ Step /\ UNCHANGED <<vars, pend>>
  /\ \A s \in Sessions : pend[s] = {}
  /\ mpc = "polled"                                   \* the loop came back and is polling
  /\ \A s \in 1..(cur - 1) : Ended(s)
  /\ (NoHandlerInRet => (Ev.count = clients /\ Ev.len = inUse))
(* the rig gave up waiting for a step: the prefix is validated, the rest is the driver's business *)
TDiverged == Is("diverged") /\ l' = NEv + 1 /\ UNCHANGED <<vars, pend>>
TDone == l > NEv /\ UNCHANGED tvars

TNext ==
  \/ Skip \/ TGetInc \/ TGet \/ TPoll \/ TResp \/ TExit \/ TAnswer \/ TAResp \/ TTimer \/ TMainDec \/ TMainTake
  \/ TOnDC \/ TDial \/ TRelayReq \/ TRelayAccept \/ TRelayRefuse \/ TRelayEnd \/ THDec \/ THTake \/ THEnd
  \/ TPhantomHalf \/ TPhantomGet \/ TPhantomRet
  \/ Silent \/ TEnd \/ TDiverged \/ TDone

TSpec == TInit /\ [][TNext]_tvars

(* high-water mark of the position reached on any branch *)
Mark == IF l > TLCGet(1) THEN TLCSet(1, l) ELSE TRUE
TraceAccepted ==
  LET hw == TLCGet(1) IN
  IF hw = NEv + 1 THEN TRUE
  ELSE /\ PrintT(ToJson([unexplained |-> hw, event |-> TraceLog[hw]]))
       /\ FALSE
=============================================================================
