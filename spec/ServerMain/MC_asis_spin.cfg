CONSTANTS
  NConns = 1
  NUp = 1
  NDown = 1
  MaxTemp = 1
  MaxPerm = 0
  WithMain = FALSE
  StdinClose = FALSE
  StatsThread = TRUE
  OrReacts = TRUE
  EnvLite = TRUE
  AsIs_Spin = TRUE
  Mut = "none"
SPECIFICATION Spec
INVARIANTS TypeOK NoSpin
CHECK_DEADLOCK FALSE
