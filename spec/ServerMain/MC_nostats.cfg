CONSTANTS
  NConns = 1
  NUp = 1
  NDown = 1
  MaxTemp = 0
  MaxPerm = 0
  WithMain = FALSE
  StdinClose = FALSE
  StatsThread = FALSE
  OrReacts = TRUE
  EnvLite = TRUE
  Mut = "none"
SPECIFICATION Spec
INVARIANTS TypeOK
PROPERTIES StatsNeverBlocks
CHECK_DEADLOCK FALSE
