\* template: lib/checks/c05_servermain.py replaces WithMain / StatsThread per group of traces
CONSTANTS
  NConns = 3
  NUp = 4
  NDown = 4
  MaxTemp = 4
  MaxPerm = 1
  WithMain = FALSE
  StdinClose = TRUE
  StatsThread = TRUE
  OrReacts = TRUE
  EnvLite = FALSE
  Mut = "none"
SPECIFICATION TSpec
CONSTRAINT Mark
POSTCONDITION Post
INVARIANTS TCopyLaw TClosedOnEveryPath TCopiersGoneFirst TLoopEndsOnlyOnPerm TNoStuck
CHECK_DEADLOCK FALSE
