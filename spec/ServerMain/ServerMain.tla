----------------------------- MODULE ServerMain -----------------------------
(* server/server.go + server/stats.go: the main loop of the server pluggable
   transport - the glue between the verified listener (spec/Listener) and tor's
   ORPort.

     main          go statsThread(); per bindaddr: Listen, go acceptLoop(ln);
                   sigChan (capacity 1) <- SIGTERM | stdin EOF (when
                   TOR_PT_EXIT_ON_STDIN_CLOSE=1); <-sigChan; ln.Close() for
                   every listener; return (deferred ln.Close() again).  main
                   does NOT wait for the handlers: returning from main ends the
                   process and the kernel cuts every connection.
     acceptLoop    for { conn, err := ln.Accept()
                         temporary net.Error -> continue
                         other error         -> break
                         go func(){ defer conn.Close(); handleConn(conn) }() }
     handleConn    statsChannel <- (addr != "")      unbuffered; statsThread receives
                   or, err := pt.DialOr(..)           error -> return it (conn closed by the defer)
                   defer or.Close(); proxy(or, conn)
     proxy         wg.Add(2)
                   A: io.Copy(conn, or);  or.CloseRead();  conn.Close(); wg.Done()
                   B: io.Copy(or, conn);  or.CloseWrite(); conn.Close(); wg.Done()
                   wg.Wait()
     statsThread   for { select { v := <-statsChannel: count ; <-deadline (24 h): log, reset } }

   Grain: one action per blocking operation / Read / Write / Close call.
   C[i] is the state of connection i (handler goroutine h, copy goroutines a
   and b, the client-side conn c.., the ORPort side o..), L the accept loop,
   M main.

   WHO CLOSES WHAT, as the code does it (and as this module states it):
   * the client conn is closed by whichever copy direction ends FIRST (both
     directions call conn.Close()), and once more by the deferred call of the
     handler: up to three Close calls, at least one on every path
     (ClosedOnEveryPath).  The real conn (smux stream) makes the later calls
     harmless; "exactly once" is NOT what the code does.
   * the ORPort conn is half-closed per direction (CloseRead by A, CloseWrite by
     B) and fully closed exactly once, by handleConn's defer, after BOTH
     directions have ended.
   * client EOF/error  -> B: or.CloseWrite() (tor sees FIN), conn.Close().
     A stays in or.Read until TOR reacts (sends data - which is then dropped
     because conn is closed - or closes).  If tor never reacts the handler stays
     for ever (constant OrReacts; HandlerEnds needs it; what-if MC_orsilent).
     Data tor sends after the client's EOF is DROPPED (conn is already closed):
     there is no half-close towards the client.
   * ORPort EOF/error  -> A: or.CloseRead(), conn.Close(); that Close makes B's
     conn.Read fail, B: or.CloseWrite(), conn.Close(): a half-close by tor ends
     the whole connection; client data not yet read is dropped.
   * conn.Write error  -> as ORPort EOF.   or.Write error -> as client EOF.

   Properties
     CopyLaw            per direction, what arrived is a prefix of what was read
                        (chunks are keyed and numbered: the sequences 1..k), and in
                        every state  arrived + in hand + dropped-at-a-dead-peer =
                        read: nothing is lost, duplicated or reordered before the
                        first EOF/error of the connection.
     ClosedOnEveryPath  handler returned => client conn closed, and the ORPort
                        conn (if the dial succeeded) fully closed.
     CopiersGoneFirst   the handler closes the ORPort conn only after both copy
                        goroutines ended (no use after close by the handler).
     DialFailContinues  a failed ORPort dial closes the client conn (same
                        invariant) and leaves the accept loop where it was
                        (action property).
     LoopEndsOnlyOnPerm the accept loop ends only after a permanent Accept error
                        or after the listener was closed; a temporary error does
                        not end it.
                        What the loop does between a temporary error and the next
                        Accept call is NOT a property: the code calls Accept again
                        at once (AcceptRetryAtOnce - with a listener that keeps
                        failing, e.g. EMFILE, a busy loop; the real listener has
                        no temporary errors); a tree that pauses first
                        (AcceptRetryAfterPause) is accepted as well.  Which of the
                        two was seen is noted by the check, never judged.
     StatsNeverBlocks   liveness: a handler at the statsChannel send gets past it
                        (the receiver is statsThread, started by main before any
                        listener; constant StatsThread = FALSE is the what-if
                        "nobody receives": every handler parks for ever).
     HandlerEnds        liveness, under OrReacts: once either side has ended the
                        handler returns.
     NoStuck            safety shadow of the two at rest (for the replay).
     ShutdownExits      liveness with WF on main's own steps only: after the
                        signal main closes the listeners and exits, whether or
                        not handlers are active; ExitWaitsForNobody records that
                        a state "exited with a live handler" is reachable - the
                        code does not drain (DrainOnExit is what one might
                        expect; it is violated, see MC_drain.cfg).

   What-if constant Mut ("none" = the code): vacuity guards, each must violate
   exactly the property named:
     "noAclose"      A does not close conn                 -> NoStuck (B parked for ever)
     "breakOnTemp"   loop ends on a temporary error        -> LoopEndsOnlyOnPerm
     "noDeferConn"   handler does not close conn           -> ClosedOnEveryPath (dial failure)
     "noDeferOr"     handleConn does not close or          -> ClosedOnEveryPath
     "orCloseEarly"  B calls or.Close() instead of CloseWrite -> CopiersGoneFirst / trace
     "dropChunk"     B skips a chunk it read               -> CopyLaw

   Don't-care regions
   * which of several ready goroutines moves first; how many Close calls beyond
     the first reach the client conn;
   * the texts of errors and log lines; what statsThread counts (its counters
     are not observable; only that it receives);
   * a write into an ORPort socket that tor has reset may be accepted by the
     kernel (and lost) or fail: both allowed (BWriteLost / BWriteErr);
   * back-pressure: tor is assumed to keep reading (a write to the ORPort socket
     never blocks for ever), the client conn's Write never blocks;
   * ExtORPort (USERADDR/TRANSPORT/cookie) is the subject of C18, not of this
     module: the dial is "succeeds" or "fails". *)
EXTENDS Integers, Sequences, FiniteSets, TLC

CONSTANTS
  NConns,        \* connections the listener can deliver
  NUp, NDown,    \* chunks per connection: client -> ORPort, ORPort -> client
  MaxTemp,       \* temporary Accept errors the listener can report
  MaxPerm,       \* 0 or 1: the listener can report a permanent error by itself
  WithMain,      \* BOOLEAN: model main (signals, listener close, exit)
  StdinClose,    \* BOOLEAN: TOR_PT_EXIT_ON_STDIN_CLOSE=1
  StatsThread,   \* BOOLEAN: statsThread is running (TRUE = main starts it)
  OrReacts,      \* BOOLEAN: tor answers a FIN on the ORPort conn by closing it (fairness assumption)
  EnvLite,       \* BOOLEAN: a tame environment (no read error, no write failure, no reset) - keeps
                 \* configurations with several connections small; the full environment is checked with one
  Mut

ASSUME NConns \in Nat /\ NUp \in Nat /\ NDown \in Nat /\ MaxTemp \in Nat /\ MaxPerm \in 0..1
ASSUME WithMain \in BOOLEAN /\ StdinClose \in BOOLEAN /\ StatsThread \in BOOLEAN /\ OrReacts \in BOOLEAN /\ EnvLite \in BOOLEAN
ASSUME Mut \in {"none", "noAclose", "breakOnTemp", "noDeferConn", "noDeferOr", "orCloseEarly", "dropChunk"}

Conns == 1..NConns

VARIABLES
  L,   \* accept loop: [pc, temps, pauses, perm, nacc]
  C,   \* connections: function Conns -> record (see Fresh)
  M,   \* main: [pc, sigq, stdin, lnClosed]
  nstats   \* values statsThread has received since its last report

vars == <<L, C, M, nstats>>

Fresh == [
  plan |-> "ok",     \* fate of the ORPort dial, fixed when the connection arrives (environment)
  h |-> "none",      \* handler: none | stats | dial | wait | orclose | connclose | done
  wg |-> 0,          \* copy goroutines that called wg.Done()
  a |-> "none", ahold |-> 0,    \* A (ORPort -> client): none | read | write | closeread | closeconn | done
  b |-> "none", bhold |-> 0,    \* B (client -> ORPort): none | read | write | closewrite | closeconn | done
  cq |-> <<>>,       \* client conn: what Read will return next (chunk numbers, then -1 = io.EOF | -2 = another error)
  csent |-> 0,       \* chunks the client has sent
  cend |-> "open",   \* open | eof | err : the client's side has ended
  ctaken |-> 0,      \* chunks conn.Read has returned to B
  cclosed |-> FALSE, \* conn.Close() was called at least once
  cwfail |-> FALSE,  \* conn.Write fails from now on
  cgot |-> <<>>,     \* chunks conn.Write accepted
  ost |-> "none",    \* ORPort side (tor): none | open | fin | reset
  osent |-> 0,       \* chunks tor has sent
  owire |-> <<>>,    \* ... not yet read by A
  ataken |-> 0,      \* chunks or.Read has returned to A
  ogot |-> <<>>,     \* chunks that arrived at tor
  ofin |-> FALSE,    \* tor has seen the end of the stream (FIN from CloseWrite/Close, or the cut at exit)
  oclosed |-> FALSE, \* handleConn called or.Close()
  lostUp |-> 0, lostDown |-> 0,    \* chunks read and then dropped at a dead peer
  dialerr |-> FALSE  \* handleConn returned the dial error
]

HPcs == {"none", "stats", "dial", "wait", "orclose", "connclose", "done"}
APcs == {"none", "read", "write", "closeread", "closeconn", "done"}
BPcs == {"none", "read", "write", "closewrite", "closeconn", "done"}

IsPrefixNat(s, n) == Len(s) <= n /\ \A k \in 1..Len(s) : s[k] = k

TypeOK ==
  /\ L.pc \in {"accept", "backoff", "ended"} /\ L.temps \in 0..MaxTemp /\ L.pauses \in 0..MaxTemp
  /\ L.perm \in BOOLEAN /\ L.nacc \in 0..NConns
  /\ M.pc \in {"serve", "closing", "return", "exited"} /\ M.sigq \in 0..1 /\ M.stdin \in {"open", "eof", "sent"} /\ M.lnClosed \in BOOLEAN
  /\ nstats \in 0..NConns
  /\ \A i \in Conns :
       /\ C[i].h \in HPcs /\ C[i].a \in APcs /\ C[i].b \in BPcs /\ C[i].wg \in 0..2
       /\ C[i].plan \in {"ok", "fail"} /\ C[i].cend \in {"open", "eof", "err"} /\ C[i].ost \in {"none", "open", "fin", "reset"}
       /\ C[i].csent \in 0..NUp /\ C[i].ctaken \in 0..NUp /\ C[i].osent \in 0..NDown /\ C[i].ataken \in 0..NDown
       /\ C[i].cclosed \in BOOLEAN /\ C[i].cwfail \in BOOLEAN /\ C[i].ofin \in BOOLEAN /\ C[i].oclosed \in BOOLEAN /\ C[i].dialerr \in BOOLEAN

Init ==
  /\ L = [pc |-> "accept", temps |-> 0, pauses |-> 0, perm |-> FALSE, nacc |-> 0]
  /\ C = [i \in Conns |-> Fresh]
  /\ M = [pc |-> "serve", sigq |-> 0, stdin |-> "open", lnClosed |-> FALSE]
  /\ nstats = 0

Alive == M.pc # "exited"      \* after main returned nothing in the process moves

-----------------------------------------------------------------------------
(* accept loop *)

LAcceptConn(d) ==     \* environment: the listener delivers the next connection; `go func(){...}()`; loop
  /\ Alive /\ L.pc = "accept" /\ ~M.lnClosed /\ L.nacc < NConns
  /\ L' = [L EXCEPT !.nacc = @ + 1]
  /\ C' = [C EXCEPT ![L.nacc + 1].h = "stats", ![L.nacc + 1].plan = d]
  /\ UNCHANGED <<M, nstats>>

(* environment: Accept returns a temporary net.Error.  As-is: continue, Accept is called again at once *)
AcceptRetryAtOnce ==
  /\ Alive /\ L.pc = "accept" /\ ~M.lnClosed /\ L.temps < MaxTemp
  /\ L' = (IF Mut = "breakOnTemp" THEN [L EXCEPT !.temps = @ + 1, !.pc = "ended"]
           ELSE [L EXCEPT !.temps = @ + 1])
  /\ UNCHANGED <<C, M, nstats>>

(* ... or the loop sleeps first (the idiom of net/http.Server.Serve): equally acceptable, see the header *)
AcceptRetryAfterPause ==
  /\ Alive /\ L.pc = "accept" /\ ~M.lnClosed /\ L.temps < MaxTemp /\ Mut # "breakOnTemp"
  /\ L' = [L EXCEPT !.temps = @ + 1, !.pauses = @ + 1, !.pc = "backoff"]
  /\ UNCHANGED <<C, M, nstats>>

LBackoffDone ==       \* the pause ends, Accept is called again
  /\ Alive /\ L.pc = "backoff"
  /\ L' = [L EXCEPT !.pc = "accept"]
  /\ UNCHANGED <<C, M, nstats>>

LAcceptPerm ==        \* environment: Accept returns a permanent error although nobody closed the listener
  /\ Alive /\ L.pc = "accept" /\ ~M.lnClosed /\ ~L.perm /\ MaxPerm = 1
  /\ L' = [L EXCEPT !.pc = "ended", !.perm = TRUE]
  /\ UNCHANGED <<C, M, nstats>>

LAcceptClosed ==      \* the listener was closed: Accept returns io.ErrClosedPipe (permanent, spec/Listener)
  /\ Alive /\ L.pc = "accept" /\ M.lnClosed
  /\ L' = [L EXCEPT !.pc = "ended"]
  /\ UNCHANGED <<C, M, nstats>>

-----------------------------------------------------------------------------
(* handler goroutine *)

HStats(i) ==          \* rendezvous `statsChannel <- ..` with statsThread's receive
  /\ Alive /\ C[i].h = "stats" /\ StatsThread
  /\ C' = [C EXCEPT ![i].h = "dial"]
  /\ nstats' = nstats + 1
  /\ UNCHANGED <<L, M>>

StatsReport ==        \* statsThread's deadline case: log the counters, reset
  /\ Alive /\ StatsThread /\ nstats > 0
  /\ nstats' = 0
  /\ UNCHANGED <<L, C, M>>

HDial(i) ==           \* pt.DialOr; on success proxy(): wg.Add(2), go A, go B, wg.Wait()
  /\ Alive /\ C[i].h = "dial"
  /\ C' = (IF C[i].plan = "ok"
             THEN [C EXCEPT ![i].h = "wait", ![i].ost = "open", ![i].a = "read", ![i].b = "read"]
             ELSE [C EXCEPT ![i].h = "connclose", ![i].dialerr = TRUE])
  /\ UNCHANGED <<L, M, nstats>>

HWait(i) ==           \* wg.Wait() returns; handleConn returns: deferred or.Close() next
  /\ Alive /\ C[i].h = "wait" /\ C[i].wg = 2
  /\ C' = [C EXCEPT ![i].h = "orclose"]
  /\ UNCHANGED <<L, M, nstats>>

HOrClose(i) ==
  /\ Alive /\ C[i].h = "orclose"
  /\ C' = (IF Mut = "noDeferOr" THEN [C EXCEPT ![i].h = "connclose"]
           ELSE [C EXCEPT ![i].h = "connclose", ![i].oclosed = TRUE, ![i].ofin = (@ \/ C[i].ost # "reset")])
  /\ UNCHANGED <<L, M, nstats>>

HConnClose(i) ==      \* the deferred conn.Close() of acceptLoop's goroutine
  /\ Alive /\ C[i].h = "connclose"
  /\ C' = (IF Mut = "noDeferConn" THEN [C EXCEPT ![i].h = "done"]
           ELSE [C EXCEPT ![i].h = "done", ![i].cclosed = TRUE])
  /\ UNCHANGED <<L, M, nstats>>

-----------------------------------------------------------------------------
(* A: io.Copy(conn, or) - ORPort to client *)

AReadChunk(i) ==
  /\ Alive /\ C[i].a = "read" /\ Len(C[i].owire) > 0 /\ ~C[i].oclosed
  /\ C' = [C EXCEPT ![i].a = "write", ![i].ahold = Head(C[i].owire), ![i].owire = Tail(@), ![i].ataken = @ + 1]
  /\ UNCHANGED <<L, M, nstats>>

AReadEnd(i) ==        \* EOF (tor's FIN), ECONNRESET, or "use of closed connection" (what-if orCloseEarly)
  /\ Alive /\ C[i].a = "read" /\ Len(C[i].owire) = 0 /\ (C[i].ost \in {"fin", "reset"} \/ C[i].oclosed)
  /\ C' = [C EXCEPT ![i].a = "closeread"]
  /\ UNCHANGED <<L, M, nstats>>

AWrite(i) ==          \* conn.Write: accepted, or an error (conn closed / client gone) - the chunk is dropped
  /\ Alive /\ C[i].a = "write"
  /\ C' = (IF C[i].cclosed \/ C[i].cwfail
             THEN [C EXCEPT ![i].a = "closeread", ![i].ahold = 0, ![i].lostDown = @ + 1]
             ELSE [C EXCEPT ![i].a = "read", ![i].ahold = 0, ![i].cgot = Append(@, C[i].ahold)])
  /\ UNCHANGED <<L, M, nstats>>

ACloseRead(i) ==      \* or.CloseRead(): nothing tor can see
  /\ Alive /\ C[i].a = "closeread"
  /\ C' = [C EXCEPT ![i].a = "closeconn"]
  /\ UNCHANGED <<L, M, nstats>>

ACloseConn(i) ==      \* conn.Close(); wg.Done()
  /\ Alive /\ C[i].a = "closeconn"
  /\ C' = (IF Mut = "noAclose" THEN [C EXCEPT ![i].a = "done", ![i].wg = @ + 1]
           ELSE [C EXCEPT ![i].a = "done", ![i].wg = @ + 1, ![i].cclosed = TRUE])
  /\ UNCHANGED <<L, M, nstats>>

-----------------------------------------------------------------------------
(* B: io.Copy(or, conn) - client to ORPort *)

BReadChunk(i) ==
  /\ Alive /\ C[i].b = "read" /\ ~C[i].cclosed /\ Len(C[i].cq) > 0 /\ Head(C[i].cq) > 0
  /\ C' = (IF Mut = "dropChunk" /\ Head(C[i].cq) = 2
             THEN [C EXCEPT ![i].cq = Tail(@), ![i].ctaken = @ + 1]
             ELSE [C EXCEPT ![i].b = "write", ![i].bhold = Head(C[i].cq), ![i].cq = Tail(@), ![i].ctaken = @ + 1])
  /\ UNCHANGED <<L, M, nstats>>

BReadEnd(i) ==        \* io.EOF, a read error, or io.ErrClosedPipe because conn was closed (by A)
  /\ Alive /\ C[i].b = "read"
  /\ (C[i].cclosed \/ (Len(C[i].cq) > 0 /\ Head(C[i].cq) < 0))
  /\ C' = [C EXCEPT ![i].b = "closewrite"]
  /\ UNCHANGED <<L, M, nstats>>

BWrite(i) ==          \* or.Write towards a tor that is there (a half-closed tor still receives)
  /\ Alive /\ C[i].b = "write" /\ C[i].ost # "reset" /\ ~C[i].oclosed
  /\ C' = [C EXCEPT ![i].b = "read", ![i].bhold = 0, ![i].ogot = Append(@, C[i].bhold)]
  /\ UNCHANGED <<L, M, nstats>>

BWriteLost(i) ==      \* tor has reset the connection: the kernel may still accept the write
  /\ Alive /\ C[i].b = "write" /\ C[i].ost = "reset" /\ ~C[i].oclosed
  /\ C' = [C EXCEPT ![i].b = "read", ![i].bhold = 0, ![i].lostUp = @ + 1]
  /\ UNCHANGED <<L, M, nstats>>

BWriteErr(i) ==       \* ... or refuse it (EPIPE / ECONNRESET / closed by what-if orCloseEarly)
  /\ Alive /\ C[i].b = "write" /\ (C[i].ost = "reset" \/ C[i].oclosed)
  /\ C' = [C EXCEPT ![i].b = "closewrite", ![i].bhold = 0, ![i].lostUp = @ + 1]
  /\ UNCHANGED <<L, M, nstats>>

BCloseWrite(i) ==     \* or.CloseWrite(): tor sees the FIN
  /\ Alive /\ C[i].b = "closewrite"
  /\ C' = (IF Mut = "orCloseEarly"
             THEN [C EXCEPT ![i].b = "closeconn", ![i].oclosed = TRUE, ![i].ofin = (@ \/ C[i].ost # "reset")]
             ELSE [C EXCEPT ![i].b = "closeconn", ![i].ofin = (@ \/ C[i].ost # "reset")])
  /\ UNCHANGED <<L, M, nstats>>

BCloseConn(i) ==      \* conn.Close(); wg.Done()
  /\ Alive /\ C[i].b = "closeconn"
  /\ C' = [C EXCEPT ![i].b = "done", ![i].wg = @ + 1, ![i].cclosed = TRUE]
  /\ UNCHANGED <<L, M, nstats>>

-----------------------------------------------------------------------------
(* environment: the client behind the conn, tor behind the ORPort *)

Exists(i) == C[i].h # "none"
EndMark(kind) == IF kind = "eof" THEN -1 ELSE -2     \* what Read returns at the end of the queue

ClientChunk(i) ==
  /\ Alive /\ Exists(i) /\ C[i].h # "done" /\ C[i].cend = "open" /\ C[i].csent < NUp
  /\ C' = [C EXCEPT ![i].csent = @ + 1, ![i].cq = Append(@, C[i].csent + 1)]
  /\ UNCHANGED <<L, M, nstats>>

ClientEnd(i, kind) ==     \* the stream ends: Read returns io.EOF ("eof") or another error ("err")
  /\ (EnvLite => kind = "eof")
  /\ Alive /\ Exists(i) /\ C[i].h # "done" /\ C[i].cend = "open"
  /\ C' = [C EXCEPT ![i].cend = kind, ![i].cq = Append(@, EndMark(kind))]
  /\ UNCHANGED <<L, M, nstats>>

ConnWriteFail(i) ==       \* the path to the client is gone: conn.Write fails from now on
  /\ ~EnvLite /\ Alive /\ Exists(i) /\ C[i].h # "done" /\ ~C[i].cwfail
  /\ C' = [C EXCEPT ![i].cwfail = TRUE]
  /\ UNCHANGED <<L, M, nstats>>

OrChunk(i) ==
  /\ Alive /\ C[i].ost = "open" /\ C[i].osent < NDown /\ ~C[i].oclosed
  /\ C' = [C EXCEPT ![i].osent = @ + 1, ![i].owire = Append(@, C[i].osent + 1)]
  /\ UNCHANGED <<L, M, nstats>>

OrFin(i) ==               \* tor half-closes (or closes) its side
  /\ Alive /\ C[i].ost = "open" /\ ~C[i].oclosed
  /\ C' = [C EXCEPT ![i].ost = "fin"]
  /\ UNCHANGED <<L, M, nstats>>

OrReset(i, keep) ==       \* tor aborts: RST; unread data may or may not survive in A's socket
  /\ ~EnvLite /\ Alive /\ C[i].ost \in {"open", "fin"} /\ ~C[i].oclosed
  /\ C' = [C EXCEPT ![i].ost = "reset", ![i].owire = (IF keep THEN @ ELSE <<>>),
                    ![i].lostDown = (IF keep THEN @ ELSE @ + Len(C[i].owire))]
  /\ UNCHANGED <<L, M, nstats>>

(* tor's answer to our FIN: it closes too.  Only this step carries fairness (OrReacts). *)
OrAnswersFin(i) == C[i].ofin /\ OrFin(i)

-----------------------------------------------------------------------------
(* main *)

MSigterm ==           \* environment: SIGTERM; signal.Notify never blocks (a full channel drops the signal)
  /\ WithMain /\ Alive
  /\ M' = [M EXCEPT !.sigq = 1]
  /\ UNCHANGED <<L, C, nstats>>

MStdinEOF ==          \* environment: tor closes our stdin
  /\ WithMain /\ StdinClose /\ Alive /\ M.stdin = "open"
  /\ M' = [M EXCEPT !.stdin = "eof"]
  /\ UNCHANGED <<L, C, nstats>>

MStdinSend ==         \* `sigChan <- syscall.SIGTERM` of the stdin goroutine (blocks while the buffer is full)
  /\ WithMain /\ Alive /\ M.stdin = "eof" /\ M.sigq = 0
  /\ M' = [M EXCEPT !.stdin = "sent", !.sigq = 1]
  /\ UNCHANGED <<L, C, nstats>>

MRecv ==              \* sig := <-sigChan
  /\ WithMain /\ M.pc = "serve" /\ M.sigq = 1
  /\ M' = [M EXCEPT !.pc = "closing", !.sigq = 0]
  /\ UNCHANGED <<L, C, nstats>>

MCloseListeners ==    \* for _, ln := range listeners { ln.Close() }
  /\ WithMain /\ M.pc = "closing"
  /\ M' = [M EXCEPT !.pc = "return", !.lnClosed = TRUE]
  /\ UNCHANGED <<L, C, nstats>>

MExit ==              \* main returns: the process ends, the kernel closes every socket
  /\ WithMain /\ M.pc = "return"
  /\ M' = [M EXCEPT !.pc = "exited"]
  /\ C' = [i \in Conns |-> IF C[i].ost \in {"open", "fin"} /\ ~C[i].oclosed THEN [C[i] EXCEPT !.ofin = TRUE] ELSE C[i]]
  /\ UNCHANGED <<L, nstats>>

-----------------------------------------------------------------------------
HandlerCode(i) == HStats(i) \/ HDial(i) \/ HWait(i) \/ HOrClose(i) \/ HConnClose(i)
ACode(i) == AReadChunk(i) \/ AReadEnd(i) \/ AWrite(i) \/ ACloseRead(i) \/ ACloseConn(i)
BCode(i) == BReadChunk(i) \/ BReadEnd(i) \/ BWrite(i) \/ BWriteLost(i) \/ BWriteErr(i) \/ BCloseWrite(i) \/ BCloseConn(i)
MainCode == MStdinSend \/ MRecv \/ MCloseListeners \/ MExit

(* steps the process takes by itself *)
CodeNext ==
  \/ LBackoffDone \/ LAcceptClosed \/ MainCode
  \/ \E i \in Conns : HandlerCode(i) \/ ACode(i) \/ BCode(i)

EnvNext ==
  \/ (\E d \in {"ok", "fail"} : LAcceptConn(d)) \/ AcceptRetryAtOnce \/ AcceptRetryAfterPause \/ LAcceptPerm
  \/ (\E i \in Conns : ClientChunk(i) \/ ClientEnd(i, "eof") \/ ClientEnd(i, "err") \/ ConnWriteFail(i)
                        \/ OrChunk(i) \/ OrFin(i) \/ OrReset(i, TRUE) \/ OrReset(i, FALSE))
  \/ MSigterm \/ MStdinEOF
  \/ StatsReport

Next == CodeNext \/ EnvNext

Fairness ==
  /\ WF_vars(LBackoffDone) /\ WF_vars(LAcceptClosed)
  /\ WF_vars(MStdinSend) /\ WF_vars(MRecv) /\ WF_vars(MCloseListeners) /\ WF_vars(MExit)
  /\ \A i \in Conns :
       /\ WF_vars(HStats(i)) /\ WF_vars(HDial(i)) /\ WF_vars(HWait(i)) /\ WF_vars(HOrClose(i)) /\ WF_vars(HConnClose(i))
       /\ WF_vars(AReadChunk(i)) /\ WF_vars(AReadEnd(i)) /\ WF_vars(AWrite(i)) /\ WF_vars(ACloseRead(i)) /\ WF_vars(ACloseConn(i))
       /\ WF_vars(BReadChunk(i)) /\ WF_vars(BReadEnd(i)) /\ WF_vars(BWrite(i)) /\ WF_vars(BWriteLost(i) \/ BWriteErr(i))
       /\ WF_vars(BCloseWrite(i)) /\ WF_vars(BCloseConn(i))
       /\ (OrReacts => WF_vars(OrAnswersFin(i)))

Spec == Init /\ [][Next]_vars /\ Fairness

(* Generation grain (gated replay): the environment moves only when the process is
   at rest; OrReset is issued with keep = FALSE only (at rest nothing is on the wire). *)
Quiescent == ~ENABLED CodeNext
GAccept(d)        == Quiescent /\ LAcceptConn(d)
GAcceptRetryAtOnce     == Quiescent /\ AcceptRetryAtOnce
GAcceptRetryAfterPause == Quiescent /\ AcceptRetryAfterPause
GAcceptPerm       == Quiescent /\ LAcceptPerm
GClientChunk(i)   == Quiescent /\ ClientChunk(i)
GClientEnd(i, k)  == Quiescent /\ ClientEnd(i, k)
GConnWriteFail(i) == Quiescent /\ ConnWriteFail(i)
GOrChunk(i)       == Quiescent /\ OrChunk(i)
GOrFin(i)         == Quiescent /\ OrFin(i)
GOrReset(i)       == Quiescent /\ OrReset(i, FALSE)
GSigterm          == Quiescent /\ M.sigq = 0 /\ M.pc = "serve" /\ MSigterm
GStdinEOF         == Quiescent /\ M.pc = "serve" /\ MStdinEOF

GenNext ==
  \/ LBackoffDone \/ LAcceptClosed \/ MStdinSend \/ MRecv \/ MCloseListeners \/ MExit
  \/ (\E i \in Conns : HStats(i) \/ HDial(i) \/ HWait(i) \/ HOrClose(i) \/ HConnClose(i))
  \/ (\E i \in Conns : AReadChunk(i) \/ AReadEnd(i) \/ AWrite(i) \/ ACloseRead(i) \/ ACloseConn(i))
  \/ (\E i \in Conns : BReadChunk(i) \/ BReadEnd(i) \/ BWrite(i) \/ BWriteLost(i) \/ BWriteErr(i) \/ BCloseWrite(i) \/ BCloseConn(i))
  \/ (\E d \in {"ok", "fail"} : GAccept(d)) \/ GAcceptRetryAtOnce \/ GAcceptRetryAfterPause \/ GAcceptPerm
  \/ (\E i \in Conns : GClientChunk(i) \/ GClientEnd(i, "eof") \/ GClientEnd(i, "err") \/ GConnWriteFail(i)
                        \/ GOrChunk(i) \/ GOrFin(i) \/ GOrReset(i))
  \/ GSigterm \/ GStdinEOF
GenSpec == Init /\ [][GenNext]_vars

-----------------------------------------------------------------------------
(* Properties *)

InHandA(i) == IF C[i].a = "write" THEN 1 ELSE 0
InHandB(i) == IF C[i].b = "write" THEN 1 ELSE 0

CopyLaw ==
  \A i \in Conns :
    /\ IsPrefixNat(C[i].ogot, C[i].ctaken) /\ IsPrefixNat(C[i].cgot, C[i].ataken)
    /\ C[i].ctaken <= C[i].csent /\ C[i].ataken <= C[i].osent
    /\ Len(C[i].ogot) + InHandB(i) + C[i].lostUp = C[i].ctaken
    /\ Len(C[i].cgot) + InHandA(i) + C[i].lostDown + Len(C[i].owire) = C[i].osent
    /\ (C[i].lostUp > 0 => C[i].ost = "reset" \/ C[i].oclosed)      \* chunks are dropped only at a dead peer
    /\ (C[i].lostDown > 0 => C[i].cclosed \/ C[i].cwfail \/ C[i].ost = "reset")

ClosedOnEveryPath ==
  \A i \in Conns : C[i].h = "done" => (C[i].cclosed /\ (C[i].ost # "none" => C[i].oclosed))

CopiersGoneFirst ==
  \A i \in Conns : C[i].oclosed => (C[i].a = "done" /\ C[i].b = "done")

LoopEndsOnlyOnPerm == L.pc = "ended" => (L.perm \/ M.lnClosed)


(* a failed dial changes nothing but the connection it belongs to *)
DialFailContinues ==
  [][\A i \in Conns : (C[i].h = "dial" /\ C[i].plan = "fail" /\ C'[i].h # "dial") => (L' = L /\ M' = M)]_vars

(* at rest: no handler parked at the stats send; a copy direction that ended has taken
   the other one with it unless that one waits for tor (A in or.Read after the client's
   end, tor still silent); a handler whose copiers are gone has returned *)
WaitingForTor(i) == C[i].b = "done" /\ C[i].a = "read" /\ C[i].ost = "open" /\ Len(C[i].owire) = 0
NoStuck ==
  (Quiescent /\ Alive) =>
    \A i \in Conns :
      /\ C[i].h \in {"none", "stats", "wait", "done"}
      /\ (C[i].h = "wait" => ((C[i].a = "read" /\ C[i].b = "read") \/ WaitingForTor(i)))
NoStuckStats ==
  (Quiescent /\ Alive) => \A i \in Conns : C[i].h # "stats"

(* what one might expect of a shutdown, and what the code does not do (MC_drain.cfg: violated) *)
DrainOnExit == M.pc = "exited" => \A i \in Conns : C[i].h \in {"none", "done"}

(* liveness *)
StatsNeverBlocks == \A i \in Conns : (C[i].h = "stats") ~> (C[i].h # "stats" \/ ~Alive)
Ended(i) == C[i].cend # "open" \/ C[i].ost \in {"fin", "reset"}      \* either side has ended the stream
HandlerEnds == \A i \in Conns : (C[i].h = "wait" /\ Ended(i)) ~> (C[i].h = "done" \/ ~Alive)
ShutdownExits == (M.sigq = 1 \/ M.stdin = "eof") ~> (M.pc = "exited")
LoopEnds == (L.perm \/ M.lnClosed) ~> (L.pc = "ended" \/ ~Alive)
=============================================================================
