CONSTANTS
  NConns = 1
  NUp = 1
  NDown = 1
  MaxTemp = 0
  MaxPerm = 0
  WithMain = TRUE
  StdinClose = TRUE
  StatsThread = TRUE
  OrReacts = TRUE
  EnvLite = TRUE
  Mut = "none"
SPECIFICATION Spec
INVARIANTS TypeOK DrainOnExit
CHECK_DEADLOCK FALSE
