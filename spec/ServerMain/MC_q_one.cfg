CONSTANTS
  NConns = 1
  NUp = 1
  NDown = 1
  MaxTemp = 0
  MaxPerm = 0
  WithMain = FALSE
  StdinClose = FALSE
  StatsThread = TRUE
  OrReacts = TRUE
  EnvLite = FALSE
  AsIs_Spin = FALSE
  Mut = "none"
SPECIFICATION Spec
INVARIANTS TypeOK CopyLaw ClosedOnEveryPath CopiersGoneFirst LoopEndsOnlyOnPerm NoSpin NoStuck NoStuckStats
PROPERTIES DialFailContinues StatsNeverBlocks HandlerEnds LoopEnds
CHECK_DEADLOCK FALSE
