CONSTANTS
  NConns = 3
  NUp = 3
  NDown = 3
  MaxTemp = 3
  MaxPerm = 1
  WithMain = FALSE
  StdinClose = FALSE
  StatsThread = TRUE
  OrReacts = TRUE
  EnvLite = FALSE
  Mut = "none"
SPECIFICATION GenSpec
INVARIANTS TypeOK CopyLaw ClosedOnEveryPath CopiersGoneFirst LoopEndsOnlyOnPerm NoStuck NoStuckStats
CHECK_DEADLOCK FALSE
