CONSTANTS
  NConns = 3
  NUp = 3
  NDown = 3
  MaxTemp = 3
  MaxPerm = 1
  WithMain = FALSE
  StdinClose = FALSE
  StatsThread = TRUE
  OrReacts = TRUE
  EnvLite = FALSE
  AsIs_Spin = FALSE
  Mut = "none"
SPECIFICATION GenSpec
INVARIANTS TypeOK CopyLaw ClosedOnEveryPath CopiersGoneFirst LoopEndsOnlyOnPerm NoSpin NoStuck NoStuckStats
CHECK_DEADLOCK FALSE
