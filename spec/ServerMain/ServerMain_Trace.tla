------------------------- MODULE ServerMain_Trace -------------------------
(* Trace specification for ServerMain (DESIGN 2.2 item 4).

   traces.ndjson: one JSON object per line, recorded from the REAL code of
   /repo/server by harness/inpkg/server/servermain_verif_test.go:
     {"id": n, "events": [e1, e2, ...]}

   In-package traces (real acceptLoop / handleConn / proxy, scripted listener
   and client conn, a loopback TCP listener as the ORPort):
     Accept{d}            the listener hands the next conn to Accept; the ORPort
                          will accept ("ok") or refuse ("fail") the dial
     AcceptTemp           Accept returns a temporary net.Error
     AcceptPerm           Accept returns a permanent error
     ClientChunk{i}       conn i's Read will return the next keyed chunk
     ClientEnd{i,kind}    ... then io.EOF ("eof") or another error ("err")
     ConnWriteFail{i}     conn i's Write fails from now on
     OrChunk{i}           the ORPort side writes its next keyed chunk
     OrFin{i} OrReset{i}  the ORPort side half-closes / aborts
     obs / final          taken when every goroutine of the code under test is
                          parked (goroutine dump) and the loopback sockets have
                          settled: where the loop is (and, not compared, how many pauses it made),
                          per connection where handler / A / B are parked, what
                          arrived on each side, who saw which close

   Process traces (the real main() in a child process, real listener, a real
   Turbo Tunnel client, a loopback ORPort):
     Connect              a client opens a stream: the listener delivers a conn
     ClientChunk / OrChunk / ClientEnd{eof} / OrFin      as above
     Sigterm / StdinEOF   the shutdown signal
     pobs                 exited?, per connection what arrived on each side and
                          whether the ORPort side has seen the end

   Every command was issued when the real process was at rest, so it is
   explained from a state that is at rest in the model too (Quiescent); the
   goroutines' own steps are silent.  An observation is explained by a
   quiescent state that agrees on everything observed.  Acceptance: high-water
   mark of l per trace, POSTCONDITION prints the rejected traces. *)
EXTENDS ServerMain, Json, TLCExt

VARIABLES tr, l

tvars == <<vars, tr, l>>

Traces == ndJsonDeserialize("traces.ndjson")
NT == Len(Traces)
Events(t) == Traces[t].events

TInit ==
  /\ tr \in 1..NT
  /\ l = 1
  /\ Init
  /\ TLCSet(tr, 1)

HasNext == l <= Len(Events(tr))
E == Events(tr)[l]
IsEv(n) == HasNext /\ E.ev = n
Adv == l' = l + 1 /\ tr' = tr
IOk == E.i \in Conns

TAccept      == IsEv("Accept") /\ E.d \in {"ok", "fail"} /\ GAccept(E.d) /\ Adv
TConnect     == IsEv("Connect") /\ GAccept("ok") /\ Adv
TAcceptTemp  == IsEv("AcceptTemp") /\ (GAcceptRetryAtOnce \/ GAcceptRetryAfterPause) /\ Adv    \* either way (not judged)
TAcceptPerm  == IsEv("AcceptPerm") /\ GAcceptPerm /\ Adv
TClientChunk == IsEv("ClientChunk") /\ IOk /\ GClientChunk(E.i) /\ Adv
TClientEnd   == IsEv("ClientEnd") /\ IOk /\ E.kind \in {"eof", "err"} /\ GClientEnd(E.i, E.kind) /\ Adv
TWriteFail   == IsEv("ConnWriteFail") /\ IOk /\ GConnWriteFail(E.i) /\ Adv
TOrChunk     == IsEv("OrChunk") /\ IOk /\ GOrChunk(E.i) /\ Adv
TOrFin       == IsEv("OrFin") /\ IOk /\ GOrFin(E.i) /\ Adv
TOrReset     == IsEv("OrReset") /\ IOk /\ GOrReset(E.i) /\ Adv
TSigterm     == IsEv("Sigterm") /\ GSigterm /\ Adv
TStdinEOF    == IsEv("StdinEOF") /\ GStdinEOF /\ Adv

TSilent == HasNext /\ CodeNext /\ UNCHANGED <<tr, l>>

SeqEq(s, o) == Len(s) = Len(o) /\ \A k \in 1..Len(s) : s[k] = o[k]

ConnMatch(i, o) ==
  /\ C[i].h = o.h /\ C[i].a = o.a /\ C[i].b = o.b
  /\ C[i].cclosed = o.closed
  /\ C[i].ctaken = o.taken
  /\ SeqEq(C[i].cgot, o.cgot) /\ SeqEq(C[i].ogot, o.ogot)
  /\ C[i].ofin = o.ofin /\ C[i].oclosed = o.oclosed
  /\ C[i].dialerr = o.dialerr
  /\ ~o.use                      \* no Read/Write/Close on the conn after its handler returned

TObs ==
  /\ HasNext /\ E.ev \in {"obs", "final"}
  /\ Quiescent
  /\ L.pc = E.loop          \* (E.pauses is recorded for the check's note, it is not compared)
  /\ Len(E.conns) = L.nacc
  /\ \A i \in 1..Len(E.conns) : i \in Conns /\ ConnMatch(i, E.conns[i])
  /\ UNCHANGED vars /\ Adv

PConnMatch(i, o) ==
  /\ SeqEq(C[i].cgot, o.cgot) /\ SeqEq(C[i].ogot, o.ogot)
  /\ C[i].ofin = o.ofin

TPObs ==
  /\ IsEv("pobs")
  /\ Quiescent
  /\ (M.pc = "exited") = E.exited
  /\ Len(E.conns) = L.nacc
  /\ \A i \in 1..Len(E.conns) : i \in Conns /\ PConnMatch(i, E.conns[i])
  /\ UNCHANGED vars /\ Adv

TNext ==
  \/ TAccept \/ TConnect \/ TAcceptTemp \/ TAcceptPerm \/ TClientChunk \/ TClientEnd \/ TWriteFail
  \/ TOrChunk \/ TOrFin \/ TOrReset \/ TSigterm \/ TStdinEOF \/ TSilent \/ TObs \/ TPObs

TSpec == TInit /\ [][TNext]_tvars

(* CONSTRAINT: side effect only - remember how far each trace was explained *)
Mark == (IF l > TLCGet(tr) THEN TLCSet(tr, l) ELSE TRUE)

Rejected == {t \in 1..NT : TLCGet(t) # Len(Events(t)) + 1}

Post ==
  PrintT(ToJson([nt |-> NT, rejected |-> {<<Traces[t].id, TLCGet(t)>> : t \in Rejected}]))

TCopyLaw == CopyLaw
TClosedOnEveryPath == ClosedOnEveryPath
TCopiersGoneFirst == CopiersGoneFirst
TLoopEndsOnlyOnPerm == LoopEndsOnlyOnPerm
TNoStuck == NoStuck /\ NoStuckStats
=============================================================================
