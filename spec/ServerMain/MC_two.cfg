CONSTANTS
  NConns = 2
  NUp = 1
  NDown = 1
  MaxTemp = 1
  MaxPerm = 1
  WithMain = FALSE
  StdinClose = FALSE
  StatsThread = TRUE
  OrReacts = TRUE
  EnvLite = TRUE
  AsIs_Spin = FALSE
  Mut = "none"
SPECIFICATION Spec
INVARIANTS TypeOK CopyLaw ClosedOnEveryPath CopiersGoneFirst LoopEndsOnlyOnPerm NoSpin NoStuck NoStuckStats
PROPERTIES DialFailContinues
CHECK_DEADLOCK FALSE
