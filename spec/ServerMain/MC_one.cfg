CONSTANTS
  NConns = 1
  NUp = 1
  NDown = 1
  MaxTemp = 1
  MaxPerm = 1
  WithMain = FALSE
  StdinClose = FALSE
  StatsThread = TRUE
  OrReacts = TRUE
  EnvLite = FALSE
  Mut = "none"
SPECIFICATION Spec
INVARIANTS TypeOK CopyLaw ClosedOnEveryPath CopiersGoneFirst LoopEndsOnlyOnPerm NoStuck NoStuckStats
PROPERTIES DialFailContinues StatsNeverBlocks HandlerEnds LoopEnds
CHECK_DEADLOCK FALSE
