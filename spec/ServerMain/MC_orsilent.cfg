CONSTANTS
  NConns = 1
  NUp = 1
  NDown = 1
  MaxTemp = 0
  MaxPerm = 0
  WithMain = FALSE
  StdinClose = FALSE
  StatsThread = TRUE
  OrReacts = FALSE
  EnvLite = TRUE
  Mut = "none"
SPECIFICATION Spec
INVARIANTS TypeOK
PROPERTIES HandlerEnds
CHECK_DEADLOCK FALSE
