---- MODULE ServerMain_TTrace_1790411067 ----
EXTENDS Sequences, TLCExt, ServerMain, Toolbox, Naturals, TLC

_expression ==
    LET ServerMain_TEExpression == INSTANCE ServerMain_TEExpression
    IN ServerMain_TEExpression!expression
----

_trace ==
    LET ServerMain_TETrace == INSTANCE ServerMain_TETrace
    IN ServerMain_TETrace!trace
----

_inv ==
    ~(
        TLCGet("level") = Len(_TETrace)
        /\
        C = (<<[plan |-> "ok", h |-> "none", wg |-> 0, a |-> "none", ahold |-> 0, b |-> "none", bhold |-> 0, cq |-> <<>>, csent |-> 0, cend |-> "open", ctaken |-> 0, cclosed |-> FALSE, cwfail |-> FALSE, cgot |-> <<>>, ost |-> "none", osent |-> 0, owire |-> <<>>, ataken |-> 0, ogot |-> <<>>, ofin |-> FALSE, oclosed |-> FALSE, lostUp |-> 0, lostDown |-> 0, dialerr |-> FALSE]>>)
        /\
        L = ([pc |-> "accept", temps |-> 1, pauses |-> 0, spin |-> 1, perm |-> FALSE, nacc |-> 0])
        /\
        M = ([pc |-> "serve", sigq |-> 0, stdin |-> "open", lnClosed |-> FALSE])
        /\
        nstats = (0)
    )
----

_init ==
    /\ nstats = _TETrace[1].nstats
    /\ C = _TETrace[1].C
    /\ L = _TETrace[1].L
    /\ M = _TETrace[1].M
----

_next ==
    /\ \E i,j \in DOMAIN _TETrace:
        /\ \/ /\ j = i + 1
              /\ i = TLCGet("level")
        /\ nstats  = _TETrace[i].nstats
        /\ nstats' = _TETrace[j].nstats
        /\ C  = _TETrace[i].C
        /\ C' = _TETrace[j].C
        /\ L  = _TETrace[i].L
        /\ L' = _TETrace[j].L
        /\ M  = _TETrace[i].M
        /\ M' = _TETrace[j].M

\* Uncomment the ASSUME below to write the states of the error trace
\* to the given file in Json format. Note that you can pass any tuple
\* to `JsonSerialize`. For example, a sub-sequence of _TETrace.
    \* ASSUME
    \*     LET J == INSTANCE Json
    \*         IN J!JsonSerialize("ServerMain_TTrace_1790411067.json", _TETrace)

=============================================================================

 Note that you can extract this module `ServerMain_TEExpression`
  to a dedicated file to reuse `expression` (the module in the 
  dedicated `ServerMain_TEExpression.tla` file takes precedence 
  over the module `ServerMain_TEExpression` below).

---- MODULE ServerMain_TEExpression ----
EXTENDS Sequences, TLCExt, ServerMain, Toolbox, Naturals, TLC

expression == 
    [
        \* To hide variables of the `ServerMain` spec from the error trace,
        \* remove the variables below.  The trace will be written in the order
        \* of the fields of this record.
        nstats |-> nstats
        ,C |-> C
        ,L |-> L
        ,M |-> M
        
        \* Put additional constant-, state-, and action-level expressions here:
        \* ,_stateNumber |-> _TEPosition
        \* ,_nstatsUnchanged |-> nstats = nstats'
        
        \* Format the `nstats` variable as Json value.
        \* ,_nstatsJson |->
        \*     LET J == INSTANCE Json
        \*     IN J!ToJson(nstats)
        
        \* Lastly, you may build expressions over arbitrary sets of states by
        \* leveraging the _TETrace operator.  For example, this is how to
        \* count the number of times a spec variable changed up to the current
        \* state in the trace.
        \* ,_nstatsModCount |->
        \*     LET F[s \in DOMAIN _TETrace] ==
        \*         IF s = 1 THEN 0
        \*         ELSE IF _TETrace[s].nstats # _TETrace[s-1].nstats
        \*             THEN 1 + F[s-1] ELSE F[s-1]
        \*     IN F[_TEPosition - 1]
    ]

=============================================================================



Parsing and semantic processing can take forever if the trace below is long.
 In this case, it is advised to uncomment the module below to deserialize the
 trace from a generated binary file.

\*
\*---- MODULE ServerMain_TETrace ----
\*EXTENDS IOUtils, ServerMain, TLC
\*
\*trace == IODeserialize("ServerMain_TTrace_1790411067.bin", TRUE)
\*
\*=============================================================================
\*

---- MODULE ServerMain_TETrace ----
EXTENDS ServerMain, TLC

trace == 
    <<
    ([C |-> <<[plan |-> "ok", h |-> "none", wg |-> 0, a |-> "none", ahold |-> 0, b |-> "none", bhold |-> 0, cq |-> <<>>, csent |-> 0, cend |-> "open", ctaken |-> 0, cclosed |-> FALSE, cwfail |-> FALSE, cgot |-> <<>>, ost |-> "none", osent |-> 0, owire |-> <<>>, ataken |-> 0, ogot |-> <<>>, ofin |-> FALSE, oclosed |-> FALSE, lostUp |-> 0, lostDown |-> 0, dialerr |-> FALSE]>>,L |-> [pc |-> "accept", temps |-> 0, pauses |-> 0, spin |-> 0, perm |-> FALSE, nacc |-> 0],M |-> [pc |-> "serve", sigq |-> 0, stdin |-> "open", lnClosed |-> FALSE],nstats |-> 0]),
    ([C |-> <<[plan |-> "ok", h |-> "none", wg |-> 0, a |-> "none", ahold |-> 0, b |-> "none", bhold |-> 0, cq |-> <<>>, csent |-> 0, cend |-> "open", ctaken |-> 0, cclosed |-> FALSE, cwfail |-> FALSE, cgot |-> <<>>, ost |-> "none", osent |-> 0, owire |-> <<>>, ataken |-> 0, ogot |-> <<>>, ofin |-> FALSE, oclosed |-> FALSE, lostUp |-> 0, lostDown |-> 0, dialerr |-> FALSE]>>,L |-> [pc |-> "accept", temps |-> 1, pauses |-> 0, spin |-> 1, perm |-> FALSE, nacc |-> 0],M |-> [pc |-> "serve", sigq |-> 0, stdin |-> "open", lnClosed |-> FALSE],nstats |-> 0])
    >>
----


=============================================================================

---- CONFIG ServerMain_TTrace_1790411067 ----
CONSTANTS
    NConns = 1
    NUp = 1
    NDown = 1
    MaxTemp = 1
    MaxPerm = 0
    WithMain = FALSE
    StdinClose = FALSE
    StatsThread = TRUE
    OrReacts = TRUE
    EnvLite = TRUE
    AsIs_Spin = TRUE
    Mut = "none"

INVARIANT
    _inv

CHECK_DEADLOCK
    \* CHECK_DEADLOCK off because of PROPERTY or INVARIANT above.
    FALSE

INIT
    _init

NEXT
    _next

CONSTANT
    _TETrace <- _trace

ALIAS
    _expression
=============================================================================
\* Generated on Sat Sep 26 08:24:29 UTC 2026