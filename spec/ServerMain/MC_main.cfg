CONSTANTS
  NConns = 1
  NUp = 1
  NDown = 1
  MaxTemp = 1
  MaxPerm = 0
  WithMain = TRUE
  StdinClose = TRUE
  StatsThread = TRUE
  OrReacts = TRUE
  EnvLite = TRUE
  Mut = "none"
SPECIFICATION Spec
INVARIANTS TypeOK CopyLaw ClosedOnEveryPath CopiersGoneFirst LoopEndsOnlyOnPerm NoStuck NoStuckStats
PROPERTIES DialFailContinues StatsNeverBlocks HandlerEnds LoopEnds ShutdownExits
CHECK_DEADLOCK FALSE
