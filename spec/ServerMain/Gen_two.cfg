CONSTANTS
  NConns = 2
  NUp = 1
  NDown = 1
  MaxTemp = 1
  MaxPerm = 1
  WithMain = FALSE
  StdinClose = FALSE
  StatsThread = TRUE
  OrReacts = TRUE
  EnvLite = FALSE
  Mut = "none"
SPECIFICATION GenSpec
INVARIANTS TypeOK CopyLaw ClosedOnEveryPath CopiersGoneFirst LoopEndsOnlyOnPerm NoStuck NoStuckStats
CHECK_DEADLOCK FALSE
