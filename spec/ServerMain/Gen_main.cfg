CONSTANTS
  NConns = 2
  NUp = 1
  NDown = 1
  MaxTemp = 0
  MaxPerm = 0
  WithMain = TRUE
  StdinClose = TRUE
  StatsThread = TRUE
  OrReacts = TRUE
  EnvLite = TRUE
  Mut = "none"
SPECIFICATION GenSpec
INVARIANTS TypeOK CopyLaw ClosedOnEveryPath CopiersGoneFirst LoopEndsOnlyOnPerm NoStuck NoStuckStats
CHECK_DEADLOCK FALSE
