CONSTANTS
  NConns = 1
  NUp = 0
  NDown = 0
  MaxTemp = 2
  MaxPerm = 1
  WithMain = FALSE
  StdinClose = FALSE
  StatsThread = TRUE
  OrReacts = TRUE
  EnvLite = TRUE
  Mut = "none"
SPECIFICATION Spec
INVARIANTS TypeOK CopyLaw ClosedOnEveryPath CopiersGoneFirst LoopEndsOnlyOnPerm NoStuck NoStuckStats
PROPERTIES DialFailContinues StatsNeverBlocks HandlerEnds LoopEnds
CHECK_DEADLOCK FALSE
