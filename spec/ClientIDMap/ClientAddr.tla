------------------------------ MODULE ClientAddr ------------------------------
(* server/lib/http.go clientAddr: the sanitiser applied to the client_ip query
   parameter before it becomes the RemoteAddr of an accepted connection.

   Contract (statement of C18): the result is a valid, specified IP address
   rendered with a stub port, or empty when the parameter is absent,
   unparseable or unspecified.

   An input class is a base (what kind of thing the string is) and a
   decoration (what was done to it).  The Go harness concretises each class
   with several strings, sends them through the same URL query decoding as
   ServeHTTP, and classifies the result of the real clientAddr as
     "empty"   the empty string
     "addr"    host:port where host is an IP literal equal to the input's
               address (an IPv4-mapped input may be rendered in either
               family), without zone, and port is a non-zero number
     anything else is malformed.
   TLC enumerates the classes and prints the set of allowed outcomes.

   What counts as "unparseable": a string that is structurally something other
   than one IP address - an address with a port, in brackets (the repository's
   own TestClientAddr lists "[12::34]" among the inputs that must give ""), a
   prefix, a list, a host name, a number - must give "".

   Don't-care (both "empty" and the denoted address are allowed; a malformed
   result or another address never is): an address with a zone
   ("fe80::1%eth0" - a zone is not part of an IP address, so dropping it or
   rejecting the string are both defensible; a result that still carries the
   zone is not) and an address with surrounding white space (trimming is a
   normalisation, not a different kind of value).  The value of the stub port
   (the code uses 1) is not fixed either: any non-zero port number. *)
EXTENDS TLC, Json, FiniteSets

Bases == {"absent", "empty", "v4", "v4private", "v6", "v6full", "v6linklocal", "v4mapped",
          "v4zero", "v6zero", "v6zerofull", "mappedzero",
          "hostname", "garbage", "v4toolong", "v4octet256", "number"}
Decos == {"none", "bracket", "port", "bracketport", "zone", "spacebefore", "spaceafter", "cidr", "list"}

IsV4(b)   == b \in {"v4", "v4private", "v4zero"}
IsV6(b)   == b \in {"v6", "v6full", "v6linklocal", "v4mapped", "v6zero", "v6zerofull", "mappedzero"}
IsIP(b)   == IsV4(b) \/ IsV6(b)
Unspec(b) == b \in {"v4zero", "v6zero", "v6zerofull", "mappedzero"}

(* Which decorations make sense for which base ("port" without brackets on an
   IPv6 literal would just be another valid IPv6 literal, so it is not a
   class of its own). *)
Applicable(b, d) ==
  \/ d = "none"
  \/ b \in {"absent", "empty"} /\ FALSE
  \/ IsV4(b) /\ d \in {"bracket", "port", "bracketport", "zone", "spacebefore", "spaceafter", "cidr", "list"}
  \/ IsV6(b) /\ d \in {"bracket", "bracketport", "zone", "spacebefore", "spaceafter", "cidr", "list"}
  \/ b = "hostname" /\ d \in {"port", "spacebefore"}

Allowed(b, d) ==
  IF IsIP(b) /\ d = "none" THEN (IF Unspec(b) THEN {"empty"} ELSE {"addr"})
  ELSE IF IsIP(b) /\ ~Unspec(b) /\ d \in {"zone", "spacebefore", "spaceafter"} THEN {"empty", "addr"}     \* don't-care
  ELSE {"empty"}                     \* absent, empty, and everything that is not exactly one IP literal

VARIABLES base, deco
Init == base \in Bases /\ deco \in Decos /\ Applicable(base, deco)
Stutter == UNCHANGED <<base, deco>>
Emit == PrintT(ToJson([base |-> base, deco |-> deco, allowed |-> Allowed(base, deco)]))

(* sanity of the contract itself *)
ContractSane ==
  /\ Allowed(base, deco) # {}
  /\ (base \in {"absent", "empty", "hostname", "garbage"} => Allowed(base, deco) = {"empty"})
  /\ (Unspec(base) => Allowed(base, deco) = {"empty"})
=============================================================================
