CONSTANTS
  N = 2
  NIds = 3
  NAddrs = 2
  Mode = "mc"
  SeqLen = 0
SPECIFICATION Spec
INVARIANTS TypeOK CurrentIsNewest GetIsAbstract BoundedMemory
PROPERTY Refines
CHECK_DEADLOCK FALSE
