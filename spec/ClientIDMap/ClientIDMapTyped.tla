-------------------------- MODULE ClientIDMapTyped --------------------------
(* UNBOUNDED-RUN argument for spec/ClientIDMap/ClientIDMap.tla (C18): a typed
   restatement of the ring machine for Apalache with an INDUCTIVE invariant, so
   that the refinement of ClientIDMapAbs holds after ANY number of Sets/Gets, for
   ids ranging over ALL integers and addresses over ALL non-zero integers, for a
   fixed capacity N (lib/unbounded.py runs N = 1, 2, 3, 4; Apalache needs a fixed
   bound on function domains, so N itself is not symbolic).

     apalache-mc check --config=<N> --init=Init    --inv=IndInv --length=0   (base)
     apalache-mc check --config=<N> --init=IndInit --inv=IndInv --length=1   (step)

   Differences from ClientIDMap.tla (which TLC checks for 3 ids, 2 addresses):
   * ids are Int, addresses Int \ {0} (0 = "no address", as there); id 0 is
     still what never-written slots contain;
   * `current` is a PARTIAL function (DOMAIN current = the keys of the Go map),
     not a total function with -1 for "absent": closer to the code
     (`i, ok := m.current[id]`, `delete(m.current, id)`); CGet/Set are the same
     text with "id \in DOMAIN current" for "current[id] # -1";
   * the abstract state is carried as a ghost variable `win`, updated by the
     ABSTRACT Push of ClientIDMapAbs (Max, Lookup, Push below are its text).
     The refinement mapping WinBar of ClientIDMap.tla (written slots in age
     order, Cnt = Cardinality(Written)) is asserted to equal `win` by the
     invariant WinIsWinBar: that is step simulation (WinBar' = Push(WinBar, e)
     on Set, unchanged on Get), i.e. Refines == A!Spec, as a state invariant;
   * the Get result is in `obs` as there; GetOK says it is the abstract Lookup
     for the (arbitrary, \E id \in Int) id of the latest Get;
   * mode "gen", hist, Emit are not copied; capacity 0 is left to TLC (the
     machine never changes; `% N` is a static error for Apalache).

   IndInv constrains every variable; BoundedMemory (at most N keys, at most N
   abstract entries) is a conjunct, so the Gen(N)-bounded symbolic state of
   IndInit covers EVERY state that satisfies IndInv. *)
EXTENDS Integers, Sequences, FiniteSets, Apalache

CONSTANT
  \* @type: Int;
  N

Slots == 0..(N - 1)

VARIABLES
  \* @type: Int -> {id: Int, addr: Int};
  entries,
  \* @type: Int;
  oldest,
  \* @type: Int -> Int;
  current,
  \* @type: {op: Str, id: Int, addr: Int};
  obs,
  \* @type: Seq(<<Int, Int>>);
  win

\* @type: Int -> Int;
EmptyMap == [x \in {} |-> 0]

(* ---- ClientIDMapAbs: Max, Lookup, Push verbatim ---- *)
\* @type: Set(Int) => Int;
Max(S) == CHOOSE x \in S : \A y \in S : y <= x
\* @type: (Seq(<<Int, Int>>), Int) => Int;
Lookup(w, id) ==
  LET idx == {k \in DOMAIN w : w[k][1] = id}
  IN IF idx = {} THEN 0 ELSE w[Max(idx)][2]
\* @type: (Seq(<<Int, Int>>), <<Int, Int>>) => Seq(<<Int, Int>>);
Push(w, e) == IF N = 0 THEN <<>> ELSE IF Len(w) < N THEN Append(w, e) ELSE Append(Tail(w), e)

(* ---- the ring machine ---- *)
Init ==
  /\ entries = [i \in Slots |-> [id |-> 0, addr |-> 0]]
  /\ oldest = 0
  /\ current = EmptyMap
  /\ obs = [op |-> "none", id |-> 0, addr |-> 0]
  /\ win = <<>>

Set(id, a) ==
  /\ IF N = 0 THEN UNCHANGED <<entries, oldest, current>>
     ELSE LET old  == entries[oldest].id
              dom1 == IF old \in DOMAIN current /\ current[old] = oldest THEN DOMAIN current \ {old} ELSE DOMAIN current
          IN /\ entries' = [entries EXCEPT ![oldest] = [id |-> id, addr |-> a]]
             /\ current' = [x \in dom1 \cup {id} |-> IF x = id THEN oldest ELSE current[x]]
             /\ oldest' = (oldest + 1) % N
  /\ win' = Push(win, <<id, a>>)
  /\ obs' = [op |-> "set", id |-> id, addr |-> a]

CGet(id) == IF id \in DOMAIN current THEN entries[current[id]].addr ELSE 0
Get(id) ==
  /\ UNCHANGED <<entries, oldest, current, win>>
  /\ obs' = [op |-> "get", id |-> id, addr |-> CGet(id)]

Next == \E id \in Int : (\E a \in Int : a # 0 /\ Set(id, a)) \/ Get(id)

(* ---- refinement mapping of ClientIDMap.tla ---- *)
Written == {i \in Slots : entries[i].addr # 0}
Cnt == Cardinality(Written)
BarSlot(k) == IF Cnt < N THEN k - 1 ELSE (oldest + k - 1) % N
WinIsWinBar ==
  /\ Len(win) = Cnt
  /\ \A k \in 1..N : k <= Cnt => win[k] = <<entries[BarSlot(k)].id, entries[BarSlot(k)].addr>>

(* ---- the inductive invariant ---- *)
Pos(i) == IF Len(win) < N THEN i + 1 ELSE ((i - oldest + N) % N) + 1
TypeOK ==
  /\ oldest \in (IF N = 0 THEN {0} ELSE Slots)
  /\ DOMAIN entries = Slots
  /\ \A x \in DOMAIN current : current[x] \in Slots
  /\ Len(win) <= N
  /\ obs.op \in {"none", "set", "get"}
Shape ==
  /\ (Len(win) < N => oldest = Len(win))
  /\ \A i \in Slots : IF i < Len(win) THEN entries[i].addr # 0 ELSE (entries[i].id = 0 /\ entries[i].addr = 0)
CurrentOK ==
  /\ \A x \in DOMAIN current :
       LET c == current[x] IN
       /\ c < Len(win) /\ entries[c].id = x
       /\ \A j \in Slots : (j < Len(win) /\ entries[j].id = x) => Pos(j) <= Pos(c)
  /\ \A j \in Slots : j < Len(win) => entries[j].id \in DOMAIN current
GetOK == obs.op = "get" => obs.addr = Lookup(win, obs.id)
BoundedMemory == Cardinality(DOMAIN current) <= N /\ Len(win) <= N

IndInv == TypeOK /\ Shape /\ WinIsWinBar /\ CurrentOK /\ GetOK /\ BoundedMemory

IndInit ==
  /\ entries = Gen(N)
  /\ oldest = Gen(1)
  /\ current = Gen(N)
  /\ obs = Gen(1)
  /\ win = Gen(N)
  /\ IndInv
=============================================================================
