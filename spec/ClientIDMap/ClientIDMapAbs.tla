--------------------------- MODULE ClientIDMapAbs ---------------------------
(* The abstract bounded association of C18: it remembers the last N Sets (every
   Set counts, also one that re-sets an id that is already present - this is
   how server/lib/turbotunnel.go counts and what its own test expects:
   "Set(id(0), ..) // forgets the (0, "1.1.1.4") entry and shadows ..").
   Get(id) is the address of the latest Set(id) if that Set is among the last
   N Sets, else absent (0). *)
EXTENDS Integers, Sequences, FiniteSets

CONSTANTS N, Ids, Addrs
VARIABLES win,   \* the last min(N, #Sets) Sets, oldest first: <<id, addr>>
          obs    \* the latest operation and its result

Max(S) == CHOOSE x \in S : \A y \in S : y <= x
Lookup(w, id) ==
  LET idx == {k \in DOMAIN w : w[k][1] = id}
  IN IF idx = {} THEN 0 ELSE w[Max(idx)][2]

Push(w, e) == IF N = 0 THEN <<>> ELSE IF Len(w) < N THEN Append(w, e) ELSE Append(Tail(w), e)

Init == win = <<>> /\ obs = [op |-> "none", id |-> 0, addr |-> 0]
ASet(id, a) == win' = Push(win, <<id, a>>) /\ obs' = [op |-> "set", id |-> id, addr |-> a]
AGet(id)    == UNCHANGED win /\ obs' = [op |-> "get", id |-> id, addr |-> Lookup(win, id)]
Next == \E id \in Ids : (\E a \in Addrs : ASet(id, a)) \/ AGet(id)
Spec == Init /\ [][Next]_<<win, obs>>

(* memory is bounded: at most N associations *)
Bounded == Len(win) <= N
=============================================================================
