CONSTANTS
  N = 2
  NIds = 3
  NAddrs = 2
  Mode = "gen"
  SeqLen = 6
SPECIFICATION Spec
INVARIANTS Emit
CHECK_DEADLOCK FALSE
