INIT Init
NEXT Stutter
INVARIANTS Emit ContractSane
CHECK_DEADLOCK FALSE
