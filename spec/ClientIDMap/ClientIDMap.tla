----------------------------- MODULE ClientIDMap -----------------------------
(* server/lib/turbotunnel.go clientIDMap: a ring `entries` of capacity N, the
   index `oldest` of the slot the next Set overwrites, and `current`, the
   quick-lookup map from a ClientID to the slot of its most recent entry.

   Ids are 0..(NIds-1); id 0 is the all-zero ClientID, which is also what the
   never-written slots of the ring contain (the code must not mistake them
   for an entry of that client).  Address 0 is "no address" (nil); Set is
   only ever called with real addresses 1..NAddrs.

   1. Mode "mc": the ring machine, checked by TLC to refine ClientIDMapAbs
      under the mapping WinBar (the written slots in age order) - for the
      complete reachable state space (the machine is finite).
   2. Mode "gen": every sequence of exactly Len Sets (ids and addresses
      introduced in order: 1 before 2; id 0 is special and always offered),
      printed with the vector of Get results for every id before the first
      and after every Set, computed with the ABSTRACT Lookup.  The harness
      replays them against the real clientIDMap.  (Get is applied to every
      id at every point instead of being enumerated as an operation of its
      own: a superset of the observation points of all Set/Get sequences.) *)
EXTENDS Integers, Sequences, FiniteSets, TLC, Json

CONSTANTS N, NIds, NAddrs, Mode, SeqLen

Ids == 0..(NIds - 1)
Addrs == 1..NAddrs
Slots == 0..(N - 1)

VARIABLES entries, oldest, current, obs, hist
vars == <<entries, oldest, current, obs, hist>>

Init ==
  /\ entries = [i \in Slots |-> [id |-> 0, addr |-> 0]]
  /\ oldest = 0
  /\ current = [id \in Ids |-> -1]          \* -1: not in the map
  /\ obs = [op |-> "none", id |-> 0, addr |-> 0]
  /\ hist = <<>>

Set(id, a) ==
  /\ IF N = 0 THEN UNCHANGED <<entries, oldest, current>>
     ELSE LET old  == entries[oldest].id
              cur1 == IF current[old] = oldest THEN [current EXCEPT ![old] = -1] ELSE current
          IN /\ entries' = [entries EXCEPT ![oldest] = [id |-> id, addr |-> a]]
             /\ current' = [cur1 EXCEPT ![id] = oldest]
             /\ oldest' = (oldest + 1) % N
  /\ obs' = [op |-> "set", id |-> id, addr |-> a]

CGet(id) == IF current[id] = -1 THEN 0 ELSE entries[current[id]].addr
Get(id) ==
  /\ UNCHANGED <<entries, oldest, current>>
  /\ obs' = [op |-> "get", id |-> id, addr |-> CGet(id)]

(* Refinement mapping. *)
Written == {i \in Slots : entries[i].addr # 0}
Cnt == Cardinality(Written)
WinBar == [k \in 1..Cnt |->
            LET i == IF Cnt < N THEN k - 1 ELSE (oldest + k - 1) % N
            IN <<entries[i].id, entries[i].addr>>]
A == INSTANCE ClientIDMapAbs WITH win <- WinBar, Ids <- Ids, Addrs <- Addrs
Refines == A!Spec

McNext == (\E id \in Ids : (\E a \in Addrs : Set(id, a)) \/ Get(id)) /\ UNCHANGED hist

(* gen *)
UsedIds == {hist[i][1] : i \in DOMAIN hist}
UsedAddrs == {hist[i][2] : i \in DOMAIN hist}
GenNext ==
  /\ Len(hist) < SeqLen
  /\ \E id \in Ids : \E a \in Addrs :
       /\ (id > 1 => (id - 1) \in UsedIds)
       /\ (a > 1 => (a - 1) \in UsedAddrs)
       /\ Set(id, a)
       /\ hist' = Append(hist, <<id, a>>)

Next == IF Mode = "mc" THEN McNext ELSE GenNext
Spec == Init /\ [][Next]_vars

(* Expected Get results, from the abstract specification alone. *)
Window(k) == LET s == SubSeq(hist, 1, k) IN IF N = 0 THEN <<>> ELSE IF k <= N THEN s ELSE SubSeq(s, k - N + 1, k)
Expect == [k \in 1..(Len(hist) + 1) |-> [j \in 1..NIds |-> A!Lookup(Window(k - 1), j - 1)]]
Emit ==
  \/ Mode = "mc"
  \/ Len(hist) < SeqLen
  \/ PrintT(ToJson([n |-> N, sets |-> hist, gets |-> Expect]))

(* Invariants of the machine. *)
TypeOK ==
  /\ oldest \in (IF N = 0 THEN {0} ELSE Slots)
  /\ \A id \in Ids : current[id] \in Slots \cup {-1}
CurrentIsNewest ==   \* current[id] is the newest slot holding id; ids not in current are in no written slot... that is still "live"
  \A id \in Ids : current[id] # -1 => entries[current[id]].id = id /\ entries[current[id]].addr # 0
GetIsAbstract == \A id \in Ids : CGet(id) = A!Lookup(WinBar, id)
BoundedMemory == Cardinality({id \in Ids : current[id] # -1}) <= N /\ A!Bounded
=============================================================================
