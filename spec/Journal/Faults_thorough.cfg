CONSTANTS
  Family = "scripts"
  Blocks = {8, 16}
  I = 2
  Waits = {1, 2, 3}
  MaxOps = 5
  MaxChunks = 3
  Kinds = {"rot", "flush", "flush0"}
  Orders = "id"
  Windows = "chunks"
  MaxFaults = 2
  MaxSyncFaults = 1
  AdvanceOnFailure = FALSE
  ExactMax = 100
  TolDiv = 50
SPECIFICATION Spec
INVARIANTS TypeOK Contiguous NoEarlyRotation NoOverdueAdd EveryAddInExactlyOneChunk StampCoversContent ReaderIsContract OrderIndependent Emit
CHECK_DEADLOCK FALSE
