------------------------------ MODULE Journal ------------------------------
(* common/ipsetsink + common/ipsetsink/sinkcluster + distinctcounter: the
   distinct-IP journal of the broker (C19, last sentence of the statement):

     "the distinct-IP journal stores only keyed-hash sketches whose merged
      estimate over a time window matches the number of distinct addresses
      recorded in the chunks inside that window (exactly for small sets,
      within the sketch's error bound otherwise)".

   1. The WRITER as a state machine with an explicit clock
      (sinkcluster/writer.go).  AddIP(addr): if lastWrite + interval is
      strictly before now, the current sketch is written as the chunk
      (lastWrite, now, sketch), lastWrite becomes now and the sketch is
      cleared; THEN the address is added - so the address that triggers a
      rotation belongs to the new chunk.  Flush is the exported
      WriteIPSetToDisk called directly.  Wait(d) is the clock.
      TLC checks on every script: each added address lands in exactly one
      chunk (the one that is current when it is added), chunks are contiguous,
      no rotation happens before the interval has elapsed and none is missed.
   2. The READER contract (sinkcluster/reader.go, distinctcounter): a chunk is
      inside the window [from, to] iff start >= from and end <= to (both ends
      inclusive); the result is the number of chunks inside and the number of
      distinct addresses in their union.  A line-by-line scan that merges
      sketches (union) is checked against this set-level contract.
   3. Masking: what a sketch can distinguish is the pair (key, address); the
      same addresses recorded under two different keys count twice.

   Addresses are abstracted to BLOCKS: a block is a pool of distinct concrete
   addresses, identified by its size (Blocks is a set of pairwise different
   sizes whose subset sums are all different, e.g. {8, 16, 32}), so a wrongly
   included, excluded, lost or duplicated block moves the count by at least
   the smallest block.  The Go driver turns a block into that many concrete
   addresses (seeded; several spellings).

   Cases are behaviours: Init picks a plan (a writer script), the machine runs
   it step by step under the invariants, and the final Query step picks a
   window; Emit prints the plan, the chunks the model says the journal must
   contain, the window and the expected result with the admissible bounds of
   the estimate.

   4. WRITE FAULTS (environment, bounded by MaxFaults / MaxSyncFaults): the
      journal's Write may fail at any write attempt, its Sync may fail after a
      successful Write.  As the code has it: when the Write fails nothing is
      written, lastWriteTime AND the sketch are both kept, so nothing is lost
      and the next chunk that does get written is stamped from the last GOOD
      write and covers everything since then (StampCoversContent); AddIP still
      adds its address (to the kept sketch) and the next AddIP tries again.  A
      failed Sync is ignored (the line is in the journal, the writer goes on
      as after a success).  A fault lasts for one script step: while an
      add(block) step is under a Write fault every address of the block meets
      the failing journal.  Window ends are also placed around the instants of
      failed attempts.  AdvanceOnFailure = TRUE is NOT the code: it is the
      variant that stamps lastWriteTime before writing, kept so that TLC shows
      StampCoversContent has teeth (Stamp_before_write.cfg must be violated).

   5. LINE ORDER.  The reader's contract is a property of the SET of lines:
      the journal handed to Count may be the writer's chunks in any order
      (rotated files concatenated newest first, journals of two runs merged,
      a backward step of the wall clock), with a line repeated, or the whole
      journal twice.  Orders = "all" makes Query also pick the order of the
      lines (every permutation, identity plus one duplicated line in front or
      at the end, the journal followed by itself, the reversed journal followed
      by the journal).  OrderIndependent: the distinct-address count is the one
      of the chronological journal; the number of included chunks is the
      number of LINES inside the window.

   Don't-cares: the unit of time; what the sketch bytes look like; addresses
   still in the unwritten current sketch (they are not in the journal and no
   window counts them); write errors and partial lines (a failing Write writes nothing); the
   estimate of sets larger than ExactMax only within Tol. *)
EXTENDS Integers, Sequences, FiniteSets, TLC, Json

CONSTANTS
  Family,     \* "scripts": every script up to MaxOps | "layouts": structured 1..MaxChunks-chunk layouts | "keys"
  Blocks,     \* block sizes (pairwise different, all subset sums different)
  I,          \* the write interval, in ticks
  Waits,      \* durations of Wait steps
  MaxOps,     \* scripts: maximal script length
  MaxChunks,  \* at most this many chunks are written
  Kinds,      \* layouts: how a chunk may be ended, subset of {"rot", "flush", "flush0"}
  Orders,     \* "id": the journal is read as written | "all": also permuted, with a duplicate line, doubled
  Windows,    \* "all": every before/equal/after placement of both window ends | "chunks": chunk-identifying windows only
  MaxFaults,  \* at most this many failed journal Writes per behaviour
  MaxSyncFaults, \* at most this many failed Syncs per behaviour
  AdvanceOnFailure, \* FALSE = the code; TRUE = lastWriteTime is advanced although the Write failed (teeth check only)
  ExactMax,   \* unions up to this size must be counted exactly
  TolDiv      \* beyond: |estimate - exact| <= max(1, exact / TolDiv)   (TolDiv = 50: 2 %)

NoWin == [from |-> -9, to |-> -9]

RECURSIVE SumSet(_)
SumSet(S) == IF S = {} THEN 0 ELSE LET x == CHOOSE y \in S : TRUE IN x + SumSet(S \ {x})

RECURSIVE SeqOfSet(_)
SeqOfSet(S) == IF S = {} THEN <<>> ELSE LET x == CHOOSE y \in S : \A z \in S : y <= z IN <<x>> \o SeqOfSet(S \ {x})

Max2(a, b) == IF a >= b THEN a ELSE b

-----------------------------------------------------------------------------
(* 2. The reader contract. *)

Inside(c, from, to) == c.start >= from /\ c.end <= to
Included(ch, from, to) == {i \in DOMAIN ch : Inside(ch[i], from, to)}
Union(ch, S) == UNION {ch[i].set : i \in S}

Tol(n) == IF n <= ExactMax THEN 0 ELSE Max2(1, n \div TolDiv)

Count(ch, from, to) ==
  LET inc == Included(ch, from, to)
      n == SumSet(Union(ch, inc))
  IN [included |-> Cardinality(inc), count |-> n, lo |-> n - Tol(n), hi |-> n + Tol(n)]

(* the reader as it is written: scan the lines in order, skip those outside
   the window, merge the others into one sketch (merging = union) *)
RECURSIVE Scan(_, _, _, _, _, _)
Scan(ch, from, to, i, merged, k) ==
  IF i > Len(ch) THEN [included |-> k, count |-> SumSet(merged)]
  ELSE IF ch[i].start < from \/ ch[i].end > to THEN Scan(ch, from, to, i + 1, merged, k)
  ELSE Scan(ch, from, to, i + 1, merged \cup ch[i].set, k + 1)

-----------------------------------------------------------------------------
(* 1. The writer machine. *)

VARIABLES plan, pcnt,            \* the script and the index of its next step
          now, last, cur,        \* clock, lastWriteTime, blocks in the current sketch
          chunks,                \* the journal: sequence of [start, end, set, by]
          adds,                  \* history: one record [b, t, into, failed] per AddIP
          fails, syncfails,      \* history: script steps whose Write / Sync failed
          failtimes,             \* history: instants of failed Writes
          win, res,              \* the query window and its result (set by Query)
          order,                 \* the journal file handed to the reader: line i is chunks[order[i]] (set by Query)
          keyed                  \* Family = "keys": the two (key, blocks) journals
vars == <<plan, pcnt, now, last, cur, chunks, adds, fails, syncfails, failtimes, win, res, order, keyed>>

Op(k, v) == [k |-> k, v |-> v]
Alphabet == {Op("add", b) : b \in Blocks} \cup {Op("wait", d) : d \in Waits} \cup {Op("flush", 0)}

(* scripts in normal form: no two waits in a row, no trailing wait *)
NormalForm(s) ==
  /\ \A i \in 1..(Len(s) - 1) : ~(s[i].k = "wait" /\ s[i + 1].k = "wait")
  /\ (Len(s) > 0 => s[Len(s)].k # "wait")
Scripts == {s \in UNION {[1..n -> Alphabet] : n \in 0..MaxOps} : NormalForm(s)}

(* structured layouts: chunk j has content cs[j] (a non-empty set of blocks,
   added smallest first with a short wait in between) and is ended either by
   letting more than the interval pass (the next AddIP rotates: kind "rot";
   after the last chunk one more address is added, which stays unwritten) or
   by an explicit Flush after a short wait (kind "flush") or at once ("flush0"). *)
RECURSIVE AddAll(_)
AddAll(bs) == IF Len(bs) = 0 THEN <<>> ELSE <<Op("add", bs[1])>> \o AddAll(Tail(bs))
ChunkScript(content, kind) ==
  AddAll(SeqOfSet(content)) \o
  (IF kind = "rot" THEN <<Op("wait", I + 1)>> ELSE IF kind = "flush" THEN <<Op("wait", 1), Op("flush", 0)>> ELSE <<Op("flush", 0)>>)
RECURSIVE LayoutScript(_, _, _)
LayoutScript(cs, ks, j) ==
  IF j > Len(cs) THEN (IF Len(cs) > 0 /\ ks[Len(cs)] = "rot" THEN <<Op("add", CHOOSE b \in Blocks : TRUE)>> ELSE <<>>)
  ELSE ChunkScript(cs[j], ks[j]) \o LayoutScript(cs, ks, j + 1)
Contents == (SUBSET Blocks) \ {{}}
Layouts == UNION {{LayoutScript(cs, ks, 1) : cs \in [1..n -> Contents], ks \in [1..n -> Kinds]} : n \in 1..MaxChunks}

Init ==
  /\ plan \in (IF Family = "scripts" THEN Scripts ELSE IF Family = "layouts" THEN Layouts ELSE {<<>>})
  /\ pcnt = 1 /\ now = 0 /\ last = 0 /\ cur = {} /\ chunks = <<>> /\ adds = <<>>
  /\ fails = {} /\ syncfails = {} /\ failtimes = {}
  /\ win = NoWin /\ res = [included |-> 0, count |-> 0, lo |-> 0, hi |-> 0] /\ order = <<>>
  /\ IF Family = "keys"
     THEN keyed \in {<<[key |-> ka, set |-> sa], [key |-> kb, set |-> sb]>> : ka \in {"k1"}, kb \in {"k1", "k2"}, sa \in Contents, sb \in Contents}
     ELSE keyed = <<>>

Written(by) == Append(chunks, [start |-> last, end |-> now, set |-> cur, by |-> by])

(* the three outcomes of a write attempt made at script step pcnt *)
WriteOK   == fails' = fails /\ syncfails' = syncfails /\ failtimes' = failtimes
SyncFails == Cardinality(syncfails) < MaxSyncFaults /\ syncfails' = syncfails \cup {pcnt}
             /\ fails' = fails /\ failtimes' = failtimes
WriteFails == Cardinality(fails) < MaxFaults /\ fails' = fails \cup {pcnt} /\ failtimes' = failtimes \cup {now}
              /\ syncfails' = syncfails

AddIP(b) ==
  /\ IF last + I < now                      \* c.lastWriteTime.Add(c.writeInterval).Before(time.Now())
     THEN \/ /\ WriteOK \/ SyncFails
             /\ Len(chunks) < MaxChunks
             /\ chunks' = Written("rot") /\ last' = now /\ cur' = {b}
             /\ adds' = Append(adds, [b |-> b, t |-> now, into |-> Len(chunks') + 1, failed |-> FALSE])
          \/ /\ WriteFails                    \* nothing written, sketch kept, the address joins it
             /\ cur' = cur \cup {b} /\ UNCHANGED chunks
             /\ last' = (IF AdvanceOnFailure THEN now ELSE last)
             /\ adds' = Append(adds, [b |-> b, t |-> now, into |-> Len(chunks) + 1, failed |-> TRUE])
     ELSE /\ cur' = cur \cup {b} /\ UNCHANGED <<chunks, last, fails, syncfails, failtimes>>
          /\ adds' = Append(adds, [b |-> b, t |-> now, into |-> Len(chunks) + 1, failed |-> FALSE])
  /\ UNCHANGED now

Flush ==
  /\ \/ /\ WriteOK \/ SyncFails
        /\ Len(chunks) < MaxChunks
        /\ chunks' = Written("flush") /\ last' = now /\ cur' = {}
     \/ /\ WriteFails
        /\ last' = (IF AdvanceOnFailure THEN now ELSE last)
        /\ UNCHANGED <<chunks, cur>>
  /\ UNCHANGED <<now, adds>>

Wait(d) == now' = now + d /\ UNCHANGED <<last, cur, chunks, adds, fails, syncfails, failtimes>>

Step ==
  /\ win = NoWin /\ pcnt <= Len(plan)
  /\ LET op == plan[pcnt] IN
       IF op.k = "add" THEN AddIP(op.v) ELSE IF op.k = "wait" THEN Wait(op.v) ELSE Flush
  /\ pcnt' = pcnt + 1
  /\ UNCHANGED <<plan, win, res, order, keyed>>

(* window ends: just before, at, and just after every chunk boundary and every failed write attempt *)
Boundaries == {chunks[i].start : i \in DOMAIN chunks} \cup {chunks[i].end : i \in DOMAIN chunks} \cup failtimes
Positions == UNION {{b - 1, b, b + 1} : b \in Boundaries}
AllWindows == Positions \X Positions
ChunkWindows ==
  {<<chunks[i].start, chunks[j].end>> : i \in DOMAIN chunks, j \in DOMAIN chunks}
  \cup {<<chunks[i].start + 1, chunks[i].end>> : i \in DOMAIN chunks}
  \cup {<<chunks[i].start, chunks[i].end - 1>> : i \in DOMAIN chunks}
  \cup {<<f + d, chunks[j].end>> : f \in failtimes, d \in {-1, 0, 1}, j \in DOMAIN chunks}
QueryWindows == IF chunks = <<>> THEN {<<-1, now + 1>>} ELSE IF Windows = "all" THEN AllWindows ELSE ChunkWindows

(* the orders in which the lines of the journal are handed to the reader *)
Identity == [i \in 1..Len(chunks) |-> i]
Reverse == [i \in 1..Len(chunks) |-> Len(chunks) + 1 - i]
Perms == {p \in [1..Len(chunks) -> 1..Len(chunks)] : \A i, j \in 1..Len(chunks) : i # j => p[i] # p[j]}
OrderSet ==
  IF Orders = "id" \/ chunks = <<>> THEN {Identity}
  ELSE Perms \cup {<<d>> \o Identity : d \in DOMAIN chunks} \cup {Append(Identity, d) : d \in DOMAIN chunks}
       \cup {Identity \o Identity, Reverse \o Identity}
File(o) == [i \in 1..Len(o) |-> chunks[o[i]]]

Query ==
  /\ Family # "keys" /\ win = NoWin /\ pcnt = Len(plan) + 1
  /\ \E w \in QueryWindows, o \in OrderSet :
       /\ win' = [from |-> w[1], to |-> w[2]]
       /\ order' = o
       /\ res' = Count(File(o), w[1], w[2])
  /\ UNCHANGED <<plan, pcnt, now, last, cur, chunks, adds, fails, syncfails, failtimes, keyed>>

Next == Step \/ Query
Spec == Init /\ [][Next]_vars

-----------------------------------------------------------------------------
(* Writer invariants. *)

TypeOK ==
  /\ now \in Nat /\ last \in Nat /\ last <= now
  /\ cur \subseteq Blocks
  /\ \A i \in DOMAIN chunks : chunks[i].set \subseteq Blocks /\ chunks[i].start <= chunks[i].end

(* end of one chunk = start of the next; the first starts when the writer was made *)
Contiguous ==
  /\ (chunks # <<>> => chunks[1].start = 0 /\ last = chunks[Len(chunks)].end)
  /\ (chunks = <<>> => last = 0)
  /\ \A i \in 1..(Len(chunks) - 1) : chunks[i + 1].start = chunks[i].end

(* nothing is written by AddIP before the interval has elapsed ... *)
NoEarlyRotation == \A i \in DOMAIN chunks : chunks[i].by = "rot" => chunks[i].end - chunks[i].start > I
(* ... and no rotation is missed: an address is never added to a sketch that
   is older than the interval, unless the write that was due failed then *)
NoOverdueAdd ==
  \A a \in DOMAIN adds :
    LET k == adds[a].into
        s == IF k <= Len(chunks) THEN chunks[k].start ELSE last
    IN adds[a].t <= s + I \/ adds[a].failed \/ (AdvanceOnFailure /\ fails # {})

(* every AddIP lands in exactly one chunk - the one current when it is added -
   and chunks contain nothing else (the sketch is cleared on every write) *)
Landed(k) == {adds[a].b : a \in {x \in DOMAIN adds : adds[x].into = k}}
EveryAddInExactlyOneChunk ==
  /\ \A a \in DOMAIN adds : adds[a].into \in 1..(Len(chunks) + 1)
  /\ \A k \in DOMAIN chunks : chunks[k].set = Landed(k)
  /\ cur = Landed(Len(chunks) + 1)

(* nothing is mis-stamped, write faults or not: an address added at time t is
   in a chunk whose [start, end] contains t; what is still unwritten was added
   at or after lastWriteTime, from which the next chunk will be stamped *)
StampCoversContent ==
  \A a \in DOMAIN adds :
    LET k == adds[a].into IN
      IF k <= Len(chunks) THEN chunks[k].start <= adds[a].t /\ adds[a].t <= chunks[k].end
      ELSE last <= adds[a].t

(* the line-by-line reader computes the set-level contract *)
ReaderIsContract ==
  win # NoWin =>
    LET s == Scan(File(order), win.from, win.to, 1, {}, 0) IN
      s.included = res.included /\ s.count = res.count /\ res.lo <= res.count /\ res.count <= res.hi

(* the result does not depend on the order of the lines, nor on repeated lines *)
OrderIndependent ==
  win # NoWin =>
    LET chrono == Count(chunks, win.from, win.to) IN
      /\ res.count = chrono.count /\ res.lo = chrono.lo /\ res.hi = chrono.hi
      /\ res.included = Cardinality({i \in DOMAIN order : Inside(chunks[order[i]], win.from, win.to)})
      /\ (order \in Perms => res = chrono)

-----------------------------------------------------------------------------
(* 3. Masking: a sketch distinguishes (key, address) pairs. *)
RECURSIVE SumPairs(_)
SumPairs(P) == IF P = {} THEN 0 ELSE LET x == CHOOSE y \in P : TRUE IN x[2] + SumPairs(P \ {x})
KeyedCount(kd) ==
  LET pairs == UNION {{<<kd[i].key, b>> : b \in kd[i].set} : i \in DOMAIN kd}
      n == SumPairs(pairs)
  IN [count |-> n, lo |-> n - Tol(n), hi |-> n + Tol(n)]

-----------------------------------------------------------------------------
(* Case emission: one line per final state. *)
ChunkOut(c) == [start |-> c.start, end |-> c.end, set |-> SeqOfSet(c.set), by |-> c.by]
Emit ==
  IF Family = "keys"
  THEN PrintT(ToJson([kind |-> "keys", exactmax |-> ExactMax,
                      journals |-> [i \in DOMAIN keyed |-> [key |-> keyed[i].key, set |-> SeqOfSet(keyed[i].set)]],
                      expect |-> KeyedCount(keyed)]))
  ELSE IF win # NoWin
  THEN PrintT(ToJson([kind |-> "window", exactmax |-> ExactMax, interval |-> I, plan |-> plan,
                      chunks |-> [i \in DOMAIN chunks |-> ChunkOut(chunks[i])],
                      unwritten |-> SeqOfSet(cur),
                      fails |-> SeqOfSet(fails), syncfails |-> SeqOfSet(syncfails),
                      order |-> order,
                      from |-> win.from, to |-> win.to, expect |-> res]))
  ELSE TRUE
=============================================================================
