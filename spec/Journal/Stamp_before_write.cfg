CONSTANTS
  Family = "scripts"
  Blocks = {8, 16}
  I = 2
  Waits = {1, 2, 3}
  MaxOps = 4
  MaxChunks = 3
  Kinds = {"rot", "flush", "flush0"}
  Orders = "id"
  Windows = "chunks"
  MaxFaults = 1
  MaxSyncFaults = 0
  AdvanceOnFailure = TRUE
  ExactMax = 100
  TolDiv = 50
SPECIFICATION Spec
INVARIANTS StampCoversContent
CHECK_DEADLOCK FALSE
