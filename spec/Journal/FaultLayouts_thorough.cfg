CONSTANTS
  Family = "layouts"
  Blocks = {8, 16}
  I = 2
  Waits = {1, 2, 3}
  MaxOps = 0
  MaxChunks = 3
  Kinds = {"rot", "flush"}
  Orders = "id"
  Windows = "all"
  MaxFaults = 1
  MaxSyncFaults = 0
  AdvanceOnFailure = FALSE
  ExactMax = 100
  TolDiv = 50
SPECIFICATION Spec
INVARIANTS TypeOK Contiguous NoEarlyRotation NoOverdueAdd EveryAddInExactlyOneChunk StampCoversContent ReaderIsContract OrderIndependent Emit
CHECK_DEADLOCK FALSE
