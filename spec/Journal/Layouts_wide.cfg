CONSTANTS
  Family = "layouts"
  Blocks = {8, 16, 32}
  I = 2
  Waits = {1, 2, 3}
  MaxOps = 0
  MaxChunks = 2
  Kinds = {"rot", "flush", "flush0"}
  Windows = "all"
  ExactMax = 100
  TolDiv = 50
SPECIFICATION Spec
INVARIANTS TypeOK Contiguous NoEarlyRotation NoOverdueAdd EveryAddInExactlyOneChunk ReaderIsContract Emit
CHECK_DEADLOCK FALSE
