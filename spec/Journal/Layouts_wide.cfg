CONSTANTS
  Family = "layouts"
  Blocks = {8, 16, 32}
  I = 2
  Waits = {1, 2, 3}
  MaxOps = 0
  MaxChunks = 2
  Kinds = {"rot", "flush", "flush0"}
  Orders = "id"
  Windows = "all"
  MaxFaults = 0
  MaxSyncFaults = 0
  AdvanceOnFailure = FALSE
  ExactMax = 100
  TolDiv = 50
SPECIFICATION Spec
INVARIANTS TypeOK Contiguous NoEarlyRotation NoOverdueAdd EveryAddInExactlyOneChunk StampCoversContent ReaderIsContract OrderIndependent Emit
CHECK_DEADLOCK FALSE
