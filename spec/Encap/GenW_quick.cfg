CONSTANTS
  Lens = {0}
  MaxOps = 0
  ScriptLen = 1
  WLens = {0, 1, 2, 3, 62, 63, 64, 65, 66, 1023, 1024, 1025, 1026, 1027, 8191, 8192, 8193, 8194, 8195}
  WMaxOps = 2
  Mode = "write"
INIT InitW
NEXT Stutter
INVARIANT Emit
CHECK_DEADLOCK FALSE
