CONSTANTS
  Lens = {0, 2, 64, 8192}
  MaxOps = 2
  ScriptLen = 2
  WLens = {0}
  WMaxOps = 1
  Mode = "read"
  BufSizes = {1}
  Site = "server"
  Drain = TRUE
  ReadAhead = "persistent"
  RA = 4096
  MaxMsgs = 8
  Shard = 0
  Shards = 1
SPECIFICATION SiteSpec
INVARIANTS TypeOK OnlyPrefixInterpreted FetchedOK NoReadAhead MessageFraming BoundedAlloc
PROPERTY SiteTerminates
CHECK_DEADLOCK FALSE
