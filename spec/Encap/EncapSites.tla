----------------------------- MODULE EncapSites -----------------------------
(* C09 at the CALL SITES of common/encapsulation.

   Encap.tla states the contract of the package (Expected(ops, L)) and checks
   the decoder machine against it.  The property is about streams, and the two
   places where the product puts a stream under the decoder add behaviour of
   their own that the package-level check cannot see:

   client/lib/turbotunnel.go  encapsulationPacketConn.ReadFrom(p) is a datagram
       read: the k-th call delivers the first Min(len(p), len_k) bytes of the
       k-th data chunk (Deliver) and must leave the stream at the end of that
       chunk, whatever len(p) was (LaterChunksUnaffected).  WriteTo(p) appends
       exactly one data chunk.
   server/lib/http.go  turbotunnelMode reads the ClientID and then decodes
       chunks from a connection whose Read returns at most the rest of ONE
       WebSocket message (io.Pipe in websocketconn).  Where the messages end
       is chosen by the peer; the packets queued must be Expected(ops, L).chunks
       for every way of cutting the stream into messages (MessageFraming).

   This module EXTENDS Encap (same case grammar, same contract operators, same
   decoder registers) and adds
     1. the call-site contracts  (Deliver, ReadFromExpected, SrvExpected);
     2. the two call-site machines with a design switch each, so that TLC
        checks the design that is in the tree AND shows that the invariants
        have teeth against the designs that break the property:
          Drain     = TRUE   ReadFrom consumes the whole chunk (ReadData + copy)
                    = FALSE  ReadFrom reads only Min(len(p), n) bytes (broken)
          ReadAhead = "none"        ReadData reads the connection directly
                    = "persistent"  one buffered reader for the connection
                    = "percall"     a new buffered reader per ReadData (broken:
                                    what was read ahead is dropped at return)
     3. the message framings of a stream (one chunk per message, everything in
        one message, cut according to the reader script) and the emission of
        the call-site cases with their expected results.

   Don't-care regions (the property says nothing about them):
     * the net.Addr returned by ReadFrom, deadlines, LocalAddr;
     * how turbotunnelMode's downstream Write calls are split (only the byte
       stream counts), and what happens to a queued packet that is too long
       to encode (the connection is torn down);
     * concurrent WriteTo on one encapsulationPacketConn (no lock in the code;
       RedialPacketConn.exchange has exactly one writer per connection);
     * the terminal error of the server's read loop (it is swallowed: the loop
       just ends), so only the packets queued are observable there. *)
EXTENDS Encap

CONSTANTS
  BufSizes,   \* buffer lengths passed to ReadFrom
  Site,       \* "client" | "server": which machine Init/Next describe
  Drain,      \* client design switch (see above)
  ReadAhead,  \* server design switch (see above)
  RA,         \* capacity of the read-ahead buffer (bufio: 4096)
  MaxMsgs,    \* script framing: after this many messages the rest is one message
  Shard, Shards  \* emission is split over several TLC processes

VARIABLES
  buf,      \* client: len(p) of the ReadFrom call in progress
  rf,       \* client: deliveries so far, [start, n, buf]
  msgs,     \* server: lengths of the messages the stream arrives in
  fetched   \* server: bytes taken from the connection so far (>= pos)
svars == <<buf, rf, msgs, fetched>>
allvars == <<vars, svars>>

Min(a, b) == IF a < b THEN a ELSE b
Max(a, b) == IF a > b THEN a ELSE b
BufSet == BufSizes
RECURSIVE Sorted(_)
Sorted(S) == IF S = {} THEN <<>>
             ELSE LET m == CHOOSE x \in S : \A y \in S : x <= y IN <<m>> \o Sorted(S \ {m})
BufSeq == Sorted(BufSizes)
E == Expected(ops, cut)

-----------------------------------------------------------------------------
(* 1. Call-site contracts. *)

(* ReadFrom with a buffer of b bytes on data chunk ch. *)
Deliver(ch, b) == [start |-> ch.start, n |-> Min(b, ch.len)]

(* ReadFrom called again and again, the k-th call with a buffer of bs[k] bytes
   (bs has an entry for every call): the numbers of bytes delivered, and the
   terminal condition the call after the last chunk reports. *)
RECURSIVE NSeq(_, _, _, _)
NSeq(chs, bs, k, acc) ==
  IF k > Len(chs) THEN acc ELSE NSeq(chs, bs, k + 1, Append(acc, Deliver(chs[k], bs[k]).n))

ReadFromExpected(o, L, bs) ==
  LET e == Expected(o, L) IN [n |-> NSeq(e.chunks, bs, 1, <<>>), term |-> e.term]

Uniform(b) == [k \in 1..(Len(ops) + 1) |-> b]
(* A run in which the buffer length changes from call to call. *)
MixBufs == [k \in 1..(Len(ops) + 1) |-> BufSeq[((cut + Len(script) + k) % Len(BufSeq)) + 1]]

(* The server queues exactly the contract's chunks, for every framing. *)
SrvExpected(o, L) == Expected(o, L).chunks

-----------------------------------------------------------------------------
(* 3a. Message framings of the first `cut` bytes of the stream. *)

ChunkEnd(p) == LET i == OpAt(p) IN Off(ops, i) + Size(ops[i])

RECURSIVE MChunk(_, _)
MChunk(i, acc) ==
  IF i > Len(ops) \/ Off(ops, i) >= cut THEN acc
  ELSE MChunk(i + 1, Append(acc, Min(Size(ops[i]), cut - Off(ops, i))))
MsgsChunk == MChunk(1, <<>>)                       \* what the in-tree client produces
MsgsOne == IF cut = 0 THEN <<>> ELSE <<cut>>       \* everything coalesced

(* Cut according to the reader script: Zero = an empty message, One = a single
   byte, Part = half of what is left of the current chunk (a boundary inside a
   prefix or a body), All = the rest of the current chunk and the first byte of
   the next one (a chunk boundary inside a message), AllEOF = all the rest. *)
RECURSIVE MScript(_, _, _)
MScript(p, j, acc) ==
  IF p >= cut THEN acc
  ELSE IF Len(acc) >= MaxMsgs THEN Append(acc, cut - p)
  ELSE LET d == script[((j - 1) % Len(script)) + 1]
           rest == cut - p
           toEnd == Min(ChunkEnd(p), cut) - p
           len == CASE d = "Zero" -> 0
                    [] d = "One" -> 1
                    [] d = "Part" -> Max(1, toEnd \div 2)
                    [] d = "All" -> Min(rest, toEnd + 1)
                    [] OTHER -> rest
       IN MScript(p + len, j + 1, Append(acc, len))
MsgsScript == MScript(0, 1, <<>>)

RECURSIVE SumTo(_, _)
SumTo(m, k) == IF k = 0 THEN 0 ELSE SumTo(m, k - 1) + m[k]
FramingOK(m) == SumTo(m, Len(m)) = cut /\ \A k \in DOMAIN m : m[k] >= 0

(* End of the message that contains byte p (p < cut). *)
MsgEnd(p) == LET bs == {SumTo(msgs, k) : k \in 1..Len(msgs)} IN
             CHOOSE b \in bs : b > p /\ \A c \in bs : c > p => b <= c

-----------------------------------------------------------------------------
(* 2a. Client: ReadFrom over the decoder.  The prefix steps are Encap's (the
   scripted reader included); the body step is the call site's. *)

CInit ==
  /\ Init
  /\ buf \in BufSet /\ rf = <<>> /\ msgs = <<>> /\ fetched = 0

CBody ==
  /\ term = "run" /\ phase = "body"
  /\ LET need == IF isData /\ ~Drain THEN Min(buf, n) ELSE n IN
     IF Avail >= need
     THEN /\ pos' = pos + need /\ phase' = "first"
          /\ out' = (IF isData THEN Append(out, [start |-> pos, len |-> n]) ELSE out)
          /\ rf' = (IF isData THEN Append(rf, [start |-> pos, n |-> Min(buf, n), buf |-> buf]) ELSE rf)
          /\ (IF isData THEN buf' \in BufSet ELSE buf' = buf)     \* the next call brings its own buffer
          /\ UNCHANGED term
     ELSE /\ term' = "UEOF" /\ UNCHANGED <<pos, phase, out, rf, buf>>
  /\ si' \in 1..Len(script)
  /\ UNCHANGED <<ops, cut, script, cnt, n, isData, wops, msgs, fetched>>

CNext ==
  \/ (phase = "more" /\ cnt >= 2 /\ TooLong /\ UNCHANGED svars)
  \/ (~(phase = "more" /\ cnt >= 2) /\ ReadPrefixByte /\ UNCHANGED svars)
  \/ CBody
CSpec == CInit /\ [][CNext]_allvars /\ WF_allvars(CNext)

(* The k-th delivery is the k-th data chunk of the contract, cut to the buffer
   of the k-th call ... *)
DeliveryIsContract ==
  /\ Len(rf) <= Len(E.chunks)
  /\ \A k \in 1..Len(rf) : [start |-> rf[k].start, n |-> rf[k].n] = Deliver(E.chunks[k], rf[k].buf)
(* ... in particular where it starts does not depend on the buffers of the
   earlier calls (a truncated delivery still consumes its whole chunk). *)
LaterChunksUnaffected ==
  \A k \in 1..Len(rf) : k <= Len(E.chunks) /\ rf[k].start = E.chunks[k].start
SiteTermIsContract == term # "run" => (term = E.term /\ Len(rf) = Len(E.chunks))

-----------------------------------------------------------------------------
(* 2b. Server: the read loop of turbotunnelMode over a connection whose Read
   returns at most the rest of one message.  `fetched - pos` bytes are held in
   a read-ahead buffer (none in the design of the tree).  Empty messages are
   reads of zero bytes and change nothing; they are part of the emitted
   framings but not of the machine. *)

SInit ==
  /\ Init
  \* the chunk and one-message framings do not depend on the script: take them once
  /\ msgs \in {MsgsScript} \cup (IF script = <<"All">> THEN {MsgsChunk, MsgsOne} ELSE {})
  /\ fetched = 0 /\ buf = 0 /\ rf = <<>>

(* One Read of the connection when the read-ahead buffer is empty at p. *)
FillTo(p, want) == p + Min(want, MsgEnd(p) - p)

SPrefix ==
  /\ term = "run" /\ phase \in {"first", "more"} /\ ~(phase = "more" /\ cnt >= 2)
  /\ IF pos >= cut
     THEN /\ term' = (IF phase = "first" THEN "EOF" ELSE "UEOF")
          /\ UNCHANGED <<pos, fetched, phase, cnt, n, isData>>
     ELSE LET b == ByteAt(pos) IN
          /\ fetched' = (IF fetched > pos THEN fetched ELSE FillTo(pos, IF ReadAhead = "none" THEN 1 ELSE RA))
          /\ pos' = pos + 1
          /\ IF phase = "first"
             THEN /\ isData' = b.d /\ n' = b.v /\ cnt' = 0
                  /\ phase' = (IF b.c THEN "more" ELSE "body")
             ELSE /\ n' = n * 128 + b.v /\ cnt' = cnt + 1
                  /\ phase' = (IF b.c THEN "more" ELSE "body")
                  /\ UNCHANGED isData
          /\ UNCHANGED term
  /\ UNCHANGED <<ops, cut, script, si, out, wops, buf, rf, msgs>>

(* After the body has been read up to e: either exactly up to e (a large read
   bypasses the buffer) or a refill that took the rest of the message too. *)
FetchAfter(e) ==
  IF fetched >= e THEN {fetched}
  ELSE IF ReadAhead = "none" THEN {e}
  ELSE {e, Min(MsgEnd(e - 1), e - 1 + RA)}

SBody ==
  /\ term = "run" /\ phase = "body"
  /\ IF cut - pos >= n
     THEN \E f \in FetchAfter(pos + n) :
            /\ fetched' = f
            \* ReadData returns after a data chunk; "percall" drops the buffer there
            /\ pos' = (IF isData /\ ReadAhead = "percall" THEN f ELSE pos + n)
            /\ out' = (IF isData THEN Append(out, [start |-> pos, len |-> n]) ELSE out)
            /\ phase' = "first" /\ UNCHANGED term
     ELSE /\ term' = "UEOF" /\ UNCHANGED <<pos, fetched, phase, out>>
  /\ UNCHANGED <<ops, cut, script, si, cnt, n, isData, wops, buf, rf, msgs>>

SNext ==
  \/ (phase = "more" /\ cnt >= 2 /\ TooLong /\ UNCHANGED svars)
  \/ SPrefix
  \/ SBody
SSpec == SInit /\ [][SNext]_allvars /\ WF_allvars(SNext)

FetchedOK == pos <= fetched /\ fetched <= cut /\ FramingOK(msgs)
(* The packets queued do not depend on where the messages end: this is
   Encap's ResultIsContract / PartialIsPrefix on the server machine. *)
MessageFraming == ResultIsContract /\ PartialIsPrefix
(* In the design of the tree nothing is ever held back from the decoder. *)
NoReadAhead == ReadAhead = "none" => fetched = pos

-----------------------------------------------------------------------------
(* One configuration drives either machine. *)
SiteInit == IF Site = "client" THEN CInit ELSE SInit
SiteNext == IF Site = "client" THEN CNext ELSE SNext
SiteSpec == SiteInit /\ [][SiteNext]_allvars /\ WF_allvars(SiteNext)
SiteTerminates == <>(term # "run")

-----------------------------------------------------------------------------
(* 3b. Emission (NEXT SiteStutter, one worker per shard). *)

(* The first three conjuncts only bind ops and cut early so that a shard does
   not enumerate the scripts of the cases it drops; Init remains the authority
   on what a case is. *)
RECURSIVE OpsKey(_, _)
OpsKey(o, i) == IF i > Len(o) THEN 0
                ELSE (o[i].w * 5 + o[i].len + (IF o[i].k = "D" THEN 1 ELSE IF o[i].k = "P" THEN 2 ELSE 3)) * (2 * i + 1) + OpsKey(o, i + 1)
ShardKey(o, c) == c + OpsKey(o, 1)     \* only spreads the cases over the shards

GenInit ==
  /\ ops \in UNION {[1..k -> Ops] : k \in 0..MaxOps}
  /\ cut \in (IF Len(ops) = 0 THEN {0} ELSE Cuts(ops))
  /\ (ShardKey(ops, cut) % Shards) = Shard
  /\ Init
  /\ buf = 0 /\ rf = <<>> /\ msgs = <<>> /\ fetched = 0

(* Writer cases of the call sites: sequences of packets handed to WriteTo
   (client) or queued for the ClientID (server); one data chunk each. *)
GenWInit ==
  /\ InitW
  /\ \A i \in DOMAIN wops : wops[i].k = "WD"
  /\ buf = 0 /\ rf = <<>> /\ msgs = <<>> /\ fetched = 0

SiteStutter == UNCHANGED allvars

RECURSIVE RfAll(_, _)
RfAll(i, acc) ==
  IF i > Len(BufSeq) THEN acc
  ELSE RfAll(i + 1, Append(acc, [buf |-> BufSeq[i], n |-> ReadFromExpected(ops, cut, Uniform(BufSeq[i])).n]))

SiteEmit ==
  IF Mode = "read"
  THEN PrintT(ToJson([ops |-> ops, cut |-> cut, script |-> script, expect |-> E,
                      rf |-> RfAll(1, <<>>),
                      mix |-> [bufs |-> MixBufs, n |-> ReadFromExpected(ops, cut, MixBufs).n],
                      srv |-> SrvExpected(ops, cut),
                      \* the chunk and one-message framings do not depend on the script:
                      \* base marks the one case per (ops, cut) in which they are to be run
                      base |-> (script = <<"All">>),
                      msgs |-> [chunk |-> MsgsChunk, one |-> MsgsOne, script |-> MsgsScript]]))
  ELSE PrintT(ToJson([wops |-> wops, script |-> script, expect |-> WExpected(wops)]))

(* The framings handed to the harness are framings of exactly the stream. *)
EmitOK == Mode = "read" => FramingOK(MsgsChunk) /\ FramingOK(MsgsOne) /\ FramingOK(MsgsScript)
=============================================================================
