CONSTANTS
  Lens = {0, 63, 16383, 16384, 1048575}
  MaxOps = 2
  ScriptLen = 1
  WLens = {0}
  WMaxOps = 1
  Mode = "read"
  BufSizes = {1, 63, 64, 1500, 8192, 65536, 1048576}
  Site = "client"
  Drain = TRUE
  ReadAhead = "none"
  RA = 4096
  MaxMsgs = 10
  Shard = 0
  Shards = 1
INIT GenInit
NEXT SiteStutter
INVARIANTS SiteEmit EmitOK
CHECK_DEADLOCK FALSE
