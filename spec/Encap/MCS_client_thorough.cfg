CONSTANTS
  Lens = {0, 1, 64, 8192}
  MaxOps = 2
  ScriptLen = 1
  WLens = {0}
  WMaxOps = 1
  Mode = "read"
  BufSizes = {1, 64, 1500, 1048576}
  Site = "client"
  Drain = TRUE
  ReadAhead = "none"
  RA = 4096
  MaxMsgs = 8
  Shard = 0
  Shards = 1
SPECIFICATION SiteSpec
INVARIANTS TypeOK OnlyPrefixInterpreted DeliveryIsContract LaterChunksUnaffected SiteTermIsContract ResultIsContract PartialIsPrefix BoundedAlloc
PROPERTY SiteTerminates
CHECK_DEADLOCK FALSE
