CONSTANTS
  Lens = {0, 1, 64, 8192}
  MaxOps = 3
  ScriptLen = 2
  WLens = {0}
  WMaxOps = 1
  Mode = "read"
SPECIFICATION Spec
INVARIANTS TypeOK OnlyPrefixInterpreted ResultIsContract PartialIsPrefix BoundedAlloc
PROPERTY Terminates
CHECK_DEADLOCK FALSE
