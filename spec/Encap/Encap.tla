------------------------------- MODULE Encap -------------------------------
(* common/encapsulation: length-prefixed data/padding chunks on a byte stream.

   The module has three parts.
   1. The grammar of streams (sequences of chunk operations, including
      non-minimal and over-long length prefixes) and the CONTRACT of decoding:
      Expected(ops, L) = the data chunks fully contained in the first L bytes
      and the terminal condition (EOF at a chunk boundary, UEOF inside a
      chunk, TooLong for a prefix of more than three bytes).
   2. The decoder as a state machine that reads through an io.Reader whose
      behaviour is scripted by the environment (zero-length reads, single
      bytes, short reads, data returned together with EOF).  TLC checks that
      the machine's result equals the contract for every script, i.e. that
      the contract is independent of read fragmentation.
   3. The writer contract (WriteData / WritePadding / MaxDataForSize).

   Body bytes are not materialised: a stream is described by the layout of
   its chunks; the Go driver fills bodies with keyed pseudo-random bytes.
   Cases are enumerated as TLC initial states; the invariant Emit prints one
   JSON line per case together with the contract's expected result. *)
EXTENDS Integers, Sequences, FiniteSets, TLC, Json

CONSTANTS
  Lens,       \* body lengths used for data and padding chunks
  MaxOps,     \* maximum number of chunks per stream
  ScriptLen,  \* maximum length of the (cyclic) reader script
  WLens,      \* lengths used in writer cases
  WMaxOps,    \* maximum number of writer operations
  Mode        \* "read" | "write": which family of cases Init enumerates

MaxLen == 1048575            \* 2^20 - 1, the largest encodable length
Dirs == {"Zero", "One", "Part", "All", "AllEOF"}

MinWidth(n) == IF n < 64 THEN 1 ELSE IF n < 8192 THEN 2 ELSE 3

(* A chunk operation.  k = "D" data, "P" padding, "X" an over-long prefix
   (three prefix bytes that all carry the continuation bit) followed by len
   further bytes. *)
OpSet ==
  {[k |-> k, len |-> n, w |-> w] : k \in {"D", "P"}, n \in Lens, w \in 1..3}
  \cup {[k |-> "X", len |-> n, w |-> 3] : n \in {0, 1}}
ValidOp(o) == o.k = "X" \/ o.w >= MinWidth(o.len)
Ops == {o \in OpSet : ValidOp(o)}

Size(o) == o.w + o.len

RECURSIVE Off(_, _)
Off(ops, i) == IF i <= 1 THEN 0 ELSE Off(ops, i - 1) + Size(ops[i - 1])
Total(ops) == Off(ops, Len(ops) + 1)

(* Interesting truncation points of a stream: every chunk boundary, inside a
   prefix, just after a prefix, one byte into the body, one byte short of the
   end of the body, and no truncation at all. *)
Cuts(ops) ==
  LET pts(i) == LET o == ops[i] b == Off(ops, i) IN
                  {b, b + 1, b + o.w - 1, b + o.w, b + o.w + 1, b + Size(o) - 1}
  IN {c \in UNION {pts(i) : i \in 1..Len(ops)} : c >= 0 /\ c < Total(ops)} \cup {Total(ops)}

Scripts == {s \in UNION {[1..k -> Dirs] : k \in 1..ScriptLen} : \E j \in DOMAIN s : s[j] # "Zero"}

-----------------------------------------------------------------------------
(* 1. The contract. *)

RECURSIVE Walk(_, _, _, _)
Walk(ops, L, i, acc) ==
  IF i > Len(ops) THEN [chunks |-> acc, term |-> "EOF"]
  ELSE LET o == ops[i] b == Off(ops, i) IN
    IF L <= b THEN [chunks |-> acc, term |-> "EOF"]
    ELSE IF o.k = "X" THEN
      (IF L < b + 3 THEN [chunks |-> acc, term |-> "UEOF"] ELSE [chunks |-> acc, term |-> "TooLong"])
    ELSE IF L < b + Size(o) THEN [chunks |-> acc, term |-> "UEOF"]
    ELSE Walk(ops, L, i + 1, IF o.k = "D" THEN Append(acc, [start |-> b + o.w, len |-> o.len]) ELSE acc)

Expected(ops, L) == Walk(ops, L, 1, <<>>)

-----------------------------------------------------------------------------
(* 2. The decoder machine over a scripted reader. *)

VARIABLES ops, cut, script,         \* the case (constant during a behaviour)
          pos, si,                  \* reader: next unread byte, script position
          phase, cnt, n, isData,    \* decoder registers
          out, term,                \* result so far / terminal condition
          wops                      \* writer case (Mode = "write")
vars == <<ops, cut, script, pos, si, phase, cnt, n, isData, out, term, wops>>

(* Prefix byte j (1-based) of chunk o: data flag, continuation flag, value bits. *)
PByte(o, j) ==
  IF o.k = "X" THEN [d |-> TRUE, c |-> TRUE, v |-> 0]
  ELSE LET d == (o.k = "D") IN
    IF o.w = 1 THEN [d |-> d, c |-> FALSE, v |-> o.len]
    ELSE IF o.w = 2 THEN
      (IF j = 1 THEN [d |-> d, c |-> TRUE, v |-> o.len \div 128] ELSE [d |-> d, c |-> FALSE, v |-> o.len % 128])
    ELSE
      (IF j = 1 THEN [d |-> d, c |-> TRUE, v |-> o.len \div 16384]
       ELSE IF j = 2 THEN [d |-> d, c |-> TRUE, v |-> (o.len \div 128) % 128]
       ELSE [d |-> d, c |-> FALSE, v |-> o.len % 128])

(* The prefix byte at stream position p (p must lie inside a prefix, which is
   an invariant of the machine: it interprets only prefix bytes). *)
OpAt(p) == CHOOSE i \in 1..Len(ops) : Off(ops, i) <= p /\ p < Off(ops, i) + Size(ops[i])
ByteAt(p) == LET i == OpAt(p) IN PByte(ops[i], p - Off(ops, i) + 1)
InPrefix(p) == \E i \in 1..Len(ops) : Off(ops, i) <= p /\ p < Off(ops, i) + ops[i].w

Avail == cut - pos
NextSi == (si % Len(script)) + 1

Init ==
  /\ Mode = "read"
  /\ ops \in UNION {[1..k -> Ops] : k \in 0..MaxOps}
  /\ cut \in (IF Len(ops) = 0 THEN {0} ELSE Cuts(ops))
  /\ script \in Scripts
  /\ pos = 0 /\ si = 1 /\ phase = "first" /\ cnt = 0 /\ n = 0 /\ isData = FALSE
  /\ out = <<>> /\ term = "run" /\ wops = <<>>

(* One attempt to read a single prefix byte. *)
ReadPrefixByte ==
  /\ term = "run" /\ phase \in {"first", "more"}
  /\ IF Avail = 0
     THEN /\ term' = (IF phase = "first" THEN "EOF" ELSE "UEOF")
          /\ UNCHANGED <<pos, si, phase, cnt, n, isData, out>>
     ELSE IF script[si] = "Zero"
     THEN \* (0, nil): nothing happened, the caller must try again
          /\ si' = NextSi
          /\ UNCHANGED <<pos, phase, cnt, n, isData, out, term>>
     ELSE \* one byte is delivered, possibly together with EOF (AllEOF on the last byte)
          LET b == ByteAt(pos) IN
          /\ pos' = pos + 1 /\ si' = NextSi
          /\ IF phase = "first"
             THEN /\ isData' = b.d /\ n' = b.v /\ cnt' = 0
                  /\ phase' = (IF b.c THEN "more" ELSE "body")
                  /\ UNCHANGED <<term, out>>
             ELSE /\ n' = n * 128 + b.v /\ cnt' = cnt + 1
                  /\ phase' = (IF b.c THEN "more" ELSE "body")
                  /\ UNCHANGED <<isData, term, out>>
  /\ UNCHANGED <<ops, cut, script, wops>>

(* A fourth prefix byte would be needed: the prefix is too long. *)
TooLong ==
  /\ term = "run" /\ phase = "more" /\ cnt >= 2
  /\ term' = "TooLong"
  /\ UNCHANGED <<ops, cut, script, pos, si, phase, cnt, n, isData, out, wops>>

(* The body is read to completion or the stream ends inside it (io.ReadFull /
   io.CopyN of the standard library, taken as atomic; the script position
   afterwards is arbitrary because it depends on the number of reads). *)
ReadBody ==
  /\ term = "run" /\ phase = "body"
  /\ IF Avail >= n
     THEN /\ pos' = pos + n /\ phase' = "first"
          /\ out' = (IF isData THEN Append(out, [start |-> pos, len |-> n]) ELSE out)
          /\ UNCHANGED term
     ELSE /\ term' = "UEOF" /\ UNCHANGED <<pos, phase, out>>
  /\ si' \in 1..Len(script)
  /\ UNCHANGED <<ops, cut, script, cnt, n, isData, wops>>

Next == (phase = "more" /\ cnt >= 2 /\ TooLong) \/ (~(phase = "more" /\ cnt >= 2) /\ ReadPrefixByte) \/ ReadBody
Stutter == UNCHANGED vars

Spec == Init /\ [][Next]_vars /\ WF_vars(Next)

TypeOK ==
  /\ pos \in 0..cut /\ si \in 1..Len(script) /\ cnt \in 0..2
  /\ phase \in {"first", "more", "body"} /\ term \in {"run", "EOF", "UEOF", "TooLong"}

(* The machine interprets only prefix bytes. *)
OnlyPrefixInterpreted ==
  (term = "run" /\ (phase = "first" \/ (phase = "more" /\ cnt < 2)) /\ Avail > 0) => InPrefix(pos)

(* C09, design level: whatever the reader does, the result is the contract's. *)
ResultIsContract == term # "run" => [chunks |-> out, term |-> term] = Expected(ops, cut)
PartialIsPrefix == LET e == Expected(ops, cut).chunks IN
                     Len(out) <= Len(e) /\ \A i \in 1..Len(out) : out[i] = e[i]
(* Never announce more than what the prefix says / the maximum. *)
BoundedAlloc == n <= MaxLen
Terminates == <>(term # "run")

-----------------------------------------------------------------------------
(* 3. Writer cases: sequences of WriteData(len) and WritePadding(n). *)

WOps == {[k |-> "WD", len |-> m] : m \in WLens} \cup {[k |-> "WP", len |-> m] : m \in WLens}

InitW ==
  /\ Mode = "write"
  /\ wops \in UNION {[1..k -> WOps] : k \in 1..WMaxOps}
  /\ ops = <<>> /\ cut = 0 /\ script \in Scripts
  /\ pos = 0 /\ si = 1 /\ phase = "first" /\ cnt = 0 /\ n = 0 /\ isData = FALSE
  /\ out = <<>> /\ term = "run"

WSize(o) == IF o.k = "WD" THEN (IF o.len > MaxLen THEN 0 ELSE o.len + MinWidth(o.len)) ELSE o.len
RECURSIVE WTotal(_, _)
WTotal(w, i) == IF i > Len(w) THEN 0 ELSE WSize(w[i]) + WTotal(w, i + 1)
WExpected(w) ==
  [size |-> WTotal(w, 1),
   chunks |-> SelectSeq([i \in 1..Len(w) |-> IF w[i].k = "WD" /\ w[i].len <= MaxLen THEN w[i].len ELSE -1], LAMBDA x : x >= 0),
   toolong |-> {i \in 1..Len(w) : w[i].k = "WD" /\ w[i].len > MaxLen}]

-----------------------------------------------------------------------------
(* Case emission (used with NEXT Stutter, one worker). *)
Emit ==
  IF Mode = "read"
  THEN PrintT(ToJson([ops |-> ops, cut |-> cut, script |-> script, expect |-> Expected(ops, cut)]))
  ELSE PrintT(ToJson([wops |-> wops, script |-> script, expect |-> WExpected(wops)]))
=============================================================================
