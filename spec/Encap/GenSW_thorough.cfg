CONSTANTS
  Lens = {0}
  MaxOps = 0
  ScriptLen = 2
  WLens = {0, 1, 63, 64, 8191, 8192, 65536, 1048575, 1048576, 1048577}
  WMaxOps = 2
  Mode = "write"
  BufSizes = {1, 63, 64, 1500, 8192, 65536, 1048576}
  Site = "client"
  Drain = TRUE
  ReadAhead = "none"
  RA = 4096
  MaxMsgs = 10
  Shard = 0
  Shards = 1
INIT GenWInit
NEXT SiteStutter
INVARIANTS SiteEmit EmitOK
CHECK_DEADLOCK FALSE
