CONSTANTS
  Lens = {0, 64}
  MaxOps = 2
  ScriptLen = 1
  WLens = {0}
  WMaxOps = 1
  Mode = "read"
  BufSizes = {1}
  Site = "server"
  Drain = TRUE
  ReadAhead = "percall"
  RA = 4096
  MaxMsgs = 8
  Shard = 0
  Shards = 1
SPECIFICATION SiteSpec
INVARIANTS MessageFraming

CHECK_DEADLOCK FALSE
