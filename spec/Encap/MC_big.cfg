CONSTANTS
  Lens = {0, 63, 16383, 16384, 1048575}
  MaxOps = 2
  ScriptLen = 3
  WLens = {0}
  WMaxOps = 1
  Mode = "read"
SPECIFICATION Spec
INVARIANTS TypeOK OnlyPrefixInterpreted ResultIsContract PartialIsPrefix BoundedAlloc
PROPERTY Terminates
CHECK_DEADLOCK FALSE
