CONSTANTS
  Lens = {0, 63, 16383, 16384, 1048575}
  MaxOps = 2
  ScriptLen = 3
  WLens = {0}
  WMaxOps = 1
  Mode = "read"
INIT Init
NEXT Stutter
INVARIANT Emit
CHECK_DEADLOCK FALSE
