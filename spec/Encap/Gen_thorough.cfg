CONSTANTS
  Lens = {0, 1, 64, 8192}
  MaxOps = 3
  ScriptLen = 2
  WLens = {0}
  WMaxOps = 1
  Mode = "read"
INIT Init
NEXT Stutter
INVARIANT Emit
CHECK_DEADLOCK FALSE
