CONSTANTS
  Lens = {0, 1, 63, 64, 8192}
  MaxOps = 2
  ScriptLen = 2
  WLens = {0}
  WMaxOps = 1
  Mode = "read"
INIT Init
NEXT Stutter
INVARIANT Emit
CHECK_DEADLOCK FALSE
