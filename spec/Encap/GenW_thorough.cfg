CONSTANTS
  Lens = {0}
  MaxOps = 0
  ScriptLen = 2
  WLens = {0, 1, 63, 64, 65, 1024, 1025, 1026, 8191, 8192, 8193, 8194, 1048572, 1048575, 1048576, 1048577, 1048578, 1048579}
  WMaxOps = 2
  Mode = "write"
INIT InitW
NEXT Stutter
INVARIANT Emit
CHECK_DEADLOCK FALSE
