CONSTANTS
  MaxLives = 3
  ReuseServer = FALSE
SPECIFICATION Spec
INVARIANT EachLifetimeItsOwnSetting
CHECK_DEADLOCK FALSE
