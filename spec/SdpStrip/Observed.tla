------------------------------ MODULE Observed ------------------------------
(* Addresses seen in descriptions the real code produced in this run (local
   descriptions of real PeerConnections).  The check overwrites this module in
   its scratch copy with the addresses it observed, as records
       [fam |-> "v4", o |-> <<a, b, c, d>>]   or
       [fam |-> "v6g", g |-> <<g1, ..., g8>>]  (eight 16-bit groups)
   so that TLC - not the driver - says into which range each of them falls. *)
ObservedAddrs == {}
=============================================================================
