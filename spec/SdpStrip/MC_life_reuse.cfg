CONSTANTS
  MaxLives = 3
  ReuseServer = TRUE
SPECIFICATION Spec
INVARIANT EachLifetimeItsOwnSetting
CHECK_DEADLOCK FALSE
