CONSTANTS
  Mode = "probe"
  MaxCands = 2
  NFill = 2
  Layouts = {"one", "two-second"}
  MaxAttempts = 3
  RetryRaw = FALSE
SPECIFICATION Spec
INVARIANTS ImplConforms ImplNoLocalHostLeft ImplIdempotent KeepLocalConforms ContractBites RangesAreMasks
CHECK_DEADLOCK FALSE
