CONSTANTS
  Mode = "probe"
  MaxCands = 2
  NFill = 2
  Layouts = {"one", "two-second"}
SPECIFICATION Spec
INVARIANTS ImplConforms ImplNoLocalHostLeft ImplIdempotent KeepLocalConforms ContractBites RangesAreMasks
CHECK_DEADLOCK FALSE
