------------------------------ MODULE SdpStrip ------------------------------
(* C08: local addresses are stripped from SDP, nothing else is lost.
   common/util/util.go IsLocal / StripLocalAddresses, applied by
   client/lib/rendezvous.go BrokerChannel.Negotiate and
   proxy/lib/snowflake.go SignalingServer.sendAnswer.

   ADDRESSES are records
       [fam |-> "v4", o |-> <<a,b,c,d>>]            dotted quad
       [fam |-> "m4", o |-> <<a,b,c,d>>]            IPv4-mapped IPv6  ::ffff:a.b.c.d
       [fam |-> "v6", hi |-> h, mid |-> m, lo |-> l] h:m:m:m:m:m:m:l  (16-bit groups)
   and the classes of the property are defined arithmetically from the RFC
   ranges (not from the bit masks the code uses):
       RFC 1918   10/8, 172.16/12, 192.168/16
       RFC 6598   100.64/10
       RFC 3927   169.254/16
       RFC 4193   fc00::/7
       loopback   127/8, ::1          unspecified  0.0.0.0, ::
   The address set has one representative on each side of every range
   boundary, in plain and IPv4-mapped form.

   A DESCRIPTION is [sess |-> candidates at session level,
                     media |-> sequence of media sections, each a sequence of
                               candidate attributes]
   (all other lines come from a pion-generated template in the Go driver and
   must survive textually).  A candidate is [typ, tr, style, addr] (well-formed)
   or [typ |-> "malformed", kind |-> k].

   CONTRACT.  Fate(c, lvl, keepLocal) says what must happen to one candidate
   attribute when the description leaves the process:
       "strip"  it must not be there     (well-formed host candidate at media
                                          level whose address MustStrip, and
                                          local addresses are not kept)
       "keep"   it must be there, textually unchanged
       "any"    don't-care (see below)
   and an output conforms when it is the input with exactly a set D of
   candidate lines deleted, strip-positions <= D <= strip- and any-positions,
   every other line unchanged and in order (Conforms).  The Go drivers check
   this textually.

   DON'T-CARE regions (fate "any"), so that the contract demands no more than
   the property:
     * host candidates with an IPv6 link-local address (fe80::/10): not in the
       property's list; the code keeps them;
     * malformed candidate attributes (the property only demands that they do
       not make the step panic) and host candidates whose address is not an IP
       literal (mDNS names);
     * candidate attributes at session level (not valid ICE SDP, never produced
       by pion; the code does not look at them);
     * when local addresses are explicitly kept, whether a local host candidate
       is in fact kept;
     * candidates that must be kept but are written in a spelling pion itself
       does not produce (every style but "pion"): textual preservation is not
       demanded of them (their local counterparts must still be stripped);
     * a candidate attribute with an empty value ("a=candidate:") is re-marshalled
       by pion as "a=candidate": the line changes although nothing is lost, so
       this kind is a raw class (totality only), not a candidate kind;
   For text that is not a description at all (pion's parser accepts a lot of
   it and re-marshals a stub) only totality is demanded: class names are
   enumerated here, the Go driver concretises them.

   The filter as the code performs it is modelled too (ImplKeeps/ImplStrip) and
   TLC checks that it conforms to the contract, leaves no local host
   candidate, and is idempotent. *)
EXTENDS Integers, Sequences, FiniteSets, TLC, Json, Observed

CONSTANTS
  Mode,        \* "table" | "probe" | "full" | "raw" | "callsite" | "scripts" | "observed"
  MaxCands,    \* probe family: candidates per section (1..3)
  NFill,       \* probe family: how many of the filler kinds are used (1..3)
  Layouts,     \* probe family: subset of {"one", "two-first", "two-second"}
  MaxAttempts, \* call-site machine: how often an implementation may try to send
  RetryRaw     \* call-site machine: TRUE = a retry re-reads the unfiltered description (the defect the
               \* invariant EveryAttemptConforms exists to exclude; used as a self-check that must FAIL)

-----------------------------------------------------------------------------
(* Addresses. *)
V4(a, b, c, d) == [fam |-> "v4", o |-> <<a, b, c, d>>]
M4(a, b, c, d) == [fam |-> "m4", o |-> <<a, b, c, d>>]
V6(h, m, l) == [fam |-> "v6", hi |-> h, mid |-> m, lo |-> l]

Quads ==
  { <<9,255,255,255>>, <<10,0,0,0>>, <<10,255,255,255>>, <<11,0,0,0>>,
    <<172,15,255,255>>, <<172,16,0,0>>, <<172,31,255,255>>, <<172,32,0,0>>,
    <<192,167,255,255>>, <<192,168,0,0>>, <<192,168,255,255>>, <<192,169,0,0>>,
    <<100,63,255,255>>, <<100,64,0,0>>, <<100,127,255,255>>, <<100,128,0,0>>,
    <<169,253,255,255>>, <<169,254,0,0>>, <<169,254,255,255>>, <<169,255,0,0>>,
    <<126,255,255,255>>, <<127,0,0,0>>, <<127,0,0,1>>, <<127,255,255,255>>, <<128,0,0,0>>,
    <<0,0,0,0>>, <<0,0,0,1>>,
    \* first octet of a private range with a foreign second octet, and the reverse
    <<172,0,0,1>>, <<172,255,0,1>>, <<192,0,2,1>>, <<100,0,0,1>>, <<100,255,0,1>>, <<169,0,0,1>>,
    <<8,10,0,1>>, <<168,192,0,1>>, <<16,172,0,1>>, <<254,169,0,1>>, <<64,100,0,1>>,
    <<8,8,8,8>>, <<203,0,113,5>>, <<255,255,255,255>> }

Sixes ==
  { V6(64511, 65535, 65535),   \* fbff:ffff:...:ffff   just below fc00::/7
    V6(64512, 0, 0),           \* fc00::
    V6(64512, 0, 1),           \* fc00::1
    V6(64767, 65535, 65535),   \* fcff:ffff:...
    V6(64768, 0, 1),           \* fd00::1
    V6(65023, 65535, 65535),   \* fdff:ffff:...:ffff   top of fc00::/7
    V6(65024, 0, 0),           \* fe00::               just above
    V6(65024, 0, 1),           \* fe00::1
    V6(65152, 0, 1),           \* fe80::1   link-local (don't-care)
    V6(65215, 65535, 65535),   \* febf:ffff:...        link-local (don't-care)
    V6(0, 0, 1),               \* ::1  loopback
    V6(0, 0, 0),               \* ::   unspecified
    V6(0, 0, 2),               \* ::2
    V6(8193, 3512, 1),         \* 2001:db8:db8:...:1   documentation / public
    V6(252, 0, 1),             \* fc::1   (00fc, not fc00)
    V6(65535, 0, 1) }          \* ff..::1 multicast

Addrs == {[fam |-> "v4", o |-> x] : x \in Quads} \cup {[fam |-> "m4", o |-> x] : x \in Quads} \cup Sixes

Is4(a) == a.fam \in {"v4", "m4"}
Private4(o)   == o[1] = 10 \/ (o[1] = 172 /\ o[2] \in 16..31) \/ (o[1] = 192 /\ o[2] = 168)   \* RFC 1918
CGN4(o)       == o[1] = 100 /\ o[2] \in 64..127                                              \* RFC 6598
LinkLocal4(o) == o[1] = 169 /\ o[2] = 254                                                    \* RFC 3927
(* "v6g" is an IPv6 address given by all eight groups (addresses observed at run time, module Observed) *)
Hi6(a)        == IF a.fam = "v6g" THEN a.g[1] ELSE a.hi
Groups6(a)    == IF a.fam = "v6g" THEN a.g ELSE <<a.hi, a.mid, a.mid, a.mid, a.mid, a.mid, a.mid, a.lo>>
ULA6(a)       == Hi6(a) \in 64512..65023                                                     \* RFC 4193 fc00::/7
LinkLocal6(a) == Hi6(a) \in 65152..65215                                                     \* fe80::/10

(* what util.IsLocal is for (the "address classification" mechanism) *)
IsLocalRFC(a) == IF Is4(a) THEN Private4(a.o) \/ CGN4(a.o) \/ LinkLocal4(a.o) ELSE ULA6(a)
Loopback(a)    == IF Is4(a) THEN a.o[1] = 127 ELSE Groups6(a) = <<0, 0, 0, 0, 0, 0, 0, 1>>
Unspecified(a) == IF Is4(a) THEN a.o = <<0, 0, 0, 0>> ELSE Groups6(a) = <<0, 0, 0, 0, 0, 0, 0, 0>>

(* the property's list *)
MustStrip(a) == IsLocalRFC(a) \/ Loopback(a) \/ Unspecified(a)
DontCareAddr(a) == ~Is4(a) /\ LinkLocal6(a)

(* name of the range an address falls into (used in violation signatures) *)
RangeName(a) ==
  IF Is4(a) THEN
    (IF a.o[1] = 10 THEN "rfc1918-10/8"
     ELSE IF a.o[1] = 172 /\ a.o[2] \in 16..31 THEN "rfc1918-172.16/12"
     ELSE IF a.o[1] = 192 /\ a.o[2] = 168 THEN "rfc1918-192.168/16"
     ELSE IF CGN4(a.o) THEN "rfc6598-100.64/10"
     ELSE IF LinkLocal4(a.o) THEN "rfc3927-169.254/16"
     ELSE IF Loopback(a) THEN "loopback"
     ELSE IF Unspecified(a) THEN "unspecified"
     ELSE "public")
  ELSE
    (IF ULA6(a) THEN "rfc4193-fc00::/7"
     ELSE IF LinkLocal6(a) THEN "linklocal-fe80::/10"
     ELSE IF Loopback(a) THEN "loopback"
     ELSE IF Unspecified(a) THEN "unspecified"
     ELSE "public")

(* expected value of util.IsLocal(a): loopback/unspecified are handled by the
   caller, so IsLocal's own answer for them is a don't-care *)
IsLocalExpect(a) ==
  IF IsLocalRFC(a) THEN "true" ELSE IF Loopback(a) \/ Unspecified(a) \/ DontCareAddr(a) THEN "any" ELSE "false"

-----------------------------------------------------------------------------
(* Candidates. *)
Types == {"host", "srflx", "prflx", "relay"}
(* style: the spelling of the line.  "pion" is what pion itself writes;
   "chrome" has extension attributes (generation, ufrag, network-id), "upper"
   an upper-case transport token; tr: udp | tcp (host only, with tcptype).
   LenientStyles are further spellings that the parser the code uses
   (pion/ice UnmarshalCandidate: strings.Fields, an inserted empty foundation
   when the value starts with a blank, field 8 is the type whatever field 7
   says, everything after "raddr"/"tcptype" optional) recognises as a HOST
   candidate although they are not in the RFC 8839 grammar:
     no-foundation    "a=candidate: 1 udp ..."   empty foundation (seen in the wild)
     keyword-type     "... <port> type host"     another word where "typ" should be
     keyword-upper    "... <port> TYP host"
     tabs             fields separated by tabs
     multispace       several blanks between fields
     trailing-blank   blanks after the last field
     host-raddr       a host candidate that carries raddr/rport
     tcp-passive      tcp host candidate, tcptype passive
     tcp-unknown      tcp host candidate with an unknown tcptype word
     port-zero        port 0, component 2
   The contract is about what that parser recognises: such a line with a local
   address IS a local host candidate and must be stripped. *)
WF(typ, tr, style, addr) == [typ |-> typ, tr |-> tr, style |-> style, addr |-> addr]
LenientStyles == {"no-foundation", "keyword-type", "keyword-upper", "tabs", "multispace", "trailing-blank",
                  "host-raddr", "port-zero"}
LenientTcpStyles == {"tcp-passive", "tcp-unknown"}

MalformedKinds ==
  {"no-colon", "one-token", "seven-tokens", "port-not-a-number", "port-out-of-range",
   "priority-not-a-number", "component-not-a-number", "unknown-typ", "unknown-transport",
   "address-hostname", "address-mdns-name", "address-leading-zero", "very-long"}
MF(k) == [typ |-> "malformed", kind |-> k]

IsWF(c) == c.typ # "malformed"

BaseFate(c, lvl, keepLocal) ==
  IF lvl = "session" THEN "any"
  ELSE IF ~IsWF(c) THEN "any"
  ELSE IF c.typ # "host" THEN "keep"
  ELSE IF DontCareAddr(c.addr) THEN "any"
  ELSE IF MustStrip(c.addr) THEN (IF keepLocal THEN "any" ELSE "strip")
  ELSE "keep"

(* "keep" is judged textually; that is only fair for lines in the form pion
   itself writes.  A kept candidate in another spelling (browser-style
   extension attributes, upper-case transport) might legitimately be
   re-marshalled, so for those only the strip side is demanded. *)
Fate(c, lvl, keepLocal) ==
  LET f == BaseFate(c, lvl, keepLocal)
  IN IF f = "keep" /\ IsWF(c) /\ c.style # "pion" THEN "any" ELSE f

(* The filter as util.StripLocalAddresses performs it on one media-level
   attribute: drop iff the candidate parses, is of type host, its address is
   an IP literal and IsLocal / IsUnspecified / IsLoopback holds. *)
ImplKeeps(c) == ~(IsWF(c) /\ c.typ = "host" /\ (IsLocalRFC(c.addr) \/ Unspecified(c.addr) \/ Loopback(c.addr)))
ImplStrip(d) == [sess |-> d.sess, media |-> [i \in DOMAIN d.media |-> SelectSeq(d.media[i], ImplKeeps)]]

(* out conforms to the contract for input d *)
RECURSIVE ConformsSeq(_, _, _, _)
ConformsSeq(inp, out, lvl, keepLocal) ==
  IF inp = <<>> THEN out = <<>>
  ELSE LET f == Fate(Head(inp), lvl, keepLocal) IN
    \/ (f \in {"keep", "any"} /\ out # <<>> /\ Head(out) = Head(inp) /\ ConformsSeq(Tail(inp), Tail(out), lvl, keepLocal))
    \/ (f \in {"strip", "any"} /\ ConformsSeq(Tail(inp), out, lvl, keepLocal))
Conforms(d, o, keepLocal) ==
  /\ ConformsSeq(d.sess, o.sess, "session", keepLocal)
  /\ Len(o.media) = Len(d.media)
  /\ \A i \in DOMAIN d.media : ConformsSeq(d.media[i], o.media[i], "media", keepLocal)

NoLocalHostLeft(o) ==
  \A i \in DOMAIN o.media : \A j \in DOMAIN o.media[i] :
    LET c == o.media[i][j] IN ~(IsWF(c) /\ c.typ = "host" /\ MustStrip(c.addr))

-----------------------------------------------------------------------------
(* Case enumeration (initial states). *)
VARIABLES desc, probe,
          keepl, script, sent, st     \* call-site machine (see below)
vars == <<desc, probe, keepl, script, sent, st>>
CallIdle == keepl = FALSE /\ script = <<>> /\ sent = <<>> /\ st = "-"

NoProbe == MF("none")

(* every kind of candidate attribute *)
Kinds ==
  {WF(t, "udp", "pion", a) : t \in Types, a \in Addrs}
  \cup {WF("host", "tcp", "pion", a) : a \in Addrs}
  \cup {WF("host", "udp", s, a) : s \in {"chrome", "upper"} \cup LenientStyles, a \in Addrs}
  \cup {WF("host", "tcp", s, a) : s \in LenientTcpStyles, a \in Addrs}
  \cup {MF(k) : k \in MalformedKinds}

FillSeq == << WF("host", "udp", "pion", V4(8, 8, 8, 8)),          \* public host: kept
              WF("host", "udp", "pion", V4(192, 168, 0, 0)),      \* local host: stripped
              WF("srflx", "udp", "pion", V4(10, 0, 0, 0)) >>      \* local but not host: kept
Fillers == {FillSeq[i] : i \in 1..NFill}

Insert(s, pos, x) == SubSeq(s, 1, pos - 1) \o <<x>> \o SubSeq(s, pos, Len(s))

(* probe family: one candidate of every kind at every position among <= MaxCands
   attributes of a section, in a one- or two-section description *)
ProbeSections(k) ==
  UNION {{Insert(f, pos, k) : pos \in 1..(n + 1), f \in [1..n -> Fillers]} : n \in 0..(MaxCands - 1)}
OtherSections == {<<>>, <<FillSeq[2]>>, <<FillSeq[1], FillSeq[2]>>}

InitProbe ==
  /\ Mode = "probe" /\ CallIdle
  /\ probe \in Kinds
  /\ \E lay \in Layouts : \E s \in ProbeSections(probe) :
       \/ lay = "one" /\ desc = [sess |-> <<>>, media |-> <<s>>]
       \/ lay = "two-first" /\ \E o \in OtherSections : desc = [sess |-> <<>>, media |-> <<s, o>>]
       \/ lay = "two-second" /\ \E o \in OtherSections : desc = [sess |-> <<>>, media |-> <<o, s>>]

(* full family: every sequence over a reduced alphabet, with and without a
   session-level candidate *)
Reduced == { FillSeq[1], FillSeq[2], FillSeq[3],
             WF("relay", "udp", "pion", V4(203, 0, 113, 5)),
             WF("host", "udp", "pion", V6(0, 0, 1)),
             WF("host", "udp", "pion", M4(172, 16, 0, 0)),
             MF("seven-tokens") }
SeqsUpTo(S, n) == UNION {[1..k -> S] : k \in 0..n}
InitFull ==
  /\ Mode = "full" /\ CallIdle
  /\ probe = NoProbe
  /\ \/ \E s \in SeqsUpTo(Reduced, 3), ss \in {<<>>, <<FillSeq[2]>>, <<FillSeq[1]>>} :
          desc = [sess |-> ss, media |-> <<s>>]
     \/ \E s1 \in SeqsUpTo(Reduced, 2), s2 \in SeqsUpTo(Reduced, 2) :
          desc = [sess |-> <<>>, media |-> <<s1, s2>>]
     \/ desc = [sess |-> <<>>, media |-> <<>>]          \* no media section at all

InitTable == Mode = "table" /\ probe \in Kinds /\ desc = [sess |-> <<>>, media |-> <<>>] /\ CallIdle
(* the same table for the addresses the real code produced in this run *)
InitObserved ==
  /\ Mode = "observed" /\ desc = [sess |-> <<>>, media |-> <<>>] /\ CallIdle
  /\ probe \in {WF(t, "udp", "pion", a) : t \in Types, a \in ObservedAddrs} \cup {WF("host", "tcp", "pion", a) : a \in ObservedAddrs}

(* text that is not a description: only totality is demanded *)
RawClasses ==
  {"empty", "one-word", "json", "binary", "nul-bytes", "only-version-line", "lf-line-ends", "cr-line-ends",
   "no-final-newline", "truncated-mid-line", "truncated-after-origin", "media-before-session", "duplicate-version",
   "unknown-line-type", "line-without-equals", "very-long-line", "many-media-sections", "candidate-only",
   "blank-lines", "utf8", "empty-candidate-value", "random-corruption"}
InitRaw == Mode = "raw" /\ probe \in {MF(k) : k \in RawClasses} /\ desc = [sess |-> <<>>, media |-> <<>>] /\ CallIdle

-----------------------------------------------------------------------------
(* The call sites (BrokerChannel.Negotiate, SignalingServer.sendAnswer):
   "the description a client or proxy SENDS to the broker".  Sending goes
   through a transport that may fail; an implementation may then try again
   (the code as it is tries once; up to MaxAttempts are admitted here), and
   EVERY attempt hands a payload to the transport, i.e. lets a description
   leave the process.  The environment's behaviour is a script: a prefix of
   faults (transport-level: connection reset, timeout, EOF, refused; or an HTTP
   error status), after which the broker answers.

   EveryAttemptConforms: the payload of every attempt - the first one and every
   retry - conforms to the contract (is the filtered description unless local
   addresses are kept).  With RetryRaw = TRUE (a retry that rebuilds its body
   from the unfiltered local description) TLC refutes it: MC_callsite_raw.cfg
   must FAIL. *)
FaultKinds == {"reset", "timeout", "eof", "refused", "http500"}
Scripts == UNION {[1..k -> FaultKinds] : k \in 0..2}

CallDescs ==
  {[sess |-> <<>>, media |-> <<s>>] : s \in SeqsUpTo({FillSeq[1], FillSeq[2], FillSeq[3], WF("host", "udp", "pion", V6(64768, 0, 1))}, 2)}

InitCall ==
  /\ Mode = "callsite" /\ probe = NoProbe
  /\ desc \in CallDescs /\ keepl \in BOOLEAN /\ script \in Scripts
  /\ sent = <<>> /\ st = "ready"
InitScripts ==
  /\ Mode = "scripts" /\ probe = NoProbe /\ desc = [sess |-> <<>>, media |-> <<>>]
  /\ keepl = FALSE /\ script \in Scripts /\ sent = <<>> /\ st = "-"

Payload(k) == IF keepl THEN desc ELSE IF RetryRaw /\ k > 1 THEN desc ELSE ImplStrip(desc)

Attempt ==
  /\ st = "ready" /\ Len(sent) < MaxAttempts
  /\ sent' = Append(sent, Payload(Len(sent) + 1))
  /\ st' = (IF Len(sent) + 1 <= Len(script) THEN "fault" ELSE "answered")
  /\ UNCHANGED <<desc, probe, keepl, script>>
Retry  == st = "fault" /\ Len(sent) < MaxAttempts /\ st' = "ready" /\ UNCHANGED <<desc, probe, keepl, script, sent>>
GiveUp == st = "fault" /\ st' = "failed" /\ UNCHANGED <<desc, probe, keepl, script, sent>>
NextCall == Attempt \/ Retry \/ GiveUp

EveryAttemptConforms == \A i \in DOMAIN sent : Conforms(desc, sent[i], keepl)
NothingLocalEverSent == keepl \/ \A i \in DOMAIN sent : NoLocalHostLeft(sent[i])

Init == InitProbe \/ InitFull \/ InitTable \/ InitObserved \/ InitRaw \/ InitCall \/ InitScripts
Stutter == UNCHANGED vars
Spec == Init /\ [][Stutter]_vars
SpecCall == Init /\ [][NextCall]_vars

-----------------------------------------------------------------------------
(* Design-level checks: the filter as coded satisfies the contract. *)
ImplConforms == Mode \in {"probe", "full"} => Conforms(desc, ImplStrip(desc), FALSE)
ImplNoLocalHostLeft == Mode \in {"probe", "full"} => NoLocalHostLeft(ImplStrip(desc))
ImplIdempotent == Mode \in {"probe", "full"} => ImplStrip(ImplStrip(desc)) = ImplStrip(desc)
KeepLocalConforms == Mode \in {"probe", "full"} => Conforms(desc, desc, TRUE)
(* the contract is not vacuous: the unfiltered description does not conform
   whenever it has a local host candidate at media level *)
ContractBites ==
  Mode \in {"probe", "full"} => (Conforms(desc, desc, FALSE) <=> NoLocalHostLeft(desc))
(* the table agrees with the RFC ranges written as bit masks (what the code does) *)
MaskForm(a) ==
  IF Is4(a) THEN \/ a.o[1] = 10
                 \/ (a.o[1] = 172 /\ a.o[2] \div 16 = 1)
                 \/ (a.o[1] = 192 /\ a.o[2] = 168)
                 \/ (a.o[1] = 100 /\ a.o[2] \div 64 = 1)
                 \/ (a.o[1] = 169 /\ a.o[2] = 254)
  ELSE a.hi \div 512 = 126
RangesAreMasks == \A a \in Addrs : IsLocalRFC(a) = MaskForm(a)

-----------------------------------------------------------------------------
(* Emission. *)
Ann(c, lvl) == [c |-> c, strip |-> Fate(c, lvl, FALSE), keeplocal |-> Fate(c, lvl, TRUE),
                range |-> IF IsWF(c) THEN RangeName(c.addr) ELSE "-"]
AnnSeq(s, lvl) == [i \in DOMAIN s |-> Ann(s[i], lvl)]

Emit ==
  CASE Mode \in {"probe", "full"} ->
         PrintT(ToJson([sess |-> AnnSeq(desc.sess, "session"),
                        media |-> [i \in DOMAIN desc.media |-> AnnSeq(desc.media[i], "media")]]))
    [] Mode \in {"table", "observed"} ->
         PrintT(ToJson([c |-> probe, strip |-> Fate(probe, "media", FALSE), keeplocal |-> Fate(probe, "media", TRUE),
                        range |-> IF IsWF(probe) THEN RangeName(probe.addr) ELSE "-",
                        islocal |-> IF IsWF(probe) THEN IsLocalExpect(probe.addr) ELSE "any"]))
    [] Mode = "raw" -> PrintT(ToJson([raw |-> probe.kind, expect |-> "total"]))
    [] Mode = "scripts" -> PrintT(ToJson([faults |-> script, expect |-> "every-payload-conforms"]))
    [] OTHER -> TRUE
=============================================================================
