CONSTANTS
  Mode = "table"
  MaxCands = 1
  NFill = 1
  Layouts = {"one"}
INIT Init
NEXT Stutter
INVARIANT Emit
CHECK_DEADLOCK FALSE
