------------------------------ MODULE SdpLife ------------------------------
(* C08, "unless local addresses are explicitly kept": the setting belongs to a
   proxy LIFETIME.  One process may run several lifetimes one after the other
   (an embedder stops the proxy and starts it again with other settings:
   SnowflakeProxy.Stop / Start), and the package state of proxy/lib - the
   signaling server with its keepLocalAddresses flag - is global.  Every answer
   sent during lifetime i must obey the setting of lifetime i, whatever the
   earlier lifetimes were configured with.

   The description is abstracted to what matters here: an answer is sent
   stripped or not.  Start as coded makes a fresh signaling server from the
   lifetime's own settings (ReuseServer = FALSE).  ReuseServer = TRUE models
   the tempting optimisation "keep the server while the broker URL is the
   same": TLC refutes it (<<keep, no-keep>> on one URL) - MC_life_reuse.cfg
   must FAIL, the check uses it as a guard against a vacuous invariant.

   The initial states are the lifetime sequences the Go executor runs through
   the real Start()/Stop(); Emit prints them with what each lifetime demands
   ("stripped" | "any"). *)
EXTENDS Integers, Sequences, TLC, Json

CONSTANTS MaxLives, ReuseServer

URLs == {"u1", "u2"}
Settings == [keep : BOOLEAN, url : URLs]
None == [url |-> "-", keep |-> FALSE]

VARIABLES lives, life, phase, server, sends
vars == <<lives, life, phase, server, sends>>

Init ==
  /\ lives \in UNION {[1..n -> Settings] : n \in 1..MaxLives}
  /\ lives[1].url = "u1"
  /\ life = 0 /\ phase = "stopped" /\ server = None /\ sends = <<>>

Start ==
  /\ phase = "stopped" /\ life < Len(lives)
  /\ life' = life + 1 /\ phase' = "running"
  /\ LET s == lives[life + 1] IN
       server' = IF ReuseServer /\ server # None /\ server.url = s.url THEN server
                 ELSE [url |-> s.url, keep |-> s.keep]
  /\ UNCHANGED <<lives, sends>>

SendAnswer ==
  /\ phase = "running" /\ Len(SelectSeq(sends, LAMBDA x : x.life = life)) < 2
  /\ sends' = Append(sends, [life |-> life, url |-> server.url, stripped |-> ~server.keep])
  /\ UNCHANGED <<lives, life, phase, server>>

Stop == phase = "running" /\ phase' = "stopped" /\ UNCHANGED <<lives, life, server, sends>>

Next == Start \/ SendAnswer \/ Stop
Stutter == UNCHANGED vars
Spec == Init /\ [][Next]_vars

EachLifetimeItsOwnSetting ==
  \A i \in DOMAIN sends :
    /\ ~lives[sends[i].life].keep => sends[i].stripped
    /\ sends[i].url = lives[sends[i].life].url

Demand(s) == IF s.keep THEN "any" ELSE "stripped"
Emit == PrintT(ToJson([lives |-> [i \in DOMAIN lives |-> [keep |-> lives[i].keep, url |-> lives[i].url, expect |-> Demand(lives[i])]]]))
=============================================================================
