CONSTANTS
  Mode = "probe"
  MaxCands = 3
  NFill = 3
  Layouts = {"one", "two-first", "two-second"}
SPECIFICATION Spec
INVARIANTS ImplConforms ImplNoLocalHostLeft ImplIdempotent KeepLocalConforms ContractBites RangesAreMasks
CHECK_DEADLOCK FALSE
