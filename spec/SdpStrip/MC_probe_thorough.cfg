CONSTANTS
  Mode = "probe"
  MaxCands = 3
  NFill = 3
  Layouts = {"one", "two-first", "two-second"}
  MaxAttempts = 3
  RetryRaw = FALSE
SPECIFICATION Spec
INVARIANTS ImplConforms ImplNoLocalHostLeft ImplIdempotent KeepLocalConforms ContractBites RangesAreMasks
CHECK_DEADLOCK FALSE
