CONSTANTS
  Mode = "full"
  MaxCands = 1
  NFill = 1
  Layouts = {"one"}
  MaxAttempts = 3
  RetryRaw = FALSE
SPECIFICATION Spec
INVARIANTS ImplConforms ImplNoLocalHostLeft ImplIdempotent KeepLocalConforms ContractBites RangesAreMasks
CHECK_DEADLOCK FALSE
