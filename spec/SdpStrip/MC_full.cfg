CONSTANTS
  Mode = "full"
  MaxCands = 1
  NFill = 1
  Layouts = {"one"}
SPECIFICATION Spec
INVARIANTS ImplConforms ImplNoLocalHostLeft ImplIdempotent KeepLocalConforms ContractBites RangesAreMasks
CHECK_DEADLOCK FALSE
