CONSTANTS
  Mode = "callsite"
  MaxCands = 1
  NFill = 1
  Layouts = {"one"}
  MaxAttempts = 3
  RetryRaw = FALSE
SPECIFICATION SpecCall
INVARIANTS EveryAttemptConforms NothingLocalEverSent
CHECK_DEADLOCK FALSE
