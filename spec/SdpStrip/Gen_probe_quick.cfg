CONSTANTS
  Mode = "probe"
  MaxCands = 2
  NFill = 2
  Layouts = {"one", "two-second"}
  MaxAttempts = 3
  RetryRaw = FALSE
INIT Init
NEXT Stutter
INVARIANT Emit
CHECK_DEADLOCK FALSE
