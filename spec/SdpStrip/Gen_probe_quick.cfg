CONSTANTS
  Mode = "probe"
  MaxCands = 2
  NFill = 2
  Layouts = {"one", "two-second"}
INIT Init
NEXT Stutter
INVARIANT Emit
CHECK_DEADLOCK FALSE
