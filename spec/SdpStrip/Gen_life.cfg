CONSTANTS
  MaxLives = 2
  ReuseServer = FALSE
INIT Init
NEXT Stutter
INVARIANT Emit
CHECK_DEADLOCK FALSE
