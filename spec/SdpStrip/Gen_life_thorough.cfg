CONSTANTS
  MaxLives = 3
  ReuseServer = FALSE
INIT Init
NEXT Stutter
INVARIANT Emit
CHECK_DEADLOCK FALSE
