CONSTANTS
  Mode = "observed"
  MaxCands = 1
  NFill = 1
  Layouts = {"one"}
  MaxAttempts = 3
  RetryRaw = FALSE
INIT Init
NEXT Stutter
INVARIANT Emit
CHECK_DEADLOCK FALSE
