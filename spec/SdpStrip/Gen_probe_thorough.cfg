CONSTANTS
  Mode = "probe"
  MaxCands = 3
  NFill = 3
  Layouts = {"one", "two-first", "two-second"}
INIT Init
NEXT Stutter
INVARIANT Emit
CHECK_DEADLOCK FALSE
