CONSTANTS
  Interval = 1
  MaxStart = 1
  MaxClose = 1
  MaxWTS = 1
  MaxSelfClose = 1
  NT = 4
  NX = 2
  ErrRuns = TRUE
  AsIs_WTS = FALSE
  AllowRIF = FALSE
  KeepRet = FALSE
  Sequential = FALSE
  Urgent = TRUE
SPECIFICATION LSpec
INVARIANTS TypeOK NoOverlap LockOK
PROPERTIES CloseReturns NoLeftover
CHECK_DEADLOCK FALSE
