CONSTANTS
  Interval = 2
  MaxStart = 2
  MaxClose = 1
  MaxWTS = 0
  MaxSelfClose = 0
  NT = 6
  NX = 3
  ErrRuns = FALSE
  AsIs_WTS = FALSE
  AllowRIF = TRUE
  KeepRet = FALSE
  Sequential = TRUE
  Urgent = TRUE
SPECIFICATION Spec
INVARIANTS TypeOK NoOverlapStrict
CHECK_DEADLOCK FALSE
