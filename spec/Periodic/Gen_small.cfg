CONSTANTS
  Interval = 2
  MaxStart = 2
  MaxClose = 2
  MaxWTS = 1
  MaxSelfClose = 1
  NT = 6
  NX = 3
  ErrRuns = TRUE
  AsIs_WTS = FALSE
  AllowRIF = FALSE
  KeepRet = FALSE
  Sequential = TRUE
  Urgent = TRUE
SPECIFICATION Spec
INVARIANTS TypeOK NoOverlap LockOK QuietStopped NoLateAdmission NoZombie EndToStart Consistent OneTimer
CHECK_DEADLOCK FALSE
