------------------------------ MODULE Periodic ------------------------------
(* common/task/periodic.go: task.Periodic{Interval, Execute} with Start,
   WaitThenStart, Close, hasClosed, checkedExecute, its mutex `access`, its
   timer field and the time.AfterFunc timers it creates.  Both users in the
   repository (proxy/lib: the NAT retest task of SnowflakeProxy.Start and the
   periodic event logger) call WaitThenStart and later Close.

   Grain = the code's: every critical section is two steps (acquire `access`,
   body + release), so that TLC - not the author - decides whether a lock can
   be held across something that blocks.  Read line by line from periodic.go:

     Start            s_lock s_cs   (running? return nil : running = true)
                      -> checkedExecute -> on error e2_lock e2_cs (running = false) -> return err
     checkedExecute   h_lock h_cs   (hasClosed: return nil when !running)
                      x_begin       Execute() is entered            (event "begin")
                      x_run         inside Execute; ExecEnd = the environment lets it return nil / error
                      error: e_lock e_cs (running = false), return err
                      nil:   a_lock a_cs (!running ? return : timer = AfterFunc(Interval, checkedExecute))
     WaitThenStart    w_lock w_cs   delayed = AfterFunc(Interval, start(delayed))   [repaired code]
                      w_go          AfterFunc(Interval, Start), timer kept nowhere   [pinned code, AsIs_WTS]
     Close            c_lock c_cs   running = false; stop + forget timer (and the delayed start)
     Execute calling Close on its own task: xc_lock xc_cs inside x_run.

   Threads: user calls (kinds start / close / wts), timer callbacks (tcb =
   checkedExecute of the re-armed timer, wcb = the delayed Start of
   WaitThenStart).  Start runs Execute synchronously in the caller's
   goroutine and returns its first error - as the code does.

   Clock: explicit.  A timer is a remaining-ticks counter; Tick decrements all
   pending timers and is enabled only when none is due; FireX/FireW start the
   callback goroutine of a due timer.  Urgent = TRUE is the fake-clock
   semantics of testing/synctest (time moves only when every goroutine is
   blocked: inside Execute or gone); Urgent = FALSE lets time pass between any
   two steps outside a critical section (real time, slow goroutines).

   What the code guarantees, and what it does not (all checked below):
   * the interval is measured END-to-start: the timer is armed after Execute
     has returned (a_cs), so a run that takes d ticks makes the period
     Interval + d (EndToStart);
   * Close does not wait for a run in flight: a run admitted by hasClosed
     before Close's critical section begins and ends after Close has returned
     (h_cs and x_begin are two steps; "in flight" = admitted).  What holds is
     NoLateAdmission: once Close's critical section is over no run is admitted
     until somebody starts the task again, and no timer is armed;
   * Execute runs never overlap - PROVIDED the task is not restarted (Close,
     then Start taking effect) while a checkedExecute call of the old
     incarnation is still outstanding (from its hasClosed test to its re-arm).  Such a restart gives two chains of
     runs (two timers, only one of them reachable by Close).  Ghost flag rif;
     every property below is stated for behaviours without it; configuration
     MC_restart shows the overlap (AllowRIF) and the harness reproduces it on
     the real code as a documented limitation, not as a violation;
   * Deviation AsIs_WTS (pinned code): the timer of WaitThenStart is kept
     nowhere, so Close cannot cancel it: WaitThenStart; Close; -> after
     Interval the task starts and runs for ever although Close has returned
     (NoZombie, QuietStopped, NoLeftover fail).  Repaired in /repo (field
     `delayed`, see notes/ProxyNAT.md); AsIs_WTS = TRUE reproduces the pinned
     code for the sensitivity runs.

   Don't-care regions:
   * a stale (fired) timer left in t.timer is the same as nil (Stop on it is
     a no-op): FireX clears tref;
   * a harmless pending timer whose callback will find the task closed;
   * which of two Starts racing a failing first run wins (the code resets
     `running` twice on the error path; a concurrent Start in between returns
     nil although its chain stops - noted, not a property);
   * what Execute does besides taking time, failing, or closing its task. *)
EXTENDS Integers, FiniteSets, TLC

CONSTANTS
  Interval,      \* ticks between the end of a run and the next one
  MaxStart, MaxClose, MaxWTS, MaxSelfClose,   \* bounds on the environment's calls (guards, not constraints)
  NT,            \* thread slots
  NX,            \* slots for pending checkedExecute timers
  ErrRuns,       \* BOOLEAN: Execute may return an error
  AsIs_WTS,      \* BOOLEAN: WaitThenStart as in the pinned code (timer not cancellable)
  AllowRIF,      \* BOOLEAN: generation only - allow a restart while a run is in flight
  KeepRet,       \* BOOLEAN: keep a returned call as a thread at pc "ret" until RetStep observes it (trace
                 \* validation); FALSE: a call that returns is gone at once and calls are not numbered
  Sequential,    \* BOOLEAN: generation only - the environment acts only when all goroutines are at rest
  Urgent         \* BOOLEAN: fake-clock semantics for Tick

ASSUME Interval \in Nat \ {0} /\ NT \in Nat \ {0} /\ NX \in Nat \ {0}
ASSUME {ErrRuns, AsIs_WTS, AllowRIF, KeepRet, Sequential, Urgent} \subseteq BOOLEAN

VARIABLES
  running,     \* t.running
  lock,        \* t.access: 0 = free, i = held by thread i
  th,          \* thread table: slot -> Nil or record
  xt,          \* checkedExecute timers: slot -> -1 (free) or remaining ticks
  tref,        \* t.timer: 0 = nil (or stale), k = pending timer slot k
  wt,          \* WaitThenStart timers, one per call: [st, rem, ep]; ep = Close calls invoked before the
               \* timer was created (a Close invoked later has to cancel it)
  dref,        \* t.delayed (repaired code): 0 = nil, k = timer of the k-th WaitThenStart
  nStart, nClose, nWTS, nSelf, nOps,   \* calls made so far
  closeInv,    \* ghost: Close calls invoked so far (incl. Execute closing its own task)
  closedUpTo,  \* ghost: highest Close ordinal whose critical section is over
  quiet,       \* ghost: a Close's critical section is over and nothing has legitimately started the task since
  zombie,      \* ghost: a delayed start took effect although a Close invoked after that WaitThenStart had completed
  lateAdmit,   \* ghost: hasClosed admitted a run while quiet
  early,       \* ghost: a timer-driven run began less than Interval after the end of the previous run
  rif,         \* ghost: restart while a run of the previous incarnation was in flight
  sinceEnd     \* ghost: ticks since the last end of a run, capped at Interval

vars == <<running, lock, th, xt, tref, wt, dref, nStart, nClose, nWTS, nSelf, nOps,
          closeInv, closedUpTo, quiet, zombie, lateAdmit, early, rif, sinceEnd>>
ghosts == <<closeInv, closedUpTo, quiet, zombie, lateAdmit, early, rif, sinceEnd>>

Nil == [kind |-> "nil"]
Slots == 1..NT
XSlots == 1..NX
WSlots == 1..MaxWTS

Kinds == {"start", "close", "wts", "tcb", "wcb"}
LockPcs == {"s_lock", "h_lock", "e_lock", "e2_lock", "a_lock", "c_lock", "xc_lock", "w_lock"}
CsOf(pc) == CASE pc = "s_lock" -> "s_cs" [] pc = "h_lock" -> "h_cs" [] pc = "e_lock" -> "e_cs"
              [] pc = "e2_lock" -> "e2_cs" [] pc = "a_lock" -> "a_cs" [] pc = "c_lock" -> "c_cs"
              [] pc = "xc_lock" -> "xc_cs" [] pc = "w_lock" -> "w_cs"
CsPcs == {"s_cs", "h_cs", "e_cs", "e2_cs", "a_cs", "c_cs", "xc_cs", "w_cs"}
Pcs == LockPcs \cup CsPcs \cup {"x_begin", "x_run", "w_go", "ret"}
(* inside checkedExecute (from its hasClosed test to its end): a Start taking effect now is a restart in flight *)
FlightPcs == {"h_lock", "h_cs", "x_begin", "x_run", "xc_lock", "xc_cs", "a_lock", "a_cs", "e_lock", "e_cs", "e2_lock", "e2_cs"}
(* inside Execute *)
ExecPcs == {"x_run", "xc_lock", "xc_cs"}

(* a behaviour with a restart in flight is outside every property: it is not explored further unless AllowRIF
   (Go is a conjunct of every action: through At, CanSpawn, and explicitly in Acquire and Tick) *)
Go == AllowRIF \/ ~rif
Live(i) == th[i] # Nil
At(i, p) == Go /\ Live(i) /\ th[i].pc = p
Free == {i \in Slots : ~Live(i)}
CanSpawn == Go /\ Free # {}
NewSlot == CHOOSE i \in Free : \A j \in Free : i <= j
XFree == {k \in XSlots : xt[k] = -1}
NewX == CHOOSE k \in XFree : \A j \in XFree : k <= j

Thread(kind, pc, u, ep, w) == [kind |-> kind, pc |-> pc, u |-> u, ep |-> ep, w |-> w, err |-> FALSE]
Goto(i, p) == th' = [th EXCEPT ![i].pc = p]
Gone(i) == th' = [th EXCEPT ![i] = Nil]
Return(i, e) ==     \* a user call returns (logged by RetStep); a callback goroutine simply ends
  IF th[i].kind \in {"tcb", "wcb"} \/ ~KeepRet THEN Gone(i)
  ELSE th' = [th EXCEPT ![i].pc = "ret", ![i].err = e]

TimerDue == (\E k \in XSlots : xt[k] = 0) \/ (\E k \in WSlots : wt[k].st = "pending" /\ wt[k].rem = 0)
TimerPending == (\E k \in XSlots : xt[k] >= 0) \/ (\E k \in WSlots : wt[k].st = "pending")
Blocked(i) == IF Live(i) THEN th[i].pc = "x_run" ELSE TRUE        \* inside Execute, waiting for the environment
AtRest == lock = 0 /\ (\A i \in Slots : Blocked(i)) /\ ~TimerDue
EnvOK == Sequential => AtRest
InFlight(except) == \E j \in Slots \ {except} : Live(j) /\ th[j].pc \in FlightPcs

Ord == IF KeepRet THEN nOps + 1 ELSE 0      \* ordinal of a call (trace validation only)
Max(a, b) == IF a > b THEN a ELSE b
Min(a, b) == IF a < b THEN a ELSE b

TypeOK ==
  /\ running \in BOOLEAN /\ lock \in 0..NT
  /\ \A i \in Slots : th[i] = Nil \/ (th[i].kind \in Kinds /\ th[i].pc \in Pcs)
  /\ xt \in [XSlots -> -1..Interval] /\ tref \in 0..NX
  /\ \A k \in WSlots : wt[k].st \in {"unused", "pending", "fired", "stopped"} /\ wt[k].rem \in 0..Interval
  /\ dref \in 0..MaxWTS
  /\ {quiet, zombie, lateAdmit, early, rif} \subseteq BOOLEAN
  /\ sinceEnd \in 0..Interval

Init ==
  /\ running = FALSE /\ lock = 0
  /\ th = [i \in Slots |-> Nil]
  /\ xt = [k \in XSlots |-> -1] /\ tref = 0
  /\ wt = [k \in WSlots |-> [st |-> "unused", rem |-> 0, ep |-> 0]] /\ dref = 0
  /\ nStart = 0 /\ nClose = 0 /\ nWTS = 0 /\ nSelf = 0 /\ nOps = 0
  /\ closeInv = 0 /\ closedUpTo = 0
  /\ quiet = FALSE /\ zombie = FALSE /\ lateAdmit = FALSE /\ early = FALSE /\ rif = FALSE
  /\ sinceEnd = Interval

-----------------------------------------------------------------------------
(* environment: calls *)

CallStart ==
  /\ nStart < MaxStart /\ CanSpawn /\ EnvOK
  /\ (AllowRIF \/ ~Sequential \/ running \/ ~InFlight(0))      \* generation avoids the restart in flight
  /\ th' = [th EXCEPT ![NewSlot] = Thread("start", "s_lock", Ord, 0, 0)]
  /\ nStart' = nStart + 1 /\ nOps' = nOps + 1
  /\ UNCHANGED <<running, lock, xt, tref, wt, dref, nClose, nWTS, nSelf, ghosts>>

CallClose ==
  /\ nClose < MaxClose /\ CanSpawn /\ EnvOK
  /\ th' = [th EXCEPT ![NewSlot] = Thread("close", "c_lock", Ord, closeInv + 1, 0)]
  /\ nClose' = nClose + 1 /\ nOps' = nOps + 1 /\ closeInv' = closeInv + 1
  /\ UNCHANGED <<running, lock, xt, tref, wt, dref, nStart, nWTS, nSelf,
                 closedUpTo, quiet, zombie, lateAdmit, early, rif, sinceEnd>>

CallWTS ==
  /\ nWTS < MaxWTS /\ CanSpawn /\ EnvOK
  /\ th' = [th EXCEPT ![NewSlot] = Thread("wts", IF AsIs_WTS THEN "w_go" ELSE "w_lock", Ord, 0, nWTS + 1)]
  /\ nWTS' = nWTS + 1 /\ nOps' = nOps + 1
  /\ UNCHANGED <<running, lock, xt, tref, wt, dref, nStart, nClose, nSelf, ghosts>>

(* Execute returns: e = TRUE an error, FALSE nil *)
ExecEnd(i, e) ==
  /\ At(i, "x_run") /\ EnvOK
  /\ e \in (IF ErrRuns THEN BOOLEAN ELSE {FALSE})
  /\ th' = [th EXCEPT ![i].pc = IF e THEN "e_lock" ELSE "a_lock", ![i].err = e]
  /\ sinceEnd' = 0
  /\ UNCHANGED <<running, lock, xt, tref, wt, dref, nStart, nClose, nWTS, nSelf, nOps,
                 closeInv, closedUpTo, quiet, zombie, lateAdmit, early, rif>>

(* Execute calls Close on its own task *)
SelfClose(i) ==
  /\ At(i, "x_run") /\ nSelf < MaxSelfClose /\ EnvOK
  /\ th' = [th EXCEPT ![i].pc = "xc_lock"]
  /\ nSelf' = nSelf + 1 /\ closeInv' = closeInv + 1
  /\ UNCHANGED <<running, lock, xt, tref, wt, dref, nStart, nClose, nWTS, nOps,
                 closedUpTo, quiet, zombie, lateAdmit, early, rif, sinceEnd>>

-----------------------------------------------------------------------------
(* code steps *)

Acquire(i) ==
  /\ Go /\ Live(i) /\ th[i].pc \in LockPcs /\ lock = 0
  /\ lock' = i /\ Goto(i, CsOf(th[i].pc))
  /\ UNCHANGED <<running, xt, tref, wt, dref, nStart, nClose, nWTS, nSelf, nOps, ghosts>>

(* Start: if t.running { return nil }; t.running = true.  A delayed start of the
   repaired code first tests that Close has not cancelled it. *)
StartCS(i) ==
  /\ At(i, "s_cs") /\ lock = i /\ lock' = 0
  /\ LET delayed == th[i].kind = "wcb" /\ ~AsIs_WTS
         cancelled == delayed /\ dref # th[i].w
         legit == th[i].kind = "start" \/ th[i].ep >= closedUpTo
     IN IF cancelled
        THEN /\ Gone(i)
             /\ UNCHANGED <<running, dref, quiet, zombie, rif>>
        ELSE /\ dref' = (IF delayed THEN 0 ELSE dref)
             /\ IF running
                THEN /\ Return(i, FALSE)
                     /\ UNCHANGED <<running, quiet, zombie, rif>>
                ELSE /\ running' = TRUE
                     /\ Goto(i, "h_lock")
                     /\ quiet' = (IF legit THEN FALSE ELSE quiet)
                     /\ zombie' = (zombie \/ ~legit)
                     /\ rif' = (rif \/ InFlight(i))
  /\ UNCHANGED <<xt, tref, wt, nStart, nClose, nWTS, nSelf, nOps, closeInv, closedUpTo, lateAdmit, early, sinceEnd>>

(* hasClosed *)
HasClosedCS(i) ==
  /\ At(i, "h_cs") /\ lock = i /\ lock' = 0
  /\ IF running
     THEN Goto(i, "x_begin") /\ lateAdmit' = (lateAdmit \/ quiet)
     ELSE Return(i, FALSE) /\ UNCHANGED lateAdmit
  /\ UNCHANGED <<running, xt, tref, wt, dref, nStart, nClose, nWTS, nSelf, nOps,
                 closeInv, closedUpTo, quiet, zombie, early, rif, sinceEnd>>

ExecBegin(i) ==
  /\ At(i, "x_begin")
  /\ Goto(i, "x_run")
  /\ early' = (early \/ (th[i].kind = "tcb" /\ ~rif /\ sinceEnd < Interval))
  /\ UNCHANGED <<running, lock, xt, tref, wt, dref, nStart, nClose, nWTS, nSelf, nOps,
                 closeInv, closedUpTo, quiet, zombie, lateAdmit, rif, sinceEnd>>

(* error path of checkedExecute: running = false *)
ErrCS(i) ==
  /\ At(i, "e_cs") /\ lock = i /\ lock' = 0
  /\ running' = FALSE
  /\ (IF th[i].kind = "tcb" THEN Gone(i) ELSE Goto(i, "e2_lock"))
  /\ UNCHANGED <<xt, tref, wt, dref, nStart, nClose, nWTS, nSelf, nOps, ghosts>>

(* error path of Start: running = false once more, return the error *)
Err2CS(i) ==
  /\ At(i, "e2_cs") /\ lock = i /\ lock' = 0
  /\ running' = FALSE
  /\ Return(i, TRUE)
  /\ UNCHANGED <<xt, tref, wt, dref, nStart, nClose, nWTS, nSelf, nOps, ghosts>>

(* re-arm: if !t.running { return nil }; t.timer = time.AfterFunc(t.Interval, checkedExecute) *)
ArmCS(i) ==
  /\ At(i, "a_cs") /\ lock = i /\ lock' = 0
  /\ IF running
     THEN /\ XFree # {}
          /\ xt' = [xt EXCEPT ![NewX] = Interval]
          /\ tref' = NewX
     ELSE UNCHANGED <<xt, tref>>
  /\ Return(i, FALSE)
  /\ UNCHANGED <<running, wt, dref, nStart, nClose, nWTS, nSelf, nOps, ghosts>>

(* Close (also when Execute closes its own task) *)
CloseBody(ord) ==
  /\ running' = FALSE
  /\ xt' = (IF tref # 0 THEN [xt EXCEPT ![tref] = -1] ELSE xt)
  /\ tref' = 0
  /\ IF ~AsIs_WTS /\ dref # 0
     THEN /\ wt' = [wt EXCEPT ![dref].st = IF wt[dref].st = "pending" THEN "stopped" ELSE wt[dref].st]
          /\ dref' = 0
     ELSE UNCHANGED <<wt, dref>>
  /\ quiet' = TRUE
  /\ closedUpTo' = Max(closedUpTo, ord)

CloseCS(i) ==
  /\ At(i, "c_cs") /\ lock = i /\ lock' = 0
  /\ CloseBody(th[i].ep)
  /\ Return(i, FALSE)
  /\ UNCHANGED <<nStart, nClose, nWTS, nSelf, nOps, closeInv, zombie, lateAdmit, early, rif, sinceEnd>>

SelfCloseCS(i) ==
  /\ At(i, "xc_cs") /\ lock = i /\ lock' = 0
  /\ CloseBody(closeInv)
  /\ Goto(i, "x_run")
  /\ UNCHANGED <<nStart, nClose, nWTS, nSelf, nOps, closeInv, zombie, lateAdmit, early, rif, sinceEnd>>

(* WaitThenStart, repaired: under the lock; one delayed start at a time *)
WaitCS(i) ==
  /\ At(i, "w_cs") /\ lock = i /\ lock' = 0
  /\ IF dref # 0
     THEN UNCHANGED <<wt, dref>>
     ELSE /\ wt' = [wt EXCEPT ![th[i].w] = [st |-> "pending", rem |-> Interval, ep |-> closeInv]]
          /\ dref' = th[i].w
  /\ Return(i, FALSE)
  /\ UNCHANGED <<running, xt, tref, nStart, nClose, nWTS, nSelf, nOps, ghosts>>

(* WaitThenStart, pinned: time.AfterFunc(t.Interval, func() { t.Start() }) and nothing else *)
WaitGo(i) ==
  /\ At(i, "w_go")
  /\ wt' = [wt EXCEPT ![th[i].w] = [st |-> "pending", rem |-> Interval, ep |-> closeInv]]
  /\ Return(i, FALSE)
  /\ UNCHANGED <<running, lock, xt, tref, dref, nStart, nClose, nWTS, nSelf, nOps, ghosts>>

(* the call's return is observed (trace: event "ret") *)
RetStep(i) ==
  /\ At(i, "ret")
  /\ Gone(i)
  /\ UNCHANGED <<running, lock, xt, tref, wt, dref, nStart, nClose, nWTS, nSelf, nOps, ghosts>>

Step(i) == Acquire(i) \/ StartCS(i) \/ HasClosedCS(i) \/ ExecBegin(i) \/ ErrCS(i) \/ Err2CS(i)
           \/ ArmCS(i) \/ CloseCS(i) \/ SelfCloseCS(i) \/ WaitCS(i) \/ WaitGo(i)

-----------------------------------------------------------------------------
(* timers and clock *)

FireX(k) ==
  /\ k \in XSlots /\ xt[k] = 0 /\ CanSpawn
  /\ xt' = [xt EXCEPT ![k] = -1]
  /\ tref' = (IF tref = k THEN 0 ELSE tref)
  /\ th' = [th EXCEPT ![NewSlot] = Thread("tcb", "h_lock", 0, 0, 0)]
  /\ UNCHANGED <<running, lock, wt, dref, nStart, nClose, nWTS, nSelf, nOps, ghosts>>

FireW(k) ==
  /\ k \in WSlots /\ wt[k].st = "pending" /\ wt[k].rem = 0 /\ CanSpawn
  /\ wt' = [wt EXCEPT ![k].st = "fired"]
  /\ th' = [th EXCEPT ![NewSlot] = Thread("wcb", "s_lock", 0, wt[k].ep, k)]
  /\ UNCHANGED <<running, lock, xt, tref, dref, nStart, nClose, nWTS, nSelf, nOps, ghosts>>

Tick ==
  /\ Go /\ TimerPending /\ ~TimerDue /\ lock = 0
  /\ (Urgent => \A i \in Slots : Blocked(i))
  /\ xt' = [k \in XSlots |-> IF xt[k] > 0 THEN xt[k] - 1 ELSE xt[k]]
  /\ wt' = [k \in WSlots |-> IF wt[k].st = "pending" THEN [wt[k] EXCEPT !.rem = wt[k].rem - 1] ELSE wt[k]]
  /\ sinceEnd' = Min(sinceEnd + 1, Interval)
  /\ UNCHANGED <<running, lock, th, tref, dref, nStart, nClose, nWTS, nSelf, nOps,
                 closeInv, closedUpTo, quiet, zombie, lateAdmit, early, rif>>

EnvNext == CallStart \/ CallClose \/ CallWTS \/ (\E i \in Slots : (\E e \in BOOLEAN : ExecEnd(i, e)) \/ SelfClose(i))
CodeNext == (\E i \in Slots : Step(i) \/ RetStep(i)) \/ (\E k \in XSlots : FireX(k)) \/ (\E k \in WSlots : FireW(k))
Next == EnvNext \/ CodeNext \/ Tick

Spec == Init /\ [][Next]_vars

(* one WF per goroutine step, per timer, for the clock and - liveness only -
   for the end of a run in flight; none for the environment's calls.  The
   acquisition of `access` is strongly fair: Go's sync.Mutex hands the lock to
   a waiter that has starved for 1 ms (starvation mode), and with weak
   fairness alone the endless chain of timer callbacks could overtake a
   waiting Close for ever. *)
Fair ==
  /\ \A i \in Slots : SF_vars(Acquire(i)) /\ WF_vars(Step(i)) /\ WF_vars(RetStep(i)) /\ WF_vars(\E e \in BOOLEAN : ExecEnd(i, e))
  /\ \A k \in XSlots : WF_vars(FireX(k))
  /\ \A k \in WSlots : WF_vars(FireW(k))
  /\ WF_vars(Tick)
LSpec == Spec /\ Fair

-----------------------------------------------------------------------------
(* properties *)

InExec == {i \in Slots : Live(i) /\ th[i].pc \in ExecPcs}

(* Execute runs never overlap (no restart in flight) *)
NoOverlap == rif \/ Cardinality(InExec) <= 1
(* the same without the proviso: violated by MC_restart *)
NoOverlapStrict == Cardinality(InExec) <= 1

(* the mutex: Execute is never called, and nothing blocks, with `access` held *)
LockOK == lock # 0 => (Live(lock) /\ th[lock].pc \in CsPcs)

(* once a Close's critical section is over: the task is stopped, no timer of
   it is reachable, and hasClosed admits no run - until a legitimate start *)
QuietStopped == rif \/ (quiet => (~running /\ tref = 0
                                  /\ (\A k \in XSlots : xt[k] = -1)
                                  /\ (~AsIs_WTS => \A k \in WSlots : wt[k].st = "pending" => wt[k].ep >= closedUpTo)))
NoLateAdmission == rif \/ ~lateAdmit
(* a delayed start never outlives a Close that was called after WaitThenStart had returned *)
NoZombie == ~zombie
(* the interval is measured from the END of a run *)
EndToStart == ~early
(* at rest the bookkeeping is consistent: running <=> exactly the re-arm timer is pending, or a run is in flight *)
Consistent == rif \/ (AtRest /\ InExec = {} => (running <=> (tref # 0 /\ xt[tref] > 0)))
OneTimer == rif \/ Cardinality({k \in XSlots : xt[k] >= 0}) <= 1

(* Close is idempotent: a Close on a closed task changes nothing of the task *)
Closed == ~running /\ tref = 0 /\ dref = 0
CloseIdempotent ==
  [][\A i \in Slots : (At(i, "c_cs") /\ Closed /\ CloseCS(i)) => UNCHANGED <<running, xt, tref, wt, dref>>]_vars

(* liveness *)
CloseReturns ==
  \A i \in Slots :
    /\ (Live(i) /\ th[i].kind = "close" /\ th[i].pc # "ret") ~> (~Live(i) \/ th[i].pc = "ret" \/ ~Go)
    /\ (Live(i) /\ th[i].pc \in {"xc_lock", "xc_cs"}) ~> ((Live(i) /\ th[i].pc = "x_run") \/ ~Go)
Clean == ~TimerPending /\ \A i \in Slots : ~Live(i)
(* nothing is left behind: if the task stays closed, every timer and goroutine eventually goes away *)
NoLeftover == (<>[](quiet /\ ~rif)) => <>[]Clean
=============================================================================
