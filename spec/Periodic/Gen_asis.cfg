CONSTANTS
  Interval = 2
  MaxStart = 1
  MaxClose = 1
  MaxWTS = 1
  MaxSelfClose = 0
  NT = 6
  NX = 3
  ErrRuns = TRUE
  AsIs_WTS = TRUE
  AllowRIF = FALSE
  KeepRet = FALSE
  Sequential = TRUE
  Urgent = TRUE
SPECIFICATION Spec
INVARIANTS TypeOK NoOverlap LockOK QuietStopped NoLateAdmission NoZombie EndToStart Consistent OneTimer
CHECK_DEADLOCK FALSE
