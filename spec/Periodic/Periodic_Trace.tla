--------------------------- MODULE Periodic_Trace ---------------------------
(* Trace specification for Periodic (DESIGN 2.2 item 4).

   traces.ndjson: one JSON object per line, recorded from the REAL
   task.Periodic by harness/inpkg/common_task/periodic_verif_test.go inside a
   testing/synctest bubble (fake clock; one tick = one second of fake time,
   Interval = the constant):
       {"id": n, "events": [e1, e2, ...]}
   Events, each with "now" = fake ticks since the start of the trace:
     call  {op: "start"|"close"|"wts", u}     logged by the calling goroutine BEFORE the call
     ret   {op, u, err}                        logged by the same goroutine AFTER the call returned
     begin {by}    first statement of Execute; by = u of the Start call whose goroutine runs it, 0 = a timer goroutine
     end   {by, err}  last statement of Execute, about to return nil / an error
     scall {by}    Execute calls Close on its own task;   sret {by}   that Close returned
     obs   {running}  taken by the driver when every goroutine of the bubble is durably blocked
                      (synctest.Wait): !hasClosed()
   The log order is the order of the log calls (one mutex).  Everything the
   code does between two log calls is a silent step here: lock acquisitions,
   critical sections, timers firing, clock ticks.  A call is logged before it
   has any effect and a return after all its effects, "begin" after the
   admission by hasClosed and "end" before the re-arm, so the order of the log
   never contradicts the order of the steps it witnesses.

   Time is pinned: a silent Tick is allowed only while the model clock is
   behind the next event's "now", an event is matched only at its own "now",
   and Tick itself has the fake-clock guard (Urgent = TRUE in the trace
   configurations): a run that begins one tick late or early is unexplained.

   Every trace is a separate initial state; acceptance by the high-water mark
   of l per trace (TLCSet/TLCGet, -workers 1); the POSTCONDITION prints the
   rejected traces.  The state invariants of Periodic are checked on every
   state of every explaining behaviour. *)
EXTENDS Periodic, Sequences, Json, TLCExt

VARIABLES tr, l, now

tvars == <<vars, tr, l, now>>

Traces == ndJsonDeserialize("traces.ndjson")
NTr == Len(Traces)
Events(t) == Traces[t].events

TInit == tr \in 1..NTr /\ l = 1 /\ now = 0 /\ Init /\ TLCSet(tr, 1)

HasNext == l <= Len(Events(tr))
E == Events(tr)[l]
IsEv(n) == HasNext /\ E.ev = n /\ E.now = now
Adv == l' = l + 1 /\ UNCHANGED <<tr, now>>
Same == UNCHANGED <<tr, l, now>>

OpKind(op) == op      \* "start" | "close" | "wts" are the thread kinds too

TCall ==
  /\ IsEv("call") /\ E.u = nOps + 1
  /\ \/ E.op = "start" /\ CallStart
     \/ E.op = "close" /\ CallClose
     \/ E.op = "wts" /\ CallWTS
  /\ Adv

TRet ==
  /\ IsEv("ret")
  /\ \E i \in Slots : /\ At(i, "ret") /\ th[i].kind = E.op /\ th[i].u = E.u /\ th[i].err = E.err
                      /\ RetStep(i)
  /\ Adv

By(i, by) == IF by = 0 THEN th[i].kind \in {"tcb", "wcb"} ELSE (th[i].kind = "start" /\ th[i].u = by)

TBegin == IsEv("begin") /\ (\E i \in Slots : At(i, "x_begin") /\ By(i, E.by) /\ ExecBegin(i)) /\ Adv
TEnd == IsEv("end") /\ (\E i \in Slots : At(i, "x_run") /\ By(i, E.by) /\ ExecEnd(i, E.err)) /\ Adv
TSCall == IsEv("scall") /\ (\E i \in Slots : At(i, "x_run") /\ By(i, E.by) /\ SelfClose(i)) /\ Adv
(* the self-Close has returned: its critical section is over and the goroutine is back in Execute *)
TSRet == IsEv("sret") /\ (\E i \in Slots : At(i, "x_run") /\ By(i, E.by)) /\ UNCHANGED vars /\ Adv

TObs == IsEv("obs") /\ AtRest /\ running = E.running /\ UNCHANGED vars /\ Adv

(* silent: code steps and timers any time; the clock only towards the next event *)
TSilent == HasNext /\ ((\E i \in Slots : Step(i)) \/ (\E k \in XSlots : FireX(k)) \/ (\E k \in WSlots : FireW(k))) /\ Same
TTick == HasNext /\ now < E.now /\ Tick /\ now' = now + 1 /\ UNCHANGED <<tr, l>>
(* a tick with no pending timer changes nothing of the task (Tick is disabled then) *)
TIdleTick == HasNext /\ now < E.now /\ ~TimerPending /\ (\A i \in Slots : Blocked(i)) /\ lock = 0
             /\ now' = now + 1 /\ UNCHANGED <<vars, tr, l>>

TNext == TCall \/ TRet \/ TBegin \/ TEnd \/ TSCall \/ TSRet \/ TObs \/ TSilent \/ TTick \/ TIdleTick

TSpec == TInit /\ [][TNext]_tvars

Mark == (IF l > TLCGet(tr) THEN TLCSet(tr, l) ELSE TRUE)
Rejected == {t \in 1..NTr : TLCGet(t) # Len(Events(t)) + 1}
Post == PrintT(ToJson([nt |-> NTr, rejected |-> {<<Traces[t].id, TLCGet(t)>> : t \in Rejected}]))
=============================================================================
