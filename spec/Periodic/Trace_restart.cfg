CONSTANTS
  Interval = 2
  MaxStart = 17
  MaxClose = 17
  MaxWTS = 17
  MaxSelfClose = 6
  NT = 14
  NX = 4
  ErrRuns = TRUE
  AsIs_WTS = FALSE
  AllowRIF = TRUE
  KeepRet = TRUE
  Sequential = FALSE
  Urgent = TRUE
SPECIFICATION TSpec
CONSTRAINT Mark
POSTCONDITION Post
INVARIANTS NoOverlapStrict
CHECK_DEADLOCK FALSE
