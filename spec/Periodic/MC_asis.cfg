CONSTANTS
  Interval = 2
  MaxStart = 1
  MaxClose = 1
  MaxWTS = 1
  MaxSelfClose = 0
  NT = 6
  NX = 3
  ErrRuns = FALSE
  AsIs_WTS = TRUE
  AllowRIF = FALSE
  KeepRet = FALSE
  Sequential = FALSE
  Urgent = FALSE
SPECIFICATION Spec
INVARIANTS TypeOK NoOverlap LockOK QuietStopped NoLateAdmission NoZombie EndToStart Consistent OneTimer
PROPERTIES CloseIdempotent
CHECK_DEADLOCK FALSE
