CONSTANTS
  Mode = "dec"
  DataLens = {0, 1, 2, 3, 100}
  MaxPad = 4
  MaxSlash = 3
INIT Init
NEXT Stutter
INVARIANTS InGrammar Emit
CHECK_DEADLOCK FALSE
