CONSTANTS
  Mode = "dec"
  DataLens = {0, 1, 2, 3, 4, 100, 1500}
  MaxPad = 5
  MaxSlash = 3
INIT Init
NEXT Stutter
INVARIANTS InGrammar Emit
CHECK_DEADLOCK FALSE
