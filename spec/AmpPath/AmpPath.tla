------------------------------ MODULE AmpPath ------------------------------
(* common/amp/path.go: a client poll message carried in the suffix of a URL
   path,   0 <padding, may contain slashes> / <base64url(data), no padding>.

   A path is a sequence of tokens (base64 itself is left uninterpreted: B(d)
   stands for "the unpadded URL-safe base64 of d", supplied by the Go
   standard library in the driver, and by the real EncodePath in the
   round-trip cases):
     [k |-> "V", c |-> class]   the first character: class "zero" is 0, the
                                others are characters that are not 0
     [k |-> "S"]                a slash
     [k |-> "J", c |-> class]   a run of non-slash padding bytes
     [k |-> "B", d |-> data]    base64url(data), data non-empty
     [k |-> "X", c |-> class]   a run of non-slash bytes that is not base64url
   Contract  Decode(path): what follows the LAST slash, decoded; errors for a
   missing or unknown format indicator, for a path without any slash and for
   a tail that is not base64url.
   TLC checks  Decode(Encode(d, pad)) = d  for every data class and every
   padding (0..MaxSlash extra slashes, padding runs between them), and emits
   every path of the grammar with the expected result.

   DON'T-CARE: which error is reported is not part of the property; the
   driver only distinguishes data from error (the class is printed for the
   notes).  Non-canonical base64 (non-zero trailing bits, embedded CR/LF,
   which encoding/base64 skips) is outside the grammar. *)
EXTENDS Integers, Sequences, FiniteSets, TLC, Json

CONSTANTS Mode,       \* "enc": (data, padding) pairs with the round-trip invariant; "dec": all paths
          DataLens,   \* lengths of the data classes
          MaxPad,     \* maximum number of tokens of a padding
          MaxSlash    \* maximum number of slashes inside a padding

Fills == {"zero", "ff", "slash", "rand"}       \* 0x00.., 0xff.. (uses - and _), '/' bytes, seeded random
Datas == [len : DataLens, fill : Fills]
NoData == [len |-> 0, fill |-> "zero"]

VerClasses == {"zero", "one", "letter", "slash", "percent", "high", "space"}
JunkClasses == {"b64url", "dots", "equals", "pct"}     \* lgWHcwhXFjUm  ..  a=b  %2F
BadClasses == {"plus", "padded", "len1", "space", "pct", "high", "star"}

V(c) == [k |-> "V", c |-> c]
S == [k |-> "S"]
J(c) == [k |-> "J", c |-> c]
B(d) == [k |-> "B", d |-> d]
X(c) == [k |-> "X", c |-> c]

(* paddings: tokens S and J, no two J adjacent (they would be one run) *)
Pads == {p \in UNION {[1..n -> {S} \cup {J(c) : c \in JunkClasses}] : n \in 0..MaxPad} :
           /\ Cardinality({i \in DOMAIN p : p[i] = S}) <= MaxSlash
           /\ \A i \in 1..(Len(p) - 1) : ~(p[i].k = "J" /\ p[i + 1].k = "J")}

DataTok(d) == IF d.len = 0 THEN <<>> ELSE <<B(d)>>

(* the encoder: version, padding, the final slash, the data *)
Encode(d, pad) == <<V("zero")>> \o pad \o <<S>> \o DataTok(d)

(* the contract of decoding *)
Ok(d) == [class |-> "data", d |-> d]
Err(c) == [class |-> c, d |-> NoData]
LastSlash(p) == LET I == {i \in DOMAIN p : p[i] = S} IN IF I = {} THEN 0 ELSE CHOOSE i \in I : \A j \in I : j <= i
Decode(p) ==
  IF p = <<>> THEN Err("no-indicator")
  ELSE IF p[1] # V("zero") THEN Err("unknown-indicator")
  ELSE LET ls == LastSlash(p) IN
    IF ls = 0 THEN Err("no-data")
    ELSE LET tl == SubSeq(p, ls + 1, Len(p)) IN
      IF tl = <<>> THEN Ok(NoData)
      ELSE IF Len(tl) = 1 /\ tl[1].k = "B" THEN Ok(tl[1].d)
      ELSE IF \E i \in DOMAIN tl : tl[i].k = "X" THEN Err("bad-base64")
      ELSE Err("outside-grammar")

(* the grammar of decoder inputs: nothing; a first character alone or followed
   by one run without any slash; or first character, padding, slash, tail *)
Tails == {<<>>} \cup {<<B(d)>> : d \in {x \in Datas : x.len > 0}} \cup {<<X(c)>> : c \in BadClasses}
Paths ==
  {<<>>}
  \cup {<<V(c)>> : c \in VerClasses}
  \cup {<<V(c), t>> : c \in VerClasses, t \in {J(j) : j \in JunkClasses} \cup {B(d) : d \in {x \in Datas : x.len > 0}}}
  \cup {<<V("zero")>> \o pad \o <<S>> \o tl : pad \in Pads, tl \in Tails}
  \* after a first character other than 0 nothing matters: short paddings suffice
  \cup {<<V(c)>> \o pad \o <<S>> \o tl : c \in VerClasses \ {"zero"}, pad \in {q \in Pads : Len(q) <= 1}, tl \in Tails}

VARIABLES cs
vars == <<cs>>

Init ==
  \/ Mode = "enc" /\ \E d \in Datas, pad \in Pads : (d.len = 0 => d.fill = "zero") /\ cs = [d |-> d, pad |-> pad]
  \/ Mode = "dec" /\ \E p \in Paths : cs = [path |-> p]
Stutter == UNCHANGED vars

(* C11, path clause: the poll decodes to the same bytes whatever padding precedes it *)
RoundTrip == Mode = "enc" => Decode(Encode(cs.d, cs.pad)) = Ok(cs.d)
(* what the encoder produces is inside the decoder's grammar, and the padding never matters *)
EncodeInGrammar == Mode = "enc" => Decode(Encode(cs.d, cs.pad)).class # "outside-grammar"
PaddingIrrelevant == Mode = "enc" => \A q \in {<<>>, <<S>>, <<J("b64url")>>} : Decode(Encode(cs.d, q)) = Decode(Encode(cs.d, cs.pad))
InGrammar == Mode = "dec" => Decode(cs.path).class # "outside-grammar"

Emit ==
  IF Mode = "enc" THEN PrintT(ToJson([d |-> cs.d, pad |-> cs.pad, path |-> Encode(cs.d, cs.pad), expect |-> Decode(Encode(cs.d, cs.pad))]))
  ELSE PrintT(ToJson([path |-> cs.path, expect |-> Decode(cs.path)]))
=============================================================================
