CONSTANTS
  Mode = "enc"
  DataLens = {0, 1, 2, 3, 4, 5, 100, 1500, 5000}
  MaxPad = 5
  MaxSlash = 3
INIT Init
NEXT Stutter
INVARIANTS RoundTrip EncodeInGrammar PaddingIrrelevant Emit
CHECK_DEADLOCK FALSE
