CONSTANTS
  Mode = "enc"
  DataLens = {0, 1, 2, 3, 100, 1500}
  MaxPad = 4
  MaxSlash = 3
INIT Init
NEXT Stutter
INVARIANTS RoundTrip EncodeInGrammar PaddingIrrelevant Emit
CHECK_DEADLOCK FALSE
