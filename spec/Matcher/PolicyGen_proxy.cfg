CONSTANTS
  RuleAlphabet = {"^", "$", "a", "."}
  HostAlphabet = {"a", "b", "."}
  MaxRule = 2
  MaxHost = 3
  Mode = "policy"
  PMode = "proxy"
  ProxyPats <- DefaultProxyPats
INIT PInit
NEXT PStutter
INVARIANT PEmit
CHECK_DEADLOCK FALSE
