CONSTANTS
  RuleAlphabet = {"^", "$", "a", "."}
  HostAlphabet = {"a", ".", "A", " "}
  MaxRule = 2
  MaxHost = 3
  Mode = "policy"
  PMode = "broker"
  ProxyPats <- DefaultProxyPats
  CacheKey = "none"
  HistRule = 1
  HistLen = 3
  AllowedAlphabet <- WideAllowedAlphabet
  PollAlphabet <- CaseBlankAlphabet
SPECIFICATION PSpec
INVARIANTS HistoryIndependent RejectedNeverRegistered ExplicitReject RegisteredAcceptsAllowed
CHECK_DEADLOCK FALSE
