---------------------------- MODULE RelayPolicy ----------------------------
(* C06, second and third sentence: where the relay-name matcher is applied.

   Part "broker" (broker/ipc.go ProxyPolls, broker/broker.go
   CheckProxyRelayPattern).  A poll carries an AcceptedRelayPattern or none
   (legacy proxy: the operator's presumed pattern stands in for it).  The
   broker is configured with an allowed pattern and handles a sequence of
   polls.  The contract is

     MustReject(allowed, presumed, pp) ==
         the effective pattern of the poll is NOT a superset of `allowed`

   ("superset" as judged by Matcher!IsSupersetOf; Matcher!JudgedIsSemantic
   shows that over all strings this is the semantic relation, so the property
   sentence has one meaning).  The poll handler is modelled as a machine
   idle -> arrived -> (rejected | registered) -> idle over a sequence of polls
   on one context and TLC checks

     HistoryIndependent        the verdict on a poll depends on (allowed,
                               presumed, poll) only, not on earlier polls
     RejectedNeverRegistered   a poll that must be rejected is never registered
     ExplicitReject            and its response is "incorrect relay pattern"
     RegisteredAcceptsAllowed  (consequence of the LAW) a registered proxy
                               accepts every hostname the allowed pattern accepts

   The property demands nothing of polls that need not be rejected: the
   machine registers them (that is what the code does) and the emitted case
   says so in `reject = FALSE`, but an implementation that rejected more would
   not violate C06 (the check reports such a divergence as "no verdict").

   Part "proxy" (proxy/lib/snowflake.go runSession).  The broker (possibly
   misbehaving) returns a relay URL; the proxy may only dial it when the
   hostname of the URL is a member of the proxy's own pattern and the scheme is
   wss (or non-TLS relays were explicitly allowed).  URLs are records
   [form, scheme, user, host, port]; Hostname/SchemeOf model what Go's net/url
   reports for them.  Forbidden(..) is the contract (the proxy must not dial),
   Accepted(..) is the decision runSession takes as written; TLC checks
   AcceptedNeverForbidden.  Don't-care regions (emitted with dontcare = TRUE):
     * a host that is in the pattern only after case folding (DNS names are
       case-insensitive; the code compares bytes and refuses - the safe side);
   and the empty relay URL is outside the property (nothing broker-supplied is
   dialled: the proxy falls back to its own configured relay). *)
EXTENDS Matcher

CONSTANTS
  PMode,       \* "broker" (one poll per context) | "history" (a sequence of polls on one context) | "proxy"
  ProxyPats,   \* patterns used for the proxy cases (set of rules)
  CacheKey,    \* "none" | "effective" | "raw": what a verdict memo of the broker is keyed by (see below)
  HistRule,    \* history mode: maximum length of the configured / polled rules
  HistLen,     \* history mode: number of polls processed by one context
  AllowedAlphabet, \* characters of the broker's allowed pattern
  PollAlphabet     \* characters of the pattern a poll carries: the rule alphabet plus an upper-case letter
                   \* that lower-cases to a rule letter ("A") and blanks (" ", tab).  The pattern is the
                   \* proxy's consent and the proxy enforces it byte for byte (namematcher is case- and
                   \* blank-sensitive, see Law_case.cfg), so MustReject is computed on the RAW string:
                   \* a broker that judges a tidied-up copy (lower-cased, trimmed) under-rejects.

VARIABLES
  allowed, presumed,              \* broker configuration
  todo, pp,                       \* polls still to arrive on this context; the poll being handled
  pc, resp,                       \* poll handler machine
  hist,                           \* what happened so far: sequence of [poll, rejected, resp]
  cache,                          \* verdict memo: set of [k |-> key, v |-> rejected?]
  pattern, nontls, url            \* proxy case

allvars == <<p, q, h, ph, allowed, presumed, todo, pp, pc, resp, hist, cache, pattern, nontls, url>>
bconst == <<allowed, presumed, pattern, nontls, url, p, q, h, ph>>

-----------------------------------------------------------------------------
(* Broker.  One BrokerContext handles a SEQUENCE of polls.  The property's
   second sentence quantifies over histories: whatever was polled before, a
   poll whose effective pattern is not a superset of the allowed pattern is
   rejected.  So the verdict on a poll must be a function of
   (allowed, presumed, poll) only - HistoryIndependent.

   The code as it is keeps no state between polls (CacheKey = "none").  A memo
   of verdicts is an admissible optimisation exactly when its key determines
   the effective pattern (CacheKey = "effective"); keyed by the raw pattern
   string of the poll (CacheKey = "raw") a legacy poll - no pattern, raw "" -
   shares its entry with a poll that sends the empty pattern, and TLC finds the
   history <<sends "", legacy>> that admits a legacy proxy whose presumed
   pattern is not a superset (PolicyMC_history_raw.cfg must FAIL; the check
   uses it as a guard against a vacuous invariant). *)

NoPoll == [present |-> FALSE, value |-> <<"-">>]
PollsOver(R) == {[present |-> FALSE, value |-> <<>>]} \cup {[present |-> TRUE, value |-> r] : r \in R}
(* alphabets for the configurations (a configuration file cannot write a tab) *)
PlainAlphabet == {"^", "$", "a", "."}
CaseBlankAlphabet == {"^", "$", "a", ".", "A", " ", "\t"}
WideAllowedAlphabet == {"^", "$", "a", ".", "A", " "}

PollPatterns == PollsOver(Strs(PollAlphabet, MaxRule))
AllowedRules == Strs(AllowedAlphabet, MaxRule)
HistRules == Strs(RuleAlphabet, HistRule)
HistPolls == PollsOver(Strs(PollAlphabet, HistRule))

Effective(pres, x) == IF x.present THEN x.value ELSE pres

MustReject(allw, pres, x) == ~IsSupersetOf(New(Effective(pres, x)), New(allw))

NoURL == [form |-> "empty", scheme |-> "", user |-> "", host |-> <<>>, port |-> "", text |-> ""]

BrokerIdle ==
  /\ pp = NoPoll /\ pc = "idle" /\ resp = "-" /\ hist = <<>> /\ cache = {}
  /\ pattern = <<>> /\ nontls = FALSE /\ url = NoURL
  /\ p = None /\ q = None /\ h = None /\ ph = "-"

InitBroker ==
  /\ PMode = "broker"
  /\ allowed \in AllowedRules /\ presumed \in Rules /\ todo \in [1..1 -> PollPatterns]
  /\ BrokerIdle

InitHistory ==
  /\ PMode = "history"
  /\ allowed \in HistRules /\ presumed \in HistRules /\ todo \in [1..HistLen -> HistPolls]
  /\ BrokerIdle

Arrive ==
  /\ pc = "idle" /\ todo # <<>>
  /\ pp' = Head(todo) /\ todo' = Tail(todo) /\ pc' = "arrived"
  /\ UNCHANGED <<resp, hist, cache>> /\ UNCHANGED bconst

Key(x) == IF CacheKey = "raw" THEN x.value ELSE Effective(presumed, x)
Cached(k) == CacheKey # "none" /\ \E e \in cache : e.k = k
Verdict(x) == IF Cached(Key(x)) THEN (CHOOSE e \in cache : e.k = Key(x)).v ELSE MustReject(allowed, presumed, x)
Remember(x) == IF CacheKey = "none" \/ Cached(Key(x)) THEN cache ELSE cache \cup {[k |-> Key(x), v |-> Verdict(x)]}

(* ProxyPolls: the pattern check comes before RequestOffer (registration). *)
Reject ==
  /\ pc = "arrived" /\ Verdict(pp)
  /\ pc' = "rejected" /\ resp' = "incorrect relay pattern"
  /\ hist' = Append(hist, [poll |-> pp, rejected |-> TRUE, resp |-> "incorrect relay pattern"])
  /\ cache' = Remember(pp)
  /\ UNCHANGED <<todo, pp>> /\ UNCHANGED bconst

Register ==
  /\ pc = "arrived" /\ ~Verdict(pp)
  /\ pc' = "registered" /\ resp' = "-"
  /\ hist' = Append(hist, [poll |-> pp, rejected |-> FALSE, resp |-> "-"])
  /\ cache' = Remember(pp)
  /\ UNCHANGED <<todo, pp>> /\ UNCHANGED bconst

(* the handler goroutine of this poll is out of the way (answered, or parked
   waiting for a client); the context takes the next poll *)
NextPoll ==
  /\ pc \in {"rejected", "registered"} /\ pc' = "idle"
  /\ UNCHANGED <<todo, pp, resp, hist, cache>> /\ UNCHANGED bconst

HistoryIndependent ==
  \A i \in DOMAIN hist : hist[i].rejected = MustReject(allowed, presumed, hist[i].poll)
RejectedNeverRegistered ==
  /\ pc = "registered" => ~MustReject(allowed, presumed, pp)
  /\ \A i \in DOMAIN hist : ~hist[i].rejected => ~MustReject(allowed, presumed, hist[i].poll)
ExplicitReject ==
  \A i \in DOMAIN hist :
    MustReject(allowed, presumed, hist[i].poll) => (hist[i].rejected /\ hist[i].resp = "incorrect relay pattern")
RegisteredAcceptsAllowed ==
  \A i \in DOMAIN hist : ~hist[i].rejected =>
    \A x \in Hosts : IsMember(New(allowed), x) => IsMember(New(Effective(presumed, hist[i].poll)), x)

-----------------------------------------------------------------------------
(* Proxy. *)

Schemes == {"wss", "ws", "https", "WSS", ""}     \* "" = scheme-less "//host/"
UHosts == Strs(HostAlphabet, MaxHost)

RECURSIVE Flat(_)
Flat(s) == IF s = <<>> THEN "" ELSE Head(s) \o Flat(Tail(s))

UpChar(c) == IF c = "a" THEN "A" ELSE IF c = "b" THEN "B" ELSE c
Upper(s) == [i \in DOMAIN s |-> UpChar(s[i])]
LowChar(c) == IF c = "A" THEN "a" ELSE IF c = "B" THEN "b" ELSE c
Lower(s) == [i \in DOMAIN s |-> LowChar(s[i])]

Prefix(sch) == IF sch = "" THEN "//" ELSE sch \o "://"

(* variant of a hierarchical URL: what is wrapped around the host *)
Hier(sch, hst, variant, inhost) ==
  CASE variant = "plain"    -> [form |-> "hier", scheme |-> sch, user |-> "", host |-> hst, port |-> "",
                                 text |-> Prefix(sch) \o Flat(hst) \o "/"]
    [] variant = "port"     -> [form |-> "hier", scheme |-> sch, user |-> "", host |-> hst, port |-> "8443",
                                 text |-> Prefix(sch) \o Flat(hst) \o ":8443/"]
    [] variant = "userinfo" -> [form |-> "hier", scheme |-> sch, user |-> Flat(inhost), host |-> hst, port |-> "",
                                 text |-> Prefix(sch) \o Flat(inhost) \o "@" \o Flat(hst) \o "/"]
    [] variant = "upper"    -> [form |-> "hier", scheme |-> sch, user |-> "", host |-> Upper(hst), port |-> "",
                                 text |-> Prefix(sch) \o Flat(Upper(hst)) \o "/"]
    [] variant = "pathtrick" -> [form |-> "hier", scheme |-> sch, user |-> "", host |-> hst, port |-> "",
                                 text |-> Prefix(sch) \o Flat(hst) \o "/?" \o Flat(inhost)]
    [] variant = "opaque"   -> [form |-> "opaque", scheme |-> sch, user |-> "", host |-> hst, port |-> "",
                                 text |-> sch \o ":" \o Flat(hst) \o "/x"]

BadTexts == {"wss://[::1/", ":a.a/", "wss://a.a:x/", "wss://a a/", "wss://a.a/%zz"}

(* An in-pattern host used for the userinfo trick ("wss://allowed@evil/") and
   the path trick ("wss://evil/?allowed", the URL text ends like a member):
   the pattern's own suffix is a member of every pattern. *)
InHost(pat) == New(pat).suffix

URLs(pat) ==
  {Hier(s, x, v, InHost(pat)) : s \in Schemes, x \in UHosts, v \in {"plain", "port", "userinfo", "upper", "pathtrick"}}
  \cup {Hier(s, x, "opaque", <<>>) : s \in Schemes \ {""}, x \in UHosts}
  \cup {NoURL}
  \cup {[form |-> "bad", scheme |-> "", user |-> "", host |-> <<>>, port |-> "", text |-> t] : t \in BadTexts}

(* net/url: the scheme is lower-cased by the parser, the host is not; an
   opaque URL ("wss:host/x") has no host; Hostname() drops port and userinfo. *)
SchemeOf(u) == IF u.scheme = "WSS" THEN "wss" ELSE u.scheme
Hostname(u) == IF u.form = "hier" THEN u.host ELSE <<>>

(* The decision of runSession as written. *)
Accepted(pat, allowNonTLS, u) ==
  \/ u.form = "empty"
  \/ /\ u.form # "bad"
     /\ IsMember(New(pat), Hostname(u))
     /\ (allowNonTLS \/ SchemeOf(u) = "wss")

Dials(pat, allowNonTLS, u) ==
  IF ~Accepted(pat, allowNonTLS, u) THEN "none" ELSE IF u.form = "empty" THEN "default" ELSE "supplied"

(* The contract: dialling this broker-supplied URL would violate C06. *)
Forbidden(pat, allowNonTLS, u) ==
  /\ u.form # "empty"
  /\ \/ u.form = "bad"
     \/ ~IsMember(New(pat), Hostname(u))
     \/ (~allowNonTLS /\ SchemeOf(u) # "wss")

DontCare(pat, allowNonTLS, u) ==
  /\ u.form = "hier"
  /\ ~IsMember(New(pat), Hostname(u)) /\ IsMember(New(pat), Lower(Hostname(u)))
  /\ (allowNonTLS \/ SchemeOf(u) = "wss")

(* class label for consumers that want one representative per class *)
Class(pat, u) ==
  <<u.form,
    IF u.form \in {"empty", "bad"} THEN "-" ELSE (IF u.scheme = "" THEN "none" ELSE u.scheme),
    IF u.form \in {"empty", "bad"} THEN "-"
    ELSE IF IsMember(New(pat), Hostname(u)) THEN "in"
    ELSE IF IsMember(New(pat), Lower(Hostname(u))) THEN "in-after-case-folding" ELSE "out",
    IF u.user # "" THEN "userinfo" ELSE IF u.port # "" THEN "port" ELSE "plain-or-path">>

DefaultProxyPats ==
  { <<".", "a", "$">>,            \* suffix pattern
    <<"^", "a", ".", "a", "$">>,  \* exact pattern
    <<"$">>,                      \* accepts everything
    <<"^", "$">>,                 \* accepts only the empty hostname
    <<"a", ".">> }                \* no trailing "$" (refused by Start(), still a matcher)

InitProxy ==
  /\ PMode = "proxy"
  /\ pattern \in ProxyPats /\ nontls \in BOOLEAN /\ url \in URLs(pattern)
  /\ allowed = <<>> /\ presumed = <<>> /\ todo = <<>> /\ pp = NoPoll
  /\ pc = "-" /\ resp = "-" /\ hist = <<>> /\ cache = {}
  /\ p = None /\ q = None /\ h = None /\ ph = "-"

AcceptedNeverForbidden == PMode = "proxy" => (Accepted(pattern, nontls, url) => ~Forbidden(pattern, nontls, url))

-----------------------------------------------------------------------------
PInit == InitBroker \/ InitHistory \/ InitProxy
PNext == Arrive \/ Reject \/ Register \/ NextPoll
PStutter == UNCHANGED allvars
PSpec == PInit /\ [][PNext]_allvars

AnnPoll(x) == [present |-> x.present, value |-> x.value, reject |-> MustReject(allowed, presumed, x)]

PEmit ==
  IF PMode = "broker"
  THEN PrintT(ToJson([allowed |-> allowed, presumed |-> presumed, present |-> todo[1].present, value |-> todo[1].value,
                      reject |-> MustReject(allowed, presumed, todo[1])]))
  ELSE IF PMode = "history"
  THEN PrintT(ToJson([allowed |-> allowed, presumed |-> presumed, order |-> "tlc-history",
                      polls |-> [i \in DOMAIN todo |-> AnnPoll(todo[i])]]))
  ELSE PrintT(ToJson([pattern |-> pattern, nontls |-> nontls, url |-> url.text,
                      class |-> Class(pattern, url),
                      hostname |-> Hostname(url),
                      forbidden |-> Forbidden(pattern, nontls, url),
                      dontcare |-> DontCare(pattern, nontls, url),
                      accepted |-> Accepted(pattern, nontls, url),
                      dials |-> Dials(pattern, nontls, url)]))
=============================================================================
