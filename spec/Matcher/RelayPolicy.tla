---------------------------- MODULE RelayPolicy ----------------------------
(* C06, second and third sentence: where the relay-name matcher is applied.

   Part "broker" (broker/ipc.go ProxyPolls, broker/broker.go
   CheckProxyRelayPattern).  A poll carries an AcceptedRelayPattern or none
   (legacy proxy: the operator's presumed pattern stands in for it).  The
   broker is configured with an allowed pattern.  The contract is

     MustReject(allowed, presumed, pp) ==
         the effective pattern of the poll is NOT a superset of `allowed`

   ("superset" as judged by Matcher!IsSupersetOf; Matcher!JudgedIsSemantic
   shows that over all strings this is the semantic relation, so the property
   sentence has one meaning).  The poll handler is modelled as a two-step
   machine arrived -> (rejected | registered) and TLC checks

     RejectedNeverRegistered   a poll that must be rejected is never registered
     ExplicitReject            and its response is "incorrect relay pattern"
     RegisteredAcceptsAllowed  (consequence of the LAW) a registered proxy
                               accepts every hostname the allowed pattern accepts

   The property demands nothing of polls that need not be rejected: the
   machine registers them (that is what the code does) and the emitted case
   says so in `reject = FALSE`, but an implementation that rejected more would
   not violate C06 (the check reports such a divergence as "no verdict").

   Part "proxy" (proxy/lib/snowflake.go runSession).  The broker (possibly
   misbehaving) returns a relay URL; the proxy may only dial it when the
   hostname of the URL is a member of the proxy's own pattern and the scheme is
   wss (or non-TLS relays were explicitly allowed).  URLs are records
   [form, scheme, user, host, port]; Hostname/SchemeOf model what Go's net/url
   reports for them.  Forbidden(..) is the contract (the proxy must not dial),
   Accepted(..) is the decision runSession takes as written; TLC checks
   AcceptedNeverForbidden.  Don't-care regions (emitted with dontcare = TRUE):
     * a host that is in the pattern only after case folding (DNS names are
       case-insensitive; the code compares bytes and refuses - the safe side);
   and the empty relay URL is outside the property (nothing broker-supplied is
   dialled: the proxy falls back to its own configured relay). *)
EXTENDS Matcher

CONSTANTS
  PMode,       \* "broker" | "proxy"
  ProxyPats    \* patterns used for the proxy cases (set of rules)

VARIABLES
  allowed, presumed, pp,          \* broker case: configuration and the poll's pattern
  pc, resp,                       \* poll handler machine
  pattern, nontls, url            \* proxy case

pvars == <<allowed, presumed, pp, pc, resp, pattern, nontls, url>>
allvars == <<p, q, h, ph, allowed, presumed, pp, pc, resp, pattern, nontls, url>>

-----------------------------------------------------------------------------
(* Broker. *)

PollPatterns == {[present |-> FALSE, value |-> <<>>]} \cup {[present |-> TRUE, value |-> r] : r \in Rules}

Effective(pres, x) == IF x.present THEN x.value ELSE pres

MustReject(allw, pres, x) == ~IsSupersetOf(New(Effective(pres, x)), New(allw))

NoURL == [form |-> "empty", scheme |-> "", user |-> "", host |-> <<>>, port |-> "", text |-> ""]

InitBroker ==
  /\ PMode = "broker"
  /\ allowed \in Rules /\ presumed \in Rules /\ pp \in PollPatterns
  /\ pc = "arrived" /\ resp = "-"
  /\ pattern = <<>> /\ nontls = FALSE /\ url = NoURL
  /\ p = None /\ q = None /\ h = None /\ ph = "-"

(* ProxyPolls: the pattern check comes before RequestOffer (registration). *)
Reject ==
  /\ pc = "arrived" /\ MustReject(allowed, presumed, pp)
  /\ pc' = "rejected" /\ resp' = "incorrect relay pattern"
  /\ UNCHANGED <<allowed, presumed, pp, pattern, nontls, url, p, q, h, ph>>

Register ==
  /\ pc = "arrived" /\ ~MustReject(allowed, presumed, pp)
  /\ pc' = "registered" /\ resp' = "-"
  /\ UNCHANGED <<allowed, presumed, pp, pattern, nontls, url, p, q, h, ph>>

RejectedNeverRegistered == pc = "registered" => ~MustReject(allowed, presumed, pp)
ExplicitReject == MustReject(allowed, presumed, pp) => (pc # "arrived" => (pc = "rejected" /\ resp = "incorrect relay pattern"))
RegisteredAcceptsAllowed ==
  pc = "registered" =>
    \A x \in Hosts : IsMember(New(allowed), x) => IsMember(New(Effective(presumed, pp)), x)

-----------------------------------------------------------------------------
(* Proxy. *)

Schemes == {"wss", "ws", "https", "WSS", ""}     \* "" = scheme-less "//host/"
UHosts == Strs(HostAlphabet, MaxHost)

RECURSIVE Flat(_)
Flat(s) == IF s = <<>> THEN "" ELSE Head(s) \o Flat(Tail(s))

UpChar(c) == IF c = "a" THEN "A" ELSE IF c = "b" THEN "B" ELSE c
Upper(s) == [i \in DOMAIN s |-> UpChar(s[i])]
LowChar(c) == IF c = "A" THEN "a" ELSE IF c = "B" THEN "b" ELSE c
Lower(s) == [i \in DOMAIN s |-> LowChar(s[i])]

Prefix(sch) == IF sch = "" THEN "//" ELSE sch \o "://"

(* variant of a hierarchical URL: what is wrapped around the host *)
Hier(sch, hst, variant, inhost) ==
  CASE variant = "plain"    -> [form |-> "hier", scheme |-> sch, user |-> "", host |-> hst, port |-> "",
                                 text |-> Prefix(sch) \o Flat(hst) \o "/"]
    [] variant = "port"     -> [form |-> "hier", scheme |-> sch, user |-> "", host |-> hst, port |-> "8443",
                                 text |-> Prefix(sch) \o Flat(hst) \o ":8443/"]
    [] variant = "userinfo" -> [form |-> "hier", scheme |-> sch, user |-> Flat(inhost), host |-> hst, port |-> "",
                                 text |-> Prefix(sch) \o Flat(inhost) \o "@" \o Flat(hst) \o "/"]
    [] variant = "upper"    -> [form |-> "hier", scheme |-> sch, user |-> "", host |-> Upper(hst), port |-> "",
                                 text |-> Prefix(sch) \o Flat(Upper(hst)) \o "/"]
    [] variant = "pathtrick" -> [form |-> "hier", scheme |-> sch, user |-> "", host |-> hst, port |-> "",
                                 text |-> Prefix(sch) \o Flat(hst) \o "/?" \o Flat(inhost)]
    [] variant = "opaque"   -> [form |-> "opaque", scheme |-> sch, user |-> "", host |-> hst, port |-> "",
                                 text |-> sch \o ":" \o Flat(hst) \o "/x"]

BadTexts == {"wss://[::1/", ":a.a/", "wss://a.a:x/", "wss://a a/", "wss://a.a/%zz"}

(* An in-pattern host used for the userinfo trick ("wss://allowed@evil/") and
   the path trick ("wss://evil/?allowed", the URL text ends like a member):
   the pattern's own suffix is a member of every pattern. *)
InHost(pat) == New(pat).suffix

URLs(pat) ==
  {Hier(s, x, v, InHost(pat)) : s \in Schemes, x \in UHosts, v \in {"plain", "port", "userinfo", "upper", "pathtrick"}}
  \cup {Hier(s, x, "opaque", <<>>) : s \in Schemes \ {""}, x \in UHosts}
  \cup {NoURL}
  \cup {[form |-> "bad", scheme |-> "", user |-> "", host |-> <<>>, port |-> "", text |-> t] : t \in BadTexts}

(* net/url: the scheme is lower-cased by the parser, the host is not; an
   opaque URL ("wss:host/x") has no host; Hostname() drops port and userinfo. *)
SchemeOf(u) == IF u.scheme = "WSS" THEN "wss" ELSE u.scheme
Hostname(u) == IF u.form = "hier" THEN u.host ELSE <<>>

(* The decision of runSession as written. *)
Accepted(pat, allowNonTLS, u) ==
  \/ u.form = "empty"
  \/ /\ u.form # "bad"
     /\ IsMember(New(pat), Hostname(u))
     /\ (allowNonTLS \/ SchemeOf(u) = "wss")

Dials(pat, allowNonTLS, u) ==
  IF ~Accepted(pat, allowNonTLS, u) THEN "none" ELSE IF u.form = "empty" THEN "default" ELSE "supplied"

(* The contract: dialling this broker-supplied URL would violate C06. *)
Forbidden(pat, allowNonTLS, u) ==
  /\ u.form # "empty"
  /\ \/ u.form = "bad"
     \/ ~IsMember(New(pat), Hostname(u))
     \/ (~allowNonTLS /\ SchemeOf(u) # "wss")

DontCare(pat, allowNonTLS, u) ==
  /\ u.form = "hier"
  /\ ~IsMember(New(pat), Hostname(u)) /\ IsMember(New(pat), Lower(Hostname(u)))
  /\ (allowNonTLS \/ SchemeOf(u) = "wss")

(* class label for consumers that want one representative per class *)
Class(pat, u) ==
  <<u.form,
    IF u.form \in {"empty", "bad"} THEN "-" ELSE (IF u.scheme = "" THEN "none" ELSE u.scheme),
    IF u.form \in {"empty", "bad"} THEN "-"
    ELSE IF IsMember(New(pat), Hostname(u)) THEN "in"
    ELSE IF IsMember(New(pat), Lower(Hostname(u))) THEN "in-after-case-folding" ELSE "out",
    IF u.user # "" THEN "userinfo" ELSE IF u.port # "" THEN "port" ELSE "plain-or-path">>

DefaultProxyPats ==
  { <<".", "a", "$">>,            \* suffix pattern
    <<"^", "a", ".", "a", "$">>,  \* exact pattern
    <<"$">>,                      \* accepts everything
    <<"^", "$">>,                 \* accepts only the empty hostname
    <<"a", ".">> }                \* no trailing "$" (refused by Start(), still a matcher)

InitProxy ==
  /\ PMode = "proxy"
  /\ pattern \in ProxyPats /\ nontls \in BOOLEAN /\ url \in URLs(pattern)
  /\ allowed = <<>> /\ presumed = <<>> /\ pp = [present |-> FALSE, value |-> <<>>]
  /\ pc = "-" /\ resp = "-"
  /\ p = None /\ q = None /\ h = None /\ ph = "-"

AcceptedNeverForbidden == PMode = "proxy" => (Accepted(pattern, nontls, url) => ~Forbidden(pattern, nontls, url))

-----------------------------------------------------------------------------
PInit == InitBroker \/ InitProxy
PNext == Reject \/ Register
PStutter == UNCHANGED allvars
PSpec == PInit /\ [][PNext]_allvars

PEmit ==
  IF PMode = "broker"
  THEN (pc = "arrived" =>
          PrintT(ToJson([allowed |-> allowed, presumed |-> presumed, present |-> pp.present, value |-> pp.value,
                         reject |-> MustReject(allowed, presumed, pp)])))
  ELSE PrintT(ToJson([pattern |-> pattern, nontls |-> nontls, url |-> url.text,
                      class |-> Class(pattern, url),
                      hostname |-> Hostname(url),
                      forbidden |-> Forbidden(pattern, nontls, url),
                      dontcare |-> DontCare(pattern, nontls, url),
                      accepted |-> Accepted(pattern, nontls, url),
                      dials |-> Dials(pattern, nontls, url)]))
=============================================================================
