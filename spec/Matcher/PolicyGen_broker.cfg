CONSTANTS
  RuleAlphabet = {"^", "$", "a", "."}
  HostAlphabet = {"a", ".", "A", " "}
  MaxRule = 2
  MaxHost = 3
  Mode = "policy"
  PMode = "broker"
  ProxyPats <- DefaultProxyPats
  CacheKey = "none"
  HistRule = 1
  HistLen = 3
  AllowedAlphabet <- PlainAlphabet
  PollAlphabet <- CaseBlankAlphabet
INIT PInit
NEXT PStutter
INVARIANT PEmit
CHECK_DEADLOCK FALSE
