------------------------------ MODULE Matcher ------------------------------
(* common/namematcher: relay-hostname patterns (C06, first sentence).

   Strings are sequences of one-character strings over a small alphabet.
   The three operators New / IsMember / IsSupersetOf are written the way the
   code computes them (strings.TrimSuffix "$" first, then the "^" test on the
   trimmed rule).  The module states and TLC checks

     LAW   IsSupersetOf(p, q) /\ IsMember(q, h)  =>  IsMember(p, h)

   for every pair of rules and every hostname of the configured bound, plus
   two design-level facts that make the broker contract of RelayPolicy.tla
   unambiguous (the judged superset relation is reflexive, and it coincides
   with the semantic one - "accepts every string the other accepts" - when
   hostnames range over all strings).

   The same module enumerates, as TLC initial states, every (rule, rule) and
   (rule, hostname) pair together with the value of the TLA+ definition; the Go
   driver harness/cmd/matchdrv evaluates each pair with the real package and
   compares (differential conformance: the law holds for the model, the model
   equals the code on the whole bounded domain).

   Don't-care: namematcher.IsValidRule (a syntactic check used only by the
   proxy's start-up code) is not part of the property and is not modelled. *)
EXTENDS Integers, Sequences, FiniteSets, TLC, Json

CONSTANTS
  RuleAlphabet,   \* characters of rules, e.g. {"^", "$", "a", "."}
  HostAlphabet,   \* characters of hostnames, e.g. {"a", "b", "."}
  MaxRule,        \* maximum rule length
  MaxHost,        \* maximum hostname length
  Mode            \* "law" | "pairs" | "members" | "semantic"

Strs(A, n) == UNION {[1..k -> A] : k \in 0..n}
Rules == Strs(RuleAlphabet, MaxRule)
Hosts == Strs(HostAlphabet, MaxHost)

-----------------------------------------------------------------------------
(* Go's strings.HasPrefix / HasSuffix / TrimPrefix / TrimSuffix. *)
HasPrefix(s, x) == Len(x) <= Len(s) /\ SubSeq(s, 1, Len(x)) = x
HasSuffix(s, x) == Len(x) <= Len(s) /\ SubSeq(s, Len(s) - Len(x) + 1, Len(s)) = x
TrimPrefix(s, x) == IF HasPrefix(s, x) THEN SubSeq(s, Len(x) + 1, Len(s)) ELSE s
TrimSuffix(s, x) == IF HasSuffix(s, x) THEN SubSeq(s, 1, Len(s) - Len(x)) ELSE s

(* NewNameMatcher: one trailing "$" is dropped; the rule is exact when what
   remains starts with "^"; one leading "^" is dropped from the suffix. *)
New(rule) ==
  LET r == TrimSuffix(rule, <<"$">>)
  IN [suffix |-> TrimPrefix(r, <<"^">>), exact |-> HasPrefix(r, <<"^">>)]

IsMember(m, s) == IF m.exact THEN s = m.suffix ELSE HasSuffix(s, m.suffix)

(* m.IsSupersetOf(o): "m accepts at least what o accepts", as judged by the code. *)
IsSupersetOf(m, o) ==
  IF m.exact THEN o.exact /\ m.suffix = o.suffix ELSE HasSuffix(o.suffix, m.suffix)

-----------------------------------------------------------------------------
VARIABLES p, q, h, ph
vars == <<p, q, h, ph>>

None == <<"-">>     \* placeholder for an unused variable

(* Mode "law": the first rule is an initial state, the second rule is chosen
   by a step so that the quantification over hostnames is spread over TLC's
   workers.  Modes "pairs"/"members": every case is an initial state. *)
Init ==
  \/ /\ Mode \in {"law", "semantic"} /\ p \in Rules /\ q = None /\ h = None /\ ph = "p"
  \/ /\ Mode = "pairs" /\ p \in Rules /\ q \in Rules /\ h = None /\ ph = "pq"
  \/ /\ Mode = "members" /\ p \in Rules /\ h \in Hosts /\ q = None /\ ph = "ph"

PickSecond ==
  /\ Mode \in {"law", "semantic"} /\ ph = "p"
  /\ q' \in Rules /\ ph' = "pq"
  /\ UNCHANGED <<p, h>>

Next == PickSecond
Stutter == UNCHANGED vars
Spec == Init /\ [][Next]_vars

(* C06, first sentence. *)
Law ==
  (ph = "pq" /\ IsSupersetOf(New(p), New(q))) =>
     \A x \in Hosts : IsMember(New(q), x) => IsMember(New(p), x)

Reflexive == IsSupersetOf(New(p), New(p))

(* With hostnames ranging over ALL strings (here: every string over the rule
   alphabet up to MaxHost >= MaxRule + 1, which contains the witnesses: the
   suffix of q itself, and two different extensions of it), the judged
   relation is exactly the semantic one.  Hence "pattern is not a superset of
   the allowed pattern" in the property has one meaning, and RelayPolicy.tla
   may use the judged relation as the contract of the broker. *)
AllStrings == Strs(RuleAlphabet \cup HostAlphabet, MaxHost)
JudgedIsSemantic ==
  ph = "pq" =>
    (IsSupersetOf(New(p), New(q)) <=> \A x \in AllStrings : IsMember(New(q), x) => IsMember(New(p), x))

-----------------------------------------------------------------------------
(* Case emission (NEXT Stutter, one worker). *)
Emit ==
  CASE Mode = "pairs"   -> PrintT(ToJson([p |-> p, q |-> q, sup |-> IsSupersetOf(New(p), New(q))]))
    [] Mode = "members" -> PrintT(ToJson([p |-> p, h |-> h, mem |-> IsMember(New(p), h)]))
    [] OTHER -> TRUE
=============================================================================
