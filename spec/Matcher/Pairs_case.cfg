CONSTANTS
  RuleAlphabet = {"^", "$", "a", "A", " "}
  HostAlphabet = {"a", "A", " ", "."}
  MaxRule = 2
  MaxHost = 3
  Mode = "pairs"
INIT Init
NEXT Stutter
INVARIANT Emit
CHECK_DEADLOCK FALSE
