CONSTANTS
  RuleAlphabet = {"^", "$", "a", "."}
  HostAlphabet = {"a", "b", "."}
  MaxRule = 5
  MaxHost = 5
  Mode = "law"
SPECIFICATION Spec
INVARIANTS Law Reflexive
CHECK_DEADLOCK FALSE
