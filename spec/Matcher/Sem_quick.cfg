CONSTANTS
  RuleAlphabet = {"^", "$", "a", "."}
  HostAlphabet = {"a", "b", "."}
  MaxRule = 2
  MaxHost = 3
  Mode = "semantic"
SPECIFICATION Spec
INVARIANTS JudgedIsSemantic Law Reflexive
CHECK_DEADLOCK FALSE
