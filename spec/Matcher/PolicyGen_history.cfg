CONSTANTS
  RuleAlphabet = {"^", "$", "a", "."}
  HostAlphabet = {"a", ".", "A", " "}
  MaxRule = 2
  MaxHost = 3
  Mode = "policy"
  PMode = "history"
  ProxyPats <- DefaultProxyPats
  CacheKey = "none"
  HistRule = 1
  HistLen = 2
  AllowedAlphabet <- PlainAlphabet
  PollAlphabet <- CaseBlankAlphabet
INIT PInit
NEXT PStutter
INVARIANT PEmit
CHECK_DEADLOCK FALSE
