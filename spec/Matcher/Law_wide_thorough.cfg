CONSTANTS
  RuleAlphabet = {"^", "$", "a", "."}
  HostAlphabet = {"a", "b", ".", "^", "$"}
  MaxRule = 4
  MaxHost = 4
  Mode = "law"
SPECIFICATION Spec
INVARIANTS Law Reflexive
CHECK_DEADLOCK FALSE
