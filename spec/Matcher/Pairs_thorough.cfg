CONSTANTS
  RuleAlphabet = {"^", "$", "a", "."}
  HostAlphabet = {"a", "b", "."}
  MaxRule = 4
  MaxHost = 4
  Mode = "pairs"
INIT Init
NEXT Stutter
INVARIANT Emit
CHECK_DEADLOCK FALSE
