CONSTANTS
  RuleAlphabet = {"^", "$", "a", "."}
  HostAlphabet = {"a", "b", "."}
  MaxRule = 2
  MaxHost = 3
  Mode = "policy"
  PMode = "history"
  ProxyPats <- DefaultProxyPats
  CacheKey = "none"
  HistRule = 1
  HistLen = 3
SPECIFICATION PSpec
INVARIANTS HistoryIndependent RejectedNeverRegistered ExplicitReject RegisteredAcceptsAllowed
CHECK_DEADLOCK FALSE
