CONSTANTS
  RuleAlphabet = {"^", "$", "a", "."}
  HostAlphabet = {"a", "b", ".", "^", "$"}
  MaxRule = 4
  MaxHost = 4
  Mode = "members"
INIT Init
NEXT Stutter
INVARIANT Emit
CHECK_DEADLOCK FALSE
