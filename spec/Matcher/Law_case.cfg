CONSTANTS
  RuleAlphabet = {"^", "$", "a", "A", " "}
  HostAlphabet = {"a", "A", " ", "."}
  MaxRule = 3
  MaxHost = 3
  Mode = "law"
SPECIFICATION Spec
INVARIANTS Law Reflexive
CHECK_DEADLOCK FALSE
