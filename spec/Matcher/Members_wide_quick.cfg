CONSTANTS
  RuleAlphabet = {"^", "$", "a", "."}
  HostAlphabet = {"a", "b", ".", "^", "$"}
  MaxRule = 3
  MaxHost = 3
  Mode = "members"
INIT Init
NEXT Stutter
INVARIANT Emit
CHECK_DEADLOCK FALSE
