CONSTANTS
  RuleAlphabet = {"^", "$", "a", "."}
  HostAlphabet = {"a", "b", "."}
  MaxRule = 2
  MaxHost = 3
  Mode = "policy"
  PMode = "proxy"
  ProxyPats <- DefaultProxyPats
  CacheKey = "none"
  HistRule = 1
  HistLen = 3
  AllowedAlphabet <- PlainAlphabet
  PollAlphabet <- CaseBlankAlphabet
SPECIFICATION PSpec
INVARIANTS AcceptedNeverForbidden
CHECK_DEADLOCK FALSE
