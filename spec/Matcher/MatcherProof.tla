---------------------------- MODULE MatcherProof ----------------------------
(* UNBOUNDED argument for spec/Matcher/Matcher.tla (C06, first sentence), checked
   by the TLA+ proof system (tlapm; back ends SMT / Zenon / Isabelle).

     THEOREM RuleLaw      for EVERY set S (the alphabet), EVERY p, q, h \in Seq(S):
                          IsSupersetOf(New(p), New(q)) /\ IsMember(New(q), h)
                             => IsMember(New(p), h)
     THEOREM MatcherLaw   the same for arbitrary matchers [suffix \in Seq(S),
                          exact \in BOOLEAN] (not only those New can build)
     THEOREM RuleReflexive  Matcher!Reflexive for every rule

   Matcher.tla checks the same formulas with TLC for rules / hostnames of
   length <= 5 over 4-5 letters; here strings are finite sequences of any
   length over any alphabet (S is an arbitrary set: it may or may not contain
   "^" and "$").

   The seven definitions below are restated from Matcher.tla verbatim
   (lib/unbounded.py compares the text and refuses to report the proof as
   discharged if they drift apart).  Matcher.tla itself cannot be EXTENDed:
   it pulls in TLC and Json, which tlapm does not know.

   Structure: SuffixPointwise (HasSuffix as a pointwise statement about
   indices) -> SuffixReflexive, SuffixTransitive -> the three-way case analysis
   of MatcherLaw (exact/exact collapses to equality; suffix-pattern over exact;
   suffix over suffix = transitivity) -> typing of New -> RuleLaw.

   Trusted: the theorems of the TLAPS standard module SequenceTheorems
   (LenProperties, ElementOfSeq, SubSeqProperties, SeqEqual, SeqMonotonic;
   proved in SequenceTheorems_proofs.tla of the TLAPS distribution), and the
   back-end provers.  No ASSUME / AXIOM of our own. *)
EXTENDS Integers, Sequences, SequenceTheorems, TLAPS

HasPrefix(s, x) == Len(x) <= Len(s) /\ SubSeq(s, 1, Len(x)) = x
HasSuffix(s, x) == Len(x) <= Len(s) /\ SubSeq(s, Len(s) - Len(x) + 1, Len(s)) = x
TrimPrefix(s, x) == IF HasPrefix(s, x) THEN SubSeq(s, Len(x) + 1, Len(s)) ELSE s
TrimSuffix(s, x) == IF HasSuffix(s, x) THEN SubSeq(s, 1, Len(s) - Len(x)) ELSE s

New(rule) ==
  LET r == TrimSuffix(rule, <<"$">>)
  IN [suffix |-> TrimPrefix(r, <<"^">>), exact |-> HasPrefix(r, <<"^">>)]

IsMember(m, s) == IF m.exact THEN s = m.suffix ELSE HasSuffix(s, m.suffix)

IsSupersetOf(m, o) ==
  IF m.exact THEN o.exact /\ m.suffix = o.suffix ELSE HasSuffix(o.suffix, m.suffix)

Matchers(S) == [suffix : Seq(S), exact : BOOLEAN]

-----------------------------------------------------------------------------
LEMMA SuffixPointwise ==
  ASSUME NEW S, NEW s \in Seq(S), NEW x \in Seq(S)
  PROVE  HasSuffix(s, x) <=> (Len(x) <= Len(s) /\ \A i \in 1..Len(x) : x[i] = s[Len(s) - Len(x) + i])
<1> DEFINE m == Len(s) - Len(x) + 1
<1> DEFINE n == Len(s)
<1>0. Len(s) \in Nat /\ Len(x) \in Nat  BY LenProperties
<1>1. CASE Len(x) <= Len(s)
  <2>1. m \in Int /\ n \in Int /\ m >= 1  BY <1>0, <1>1
  <2>2. \A i \in m..n : s[i] \in S  BY <1>0, <2>1, ElementOfSeq
  <2>3. /\ SubSeq(s, m, n) \in Seq(S)
        /\ Len(SubSeq(s, m, n)) = IF m <= n THEN n - m + 1 ELSE 0
        /\ \A i \in 1..(n - m + 1) : SubSeq(s, m, n)[i] = s[m + i - 1]
    BY <2>1, <2>2, SubSeqProperties
  <2>4. Len(SubSeq(s, m, n)) = Len(x)  BY <2>3, <1>0, <1>1
  <2>5. \A i \in 1..Len(x) : SubSeq(s, m, n)[i] = s[Len(s) - Len(x) + i]  BY <2>3, <1>0, <1>1
  <2>6. ASSUME SubSeq(s, m, n) = x PROVE \A i \in 1..Len(x) : x[i] = s[Len(s) - Len(x) + i]  BY <2>5, <2>6
  <2>7. ASSUME \A i \in 1..Len(x) : x[i] = s[Len(s) - Len(x) + i] PROVE SubSeq(s, m, n) = x
    <3>1. \A i \in 1..Len(SubSeq(s, m, n)) : SubSeq(s, m, n)[i] = x[i]  BY <2>4, <2>5, <2>7
    <3> QED BY <3>1, <2>3, <2>4, SeqEqual
  <2> QED BY <1>1, <2>6, <2>7 DEF HasSuffix
<1>2. CASE ~(Len(x) <= Len(s))  BY <1>2 DEF HasSuffix
<1> QED BY <1>1, <1>2

LEMMA SuffixReflexive ==
  ASSUME NEW S, NEW s \in Seq(S)
  PROVE  HasSuffix(s, s)
<1>1. Len(s) \in Nat  BY LenProperties
<1> QED BY <1>1, SuffixPointwise

LEMMA SuffixTransitive ==
  ASSUME NEW S, NEW a \in Seq(S), NEW b \in Seq(S), NEW c \in Seq(S),
         HasSuffix(b, a), HasSuffix(c, b)
  PROVE  HasSuffix(c, a)
<1>0. Len(a) \in Nat /\ Len(b) \in Nat /\ Len(c) \in Nat  BY LenProperties
<1>1. Len(a) <= Len(b) /\ \A i \in 1..Len(a) : a[i] = b[Len(b) - Len(a) + i]  BY SuffixPointwise
<1>2. Len(b) <= Len(c) /\ \A j \in 1..Len(b) : b[j] = c[Len(c) - Len(b) + j]  BY SuffixPointwise
<1>3. Len(a) <= Len(c)  BY <1>0, <1>1, <1>2
<1>4. \A i \in 1..Len(a) : a[i] = c[Len(c) - Len(a) + i]
  <2> TAKE i \in 1..Len(a)
  <2>1. Len(b) - Len(a) + i \in 1..Len(b)  BY <1>0, <1>1
  <2>2. a[i] = b[Len(b) - Len(a) + i]  BY <1>1
  <2>3. b[Len(b) - Len(a) + i] = c[Len(c) - Len(b) + (Len(b) - Len(a) + i)]  BY <1>2, <2>1
  <2>4. Len(c) - Len(b) + (Len(b) - Len(a) + i) = Len(c) - Len(a) + i  BY <1>0
  <2> QED BY <2>2, <2>3, <2>4
<1> QED BY <1>3, <1>4, SuffixPointwise

-----------------------------------------------------------------------------
THEOREM MatcherLaw ==
  ASSUME NEW S, NEW m \in Matchers(S), NEW o \in Matchers(S), NEW h \in Seq(S),
         IsSupersetOf(m, o), IsMember(o, h)
  PROVE  IsMember(m, h)
<1>0. m.suffix \in Seq(S) /\ o.suffix \in Seq(S) /\ m.exact \in BOOLEAN /\ o.exact \in BOOLEAN  BY DEF Matchers
<1>1. CASE m.exact
  <2>1. o.exact /\ m.suffix = o.suffix  BY <1>1 DEF IsSupersetOf
  <2>2. h = o.suffix  BY <2>1 DEF IsMember
  <2> QED BY <1>1, <2>1, <2>2 DEF IsMember
<1>2. CASE ~m.exact /\ o.exact
  <2>1. HasSuffix(o.suffix, m.suffix)  BY <1>2 DEF IsSupersetOf
  <2>2. h = o.suffix  BY <1>2 DEF IsMember
  <2> QED BY <1>2, <2>1, <2>2 DEF IsMember
<1>3. CASE ~m.exact /\ ~o.exact
  <2>1. HasSuffix(o.suffix, m.suffix)  BY <1>3 DEF IsSupersetOf
  <2>2. HasSuffix(h, o.suffix)  BY <1>3 DEF IsMember
  <2>3. HasSuffix(h, m.suffix)  BY <1>0, <2>1, <2>2, SuffixTransitive
  <2> QED BY <1>3, <2>3 DEF IsMember
<1> QED BY <1>0, <1>1, <1>2, <1>3

-----------------------------------------------------------------------------
(* Rules: New(rule) is a matcher over the same alphabet, whatever the rule. *)
LEMMA TrimSuffixType ==
  ASSUME NEW S, NEW s \in Seq(S), NEW x \in Seq(S)
  PROVE  TrimSuffix(s, x) \in Seq(S)
<1>0. Len(s) \in Nat /\ Len(x) \in Nat  BY LenProperties
<1>1. CASE HasSuffix(s, x)
  <2>1. Len(x) <= Len(s)  BY <1>1 DEF HasSuffix
  <2>2. \A i \in 1..(Len(s) - Len(x)) : s[i] \in S  BY <1>0, <2>1, ElementOfSeq
  <2>3. SubSeq(s, 1, Len(s) - Len(x)) \in Seq(S)  BY <1>0, <2>2, SubSeqProperties
  <2> QED BY <1>1, <2>3 DEF TrimSuffix
<1>2. CASE ~HasSuffix(s, x)  BY <1>2 DEF TrimSuffix
<1> QED BY <1>1, <1>2

LEMMA TrimPrefixType ==
  ASSUME NEW S, NEW s \in Seq(S), NEW x \in Seq(S)
  PROVE  TrimPrefix(s, x) \in Seq(S)
<1>0. Len(s) \in Nat /\ Len(x) \in Nat  BY LenProperties
<1>1. CASE HasPrefix(s, x)
  <2>2. \A i \in (Len(x) + 1)..Len(s) : s[i] \in S  BY <1>0, ElementOfSeq
  <2>3. SubSeq(s, Len(x) + 1, Len(s)) \in Seq(S)  BY <1>0, <2>2, SubSeqProperties
  <2> QED BY <1>1, <2>3 DEF TrimPrefix
<1>2. CASE ~HasPrefix(s, x)  BY <1>2 DEF TrimPrefix
<1> QED BY <1>1, <1>2

LEMMA NewType ==
  ASSUME NEW S, NEW rule \in Seq(S)
  PROVE  New(rule) \in Matchers(S \cup {"^", "$"})
<1> DEFINE T == S \cup {"^", "$"}
<1>1. rule \in Seq(T)  BY SeqMonotonic
<1>2. <<"$">> \in Seq(T) /\ <<"^">> \in Seq(T)  OBVIOUS
<1>3. TrimSuffix(rule, <<"$">>) \in Seq(T)  BY <1>1, <1>2, TrimSuffixType
<1>4. TrimPrefix(TrimSuffix(rule, <<"$">>), <<"^">>) \in Seq(T)  BY <1>3, <1>2, TrimPrefixType
<1>5. HasPrefix(TrimSuffix(rule, <<"$">>), <<"^">>) \in BOOLEAN  BY DEF HasPrefix
<1> QED BY <1>4, <1>5 DEF New, Matchers

(* C06, first sentence, for ALL rule strings p, q and ALL hostnames h over ANY alphabet S. *)
THEOREM RuleLaw ==
  ASSUME NEW S, NEW p \in Seq(S), NEW q \in Seq(S), NEW h \in Seq(S)
  PROVE  IsSupersetOf(New(p), New(q)) /\ IsMember(New(q), h) => IsMember(New(p), h)
<1> DEFINE T == S \cup {"^", "$"}
<1>1. New(p) \in Matchers(T) /\ New(q) \in Matchers(T)  BY NewType
<1>2. h \in Seq(T)  BY SeqMonotonic
<1> QED BY <1>1, <1>2, MatcherLaw

(* Matcher!Reflexive for all rules. *)
THEOREM RuleReflexive ==
  ASSUME NEW S, NEW p \in Seq(S)
  PROVE  IsSupersetOf(New(p), New(p))
<1> DEFINE T == S \cup {"^", "$"}
<1>1. New(p) \in Matchers(T)  BY NewType
<1>2. New(p).suffix \in Seq(T) /\ New(p).exact \in BOOLEAN  BY <1>1 DEF Matchers
<1>3. HasSuffix(New(p).suffix, New(p).suffix)  BY <1>2, SuffixReflexive
<1> QED BY <1>2, <1>3 DEF IsSupersetOf
=============================================================================
