CONSTANTS
  RuleAlphabet = {"^", "$", "a", "."}
  HostAlphabet = {"a", "b", "."}
  MaxRule = 3
  MaxHost = 4
  Mode = "semantic"
SPECIFICATION Spec
INVARIANTS JudgedIsSemantic Law Reflexive
CHECK_DEADLOCK FALSE
