CONSTANTS
  RuleAlphabet = {"^", "$", "a", "."}
  HostAlphabet = {"a", "b", "."}
  MaxRule = 2
  MaxHost = 3
  Mode = "policy"
  PMode = "broker"
  ProxyPats <- DefaultProxyPats
SPECIFICATION PSpec
INVARIANTS RejectedNeverRegistered ExplicitReject RegisteredAcceptsAllowed
CHECK_DEADLOCK FALSE
