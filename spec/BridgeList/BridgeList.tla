------------------------------ MODULE BridgeList ------------------------------
(* The broker's bridge list: how the table that spec/Broker treats as the
   constant Bridges comes to be and how it is looked up.

     broker/bridge-list.go      LoadBridgeInfo / GetBridgeInfo (contract: the header comment)
     common/bridgefingerprint   FingerprintFromHexString / FingerprintFromBytes
     broker/broker.go           NewBrokerContext (DefaultBridges), InstallBridgeListProfile, GetBridgeInfo
     broker/ipc.go              ClientOffers (refuses an unknown bridge), ProxyPolls (relay URL of the
                                bridge the client named)

   A FILE is a sequence of LINES; a line is an abstract class (how it is spelt
   is the driver's business: several renderings per class, seed-derived) plus,
   for the classes that carry a record, the bridge it names.  The record of
   line i has displayName "version" i and webSocketAddress "version" i (0 is
   the empty string), so two records for the same bridge always differ.

   PART 1 - CONTRACT.  What the documentation demands of LoadBridgeInfo on a
   file, given the table before the call:

     "This file should be in newline-delimited JSON format (jsonlines.org).
      For each line, the format of json data should be {"displayName":..,
      "webSocketAddress":.., "fingerprint":..} ... The existence of ANY other
      fields is NOT permitted.  The file will be considered invalid if there
      is at least one invalid json record.  In this case, an error will be
      returned, and none of the records will be loaded."

   Effects(line) is the SET of effects the contract allows for one line:
   reject (the whole file), put (b, name, address), skip.  A class the
   documentation decides has one effect; a class it is silent about has
   several (DON'T-CARE, chosen per line: an implementation may treat two
   spellings of one class differently):

     ok okcrlf     well-formed record, LF or CRLF ended (jsonlines.org: "\r\n is also
                   supported because surrounding white space is implicitly ignored")   {put}
     extra         a member other than the three                                        {reject}
     nofp          no fingerprint member (absent, null, "")                             {reject}
     wrongtype     a member or the whole line has the wrong JSON type                   {reject}
     notjson       not JSON (garbage, truncated object, single quotes, ...)             {reject}
     trailing      a well-formed object followed by anything but white space
                   (garbage, a second object, a stray brace): the LINE is not a
                   JSON value                                                            {reject}
     fphex fplen   fingerprint not hexadecimal / not 20 or 32 bytes                     {reject}
     longbad       an invalid line longer than 64 KiB                                   {reject}
     long          a well-formed record on a line longer than 64 KiB: the documentation
                   sets no limit, an implementation has one                             {put, reject}
     blank         empty or white-space-only line (jsonlines.org does not say)          {skip, reject}
     lower         fingerprint in lower-/mixed-case hex: the same bridge or refused     {put, reject}
     casefold      member names differing in case only ("Fingerprint"): encoding/json
                   matches them; "ANY other fields" does not say how names compare      {put, reject}
     nodn nows     displayName / webSocketAddress absent or null: the documentation
                   lists the three members but does not call them required              {put with "", reject}
     dupkey        webSocketAddress twice in one object (RFC 8259: unpredictable)       {put first, put last, reject}

   Two lines for the same bridge (the documentation does not mention the
   case): the later one wins, or the file is refused.

   File variants: "plain"; "nofinal" (no newline after the last line: same
   meaning); "bom" (UTF-8 byte order mark first: RFC 8259 lets a parser ignore
   it or fail) {as without, reject}; "readerr" (the io.Reader fails after
   `cut` complete lines: the file cannot have been loaded) {reject}.

   Allowed(f, T0) is the set of outcomes [err, table]: all-or-nothing (err
   iff some line is rejected, and then table = T0), otherwise the table is
   the fold of the puts in line order: the LATER duplicate wins and nothing of
   T0 survives (the whole table is replaced).

   PART 2 - MACHINE.  LoadBridgeInfo statement by statement (scanner with its
   64 KiB token limit, json.Decoder with DisallowUnknownFields, the check for
   trailing data, the fingerprint parse, the private map, the scanner-error
   check after the loop, the swap under the write lock), GetBridgeInfo under
   the read lock, concurrent with reloads.  The library behaviour per class is
   the table Decode/Scan below (what encoding/json, bufio.Scanner and
   encoding/hex do, as measured on the real code).  Invariants:

     MeetsContract   a returned load's outcome is in Allowed(file, table before)
     AllOrNothing    error => table untouched; success => every line took effect
     LastWins        success => each bridge has the record of its LAST line
     NoIntermediate  the shared table is at every instant one of the tables
                     that were current after a completed load (never partial, never
                     emptied on the way)
     OldOrNew        every answer of a lookup is the answer of a table that was
                     current at some instant between its call and its return
     RaceFree        the table is never written while a reader reads it

   Mut selects a what-if variant; each must violate the invariant named in
   the MC_whatif configurations (the first two are the code as it was before
   the two repairs of this extension):

     noscanerr   the scanner's error is ignored after the loop (long line or
                 failing reader: the lines before it are loaded, nil returned)
     notrail     no check for trailing data after the object
     skipbad     an invalid line is skipped instead of failing the file
     firstwins   an earlier record for the same bridge is kept
     inplace     records are written into the shared table line by line
     clearfirst  the shared table is emptied before the file is read
     merge       the new records are added to the old table
     nolock      the swap does not take the lock

   PART 3 - PROFILE and the IPC use: InstallBridgeListProfile = LoadBridgeInfo,
   then `allowedRelayPattern = ...`, then `presumedPatternForLegacyClient =
   ...` WITHOUT any lock, and nothing is assigned when the load fails.  A
   proxy poll reads presumed (legacy polls only), then allowed, and - once a
   client has been matched - the table; a client offer reads the table.
   ProfileSeen is what one poll can observe when it runs concurrently with
   one install (sequentially consistent reading; the Go memory model gives
   no guarantee at all for the two unlocked strings): ProfileAtomic (all old
   or all new) is VIOLATED, ProfileMonotone (presumed new => allowed new =>
   table new) holds.  In this repository InstallBridgeListProfile runs once
   in main() before the listeners start, so nothing can observe the mixture:
   stated, not demanded.

   ExpectOffer(T, want): what the IPC pair must do for a client that names
   bridge `want` (0 = names none: the documented default fingerprint) when
   the table is T: refuse it without consuming a proxy if the bridge is not
   in T, otherwise the proxy matched with it is told the webSocketAddress of
   exactly that bridge. *)
EXTENDS BridgeListContract

CONSTANTS
  Mode,        \* "cases": enumerate files as initial states (Emit); "offer": IPC cases; "machine": Next explores the loader
  FileBridges, \* the bridges enumerated files name (a subset of Bridges)
  Classes,     \* line classes enumerated
  Variants,    \* file variants enumerated
  MinLen, MaxLen,
  Mut,
  Readers,     \* lookup goroutines (machine mode)
  MaxLookups,  \* lookups per reader
  NLoads       \* number of loads in one behaviour (machine mode): each from MachineFiles

(* --------------------------------------------------------------------- *)
(* files                                                                 *)

Line(c, b) == [c |-> c, b |-> b]
LineVals == {Line(c, b) : c \in Classes \cap RecClasses, b \in FileBridges} \cup {Line(c, 0) : c \in Classes \cap BadClasses}
Seqs == UNION {[1..n -> LineVals] : n \in MinLen..MaxLen}
VarsOf(n) == {[v |-> x, cut |-> 0] : x \in {y \in Variants \ {"readerr"} : n > 0 \/ y \notin {"bom", "bomnofinal"}}}
             \cup (IF "readerr" \in Variants THEN {[v |-> "readerr", cut |-> k] : k \in 0..n} ELSE {})
File(s, w) == [lines |-> s, v |-> w.v, cut |-> w.cut]
NoFile == [lines |-> <<>>, v |-> "plain", cut |-> 0]

(* the table a holder has before a reload in the drivers' "prev" runs: bridge
   1 and the highest bridge, records of version 9 *)
MaxBridge == CHOOSE b \in Bridges : \A c \in Bridges : c <= b
PrevTable == [b \in Bridges |-> IF b \in {1, MaxBridge} THEN Rec(9, 9) ELSE None]

(* the files of machine mode: valid, with a later duplicate, with every way to fail, with don't-care lines *)
MachineFiles ==
  { File(<<Line("ok", 1), Line("ok", 2)>>, [v |-> "plain", cut |-> 0]),
    File(<<Line("ok", 2), Line("lower", 2), Line("ok", 1)>>, [v |-> "nofinal", cut |-> 0]),
    File(<<Line("ok", 1), Line("notjson", 0), Line("ok", 2)>>, [v |-> "plain", cut |-> 0]),
    File(<<Line("ok", 2), Line("long", 1), Line("ok", 1)>>, [v |-> "plain", cut |-> 0]),
    File(<<Line("ok", 2), Line("trailing", 1)>>, [v |-> "plain", cut |-> 0]),
    File(<<Line("ok", 2), Line("ok", 1)>>, [v |-> "readerr", cut |-> 1]),
    File(<<Line("dupkey", 1), Line("blank", 0)>>, [v |-> "plain", cut |-> 0]),
    File(<<>>, [v |-> "plain", cut |-> 0]) }

(* the tables of offer mode: the machine files and one with the 32-byte bridge and an address-less default bridge *)
OfferFiles == MachineFiles \cup { File(<<Line("ok", 3), Line("ok", 2), Line("nows", 1)>>, [v |-> "plain", cut |-> 0]),
                                  File(<<Line("okcrlf", 1), Line("ok", 3), Line("casefold", 3)>>, [v |-> "bom", cut |-> 0]) }

(* --------------------------------------------------------------------- *)
(* PART 2: machine                                                       *)

VARIABLES
  file,      \* the file being loaded (or enumerated)
  loads,     \* loads still to start
  table,     \* h.bridgeInfo
  wr, rd,    \* accessBridgeInfo: writer holds / set of readers holding the read lock
  pc, i, m, rec, serr, ret, t0,   \* LoadBridgeInfo's frame: statement, line index, private map, decoded record, scanner error, result, (ghost) table at the call
  gens,      \* (ghost) the tables that have been current, oldest first
  rpc, rfp, rlo, obs   \* readers: statement, fingerprint asked, (ghost) Len(gens) at the call, completed observations

vars == <<file, loads, table, wr, rd, pc, i, m, rec, serr, ret, t0, gens, rpc, rfp, rlo, obs>>

NoRec == [b |-> 0, dn |-> 0, ws |-> 0, fp |-> "none"]
Undecodable == [b |-> 0, dn |-> 0, ws |-> 0, fp |-> "undecodable"]

(* bufio.Scanner.Scan with ScanLines: the next line, or stop.  A line longer
   than the token limit stops the scan with ErrTooLong; the failing reader
   stops it with the reader's error after the lines before the cut *)
ScanStops(f, j) == j > Len(f.lines) \/ (f.v = "readerr" /\ j > f.cut)
ScanFails(f, j) ==
  \/ (f.v = "readerr" /\ j > f.cut)
  \/ (j <= Len(f.lines) /\ f.lines[j].c \in {"long", "longbad"})

(* json.Decoder.Decode with DisallowUnknownFields into BridgeInfo, per class.
   A byte order mark makes the first line undecodable. *)
Decode(f, j) ==
  LET ln == f.lines[j] IN
  IF j = 1 /\ f.v \in {"bom", "bomnofinal"} THEN Undecodable
  ELSE CASE ln.c \in {"ok", "okcrlf", "casefold", "trailing"} -> [b |-> ln.b, dn |-> j, ws |-> j, fp |-> "good"]
         [] ln.c = "lower"   -> [b |-> ln.b, dn |-> j, ws |-> j, fp |-> "good"]   \* hex.DecodeString takes both cases: the same bytes
         [] ln.c = "nodn"    -> [b |-> ln.b, dn |-> 0, ws |-> j, fp |-> "good"]   \* absent / null member: the zero value
         [] ln.c = "nows"    -> [b |-> ln.b, dn |-> j, ws |-> 0, fp |-> "good"]
         [] ln.c = "dupkey"  -> [b |-> ln.b, dn |-> j, ws |-> j + DupOff, fp |-> "good"]   \* the later member wins
         [] ln.c = "nofp"    -> [b |-> 0, dn |-> j, ws |-> j, fp |-> "badlen"]    \* "" decodes to 0 bytes
         [] ln.c = "fphex"   -> [b |-> 0, dn |-> j, ws |-> j, fp |-> "nothex"]
         [] ln.c = "fplen"   -> [b |-> 0, dn |-> j, ws |-> j, fp |-> "badlen"]
         [] OTHER            -> Undecodable      \* extra, wrongtype, notjson, blank (io.EOF)

StartLoad ==
  /\ pc = "idle" /\ loads > 0
  /\ \E f \in MachineFiles : file' = f
  /\ loads' = loads - 1
  /\ pc' = (IF Mut = "clearfirst" THEN "clear" ELSE "scan")
  /\ i' = 0 /\ m' = EmptyTable /\ rec' = NoRec /\ serr' = FALSE /\ ret' = "none" /\ t0' = table
  /\ UNCHANGED <<table, wr, rd, gens, rpc, rfp, rlo, obs>>

(* what-if clearfirst: h.bridgeInfo = map{} under the lock before reading *)
Clear ==
  /\ pc = "clear" /\ ~wr /\ rd = {}
  /\ table' = EmptyTable /\ pc' = "scan"
  /\ UNCHANGED <<file, loads, wr, rd, i, m, rec, serr, ret, t0, gens, rpc, rfp, rlo, obs>>

Scan ==
  /\ pc = "scan"
  /\ i' = i + 1
  /\ IF ScanStops(file, i + 1) \/ ScanFails(file, i + 1)
       THEN pc' = "afterloop" /\ serr' = ScanFails(file, i + 1)
       ELSE pc' = "decode" /\ serr' = serr
  /\ UNCHANGED <<file, loads, table, wr, rd, m, rec, ret, t0, gens, rpc, rfp, rlo, obs>>

Fail == IF Mut = "skipbad" THEN pc' = "scan" /\ ret' = ret ELSE pc' = "idle" /\ ret' = "err"

DecodeLine ==
  /\ pc = "decode"
  /\ LET d == Decode(file, i) IN
       IF d = Undecodable THEN Fail /\ rec' = rec
       ELSE rec' = d /\ pc' = "trail" /\ ret' = ret
  /\ UNCHANGED <<file, loads, table, wr, rd, i, m, serr, t0, gens, rpc, rfp, rlo, obs>>

(* the object must be the only thing on the line *)
Trailing ==
  /\ pc = "trail"
  /\ IF file.lines[i].c = "trailing" /\ Mut # "notrail" THEN Fail ELSE pc' = "fp" /\ ret' = ret
  /\ UNCHANGED <<file, loads, table, wr, rd, i, m, rec, serr, t0, gens, rpc, rfp, rlo, obs>>

(* bridgefingerprint.FingerprintFromHexString: hex, then 20 or 32 bytes *)
Fingerprint ==
  /\ pc = "fp"
  /\ IF rec.fp # "good" THEN Fail ELSE pc' = "put" /\ ret' = ret
  /\ UNCHANGED <<file, loads, table, wr, rd, i, m, rec, serr, t0, gens, rpc, rfp, rlo, obs>>

PutRec ==
  /\ pc = "put"
  /\ IF Mut = "inplace"
       THEN /\ ~wr /\ rd = {}                       \* (lock; write; unlock) in one step
            /\ table' = [table EXCEPT ![rec.b] = Rec(rec.dn, rec.ws)] /\ m' = m
       ELSE /\ m' = (IF Mut = "firstwins" /\ m[rec.b] # None THEN m ELSE [m EXCEPT ![rec.b] = Rec(rec.dn, rec.ws)])
            /\ table' = table
  /\ pc' = "scan"
  /\ UNCHANGED <<file, loads, wr, rd, i, rec, serr, ret, t0, gens, rpc, rfp, rlo, obs>>

(* if err := inputScanner.Err(); err != nil { return err } *)
AfterLoop ==
  /\ pc = "afterloop"
  /\ IF serr /\ Mut # "noscanerr" THEN pc' = "idle" /\ ret' = "err"
     ELSE pc' = (IF Mut = "inplace" THEN "unlock" ELSE IF Mut = "nolock" THEN "swap" ELSE "lock") /\ ret' = ret
  /\ UNCHANGED <<file, loads, table, wr, rd, i, m, rec, serr, t0, gens, rpc, rfp, rlo, obs>>

Lock ==
  /\ pc = "lock" /\ ~wr /\ rd = {}
  /\ wr' = TRUE /\ pc' = "swap"
  /\ UNCHANGED <<file, loads, table, rd, i, m, rec, serr, ret, t0, gens, rpc, rfp, rlo, obs>>

NewTable == IF Mut = "merge" THEN [b \in Bridges |-> IF m[b] # None THEN m[b] ELSE table[b]] ELSE m

Swap ==
  /\ pc = "swap"
  /\ table' = NewTable
  /\ gens' = Append(gens, NewTable)
  /\ pc' = "unlock"
  /\ UNCHANGED <<file, loads, wr, rd, i, m, rec, serr, ret, t0, rpc, rfp, rlo, obs>>

Unlock ==
  /\ pc = "unlock"
  /\ wr' = FALSE /\ pc' = "idle" /\ ret' = "ok"
  /\ gens' = (IF Mut = "inplace" THEN Append(gens, table) ELSE gens)
  /\ UNCHANGED <<file, loads, table, rd, i, m, rec, serr, t0, rpc, rfp, rlo, obs>>

Loader == StartLoad \/ Clear \/ Scan \/ DecodeLine \/ Trailing \/ Fingerprint \/ PutRec \/ AfterLoop \/ Lock \/ Swap \/ Unlock

(* GetBridgeInfo(fingerprint of b) *)
Call(r) ==
  /\ rpc[r] = "idle" /\ Len(obs[r]) < MaxLookups
  /\ \E b \in Probes : rfp' = [rfp EXCEPT ![r] = b]
  /\ rlo' = [rlo EXCEPT ![r] = Len(gens)]
  /\ rpc' = [rpc EXCEPT ![r] = "rlock"]
  /\ UNCHANGED <<file, loads, table, wr, rd, pc, i, m, rec, serr, ret, t0, gens, obs>>

RLock(r) ==
  /\ rpc[r] = "rlock" /\ ~wr
  /\ rd' = rd \cup {r}
  /\ rpc' = [rpc EXCEPT ![r] = "read"]
  /\ UNCHANGED <<file, loads, table, wr, pc, i, m, rec, serr, ret, t0, gens, rfp, rlo, obs>>

ReadRet(r) ==    \* the map read, the deferred RUnlock and the return
  /\ rpc[r] = "read"
  /\ obs' = [obs EXCEPT ![r] = Append(@, [b |-> rfp[r], ans |-> Lookup(table, rfp[r]), lo |-> rlo[r], hi |-> Len(gens)])]
  /\ rd' = rd \ {r}
  /\ rpc' = [rpc EXCEPT ![r] = "idle"]
  /\ UNCHANGED <<file, loads, table, wr, pc, i, m, rec, serr, ret, t0, gens, rfp, rlo>>

Reader(r) == Call(r) \/ RLock(r) \/ ReadRet(r)

(* cases / offer mode: every file (table) is an initial state, nothing moves *)
Init ==
  /\ IF Mode = "cases" THEN \E s \in Seqs : \E w \in VarsOf(Len(s)) : file = File(s, w)
     ELSE IF Mode = "offer" THEN file \in OfferFiles
     ELSE file = NoFile
  /\ loads = (IF Mode = "machine" THEN NLoads ELSE 0)
  /\ table = PrevTable
  /\ wr = FALSE /\ rd = {}
  /\ pc = "idle" /\ i = 0 /\ m = EmptyTable /\ rec = NoRec /\ serr = FALSE /\ ret = "none" /\ t0 = PrevTable
  /\ gens = <<PrevTable>>
  /\ rpc = [r \in Readers |-> "idle"] /\ rfp = [r \in Readers |-> Unknown] /\ rlo = [r \in Readers |-> 1]
  /\ obs = [r \in Readers |-> <<>>]

(* in cases / offer mode nothing is enabled: loads = 0 and Readers = {} *)
Next == Loader \/ \E r \in Readers : Reader(r)

Spec == Init /\ [][Next]_vars

(* the sequential loader run on EVERY enumerated file (machine-vs-contract on the case domain) *)
SeqInit ==
  /\ \E s \in Seqs : \E w \in VarsOf(Len(s)) : file = File(s, w)
  /\ \E T \in {PrevTable, EmptyTable} : table = T /\ t0 = T /\ gens = <<T>>
  /\ loads = 0 /\ wr = FALSE /\ rd = {}
  /\ pc = "scan" /\ i = 0 /\ m = EmptyTable /\ rec = NoRec /\ serr = FALSE /\ ret = "none"
  /\ rpc = [r \in Readers |-> "idle"] /\ rfp = [r \in Readers |-> Unknown] /\ rlo = [r \in Readers |-> 1]
  /\ obs = [r \in Readers |-> <<>>]

SeqSpec == SeqInit /\ [][Loader]_vars

(* ----- invariants ----- *)

TypeOK ==
  /\ pc \in {"idle", "clear", "scan", "decode", "trail", "fp", "put", "afterloop", "lock", "swap", "unlock"}
  /\ ret \in {"none", "ok", "err"}
  /\ wr \in BOOLEAN /\ rd \subseteq Readers
  /\ \A b \in Bridges : table[b] = None \/ table[b].dn >= 0
  /\ i \in 0..(Len(file.lines) + 1)

Returned == pc = "idle" /\ ret # "none"

MeetsContract == Returned => Outcome(ret = "err", table) \in Allowed(file, t0)

AllOrNothing ==
  Returned =>
    /\ MustReject(file) => ret = "err"
    /\ ret = "err" => table = t0
    /\ ret = "ok" => \A b \in Bridges : LastLine(file, b, table)

LastWins == (Returned /\ ret = "ok") => \A b \in Bridges : LastLine(file, b, table)

NoIntermediate == \E g \in 1..Len(gens) : table = gens[g]

OldOrNew ==
  \A r \in Readers : \A k \in 1..Len(obs[r]) :
    LET o == obs[r][k] IN \E g \in o.lo..o.hi : o.ans = Lookup(gens[g], o.b)

RaceFree == (pc = "swap" /\ rd # {}) => wr        \* with wr, rd = {} by LockOK
LockOK == ~(wr /\ rd # {})

(* the code's answer on a file: what the machine returns (a function of the file and the table before) *)
CodeChoice(ln, j) ==
  CASE ln.c \in {"ok", "okcrlf", "lower", "casefold"} -> Put(ln.b, j, j)
    [] ln.c = "nodn"   -> Put(ln.b, 0, j)
    [] ln.c = "nows"   -> Put(ln.b, j, 0)
    [] ln.c = "dupkey" -> Put(ln.b, j, j + DupOff)
    [] OTHER           -> Reject      \* long: ErrTooLong; blank: io.EOF
RECURSIVE CodeTable(_, _)
CodeTable(lines, j) == IF j = 0 THEN EmptyTable ELSE Apply(CodeTable(lines, j - 1), CodeChoice(lines[j], j))
CodeOutcome(f, T0) ==
  IF f.v \in {"readerr", "bom", "bomnofinal"} \/ \E j \in 1..Len(f.lines) : CodeChoice(f.lines[j], j) = Reject
    THEN Outcome(TRUE, T0) ELSE Outcome(FALSE, CodeTable(f.lines, Len(f.lines)))

MachineIsCode == Returned => Outcome(ret = "err", table) = CodeOutcome(file, t0)

(* ----- emission (cases / offer mode) -----
   rows: table <<b, dn, ws>>; get <<b, found (1/0), dn, ws>> for every probe *)

TableSet(T) == {<<b, T[b].dn, T[b].ws>> : b \in {x \in Bridges : T[x] # None}}
GetSet(T) == {<<b, IF Lookup(T, b).found THEN 1 ELSE 0, Lookup(T, b).dn, Lookup(T, b).ws>> : b \in Probes}
Out(o) == [e |-> o.err, t |-> TableSet(o.table), g |-> GetSet(o.table)]

Emit ==
  \/ Mode # "cases"
  \/ /\ ContractLaws(file, EmptyTable) /\ ContractLaws(file, PrevTable)
     /\ CodeOutcome(file, EmptyTable) \in Allowed(file, EmptyTable)
     /\ CodeOutcome(file, PrevTable) \in Allowed(file, PrevTable)
     /\ PrintT(ToJson([kind |-> "load", lines |-> file.lines, v |-> file.v, cut |-> file.cut,
                       prev |-> TableSet(PrevTable),
                       fresh |-> {Out(o) : o \in Allowed(file, EmptyTable)},
                       reload |-> {Out(o) : o \in Allowed(file, PrevTable)},
                       code |-> <<Out(CodeOutcome(file, EmptyTable)), Out(CodeOutcome(file, PrevTable))>>]))

(* IPC cases: the table is the built-in one (bridge 1 at DefaultAddress:
   version -2, rendered by the driver from `defaults`) or what installing a
   MachineFile over it leaves; the client names no bridge (0), a bridge, the
   unknown one, or sends a malformed fingerprint *)
DefaultTable == [b \in Bridges |-> IF b = 1 THEN Rec(-2, -2) ELSE None]
Malformed == 98
Wants == {0, Malformed} \cup Probes
Expect(T, w) == IF w = Malformed THEN [refused |-> TRUE, b |-> 0, ws |-> -1] ELSE ExpectOffer(T, w)
Offers(T) == {[want |-> w, refused |-> Expect(T, w).refused, b |-> Expect(T, w).b, ws |-> Expect(T, w).ws] : w \in Wants}

EmitOffer ==
  \/ Mode # "offer"
  \/ PrintT(ToJson([kind |-> "offer", lines |-> file.lines, v |-> file.v, cut |-> file.cut,
                    defaults |-> [fingerprint |-> DefaultFingerprint, address |-> DefaultAddress],
                    builtin |-> [t |-> TableSet(DefaultTable), offers |-> Offers(DefaultTable)],
                    after |-> {[e |-> o.err, t |-> TableSet(o.table), offers |-> Offers(o.table)] : o \in Allowed(file, DefaultTable)}]))

=============================================================================
