CONSTANTS
  Mode = "cases"
  Bridges = {1, 2, 3}
  FileBridges = {1, 2}
  Classes = {"ok", "long", "notjson", "blank"}
  Variants = {"plain", "nofinal", "readerr"}
  MinLen = 5
  MaxLen = 5
  Mut = "none"
  Readers = {}
  MaxLookups = 0
  NLoads = 0
SPECIFICATION Spec
INVARIANTS TypeOK Emit
CHECK_DEADLOCK FALSE
