-------------------------- MODULE BridgeListContract --------------------------
(* PART 1 of spec/BridgeList (see BridgeList.tla for the whole story): the
   documented contract of LoadBridgeInfo / GetBridgeInfo and of the IPC pair
   that uses the table, as operators over abstract files.  No variables: the
   machine (BridgeList.tla) and the trace specification (BridgeList_Trace.tla)
   both extend it. *)
EXTENDS Integers, Sequences, FiniteSets, TLC, Json

CONSTANTS
  Bridges      \* bridge identities files may name; 1 is the default bridge (its fingerprint is DefaultFingerprint)

(* documented constants (bridge-list.go header, common/messages/client.go): the
   drivers take them from here, never from the code *)
DefaultFingerprint == "2B280B23E1107BB62ABFC40DDCC8824814F80A72"
DefaultAddress == "wss://snowflake.torproject.net/"
ScannerLimit == 65536          \* bufio.MaxScanTokenSize; renderings of long/longbad exceed it, all others stay below 61000 bytes

Unknown == 99                  \* a bridge no file names
Probes == Bridges \cup {Unknown}
DupOff == 10                   \* dupkey: the second webSocketAddress member has version i + DupOff

RecClasses == {"ok", "okcrlf", "lower", "casefold", "nodn", "nows", "dupkey", "long", "trailing"}
BadClasses == {"extra", "nofp", "wrongtype", "notjson", "fphex", "fplen", "longbad", "blank"}
AllClasses == RecClasses \cup BadClasses
AllVariants == {"plain", "nofinal", "bom", "bomnofinal", "readerr"}

None == [dn |-> -1, ws |-> -1]
Rec(dn, ws) == [dn |-> dn, ws |-> ws]
EmptyTable == [b \in Bridges |-> None]
Has(T, b) == b \in Bridges /\ T[b] # None

(* --------------------------------------------------------------------- *)
(* contract                                                              *)

Put(b, dn, ws) == [k |-> "put", b |-> b, dn |-> dn, ws |-> ws]
Reject == [k |-> "reject", b |-> 0, dn |-> 0, ws |-> 0]
Skip == [k |-> "skip", b |-> 0, dn |-> 0, ws |-> 0]

Effects(ln, i) ==
  CASE ln.c \in {"ok", "okcrlf"}                  -> {Put(ln.b, i, i)}
    [] ln.c \in {"long", "lower", "casefold"}     -> {Put(ln.b, i, i), Reject}
    [] ln.c = "nodn"                              -> {Put(ln.b, 0, i), Reject}
    [] ln.c = "nows"                              -> {Put(ln.b, i, 0), Reject}
    [] ln.c = "dupkey"                            -> {Put(ln.b, i, i), Put(ln.b, i, i + DupOff), Reject}
    [] ln.c = "blank"                             -> {Skip, Reject}
    [] OTHER                                      -> {Reject}

Apply(T, e) == IF e.k = "put" THEN [T EXCEPT ![e.b] = Rec(e.dn, e.ws)] ELSE T

RECURSIVE Tables(_, _)
(* the tables lines 1..i can build when no line is rejected *)
Tables(lines, i) ==
  IF i = 0 THEN {EmptyTable}
  ELSE LET before == Tables(lines, i - 1)
           effs == {e \in Effects(lines[i], i) : e.k # "reject"}
       IN  {Apply(T, e) : T \in before, e \in effs}

(* two lines for the same bridge: the documentation does not mention the case.  Records are loaded in file
   order, so an implementation that accepts the file lets the LATER one win; refusing the file is allowed too *)
PutBridges(ln, i) == {e.b : e \in {x \in Effects(ln, i) : x.k = "put"}}
DupFingerprint(f) == \E i, j \in 1..Len(f.lines) : i < j /\ PutBridges(f.lines[i], i) \cap PutBridges(f.lines[j], j) # {}

MayReject(f) ==
  \/ f.v = "readerr"
  \/ f.v \in {"bom", "bomnofinal"}
  \/ \E i \in 1..Len(f.lines) : Reject \in Effects(f.lines[i], i)
  \/ DupFingerprint(f)

MayAccept(f) == f.v # "readerr"

MustReject(f) == ~MayAccept(f) \/ \E i \in 1..Len(f.lines) : Effects(f.lines[i], i) = {Reject}

Outcome(err, T) == [err |-> err, table |-> T]

Allowed(f, T0) ==
  (IF MayReject(f) THEN {Outcome(TRUE, T0)} ELSE {})
  \cup (IF MayAccept(f) THEN {Outcome(FALSE, T) : T \in Tables(f.lines, Len(f.lines))} ELSE {})

(* GetBridgeInfo *)
Lookup(T, b) == IF Has(T, b) THEN [found |-> TRUE, dn |-> T[b].dn, ws |-> T[b].ws]
                ELSE [found |-> FALSE, dn |-> -1, ws |-> -1]

(* ClientOffers + ProxyPolls; want = 0: the client names no bridge *)
ExpectOffer(T, want) ==
  LET b == IF want = 0 THEN 1 ELSE want
  IN  IF Has(T, b) THEN [refused |-> FALSE, b |-> b, ws |-> T[b].ws]
      ELSE [refused |-> TRUE, b |-> b, ws |-> -1]

(* the contract decides these by itself (checked as ASSUME-like invariants in cases mode) *)
LastLine(f, b, T) ==   \* T[b] is a record the LAST non-skipped line naming b may produce
  LET idx == {i \in 1..Len(f.lines) : \E e \in Effects(f.lines[i], i) : e.k = "put" /\ e.b = b}
  IN  IF idx = {} THEN T[b] = None
      ELSE LET i == CHOOSE j \in idx : \A k \in idx : k <= j
           IN  \E e \in Effects(f.lines[i], i) : e.k = "put" /\ T[b] = Rec(e.dn, e.ws)

ContractLaws(f, T0) ==
  /\ Allowed(f, T0) # {}
  /\ \A o \in Allowed(f, T0) :
        /\ o.err => o.table = T0
        /\ ~o.err => \A b \in Bridges : LastLine(f, b, o.table)

=============================================================================
