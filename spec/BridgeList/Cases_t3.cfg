CONSTANTS
  Mode = "cases"
  Bridges = {1, 2, 3}
  FileBridges = {1, 2}
  Classes = {"ok", "okcrlf", "lower", "casefold", "nodn", "nows", "dupkey", "long", "trailing", "extra", "nofp", "wrongtype", "notjson", "fphex", "fplen", "longbad", "blank"}
  Variants = {"plain", "nofinal", "bom", "bomnofinal", "readerr"}
  MinLen = 3
  MaxLen = 3
  Mut = "none"
  Readers = {}
  MaxLookups = 0
  NLoads = 0
SPECIFICATION Spec
INVARIANTS TypeOK Emit
CHECK_DEADLOCK FALSE
