CONSTANTS
  Legacy = TRUE
  Valid = FALSE
SPECIFICATION Spec
CONSTRAINT Collect
INVARIANTS ProfileMonotone FailedInstall ProfileAtomic
POSTCONDITION Post
CHECK_DEADLOCK FALSE
