---------------------------- MODULE BridgeProfile ----------------------------
(* PART 3 of spec/BridgeList: the ORDER in which InstallBridgeListProfile
   (broker/broker.go) publishes a profile, and what one concurrent request can
   observe of it.

     func (ctx *BrokerContext) InstallBridgeListProfile(reader, relayPattern, presumed) error {
         if err := ctx.bridgeList.LoadBridgeInfo(reader); err != nil { return err }   // table swapped under the RW lock
         ctx.allowedRelayPattern = relayPattern                                        // plain store, no lock
         ctx.presumedPatternForLegacyClient = presumed                                 // plain store, no lock
         return nil }

   A proxy poll (ipc.go ProxyPolls) reads, in this order: presumed (only a
   poll without the pattern extension), allowed (both in CheckProxyRelayPattern,
   no lock), then - once RequestOffer has returned a client's offer - the
   table (GetBridgeInfo, read lock).  The client whose offer that is read the
   table before (ClientOffers' own GetBridgeInfo): "c" below.

   Reading under sequential consistency (the weakest assumption that makes
   sense of the two plain strings at all; Go's memory model promises nothing
   for them, the race detector reports them):

     SeenSet         exactly the observations (presumed, allowed, client's table, proxy's table) that occur
     ProfileAtomic   "all old or all new": VIOLATED (what-if configuration expects the violation)
     ProfileMonotone presumed new => allowed new => proxy's table new; client's table new => proxy's table new: holds
     FailedInstall   an install whose file is invalid changes none of the three: holds

   Consequences of a mixture (stated, not demanded: in this repository the
   only call is in main() before any listener runs, and there is no reload):
   a poll can be judged against the NEW allowed pattern with the OLD presumed
   one; a client accepted under the OLD table can have its proxy look the
   bridge up in the NEW one - if the new list dropped the bridge, ProxyPolls
   returns ErrBridgeNotFound to the proxy and the client times out. *)
EXTENDS Integers, TLC, Json

CONSTANTS Legacy,   \* the poll carries no pattern: CheckProxyRelayPattern reads presumed first
          Valid     \* the installed file is valid

VARIABLES tab, allowed, presumed, ipc, ppc, seen

vars == <<tab, allowed, presumed, ipc, ppc, seen>>

Init ==
  /\ tab = "old" /\ allowed = "old" /\ presumed = "old"
  /\ ipc = "load" /\ ppc = "client"
  /\ seen = [p |-> "-", a |-> "-", c |-> "-", t |-> "-"]

ILoad    == ipc = "load" /\ (IF Valid THEN tab' = "new" /\ ipc' = "allowed" ELSE tab' = tab /\ ipc' = "failed") /\ UNCHANGED <<allowed, presumed, ppc, seen>>
IAllowed == ipc = "allowed" /\ allowed' = "new" /\ ipc' = "presumed" /\ UNCHANGED <<tab, presumed, ppc, seen>>
IPresume == ipc = "presumed" /\ presumed' = "new" /\ ipc' = "done" /\ UNCHANGED <<tab, allowed, ppc, seen>>

(* the poll arrives first (it must be waiting before a client can be matched with it);
   the order of the steps of ONE poll and ITS client: check pattern(s), wait, client checks table, proxy reads table *)
PPresumed == ppc = "client" /\ seen.p = "-" /\ seen.a = "-" /\ Legacy /\ seen' = [seen EXCEPT !.p = presumed] /\ UNCHANGED <<tab, allowed, presumed, ipc, ppc>>
PAllowed  == ppc = "client" /\ seen.a = "-" /\ (Legacy => seen.p # "-") /\ seen' = [seen EXCEPT !.a = allowed] /\ UNCHANGED <<tab, allowed, presumed, ipc, ppc>>
CTable    == ppc = "client" /\ seen.a # "-" /\ seen' = [seen EXCEPT !.c = tab] /\ ppc' = "proxy" /\ UNCHANGED <<tab, allowed, presumed, ipc>>
PTable    == ppc = "proxy" /\ seen' = [seen EXCEPT !.t = tab] /\ ppc' = "done" /\ UNCHANGED <<tab, allowed, presumed, ipc>>

Next == ILoad \/ IAllowed \/ IPresume \/ PPresumed \/ PAllowed \/ CTable \/ PTable
Spec == Init /\ [][Next]_vars

Done == ppc = "done"
New(x) == x = "new"

ProfileAtomic == Done => (\A f \in {"a", "c", "t"} : seen[f] = seen.a) /\ (Legacy => seen.p = seen.a)
ProfileMonotone ==
  Done => /\ (New(seen.p) => New(seen.a))
          /\ (New(seen.a) => New(seen.t))
          /\ (New(seen.c) => New(seen.t))
FailedInstall == ipc = "failed" => tab = "old" /\ allowed = "old" /\ presumed = "old"

(* collect the observations (one worker) *)
Collect ==
  /\ (IF Done THEN TLCSet(1, TLCGet(1) \cup {seen}) ELSE TRUE)
  /\ (IF ipc \in {"done", "failed"} THEN TLCSet(2, TLCGet(2) \cup {[table |-> tab, allowed |-> allowed, presumed |-> presumed]}) ELSE TRUE)
ASSUME TLCSet(1, {}) /\ TLCSet(2, {})
O(p, a, c, t) == [p |-> p, a |-> a, c |-> c, t |-> t]
Expected ==
  IF ~Valid THEN {O(IF Legacy THEN "old" ELSE "-", "old", "old", "old")}
  ELSE IF Legacy
    THEN {O("old", "old", "old", "old"), O("old", "old", "old", "new"), O("old", "old", "new", "new"),
          O("old", "new", "new", "new"), O("new", "new", "new", "new")}
    ELSE {O("-", "old", "old", "old"), O("-", "old", "old", "new"), O("-", "old", "new", "new"), O("-", "new", "new", "new")}
(* after the install has returned: everything new, or (invalid file) everything old *)
ExpectedFinal == {[table |-> x, allowed |-> x, presumed |-> x] : x \in {IF Valid THEN "new" ELSE "old"}}
Post ==
  /\ PrintT(ToJson([kind |-> "profile", legacy |-> Legacy, valid |-> Valid, seen |-> TLCGet(1), final |-> TLCGet(2)]))
  /\ TLCGet(1) = Expected
  /\ TLCGet(2) = ExpectedFinal
=============================================================================
