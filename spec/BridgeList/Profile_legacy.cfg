CONSTANTS
  Legacy = TRUE
  Valid = TRUE
SPECIFICATION Spec
CONSTRAINT Collect
INVARIANTS ProfileMonotone FailedInstall
POSTCONDITION Post
CHECK_DEADLOCK FALSE
