CONSTANTS
  Mode = "machine"
  Bridges = {1, 2}
  FileBridges = {1, 2}
  Classes = {}
  Variants = {}
  MinLen = 0
  MaxLen = 0
  Mut = "none"
  Readers = {1}
  MaxLookups = 2
  NLoads = 2
SPECIFICATION Spec
INVARIANTS TypeOK MeetsContract AllOrNothing LastWins NoIntermediate OldOrNew MachineIsCode LockOK RaceFree
CHECK_DEADLOCK FALSE
