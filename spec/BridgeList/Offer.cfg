CONSTANTS
  Mode = "offer"
  Bridges = {1, 2, 3}
  FileBridges = {1, 2, 3}
  Classes = {}
  Variants = {}
  MinLen = 0
  MaxLen = 0
  Mut = "none"
  Readers = {}
  MaxLookups = 0
  NLoads = 0
SPECIFICATION Spec
INVARIANTS TypeOK EmitOffer
CHECK_DEADLOCK FALSE
