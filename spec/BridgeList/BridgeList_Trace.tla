-------------------------- MODULE BridgeList_Trace --------------------------
(* Trace specification: every trace recorded from the REAL bridgeListHolder
   while one goroutine reloads it and others look fingerprints up must be
   explained by the contract (BridgeListContract) plus atomicity of the swap.

   traces.ndjson, one trace per line, written by
   harness/inpkg/broker/bridgelist_verif_test.go:
     {"id": n, "prev": [[b, dn, ws], ...], "events": [e1, e2, ...]}
   prev is the table the holder starts with.  Events, merged from the
   goroutines' private logs by their monotonic time stamps (a call record is
   stamped BEFORE the call, a return record AFTER the return, ties put calls
   first: windows only widen):

     load{lines, v, cut}        LoadBridgeInfo is called with a rendering of this abstract file
     loaded{err, t}             it returned (error or nil); t = the rows of the table read right after
     get{r, b}                  goroutine r calls GetBridgeInfo(fingerprint of bridge b)
     got{r, b, found, dn, ws}   its answer

   The swap is a silent step between load and loaded: the table becomes ONE
   of the tables the contract allows for that file (don't-cares are settled
   by what `loaded` reports), atomically.  A load that returns an error never
   swapped.  An answer must be the answer of a table that was current at some
   instant between get and got - never a mixture, never an emptied or
   half-filled table. *)
EXTENDS BridgeListContract, TLCExt

VARIABLES tr, l, cur, gens, pend, rlo

tvars == <<tr, l, cur, gens, pend, rlo>>

Traces == ndJsonDeserialize("traces.ndjson")
NT == Len(Traces)
Events(t) == Traces[t].events
MaxReaders == 64

Rows(t) == {<<t[k][1], t[k][2], t[k][3]>> : k \in 1..Len(t)}
TableOfRows(rows) == [b \in Bridges |-> IF \E x \in rows : x[1] = b THEN (LET x == CHOOSE y \in rows : y[1] = b IN Rec(x[2], x[3])) ELSE None]
TableSet(T) == {<<b, T[b].dn, T[b].ws>> : b \in {x \in Bridges : T[x] # None}}

NoLoad == [on |-> FALSE, sw |-> FALSE, f |-> [lines |-> <<>>, v |-> "plain", cut |-> 0]]

TInit ==
  /\ tr \in 1..NT
  /\ l = 1
  /\ cur = TableOfRows(Rows(Traces[tr].prev))
  /\ gens = <<cur>>
  /\ pend = NoLoad
  /\ rlo = [r \in 1..MaxReaders |-> 1]
  /\ TLCSet(tr, 1)

HasNext == l <= Len(Events(tr))
E == Events(tr)[l]
IsEv(n) == HasNext /\ E.ev = n
Adv == l' = l + 1 /\ tr' = tr

TLoad ==
  /\ IsEv("load") /\ ~pend.on
  /\ pend' = [on |-> TRUE, sw |-> FALSE, f |-> [lines |-> E.lines, v |-> E.v, cut |-> E.cut]]
  /\ UNCHANGED <<cur, gens, rlo>> /\ Adv

TSwap ==
  /\ HasNext /\ pend.on /\ ~pend.sw
  /\ \E o \in Allowed(pend.f, cur) :
        /\ ~o.err
        /\ cur' = o.table
        /\ gens' = Append(gens, o.table)
  /\ pend' = [pend EXCEPT !.sw = TRUE]
  /\ UNCHANGED <<tr, l, rlo>>

TLoaded ==
  /\ IsEv("loaded") /\ pend.on
  /\ Rows(E.t) = TableSet(cur)
  /\ IF E.err THEN ~pend.sw /\ Outcome(TRUE, cur) \in Allowed(pend.f, cur) ELSE pend.sw
  /\ pend' = NoLoad
  /\ UNCHANGED <<cur, gens, rlo>> /\ Adv

TGet ==
  /\ IsEv("get") /\ E.r \in 1..MaxReaders
  /\ rlo' = [rlo EXCEPT ![E.r] = Len(gens)]
  /\ UNCHANGED <<cur, gens, pend>> /\ Adv

TGot ==
  /\ IsEv("got") /\ E.r \in 1..MaxReaders
  /\ \E g \in rlo[E.r]..Len(gens) : Lookup(gens[g], E.b) = [found |-> E.found, dn |-> E.dn, ws |-> E.ws]
  /\ UNCHANGED <<cur, gens, pend, rlo>> /\ Adv

TNext == TLoad \/ TSwap \/ TLoaded \/ TGet \/ TGot

TSpec == TInit /\ [][TNext]_tvars

Mark == (IF l > TLCGet(tr) THEN TLCSet(tr, l) ELSE TRUE)

Rejected == {t \in 1..NT : TLCGet(t) # Len(Events(t)) + 1}

Post == PrintT(ToJson([nt |-> NT, rejected |-> {<<Traces[t].id, TLCGet(t)>> : t \in Rejected}]))

(* on every state of every explained execution: the current table is the newest generation *)
TCurIsNewest == cur = gens[Len(gens)]
=============================================================================
