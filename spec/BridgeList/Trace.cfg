CONSTANTS
  Bridges = {1, 2, 3}
SPECIFICATION TSpec
CONSTRAINT Mark
INVARIANTS TCurIsNewest
POSTCONDITION Post
CHECK_DEADLOCK FALSE
