CONSTANTS
  Legacy = TRUE
  Valid = TRUE
SPECIFICATION Spec
CONSTRAINT Collect
INVARIANTS ProfileAtomic
POSTCONDITION Post
CHECK_DEADLOCK FALSE
