CONSTANTS
  Mode = "cases"
  Bridges = {1, 2, 3}
  FileBridges = {1, 2}
  Classes = {"ok", "lower", "nows", "dupkey", "long", "trailing", "notjson", "blank"}
  Variants = {"plain", "nofinal", "bom", "bomnofinal"}
  MinLen = 3
  MaxLen = 3
  Mut = "none"
  Readers = {}
  MaxLookups = 0
  NLoads = 0
SPECIFICATION Spec
INVARIANTS TypeOK Emit
CHECK_DEADLOCK FALSE
