CONSTANTS
  BrokerNames = {"http-root", "https-root", "https-port", "https-dir", "https-nodir", "https-nopath"}
  FrontNames = {"none", "front"}
  CacheNames = {"none", "root", "path"}
  Statuses = {100, 101, 200, 201, 204, 206, 301, 302, 303, 304, 307, 308, 400, 404, 500, 503}
  SizeNames = {"0", "small", "limit-1", "limit", "limit+1", "2limit"}
  PollLens = {0, 1, 300, 1500}
  MaxPolls = 3
SPECIFICATION Spec
INVARIANTS ObjectImmutable PollsIndependent Emit
PROPERTY AllPolled
CHECK_DEADLOCK FALSE
