CONSTANTS
  BrokerNames = {"http-root", "https-root", "https-port", "https-nodir"}
  FrontNames = {"none", "front"}
  CacheNames = {"none", "root", "path"}
  Statuses = {101, 200, 204, 206, 301, 302, 303, 304, 307, 308, 404, 500}
  SizeNames = {"0", "small", "limit-1", "limit", "limit+1", "2limit"}
  PollLens = {0, 300}
  MaxPolls = 3
SPECIFICATION Spec
INVARIANTS ObjectImmutable PollsIndependent Emit
PROPERTY AllPolled
CHECK_DEADLOCK FALSE
