----------------------------- MODULE Rendezvous -----------------------------
(* client/lib/rendezvous_http.go, rendezvous_ampcache.go: one exchange of a
   client poll with the broker, directly (POST .../client) or through the AMP
   endpoint (GET .../amp/client/<encoded poll>), optionally through an AMP
   cache, optionally domain-fronted.

   A case is a configuration (method, broker URL, front, cache) - ONE
   rendezvous object - and a sequence of 1..MaxPolls polls on it, each with a
   scripted HTTP response (status, Location header, body shape and size).
   The contract has two halves, both computed here and printed with the case:

   Req  - the request the transport must be handed:
          * it is addressed (URL host) to the front if one is configured,
            else to the origin;
          * the origin - the broker's host[:port], or with a cache the
            broker's domain prefix "." the cache's host[:port] - is named in
            the Host header (req.Host, or the URL host when unfronted);
          * without a cache a fronted request does not name the broker
            anywhere in its URL;
          * scheme, method, and the path: the broker's path resolved with
            "client" / "amp/client/<encoded poll>" (RFC 3986 reference
            resolution), under the cache's path + /c[/s]/<broker host> when a
            cache is used; the body (POST) or the decoded path suffix (GET)
            is the poll, byte for byte.
          Exactly ONE request is handed to the transport per Exchange (field
          "requests" of the expectation): a redirect (301/302/303/307/308
          with or without a Location, relative or absolute, same or another
          host) is NOT followed - a followed redirect would contact the
          Location's host directly, unfronted.  The scripted transport
          answers 200 with a valid body to any follow-up request, so that a
          followed redirect looks like a success.
   Res  - the class of Exchange's result:
          * status other than 200 (1xx, 204, 206, 3xx, 4xx, 5xx), whatever
            headers and body come with it: error;
          * POST: body of at most Limit bytes: exactly the body; more: error;
          * GET: an armored body of at most Limit bytes: exactly the armored
            payload; a body of more than Limit bytes: error; a body that is
            not armor: error;
          never a success with fewer (or other) bytes than were sent.

   Broker hosts are plain ASCII domains whose first label has at least four
   letters, so the domain prefix is steps 2-3 of the basic algorithm only
   (hyphens doubled, dots to hyphens); spec/CacheURL covers the rest.

   DON'T-CARE:
   * status 200 with a Location header (on the AMP path the code treats the
     cache's "silent redirect" as an error, on the POST path it ignores the
     header; the property does not speak of it): error, or exactly the
     payload - but still exactly one request;
   * a broker URL with a non-default port combined with a cache (no faithful
     cache URL exists): anything but a panic, the request is not judged;
   * an EMPTY poll sent through a cache: its encoding ends in the slash that
     delimits the (empty) data, and the cache URL's path.Clean normalisation -
     which the repository's own tests document - drops a trailing slash, so
     the suffix no longer decodes.  Client polls are never empty (a version
     line and a JSON object); the request's poll is not judged in that case;
   * request headers other than Host; how often the body is read. *)
EXTENDS Integers, Sequences, FiniteSets, TLC, Json

CONSTANTS BrokerNames, FrontNames, CacheNames, Statuses, SizeNames, PollLens,
          MaxPolls      \* longest sequence of polls on one rendezvous object

Limit == 100000        \* readLimit of client/lib/rendezvous.go

(* hosts as sequences of label parts, "-" and "." *)
RECURSIVE Cat(_)
Cat(s) == IF s = <<>> THEN "" ELSE Head(s) \o Cat(Tail(s))
PrefixParts(h) == [j \in DOMAIN h |-> IF h[j] = "-" THEN "--" ELSE IF h[j] = "." THEN "-" ELSE h[j]]
ASSUME \A s \in {<<"a", "-", "b", ".", "c">>} : Cat(PrefixParts(s)) = "a--b-c"

Broker(name) ==
  CASE name = "http-root"    -> [scheme |-> "http",  host |-> <<"broker", ".", "example">>, port |-> "", path |-> <<>>, trail |-> TRUE]
    [] name = "https-root"   -> [scheme |-> "https", host |-> <<"snowflake", "-", "broker", ".", "example", ".", "net">>, port |-> "", path |-> <<>>, trail |-> TRUE]
    [] name = "https-port"   -> [scheme |-> "https", host |-> <<"broker", ".", "example">>, port |-> ":8443", path |-> <<>>, trail |-> TRUE]
    [] name = "https-dir"    -> [scheme |-> "https", host |-> <<"broker", ".", "example">>, port |-> "", path |-> <<"prefix", "dir">>, trail |-> TRUE]
    [] name = "https-nodir"  -> [scheme |-> "https", host |-> <<"broker", ".", "example">>, port |-> "", path |-> <<"prefix", "leaf">>, trail |-> FALSE]
    [] name = "https-nopath" -> [scheme |-> "https", host |-> <<"broker", ".", "example">>, port |-> "", path |-> <<>>, trail |-> FALSE]
Front(name) == IF name = "none" THEN "" ELSE "front.cdn.example"
Cache(name) ==
  CASE name = "none"  -> [on |-> FALSE, scheme |-> "", host |-> "", port |-> "", path |-> <<>>]
    [] name = "root"  -> [on |-> TRUE, scheme |-> "https", host |-> "cdn.ampcache.example", port |-> "", path |-> <<>>]
    [] name = "path"  -> [on |-> TRUE, scheme |-> "http", host |-> "cache.example", port |-> ":8080", path |-> <<"amp">>]

(* the text of a URL as the client is configured with it *)
PathText(p, trail) == Cat([j \in DOMAIN p |-> "/" \o p[j]]) \o (IF trail THEN "/" ELSE "")
BrokerText(b) == b.scheme \o "://" \o Cat(b.host) \o b.port \o PathText(b.path, b.trail)
CacheText(c) == IF c.on THEN c.scheme \o "://" \o c.host \o c.port \o PathText(c.path, TRUE) ELSE ""

(* RFC 3986 5.2: a relative reference replaces what follows the last slash of the base path *)
Resolve(b, ref) == (IF b.trail \/ b.path = <<>> THEN b.path ELSE SubSeq(b.path, 1, Len(b.path) - 1)) \o ref

Req(method, b, f, c, polllen) ==
  IF c.on /\ b.port # "" THEN [judged |-> FALSE]
  ELSE
  LET origin == IF c.on THEN Cat(PrefixParts(b.host)) \o "." \o c.host \o c.port ELSE Cat(b.host) \o b.port
      base == Resolve(b, IF method = "http" THEN <<"client">> ELSE <<"amp", "client">>)
      under == IF c.on THEN c.path \o <<"c">> \o (IF b.scheme = "https" THEN <<"s">> ELSE <<>>) \o <<Cat(b.host)>> ELSE <<>>
  IN [judged |-> TRUE,
      method |-> IF method = "http" THEN "POST" ELSE "GET",
      scheme |-> IF c.on THEN c.scheme ELSE b.scheme,
      urlhost |-> IF f # "" THEN f ELSE origin,
      hostheader |-> origin,
      path |-> PathText(under \o base, method = "amp"),        \* the AMP path continues with the encoded poll
      poll |-> IF method = "http" THEN "body" ELSE IF c.on /\ polllen = 0 THEN "unjudged" ELSE "path-suffix",
      mustnotname |-> IF f # "" /\ ~c.on THEN Cat(b.host) ELSE "",
      requests |-> 1]          \* what the transport sees of one Exchange: this request and no other

SizeOf(s) ==
  CASE s = "0" -> 0 [] s = "small" -> 2000 [] s = "limit-1" -> Limit - 1 [] s = "limit" -> Limit
    [] s = "limit+1" -> Limit + 1 [] s = "2limit" -> 2 * Limit

(* body shapes: "plain" arbitrary bytes; "armor-pad" a small armored payload
   followed by markup outside the pre elements up to the size; "armor-full"
   an armored payload that itself fills the size *)
Locations == {"none", "relative", "same", "other"}     \* Location header: absent / a path / absolute, the origin's host / absolute, another host
Redirects == {301, 302, 303, 307, 308}
Res(method, status, loc, size, shape) ==
  IF status # 200 THEN "error"                                  \* also every redirect, with any Location
  ELSE IF SizeOf(size) > Limit THEN "error"
  ELSE IF method = "amp" /\ (shape = "plain" \/ size = "0") THEN "error"      \* no armor, no version indicator
  ELSE IF loc # "none" THEN "any"
  ELSE "data"

(* the second sentence of the property as a statement about the contract:
   success is promised only for a 200 within the limit; a redirect is an
   error wherever it points *)
NeverTruncated == \A m \in {"http", "amp"}, st \in Statuses, l \in Locations, s \in SizeNames, sh \in {"plain", "armor-pad", "armor-full"} :
                    /\ (Res(m, st, l, s, sh) = "data" => st = 200 /\ SizeOf(s) <= Limit)
                    /\ (st # 200 => Res(m, st, l, s, sh) = "error")
ASSUME NeverTruncated
ASSUME Redirects \subseteq Statuses

(* ---------------------------------------------------------------------------
   A case is ONE rendezvous object (a configuration) and a short SEQUENCE of
   polls on it, each with its own payload and scripted response.  The object
   is modelled as a machine: obj is what the object holds (its configuration),
   Exchange(k) produces the k-th request/result from obj and the k-th poll and
   leaves obj as it is.  The contract of a poll is the same function of the
   configuration whatever was polled before:
     ObjectImmutable   the object never changes,
     PollsIndependent  the k-th expectation is ExpectPoll(configuration, k-th poll)
                       for every k - no state leaks from one poll into the next.
   (A client polls the same BrokerChannel for every snowflake it collects.) *)
VARIABLES cs,     \* the case: configuration + polls (constant)
          obj,    \* the rendezvous object's state
          k,      \* next poll
          hist    \* what Exchange produced so far
vars == <<cs, obj, k, hist>>

ConfigOf(c) == [method |-> c.method, broker |-> c.broker, front |-> c.front, cache |-> c.cache]
ExpectPoll(cf, p) ==
  LET b == Broker(cf.broker) f == Front(cf.front) c == Cache(cf.cache)
      rq == Req(cf.method, b, f, c, p.poll.len) IN
  [req |-> rq,
   \* no faithful cache URL, no request: the result is not judged either
   res |-> IF rq.judged THEN Res(cf.method, p.status, p.location, p.size, p.shape) ELSE "any"]

P(st, loc, s, sh, pl, pf) == [status |-> st, location |-> loc, size |-> s, shape |-> sh, poll |-> [len |-> pl, fill |-> pf]]
PollOK(m, cn, p) ==
  /\ (m = "http" => p.shape # "armor-full")                           \* the POST body is opaque bytes
  /\ (p.shape # "plain" => p.size # "0")                             \* there is no armor of zero bytes
  /\ (p.poll.len = 0 => p.poll.fill = "rand")
  /\ (p.location # "none" => p.status \in Redirects \cup {200})
  /\ (p.status # 200 => p.size \in {"0", "small"} /\ p.shape # "armor-full")   \* the body of an error response: none or a small one
  /\ (p.status \in {100, 101, 204, 304} => p.size = "0")             \* statuses that carry no body
(* every single poll (sequences of length 1) *)
AllPolls(m, cn) == {p \in {P(st, loc, s, sh, pl, pf) : st \in Statuses, loc \in Locations, s \in SizeNames,
                                 sh \in {"plain", "armor-pad", "armor-full"}, pl \in PollLens, pf \in {"rand", "ff"}} : PollOK(m, cn, p)}
(* representatives of the result classes for the longer sequences; payload
   length and bytes differ from poll to poll *)
RepPolls(m) ==
  IF m = "http"
  THEN {P(200, "none", "small", "plain", 300, "rand"), P(200, "none", "limit", "armor-pad", 0, "rand"), P(307, "other", "small", "plain", 1500, "ff"),
        P(200, "none", "limit+1", "plain", 300, "ff"), P(500, "none", "0", "plain", 1, "rand")}
  ELSE {P(200, "none", "small", "armor-pad", 300, "rand"), P(200, "none", "limit", "armor-full", 1500, "ff"), P(302, "other", "small", "armor-pad", 300, "ff"),
        P(200, "none", "limit+1", "armor-pad", 1, "rand"), P(200, "none", "small", "plain", 300, "rand"), P(308, "relative", "0", "plain", 1500, "rand")}

Init ==
  /\ \E m \in {"http", "amp"}, bn \in BrokerNames, fn \in FrontNames, cn \in CacheNames :
       /\ (m = "http" => cn = "none")
       /\ \/ \E p \in AllPolls(m, cn) : cs = [method |-> m, broker |-> bn, front |-> fn, cache |-> cn, polls |-> <<p>>]
          \/ \E n \in 2..MaxPolls : \E ps \in [1..n -> RepPolls(m)] :
               cs = [method |-> m, broker |-> bn, front |-> fn, cache |-> cn, polls |-> ps]
  /\ obj = ConfigOf(cs) /\ k = 1 /\ hist = <<>>

Exchange ==
  /\ k <= Len(cs.polls)
  /\ hist' = Append(hist, ExpectPoll(obj, cs.polls[k]))
  /\ k' = k + 1
  /\ UNCHANGED <<cs, obj>>            \* an exchange leaves the object as it found it
Next == Exchange
Spec == Init /\ [][Next]_vars /\ WF_vars(Next)

ObjectImmutable == obj = ConfigOf(cs)
PollsIndependent == \A j \in DOMAIN hist : hist[j] = ExpectPoll(ConfigOf(cs), cs.polls[j])
AllPolled == <>(k = Len(cs.polls) + 1)

(* printed once per case, on its initial state *)
Emit ==
  hist = <<>> /\ k = 1 =>
  LET cf == ConfigOf(cs) IN
  PrintT(ToJson([cs |-> cf, brokerurl |-> BrokerText(Broker(cf.broker)), fronthost |-> Front(cf.front), cacheurl |-> CacheText(Cache(cf.cache)),
                 polls |-> [j \in DOMAIN cs.polls |-> [status |-> cs.polls[j].status, location |-> cs.polls[j].location, size |-> cs.polls[j].size,
                                                       shape |-> cs.polls[j].shape, poll |-> cs.polls[j].poll, bytes |-> SizeOf(cs.polls[j].size)]],
                 expect |-> [j \in DOMAIN cs.polls |-> ExpectPoll(cf, cs.polls[j])]]))
=============================================================================
