CONSTANTS
  Mode = "rt"
  Lens <- LensAll
  Chunkings <- ChunkingsAllOnly
  MaxWrites = 3000
  Readers <- ReadersFour
  Consumers = {0, 7}
  Rewrites <- RewritesAll
  Inserts <- InsertsQuick
  DocKinds <- KindsFull
  DocMax = 2
INIT Init
NEXT Stutter
INVARIANT Emit
CHECK_DEADLOCK FALSE
