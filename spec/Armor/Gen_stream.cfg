CONSTANTS
  Mode = "stream"
  Lens <- LensQuick
  Chunkings <- ChunkingsOne
  MaxWrites = 3000
  Readers <- ReadersTwo
  Consumers = {0}
  Rewrites <- RewritesId
  Inserts <- InsertsNone
  DocKinds <- KindsFull
  DocMax = 4
INIT Init
NEXT Stutter
INVARIANT Emit
CHECK_DEADLOCK FALSE
