------------------------------- MODULE Armor -------------------------------
(* common/amp: AMP armor (armor_encoder.go, armor_decoder.go).

   Four parts.
   1. The CONTRACT of the armored document as closed-form arithmetic on the
      payload length: number of base64 characters (plus the version
      character), words of at most 32 bytes, pre elements of at most 992
      words, text length of every element.  These are the numbers the
      property speaks about ("words of at most 32 bytes, at most 32 KiB per
      element").
   2. The ENCODER as a state machine with the real constants and counters:
      the base64 stage (a carry of 0..2 bytes, output handed on in blocks of
      at most 1024 characters) feeding the element stage (chunkCounter,
      elementCounter), one loop iteration of elementEncoder.Write per step.
      The environment chooses the payload length and the write chunking.
      TLC checks that what the machine emits has the structure of part 1 for
      every chunking (machine = contract), that no word ever exceeds 32
      bytes and no element 32 KiB, and that Close terminates.
   3. ROUND-TRIP CASES: payload length x write chunking x reader script x
      consumer read size x whitespace rewrite x outside-markup insertion, with
      the expected result class computed from part 1 (data, or the oversized-
      element error when a rewrite grows an element's text beyond 32 KiB).
   4. ABSTRACT DOCUMENTS of a few tokens for totality: the decoder as a
      scanning machine (outside/inside a pre, version character, base64
      quanta) and, independently, a declarative definition of the first fault
      of a document by positions; TLC checks machine = declarative contract
      on every document, and emits every document with the expected class.

   5. STREAMS: a pre whose text is INTERLEAVED WITH INNER TAGS (tokens Word,
      Ws, Tag, Comment at depth 1; the decoder ignores every tag other than
      pre, inside a pre as outside) is split by the tokenizer into many small
      text tokens, so the per-token limit of 32 KiB says nothing about the
      element.  The scanning machine therefore also carries what it HOLDS
      (characters accepted but not yet handed to the reader):
        PromptDelivery  after every token, every character scanned so far has
                        been handed on (a word is written through as soon as
                        the text token that contains it ends, i.e. at the
                        following tag or at the token limit),
        BoundedBuffer   what is held never exceeds one token's worth, whatever
                        the number of tokens.
      Endless streams  prefix . unit . unit . ...  are enumerated with the
      expected behaviour (an error after a bounded amount of input; decoded
      bytes after a bounded amount of input, PromptBytes; or silence), and the
      driver feeds them from a counting source.

   Payload and base64 characters are not materialised; the Go driver fills
   payloads with keyed pseudo-random bytes and concretises tokens.

   DON'T-CARE regions (the contract is silent, the driver accepts either):
   * an element whose text is 32766..32768 bytes long (the decoder's buffer
     limit also counts the two or three bytes of look-ahead that end the
     text run, and when the limit strikes inside that look-ahead the bytes
     "<" or "</" are handed on as if they were text): the exact data or any
     error, class "band";
   * any single markup token (text run, tag, comment) longer than 32 KiB,
     inside or outside a pre: the oversized-element error or the result of
     decoding as if it were not oversized;
   * which of several faults of a malformed document is reported: the
     contract names the first one in streaming order (First), the driver
     tolerates any class in AnyClass(doc) and only counts it as a deviation;
   * a document without any character inside a pre has no version indicator:
     any error;
   * data delivered before an error is reported. *)
EXTENDS Integers, Sequences, FiniteSets, TLC, Json

CONSTANTS
  Mode,        \* "enc" | "rt" | "doc" | "stream": which family Init enumerates
  Lens,        \* payload lengths
  Chunkings,   \* cyclic scripts of application write sizes (0 = empty write)
  MaxWrites,   \* "enc": skip (length, chunking) pairs needing more writes than this
  Readers,     \* "rt": scripts of the io.Reader feeding the decoder
  Consumers,   \* "rt": read sizes of the consumer of the decoded stream (0 = ReadAll)
  Rewrites,    \* "rt": whitespace rewrites of the armored document
  Inserts,     \* "rt": insertions of markup outside the pre elements
  DocKinds,    \* "doc": token alphabet
  DocMax       \* "doc": maximum number of tokens

(* The constants of armor_encoder.go and encoding/base64. *)
BytesPerChunk == 32
ElementSizeLimit == 32768
ChunksPerElement == (ElementSizeLimit - 1) \div (BytesPerChunk + 1)      \* 992
B64In == 768          \* base64.encoder: bytes per block ...
B64Out == 1024        \* ... and characters handed to the element stage per block
FullElem == ChunksPerElement * BytesPerChunk                              \* 31744 characters
LookAhead == 3        \* don't-care band below the limit (see above)

Min2(a, b) == IF a < b THEN a ELSE b
Max2(a, b) == IF a > b THEN a ELSE b
SetMin(S) == CHOOSE x \in S : \A y \in S : x <= y

ASSUME ChunksPerElement = 992

-----------------------------------------------------------------------------
(* 1. Contract: structure of the armored document of an n-byte payload. *)

Chars(n) == 1 + 4 * ((n + 2) \div 3)                 \* version character + base64 with padding
NWords(n) == (Chars(n) + BytesPerChunk - 1) \div BytesPerChunk
NElems(n) == (NWords(n) + ChunksPerElement - 1) \div ChunksPerElement
ElemWordsOf(n, i) == IF i < NElems(n) THEN ChunksPerElement ELSE NWords(n) - ChunksPerElement * (NElems(n) - 1)
ElemCharsOf(n, i) == IF i < NElems(n) THEN FullElem ELSE Chars(n) - FullElem * (NElems(n) - 1)
(* text of element i: one separator before the first word and one after every word *)
ElemTextOf(n, i) == ElemCharsOf(n, i) + ElemWordsOf(n, i) + 1
LastWord(n, i) == ElemCharsOf(n, i) - BytesPerChunk * (ElemWordsOf(n, i) - 1)
Structure(n) == [i \in 1..NElems(n) |-> [words |-> ElemWordsOf(n, i), chars |-> ElemCharsOf(n, i),
                                          text |-> ElemTextOf(n, i), last |-> LastWord(n, i)]]

(* The property's bounds hold of the contract for every length used. *)
ContractBounds(n) ==
  \A i \in 1..NElems(n) : /\ ElemTextOf(n, i) <= ElementSizeLimit
                          /\ LastWord(n, i) \in 1..BytesPerChunk
                          /\ ElemWordsOf(n, i) \in 1..ChunksPerElement

-----------------------------------------------------------------------------
VARIABLES cs,    \* the case (constant during a behaviour)
          enc,   \* encoder machine
          dec    \* document-scanning machine
vars == <<cs, enc, dec>>

NoEnc == [ph |-> "off"]
NoDec == [ph |-> "off"]

-----------------------------------------------------------------------------
(* 2. The encoder machine.
   ph: "elem"  the element stage is working off the queue q of pending
               elementEncoder.Write calls (sizes in characters),
       "app"   the application may write or close,
       "eclose" elementEncoder.Close is due, "done".
   Observed output: inpre, word (length of the word being written), text
   (bytes of text in the open element), chars/words of the open element,
   elems (closed elements), maxword, bad (a structural mistake, "" if none). *)

EncInit(n, ck) ==
  [ph |-> "elem", n |-> n, ck |-> ck, si |-> 1, written |-> 0, carry |-> 0,
   q |-> <<1>>,               \* NewArmorEncoder writes the version character '0' first
   closing |-> FALSE, cc |-> 0, ec |-> 0,
   inpre |-> FALSE, word |-> 0, text |-> 0, chars |-> 0, words |-> 0, elems |-> <<>>,
   maxword |-> 0, bad |-> ""]

Blocks(k3) ==   \* element writes caused by k3 (a multiple of 3) bytes of interior data
  [i \in 1..(k3 \div B64In) |-> B64Out] \o (IF k3 % B64In > 0 THEN <<((k3 % B64In) \div 3) * 4>> ELSE <<>>)

(* base64 encoder Write(k bytes) *)
AppWrite ==
  /\ enc.ph = "app" /\ enc.written < enc.n
  /\ LET k == Min2(enc.ck[enc.si], enc.n - enc.written)
         c == enc.carry
         fill == IF c > 0 THEN Min2(k, 3 - c) ELSE 0
         flushed == c > 0 /\ c + fill = 3
         k1 == k - fill
         q1 == IF c > 0 /\ ~flushed THEN <<>>
               ELSE (IF flushed THEN <<4>> ELSE <<>>) \o Blocks((k1 \div 3) * 3)
         c1 == IF c > 0 /\ ~flushed THEN c + fill ELSE k1 % 3
     IN enc' = [enc EXCEPT !.written = @ + k, !.si = (@ % Len(enc.ck)) + 1, !.carry = c1, !.q = q1,
                           !.ph = IF q1 = <<>> THEN "app" ELSE "elem"]
  /\ UNCHANGED <<cs, dec>>

(* base64 encoder Close: flush the carry with padding *)
AppClose ==
  /\ enc.ph = "app" /\ enc.written = enc.n
  /\ enc' = [enc EXCEPT !.closing = TRUE, !.carry = 0,
                        !.q = IF enc.carry > 0 THEN <<4>> ELSE <<>>,
                        !.ph = IF enc.carry > 0 THEN "elem" ELSE "eclose"]
  /\ UNCHANGED <<cs, dec>>

(* one iteration of the loop of elementEncoder.Write *)
ElemIter ==
  /\ enc.ph = "elem" /\ enc.q # <<>>
  /\ LET p == Head(enc.q)
         open == enc.ec = 0 /\ enc.cc = 0                   \* writes "<pre>\n"
         bad1 == IF open /\ enc.inpre THEN "pre opened inside pre" ELSE IF ~open /\ ~enc.inpre THEN "characters outside pre" ELSE enc.bad
         m == Min2(BytesPerChunk - enc.cc, p)
         word1 == (IF open THEN 0 ELSE enc.word) + m
         text1 == (IF open THEN 1 ELSE enc.text) + m
         chars1 == (IF open THEN 0 ELSE enc.chars) + m
         words0 == IF open THEN 0 ELSE enc.words
         full == enc.cc + m >= BytesPerChunk                 \* writes "\n"
         cc1 == IF full THEN 0 ELSE enc.cc + m
         ec1 == IF full THEN enc.ec + 1 ELSE enc.ec
         words1 == IF full THEN words0 + 1 ELSE words0
         text2 == IF full THEN text1 + 1 ELSE text1
         shut == ec1 >= ChunksPerElement                     \* writes "</pre>\n"
         q1 == IF p - m = 0 THEN Tail(enc.q) ELSE <<p - m>> \o Tail(enc.q)
     IN enc' = [enc EXCEPT !.q = q1, !.cc = cc1, !.ec = IF shut THEN 0 ELSE ec1,
                           !.inpre = ~shut, !.word = IF full THEN 0 ELSE word1,
                           !.maxword = Max2(@, word1),
                           !.text = IF shut THEN 0 ELSE text2, !.chars = IF shut THEN 0 ELSE chars1,
                           !.words = IF shut THEN 0 ELSE words1,
                           !.elems = IF shut THEN Append(@, [words |-> words1, chars |-> chars1, text |-> text2, last |-> word1]) ELSE @,
                           !.bad = bad1,
                           !.ph = IF q1 # <<>> THEN "elem" ELSE IF enc.closing THEN "eclose" ELSE "app"]
  /\ UNCHANGED <<cs, dec>>

(* elementEncoder.Close *)
ElemClose ==
  /\ enc.ph = "eclose"
  /\ IF enc.ec = 0 /\ enc.cc = 0
     THEN enc' = [enc EXCEPT !.ph = "done"]
     ELSE LET part == enc.cc # 0          \* "\n</pre>\n" (ends a partial word) or "</pre>\n"
          IN enc' = [enc EXCEPT !.ph = "done", !.inpre = FALSE, !.cc = 0, !.ec = 0, !.word = 0,
                                !.text = 0, !.chars = 0, !.words = 0,
                                !.bad = IF ~enc.inpre THEN "close outside pre" ELSE @,
                                !.elems = Append(@, [words |-> IF part THEN enc.words + 1 ELSE enc.words,
                                                     chars |-> enc.chars,
                                                     text |-> IF part THEN enc.text + 1 ELSE enc.text,
                                                     last |-> IF part THEN enc.word ELSE BytesPerChunk])]
  /\ UNCHANGED <<cs, dec>>

NextEnc == AppWrite \/ AppClose \/ ElemIter \/ ElemClose

(* Invariants of the encoder machine. *)
EncOn == enc.ph # "off"
EncTypeOK == EncOn => /\ enc.cc \in 0..(BytesPerChunk - 1) /\ enc.ec \in 0..(ChunksPerElement - 1)
                      /\ enc.carry \in 0..2 /\ enc.written \in 0..enc.n
                      /\ enc.ph \in {"elem", "app", "eclose", "done"}
WordBound == EncOn => enc.word <= BytesPerChunk /\ enc.maxword <= BytesPerChunk
ElemBound == EncOn => /\ enc.text <= ElementSizeLimit
                      /\ \A i \in DOMAIN enc.elems : enc.elems[i].text <= ElementSizeLimit
Disciplined == EncOn => enc.bad = ""
(* the code's counters are the observed word/element sizes *)
CountersAreSizes == (EncOn /\ enc.ph # "done" /\ enc.inpre) => enc.word = enc.cc /\ enc.words = enc.ec
(* a pre is open exactly while something has been put into it *)
OpenIffCounting == (EncOn /\ enc.ph # "done") => (enc.inpre <=> (enc.cc # 0 \/ enc.ec # 0))
(* C10, design level: whatever the chunking, the document has the contract's structure *)
EncResultIsContract == (EncOn /\ enc.ph = "done") => /\ enc.elems = Structure(enc.n) /\ ~enc.inpre /\ enc.carry = 0
(* elements are closed in order and are a prefix of the contract's while writing *)
EncPrefix == EncOn => /\ Len(enc.elems) <= NElems(enc.n)
                      /\ \A i \in DOMAIN enc.elems : enc.elems[i] = Structure(enc.n)[i]
EncTerminates == <>(enc.ph \in {"done", "off"})

-----------------------------------------------------------------------------
(* 3. Round-trip cases.  A rewrite replaces the separators (the "\n" inside
   the pre elements) of the real encoder output:
     k = "id"    nothing                        "sub"  every separator by byte a
         "pair"  every separator by bytes a b   "alt"  cycling through the five bytes
         "rand"  a seeded choice of one byte each
         "grow"  the first n separators of every element are doubled (a a),
                 the others replaced by a
   Bytes are named sp, tab, lf, ff, cr. *)
Ws5 == {"sp", "tab", "lf", "ff", "cr"}
Rw(k, a, b, n) == [k |-> k, a |-> a, b |-> b, n |-> n]

RewrittenText(n, i, rw) ==
  LET seps == ElemWordsOf(n, i) + 1 IN
  ElemCharsOf(n, i) + (CASE rw.k = "pair" -> 2 * seps
                         [] rw.k = "grow" -> seps + Min2(rw.n, seps)
                         [] OTHER -> seps)
MaxRewritten(n, rw) == LET S == {RewrittenText(n, i, rw) : i \in 1..NElems(n)} IN CHOOSE x \in S : \A y \in S : y <= x

RTClass(n, rw) ==
  LET m == MaxRewritten(n, rw) IN
  IF m <= ElementSizeLimit - LookAhead THEN "data"
  ELSE IF m > ElementSizeLimit THEN "oversize"   \* DESIGN C10: a rewrite that grows an element beyond 32 KiB
  ELSE "band"                                     \* don't care: exact data or any error

RTExpect(n, rw) == [class |-> RTClass(n, rw), maxtext |-> MaxRewritten(n, rw), chars |-> Chars(n), elems |-> Structure(n)]

-----------------------------------------------------------------------------
(* 4. Abstract documents.
   Token kinds and what they are concretised to:
     Boiler   the AMP boilerplate header (tags, a style and a noscript element)
     PreOpen  <pre> (possibly with attributes)     PreClose  </pre>
     Ver0     the character 0                      VerBad    a character other than 0
     Word     four base64 characters               BadB64    four characters, the third not base64
     Text     two words of four base64 characters  Ws        ASCII whitespace
     Tag      a tag other than pre                 Comment   a comment / doctype
     Huge     a text run of more than 32 KiB (4k base64 characters and whitespace)
     Cut      markup cut short by the end of input (only as the last token)
   Characters: "0" version zero, "v" another character that is valid base64,
   "g" valid base64, "x" not base64. *)
AllKinds == {"Boiler", "PreOpen", "PreClose", "Ver0", "VerBad", "Word", "BadB64", "Text", "Ws", "Tag", "Comment", "Huge", "Cut"}
CharsOf(k) ==
  CASE k = "Ver0" -> <<"0">>
    [] k = "VerBad" -> <<"v">>
    [] k = "Word" -> <<"g", "g", "g", "g">>
    [] k = "BadB64" -> <<"g", "g", "x", "g">>
    [] k = "Text" -> <<"g", "g", "g", "g", "g", "g", "g", "g">>
    [] k = "Huge" -> <<"g", "g", "g", "g">>       \* 4k good characters are equivalent to 4
    [] k = "Boiler" -> <<"g", "g", "g", "g", "x", "g", "g", "g", "g", "g", "g">>  \* "body{-webkit-..."
    [] OTHER -> <<>>
WordLike(k) == CharsOf(k) # <<>>

Docs == {d \in UNION {[1..k -> DocKinds] : k \in 0..DocMax} : \A i \in DOMAIN d : d[i] = "Cut" => i = Len(d)}

(* 4a. The scanning machine (the decoder): hf = TRUE when an oversized token
   is reported as the oversized-element error. *)
DecInit == [ph |-> "scan", i |-> 1, active |-> FALSE, ns |-> 0, qbad |-> FALSE, res |-> "", toks |-> <<>>,
            held |-> 0, delivered |-> 0]    \* characters kept back / handed to the reader

(* When accepted characters are handed to the reader: "token" - when the text
   token that contains them ends (the code: one pipe write per word while the
   token is scanned); "preclose" - collected per element and handed on at
   </pre> (a design TLC refutes: PromptDelivery and BoundedBuffer fail). *)
FlushAt == "token"
TokenBound == 11      \* the longest token of the abstract alphabet, in characters

(* feed the characters of one token into the version check / base64 stage *)
RECURSIVE Feed(_, _, _)
Feed(st, ch, j) ==      \* st = [ns, qbad, res]
  IF j > Len(ch) \/ st.res # "" THEN st
  ELSE LET c == ch[j] IN
    IF st.ns = 0 THEN Feed([st EXCEPT !.ns = 1, !.res = IF c = "0" THEN "" ELSE "version"], ch, j + 1)
    ELSE LET bad == st.qbad \/ c = "x"
             complete == st.ns % 4 = 0          \* ns counts the version character too
         IN Feed([st EXCEPT !.ns = @ + 1, !.qbad = IF complete THEN FALSE ELSE bad,
                            !.res = IF complete /\ bad THEN "badb64" ELSE ""], ch, j + 1)

DecStep ==
  /\ dec.ph = "scan" /\ dec.i <= Len(cs.doc)
  /\ LET k == cs.doc[dec.i] IN
     dec' = IF k = "PreOpen" THEN
               (IF dec.active THEN [dec EXCEPT !.ph = "done", !.res = "nested"] ELSE [dec EXCEPT !.active = TRUE, !.i = @ + 1])
            ELSE IF k = "PreClose" THEN
               (IF ~dec.active THEN [dec EXCEPT !.ph = "done", !.res = "stray"]
                ELSE [dec EXCEPT !.active = FALSE, !.i = @ + 1, !.delivered = @ + dec.held, !.held = 0])
            ELSE IF k = "Huge" /\ cs.hf THEN [dec EXCEPT !.ph = "done", !.res = "oversize"]
            ELSE IF WordLike(k) /\ dec.active THEN
               (LET st == Feed([ns |-> dec.ns, qbad |-> dec.qbad, res |-> ""], CharsOf(k), 1) IN
                IF st.res # "" THEN [dec EXCEPT !.ph = "done", !.res = st.res]
                ELSE [dec EXCEPT !.ns = st.ns, !.qbad = st.qbad, !.i = @ + 1, !.toks = Append(@, dec.i),
                                 !.held = IF FlushAt = "token" THEN 0 ELSE @ + Len(CharsOf(k)),
                                 !.delivered = IF FlushAt = "token" THEN @ + Len(CharsOf(k)) ELSE @])
            ELSE [dec EXCEPT !.i = @ + 1]
  /\ UNCHANGED <<cs, enc>>

DecEnd ==
  /\ dec.ph = "scan" /\ dec.i = Len(cs.doc) + 1
  /\ dec' = [dec EXCEPT !.ph = "done",
                        !.res = IF dec.active THEN "unterminated"
                                ELSE IF dec.ns = 0 THEN "noversion"
                                ELSE IF (dec.ns - 1) % 4 # 0 THEN "badb64"
                                ELSE "data"]
  /\ UNCHANGED <<cs, enc>>

NextDec == DecStep \/ DecEnd

(* 4b. The declarative contract: the first fault by positions. *)
Depth(d, i) == Cardinality({j \in 1..i : d[j] = "PreOpen"}) - Cardinality({j \in 1..i : d[j] = "PreClose"})
(* first position at which the structure breaks (Len+1 if it never does) *)
StructPos(d, hf) ==
  LET B == {i \in DOMAIN d : Depth(d, i) \notin {0, 1} \/ (hf /\ d[i] = "Huge")} IN
  IF B = {} THEN Len(d) + 1 ELSE SetMin(B)
(* positions of the tokens whose characters reach the base64 stage *)
Contributors(d, hf) == {i \in 1..(StructPos(d, hf) - 1) : WordLike(d[i]) /\ Depth(d, i) = 1}
RECURSIVE Flat(_, _, _)
Flat(d, C, i) == IF i > Len(d) THEN <<>> ELSE (IF i \in C THEN CharsOf(d[i]) ELSE <<>>) \o Flat(d, C, i + 1)

First(d, hf) ==
  LET ps == StructPos(d, hf)
      C == Contributors(d, hf)
      S == Flat(d, C, 1)
      quanta == (Len(S) - 1) \div 4                      \* complete quanta after the version character
      badq == {q \in 1..quanta : \E j \in (4 * q - 2)..(4 * q + 1) : S[j] = "x"}
      toks == [class |-> "data", toks |-> SelectSeq([i \in DOMAIN d |-> i], LAMBDA i : i \in C)]
      err(c) == [class |-> c, toks |-> <<>>]
  IN
  IF Len(S) > 0 /\ S[1] # "0" THEN err("version")
  ELSE IF badq # {} THEN err("badb64")
  ELSE IF ps <= Len(d) THEN
     (IF hf /\ d[ps] = "Huge" THEN err("oversize") ELSE IF Depth(d, ps) = 2 THEN err("nested") ELSE err("stray"))
  ELSE IF Depth(d, Len(d)) = 1 THEN err("unterminated")
  ELSE IF Len(S) = 0 THEN err("noversion")
  ELSE IF (Len(S) - 1) % 4 # 0 THEN err("badb64")
  ELSE toks

(* 4c. Tolerance: every fault class some scanner with recovery could name. *)
RECURSIVE AnyScan(_, _, _, _, _, _, _)
AnyScan(d, hf, i, active, ns, qbad, acc) ==
  IF i > Len(d) THEN
     LET a1 == IF active THEN acc \cup {"unterminated"} ELSE acc
         a2 == IF ns = 0 THEN a1 \cup {"noversion"} ELSE IF (ns - 1) % 4 # 0 THEN a1 \cup {"badb64"} ELSE a1
     IN IF a2 = {} THEN {"data"} ELSE a2
  ELSE LET k == d[i] IN
    IF k = "PreOpen" THEN AnyScan(d, hf, i + 1, TRUE, ns, qbad, IF active THEN acc \cup {"nested"} ELSE acc)
    ELSE IF k = "PreClose" THEN AnyScan(d, hf, i + 1, FALSE, ns, qbad, IF active THEN acc ELSE acc \cup {"stray"})
    ELSE LET a0 == IF k = "Huge" /\ hf THEN acc \cup {"oversize"} ELSE acc IN
      IF WordLike(k) /\ active THEN
        LET ch == CharsOf(k)
            ver == ns = 0 /\ ch[1] # "0"
            hasx == \E j \in DOMAIN ch : ch[j] = "x"
            n1 == ns + Len(ch)
            \* a quantum is completed inside this token, or was pending bad
            completes == (n1 - 1) \div 4 > (Max2(ns, 1) - 1) \div 4
        IN AnyScan(d, hf, i + 1, active, n1, (qbad \/ hasx) /\ ~completes,
                   a0 \cup (IF ver THEN {"version"} ELSE {}) \cup (IF (qbad \/ hasx) THEN {"badb64"} ELSE {}))
      ELSE AnyScan(d, hf, i + 1, active, ns, qbad, a0)
AnyClass(d) == AnyScan(d, TRUE, 1, FALSE, 0, FALSE, {}) \cup AnyScan(d, FALSE, 1, FALSE, 0, FALSE, {})

DecOn == dec.ph # "off"
DecTypeOK == DecOn => dec.i \in 1..(Len(cs.doc) + 1) /\ dec.ph \in {"scan", "done"}
(* C10, design level: the scanning decoder reports exactly the declarative first fault, or the data *)
DecResultIsContract ==
  (DecOn /\ dec.ph = "done") =>
     LET f == First(cs.doc, cs.hf) IN
     /\ dec.res = f.class
     /\ (dec.res = "data" => dec.toks = f.toks)
FirstWithinAnyClass == DecOn => First(cs.doc, cs.hf).class \in AnyClass(cs.doc)
(* a document with balanced, un-nested pre elements, version 0 and whole good quanta is data, and only such *)
WellFormed(d) ==
  /\ \A i \in DOMAIN d : Depth(d, i) \in {0, 1}
  /\ (Len(d) > 0 => Depth(d, Len(d)) = 0)
  /\ LET S == Flat(d, {i \in DOMAIN d : WordLike(d[i]) /\ Depth(d, i) = 1}, 1) IN
       Len(S) > 0 /\ S[1] = "0" /\ (Len(S) - 1) % 4 = 0 /\ \A j \in DOMAIN S : S[j] # "x"
DataIffWellFormed == DecOn => (First(cs.doc, FALSE).class = "data" <=> WellFormed(cs.doc))
(* C10 "without unbounded buffering", design level *)
PromptDelivery == DecOn => dec.held = 0 /\ dec.delivered = dec.ns     \* between tokens nothing is kept back
BoundedBuffer == DecOn => dec.held <= TokenBound
DecTerminates == <>(dec.ph \in {"done", "off"})

-----------------------------------------------------------------------------
(* 5. Endless streams  prefix . unit^omega  (cut by the driver after some MB).
   What must happen is read off three rounds of the unit: a fault of the
   version / nested / stray kind shows within them, and so does delivery. *)
PromptBytes == 4 * ElementSizeLimit      \* the "bounded amount of further input": 128 KiB
StreamExpect(pre, unit) ==
  LET d == pre \o unit \o unit \o unit
      f == First(d, FALSE).class
      S == Flat(d, Contributors(d, FALSE), 1)
  IN IF f \in {"version", "nested", "stray"} THEN [kind |-> "error", class |-> f, within |-> PromptBytes]
     ELSE IF Len(S) >= 5 THEN [kind |-> "prompt", class |-> "", within |-> PromptBytes]     \* at least one decoded byte is due
     ELSE [kind |-> "silent", class |-> "", within |-> 0]
StreamKinds == {"PreOpen", "PreClose", "Word", "Ws", "Tag", "Comment"}
StreamPrefixes == {<<>>, <<"PreOpen">>, <<"PreOpen", "Ver0">>, <<"PreOpen", "Ver0", "Tag">>, <<"PreOpen", "Ver0", "PreClose">>}
StreamUnits == UNION {[1..n -> StreamKinds] : n \in 1..3}


-----------------------------------------------------------------------------
MinPos(s) == SetMin({s[i] : i \in DOMAIN s} \ {0})        \* smallest non-empty write of a chunking
Feasible(n, ck) == n \div MinPos(ck) <= MaxWrites

Init ==
  \/ /\ Mode = "enc"
     /\ \E n \in Lens, ck \in Chunkings :
          /\ Feasible(n, ck)
          /\ cs = [n |-> n, ck |-> ck]
          /\ enc = EncInit(n, ck)
     /\ dec = NoDec
  \/ /\ Mode = "rt"
     /\ \E n \in Lens, ck \in Chunkings, rd \in Readers, co \in Consumers, rw \in Rewrites, ins \in Inserts :
          cs = [n |-> n, ck |-> ck, rd |-> rd, co |-> co, rw |-> rw, ins |-> ins]
     /\ enc = NoEnc /\ dec = NoDec
  \/ /\ Mode = "doc"
     /\ \E d \in Docs, hf \in BOOLEAN :
          /\ (hf => \E i \in DOMAIN d : d[i] = "Huge")       \* hf is only a distinction when there is a Huge token
          /\ cs = [doc |-> d, hf |-> hf]
     /\ enc = NoEnc /\ dec = DecInit
  \/ /\ Mode = "stream"
     /\ \E p \in StreamPrefixes, u \in StreamUnits : cs = [pre |-> p, unit |-> u]
     /\ enc = NoEnc /\ dec = NoDec

Next == NextEnc \/ NextDec
Stutter == UNCHANGED vars
Spec == Init /\ [][Next]_vars /\ WF_vars(NextEnc) /\ WF_vars(NextDec)

ContractOK == Mode = "enc" => ContractBounds(cs.n)

-----------------------------------------------------------------------------
(* Case emission (NEXT Stutter, one worker). *)
Emit ==
  IF Mode = "rt" THEN PrintT(ToJson([n |-> cs.n, ck |-> cs.ck, rd |-> cs.rd, co |-> cs.co, rw |-> cs.rw, ins |-> cs.ins,
                                    expect |-> RTExpect(cs.n, cs.rw)]))
  ELSE IF Mode = "doc" THEN
     (cs.hf = FALSE =>      \* one line per document, both readings of an oversized token
        PrintT(ToJson([doc |-> cs.doc,
                       expect |-> [first |-> {First(cs.doc, FALSE), First(cs.doc, TRUE)}, any |-> AnyClass(cs.doc)]])))
  ELSE IF Mode = "stream" THEN PrintT(ToJson([pre |-> cs.pre, unit |-> cs.unit, expect |-> StreamExpect(cs.pre, cs.unit)]))
  ELSE TRUE

-----------------------------------------------------------------------------
(* Constant sets used by the configurations. *)
All == 100000000
ChunkingsMC == {<<All>>, <<1>>, <<2>>, <<3>>, <<4>>, <<1, 2>>, <<0, 5>>, <<767>>, <<768>>, <<769>>, <<5, 1, 767>>, <<1000, 1>>}
ChunkingsGen == ChunkingsMC \cup {<<7>>, <<1024>>, <<32>>, <<24, 23>>, <<99>>, <<100>>, <<300>>, <<500>>, <<1000>>, <<4096>>}
ChunkingsOne == {<<All>>, <<5, 1, 767>>}
ChunkingsAllOnly == {<<All>>}

LensSmall == {0, 1, 2, 3, 4, 5, 6, 22, 23, 24, 25, 26, 47, 48, 49}
LensElem == {23804, 23805, 23806, 23807, 23808, 23809, 23810, 23811, 23812}     \* 23805 fills 992 words less 3 characters, 23806 opens a second element
LensTwo == {47612, 47613, 47614, 47615, 47616}                                   \* around two full elements
LensBig == {100001, 102400, 131073}
LensQuick == {0, 1, 2, 3, 23, 24, 25, 767, 768, 23805, 23806, 47613, 47614, 102400}
LensRw == {0, 3, 25, 768, 23805, 23806, 47614, 102400}
LensAll == LensSmall \cup LensElem \cup LensTwo \cup LensBig \cup {767, 768, 769, 1535, 1536, 1537}

ReadersQuick == {<<"All">>, <<"One">>, <<"Seven">>, <<"K4">>, <<"Zero", "Part">>, <<"AllEOF">>}
ReadersTwo == {<<"All">>, <<"Zero", "Part">>}
ReadersFour == {<<"All">>, <<"One">>, <<"Zero", "Part">>, <<"AllEOF">>}
ReadersAll == ReadersQuick \cup {<<"Part">>, <<"One", "AllEOF">>, <<"K4", "Zero", "One">>}

RewritesQuick ==
  {Rw("id", "", "", 0), Rw("alt", "", "", 0), Rw("rand", "", "", 0),
   Rw("pair", "cr", "lf", 0), Rw("pair", "sp", "sp", 0)}
  \cup {Rw("sub", a, "", 0) : a \in Ws5}
  \cup {Rw("grow", "lf", "", k) : k \in {27, 28, 29, 31, 32}}
RewritesId == {Rw("id", "", "", 0)}
RewritesThree == {Rw("id", "", "", 0), Rw("alt", "", "", 0), Rw("pair", "cr", "lf", 0)}
RewritesAll ==
  RewritesQuick
  \cup {Rw("pair", a, b, 0) : a \in Ws5, b \in Ws5}
  \cup {Rw("grow", a, "", k) : a \in {"sp", "cr"}, k \in {1, 28, 29, 30, 31, 32, 1000}}

(* where: "start" of the document, "before" the first pre, "between" = after every
   </pre>, "after" the last pre, "end" of the document, "all" of them;
   what: text / tag / comment / commentpre (a comment that contains <pre>) /
   attrpre (an attribute value that contains <pre>) / script (a script element
   whose text contains <pre> and </pre>) / bigtext (30 000 bytes of words) / mixed *)
Ins(where, what) == [where |-> where, what |-> what]
InsertsQuick ==
  {Ins("none", "none"), Ins("all", "mixed"), Ins("between", "text"), Ins("before", "tag"), Ins("after", "commentpre"),
   Ins("between", "script"), Ins("all", "attrpre"), Ins("between", "bigtext")}
InsertsNone == {Ins("none", "none")}
InsertsAll ==
  {Ins("none", "none")} \cup
  {Ins(w, x) : w \in {"start", "before", "between", "after", "end", "all"},
               x \in {"text", "tag", "comment", "commentpre", "attrpre", "script", "bigtext", "mixed"}}

KindsFull == AllKinds
KindsCore == AllKinds \ {"Boiler", "Huge", "Text", "Cut"}
KindsCore6 == {"PreOpen", "PreClose", "Ver0", "VerBad", "Word", "BadB64", "Tag"}
=============================================================================
