CONSTANTS
  Mode = "doc"
  Lens <- LensQuick
  Chunkings <- ChunkingsOne
  MaxWrites = 3000
  Readers <- ReadersTwo
  Consumers = {0}
  Rewrites <- RewritesId
  Inserts <- InsertsNone
  DocKinds <- KindsFull
  DocMax = 4
SPECIFICATION Spec
INVARIANTS DecTypeOK DecResultIsContract FirstWithinAnyClass DataIffWellFormed PromptDelivery BoundedBuffer
PROPERTY DecTerminates
CHECK_DEADLOCK FALSE
