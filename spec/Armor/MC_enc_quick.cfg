CONSTANTS
  Mode = "enc"
  Lens <- LensQuick
  Chunkings <- ChunkingsMC
  MaxWrites = 3000
  Readers <- ReadersTwo
  Consumers = {0}
  Rewrites <- RewritesId
  Inserts <- InsertsNone
  DocKinds <- KindsFull
  DocMax = 2
SPECIFICATION Spec
INVARIANTS EncTypeOK WordBound ElemBound Disciplined CountersAreSizes OpenIffCounting EncResultIsContract EncPrefix ContractOK
PROPERTY EncTerminates
CHECK_DEADLOCK FALSE
