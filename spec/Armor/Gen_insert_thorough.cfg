CONSTANTS
  Mode = "rt"
  Lens <- LensQuick
  Chunkings <- ChunkingsAllOnly
  MaxWrites = 3000
  Readers <- ReadersFour
  Consumers = {0, 4096}
  Rewrites <- RewritesThree
  Inserts <- InsertsAll
  DocKinds <- KindsFull
  DocMax = 2
INIT Init
NEXT Stutter
INVARIANT Emit
CHECK_DEADLOCK FALSE
