CONSTANTS
  Mode = "rt"
  Lens <- LensQuick
  Chunkings <- ChunkingsGen
  MaxWrites = 3000
  Readers <- ReadersTwo
  Consumers = {0, 7}
  Rewrites <- RewritesId
  Inserts <- InsertsNone
  DocKinds <- KindsFull
  DocMax = 2
INIT Init
NEXT Stutter
INVARIANT Emit
CHECK_DEADLOCK FALSE
