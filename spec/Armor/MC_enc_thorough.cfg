CONSTANTS
  Mode = "enc"
  Lens <- LensAll
  Chunkings <- ChunkingsMC
  MaxWrites = 30000
  Readers <- ReadersTwo
  Consumers = {0}
  Rewrites <- RewritesId
  Inserts <- InsertsNone
  DocKinds <- KindsFull
  DocMax = 2
SPECIFICATION Spec
INVARIANTS EncTypeOK WordBound ElemBound Disciplined CountersAreSizes OpenIffCounting EncResultIsContract EncPrefix ContractOK
CHECK_DEADLOCK FALSE
