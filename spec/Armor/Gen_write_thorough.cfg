CONSTANTS
  Mode = "rt"
  Lens <- LensAll
  Chunkings <- ChunkingsGen
  MaxWrites = 3000
  Readers <- ReadersAll
  Consumers = {0, 1, 7, 4096}
  Rewrites <- RewritesId
  Inserts <- InsertsNone
  DocKinds <- KindsFull
  DocMax = 2
INIT Init
NEXT Stutter
INVARIANT Emit
CHECK_DEADLOCK FALSE
