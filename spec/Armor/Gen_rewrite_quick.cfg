CONSTANTS
  Mode = "rt"
  Lens <- LensRw
  Chunkings <- ChunkingsAllOnly
  MaxWrites = 3000
  Readers <- ReadersFour
  Consumers = {0, 7}
  Rewrites <- RewritesQuick
  Inserts <- InsertsQuick
  DocKinds <- KindsFull
  DocMax = 2
INIT Init
NEXT Stutter
INVARIANT Emit
CHECK_DEADLOCK FALSE
