CONSTANTS
  K = 2
  NStreams = 1
  Cap = 1
  Acceptors = {1}
  MaxAccepts = 2
  Closers = {1, 2}
  WithListen = TRUE
  AsIs_ErrChan = FALSE
  AsIs_BindErr = FALSE
  Mut = "none"
SPECIFICATION Spec
INVARIANTS TypeOK NoPanic QueueLaw NoDuplicate DroppedStayDropped QueueErrOnlyAfterClose AcceptErrOnlyAfterClose CloseMeansClosed QueueNeverClosed ListenErrReported NoStuck
PROPERTIES QueueReturns AcceptReturns CloseReturns NoLeak
CHECK_DEADLOCK FALSE
