CONSTANTS
  K = 1
  NStreams = 1
  Cap = 1
  Acceptors = {1}
  MaxAccepts = 2
  Closers = {1, 2}
  WithListen = TRUE
  AsIs_ErrChan = FALSE
  AsIs_BindErr = FALSE
  Mut = "none"
SPECIFICATION GenSpec
INVARIANTS TypeOK NoPanic QueueLaw NoDuplicate DroppedStayDropped CloseMeansClosed ListenErrReported NoStuck
CHECK_DEADLOCK FALSE
