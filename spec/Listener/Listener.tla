------------------------------ MODULE Listener ------------------------------
(* server/lib/snowflake.go: the life cycle of the server-side listener.

     Transport.Listen        the caller's select on errChan / 100 ms timer, the
                             goroutine around http.Server.ListenAndServe (func1),
                             the goroutine around acceptSessions (func2)
     SnowflakeListener       queue (buffered channel of net.Conn), closed
                             (channel closed by Close), closeOnce
       queueConn             select { <-closed: error ; queue <- conn: nil }
       Accept                select { <-closed: io.ErrClosedPipe ; <-queue }
       Close                 closeOnce.Do{ close(closed); server.Close(); ln.Close() }
     acceptStreams           one goroutine per KCP session: loop
                             { AcceptStream ; queueConn(stream) } - the error
                             of queueConn is IGNORED, the loop ends only when
                             the session dies

   Processes: K session goroutines, each delivering up to NStreams streams
   through queueConn; application goroutines (Acceptors) calling Accept up to
   MaxAccepts times each (cmd/server's acceptLoop is one of them); closers
   calling Close (server.go calls Close twice on every listener: the shutdown
   loop and a deferred call); with WithListen also the goroutines started by
   Transport.Listen.

   Grain: one action per channel operation / select commitment / Once step.
   An operation's effect and its return are one step; a recorded call/return
   history of the real object is validated by letting the effect happen
   anywhere between the call record and the return record (Listener_Trace).

   What the code promises (and this module states):
   * the queue is a hand-over without loss, duplication or invention: the
     streams whose queueConn returned nil are exactly the streams returned by
     Accept so far plus the queue content, all distinct (QueueLaw, NoDuplicate);
     the channel is FIFO and is modelled so, but the ORDER is not stated as a
     property (no caller depends on it);
   * a stream whose queueConn returned the error was never queued and is never
     returned (DroppedStayDropped); queueConn returns the error only after
     Close began (QueueErrOnlyAfterClose);
   * Accept returns an error only after Close began (AcceptErrOnlyAfterClose);
     the error is permanent (not a temporary net.Error: acceptLoop would spin);
   * NOT promised: "no stream is returned after Close".  Go's select picks
     among ready cases at random, so after Close an Accept may still return a
     queued stream and a queueConn may still queue one (both are allowed here);
     streams left in the queue are dropped WITHOUT being closed;
   * Close is idempotent, never panics, and a Close call returns only when the
     first one has done all three steps (CloseMeansClosed: sync.Once);
   * the queue channel itself is never closed, so no send on a closed channel
     (qclosed stays FALSE; NoPanic);
   * liveness, one WF per goroutine step: a queueConn / Accept parked in its
     select returns once Close began (QueueReturns, AcceptReturns), every Close
     call returns (CloseReturns), the goroutines started by Transport.Listen end
     after Close (NoLeak), and their safety shadow NoStuck for the replay.
   * Transport.Listen reports the error of ListenAndServe that it received
     (ListenErrReported).

   Deviation constants (DESIGN 2.4), TRUE = the pinned code:
     AsIs_ErrChan  errChan is unbuffered and only Listen's select receives from
                   it: when ListenAndServe returns at Close (ErrServerClosed)
                   its goroutine parks in `errChan <- err` for ever.
     AsIs_BindErr  the error received from errChan ("address already in use",
                   "permission denied") is overwritten by `ln, err :=
                   kcp.ServeConn(..)`: Listen returns a listener and nil.

   What-if constant Mut (vacuity guards; "none" = the code):
     "noonce"        Close without sync.Once     -> second Close panics
     "closequeue"    Close also closes the queue -> send on closed channel
     "noclosedcase"  queueConn without the closed case -> parked for ever
     "acceptblind"   Accept without the closed case    -> parked for ever
     "earlyonce"     second Close returns while the first is still closing
     "peek"          Accept does not take the stream out of the queue

   Don't-care regions:
   * which ready case a select takes (both allowed);
   * the text of queueConn's error; of Accept's error only: non-nil, permanent;
   * when a session dies, when smux delivers a stream (environment);
   * the 100 ms timer of Listen is assumed to outlast ListenAndServe's bind
     (LTimeout needs srv = "serving"): a bind failure reaches the select first;
   * goroutines of third-party code kept alive by the listener (kcp monitor,
     ClientMap sweeper: nothing closes handler.pconn) are not modelled. *)
EXTENDS Integers, Sequences, FiniteSets, TLC

CONSTANTS
  K,            \* number of KCP sessions (acceptStreams goroutines)
  NStreams,     \* streams each session can deliver
  Cap,          \* capacity of the queue channel (65534 in Transport.Listen)
  Acceptors,    \* identities of the goroutines calling Accept, e.g. {1, 2}
  MaxAccepts,   \* Accept calls per acceptor
  Closers,      \* identities of the Close calls, e.g. {1, 2}
  WithListen,   \* BOOLEAN: model Transport.Listen and its two goroutines
  AsIs_ErrChan, AsIs_BindErr,
  Mut

ASSUME K \in Nat /\ NStreams \in Nat /\ Cap \in Nat /\ MaxAccepts \in Nat
ASSUME WithListen \in BOOLEAN /\ AsIs_ErrChan \in BOOLEAN /\ AsIs_BindErr \in BOOLEAN
ASSUME Mut \in {"none", "noonce", "closequeue", "noclosedcase", "acceptblind", "earlyonce", "peek"}

Sessions == 1..K
Streams  == 1..(K * NStreams)
Sid(k, j) == (k - 1) * NStreams + j      \* j-th stream of session k
ErrClosed == -1                          \* Accept's error result

VARIABLES
  queue,      \* l.queue: sequence of stream ids, Len <= Cap
  qclosed,    \* the queue channel has been closed (only in what-if "closequeue")
  closed,     \* close(l.closed) has happened
  once,       \* closeOnce: "fresh" | "running" | "done"
  srvClosed,  \* l.server.Close() has been called
  lnClosed,   \* l.ln.Close() has been called
  spc, snext, sres,    \* sessions: pc, streams handed to queueConn so far, last result
  apc, ares, acount,   \* acceptors: pc, last result (0 none, ErrClosed, stream id), calls made
  cpc,                 \* closers: pc
  lpc, lerr, bind,     \* Transport.Listen: pc of the caller, error received, fate of the bind
  srv, errBuf,         \* func1 (ListenAndServe goroutine): pc; buffered errChan content
  asg,                 \* func2 (acceptSessions goroutine): pc
  sent, got, dropped, dup,    \* history: streams sent into the queue / returned by Accept / refused; a stream was returned twice
  panicked

vars == <<queue, qclosed, closed, once, srvClosed, lnClosed, spc, snext, sres, apc, ares, acount, cpc,
          lpc, lerr, bind, srv, errBuf, asg, sent, got, dropped, dup, panicked>>

SPcs == {"idle", "select", "dead", "panicked"}
APcs == {"idle", "select"}
CPcs == {"idle", "once", "closechan", "srvclose", "lnclose", "closeq", "oncedone", "waitonce", "done", "panicked"}
LPcs == {"none", "select", "kcp", "ret_ok", "ret_err"}

TypeOK ==
  /\ queue \in Seq(Streams) /\ Len(queue) <= Cap
  /\ qclosed \in BOOLEAN /\ closed \in BOOLEAN /\ srvClosed \in BOOLEAN /\ lnClosed \in BOOLEAN
  /\ once \in {"fresh", "running", "done"}
  /\ spc \in [Sessions -> SPcs] /\ snext \in [Sessions -> 0..NStreams] /\ sres \in [Sessions -> {"none", "ok", "err"}]
  /\ apc \in [Acceptors -> APcs] /\ ares \in [Acceptors -> {0, ErrClosed} \cup Streams] /\ acount \in [Acceptors -> 0..MaxAccepts]
  /\ cpc \in [Closers -> CPcs]
  /\ lpc \in LPcs /\ lerr \in BOOLEAN /\ bind \in {"ok", "fail"}
  /\ srv \in {"none", "starting", "serving", "senderr", "done"} /\ errBuf \in 0..1
  /\ asg \in {"none", "accepting", "done"}
  /\ sent \subseteq Streams /\ got \subseteq Streams /\ dropped \subseteq Streams /\ dup \in BOOLEAN
  /\ panicked \in BOOLEAN

Init ==
  /\ queue = <<>> /\ qclosed = FALSE /\ closed = FALSE /\ once = "fresh" /\ srvClosed = FALSE /\ lnClosed = FALSE
  /\ spc = [k \in Sessions |-> "idle"] /\ snext = [k \in Sessions |-> 0] /\ sres = [k \in Sessions |-> "none"]
  /\ apc = [a \in Acceptors |-> "idle"] /\ ares = [a \in Acceptors |-> 0] /\ acount = [a \in Acceptors |-> 0]
  /\ cpc = [c \in Closers |-> "idle"]
  /\ lpc = "none" /\ lerr = FALSE /\ bind = "ok" /\ srv = "none" /\ errBuf = 0 /\ asg = "none"
  /\ sent = {} /\ got = {} /\ dropped = {} /\ dup = FALSE
  /\ panicked = FALSE

(* the listener exists: Listen has returned it (or it was built directly) *)
Ready == IF WithListen THEN lpc = "ret_ok" ELSE TRUE

ULife  == UNCHANGED <<lpc, lerr, bind, srv, errBuf, asg>>
UClose == UNCHANGED <<closed, once, srvClosed, lnClosed, cpc, qclosed>>
USess  == UNCHANGED <<spc, snext, sres>>
UAcc   == UNCHANGED <<apc, ares, acount>>
UHist  == UNCHANGED <<sent, got, dropped, dup>>

-----------------------------------------------------------------------------
(* Transport.Listen *)

LStart(b) ==        \* the caller enters Listen; `go func1`; the bind will succeed or not
  /\ WithListen /\ lpc = "none"
  /\ lpc' = "select" /\ bind' = b /\ srv' = "starting"
  /\ UNCHANGED <<lerr, errBuf, asg, queue, panicked>> /\ UClose /\ USess /\ UAcc /\ UHist

SrvBind ==          \* ListenAndServe: net.Listen succeeded (serving) or failed (returns at once)
  /\ srv = "starting"
  /\ srv' = (IF bind = "ok" THEN "serving" ELSE "senderr")
  /\ UNCHANGED <<lpc, lerr, bind, errBuf, asg, queue, panicked>> /\ UClose /\ USess /\ UAcc /\ UHist

SrvStop ==          \* ListenAndServe returns ErrServerClosed after server.Close()
  /\ srv = "serving" /\ srvClosed
  /\ srv' = "senderr"
  /\ UNCHANGED <<lpc, lerr, bind, errBuf, asg, queue, panicked>> /\ UClose /\ USess /\ UAcc /\ UHist

SrvSendToSelect ==  \* errChan <- err received by Listen's select
  /\ srv = "senderr" /\ lpc = "select"
  /\ srv' = "done" /\ lpc' = "kcp" /\ lerr' = TRUE
  /\ UNCHANGED <<bind, errBuf, asg, queue, panicked>> /\ UClose /\ USess /\ UAcc /\ UHist

SrvSendBuffered ==  \* repaired code only: nobody receives any more, the buffer takes the value
  /\ ~AsIs_ErrChan
  /\ srv = "senderr" /\ lpc # "select" /\ errBuf = 0
  /\ srv' = "done" /\ errBuf' = 1
  /\ UNCHANGED <<lpc, lerr, bind, asg, queue, panicked>> /\ UClose /\ USess /\ UAcc /\ UHist

LTimeout ==         \* the 100 ms timer (assumed to outlast the bind, see header)
  /\ lpc = "select" /\ srv = "serving"
  /\ lpc' = "kcp" /\ lerr' = FALSE
  /\ UNCHANGED <<bind, srv, errBuf, asg, queue, panicked>> /\ UClose /\ USess /\ UAcc /\ UHist

LKcp ==             \* kcp.ServeConn, `go func2`, return
  /\ lpc = "kcp"
  /\ (IF lerr /\ ~AsIs_BindErr
        THEN lpc' = "ret_err" /\ asg' = asg
        ELSE lpc' = "ret_ok" /\ asg' = "accepting")
  /\ UNCHANGED <<lerr, bind, srv, errBuf, queue, panicked>> /\ UClose /\ USess /\ UAcc /\ UHist

AsgStop ==          \* AcceptKCP returns io.ErrClosedPipe after ln.Close(); acceptSessions returns
  /\ asg = "accepting" /\ lnClosed
  /\ asg' = "done"
  /\ UNCHANGED <<lpc, lerr, bind, srv, errBuf, queue, panicked>> /\ UClose /\ USess /\ UAcc /\ UHist

-----------------------------------------------------------------------------
(* acceptStreams + queueConn *)

SSet(k, pc) == spc' = [spc EXCEPT ![k] = pc]

SStream(k) ==       \* environment: smux delivers the next stream; the goroutine calls queueConn
  /\ Ready /\ spc[k] = "idle" /\ snext[k] < NStreams
  /\ snext' = [snext EXCEPT ![k] = @ + 1] /\ SSet(k, "select")
  /\ UNCHANGED <<sres, queue, panicked>> /\ UClose /\ UAcc /\ UHist /\ ULife

InHand(k) == Sid(k, snext[k])

SQueueSend(k) ==    \* case l.queue <- conn: queueConn returns nil; acceptStreams loops
  /\ spc[k] = "select" /\ Len(queue) < Cap /\ ~qclosed
  /\ queue' = Append(queue, InHand(k)) /\ sent' = sent \cup {InHand(k)}
  /\ sres' = [sres EXCEPT ![k] = "ok"] /\ SSet(k, "idle")
  /\ UNCHANGED <<snext, got, dropped, dup, panicked>> /\ UClose /\ UAcc /\ ULife

SQueuePanic(k) ==   \* what-if "closequeue" only: a send case on a closed channel panics
  /\ spc[k] = "select" /\ qclosed
  /\ panicked' = TRUE /\ SSet(k, "panicked")
  /\ UNCHANGED <<snext, sres, queue>> /\ UClose /\ UAcc /\ UHist /\ ULife

SQueueClosed(k) ==  \* case <-l.closed: queueConn returns the error; acceptStreams ignores it and loops
  /\ Mut # "noclosedcase"
  /\ spc[k] = "select" /\ closed /\ ~qclosed
  /\ dropped' = dropped \cup {InHand(k)}
  /\ sres' = [sres EXCEPT ![k] = "err"] /\ SSet(k, "idle")
  /\ UNCHANGED <<snext, queue, sent, got, dup, panicked>> /\ UClose /\ UAcc /\ ULife

SessionDies(k) ==   \* environment: AcceptStream fails (session closed / keep-alive timeout)
  /\ Ready /\ spc[k] = "idle"
  /\ SSet(k, "dead")
  /\ UNCHANGED <<snext, sres, queue, panicked>> /\ UClose /\ UAcc /\ UHist /\ ULife

-----------------------------------------------------------------------------
(* Accept *)

ASet(a, pc) == apc' = [apc EXCEPT ![a] = pc]

ACall(a) ==         \* environment: the application calls Accept
  /\ Ready /\ apc[a] = "idle" /\ acount[a] < MaxAccepts
  /\ acount' = [acount EXCEPT ![a] = @ + 1] /\ ASet(a, "select")
  /\ UNCHANGED <<ares, queue, panicked>> /\ UClose /\ USess /\ UHist /\ ULife

ARecv(a) ==         \* case conn := <-l.queue   (a closed channel still delivers what is buffered)
  /\ apc[a] = "select" /\ Len(queue) > 0
  /\ ares' = [ares EXCEPT ![a] = Head(queue)] /\ queue' = (IF Mut = "peek" THEN queue ELSE Tail(queue))
  /\ got' = got \cup {Head(queue)} /\ dup' = (dup \/ Head(queue) \in got)
  /\ ASet(a, "idle")
  /\ UNCHANGED <<acount, sent, dropped, panicked>> /\ UClose /\ USess /\ ULife

AClosed(a) ==       \* case <-l.closed
  /\ Mut # "acceptblind"
  /\ apc[a] = "select" /\ closed
  /\ ares' = [ares EXCEPT ![a] = ErrClosed] /\ ASet(a, "idle")
  /\ UNCHANGED <<acount, queue, panicked>> /\ UClose /\ USess /\ UHist /\ ULife

-----------------------------------------------------------------------------
(* Close *)

CSet(c, pc) == cpc' = [cpc EXCEPT ![c] = pc]
UC == UNCHANGED <<queue>> /\ USess /\ UAcc /\ UHist /\ ULife

CCall(c) ==         \* environment: somebody calls Close
  /\ Ready /\ cpc[c] = "idle"
  /\ CSet(c, "once")
  /\ UNCHANGED <<closed, once, srvClosed, lnClosed, qclosed, panicked>> /\ UC

COnce(c) ==         \* closeOnce.Do: first caller runs the body, later callers wait for it
  /\ cpc[c] = "once"
  /\ (IF Mut = "noonce" THEN CSet(c, "closechan") /\ once' = once
      ELSE IF once = "fresh" THEN CSet(c, "closechan") /\ once' = "running"
      ELSE IF once = "done" \/ Mut = "earlyonce" THEN CSet(c, "done") /\ once' = once
      ELSE CSet(c, "waitonce") /\ once' = once)
  /\ UNCHANGED <<closed, srvClosed, lnClosed, qclosed, panicked>> /\ UC

CCloseChan(c) ==    \* close(l.closed); closing a closed channel panics (what-if "noonce" only)
  /\ cpc[c] = "closechan"
  /\ (IF closed THEN panicked' = TRUE /\ CSet(c, "panicked") /\ closed' = closed
                ELSE closed' = TRUE /\ CSet(c, "srvclose") /\ panicked' = panicked)
  /\ UNCHANGED <<once, srvClosed, lnClosed, qclosed>> /\ UC

CSrvClose(c) ==     \* l.server.Close()
  /\ cpc[c] = "srvclose"
  /\ srvClosed' = TRUE /\ CSet(c, "lnclose")
  /\ UNCHANGED <<closed, once, lnClosed, qclosed, panicked>> /\ UC

CLnClose(c) ==      \* l.ln.Close()
  /\ cpc[c] = "lnclose"
  /\ lnClosed' = TRUE /\ CSet(c, IF Mut = "closequeue" THEN "closeq" ELSE "oncedone")
  /\ UNCHANGED <<closed, once, srvClosed, qclosed, panicked>> /\ UC

CCloseQueue(c) ==   \* what-if "closequeue" only
  /\ cpc[c] = "closeq"
  /\ qclosed' = TRUE /\ CSet(c, "oncedone")
  /\ UNCHANGED <<closed, once, srvClosed, lnClosed, panicked>> /\ UC

COnceDone(c) ==
  /\ cpc[c] = "oncedone"
  /\ once' = (IF Mut = "noonce" THEN once ELSE "done") /\ CSet(c, "done")
  /\ UNCHANGED <<closed, srvClosed, lnClosed, qclosed, panicked>> /\ UC

CWaitOnce(c) ==
  /\ cpc[c] = "waitonce" /\ once = "done"
  /\ CSet(c, "done")
  /\ UNCHANGED <<closed, once, srvClosed, lnClosed, qclosed, panicked>> /\ UC

-----------------------------------------------------------------------------
LifeCode       == SrvBind \/ SrvStop \/ SrvSendToSelect \/ SrvSendBuffered \/ LTimeout \/ LKcp \/ AsgStop
SessInner(k)   == SQueueSend(k) \/ SQueuePanic(k) \/ SQueueClosed(k)
AccInner(a)    == ARecv(a) \/ AClosed(a)
CloseInner(c)  == COnce(c) \/ CCloseChan(c) \/ CSrvClose(c) \/ CLnClose(c) \/ CCloseQueue(c) \/ COnceDone(c) \/ CWaitOnce(c)

(* steps a goroutine takes by itself once it has been started *)
CodeNext == LifeCode \/ (\E k \in Sessions : SessInner(k)) \/ (\E a \in Acceptors : AccInner(a)) \/ (\E c \in Closers : CloseInner(c))

EnvNext ==
  \/ (\E b \in {"ok", "fail"} : LStart(b))
  \/ (\E k \in Sessions : SStream(k) \/ SessionDies(k))
  \/ (\E a \in Acceptors : ACall(a))
  \/ (\E c \in Closers : CCall(c))

Next == CodeNext \/ EnvNext

(* one WF per goroutine step; none for the environment *)
Fairness ==
  /\ WF_vars(SrvBind) /\ WF_vars(SrvStop) /\ WF_vars(SrvSendToSelect) /\ WF_vars(SrvSendBuffered)
  /\ WF_vars(LTimeout) /\ WF_vars(LKcp) /\ WF_vars(AsgStop)
  /\ \A k \in Sessions : WF_vars(SQueueSend(k)) /\ WF_vars(SQueueClosed(k)) /\ WF_vars(SQueuePanic(k))
  /\ \A a \in Acceptors : WF_vars(ARecv(a)) /\ WF_vars(AClosed(a))
  /\ \A c \in Closers : /\ WF_vars(COnce(c)) /\ WF_vars(CCloseChan(c)) /\ WF_vars(CSrvClose(c)) /\ WF_vars(CLnClose(c))
                        /\ WF_vars(CCloseQueue(c)) /\ WF_vars(COnceDone(c)) /\ WF_vars(CWaitOnce(c))

Spec == Init /\ [][Next]_vars /\ Fairness

(* Generation grain (gated replay): commands only when every goroutine is at
   rest.  SessionDies is not a command: the replay calls queueConn itself, the
   death of a session means nothing to the listener object. *)
Quiescent == ~ENABLED CodeNext
GListen(b)      == Quiescent /\ LStart(b)
GStream(k)      == Quiescent /\ SStream(k)
GAccept(a)      == Quiescent /\ ACall(a)
GClose(c)       == Quiescent /\ CCall(c)
GenNext ==
  \/ SrvBind \/ SrvStop \/ SrvSendToSelect \/ SrvSendBuffered \/ LTimeout \/ LKcp \/ AsgStop
  \/ (\E k \in Sessions : SQueueSend(k) \/ SQueuePanic(k) \/ SQueueClosed(k))
  \/ (\E a \in Acceptors : ARecv(a) \/ AClosed(a))
  \/ (\E c \in Closers : COnce(c) \/ CCloseChan(c) \/ CSrvClose(c) \/ CLnClose(c) \/ CCloseQueue(c) \/ COnceDone(c) \/ CWaitOnce(c))
  \/ (\E b \in {"ok", "fail"} : GListen(b))
  \/ (\E k \in Sessions : GStream(k))
  \/ (\E a \in Acceptors : GAccept(a))
  \/ (\E c \in Closers : GClose(c))
GenSpec == Init /\ [][GenNext]_vars

-----------------------------------------------------------------------------
(* Properties *)

NoPanic == ~panicked

Range(s) == {s[i] : i \in DOMAIN s}

(* the queue is a hand-over without loss, duplication or invention *)
QueueLaw ==
  /\ sent = got \cup Range(queue)
  /\ got \cap Range(queue) = {}
  /\ \A i, j \in 1..Len(queue) : queue[i] = queue[j] => i = j

NoDuplicate == ~dup

DroppedStayDropped == dropped \cap sent = {}

QueueErrOnlyAfterClose  == \A k \in Sessions : sres[k] = "err" => closed
AcceptErrOnlyAfterClose == \A a \in Acceptors : ares[a] = ErrClosed => closed

CloseReturned == \E c \in Closers : cpc[c] = "done"
CloseMeansClosed == CloseReturned => (closed /\ srvClosed /\ lnClosed)

QueueNeverClosed == Mut = "none" => ~qclosed

ListenErrReported == lpc = "ret_ok" => ~lerr

(* liveness *)
QueueReturns  == \A k \in Sessions : (spc[k] = "select" /\ closed) ~> (spc[k] # "select")
AcceptReturns == \A a \in Acceptors : (apc[a] = "select" /\ closed) ~> (apc[a] # "select")
CloseReturns  == \A c \in Closers : (cpc[c] = "once") ~> (cpc[c] \in {"done", "panicked"})
LifeEnded == srv \in {"none", "done"} /\ asg \in {"none", "done"}
NoLeak == (\E c \in Closers : cpc[c] = "done") ~> LifeEnded

(* the safety shadow of the four, as the gated replay sees it: at rest after
   Close began nothing is parked in a select, no Close call is pending, and
   once a Close call has returned Listen's goroutines are gone *)
NoStuck ==
  Quiescent =>
    /\ closed => ((\A k \in Sessions : spc[k] # "select") /\ (\A a \in Acceptors : apc[a] # "select"))
    /\ \A c \in Closers : cpc[c] \in {"idle", "done", "panicked"}
    /\ (\E c \in Closers : cpc[c] = "done") => LifeEnded
=============================================================================
