CONSTANTS
  K = 3
  NStreams = 3
  Cap = 2
  Acceptors = {1, 2, 3}
  MaxAccepts = 3
  Closers = {1, 2}
  WithListen = FALSE
  AsIs_ErrChan = FALSE
  AsIs_BindErr = FALSE
  Mut = "none"
SPECIFICATION GenSpec
INVARIANTS TypeOK NoPanic QueueLaw NoDuplicate DroppedStayDropped CloseMeansClosed ListenErrReported NoStuck
CHECK_DEADLOCK FALSE
