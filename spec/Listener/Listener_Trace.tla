--------------------------- MODULE Listener_Trace ---------------------------
(* Trace specification for Listener (DESIGN 2.2 item 4).

   traces.ndjson: one JSON object per line, a trace recorded by
   harness/inpkg/server_lib/listener_verif_test.go from the REAL
   SnowflakeListener:  {"id": n, "events": [e1, e2, ...]}
   All traces of one file were recorded with the same queue capacity and the
   same constructor (constants Cap, WithListen of the configuration).

   Events
     Listen{bind}            Transport.Listen is called on a free ("ok") or an
                             occupied ("fail") port            -> LStart(bind)
     ListenRet{res}          it returned a listener ("ok") or an error ("err")
     Stream{k}               session k calls queueConn with its next stream -> SStream(k)
     Accept{a}               acceptor a calls Accept                        -> ACall(a)
     Close{c}                closer c calls Close                           -> CCall(c)
     RetStream{k,res}        (free-running herds) queueConn returned ok | err
     RetAccept{a,res,s}      Accept returned: res = stream (s = its id) | perm
                             (nil conn, permanent error); anything else (temp,
                             nil, both) has no explanation
     RetClose{c,res}         Close returned nil
     obs / final             (gated replay) taken once every goroutine had come
                             to rest: queue length, closed flag, where each
                             operation is parked or what it returned, the state
                             of Listen's two goroutines
   Call records are written BEFORE the call, return records AFTER the return,
   under one recorder mutex: the effect of an operation lies between the two,
   so the goroutines' own steps (CodeNext) are silent steps that may be taken
   before any event.  A return record is explained by a state in which that
   operation has finished with that result; an observation by a state that is
   quiescent in the model too and agrees on everything observed; "final"
   additionally by NoStuck (an invariant of Listener: nothing parked after
   Close began, no Close pending, Listen's goroutines gone once Close
   returned) - what is pending there is pending for ever.

   Acceptance as in Peers_Trace: high-water mark of l per trace (register tr),
   -workers 1, POSTCONDITION prints the rejected traces as JSON. *)
EXTENDS Listener, Json, TLCExt

VARIABLES tr, l

tvars == <<vars, tr, l>>

Traces == ndJsonDeserialize("traces.ndjson")
NT == Len(Traces)
Events(t) == Traces[t].events

TInit ==
  /\ tr \in 1..NT
  /\ l = 1
  /\ Init
  /\ TLCSet(tr, 1)

HasNext == l <= Len(Events(tr))
E == Events(tr)[l]
IsEv(n) == HasNext /\ E.ev = n
Adv == l' = l + 1 /\ tr' = tr

TListen    == IsEv("Listen") /\ E.bind \in {"ok", "fail"} /\ LStart(E.bind) /\ Adv
TListenRet == IsEv("ListenRet") /\ lpc = (IF E.res = "ok" THEN "ret_ok" ELSE "ret_err") /\ UNCHANGED vars /\ Adv
TStream    == IsEv("Stream") /\ E.k \in Sessions /\ SStream(E.k) /\ Adv
TAccept    == IsEv("Accept") /\ E.a \in Acceptors /\ ACall(E.a) /\ Adv
TClose     == IsEv("Close") /\ E.c \in Closers /\ CCall(E.c) /\ Adv

TRetStream ==
  /\ IsEv("RetStream") /\ E.k \in Sessions
  /\ spc[E.k] = "idle" /\ sres[E.k] = E.res
  /\ UNCHANGED vars /\ Adv

AccRes(res, s) == IF res = "stream" THEN s ELSE IF res = "perm" THEN ErrClosed ELSE -2   \* -2: no explanation
TRetAccept ==
  /\ IsEv("RetAccept") /\ E.a \in Acceptors
  /\ apc[E.a] = "idle" /\ ares[E.a] = AccRes(E.res, E.s)
  /\ UNCHANGED vars /\ Adv

TRetClose ==
  /\ IsEv("RetClose") /\ E.c \in Closers
  /\ cpc[E.c] = "done" /\ E.res = "nil"
  /\ UNCHANGED vars /\ Adv

TSilent == HasNext /\ CodeNext /\ UNCHANGED <<tr, l>>

IsObs == HasNext /\ E.ev \in {"obs", "final"}

SessMatch(k, o) ==
  \/ o.st = "idle"   /\ spc[k] = "idle" /\ sres[k] = o.res /\ snext[k] = o.n
  \/ o.st = "select" /\ spc[k] = "select" /\ snext[k] = o.n
  \/ o.st = "panic"  /\ spc[k] = "panicked"

AccMatch(a, o) ==
  \/ o.st = "idle"   /\ apc[a] = "idle" /\ acount[a] = o.n /\ ares[a] = (IF o.res = "none" THEN 0 ELSE AccRes(o.res, o.s))
  \/ o.st = "select" /\ apc[a] = "select" /\ acount[a] = o.n

CloseMatch(c, o) ==
  \/ o.st = "idle"  /\ cpc[c] = "idle"
  \/ o.st = "once"  /\ cpc[c] = "waitonce"
  \/ o.st = "done"  /\ cpc[c] = "done" /\ o.res = "nil"
  \/ o.st = "panic" /\ cpc[c] = "panicked"

ObsMatch(o) ==
  /\ Len(queue) = o.qlen
  /\ closed = o.closed
  /\ srv = o.srv /\ asg = o.asg
  /\ \A k \in 1..Len(o.ss) : k \in Sessions /\ SessMatch(k, o.ss[k])
  /\ \A a \in 1..Len(o.as) : a \in Acceptors /\ AccMatch(a, o.as[a])
  /\ \A c \in 1..Len(o.cs) : c \in Closers /\ CloseMatch(c, o.cs[c])

TObs ==
  /\ IsObs
  /\ Quiescent
  /\ ObsMatch(E)
  /\ UNCHANGED vars /\ Adv

TNext == TListen \/ TListenRet \/ TStream \/ TAccept \/ TClose \/ TRetStream \/ TRetAccept \/ TRetClose \/ TSilent \/ TObs

TSpec == TInit /\ [][TNext]_tvars

(* CONSTRAINT: side effect only - remember how far each trace was explained *)
Mark == (IF l > TLCGet(tr) THEN TLCSet(tr, l) ELSE TRUE)

Rejected == {t \in 1..NT : TLCGet(t) # Len(Events(t)) + 1}

Post ==
  PrintT(ToJson([nt |-> NT, rejected |-> {<<Traces[t].id, TLCGet(t)>> : t \in Rejected}]))

(* the property invariants, evaluated on every state of every explained
   execution (the trace bounds are larger than the model-checked ones) *)
TNoPanic == NoPanic
TQueueLaw == QueueLaw
TNoDuplicate == NoDuplicate
TDropped == DroppedStayDropped
TErrAfterClose == QueueErrOnlyAfterClose /\ AcceptErrOnlyAfterClose
TCloseMeansClosed == CloseMeansClosed
TListenErrReported == ListenErrReported
TNoStuck == NoStuck
=============================================================================
