CONSTANTS
  K = 2
  NStreams = 1
  Cap = 1
  Acceptors = {1}
  MaxAccepts = 2
  Closers = {1, 2}
  WithListen = FALSE
  AsIs_ErrChan = FALSE
  AsIs_BindErr = FALSE
  Mut = "none"
SPECIFICATION GenSpec
INVARIANTS TypeOK NoPanic QueueLaw NoDuplicate DroppedStayDropped CloseMeansClosed ListenErrReported NoStuck
CHECK_DEADLOCK FALSE
