\* template: lib/checks/c05_listener.py replaces Cap and WithListen per group of traces
CONSTANTS
  K = 4
  NStreams = 4
  Cap = 1
  Acceptors = {1, 2, 3}
  MaxAccepts = 12
  Closers = {1, 2}
  WithListen = FALSE
  AsIs_ErrChan = FALSE
  AsIs_BindErr = FALSE
  Mut = "none"
SPECIFICATION TSpec
CONSTRAINT Mark
POSTCONDITION Post
INVARIANTS TNoPanic TQueueLaw TNoDuplicate TDropped TErrAfterClose TCloseMeansClosed TListenErrReported TNoStuck
CHECK_DEADLOCK FALSE
