CONSTANTS
  K = 2
  NStreams = 2
  Cap = 1
  Acceptors = {1, 2}
  MaxAccepts = 2
  Closers = {1, 2}
  WithListen = FALSE
  AsIs_ErrChan = FALSE
  AsIs_BindErr = FALSE
  Mut = "none"
SPECIFICATION Spec
INVARIANTS TypeOK NoPanic QueueLaw NoDuplicate DroppedStayDropped QueueErrOnlyAfterClose AcceptErrOnlyAfterClose CloseMeansClosed QueueNeverClosed ListenErrReported NoStuck
CHECK_DEADLOCK FALSE
