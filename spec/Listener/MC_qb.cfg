CONSTANTS
  K = 1
  NStreams = 2
  Cap = 1
  Acceptors = {1, 2}
  MaxAccepts = 1
  Closers = {1, 2}
  WithListen = FALSE
  AsIs_ErrChan = FALSE
  AsIs_BindErr = FALSE
  Mut = "none"
SPECIFICATION Spec
INVARIANTS TypeOK NoPanic QueueLaw NoDuplicate DroppedStayDropped QueueErrOnlyAfterClose AcceptErrOnlyAfterClose CloseMeansClosed QueueNeverClosed ListenErrReported NoStuck
PROPERTIES QueueReturns AcceptReturns CloseReturns NoLeak
CHECK_DEADLOCK FALSE
