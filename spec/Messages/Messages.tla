------------------------------ MODULE Messages ------------------------------
(* common/messages: the six broker messages (proxy poll request/response,
   proxy answer request/response, client poll request/response).

   The module has four parts.
   1. The CONTRACT on abstract messages: Valid(kind, m) ("yes" / "no" /
      "either") and Normalise(kind, m) (the decoded fields with the documented
      defaults applied).  Expect(kind, m) is the set of results a decoder may
      produce for the message m.
   2. What a JSON document DENOTES: Allowed(kind, doc) is the union of
      Expect over every message the document may be read as (first or last of
      a duplicated member, a null or wrongly typed optional member read as
      absent or rejected, unknown members ignored or rejected).  Documents
      that are not JSON objects must be rejected.
   3. The codecs AS DOCUMENTED (the wire format of the specification comments
      in proxy.go / client.go with encoding/json's reading rules): Encode(kind,
      args) and ModelDecode(kind, doc).  TLC checks
         ModelDecode(Encode(a)) = Normalise(AsMessage(a))   (valid a)
         ModelDecode(Encode(a)) = error                     (forbidden a)
         ModelDecode(doc) \in Allowed(doc)                  (every document)
   4. Case enumeration: every case is a TLC initial state; the invariant Emit
      prints the case together with the contract's expected results.  The Go
      driver (harness/cmd/msgdrv) concretises the abstract tokens and runs
      the real Encode*/Decode* functions.

   String contents are abstract.  A free-text value is a token "$class.field"
   (class from StrCls: ascii, esc = needs JSON escaping, multi = multi-byte
   UTF-8, nl = contains newlines, long); the driver replaces it by seeded
   content of that class, different for every field and case.  Protocol
   keywords ("unknown", "client match", "1.3" ...) are literal strings.
   Integers are tokens too (TLC integers are 32 bit).

   DON'T-CARE regions (the contract allows both acceptance and an error):
   * a version "1" or "1.99" (major version 1, but neither produced by an
     encoder nor exercised by the repository's tests); on the client request
     any 1.x other than "1.0";
   * a NAT value outside the three names in a proxy poll RESPONSE (the
     decoder passes it through; the statement's NAT clause is read as
     applying to the two requests, whose NAT field the broker consumes);
   * a status other than "success"/"client gone" in an answer response (never
     success; false or an error);
   * a client poll response carrying both an answer and an error;
   * legacy decoders (without relay pattern / relay URL) given a non-empty
     pattern / URL: an error or the remaining fields;
   * bytes after the closing brace of a complete document (ignored or refused);
   * unknown members; duplicated members (first or last); null members; a
     member of the wrong JSON type when the member is optional and
     unvalidated (Type, Clients, AcceptedRelayPattern, RelayURL, NAT of a poll
     response, answer/error of a client response);
   * values returned next to "no match" other than the empty offer; values
     returned next to an error;
   * documents with a byte-order mark or invalid UTF-8, and a Clients number
     written as a fraction, with an exponent or beyond 64 bits: only "no panic".
   Member names that differ from the documented ones only in letter case are
   not generated (encoding/json would read them; the protocol is silent). *)
EXTENDS Integers, Sequences, FiniteSets, TLC, Json

CONSTANTS
  StrCls,     \* content classes of free-text fields
  Full,       \* BOOLEAN: full class sets (thorough) or the reduced ones (quick)
  Part        \* family of cases enumerated by Init: "rt", "doc", "shape" or "all"

Kinds == {"ppreq", "ppresp", "pareq", "paresp", "cpreq", "cpresp"}

ABSENT == "$absent"          \* the member is not in the document
REJECT == "$reject"          \* a reading of a member that makes the decoder reject the document
Tok(c, f) == "$" \o c \o "." \o f
Strs(f) == {Tok(c, f) : c \in StrCls}
OptStrs(f) == {ABSENT, ""} \cup Strs(f)
Pick(full, reduced) == IF Full THEN full ELSE reduced

NatNames    == {"unknown", "restricted", "unrestricted"}
NatOther    == Tok("natother", "nat")        \* any string outside the three names
KnownTypes  == {"standalone", "webext", "badge", "iptproxy"}
TypeOther   == Tok("typeother", "type")
VerOK       == {"1.0", "1.1", "1.2", "1.3"}  \* produced by encoders / documented by the repository's tests
VerEither   == {"1", "1.99"}
VerBad      == {"2.0", "0.9", "10.0", "", "x.1", ABSENT}
CVerOK      == {"1.0"}                       \* client messages: the version line
CVerEither  == {"1.3", "1"}
CVerBad     == {"2.0", "0.9", "10.0", "", ABSENT}   \* ABSENT: no version line at all
ClientToks  == {"neg", "zero", "eight", "p31", "p53p1", "max63"}
FpGood      == {Tok("fp20", "fp"), Tok("fp20lc", "fp"), Tok("fp32", "fp")}
FpBad       == {Tok("fp19", "fp"), Tok("fp21", "fp"), Tok("fp33", "fp"), Tok("fpodd", "fp"),
                Tok("fpnonhex", "fp"), Tok("fpshort", "fp"), Tok("fpspace", "fp")}
FpDefault   == Tok("fpdefault", "fp")        \* the default bridge

-----------------------------------------------------------------------------
(* 1. The contract on messages.  A message is a record of fields; a field is
   a token, ABSENT or REJECT. *)

ERR == [err |-> "error"]
ANY == [err |-> "any"]

Missing(v) == v \in {ABSENT, ""}
Rejected(m, keys) == \E f \in keys : m[f] = REJECT
NatNorm(v) == IF Missing(v) THEN "unknown" ELSE v
Opt(v) == IF v = ABSENT THEN "" ELSE v
NatOK(v) == Missing(v) \/ v \in NatNames
VerClass(v) == IF v \in VerOK THEN "yes" ELSE IF v \in VerEither THEN "either" ELSE "no"
CVerClass(v) == IF v \in CVerOK THEN "yes" ELSE IF v \in CVerEither THEN "either" ELSE "no"

Valid(kind, m) ==
  CASE kind = "ppreq" ->
         IF \/ Rejected(m, {"sid", "version", "type", "nat", "clients", "pattern"})
            \/ VerClass(m.version) = "no"        \* a major version other than 1
            \/ Missing(m.sid)                    \* a missing session id
            \/ ~NatOK(m.nat)                     \* a NAT type outside the three names
         THEN "no" ELSE VerClass(m.version)
    [] kind = "ppresp" ->
         IF \/ Rejected(m, {"status", "offer", "nat", "relay"})
            \/ Missing(m.status)                            \* neither answer nor error
            \/ (m.status = "client match" /\ Missing(m.offer))   \* a missing offer
         THEN "no" ELSE IF NatOK(m.nat) THEN "yes" ELSE "either"
    [] kind = "pareq" ->
         IF \/ Rejected(m, {"version", "sid", "answer"})
            \/ VerClass(m.version) = "no" \/ Missing(m.sid) \/ Missing(m.answer)
         THEN "no" ELSE VerClass(m.version)
    [] kind = "paresp" ->
         IF Rejected(m, {"status"}) \/ Missing(m.status) THEN "no"
         ELSE IF m.status \in {"success", "client gone"} THEN "yes" ELSE "either"
    [] kind = "cpreq" ->
         IF \/ Rejected(m, {"offer", "nat", "fp"})
            \/ CVerClass(m.ver) = "no" \/ Missing(m.offer) \/ ~NatOK(m.nat)
            \/ ~(Missing(m.fp) \/ m.fp \in FpGood)          \* not 20 or 32 hex-encoded bytes
         THEN "no" ELSE CVerClass(m.ver)
    [] kind = "cpresp" ->
         IF Rejected(m, {"answer", "error"}) \/ (Missing(m.answer) /\ Missing(m.error)) THEN "no"
         ELSE IF ~Missing(m.answer) /\ ~Missing(m.error) THEN "either" ELSE "yes"

(* The decoded fields, documented defaults applied.  Fields that are not in
   the record are don't-care. *)
Normalise(kind, m) ==
  CASE kind = "ppreq" ->
         [err |-> "none", sid |-> m.sid,
          type |-> IF m.type \in KnownTypes THEN m.type ELSE "unknown",   \* unrecognised proxy type means unknown
          nat |-> NatNorm(m.nat),                                          \* missing NAT means unknown
          clients |-> IF m.clients = ABSENT THEN "zero" ELSE m.clients,
          pattern |-> Opt(m.pattern),
          aware |-> (m.pattern # ABSENT)]                                  \* absent relay pattern reported as unsupported
    [] kind = "ppresp" ->
         IF m.status = "client match"
         THEN [err |-> "none", offer |-> m.offer, nat |-> NatNorm(m.nat), relay |-> Opt(m.relay)]
         ELSE IF m.status = "no match" THEN [err |-> "none", offer |-> ""]
         ELSE [err |-> "reason", reason |-> m.status]   \* the fail reason comes back as the error text
    [] kind = "pareq"  -> [err |-> "none", answer |-> m.answer, sid |-> m.sid]
    [] kind = "paresp" -> [err |-> "none", success |-> (m.status = "success")]
    [] kind = "cpreq"  ->
         [err |-> "none", offer |-> m.offer, nat |-> NatNorm(m.nat),
          fp |-> IF Missing(m.fp) THEN FpDefault ELSE m.fp]               \* missing fingerprint means the default bridge
    [] kind = "cpresp" -> [err |-> "none", answer |-> Opt(m.answer), error |-> Opt(m.error)]

Expect(kind, m) ==
  LET v == Valid(kind, m) IN
    IF v = "no" THEN {ERR} ELSE IF v = "either" THEN {ERR, Normalise(kind, m)} ELSE {Normalise(kind, m)}

(* The two decoders that predate the relay pattern / relay URL drop that
   field; given a non-empty one they may also refuse. *)
Strip(kind, o) ==
  IF o.err # "none" THEN o
  ELSE IF kind = "ppreq" THEN [err |-> "none", sid |-> o.sid, type |-> o.type, nat |-> o.nat, clients |-> o.clients]
  ELSE IF "nat" \in DOMAIN o THEN [err |-> "none", offer |-> o.offer, nat |-> o.nat] ELSE o
LegacyExpect(kind, m) ==
  IF kind = "ppreq" THEN {Strip(kind, o) : o \in Expect(kind, m)} \cup (IF Missing(m.pattern) THEN {} ELSE {ERR})
  ELSE IF kind = "ppresp" THEN {Strip(kind, o) : o \in Expect(kind, m)} \cup (IF Missing(m.relay) THEN {} ELSE {ERR})
  ELSE {}

-----------------------------------------------------------------------------
(* 2. Documents.  doc = [top, ver, mem]: mem is the sequence of members
   [n |-> name, k |-> JSON kind, v |-> token]; top says how the member list is
   turned into bytes; ver is the version line of client requests. *)

S(n, v) == [n |-> n, k |-> "str", v |-> v]
N(n, v) == [n |-> n, k |-> "num", v |-> v]
MS(n, v) == IF v = ABSENT THEN <<>> ELSE <<S(n, v)>>
MN(n, v) == IF v = ABSENT THEN <<>> ELSE <<N(n, v)>>
Obj(top, ver, mem) == [top |-> top, ver |-> ver, mem |-> mem]
NoVer == "n/a"

ObjTops == {"object", "object-ws", "object-rev"}   \* compact / extra white space / members in reverse order
AnyTops == {"bom", "badutf8"}
BadTops == {"array", "string", "number", "true", "null", "garbage", "truncated", "trailing", "empty"}

Members(kind) ==
  CASE kind = "ppreq"  -> [Sid |-> "sid", Version |-> "version", Type |-> "type", NAT |-> "nat",
                           Clients |-> "clients", AcceptedRelayPattern |-> "pattern"]
    [] kind = "ppresp" -> [Status |-> "status", Offer |-> "offer", NAT |-> "nat", RelayURL |-> "relay"]
    [] kind = "pareq"  -> [Version |-> "version", Sid |-> "sid", Answer |-> "answer"]
    [] kind = "paresp" -> [Status |-> "status"]
    [] kind = "cpreq"  -> [offer |-> "offer", nat |-> "nat", fingerprint |-> "fp"]
    [] kind = "cpresp" -> [answer |-> "answer", error |-> "error"]
Known(kind, name) == name \in DOMAIN Members(kind)
Keys(kind) == {Members(kind)[n] : n \in DOMAIN Members(kind)}
JsonType(key) == IF key = "clients" THEN "num" ELSE "str"
(* Members the protocol requires or validates: a value of the wrong JSON type
   is a missing / invalid value and the document must be rejected. *)
Strict(kind, key) ==
  CASE kind = "ppreq"  -> key \in {"sid", "version", "nat"}
    [] kind = "ppresp" -> key \in {"status", "offer"}
    [] kind = "pareq"  -> TRUE
    [] kind = "paresp" -> TRUE
    [] kind = "cpreq"  -> TRUE
    [] kind = "cpresp" -> FALSE

Occ(kind, mem, key) == SelectSeq(mem, LAMBDA e : Known(kind, e.n) /\ Members(kind)[e.n] = key)
Read(kind, key, e) ==
  IF e.k = "null" THEN {ABSENT, REJECT}
  ELSE IF e.k = JsonType(key) THEN {e.v}
  ELSE IF Strict(kind, key) THEN {REJECT} ELSE {ABSENT, REJECT}
Readings(kind, mem) ==
  [key \in Keys(kind) |->
     LET o == Occ(kind, mem, key) IN
       IF Len(o) = 0 THEN {ABSENT} ELSE Read(kind, key, o[1]) \cup Read(kind, key, o[Len(o)])]

Msgs(kind, fr, ver) ==
  CASE kind = "ppreq" ->
         {[sid |-> a, version |-> b, type |-> c, nat |-> d, clients |-> e, pattern |-> f] :
            a \in fr["sid"], b \in fr["version"], c \in fr["type"], d \in fr["nat"], e \in fr["clients"], f \in fr["pattern"]}
    [] kind = "ppresp" ->
         {[status |-> a, offer |-> b, nat |-> c, relay |-> d] :
            a \in fr["status"], b \in fr["offer"], c \in fr["nat"], d \in fr["relay"]}
    [] kind = "pareq" ->
         {[version |-> a, sid |-> b, answer |-> c] : a \in fr["version"], b \in fr["sid"], c \in fr["answer"]}
    [] kind = "paresp" -> {[status |-> a] : a \in fr["status"]}
    [] kind = "cpreq" ->
         {[ver |-> ver, offer |-> a, nat |-> b, fp |-> c] : a \in fr["offer"], b \in fr["nat"], c \in fr["fp"]}
    [] kind = "cpresp" -> {[answer |-> a, error |-> b] : a \in fr["answer"], b \in fr["error"]}

HasExtra(kind, mem) == \E i \in DOMAIN mem : ~Known(kind, mem[i].n)

(* a number written as a fraction, with an exponent or beyond 64 bits: a decoder
   may refuse it, ignore it or read it as the integer it denotes *)
NumForms == {"frac", "exp", "big"}
OddNumber(d) == \E i \in DOMAIN d.mem : d.mem[i].k \in NumForms

Allowed(kind, d) ==
  LET leg == kind \in {"ppreq", "ppresp"} IN
  IF d.top \in AnyTops \/ OddNumber(d) THEN [full |-> {ANY}, legacy |-> IF leg THEN {ANY} ELSE {}]
  ELSE IF d.top \notin ObjTops \cup {"trailing"} THEN [full |-> {ERR}, legacy |-> IF leg THEN {ERR} ELSE {}]
  ELSE LET msgs == Msgs(kind, Readings(kind, d.mem), d.ver)
           \* unknown members, or bytes after the closing brace: the decoder may ignore them or refuse
           x == IF HasExtra(kind, d.mem) \/ d.top = "trailing" THEN {ERR} ELSE {}
       IN [full |-> UNION {Expect(kind, m) : m \in msgs} \cup x,
           legacy |-> IF leg THEN UNION {LegacyExpect(kind, m) : m \in msgs} \cup x ELSE {}]

-----------------------------------------------------------------------------
(* 3. The codecs as documented. *)

(* What the caller of an encoder means. *)
AsMessage(kind, a) ==
  CASE kind = "ppreq"  -> [sid |-> a.sid, version |-> "1.3", type |-> a.type, nat |-> a.nat, clients |-> a.clients, pattern |-> a.pattern]
    [] kind = "ppresp" -> IF a.success THEN [status |-> "client match", offer |-> a.offer, nat |-> a.nat, relay |-> a.relay]
                          ELSE [status |-> a.reason, offer |-> "", nat |-> "", relay |-> ""]
    [] kind = "pareq"  -> [version |-> "1.3", sid |-> a.sid, answer |-> a.answer]
    [] kind = "paresp" -> [status |-> IF a.success THEN "success" ELSE "client gone"]
    [] kind = "cpreq"  -> [ver |-> "1.0", offer |-> a.offer, nat |-> a.nat, fp |-> a.fp]
    [] kind = "cpresp" -> [answer |-> a.answer, error |-> a.error]

Encode(kind, a) ==
  CASE kind = "ppreq" ->
         Obj("object", NoVer, <<S("Sid", a.sid), S("Version", "1.3"), S("Type", a.type), S("NAT", a.nat),
                                N("Clients", a.clients), S("AcceptedRelayPattern", a.pattern)>>)
    [] kind = "ppresp" ->
         IF a.success
         THEN Obj("object", NoVer, <<S("Status", "client match"), S("Offer", a.offer), S("NAT", a.nat), S("RelayURL", a.relay)>>)
         ELSE Obj("object", NoVer, <<S("Status", a.reason), S("Offer", ""), S("NAT", ""), S("RelayURL", "")>>)
    [] kind = "pareq" ->
         Obj("object", NoVer, <<S("Version", "1.3"), S("Sid", a.sid), S("Answer", a.answer)>>)
    [] kind = "paresp" ->
         Obj("object", NoVer, <<S("Status", IF a.success THEN "success" ELSE "client gone")>>)
    [] kind = "cpreq" ->
         Obj("object", "1.0", <<S("offer", a.offer), S("nat", a.nat),
                                S("fingerprint", IF a.fp = "" THEN FpDefault ELSE a.fp)>>)
    [] kind = "cpresp" ->   \* both members are omitted when empty
         Obj("object", NoVer, (IF a.answer = "" THEN <<>> ELSE <<S("answer", a.answer)>>)
                              \o (IF a.error = "" THEN <<>> ELSE <<S("error", a.error)>>))

(* encoding/json: a known member of the wrong JSON type fails the whole
   document; null leaves the field untouched; the last occurrence wins;
   unknown members are ignored; a top-level null decodes into the zero
   message. *)
RECURSIVE Rev(_)
Rev(s) == IF s = <<>> THEN <<>> ELSE Append(Rev(Tail(s)), Head(s))
MemOf(d) == IF d.top = "null" THEN <<>> ELSE IF d.top = "object-rev" THEN Rev(d.mem) ELSE d.mem
TypeError(kind, mem) ==
  \E i \in DOMAIN mem : Known(kind, mem[i].n) /\ mem[i].k \notin {"null", JsonType(Members(kind)[mem[i].n])}
LastVal(kind, mem, key) ==
  LET o == SelectSeq(Occ(kind, mem, key), LAMBDA e : e.k # "null") IN IF Len(o) = 0 THEN ABSENT ELSE o[Len(o)].v
GoMsg(kind, d) == [key \in Keys(kind) \cup {"ver"} |-> IF key = "ver" THEN d.ver ELSE LastVal(kind, MemOf(d), key)]

CodeMajorIs1(v) == v \in VerOK \cup VerEither     \* strings.Split(v, ".")[0] = "1" on the version classes
E(v) == IF v = ABSENT THEN "" ELSE v              \* the zero value of an absent string member

ModelDecode(kind, d) ==
  IF d.top \notin ObjTops \cup {"null"} \/ TypeError(kind, MemOf(d)) THEN ERR
  ELSE LET m == GoMsg(kind, d) IN
  CASE kind = "ppreq" ->
         IF ~CodeMajorIs1(m.version) THEN ERR
         ELSE IF E(m.sid) = "" THEN ERR
         ELSE IF E(m.nat) \notin {""} \cup NatNames THEN ERR
         ELSE [err |-> "none", sid |-> m.sid,
               type |-> IF m.type \in KnownTypes THEN m.type ELSE "unknown",
               nat |-> IF E(m.nat) = "" THEN "unknown" ELSE m.nat,
               clients |-> IF m.clients = ABSENT THEN "zero" ELSE m.clients,
               pattern |-> E(m.pattern), aware |-> (m.pattern # ABSENT)]
    [] kind = "ppresp" ->
         IF E(m.status) = "" THEN ERR
         ELSE IF m.status = "client match"
              THEN (IF E(m.offer) = "" THEN ERR
                    ELSE [err |-> "none", offer |-> m.offer, nat |-> IF E(m.nat) = "" THEN "unknown" ELSE m.nat, relay |-> E(m.relay)])
         ELSE IF m.status = "no match" THEN [err |-> "none", offer |-> ""]
         ELSE [err |-> "reason", reason |-> m.status]
    [] kind = "pareq" ->
         IF ~CodeMajorIs1(m.version) THEN ERR
         ELSE IF E(m.sid) = "" \/ E(m.answer) = "" THEN ERR
         ELSE [err |-> "none", answer |-> m.answer, sid |-> m.sid]
    [] kind = "paresp" ->
         IF E(m.status) = "" THEN ERR ELSE [err |-> "none", success |-> (m.status = "success")]
    [] kind = "cpreq" ->
         IF m.ver # "1.0" THEN ERR
         ELSE IF E(m.offer) = "" THEN ERR
         ELSE IF E(m.fp) # "" /\ m.fp \notin FpGood \cup {FpDefault} THEN ERR
         ELSE IF E(m.nat) \notin {""} \cup NatNames THEN ERR
         ELSE [err |-> "none", offer |-> m.offer, nat |-> IF E(m.nat) = "" THEN "unknown" ELSE m.nat,
               fp |-> IF E(m.fp) = "" THEN FpDefault ELSE m.fp]
    [] kind = "cpresp" ->
         IF E(m.answer) = "" /\ E(m.error) = "" THEN ERR
         ELSE [err |-> "none", answer |-> E(m.answer), error |-> E(m.error)]

-----------------------------------------------------------------------------
(* 4. Cases. *)

VARIABLES kind, mode, shape, args, doc
vars == <<kind, mode, shape, args, doc>>
NoArgs == [none |-> TRUE]
NoDoc == Obj("none", NoVer, <<>>)

NeStr(f) == {""} \cup Strs(f)
Types == Pick({""} \cup KnownTypes \cup {TypeOther}, {"", "standalone", "iptproxy", TypeOther})
Nats == {""} \cup NatNames \cup {NatOther}
ClientVals == Pick(ClientToks, {"neg", "zero", "eight", "p53p1"})

(* round trips through the real encoders: every argument the Go signatures admit *)
RTArgs(k) ==
  CASE k = "ppreq" ->
         {[api |-> "full", sid |-> s, type |-> t, nat |-> n, clients |-> c, pattern |-> p] :
            s \in NeStr("sid"), t \in Types, n \in Nats, c \in ClientVals, p \in NeStr("pattern")}
         \cup {[api |-> "short", sid |-> s, type |-> t, nat |-> n, clients |-> c, pattern |-> ""] :
            s \in NeStr("sid"), t \in Types, n \in Nats, c \in ClientVals}
    [] k = "ppresp" ->
         {[api |-> "full", success |-> TRUE, offer |-> o, nat |-> n, relay |-> r, reason |-> "no match"] :
            o \in NeStr("offer"), n \in Nats, r \in NeStr("relay")}
         \cup {[api |-> "full", success |-> FALSE, offer |-> o, nat |-> "restricted", relay |-> r, reason |-> x] :
            o \in {"", Tok("ascii", "offer")}, r \in {"", Tok("ascii", "relay")},
            x \in {"", "no match", "client match"} \cup Strs("status")}
         \cup {[api |-> "short", success |-> b, offer |-> o, nat |-> n, relay |-> "", reason |-> "no match"] :
            b \in BOOLEAN, o \in NeStr("offer"), n \in Nats}
    [] k = "pareq"  -> {[answer |-> a, sid |-> s] : a \in NeStr("answer"), s \in NeStr("sid")}
    [] k = "paresp" -> {[success |-> b] : b \in BOOLEAN}
    [] k = "cpreq"  -> {[offer |-> o, nat |-> n, fp |-> f] :
                          o \in NeStr("offer"), n \in Nats, f \in {""} \cup FpGood \cup FpBad}
    [] k = "cpresp" -> {[answer |-> a, error |-> e] : a \in NeStr("answer"), e \in NeStr("error")}

Vers == Pick(VerOK \cup VerEither \cup VerBad, {"1.0", "1.3", "1", "2.0", "10.0", "", ABSENT})
DTypes == Pick({ABSENT, ""} \cup KnownTypes \cup {TypeOther}, {ABSENT, "standalone", TypeOther})
DNats == {ABSENT, ""} \cup NatNames \cup {NatOther}
DClients == {ABSENT} \cup ClientVals
DPatterns == {ABSENT, "", Tok("ascii", "pattern")}

InitRT ==
  /\ Part \in {"rt", "all"}
  /\ mode = "rt" /\ shape = "rt"
  /\ kind \in Kinds
  /\ args \in RTArgs(kind)
  /\ doc = NoDoc

(* hand-made documents in the encoders' style: members optional, every class of value *)
InitDoc ==
  /\ Part \in {"doc", "all"}
  /\ mode = "doc" /\ shape = "product" /\ args = NoArgs
  /\ kind \in Kinds
  /\ \/ /\ kind = "ppreq"
        /\ \E s \in OptStrs("sid"), v \in Vers, t \in DTypes, n \in DNats, c \in DClients, p \in DPatterns :
             doc = Obj("object", NoVer, MS("Sid", s) \o MS("Version", v) \o MS("Type", t) \o MS("NAT", n)
                                        \o MN("Clients", c) \o MS("AcceptedRelayPattern", p))
     \/ /\ kind = "ppresp"
        /\ \E st \in {ABSENT, "", "client match", "no match"} \cup Strs("status"), o \in OptStrs("offer"),
              n \in DNats, r \in {ABSENT, "", Tok("ascii", "relay")} :
             doc = Obj("object", NoVer, MS("Status", st) \o MS("Offer", o) \o MS("NAT", n) \o MS("RelayURL", r))
     \/ /\ kind = "pareq"
        /\ \E v \in Vers, s \in OptStrs("sid"), a \in OptStrs("answer") :
             doc = Obj("object", NoVer, MS("Version", v) \o MS("Sid", s) \o MS("Answer", a))
     \/ /\ kind = "paresp"
        /\ \E st \in {ABSENT, "", "success", "client gone"} \cup Strs("status") :
             doc = Obj("object", NoVer, MS("Status", st))
     \/ /\ kind = "cpreq"
        /\ \E v \in CVerOK \cup CVerEither \cup CVerBad, o \in OptStrs("offer"), n \in DNats,
              f \in {ABSENT, ""} \cup FpGood \cup FpBad :
             doc = Obj("object", v, MS("offer", o) \o MS("nat", n) \o MS("fingerprint", f))
     \/ /\ kind = "cpresp"
        /\ \E a \in OptStrs("answer"), e \in OptStrs("error") :
             doc = Obj("object", NoVer, MS("answer", a) \o MS("error", e))

(* JSON shapes: one deviation from a valid, complete document *)
Base(k) ==
  CASE k = "ppreq"  -> <<S("Sid", Tok("ascii", "sid")), S("Version", "1.3"), S("Type", "standalone"), S("NAT", "restricted"),
                         N("Clients", "eight"), S("AcceptedRelayPattern", Tok("ascii", "pattern"))>>
    [] k = "ppresp" -> <<S("Status", "client match"), S("Offer", Tok("esc", "offer")), S("NAT", "unrestricted"),
                         S("RelayURL", Tok("ascii", "relay"))>>
    [] k = "pareq"  -> <<S("Version", "1.3"), S("Sid", Tok("ascii", "sid")), S("Answer", Tok("esc", "answer"))>>
    [] k = "paresp" -> <<S("Status", "success")>>
    [] k = "cpreq"  -> <<S("offer", Tok("esc", "offer")), S("nat", "restricted"), S("fingerprint", Tok("fp32", "fp"))>>
    [] k = "cpresp" -> <<S("answer", Tok("esc", "answer"))>>
BaseVer(k) == IF k = "cpreq" THEN "1.0" ELSE NoVer

WrongKinds(e) == ({"str", "num", "true", "null", "arr", "obj"} \ {e.k})
                 \cup (IF e.k = "num" THEN {"frac", "exp", "big"} ELSE {})
WrongTok(k) == IF k = "str" THEN Tok("ascii", "wrong") ELSE ""

(* a second value for the same member: valid and different, empty, invalid, null, wrongly typed *)
Second(e) ==
  (IF e.k = "str"
   THEN {[n |-> e.n, k |-> "str", v |-> x] :
           x \in {"", Tok("multi", "dup")}
                 \cup (IF e.n \in {"NAT", "nat"} THEN {"unknown", NatOther} ELSE {})
                 \cup (IF e.n = "Version" THEN {"1.0", "2.0"} ELSE {})
                 \cup (IF e.n = "Status" THEN {"no match", "client gone"} ELSE {})
                 \cup (IF e.n = "fingerprint" THEN {Tok("fp20", "fp"), Tok("fp19", "fp")} ELSE {})
                 \cup (IF e.n = "Type" THEN {"webext"} ELSE {})}
   ELSE {[n |-> e.n, k |-> "num", v |-> "zero"], [n |-> e.n, k |-> "num", v |-> "p31"]})
  \cup {[n |-> e.n, k |-> "null", v |-> ""], [n |-> e.n, k |-> IF e.k = "str" THEN "num" ELSE "str", v |-> WrongTok(IF e.k = "str" THEN "num" ELSE "str")]}

ReplaceAt(s, i, e) == [s EXCEPT ![i] = e]

InitShape ==
  /\ Part \in {"shape", "all"}
  /\ mode = "doc" /\ args = NoArgs
  /\ kind \in Kinds
  /\ LET b == Base(kind) v == BaseVer(kind) IN
     \/ \E i \in DOMAIN b : \E wk \in WrongKinds(b[i]) :
          /\ shape = "wrongtype:" \o b[i].n \o ":" \o wk
          /\ doc = Obj("object", v, ReplaceAt(b, i, [n |-> b[i].n, k |-> wk, v |-> WrongTok(wk)]))
     \/ \E i \in DOMAIN b : \E e2 \in Second(b[i]) : \E order \in {"orig-first", "orig-last"} :
          /\ shape = "duplicate:" \o b[i].n \o ":" \o e2.k \o ":" \o order
          /\ doc = Obj("object", v, IF order = "orig-first" THEN Append(b, e2) ELSE <<e2>> \o b)
     \/ \E xk \in {"str", "num", "null", "arr", "obj", "deep"} : \E front \in BOOLEAN :
          /\ shape = "extra:" \o xk
          /\ LET x == [n |-> "Extra", k |-> xk, v |-> WrongTok(xk)] IN
               doc = Obj("object", v, IF front THEN <<x>> \o b ELSE Append(b, x))
     \/ \E t \in (ObjTops \ {"object"}) \cup AnyTops \cup BadTops :
          /\ shape = "top:" \o t
          /\ doc = Obj(t, v, b)
     \/ /\ shape = "top:emptyobject"
        /\ doc = Obj("object", v, <<>>)

Init == InitRT \/ InitDoc \/ InitShape
Stutter == UNCHANGED vars
Spec == Init /\ [][Stutter]_vars

-----------------------------------------------------------------------------
(* Design-level checks on the model (INVARIANTS of MC_*.cfg). *)

(* C12, first sentence: decoding an encoded message returns the original
   fields with the documented defaults, or an error when the arguments make
   a message the protocol forbids. *)
RoundTrip ==
  mode = "rt" =>
    LET m == AsMessage(kind, args) got == ModelDecode(kind, Encode(kind, args)) IN
      CASE Valid(kind, m) = "yes" -> got = Normalise(kind, m)
        [] Valid(kind, m) = "no" -> got = ERR
        [] OTHER -> got \in Expect(kind, m)
(* the encoders never produce a document outside the documented shape *)
EncodeShape ==
  mode = "rt" => LET d == Encode(kind, args) IN
    /\ d.top = "object" /\ ~HasExtra(kind, d.mem) /\ ~TypeError(kind, d.mem)
    /\ \A key \in Keys(kind) : Len(Occ(kind, d.mem, key)) <= 1
(* C12, second sentence: the documented decoder is within the contract on
   every enumerated document, and rejects everything the contract forbids. *)
Within(o, A) == ANY \in A \/ o \in A
DecodeWithinContract == mode = "doc" => Within(ModelDecode(kind, doc), Allowed(kind, doc).full)
NeverEmptyContract == mode = "doc" => Allowed(kind, doc).full # {}
(* product documents have exactly one reading *)
ProductIsDeterministic ==
  (mode = "doc" /\ shape = "product") => Cardinality(Msgs(kind, Readings(kind, doc.mem), doc.ver)) = 1

-----------------------------------------------------------------------------
(* A case is non-trivial when the contract rejects it, allows a rejection,
   applies a default, or the document deviates from the encoders' shape. *)
NonTrivial ==
  IF mode = "rt"
  THEN LET m == AsMessage(kind, args) IN
         \/ Valid(kind, m) # "yes"
         \/ \E f \in DOMAIN m : f \in DOMAIN Normalise(kind, m) /\ Normalise(kind, m)[f] # m[f]
  ELSE \/ shape # "product"
       \/ ERR \in Allowed(kind, doc).full
       \/ \E key \in Keys(kind) : Len(Occ(kind, doc.mem, key)) = 0

Emit ==
  IF mode = "rt"
  THEN LET m == AsMessage(kind, args) IN
       PrintT(ToJson([kind |-> kind, mode |-> mode, shape |-> shape, args |-> args, nt |-> NonTrivial,
                      expect |-> [full |-> Expect(kind, m), legacy |-> LegacyExpect(kind, m)]]))
  ELSE PrintT(ToJson([kind |-> kind, mode |-> mode, shape |-> shape, doc |-> doc, nt |-> NonTrivial,
                      expect |-> Allowed(kind, doc)]))
=============================================================================
