CONSTANTS
  StrCls = {"ascii", "esc", "nl"}
  Full = FALSE
  Part = "all"
INIT Init
NEXT Stutter
INVARIANTS RoundTrip EncodeShape DecodeWithinContract NeverEmptyContract ProductIsDeterministic
CHECK_DEADLOCK FALSE
