CONSTANTS
  StrCls = {"ascii", "esc", "multi", "nl", "long"}
  Full = TRUE
  Part = "all"
INIT Init
NEXT Stutter
INVARIANTS RoundTrip EncodeShape DecodeWithinContract NeverEmptyContract ProductIsDeterministic
CHECK_DEADLOCK FALSE
