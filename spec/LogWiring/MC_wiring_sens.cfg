CONSTANTS
  Runs = "thorough"
  Gen = FALSE
  Mutant = TRUE
SPECIFICATION Spec
INVARIANTS Wired
CHECK_DEADLOCK FALSE
