----------------------------- MODULE LogWiring -----------------------------
(* Property C07 at process level: the scrubber only protects the lines that
   are routed through it.  A process has several LOG SINKS (the standard
   logger, net/http's Server.ErrorLog, event loggers, metrics loggers, ...);
   main() puts the scrubber in front of the standard logger's output unless
   -unsafe-logging was asked for.

   INVARIANT (Wired): every line that can carry a peer address is written
   through the scrubber, unless unsafe logging was asked for.

   The module has two parts.

   1. The wiring as a small state machine: package initialisation, main()
      before and after log.SetOutput, serving.  A sink is described by how it
      finds its destination:
        "std"     it logs through the standard logger (resolved when the line
                  is written) - e.g. an http.Server whose ErrorLog is nil
        "capture" it captured the standard logger's writer (log.Writer()) at
                  the moment it was created
        "own"     it writes to a destination of its own (a file, stdout)
      and by the phase in which it is created.  TLC checks Wired for the sink
      tables of the five binaries as the code has them, and - sensitivity -
      must find Wired violated for a carrier sink that captures the writer
      before main() has installed the scrubber (Mutant = TRUE).

   2. The RUNS the driver executes against the real binaries, enumerated as
      initial states (Gen = TRUE): binary x mode x unsafe flag, with the
      provocations that make the process write address-bearing lines, the sink
      each provocation reaches, the file descriptors that are log sinks of
      that binary, and the contract's verdict: "absent" (no address the
      harness used may occur in what the process wrote to its log sinks) or
      "may" / "visible" (unsafe logging).  An occurrence is judged only in a
      line that the real Scrub would change: a line the scrubber leaves as it
      is (address in a context its contract excludes, e.g. "stun:1.2.3.4:9")
      says nothing about the routing of the line - that is Scrub.tla's
      subject.

   DON'T-CARE / not covered: the PT protocol lines on stdout of server and
   client (SMETHOD/CMETHOD carry the bind address by design); the metrics
   sink's content beyond "no harness address"; pion's own logger (writes to
   stdout at error level; no address-bearing path can be provoked offline). *)
EXTENDS Integers, Sequences, FiniteSets, TLC, Json

CONSTANTS Runs,     \* "quick" | "thorough": which runs Gen enumerates
          Gen,
          Mutant    \* sensitivity: the broker's http sink captures log.Writer() at package initialisation

Bins == {"broker", "probetest", "server", "proxy", "client"}

(* The sink tables, transcribed from main() of each binary. *)
SinkTable(bin) ==
  CASE bin = "broker" ->
        {[name |-> "std", carrier |-> TRUE, bind |-> "std", created |-> "init"],
         [name |-> "http", carrier |-> TRUE, bind |-> (IF Mutant THEN "capture" ELSE "std"),
          created |-> (IF Mutant THEN "init" ELSE "wired")],           \* http.Server{Addr: addr}: ErrorLog nil
         [name |-> "metrics", carrier |-> FALSE, bind |-> "own", created |-> "wired"]}
    [] bin = "probetest" ->
        {[name |-> "std", carrier |-> TRUE, bind |-> "std", created |-> "init"],
         [name |-> "http", carrier |-> TRUE, bind |-> "std", created |-> "wired"]}
    [] bin = "server" ->
        {[name |-> "std", carrier |-> TRUE, bind |-> "std", created |-> "init"],
         [name |-> "http", carrier |-> TRUE, bind |-> "std", created |-> "wired"]}
    [] bin = "proxy" ->
        {[name |-> "std", carrier |-> TRUE, bind |-> "std", created |-> "init"],
         [name |-> "events", carrier |-> FALSE, bind |-> "own", created |-> "wired"]}  \* periodic traffic summary only
    [] bin = "client" ->
        {[name |-> "std", carrier |-> TRUE, bind |-> "std", created |-> "init"]}

VARIABLES bin, unsafe, mode,        \* the run
          phase,                    \* "init" | "prewire" | "wired" | "serving"
          stdOut,                   \* where the standard logger writes: "raw" | "scrub"
          dest,                     \* dest[s]: "std" | "raw" | "scrub" for every created sink
          emitted                   \* lines written so far: [sink, scrubbed]
vars == <<bin, unsafe, mode, phase, stdOut, dest, emitted>>

Modes(b) == IF b \in {"broker", "probetest"} THEN {"tls", "plain"} ELSE {"plain"}

QuickRuns ==
  {<<"broker", "tls", FALSE>>, <<"broker", "tls", TRUE>>, <<"broker", "plain", FALSE>>,
   <<"probetest", "tls", FALSE>>, <<"server", "plain", FALSE>>, <<"proxy", "plain", FALSE>>,
   <<"client", "plain", FALSE>>}
AllRuns == {<<b, m, u>> : b \in Bins, m \in {"tls", "plain"}, u \in BOOLEAN}
RunSet == IF Runs = "quick" THEN QuickRuns ELSE {r \in AllRuns : r[2] \in Modes(r[1])}

Init ==
  /\ \E r \in RunSet : bin = r[1] /\ mode = r[2] /\ unsafe = r[3]
  /\ phase = "init" /\ stdOut = "raw" /\ dest = <<>> /\ emitted = {}

SinkNames(ph) == {s.name : s \in {x \in SinkTable(bin) : x.created = ph}}
Sink(n) == CHOOSE s \in SinkTable(bin) : s.name = n

(* a sink is created in its phase and finds its destination *)
Create(n) ==
  /\ ~Gen
  /\ n \in SinkNames(phase) /\ n \notin DOMAIN dest
  /\ dest' = [x \in DOMAIN dest \cup {n} |->
                IF x # n THEN dest[x]
                ELSE IF Sink(n).bind = "std" THEN "std"
                ELSE IF Sink(n).bind = "capture" THEN stdOut
                ELSE "raw"]
  /\ UNCHANGED <<bin, unsafe, mode, phase, stdOut, emitted>>

(* package initialisation is over when every init-time sink exists *)
EnterMain ==
  /\ ~Gen /\ phase = "init" /\ SinkNames("init") \subseteq DOMAIN dest
  /\ phase' = "prewire"
  /\ UNCHANGED <<bin, unsafe, mode, stdOut, dest, emitted>>

(* main(): log.SetOutput(&safelog.LogScrubber{...}) unless -unsafe-logging *)
Wire ==
  /\ ~Gen /\ phase = "prewire"
  /\ stdOut' = (IF unsafe THEN "raw" ELSE "scrub")
  /\ phase' = "wired"
  /\ UNCHANGED <<bin, unsafe, mode, dest, emitted>>

Serve ==
  /\ ~Gen /\ phase = "wired" /\ SinkNames("wired") \subseteq DOMAIN dest
  /\ phase' = "serving"
  /\ UNCHANGED <<bin, unsafe, mode, stdOut, dest, emitted>>

(* an address-bearing line is written on a carrier sink *)
EmitLine(n) ==
  /\ ~Gen /\ phase = "serving" /\ n \in DOMAIN dest /\ Sink(n).carrier
  /\ emitted' = emitted \cup {[sink |-> n, scrubbed |-> (IF dest[n] = "std" THEN stdOut ELSE dest[n]) = "scrub"]}
  /\ UNCHANGED <<bin, unsafe, mode, phase, stdOut, dest>>

Next == (\E n \in {s.name : s \in SinkTable(bin)} : Create(n) \/ EmitLine(n)) \/ EnterMain \/ Wire \/ Serve
Stutter == UNCHANGED vars
Spec == Init /\ [][Next]_vars

(* C07, process level *)
Wired == \A e \in emitted : ~unsafe => e.scrubbed
(* non-vacuity: in every run every carrier sink does write a line *)
CarriersReached == phase = "serving" => \A s \in SinkTable(bin) : s.carrier => s.name \in DOMAIN dest

-----------------------------------------------------------------------------
(* 2. The runs and their provocations.  prov |-> the sink the provoked line reaches. *)

Provs(b, m) ==
  CASE b \in {"broker", "probetest"} /\ m = "tls" ->
         {[p |-> "plain-http-on-tls", sink |-> "http"], [p |-> "garbage-on-tls", sink |-> "http"],
          [p |-> "aborted-handshake", sink |-> "http"], [p |-> "malformed-request", sink |-> "std"],
          [p |-> "oversized-request", sink |-> "std"]}
    [] b \in {"broker", "probetest"} /\ m = "plain" ->
         {[p |-> "malformed-request", sink |-> "std"], [p |-> "oversized-request", sink |-> "std"],
          [p |-> "garbage-on-plain", sink |-> "http"]}
    [] b = "server" ->
         {[p |-> "bind-address-line", sink |-> "std"], [p |-> "ws-client-ip", sink |-> "std"],
          [p |-> "ws-bad-client-ip", sink |-> "std"], [p |-> "non-ws-get", sink |-> "std"]}
    [] b = "proxy" ->
         {[p |-> "dead-broker", sink |-> "std"], [p |-> "offer-with-local-candidates", sink |-> "std"]}
    [] b = "client" ->
         {[p |-> "socks-connect-dead-broker", sink |-> "std"]}

(* which outputs of the process are log sinks *)
Fds(b) == IF b \in {"broker", "probetest"} THEN {"stderr", "stdout"}
          ELSE IF b = "client" THEN {"stderr", "logfile"}
          ELSE IF b = "proxy" THEN {"stderr", "stdout", "logfile"}
          ELSE {"stderr"}

(* "visible": with unsafe logging the addresses MAY appear; in the runs that
   do reach an address-bearing line the driver additionally requires that at
   least one of them DOES appear - not a demand of the property but a check
   that the oracle can see a leak (the plain-HTTP front ends log no address
   at all, so nothing can be required there). *)
Expect == IF ~unsafe THEN "absent"
          ELSE IF mode = "tls" \/ bin \notin {"broker", "probetest"} THEN "visible" ELSE "may"

Emit ==
  IF ~Gen THEN TRUE
  ELSE PrintT(ToJson([bin |-> bin, mode |-> mode, unsafe |-> unsafe,
                      provs |-> Provs(bin, mode), fds |-> Fds(bin), expect |-> Expect]))
=============================================================================
