CONSTANTS
  Runs = "thorough"
  Gen = FALSE
  Mutant = FALSE
SPECIFICATION Spec
INVARIANTS Wired CarriersReached
CHECK_DEADLOCK FALSE
