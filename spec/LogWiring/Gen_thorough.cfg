CONSTANTS
  Runs = "thorough"
  Gen = TRUE
  Mutant = FALSE
INIT Init
NEXT Stutter
INVARIANT Emit
CHECK_DEADLOCK FALSE
