CONSTANTS
  Dests = {"a"}
  Reqs = {}
  SrvH2 = {"a"}
  SrvH1 = {"a"}
  SrvNone = {}
  SrvFail = {}
  Portless = {}
  CanonKey = TRUE
  MaxTry = 5
  MaxDials = 4
  Expiry = 2
  Timed = TRUE
  Concurrency = 1
  AllowHttp = FALSE
  AllowDrop = FALSE
  Strict = TRUE
  Unit = TRUE
  Mut = "none"
SPECIFICATION GenSpec
INVARIANTS TypeOK PendKeyOK PendNotHanded ClaimOnce NoLeak
CHECK_DEADLOCK FALSE
