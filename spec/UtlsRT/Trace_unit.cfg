CONSTANTS
  Dests = {"a"}
  Reqs = {}
  SrvH2 = {"a"}
  SrvH1 = {"a"}
  SrvNone = {"a"}
  SrvFail = {"a"}
  Portless = {"a"}
  CanonKey = TRUE
  MaxTry = 5
  MaxDials = 8
  Expiry = 2
  Timed = TRUE
  Concurrency = 8
  AllowHttp = TRUE
  AllowDrop = TRUE
  Strict = FALSE
  Unit = FALSE
  Mut = "none"
SPECIFICATION TSpec
CONSTRAINT Mark
POSTCONDITION Post
INVARIANTS ALPNMatches PoolOK UsedMatches PendKeyOK PendNotHanded ClaimOnce NoLeak TriesBound TooManyOnlyAfterMaxTry HttpBypass HttpsNeverBackdrop MutexOK
CHECK_DEADLOCK FALSE
