CONSTANTS
  Dests = {"a"}
  Reqs = {1, 2, 3, 4}
  SrvH2 = {"a"}
  SrvH1 = {"a"}
  SrvNone = {}
  SrvFail = {}
  Portless = {}
  CanonKey = TRUE
  MaxTry = 5
  MaxDials = 12
  Expiry = 1
  Timed = FALSE
  Concurrency = 2
  AllowHttp = FALSE
  AllowDrop = FALSE
  Strict = FALSE
  Unit = FALSE
  Mut = "none"
SPECIFICATION Safe
INVARIANTS NoTooMany TriesBound TooManyOnlyAfterMaxTry ClaimOnce NoLeak ALPNMatches DialRoom
CHECK_DEADLOCK FALSE
