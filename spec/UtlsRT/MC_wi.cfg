CONSTANTS
  Dests = {"a", "b"}
  Reqs = {1, 2}
  SrvH2 = {"a"}
  SrvH1 = {"a", "b"}
  SrvNone = {}
  SrvFail = {"a"}
  Portless = {"a", "b"}
  CanonKey = TRUE
  MaxTry = 3
  MaxDials = 6
  Expiry = 1
  Timed = TRUE
  Concurrency = 2
  AllowHttp = FALSE
  AllowDrop = FALSE
  Strict = FALSE
  Unit = FALSE
  Mut = "none"
SPECIFICATION Safe
INVARIANTS TypeOK ALPNMatches PoolOK UsedMatches PendKeyOK PendNotHanded ClaimOnce NoLeak TriesBound TooManyOnlyAfterMaxTry StableOK ErrOnlyOnFail HttpBypass HttpsNeverBackdrop MutexOK OneDial DialRoom
PROPERTIES HintIsolation
CHECK_DEADLOCK FALSE
