CONSTANTS
  Dests = {"a", "b"}
  Reqs = {1, 2, 3, 4, 5, 6, 7, 8}
  SrvH2 = {"a", "b"}
  SrvH1 = {"a", "b"}
  SrvNone = {"a", "b"}
  SrvFail = {"a", "b"}
  Portless = {"a"}
  CanonKey = TRUE
  MaxTry = 5
  MaxDials = 12
  Expiry = 1
  Timed = TRUE
  Concurrency = 8
  AllowHttp = TRUE
  AllowDrop = TRUE
  Strict = FALSE
  Unit = FALSE
  Mut = "none"
SPECIFICATION TSpec
CONSTRAINT Mark
POSTCONDITION Post
INVARIANTS ALPNMatches PoolOK UsedMatches PendKeyOK PendNotHanded ClaimOnce NoLeak TriesBound TooManyOnlyAfterMaxTry HttpBypass HttpsNeverBackdrop MutexOK
CHECK_DEADLOCK FALSE
