CONSTANTS
  Dests = {"a", "b"}
  Reqs = {1, 2, 3, 4}
  SrvH2 = {"a", "b"}
  SrvH1 = {"a", "b"}
  SrvNone = {"a"}
  SrvFail = {"b"}
  Portless = {"a"}
  CanonKey = TRUE
  MaxTry = 5
  MaxDials = 8
  Expiry = 1
  Timed = FALSE
  Concurrency = 1
  AllowHttp = TRUE
  AllowDrop = TRUE
  Strict = TRUE
  Unit = FALSE
  Mut = "none"
SPECIFICATION GenSpec
INVARIANTS TypeOK ALPNMatches PoolOK UsedMatches PendKeyOK PendNotHanded ClaimOnce NoLeak TriesBound TooManyOnlyAfterMaxTry ErrOnlyOnFail HttpBypass HttpsNeverBackdrop MutexOK OneDial DialRoom
CHECK_DEADLOCK FALSE
