---------------------------- MODULE UtlsRT_Trace ----------------------------
(* Trace specification for UtlsRT: every execution recorded from the REAL round tripper
   (harness/inpkg/common_utls/*_verif_test.go, package utls, no hooks: the struct fields are read
   in-package under their own mutexes, the three transports are wrapped, the servers are the
   harness's) must be a behaviour of UtlsRT.

   traces.ndjson: one JSON object per line  {"id": n, "events": [e1, e2, ...]}.  Every event carries
   "now" (ticks of the clock; 0 throughout when the plan never advances time).

     start{r,d,https}     RoundTrip(req) is about to be called                      -> Start
     try{r,t}             written by the wrapper of transport t ("h1","h2","bd") on entry:
                          RoundTrip chose t for this iteration                      -> EnterT (Pick is silent)
     tryres{r,t,res,ck}   the wrapped transport returned: "ok" (ck = ordinal, at the server of the
                          request's destination, of the connection that carried it), "eagain", "err"
                                                                                    -> Return
     end{r,res,tries}     RoundTrip returned: "ok" / "toomany" / "err"; tries = iterations made
     serve{d,k,x}         written by the server of d inside the TLS handshake of its k-th connection,
                          before it answers: x = "h2" / "h1" / "none" / "fail".  The dial is in its
                          critical section; it ends (CallFinish with this x, silent) some time later
     drop{t}              CloseIdleConnections of transport t, at rest              -> (PoolClose steps)
     put{t,d,k} get{t,d,ck}   putConn / getConn called directly by the harness under
                          accessDialingConnection                                   -> RawPut / RawGet
     obs{hint,pend,uc,nd,closed}   taken when every request has returned and no dial is in flight:
                          the connectWithH1 map (every key), the pendingConn map (every entry, with the
                          state of the unclaimedConnection), every unclaimedConnection ever filed, the
                          number of connections each server accepted, and the connections the far end
                          (server, or the fake connection itself) has seen closed by the client side

   Silent: Pick, PickBd, BdServe, Spawn, Join, Abandon, Deliver, ReqOK, CallEnter, CallFinish (after its serve event),
   Tick, PoolClose, and the clock. *)
EXTENDS UtlsRT, Json, TLCExt, Sequences

VARIABLES tr, l, clock, px
tvars == <<vars, tr, l, clock, px>>

Traces == ndJsonDeserialize("traces.ndjson")
NT == Len(Traces)
Events(t) == Traces[t].events

TInit ==
  /\ tr \in 1..NT
  /\ l = 1
  /\ clock = 0
  /\ px = "-"
  /\ Init
  /\ TLCSet(tr, 1)

HasNext == l <= Len(Events(tr))
E == Events(tr)[l]
IsEv(n) == HasNext /\ E.ev = n /\ E.now = clock
Adv == l' = l + 1 /\ tr' = tr /\ clock' = clock /\ px' = px

CK(d, k) == IF k = 0 THEN NoConn ELSE <<d, k>>

TStart == IsEv("start") /\ E.r \in Reqs /\ E.d \in Dests /\ Start(E.r, E.d, E.https) /\ Adv

TTry ==
  /\ IsEv("try") /\ E.r \in Reqs
  /\ rq[E.r].pc = "picked" /\ rq[E.r].T = E.t
  /\ EnterT(E.r) /\ Adv

TTryRes ==
  /\ IsEv("tryres") /\ E.r \in Reqs
  /\ rq[E.r].pc = "ret" /\ rq[E.r].T = E.t /\ rq[E.r].ret = E.res
  /\ (E.res = "ok" /\ E.t # "bd") => (E.ck \in 1..MaxDials /\ rq[E.r].used = <<rq[E.r].d, E.ck>>)
  /\ Return(E.r) /\ Adv

TEnd ==
  /\ IsEv("end") /\ E.r \in Reqs
  /\ rq[E.r].pc = "done" /\ rq[E.r].res = E.res /\ rq[E.r].tries = E.tries
  /\ UNCHANGED vars /\ Adv

(* the server has decided; the dial's critical section ends (CallFinish, silent) some time later *)
TServe ==
  /\ IsEv("serve") /\ E.d \in Dests
  /\ mutex # NoCall /\ mutex[2] = E.d /\ nd[E.d] + 1 = E.k /\ px = "-"
  /\ E.x \in Offer(E.d)
  /\ px' = E.x /\ l' = l + 1 /\ UNCHANGED <<vars, tr, clock>>

TFinish ==
  /\ HasNext /\ px # "-" /\ mutex # NoCall
  /\ CallFinish(mutex, px)
  /\ px' = "-" /\ UNCHANGED <<tr, l, clock>>

(* CloseIdleConnections closes what the library considers idle at that instant (a connection whose last exchange is
   still being tidied up is closed a little later, or not at all): which pooled connections really went is seen in
   the next observation and explained by PoolClose steps *)
TDrop == IsEv("drop") /\ E.t \in Transports /\ UNCHANGED vars /\ Adv

TPut == IsEv("put") /\ E.t \in Transports /\ E.d \in Dests /\ nd[E.d] + 1 = E.k /\ RawPut(E.t, E.d) /\ Adv
TGet == IsEv("get") /\ E.t \in Transports /\ E.d \in Dests /\ RawGetRes(E.t, E.d) = CK(E.d, E.ck) /\ RawGet(E.t, E.d) /\ Adv

Silent ==
  \/ \E r \in Reqs : Pick(r) \/ PickBd(r) \/ BdServe(r) \/ Spawn(r) \/ Join(r) \/ (\E c \in ConnIds : ReqOK(r, c))
  \/ \E k \in CallKeys : CallEnter(k) \/ Abandon(k) \/ Deliver(k)
  \/ \E c \in ConnIds : Tick(c) \/ PoolClose(c)

TSilent == HasNext /\ Silent /\ UNCHANGED <<tr, l, clock, px>>

(* the clock moves when the next event says so; never past a timer that is due *)
TAdvance ==
  /\ HasNext /\ E.now > clock
  /\ \/ Advance
     \/ Running = {} /\ UNCHANGED vars
  /\ clock' = clock + 1 /\ UNCHANGED <<tr, l, px>>

(* ---- observations ---- *)
SeqSet(s) == {s[i] : i \in 1..Len(s)}

ObsHint(o) ==
  /\ \A e \in SeqSet(o.hint) : <<e.d, e.k>> \in HKeys
  /\ \A key \in HKeys :
       LET hits == {e \in SeqSet(o.hint) : e.d = key[1] /\ e.k = key[2]} IN
       IF hits = {} THEN hint[key] = "unset" ELSE \A e \in hits : hint[key] = e.v

UcState(c) == IF conn[c].tclosed THEN "expired" ELSE IF conn[c].claimed THEN "claimed" ELSE "parked"

ObsPend(o) ==
  /\ \A e \in SeqSet(o.pend) : <<e.t, e.d>> \in PKeys /\ e.ck \in 1..MaxDials
  /\ \A key \in PKeys :
       LET hits == {e \in SeqSet(o.pend) : e.t = key[1] /\ e.d = key[2]} IN
       IF hits = {} THEN pend[key] = NoConn
       ELSE \A e \in hits : pend[key] = <<e.d, e.ck>> /\ UcState(pend[key]) = e.st

ObsUc(o) == \A e \in SeqSet(o.uc) :
  /\ e.d \in Dests /\ e.ck \in 1..MaxDials
  /\ conn[<<e.d, e.ck>>].wrapped /\ UcState(<<e.d, e.ck>>) = e.st /\ TOf(conn[<<e.d, e.ck>>].alpn) = e.t

ObsNd(o) == \A e \in SeqSet(o.nd) : e.d \in Dests /\ nd[e.d] = e.n

ObsClosed(o) ==
  /\ \A e \in SeqSet(o.closed) : e.d \in Dests /\ e.ck \in 1..MaxDials
  /\ \A c \in ConnIds : Exists(c) =>
       (conn[c].open <=> ~(\E e \in SeqSet(o.closed) : e.d = c[1] /\ e.ck = c[2]))

Quiet == AllDone /\ mutex = NoCall /\ \A c \in ConnIds : ~ENABLED Tick(c)

TObs ==
  /\ IsEv("obs")
  /\ Quiet
  /\ ObsHint(E) /\ ObsPend(E) /\ ObsUc(E) /\ ObsNd(E) /\ ObsClosed(E)
  /\ UNCHANGED vars /\ Adv

TNext == TStart \/ TTry \/ TTryRes \/ TEnd \/ TServe \/ TFinish \/ TDrop \/ TPut \/ TGet \/ TSilent \/ TAdvance \/ TObs

TSpec == TInit /\ [][TNext]_tvars

Mark == (IF l > TLCGet(tr) THEN TLCSet(tr, l) ELSE TRUE)

Rejected == {t \in 1..NT : TLCGet(t) # Len(Events(t)) + 1}

Post ==
  PrintT(ToJson([nt |-> NT, rejected |-> {<<Traces[t].id, TLCGet(t)>> : t \in Rejected}]))
=============================================================================
