CONSTANTS
  Dests = {"a", "b"}
  Reqs = {1, 2, 3}
  SrvH2 = {"a", "b"}
  SrvH1 = {"a"}
  SrvNone = {}
  SrvFail = {}
  Portless = {"a"}
  CanonKey = TRUE
  MaxTry = 5
  MaxDials = 12
  Expiry = 1
  Timed = FALSE
  Concurrency = 3
  AllowHttp = FALSE
  AllowDrop = TRUE
  Strict = FALSE
  Unit = FALSE
  Mut = "none"
SPECIFICATION Safe
INVARIANTS TypeOK ALPNMatches PoolOK UsedMatches PendKeyOK PendNotHanded ClaimOnce NoLeak TriesBound TooManyOnlyAfterMaxTry StableOK ErrOnlyOnFail HttpBypass HttpsNeverBackdrop MutexOK OneDial DialRoom 
PROPERTIES HintIsolation
CHECK_DEADLOCK FALSE
