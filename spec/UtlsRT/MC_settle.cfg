CONSTANTS
  Dests = {"a"}
  Reqs = {1, 2}
  SrvH2 = {"a"}
  SrvH1 = {"a"}
  SrvNone = {}
  SrvFail = {"a"}
  Portless = {"a"}
  CanonKey = TRUE
  MaxTry = 3
  MaxDials = 6
  Expiry = 1
  Timed = TRUE
  Concurrency = 2
  AllowHttp = FALSE
  AllowDrop = FALSE
  Strict = FALSE
  Unit = FALSE
  Mut = "none"
SPECIFICATION Spec
INVARIANTS TypeOK ClaimOnce NoLeak DialRoom
PROPERTIES Settled Completes
CHECK_DEADLOCK FALSE
