CONSTANTS
  Dests = {"a", "b"}
  Reqs = {1, 2}
  SrvH2 = {"a", "b"}
  SrvH1 = {"a"}
  SrvNone = {}
  SrvFail = {"a"}
  Portless = {"a"}
  CanonKey = TRUE
  MaxTry = 5
  MaxDials = 10
  Expiry = 1
  Timed = FALSE
  Concurrency = 2
  AllowHttp = TRUE
  AllowDrop = FALSE
  Strict = FALSE
  Unit = FALSE
  Mut = "none"
SPECIFICATION Spec
INVARIANTS TypeOK ALPNMatches PoolOK UsedMatches PendKeyOK PendNotHanded ClaimOnce NoLeak TriesBound TooManyOnlyAfterMaxTry StableOK ErrOnlyOnFail HttpBypass HttpsNeverBackdrop MutexOK OneDial DialRoom 
PROPERTIES Completes
CHECK_DEADLOCK FALSE
