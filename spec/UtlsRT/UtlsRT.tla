------------------------------- MODULE UtlsRT -------------------------------
(* The uTLS HTTP round tripper of /repo/common/utls/roundtripper.go (the transport the
   client uses for broker rendezvous when a uTLS fingerprint is configured), at the
   grain of its critical sections.

   Code                                                   Model
   ------------------------------------------------------ -----------------------------
   RoundTrip: scheme != https -> backdropTransport         PickBd / BdServe
   RoundTrip: for retryCount < 5 { getShouldConnectWithH1  Pick  (one critical section of
              -> httpsH1Transport / httpsH2Transport }           accessConnectWithH1)
   ... the transport's own RoundTrip: pooled connection,   EnterT, ReqOK, Spawn, Join,
       or a dial on a goroutine of its own (net/http: one         Abandon, Return
       dial per waiting request, result to its owner;
       x/net/http2: one dial per address shared by every
       waiter); a dial's result is handed over later          Deliver
   dialOrGetTLSWithExpectedALPN                            CallEnter, CallFinish
       Lock(accessDialingConnection)                          mutex
       hint mismatch -> errEAGAIN                              CallEnter (mismatch)
       getConn: lookup, delete, claimConnection               CallEnter (cached)
       dialTLS (blocking, mutex held; the SERVER picks the    CallFinish(k, x), x the server's
            ALPN)                                                  choice in Offer(d)
       match -> conn; mismatch -> putConn, hint flipped,
            errEAGAIN
   unclaimedConnection.claimConnection / tick (c.access)   inside CallEnter / Tick
   time.AfterFunc(time.Minute, c.tick)                     ttl, Advance (one tick = 1 min / Expiry)
   CloseIdleConnections of a transport (harness, servers)  Drop(T)
   the library closes a pooled connection by itself        PoolClose(c)

   connectWithH1 is modelled three-valued as in the code: "unset" / "h1" (true) / "h2" (false).
   Keys: the transports dial `host:port` (AKey); RoundTrip of the PINNED code looked the hint up
   under req.URL.Host (UKey), which is another string whenever the URL has no explicit port
   (Portless).  CanonKey = TRUE is the repaired code (RoundTrip canonicalises).

   Properties (see the end of the module):
     ALPNMatches, UsedMatches, PendKeyOK   a connection handed to a transport / used by a request /
                                            filed in pendingConn has the ALPN of that transport / key
     ClaimOnce                              never claimed twice, never claimed and closed by its timer
     NoLeak (+ Settled under WF)            an open connection nobody owns has a running timer: every dialed
                                            connection is handed to a transport or closed
     PendNotHanded                          getConn removes what it hands out
     StableOK                               requests to a destination whose server negotiates one ALPN class
                                            end "ok" (never errEAGAINTooMany, at most 2 tries)
     NoTooMany                              (only in the configurations that say when errEAGAINTooMany is
                                            reachable: MC_tm.cfg + overrides, see notes/UtlsRT.md)
     TooManyOnlyAfterMaxTry, TriesBound     the retry bound
     HintIsolation (action property)        connectWithH1[d] is written only by a dial to d
     HttpBypass                             non-https requests only ever touch the backdrop transport
     Completes (liveness)                   every RoundTrip returns

   Don't-care: the order in which waiting dials obtain the mutex; which waiter of net/http gets which
   connection; how long a pooled connection lives; the exact instant within a tick a timer fires. *)
EXTENDS Integers, FiniteSets, TLC

CONSTANTS
  Dests,        \* destinations (URL authorities)
  Reqs,         \* request ids (a set of positive integers, each used once, in increasing order)
  SrvH2, SrvH1, SrvNone, SrvFail,   \* subsets of Dests: what the server of d may do on a dial: negotiate h2 /
                \* http/1.1 / no ALPN at all / break the handshake
  Portless,     \* subset of Dests whose URL has no explicit port
  CanonKey,     \* TRUE: RoundTrip reads the hint under the dial address (repaired); FALSE: under URL.Host (pinned)
  MaxTry,       \* 5 in the code
  MaxDials,     \* bound on fresh dials per destination
  Expiry,       \* ticks of the unclaimedConnection timer
  Timed,        \* FALSE: the clock never advances (nothing expires)
  Concurrency,  \* requests in flight at the same time
  AllowHttp,    \* non-https requests occur
  AllowDrop,    \* pools may be emptied
  Strict,       \* a transport dials only when its pool for the destination is empty (generation model)
  Unit,         \* generation model only: putConn / getConn called directly (unit level), no requests
  Mut           \* "none", or a what-if variant (sensitivity guards):
                \*   noflip putkey tickNoMark claimNoCheck noTimer hsleak nodelete h2always

VARIABLES hint, pend, conn, nd, mutex, calls, rq, pool
vars == <<hint, pend, conn, nd, mutex, calls, rq, pool>>

Transports == {"h1", "h2"}
Alpns == {"h2", "h1", "none"}
IsH2(x) == x = "h2"
TOf(x) == IF IsH2(x) THEN "h2" ELSE "h1"
Offer(d) == (IF d \in SrvH2 THEN {"h2"} ELSE {}) \cup (IF d \in SrvH1 THEN {"h1"} ELSE {})
            \cup (IF d \in SrvNone THEN {"none"} ELSE {}) \cup (IF d \in SrvFail THEN {"fail"} ELSE {})
(* the server of d always answers with the same ALPN class and never breaks the handshake *)
Stable(d) == "fail" \notin Offer(d) /\ \A x, y \in Offer(d) : IsH2(x) = IsH2(y)

NoConn == <<"-", 0>>
ConnIds == Dests \X (1..MaxDials)
PKeys == Transports \X Dests
HKeys == Dests \X {"addr", "url"}
AKey(d) == <<d, "addr">>
UKey(d) == IF CanonKey \/ d \notin Portless THEN <<d, "addr">> ELSE <<d, "url">>
CallKeys == ({"h1"} \X Dests \X Reqs) \cup ({"h2"} \X Dests \X {0})
NoCall == <<"-", "-", 0>>

HintH1(k) == hint[k] = "h1"          \* getShouldConnectWithH1: unset reads as false

NoConnRec == [alpn |-> "-", open |-> FALSE, wrapped |-> FALSE, claimed |-> FALSE, fired |-> FALSE,
              ttl |-> 0, to |-> "none", nclaim |-> 0, tclosed |-> FALSE]
Exists(c) == conn[c].alpn # "-"
Parked(c) == Exists(c) /\ conn[c].wrapped /\ ~conn[c].claimed /\ conn[c].open

NewReq == [pc |-> "new", d |-> "-", https |-> TRUE, tries |-> 0, T |-> "-", w |-> FALSE, off |-> FALSE, ret |-> "-",
           res |-> "-", used |-> NoConn]

TypeOK ==
  /\ hint \in [HKeys -> {"unset", "h1", "h2"}]
  /\ pend \in [PKeys -> ConnIds \cup {NoConn}]
  /\ \A c \in ConnIds :
       /\ conn[c].alpn \in Alpns \cup {"-", "fail"}
       /\ conn[c].open \in BOOLEAN /\ conn[c].wrapped \in BOOLEAN /\ conn[c].claimed \in BOOLEAN
       /\ conn[c].fired \in BOOLEAN /\ conn[c].ttl \in 0..Expiry /\ conn[c].to \in Transports \cup {"none"}
       /\ conn[c].nclaim \in 0..2 /\ conn[c].tclosed \in BOOLEAN
  /\ nd \in [Dests -> 0..MaxDials]
  /\ mutex \in CallKeys \cup {NoCall}
  /\ calls \in [CallKeys -> {"none", "wait", "dialing", "eagain", "err"}]
  /\ \A r \in Reqs :
       /\ rq[r].pc \in {"new", "loop", "picked", "inT", "ret", "done"}
       /\ rq[r].d \in Dests \cup {"-"} /\ rq[r].https \in BOOLEAN /\ rq[r].tries \in 0..MaxTry
       /\ rq[r].T \in Transports \cup {"-", "bd"} /\ rq[r].w \in BOOLEAN /\ rq[r].off \in BOOLEAN
       /\ rq[r].ret \in {"-", "ok", "eagain", "err"} /\ rq[r].res \in {"-", "ok", "toomany", "err"}
       /\ rq[r].used \in ConnIds \cup {NoConn}
  /\ pool \in [PKeys -> SUBSET ConnIds]

Init ==
  /\ hint = [k \in HKeys |-> "unset"]
  /\ pend = [k \in PKeys |-> NoConn]
  /\ conn = [c \in ConnIds |-> NoConnRec]
  /\ nd = [d \in Dests |-> 0]
  /\ mutex = NoCall
  /\ calls = [k \in CallKeys |-> "none"]
  /\ rq = [r \in Reqs |-> NewReq]
  /\ pool = [k \in PKeys |-> {}]

-----------------------------------------------------------------------------
(* RoundTrip *)

InFlight == {r \in Reqs : rq[r].pc \notin {"new", "done"}}
NextNew(r) == rq[r].pc = "new" /\ \A q \in Reqs : q < r => rq[q].pc # "new"

Start(r, d, s) ==
  /\ NextNew(r) /\ Cardinality(InFlight) < Concurrency
  /\ s \in BOOLEAN /\ (s = FALSE => AllowHttp)
  /\ rq' = [rq EXCEPT ![r] = [NewReq EXCEPT !.pc = "loop", !.d = d, !.https = s]]
  /\ UNCHANGED <<hint, pend, conn, nd, mutex, calls, pool>>

(* one iteration of the loop: the bound, then the hint under accessConnectWithH1 *)
Pick(r) ==
  /\ rq[r].pc = "loop" /\ rq[r].https
  /\ IF rq[r].tries = MaxTry
     THEN rq' = [rq EXCEPT ![r].pc = "done", ![r].res = "toomany"]
     ELSE rq' = [rq EXCEPT ![r].pc = "picked", ![r].tries = @ + 1,
                           ![r].T = IF Mut = "h2always" THEN "h2"
                                    ELSE IF HintH1(UKey(rq[r].d)) THEN "h1" ELSE "h2"]
  /\ UNCHANGED <<hint, pend, conn, nd, mutex, calls, pool>>

PickBd(r) ==
  /\ rq[r].pc = "loop" /\ ~rq[r].https
  /\ rq' = [rq EXCEPT ![r].pc = "picked", ![r].T = "bd"]
  /\ UNCHANGED <<hint, pend, conn, nd, mutex, calls, pool>>

(* the call of the chosen transport's RoundTrip *)
EnterT(r) ==
  /\ rq[r].pc = "picked"
  /\ rq' = [rq EXCEPT ![r].pc = "inT", ![r].w = FALSE, ![r].off = FALSE]
  /\ UNCHANGED <<hint, pend, conn, nd, mutex, calls, pool>>

BdServe(r) ==
  /\ rq[r].pc = "inT" /\ rq[r].T = "bd"
  /\ rq' = [rq EXCEPT ![r].pc = "ret", ![r].ret = "ok"]
  /\ UNCHANGED <<hint, pend, conn, nd, mutex, calls, pool>>

(* the transport's result is back in RoundTrip's loop *)
Return(r) ==
  /\ rq[r].pc = "ret"
  /\ rq' = [rq EXCEPT ![r].pc = IF rq[r].ret = "eagain" THEN "loop" ELSE "done",
                      ![r].res = IF rq[r].ret = "eagain" THEN "-" ELSE rq[r].ret]
  /\ UNCHANGED <<hint, pend, conn, nd, mutex, calls, pool>>

-----------------------------------------------------------------------------
(* the two HTTP transports (library code, modelled liberally) *)

PK(r) == <<rq[r].T, rq[r].d>>
OwnCall(r) == IF rq[r].T = "h1" THEN <<"h1", rq[r].d, r>> ELSE <<"h2", rq[r].d, 0>>

(* a pooled connection serves the request.  A waiter joined to an http2 dial waits for that dial. *)
ReqOK(r, c) ==
  /\ rq[r].pc = "inT" /\ rq[r].T \in Transports
  /\ (rq[r].T = "h2" => ~rq[r].w)
  /\ c \in pool[PK(r)]
  /\ rq' = [rq EXCEPT ![r].pc = "ret", ![r].ret = "ok", ![r].used = c, ![r].w = FALSE, ![r].off = FALSE]
  /\ UNCHANGED <<hint, pend, conn, nd, mutex, calls, pool>>

(* no usable connection: net/http starts a dial for this request, x/net/http2 starts one for the address *)
Spawn(r) ==
  /\ rq[r].pc = "inT" /\ rq[r].T \in Transports /\ ~rq[r].w
  /\ ~rq[r].off                                      \* (off: a dial brought it a connection: it takes one - ReqOK)
  /\ (Strict => pool[PK(r)] = {})
  /\ calls[OwnCall(r)] = "none"
  /\ calls' = [calls EXCEPT ![OwnCall(r)] = "wait"]
  /\ rq' = [rq EXCEPT ![r].w = TRUE]
  /\ UNCHANGED <<hint, pend, conn, nd, mutex, pool>>

(* http2: a dial for the address is already under way, wait for it *)
Join(r) ==
  /\ rq[r].pc = "inT" /\ rq[r].T = "h2" /\ ~rq[r].w /\ ~rq[r].off
  /\ (Strict => pool[PK(r)] = {})
  /\ calls[OwnCall(r)] # "none"
  /\ rq' = [rq EXCEPT ![r].w = TRUE]
  /\ UNCHANGED <<hint, pend, conn, nd, mutex, calls, pool>>

Waiters(k) ==
  IF k[1] = "h1" THEN {r \in Reqs : r = k[3] /\ rq[r].pc = "inT" /\ rq[r].w /\ rq[r].T = "h1"}
  ELSE {r \in Reqs : rq[r].pc = "inT" /\ rq[r].w /\ rq[r].T = "h2" /\ rq[r].d = k[2]}

(* net/http: the request got a connection elsewhere before its dial goroutine started: no dial *)
Abandon(k) ==
  /\ k[1] = "h1" /\ calls[k] = "wait" /\ Waiters(k) = {}
  /\ calls' = [calls EXCEPT ![k] = "none"]
  /\ UNCHANGED <<hint, pend, conn, nd, mutex, rq, pool>>

(* How a dial's result reaches the requests.  The dial function returns on a goroutine of the transport; the
   transport hands the result over LATER (the mutex is free by then, other dials may run in between):
   - a connection goes to the pool and the waiters stop waiting for the dial; each then takes a pooled connection
     (its own, or one that came back meanwhile) - ReqOK;
   - an error of net/http's dial is kept in calls[k] until Deliver(k): its owner may have been served by a pooled
     connection meanwhile, the error is then dropped;  x/net/http2 waiters only wait for the dial: at once. *)
Released(k) == [r \in Reqs |-> IF r \in Waiters(k) THEN [rq[r] EXCEPT !.w = FALSE, !.off = TRUE] ELSE rq[r]]
Failed(k, what) == [r \in Reqs |-> IF r \in Waiters(k) THEN [rq[r] EXCEPT !.pc = "ret", !.ret = what, !.w = FALSE, !.off = FALSE] ELSE rq[r]]
ErrCalls(k, what) == [calls EXCEPT ![k] = IF k[1] = "h1" THEN what ELSE "none"]
ErrRq(k, what) == IF k[1] = "h1" THEN rq ELSE Failed(k, what)

Deliver(k) ==
  /\ calls[k] \in {"eagain", "err"}
  /\ rq' = Failed(k, calls[k])
  /\ calls' = [calls EXCEPT ![k] = "none"]
  /\ UNCHANGED <<hint, pend, conn, nd, mutex, pool>>

-----------------------------------------------------------------------------
(* dialOrGetTLSWithExpectedALPN(addr = k[2], expectedH2 = (k[1] = "h2")) *)

(* Lock; the hint; getConn.  Returns at once (EAGAIN, cached connection) or goes on to dial with the mutex held. *)
CallEnter(k) ==
  /\ calls[k] = "wait" /\ mutex = NoCall
  /\ LET T == k[1]
         d == k[2]
         c == pend[<<T, d>>]
     IN
     IF HintH1(AKey(d)) = (T = "h2")
     THEN /\ rq' = ErrRq(k, "eagain")
          /\ calls' = ErrCalls(k, "eagain")
          /\ UNCHANGED <<hint, pend, conn, nd, mutex, pool>>
     ELSE IF c # NoConn /\ (~conn[c].claimed \/ Mut = "claimNoCheck")
     THEN (* claimConnection succeeds *)
          /\ pend' = IF Mut = "nodelete" THEN pend ELSE [pend EXCEPT ![<<T, d>>] = NoConn]
          /\ conn' = [conn EXCEPT ![c].claimed = TRUE, ![c].to = T, ![c].nclaim = IF @ < 2 THEN @ + 1 ELSE @]
          /\ pool' = [pool EXCEPT ![<<T, d>>] = @ \cup {c}]
          /\ rq' = Released(k)
          /\ calls' = [calls EXCEPT ![k] = "none"]
          /\ UNCHANGED <<hint, nd, mutex>>
     ELSE (* nothing cached, or it has expired (the entry is deleted all the same): dial *)
          /\ pend' = IF c # NoConn /\ Mut # "nodelete" THEN [pend EXCEPT ![<<T, d>>] = NoConn] ELSE pend
          /\ calls' = [calls EXCEPT ![k] = "dialing"]
          /\ mutex' = k
          /\ UNCHANGED <<hint, conn, nd, rq, pool>>

Fresh(x) == [NoConnRec EXCEPT !.alpn = x, !.open = TRUE]

(* the dial returns: x is what the server did *)
CallFinish(k, x) ==
  /\ calls[k] = "dialing" /\ mutex = k
  /\ x \in Offer(k[2])
  /\ nd[k[2]] < MaxDials
  /\ LET T == k[1]
         d == k[2]
         c == <<d, nd[d] + 1>>
     IN
     /\ nd' = [nd EXCEPT ![d] = @ + 1]
     /\ mutex' = NoCall
     /\ IF x = "fail"
        THEN /\ conn' = [conn EXCEPT ![c] = [Fresh("fail") EXCEPT !.open = (Mut = "hsleak")]]
             /\ rq' = ErrRq(k, "err")
             /\ calls' = ErrCalls(k, "err")
             /\ UNCHANGED <<hint, pend, pool>>
        ELSE IF IsH2(x) = (T = "h2")
        THEN /\ conn' = [conn EXCEPT ![c] = [Fresh(x) EXCEPT !.to = T]]
             /\ pool' = [pool EXCEPT ![<<T, d>>] = @ \cup {c}]
             /\ rq' = Released(k)
             /\ calls' = [calls EXCEPT ![k] = "none"]
             /\ UNCHANGED <<hint, pend>>
        ELSE (* putConn (overwrites what is there), hint flipped, EAGAIN *)
             /\ conn' = [conn EXCEPT ![c] = [Fresh(x) EXCEPT !.wrapped = TRUE, !.ttl = Expiry, !.fired = (Mut = "noTimer")]]
             /\ pend' = [pend EXCEPT ![<<IF Mut = "putkey" THEN T ELSE TOf(x), d>>] = c]
             /\ hint' = IF Mut = "noflip" THEN hint ELSE [hint EXCEPT ![AKey(d)] = TOf(x)]
             /\ rq' = ErrRq(k, "eagain")
             /\ calls' = ErrCalls(k, "eagain")
             /\ UNCHANGED pool

-----------------------------------------------------------------------------
(* unclaimedConnection timers and the clock *)

Tick(c) ==
  /\ Exists(c) /\ conn[c].wrapped /\ ~conn[c].fired /\ conn[c].ttl = 0
  /\ IF ~conn[c].claimed
     THEN conn' = [conn EXCEPT ![c].fired = TRUE, ![c].claimed = (Mut # "tickNoMark"), ![c].open = FALSE, ![c].tclosed = TRUE]
     ELSE conn' = [conn EXCEPT ![c].fired = TRUE]
  /\ UNCHANGED <<hint, pend, nd, mutex, calls, rq, pool>>

Running == {c \in ConnIds : Exists(c) /\ conn[c].wrapped /\ ~conn[c].fired}

Advance ==
  /\ Timed
  /\ \A c \in Running : conn[c].ttl > 0
  /\ Running # {}                       \* (a step that changes nothing is not a step)
  /\ conn' = [c \in ConnIds |-> IF c \in Running THEN [conn[c] EXCEPT !.ttl = @ - 1] ELSE conn[c]]
  /\ UNCHANGED <<hint, pend, nd, mutex, calls, rq, pool>>

(* a connection is not closed between its delivery to a waiter and the waiter's taking it *)
Offered(T, d) == \E r \in Reqs : rq[r].pc = "inT" /\ rq[r].off /\ rq[r].T = T /\ rq[r].d = d

(* the pooled connections of one transport are closed (idle timeout, server, CloseIdleConnections) *)
Drop(T) ==
  /\ AllowDrop
  /\ \E d \in Dests : pool[<<T, d>>] # {}
  /\ \A d \in Dests : ~Offered(T, d)
  /\ LET gone == UNION {pool[<<T, d>>] : d \in Dests} IN
     /\ conn' = [c \in ConnIds |-> IF c \in gone THEN [conn[c] EXCEPT !.open = FALSE] ELSE conn[c]]
     /\ pool' = [k \in PKeys |-> IF k[1] = T THEN {} ELSE pool[k]]
  /\ UNCHANGED <<hint, pend, nd, mutex, calls, rq>>

(* the library closes ONE pooled connection by itself (net/http keeps two idle connections per host and closes
   the others when they come back; idle timeouts) *)
PoolClose(c) ==
  /\ AllowDrop
  /\ \E k \in PKeys : c \in pool[k] /\ ~Offered(k[1], k[2])
  /\ conn' = [conn EXCEPT ![c].open = FALSE]
  /\ pool' = [k \in PKeys |-> pool[k] \ {c}]
  /\ UNCHANGED <<hint, pend, nd, mutex, calls, rq>>

-----------------------------------------------------------------------------
(* putConn / getConn called directly under accessDialingConnection: the unit-level harness (fake connections
   under the fake clock of testing/synctest), and the harness playing a concurrent dial that takes a parked
   connection between two tries of a request *)
RawPut(T, d) ==
  /\ nd[d] < MaxDials
  /\ LET c == <<d, nd[d] + 1>> IN
     /\ nd' = [nd EXCEPT ![d] = @ + 1]
     /\ conn' = [conn EXCEPT ![c] = [Fresh(T) EXCEPT !.wrapped = TRUE, !.ttl = Expiry, !.fired = (Mut = "noTimer")]]
     /\ pend' = [pend EXCEPT ![<<T, d>>] = c]
  /\ UNCHANGED <<hint, mutex, calls, rq, pool>>

RawGetRes(T, d) ==
  LET c == pend[<<T, d>>] IN IF c # NoConn /\ (~conn[c].claimed \/ Mut = "claimNoCheck") THEN c ELSE NoConn

RawGet(T, d) ==
  /\ mutex = NoCall
  /\ LET c == pend[<<T, d>>] IN
     /\ pend' = IF c # NoConn /\ Mut # "nodelete" THEN [pend EXCEPT ![<<T, d>>] = NoConn] ELSE pend
     /\ conn' = IF RawGetRes(T, d) # NoConn
                THEN [conn EXCEPT ![c].claimed = TRUE, ![c].to = T, ![c].nclaim = IF @ < 2 THEN @ + 1 ELSE @]
                ELSE conn
  /\ UNCHANGED <<hint, nd, mutex, calls, rq, pool>>

-----------------------------------------------------------------------------
ReqStep(r) == Pick(r) \/ PickBd(r) \/ EnterT(r) \/ BdServe(r) \/ Return(r) \/ Spawn(r) \/ Join(r) \/ (\E c \in ConnIds : ReqOK(r, c))

Internal ==
  \/ \E r \in Reqs : ReqStep(r)
  \/ \E k \in CallKeys : CallEnter(k) \/ Abandon(k) \/ Deliver(k)
  \/ \E c \in ConnIds : Tick(c)

Env ==
  \/ \E r \in Reqs, d \in Dests, s \in BOOLEAN : Start(r, d, s)
  \/ \E k \in CallKeys, x \in Alpns \cup {"fail"} : CallFinish(k, x)
  \/ \E T \in Transports : Drop(T)
  \/ \E c \in ConnIds : PoolClose(c)
  \/ Advance

Next == Internal \/ Env

Fairness ==
  /\ \A r \in Reqs : WF_vars(ReqStep(r))
  /\ \A k \in CallKeys : SF_vars(CallEnter(k)) /\ WF_vars(\E x \in Alpns \cup {"fail"} : CallFinish(k, x)) /\ WF_vars(Deliver(k))
  /\ \A c \in ConnIds : WF_vars(Tick(c))
  /\ WF_vars(Advance)

Safe == Init /\ [][Next]_vars
Spec == Safe /\ Fairness

(* generation model: the environment (request starts, server answers, pool drops, the clock) acts only when
   the goroutines have come to rest; its actions carry the G prefix the schedule extraction looks for *)
(* Busy is ENABLED Internal written out (TLC evaluates it much faster); BusyOK is checked by TLC *)
Busy ==
  \/ \E r \in Reqs : rq[r].pc \in {"loop", "picked", "ret"}
  \/ \E r \in Reqs : rq[r].pc = "inT" /\ rq[r].T = "bd"
  \/ \E r \in Reqs : /\ rq[r].pc = "inT" /\ rq[r].T \in Transports
                      /\ \/ pool[PK(r)] # {} /\ (rq[r].T = "h2" => ~rq[r].w)
                         \/ ~rq[r].w /\ ~rq[r].off /\ (Strict => pool[PK(r)] = {})
  \/ \E k \in CallKeys : calls[k] = "wait" /\ (mutex = NoCall \/ (k[1] = "h1" /\ Waiters(k) = {}))
  \/ \E k \in CallKeys : calls[k] \in {"eagain", "err"}
  \/ \E c \in ConnIds : Exists(c) /\ conn[c].wrapped /\ ~conn[c].fired /\ conn[c].ttl = 0
BusyOK == Busy <=> ENABLED Internal
AtRest == ~Busy
AllDone == InFlight = {} /\ \A k \in CallKeys : calls[k] = "none"
GStart(r, d, s) == AtRest /\ Start(r, d, s)
GServe(d, x) == AtRest /\ mutex # NoCall /\ mutex[2] = d /\ CallFinish(mutex, x)
GDrop(T) == AtRest /\ AllDone /\ Drop(T)
GAdvance == AtRest /\ Advance
GPut(T, d) == Unit /\ AtRest /\ RawPut(T, d)
GGet(T, d) == Unit /\ AtRest /\ RawGet(T, d)
GenNext ==
  \/ Internal
  \/ \E T \in Transports, d \in Dests : GPut(T, d) \/ GGet(T, d)
  \/ \E r \in Reqs, d \in Dests, s \in BOOLEAN : GStart(r, d, s)
  \/ \E d \in Dests, x \in Alpns \cup {"fail"} : GServe(d, x)
  \/ \E T \in Transports : GDrop(T)
  \/ GAdvance
GenSpec == Init /\ [][GenNext]_vars

-----------------------------------------------------------------------------
(* Properties *)

(* a connection handed to a transport has the ALPN that transport expects *)
ALPNMatches == \A c \in ConnIds : conn[c].to # "none" => TOf(conn[c].alpn) = conn[c].to /\ conn[c].alpn \in Alpns
PoolOK == \A k \in PKeys : \A c \in pool[k] : c[1] = k[2] /\ conn[c].to = k[1] /\ conn[c].open
UsedMatches == \A r \in Reqs : rq[r].used # NoConn => rq[r].used[1] = rq[r].d /\ TOf(conn[rq[r].used].alpn) = rq[r].T
(* pendingConn files a connection under its own ALPN and destination *)
PendKeyOK == \A k \in PKeys : pend[k] # NoConn => pend[k][1] = k[2] /\ TOf(conn[pend[k]].alpn) = k[1] /\ conn[pend[k]].wrapped
(* getConn removes what it hands out *)
PendNotHanded == \A k \in PKeys : pend[k] # NoConn => conn[pend[k]].to = "none"

ClaimOnce == \A c \in ConnIds : conn[c].nclaim <= 1 /\ ~(conn[c].nclaim >= 1 /\ conn[c].tclosed)

(* no connection is kept open for ever unclaimed: an open connection nobody owns has a running timer *)
NoLeak == \A c \in ConnIds : (Exists(c) /\ conn[c].open /\ conn[c].to = "none") => (conn[c].wrapped /\ ~conn[c].fired)
Settled == \A c \in ConnIds : (Exists(c) /\ conn[c].open /\ conn[c].to = "none") ~> (~conn[c].open \/ conn[c].to # "none")

TriesBound == \A r \in Reqs : rq[r].tries <= MaxTry
TooManyOnlyAfterMaxTry == \A r \in Reqs : rq[r].res = "toomany" => rq[r].tries = MaxTry
(* a server with a stable ALPN: the request completes, in at most two tries, never with errEAGAINTooMany *)
StableOK == \A r \in Reqs : (rq[r].pc # "new" /\ rq[r].https /\ Stable(rq[r].d)) =>
               /\ rq[r].tries <= 2
               /\ rq[r].pc = "done" => rq[r].res = "ok"
NoTooMany == \A r \in Reqs : rq[r].res # "toomany"
(* with a server that never breaks the handshake every request ends ok or with errEAGAINTooMany *)
ErrOnlyOnFail == \A r \in Reqs : rq[r].res = "err" => "fail" \in Offer(rq[r].d)

(* non-https requests only ever see the backdrop transport *)
HttpBypass == \A r \in Reqs : (rq[r].pc # "new" /\ ~rq[r].https) => (rq[r].T \in {"-", "bd"} /\ rq[r].tries = 0 /\ ~rq[r].w /\ rq[r].used = NoConn)
HttpsNeverBackdrop == \A r \in Reqs : rq[r].https => rq[r].T # "bd"

(* the hint of a destination is written only by a dial to that destination; it is never unset again *)
HintIsolation ==
  [][\A k \in HKeys : hint'[k] # hint[k] =>
        /\ mutex # NoCall /\ mutex[2] = k[1] /\ k = AKey(k[1]) /\ mutex' = NoCall
        /\ hint'[k] # "unset"]_vars
(* nothing of destination d changes in a step of a call to / request for another destination *)
MutexOK == (mutex # NoCall) <=> (\E k \in CallKeys : calls[k] = "dialing")
OneDial == Cardinality({k \in CallKeys : calls[k] = "dialing"}) <= 1

Completes == \A r \in Reqs : (rq[r].pc # "new") ~> (rq[r].pc = "done")

(* the bound on dials must never be what stops a configuration (checked as an invariant, so that no
   configuration is silently truncated) *)
DialRoom == \A k \in CallKeys : calls[k] = "dialing" => nd[k[2]] < MaxDials
=============================================================================
