---------------------------- MODULE ServerMux_Gen ----------------------------
(* Behaviour generation for the core rig: ServerMux with the carrier plans
   chosen by the environment when a carrier is opened (any ClientID, any
   client_ip of GenIPs, any amount of preamble, bad and short tokens), carriers
   taken in index order, at most MaxLive client ends alive at once (so that
   random walks mix sequential reconnects with overlaps).  The behaviours (tlc -simulate, or the state graph of
   a small configuration) are projected by lib/checks/c05.py onto what the rig
   can control: the order in which carriers are opened, what each presents,
   where it is cut (byte class, after how many frames), whether the server
   side is still attached when the next carrier of the session arrives. *)
EXTENDS ServerMux

CONSTANTS GenIPs,   \* <<ip of carrier 1, ip of carrier 2, ...>> (cycled)
          MaxLive   \* at most this many client ends alive at once

IpFor(k) == GenIPs[((k - 1) % Len(GenIPs)) + 1]
GenPlans(k) ==
  {[pres |-> p, ip |-> IpFor(k), hello |-> "full", w |-> w] : p \in Ids, w \in 1..4}     \* w: weight only (random walks pick successors uniformly)
  \cup {[pres |-> p, ip |-> IpFor(k), hello |-> h] : p \in Ids, h \in {"tok", "none"}}
  \cup {[pres |-> NoToken, ip |-> IpFor(k), hello |-> "bad"], [pres |-> Short, ip |-> IpFor(k), hello |-> "part"]}
(* The byte class of the sessions' ClientIDs and whether their KCP
   conversation ids are equal are chosen by the environment together with the
   first carrier (they ride on its plan record so that the behaviour's action
   labels carry them); the model's ids stay opaque and distinct. *)
IdShapes == {"random", "lastbyte", "firstbyte", "prefix4", "zeroff"}
FirstPlans == {[pres |-> p.pres, ip |-> p.ip, hello |-> p.hello, shape |-> sh, conveq |-> ce] :
                 p \in GenPlans(1), sh \in IdShapes, ce \in BOOLEAN}
PlansOf(k) == IF k = 1 THEN FirstPlans ELSE GenPlans(k)
AllGenPlans == UNION {PlansOf(k) : k \in Carriers}

G_Open(k, pl) ==
  /\ Quiet /\ \A j \in Carriers : j < k => cli[j] # "idle"
  /\ pl \in PlansOf(k)
  /\ Cardinality({j \in Carriers : cli[j] = "live"}) < MaxLive
  /\ CarrierOpen(k, pl)

GenNext ==
  \/ LocalNext \/ SrvNext
  \/ \E k \in Carriers, pl \in AllGenPlans : G_Open(k, pl)
  \/ \E k \in Carriers, pkt \in Packet : S_UpFrame(k, pkt)
  \/ \E k \in Carriers, c \in CutClasses : S_Cut(k, c)
  \/ \E id \in Ids, cls \in GapClasses : S_Gap(id, cls)
IPSeqA == <<"192.0.2.7", "2001:db8::5", "0.0.0.0", "192.0.2.7", "<absent>">>
IPSeqB == <<"::ffff:203.0.113.9", "not-an-ip", "198.51.100.200", "2001:DB8:0:0::a">>
IPSeqC == <<"203.0.113.77", "::", "192.0.2.7:443", "[2001:db8::5]", "fe80::1%eth0", "192.0.2.256", " 192.0.2.7", "", "2001:db8::5">>
GenSpec == Init /\ [][GenNext]_vars
GenPlan == [k \in Carriers |-> NoPlan]
=============================================================================
