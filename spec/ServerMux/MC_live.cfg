CONSTANTS
  Ids = {"A", "B"}
  Carriers = {1, 2, 3}
  Plan <- PlanShort3
  Segs = {1}
  QCap = 1
  RingCap = 3
  MaxExpire = 0
SPECIFICATION FairSpec
INVARIANTS TypeOK TagIsPresented NoForeignInput DownOnlyToSameID OneAcceptPerSession NoTokenNoConn SetIsSanitised RemoteAddrRight
PROPERTIES BadTokenClosed DeadCarrierClosed
CHECK_DEADLOCK FALSE
