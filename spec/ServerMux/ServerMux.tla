----------------------------- MODULE ServerMux -----------------------------
(* server/lib/http.go (ServeHTTP, turbotunnelMode), server/lib/snowflake.go
   (acceptSessions, acceptStreams), common/turbotunnel/queuepacketconn.go and
   clientmap.go: how the Snowflake server binds the packets that arrive on
   many short-lived carriers (WebSocket connections) to long-lived sessions
   named by a ClientID.

   One carrier k is a WebSocket connection.  Its client end writes a preamble
   (8-byte token, 8-byte ClientID, two separate writes) and then length-
   prefixed packets; its server end is one ServeHTTP goroutine that walks
   open -> tok -> id -> att(ached) and then runs a read loop (QueueIncoming,
   packets tagged with the ClientID that this handler read) and a write loop
   (pops the outgoing queue of that same ClientID).  The KCP listener keys its
   sessions by the tag; a new session looks up the client address in a
   bounded ClientID -> address memory that every attaching handler writes.

   Shape (collapsed, see DESIGN 3.6): every pipe and queue is a one-place slot
   / a queue of capacity QCap (capacity 1 still exercises "drop when full");
   a packet is the triple (session it belongs to, direction, segment number);
   what each carrier presents (ClientID or a bad token, client_ip, how much of
   the preamble its client end manages to write) is a constant of the
   configuration (Plan) and several plans are checked; history is kept as
   flags that the design never raises, not as growing sets.  A session is
   identified with its ClientID (ClientIDs are 64 random bits; two sessions
   choosing the same one is outside the property).

   Actions take the values that the implementation computes as explicit
   parameters (the ClientID a handler read, the tag it attaches, the queue it
   pops, the address it stores or looks up).  The design (Next) instantiates
   them with the intended values; the trace specification ServerMux_Trace
   binds them to what the real server logged, so that the property invariants
   below are evaluated on the observed values.

   Don't-care regions (the property says nothing about them):
     * which packets are lost when a queue is full or a carrier dies;
     * what a half-open carrier (client end dead, server end still attached)
       swallows;
     * (no longer a don't-care since /repo ee0c783: when the bounded memory has
       forgotten the ClientID the address is empty, never nil);
     * when exactly the server notices a dead carrier. *)
EXTENDS Integers, Sequences, FiniteSets, TLC

CONSTANTS
  Ids,        \* ClientIDs = sessions, e.g. {"A", "B"}
  Carriers,   \* 1..K
  Plan,       \* [Carriers -> [pres, ip, hello]]: what the client end of each carrier does
  Segs,       \* segment numbers per direction, 1..N
  QCap,       \* capacity of recvQ and of each outgoing queue
  RingCap,    \* capacity of the ClientID -> address memory
  MaxExpire   \* how often the idle timer of the client map may fire

None    == "none"
NoToken == "noToken"    \* eight bytes that are not the turbotunnel token
Short   == "short"      \* fewer than eight bytes, then the client goes away
NoAddr  == "<nil>"      \* the memory has no entry (Get returns nil, false)
Pres    == Ids \cup {NoToken, Short}

(* Plan[k].pres  in Pres: the ClientID the client end writes, or a bad token;
   Plan[k].ip    the client_ip value of the carrier's URL;
   Plan[k].hello how much of the preamble the client end manages to write
                 before it goes on (or dies): "none" nothing, "part" a short
                 token, "bad" eight wrong bytes, "tok" the token but not the
                 whole ClientID, "full" token and ClientID.
   The plan of a carrier becomes state (plan[k]) when the carrier is opened,
   so that the trace specification can take it from the logged event. *)
HelloOK(p, h) ==
  /\ p \in Pres /\ h \in {"none", "part", "bad", "tok", "full"}
  /\ (p = NoToken => h \in {"none", "bad"})
  /\ (p = Short => h \in {"none", "part"})
  /\ (p \in Ids => h \in {"none", "tok", "full"})
NoPlan == [pres |-> None, ip |-> "", hello |-> "none"]

(* The sanitiser contract on the client_ip values used by the rigs: a valid,
   specified IP address rendered with the stub port 1, else empty.  (The full
   class analysis of clientAddr belongs to C18's own module; this table is
   the contract restricted to the concrete strings the core rig sends.) *)
SanitTable ==
  ("192.0.2.7" :> "192.0.2.7:1") @@ ("198.51.100.200" :> "198.51.100.200:1") @@
  ("203.0.113.77" :> "203.0.113.77:1") @@
  ("2001:db8::5" :> "[2001:db8::5]:1") @@ ("2001:DB8:0:0::a" :> "[2001:db8::a]:1") @@
  ("::ffff:203.0.113.9" :> "203.0.113.9:1") @@
  ("" :> "") @@ ("<absent>" :> "") @@ ("0.0.0.0" :> "") @@ ("::" :> "") @@ ("not-an-ip" :> "") @@
  ("192.0.2.7:443" :> "") @@ ("[2001:db8::5]" :> "") @@ ("fe80::1%eth0" :> "") @@
  ("192.0.2.256" :> "") @@ (" 192.0.2.7" :> "")
Sanit(i) == SanitTable[i]

Packet == [ses : Ids, dir : {"up", "down"}, seg : Segs]
NoPkt  == [ses |-> "none", dir |-> "none", seg |-> 0]     \* an empty slot (TLC cannot compare a record with a string)

VARIABLES
  plan,      \* [Carriers -> [pres, ip, hello]]: NoPlan until the carrier is opened
  cli,       \* client end of the carrier: "idle" | "live" | "dead"
  cst,       \* server handler: "idle" | "open" | "tok" | "id" | "att" | "closed"
  sid,       \* [Carriers -> Ids \cup {None}]   the ClientID the handler read
  up,        \* [Carriers -> Packet \cup {NoPkt}] one upstream frame in flight (downstream frames are
             \* delivered or lost in the step that writes them: DownFrame)
  recvQ,     \* Seq([pkt, tag, src]): QueuePacketConn.recvQueue
  outQ,      \* [Ids -> Seq(Packet)]: ClientMap send queues
  sess,      \* [Ids -> "none" | "new" | "est"]: KCP listener table, keyed by the tag
  conv,      \* [Ids -> Ids \cup {None}]: whose packets the KCP session under that key consumes
  syn,       \* [Ids -> BOOLEAN]: the session under that key has received a first segment
  opened,    \* [Ids -> BOOLEAN]: its smux stream has been accepted
  sessAddr,  \* [Ids -> address string \cup {None}]: result of the lookup in acceptStreams
  sessWant,  \* history: what the property demands for that lookup
  accepted,  \* Seq([id, addr, want]): connections returned by Accept
  sets,      \* Seq([id, addr, k]): the address memory, all Set calls in order (window = last RingCap)
  misDown,   \* history flag: a write loop took a packet of another session than its carrier presented
  misGot,    \* history flag: a client end received a packet of another session
  expired    \* number of idle expiries so far

vars == <<plan, cli, cst, sid, up, recvQ, outQ, sess, conv, syn, opened,
          sessAddr, sessWant, accepted, sets, misDown, misGot, expired>>

carrierVars == <<plan, cli, cst, sid, up>>
pres(k)  == plan[k].pres
ip(k)    == plan[k].ip
hello(k) == plan[k].hello
kcpVars     == <<sess, conv, syn, opened, sessAddr, sessWant, accepted>>
flagVars    == <<misDown, misGot>>

Init ==
  /\ plan = [k \in Carriers |-> NoPlan]
  /\ cli = [k \in Carriers |-> "idle"]
  /\ cst = [k \in Carriers |-> "idle"] /\ sid = [k \in Carriers |-> None]
  /\ up = [k \in Carriers |-> NoPkt]
  /\ recvQ = <<>> /\ outQ = [i \in Ids |-> <<>>]
  /\ sess = [i \in Ids |-> "none"] /\ conv = [i \in Ids |-> None]
  /\ syn = [i \in Ids |-> FALSE] /\ opened = [i \in Ids |-> FALSE]
  /\ sessAddr = [i \in Ids |-> None] /\ sessWant = [i \in Ids |-> None]
  /\ accepted = <<>> /\ sets = <<>>
  /\ misDown = FALSE /\ misGot = FALSE
  /\ expired = 0

Enq(q, e) == IF Len(q) < QCap THEN Append(q, e) ELSE q      \* drop when full

(* The bounded memory, abstractly: the entry of `id` is the latest Set(id) if
   it is among the last RingCap Sets (spec/ClientIDMap refines the ring
   buffer of server/lib/turbotunnel.go to exactly this). *)
Window   == {j \in DOMAIN sets : j > Len(sets) - RingCap}
Entries(id) == {j \in Window : sets[j].id = id}
Latest(S) == CHOOSE j \in S : \A m \in S : m <= j
RingGet(id) == IF Entries(id) = {} THEN NoAddr ELSE sets[Latest(Entries(id))].addr
(* acceptStreams: the address of the session is what the lookup found, or
   the EMPTY address when the bounded memory has evicted the ClientID (never
   a nil net.Addr: callers dereference it). *)
AddrFor(id) == IF RingGet(id) = NoAddr THEN "" ELSE RingGet(id)
(* What the property demands: RemoteAddr of an accepted connection is the
   sanitised client_ip of the most recent carrier that presented `id`, or ""
   when the association was evicted - in {Sanit(ip of a presenting carrier), ""}. *)
Want(id) == IF Entries(id) = {} THEN "" ELSE Sanit(ip(sets[Latest(Entries(id))].k))

-----------------------------------------------------------------------------
(* Environment: the client ends of the carriers. *)

(* The WebSocket connection is established; the client end writes as much of
   the preamble as Plan says (the token and the ClientID are two writes). *)
CarrierOpen(k, pl) ==
  /\ cli[k] = "idle" /\ HelloOK(pl.pres, pl.hello)
  /\ plan' = [plan EXCEPT ![k] = pl]
  /\ cli' = [cli EXCEPT ![k] = "live"] /\ cst' = [cst EXCEPT ![k] = "open"]
  /\ UNCHANGED <<sid, up, recvQ, outQ, kcpVars, sets, flagVars, expired>>

(* The client end writes one frame of its own session. *)
UpFrame(k, pkt) ==
  /\ cli[k] = "live" /\ hello(k) = "full" /\ up[k] = NoPkt
  /\ pkt.ses = pres(k) /\ pkt.dir = "up"
  /\ up' = [up EXCEPT ![k] = pkt]
  /\ UNCHANGED <<plan, cli, cst, sid, recvQ, outQ, kcpVars, sets, flagVars, expired>>

(* The client end dies (proxy killed, TCP cut).  cls is the byte class of the
   position in the carrier's stream: "pre" before the token is complete, "id"
   inside the ClientID, "bnd" on an upstream frame boundary (a complete frame
   already in flight is still delivered), "upmid" inside an upstream frame
   (it is lost; inside its prefix or its body), "downmid" while a downstream
   frame is about to be written (it will go into the void).  The server end notices separately (Detach), so the carrier may
   stay half-open. *)
CutClasses == {"pre", "id", "bnd", "upmid", "downmid"}
CarrierCut(k, cls) ==
  /\ cli[k] = "live"
  /\ CASE cls = "pre"     -> hello(k) \in {"none", "part"}
       [] cls = "id"      -> hello(k) = "tok"
       [] cls = "bnd"     -> hello(k) \in {"full", "bad"}
       [] cls = "upmid"   -> hello(k) = "full" /\ up[k] # NoPkt
       [] cls = "downmid" -> cst[k] = "att" /\ outQ[sid[k]] # <<>>
  /\ cli' = [cli EXCEPT ![k] = "dead"]
  /\ up' = [up EXCEPT ![k] = IF cls = "upmid" THEN NoPkt ELSE @]
  /\ UNCHANGED <<plan, cst, sid, recvQ, outQ, kcpVars, sets, flagVars, expired>>

-----------------------------------------------------------------------------
(* Server: one ServeHTTP goroutine per carrier. *)

Close(k) == cst' = [cst EXCEPT ![k] = "closed"]

(* io.ReadFull(conn, token): a wrong token closes the carrier ("unsupported
   oneshot connection"), EOF before eight bytes closes it too. *)
TokenCheck(k) ==
  /\ cst[k] = "open"
  /\ \/ hello(k) \in {"tok", "full"} /\ cst' = [cst EXCEPT ![k] = "tok"]
     \/ hello(k) = "bad" /\ Close(k)
     \/ hello(k) \in {"none", "part"} /\ cli[k] = "dead" /\ Close(k)
  /\ UNCHANGED <<plan, cli, sid, up, recvQ, outQ, kcpVars, sets, flagVars, expired>>

(* io.ReadFull(conn, clientID[:]); `id` is the value the handler ends up with. *)
ReadID(k, id) ==
  /\ cst[k] = "tok" /\ hello(k) = "full"
  /\ sid' = [sid EXCEPT ![k] = id] /\ cst' = [cst EXCEPT ![k] = "id"]
  /\ UNCHANGED <<plan, cli, up, recvQ, outQ, kcpVars, sets, flagVars, expired>>

ReadIDFails(k) ==      \* the carrier died inside the ClientID
  /\ cst[k] = "tok" /\ hello(k) = "tok" /\ cli[k] = "dead" /\ Close(k)
  /\ UNCHANGED <<plan, cli, sid, up, recvQ, outQ, kcpVars, sets, flagVars, expired>>

(* clientIDAddrMap.Set(clientID, addr); `a` is the address stored. *)
SetAddr(k, a) ==
  /\ cst[k] = "id"
  /\ sets' = Append(sets, [id |-> sid[k], addr |-> a, k |-> k])
  /\ cst' = [cst EXCEPT ![k] = "att"]
  /\ UNCHANGED <<plan, cli, sid, up, recvQ, outQ, kcpVars, flagVars, expired>>

(* read loop: ReadData + pconn.QueueIncoming(p, clientID); `tag` is the
   address the packet is queued under. *)
QueueIncoming(k, tag) ==
  /\ cst[k] = "att" /\ up[k] # NoPkt
  /\ recvQ' = Enq(recvQ, [pkt |-> up[k], tag |-> tag, src |-> k])
  /\ up' = [up EXCEPT ![k] = NoPkt]
  /\ UNCHANGED <<plan, cli, cst, sid, outQ, kcpVars, sets, flagVars, expired>>

(* write loop: pops the outgoing queue `id` and writes the frame to carrier k
   (into the void when the client end is already dead). *)
DownFrame(k, id) ==
  /\ cst[k] = "att" /\ outQ[id] # <<>>
  /\ outQ' = [outQ EXCEPT ![id] = Tail(@)]
  /\ misDown' = (misDown \/ Head(outQ[id]).ses # pres(k))
  /\ misGot' = (misGot \/ (cli[k] = "live" /\ Head(outQ[id]).ses # pres(k)))
  /\ UNCHANGED <<plan, cli, cst, sid, up, recvQ, kcpVars, sets, expired>>

(* A read or write error ends both loops; the handler returns. *)
Detach(k) ==
  /\ cst[k] = "att" /\ cli[k] = "dead" /\ up[k] = NoPkt
  /\ Close(k)
  /\ UNCHANGED <<plan, cli, sid, up, recvQ, outQ, kcpVars, sets, flagVars, expired>>

(* ClientMap.removeExpired: the send queue of an id that nobody touched for
   the retention time is closed; write loops blocked on it return and close
   their carriers; queued packets are lost.  (The retention clock itself is
   C17's QueueConn module; here expiry is an environment event.) *)
Expire(id) ==
  /\ expired < MaxExpire
  /\ expired' = expired + 1
  /\ outQ' = [outQ EXCEPT ![id] = <<>>]
  /\ cst' = [k \in Carriers |-> IF cst[k] = "att" /\ sid[k] = id THEN "closed" ELSE cst[k]]
  /\ UNCHANGED <<plan, cli, sid, up, recvQ, kcpVars, sets, flagVars>>

(* A gap: for a while NO carrier of the session is attached.  Its length
   classes, each with the assumption it probes:
     "short"            well below every timer: nothing may happen at all;
     "beyondKeepalive"  longer than the session layer's DEFAULT keep-alive
                        timeout (smux: 30 s) but inside the retention.  The
                        design assumes that the server's session layer does not
                        give a session up within the retention (acceptStreams
                        configures KeepAliveTimeout = 10 min): sess[id] and
                        opened[id] persist (SessionPersists), so the stream
                        continues on the next carrier as the SAME accepted
                        connection;
     "beyondRetention"  longer than clientMapTimeout (1 min): the outgoing
                        queue of the ClientID expires and its packets are lost
                        (the reliable layer resends them); the session itself
                        still persists.
   The retention clock itself is C17's; here a gap is an environment event
   (budgeted by MaxExpire together with Expire). *)
GapClasses == {"short", "beyondKeepalive", "beyondRetention"}
Attached(id) == \E k \in Carriers : cst[k] \in {"id", "att"} /\ sid[k] = id
Gap(id, cls) ==
  /\ expired < MaxExpire /\ cls \in GapClasses
  /\ sess[id] # "none" /\ ~Attached(id)
  /\ expired' = expired + 1
  /\ outQ' = [outQ EXCEPT ![id] = IF cls = "beyondRetention" THEN <<>> ELSE @]
  /\ UNCHANGED <<plan, cli, cst, sid, up, recvQ, kcpVars, sets, flagVars>>

-----------------------------------------------------------------------------
(* Server: the KCP listener on top of the QueuePacketConn. *)

(* kcp-go keys its listener table by RemoteAddr().String() of the tag.  The
   design needs that key to be injective on ClientIDs: ClientID.String() is the
   hex form of all eight bytes.  (Which byte patterns the ClientIDs of two
   live sessions have - equal but for the last byte, equal but for the first,
   shared 4-byte prefix, all-zero/all-0xff, and equal KCP conversation ids on
   top - is an input class that ServerMux_Gen chooses and the rig concretises;
   the invariants below do not depend on it, and that is the point.) *)
KcpKey(id) == id
ASSUME KcpKeyInjective == \A a, b \in Ids : KcpKey(a) = KcpKey(b) => a = b

(* kcp.Listener.packetInput: sessions are keyed by the tag.  A packet whose
   conversation is not that of the existing session is ignored unless it is a
   first segment, which replaces the session (this is how a mis-tagged packet
   would surface as a second accepted connection). *)
KcpInput ==
  /\ recvQ # <<>>
  /\ LET e == Head(recvQ)
         t == KcpKey(e.tag)
     IN
       /\ recvQ' = Tail(recvQ)
       /\ IF sess[t] = "none" \/ (e.pkt.ses # conv[t] /\ e.pkt.seg = 1)
            THEN /\ sess' = [sess EXCEPT ![t] = "new"]
                 /\ conv' = [conv EXCEPT ![t] = e.pkt.ses]
                 /\ syn' = [syn EXCEPT ![t] = (e.pkt.seg = 1)]
                 /\ opened' = [opened EXCEPT ![t] = FALSE]
            ELSE /\ syn' = [syn EXCEPT ![t] = @ \/ (e.pkt.ses = conv[t] /\ e.pkt.seg = 1)]
                 /\ UNCHANGED <<sess, conv, opened>>
  /\ UNCHANGED <<carrierVars, outQ, sessAddr, sessWant, accepted, sets, flagVars, expired>>

(* acceptSessions -> acceptStreams: clientIDAddrMap.Get(conn.RemoteAddr());
   `a` is the address obtained. *)
GetAddr(id, a) ==
  /\ sess[id] = "new"
  /\ sess' = [sess EXCEPT ![id] = "est"]
  /\ sessAddr' = [sessAddr EXCEPT ![id] = a]
  /\ sessWant' = [sessWant EXCEPT ![id] = Want(id)]
  /\ UNCHANGED <<carrierVars, recvQ, outQ, conv, syn, opened, accepted, sets, flagVars, expired>>

(* sess.AcceptStream + queueConn: the client's stream open rides on its first
   upstream segment; KCP delivers it once however often it is retransmitted. *)
Accept(id) ==
  /\ sess[id] = "est" /\ syn[id] /\ ~opened[id]
  /\ opened' = [opened EXCEPT ![id] = TRUE]
  /\ accepted' = Append(accepted, [id |-> id, addr |-> sessAddr[id], want |-> sessWant[id]])
  /\ UNCHANGED <<carrierVars, recvQ, outQ, sess, conv, syn, sessAddr, sessWant, sets, flagVars, expired>>

(* The KCP session under key `id` emits a packet: QueuePacketConn.WriteTo(p, id). *)
KcpOutput(id, s) ==
  /\ sess[id] # "none"
  /\ outQ' = [outQ EXCEPT ![id] = Enq(@, [ses |-> conv[id], dir |-> "down", seg |-> s])]
  /\ UNCHANGED <<carrierVars, recvQ, kcpVars, sets, flagVars, expired>>

-----------------------------------------------------------------------------
(* Partial-order reduction by hand.  TokenCheck, ReadID and ReadIDFails read
   and write only the handler's own pc (and its plan; the failing branches
   additionally need the client end to be dead, which is stable), so they
   commute with every other action and no invariant distinguishes the
   intermediate pcs of a carrier that presented a good token.  Whenever some
   handler can take such a step, only the least such handler moves (Least);
   everything else waits (Quiet).  The wrappers S_X exist so that TLC labels
   every step with the action and its arguments. *)
LocalReady(k) ==
  \/ cst[k] = "open" /\ (hello(k) \in {"tok", "full", "bad"} \/ cli[k] = "dead")
  \/ cst[k] = "tok" /\ (hello(k) = "full" \/ cli[k] = "dead")
Least(k) == LocalReady(k) /\ \A j \in Carriers : LocalReady(j) => k <= j
Quiet == \A k \in Carriers : ~LocalReady(k)

S_TokenCheck(k)   == Least(k) /\ TokenCheck(k)
S_ReadIDFails(k)  == Least(k) /\ ReadIDFails(k)
S_ReadID(k)       == Least(k) /\ ReadID(k, pres(k))
S_Open(k)         == Quiet /\ CarrierOpen(k, Plan[k])
S_UpFrame(k, pkt) == Quiet /\ UpFrame(k, pkt)
S_Cut(k, c)       == Quiet /\ CarrierCut(k, c)
S_Expire(id)      == Quiet /\ Expire(id)
S_Gap(id, cls)    == Quiet /\ Gap(id, cls)
(* The design: every parameter takes the intended value. *)
S_SetAddr(k)      == Quiet /\ SetAddr(k, Sanit(ip(k)))
S_QueueIncoming(k) == Quiet /\ QueueIncoming(k, sid[k])
S_DownFrame(k)    == Quiet /\ cst[k] = "att" /\ DownFrame(k, sid[k])
S_Detach(k)       == Quiet /\ Detach(k)
S_KcpInput        == Quiet /\ KcpInput
S_GetAddr(id)     == Quiet /\ GetAddr(id, AddrFor(id))
S_Accept(id)      == Quiet /\ Accept(id)
S_KcpOutput(id, s) == Quiet /\ KcpOutput(id, s)

LocalNext == \E k \in Carriers : S_TokenCheck(k) \/ S_ReadIDFails(k) \/ S_ReadID(k)
EnvNext ==
  \/ \E k \in Carriers : S_Open(k)
  \/ \E k \in Carriers, pkt \in Packet : S_UpFrame(k, pkt)
  \/ \E k \in Carriers, c \in CutClasses : S_Cut(k, c)
  \/ \E id \in Ids : S_Expire(id)
  \/ \E id \in Ids, cls \in GapClasses : S_Gap(id, cls)
SrvNext ==
  \/ \E k \in Carriers : S_SetAddr(k) \/ S_QueueIncoming(k) \/ S_DownFrame(k) \/ S_Detach(k)
  \/ S_KcpInput
  \/ \E id \in Ids : S_GetAddr(id) \/ S_Accept(id)
  \/ \E id \in Ids, s \in Segs : S_KcpOutput(id, s)

Next == LocalNext \/ EnvNext \/ SrvNext
Spec == Init /\ [][Next]_vars

-----------------------------------------------------------------------------
(* Properties (C05; RemoteAddrRight is the rig half of C18). *)

TypeOK ==
  /\ cli \in [Carriers -> {"idle", "live", "dead"}]
  /\ \A k \in Carriers : cli[k] # "idle" => HelloOK(pres(k), hello(k))
  /\ cst \in [Carriers -> {"idle", "open", "tok", "id", "att", "closed"}]
  /\ sid \in [Carriers -> Ids \cup {None}]
  /\ \A k \in Carriers : up[k] \in Packet \cup {NoPkt}
  /\ Len(recvQ) <= QCap /\ \A i \in Ids : Len(outQ[i]) <= QCap
  /\ sess \in [Ids -> {"none", "new", "est"}]
  /\ conv \in [Ids -> Ids \cup {None}]

(* Upstream packets are attributed to the session named by the carrier's
   ClientID prefix. *)
TagIsPresented ==
  /\ \A j \in DOMAIN recvQ : recvQ[j].tag = pres(recvQ[j].src)
  /\ \A k \in Carriers : sid[k] # None => sid[k] = pres(k)

(* ... so only packets of session s ever reach the KCP session s. *)
NoForeignInput == \A id \in Ids : conv[id] \in {None, id}

(* Downstream packets of a session are written only to carriers that
   presented the same ClientID; a client end never receives foreign packets. *)
DownOnlyToSameID ==
  /\ ~misDown /\ ~misGot
  /\ \A id \in Ids : \A j \in DOMAIN outQ[id] : outQ[id][j].ses = id

(* However a session moves between carriers it is accepted exactly once. *)
AcceptCount(id) == Cardinality({j \in DOMAIN accepted : accepted[j].id = id})
OneAcceptPerSession == \A id \in Ids : AcceptCount(id) <= 1

(* A carrier without the token never gets past the token check, stores no
   address, queues no packet, and no session or connection appears for an id
   that no carrier presented together with the token. *)
Presented(id) == \E k \in Carriers : pres(k) = id /\ hello(k) = "full" /\ cli[k] # "idle"
NoTokenNoConn ==
  /\ \A k \in Carriers : pres(k) \in {NoToken, Short} =>
        /\ cst[k] \in {"idle", "open", "closed"} /\ sid[k] = None
        /\ \A j \in DOMAIN sets : sets[j].k # k
        /\ \A j \in DOMAIN recvQ : recvQ[j].src # k
  /\ \A j \in DOMAIN accepted : Presented(accepted[j].id)
  /\ \A id \in Ids : sess[id] # "none" => Presented(id)

(* Continuity across gaps of every class: an established session, and the one
   connection accepted for it, are never given up by the server (no step of
   the design takes sess[id] or opened[id] back). *)
SessionPersists ==
  [][\A id \in Ids : (sess[id] = "est" => sess'[id] = "est") /\ (opened[id] => opened'[id])]_vars

(* C18: the address of an accepted connection is the sanitised client_ip of
   the most recent carrier that presented the ClientID when the session was
   established, or empty if the bounded memory had evicted it. *)
SetIsSanitised == \A j \in DOMAIN sets : sets[j].k \in Carriers => sets[j].addr = Sanit(ip(sets[j].k)) /\ sets[j].id = pres(sets[j].k)
PresentedAddrs(id) == {Sanit(ip(k)) : k \in {j \in Carriers : cli[j] # "idle" /\ pres(j) = id}}
RemoteAddrRight ==
  /\ \A j \in DOMAIN accepted : /\ accepted[j].addr = accepted[j].want
                                  /\ accepted[j].addr \in PresentedAddrs(accepted[j].id) \cup {""}
  /\ \A id \in Ids : sessAddr[id] # None => sessAddr[id] = sessWant[id]

(* A carrier that cannot complete the preamble is eventually closed (fairness
   on the server's own steps only; the environment owes nothing). *)
Fair == \A k \in Carriers : WF_vars(S_TokenCheck(k)) /\ WF_vars(S_ReadIDFails(k))
FairSpec == Spec /\ Fair
BadTokenClosed == \A k \in Carriers : (cli[k] # "idle" /\ hello(k) = "bad") ~> (cst[k] = "closed")
DeadCarrierClosed == \A k \in Carriers : (cli[k] = "dead" /\ hello(k) # "full") ~> (cst[k] = "closed")
=============================================================================
