CONSTANTS
  Ids <- TIds
  Carriers <- TCarriers
  Plan <- TPlan
  Segs = {1}
  QCap = 1
  RingCap = 10240
  MaxExpire = 0
SPECIFICATION TSpec
INVARIANTS TagIsPresented NoForeignInput DownOnlyToSameID OneAcceptPerSession NoTokenNoConn SetIsSanitised RemoteAddrRight NoFlags
CONSTRAINT Mark
POSTCONDITION Accepted
CHECK_DEADLOCK FALSE
