---------------------------- MODULE MC_ServerMux ----------------------------
(* Carrier plans for the model-checking configurations of ServerMux. *)
EXTENDS ServerMux
C(p, i, h) == [pres |-> p, ip |-> i, hello |-> h]
\* two carriers of A with different addresses, one of B, one tokenless
PlanOverlap == <<C("A", "192.0.2.7", "full"), C("A", "2001:db8::5", "full"), C("B", "0.0.0.0", "full"), C(NoToken, "192.0.2.7", "bad")>>
\* A's first carrier dies inside the ClientID, a short token, B shares A's address
PlanDies == <<C("A", "192.0.2.7", "tok"), C("A", "0.0.0.0", "full"), C("B", "192.0.2.7", "full"), C(Short, "2001:db8::5", "part")>>
\* strict alternation of two sessions, a carrier that dies before the token
PlanAlt == <<C("A", "192.0.2.7", "full"), C("B", "2001:db8::5", "full"), C("A", "", "full"), C("B", "192.0.2.7", "none")>>
\* five carriers: three of A, one of B, one wrong token
PlanFive == <<C("A", "192.0.2.7", "full"), C("A", "0.0.0.0", "full"), C("B", "2001:db8::5", "full"), C(NoToken, "", "bad"), C("A", "2001:db8::5", "full")>>
\* three carriers: the first of A dies inside the ClientID, a wrong token
PlanBad3 == <<C("A", "192.0.2.7", "tok"), C("A", "2001:db8::5", "full"), C(NoToken, "0.0.0.0", "bad")>>
\* three carriers: a short token, a carrier that dies before the token, one good
PlanShort3 == <<C(Short, "192.0.2.7", "part"), C("B", "2001:db8::5", "none"), C("B", "192.0.2.7", "full")>>
\* C18: three carriers of ONE session with three different client_ip values
PlanAddr3 == <<C("A", "192.0.2.7", "full"), C("A", "2001:db8::5", "full"), C("A", "not-an-ip", "full")>>
PlanTwo == <<C("A", "192.0.2.7", "full"), C("B", "0.0.0.0", "full")>>
PlanThree == <<C("A", "192.0.2.7", "full"), C("A", "2001:db8::5", "full"), C("B", "0.0.0.0", "full")>>
=============================================================================
