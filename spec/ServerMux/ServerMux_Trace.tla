-------------------------- MODULE ServerMux_Trace --------------------------
(* Trace validation for ServerMux: is the event sequence recorded from the
   real server (hooks srv.* in server/lib, harness events car.*, app.*, ses.*
   of harness/rig) a behaviour of ServerMux, and do the property invariants
   hold in every state of the observed execution?

   Binding.  Each event is one ServerMux action (or a fixed composition of
   ServerMux actions whose intermediate state is not observable), with the
   action's parameters bound to the LOGGED values - the ClientID the handler
   used, the address it stored or looked up, the owner of the packet (from
   the packet's KCP conversation id) - not to the intended ones.  A wrong
   value therefore does not make the trace unexplainable, it makes the
   corresponding property invariant false in the next state, which names the
   property that the real code broke.

   Compositions (the one-place slots and the queues of the design are not
   observable from outside and are bypassed):
     srv.in(k,id,own)   = UpFrame(k,pkt) ; QueueIncoming(k,id) ; KcpInput
     srv.out(k,id,own)  = KcpOutput(id,_) ; DownFrame(k,id)
     srv.attach(k,id,a) = TokenCheck(k) ; ReadID(k,id)
     app.accept(id,a)   = Accept(id)
   The two accesses of the address memory are logged before and after the
   call (srv.attach / srv.attached around Set, srv.session / srv.accept around
   Get): the model action itself is a silent step that TLC may place anywhere
   between the two records, because the recording order of two goroutines'
   hook calls does not order their critical sections.  Because the placement
   is a guess, the looked-up address is compared with the memory's content as
   a GUARD of the Get step (a wrong guess has no successor and disappears);
   only if no placement explains the logged address is the trace rejected at
   the srv.accept event.  Which carrier's client_ip that address must be is
   then the invariant RemoteAddrRight (want), and SetIsSanitised judges every
   stored address at its Set step, where nothing is guessed.

   Several traces are validated in one run: a "reset" event re-initialises the
   state.  Acceptance: the high-water mark of the position l reaches the end
   of the file (POSTCONDITION). *)
EXTENDS ServerMux, Json, TLCExt

TraceLog == ndJsonDeserialize("trace.ndjson")

TPlan == [k \in Carriers |-> NoPlan]      \* Plan is not used: plans come from car.open events
TCarriers == 1..64
TIds == {"S0", "S1", "S2", "S3", "S4", "S5", "S6", "S7"}
Dirs == {"up", "down"}

VARIABLES
  l,         \* position in TraceLog
  pend,      \* [Carriers -> address]: argument of the Set call in progress
  getting,   \* [Ids -> BOOLEAN]: srv.session seen, Get not yet returned
  wr, rd,    \* [Ids -> [Dirs -> Nat]]: bytes committed / bytes read so far per stream
  flags      \* set of strings: observations that no ServerMux variable carries

tvars == <<vars, l, pend, getting, wr, rd, flags>>

e == TraceLog[l]
Is(name) == l <= Len(TraceLog) /\ e.ev = name
Step == l' = l + 1
Keep == UNCHANGED <<pend, getting, wr, rd, flags>>
Flag(f) == flags' = flags \cup {f}
SName(i) == "S" \o ToString(i)
IpOf(x) == IF x = "<absent>" THEN "" ELSE x

TInit ==
  /\ Init /\ l = 1 /\ TLCSet(1, 1)
  /\ pend = [k \in Carriers |-> ""] /\ getting = [i \in Ids |-> FALSE]
  /\ wr = [i \in Ids |-> [d \in Dirs |-> 0]] /\ rd = [i \in Ids |-> [d \in Dirs |-> 0]]
  /\ flags = {}

TReset ==
  /\ Is("reset") /\ Step
  /\ plan' = [k \in Carriers |-> NoPlan]
  /\ cli' = [k \in Carriers |-> "idle"]
  /\ cst' = [k \in Carriers |-> "idle"] /\ sid' = [k \in Carriers |-> None]
  /\ up' = [k \in Carriers |-> NoPkt]
  /\ recvQ' = <<>> /\ outQ' = [i \in Ids |-> <<>>]
  /\ sess' = [i \in Ids |-> "none"] /\ conv' = [i \in Ids |-> None]
  /\ syn' = [i \in Ids |-> FALSE] /\ opened' = [i \in Ids |-> FALSE]
  /\ sessAddr' = [i \in Ids |-> None] /\ sessWant' = [i \in Ids |-> None]
  /\ accepted' = <<>> /\ sets' = <<>>
  /\ misDown' = FALSE /\ misGot' = FALSE /\ expired' = 0
  /\ pend' = [k \in Carriers |-> ""] /\ getting' = [i \in Ids |-> FALSE]
  /\ wr' = [i \in Ids |-> [d \in Dirs |-> 0]] /\ rd' = [i \in Ids |-> [d \in Dirs |-> 0]]
  /\ flags' = {}

(* Events that carry nothing the model needs. *)
Skipped == {"app.stall", "app.resume", "app.mismatch", "car.hello", "srv.stream", "app.done", "stall", "car.refused", "ses.over"}
TSkip == l <= Len(TraceLog) /\ e.ev \in Skipped /\ Step /\ UNCHANGED vars /\ Keep

TSesStart ==
  /\ Is("ses.start") /\ Step
  /\ wr' = [wr EXCEPT ![e.id] = IF e.bad = "" THEN [up |-> e.up, down |-> e.down] ELSE [up |-> 0, down |-> 0]]
  /\ UNCHANGED <<vars, pend, getting, rd, flags>>

TCarOpen ==
  /\ Is("car.open") /\ Step
  /\ CarrierOpen(e.k, [pres |-> e.pres, ip |-> IpOf(e.ip), hello |-> e.hello])
  /\ Keep

(* The client end of the carrier is gone or unreachable: the forwarder's
   fault (any kind: nothing gets through afterwards) or the client's own
   close.  The byte class is irrelevant once slots are bypassed. *)
TClientGone ==
  /\ (Is("car.fault") \/ Is("car.end")) /\ Step
  /\ cli' = [cli EXCEPT ![e.k] = IF @ = "idle" THEN @ ELSE "dead"]
  /\ UNCHANGED <<plan, cst, sid, up, recvQ, outQ, kcpVars, sets, flagVars, expired>> /\ Keep

(* The client saw the server close a carrier that presented a bad token. *)
TSrvClosed ==
  /\ Is("car.srvclosed") /\ Step
  /\ cst[e.k] = "open" /\ TokenCheck(e.k) /\ cst'[e.k] = "closed"
  /\ Keep
TNotClosed ==
  /\ Is("car.notclosed") /\ Step /\ Flag("tokenless carrier not closed") /\ UNCHANGED <<vars, pend, getting, wr, rd>>

(* srv.attach: the handler has read token and ClientID and is about to call
   Set(id, addr). *)
TAttach ==
  /\ Is("srv.attach") /\ Step
  /\ IF e.id \in Ids
       THEN /\ cst[e.k] = "open"
            /\ sid' = [sid EXCEPT ![e.k] = e.id] /\ cst' = [cst EXCEPT ![e.k] = "id"]
            /\ pend' = [pend EXCEPT ![e.k] = e.addr]
            /\ UNCHANGED <<plan, cli, up, recvQ, outQ, kcpVars, sets, flagVars, expired, getting, wr, rd, flags>>
       ELSE Flag("handler attached an unknown ClientID") /\ UNCHANGED <<vars, pend, getting, wr, rd>>

TSetSilent(k) == cst[k] = "id" /\ SetAddr(k, pend[k]) /\ UNCHANGED l /\ Keep
TAttached ==
  /\ Is("srv.attached") /\ Step
  /\ IF e.id \notin Ids THEN UNCHANGED vars
     ELSE IF cst[e.k] = "id" THEN SetAddr(e.k, pend[e.k])
     ELSE cst[e.k] \in {"att", "closed"} /\ UNCHANGED vars
  /\ Keep

Drift(k, id) == IF id = sid[k] THEN flags ELSE flags \cup {"handler changed its ClientID"}
Owner(own) == IF own >= 0 THEN SName(own) ELSE IF own = -2 THEN "other-scenario" ELSE "unknown"
(* own = -3: the scenario gave its sessions the same KCP conversation id, so
   the packet cannot be attributed by content; it is taken to be the carrier's
   own (attribution is then judged by the byte streams alone). *)
OwnerOn(own, k) == IF own = -3 THEN pres(k) ELSE Owner(own)

(* srv.in: UpFrame ; QueueIncoming(k, id) ; KcpInput on a packet whose owner
   is `own`.  The segment number is not logged; every packet is treated as a
   potential first segment (only matters for a mis-tagged packet). *)
TSrvIn ==
  /\ Is("srv.in") /\ Step
  /\ cst[e.k] = "att"
  /\ flags' = Drift(e.k, e.id) \cup
              (IF e.id \in Ids /\ e.id # pres(e.k) THEN {"TagIsPresented"} ELSE {}) \cup
              (IF e.id \notin Ids THEN {"packet queued under an unknown ClientID"} ELSE {})
  /\ IF e.id \in Ids /\ e.own # -1
       THEN LET t == e.id  o == OwnerOn(e.own, e.k) IN
            IF sess[t] = "none" \/ o # conv[t]
              THEN /\ sess' = [sess EXCEPT ![t] = "new"]
                   /\ conv' = [conv EXCEPT ![t] = o]
                   /\ syn' = [syn EXCEPT ![t] = TRUE]
                   /\ opened' = [opened EXCEPT ![t] = FALSE]
              ELSE UNCHANGED <<sess, conv, syn, opened>>
       ELSE UNCHANGED <<sess, conv, syn, opened>>
  /\ UNCHANGED <<carrierVars, recvQ, outQ, sessAddr, sessWant, accepted, sets, flagVars, expired, pend, getting, wr, rd>>

(* srv.out: KcpOutput(id) ; DownFrame(k, id) on a packet whose owner is `own`. *)
TSrvOut ==
  /\ Is("srv.out") /\ Step
  /\ cst[e.k] = "att"
  /\ flags' = Drift(e.k, e.id)
  /\ misDown' = (misDown \/ OwnerOn(e.own, e.k) # pres(e.k))
  /\ misGot' = (misGot \/ (cli[e.k] = "live" /\ OwnerOn(e.own, e.k) # pres(e.k)))
  /\ UNCHANGED <<carrierVars, recvQ, outQ, kcpVars, sets, expired, pend, getting, wr, rd>>

TDetach ==
  /\ Is("srv.detach") /\ Step
  /\ cst[e.k] \in {"id", "att", "closed"} /\ Close(e.k)
  /\ UNCHANGED <<plan, cli, sid, up, recvQ, outQ, kcpVars, sets, flagVars, expired>> /\ Keep

(* srv.session: acceptStreams entered, Get not yet called. *)
TSession ==
  /\ Is("srv.session") /\ Step
  /\ e.id \in Ids /\ sess[e.id] = "new"
  /\ getting' = [getting EXCEPT ![e.id] = TRUE]
  /\ UNCHANGED <<vars, pend, wr, rd, flags>>

NextAcceptOf(id) == CHOOSE j \in l..Len(TraceLog) :
                       /\ TraceLog[j].ev = "srv.accept" /\ TraceLog[j].id = id
                       /\ \A m \in l..(j - 1) : ~(TraceLog[m].ev = "srv.accept" /\ TraceLog[m].id = id)
HasAccept(id) == \E j \in l..Len(TraceLog) : TraceLog[j].ev = "srv.accept" /\ TraceLog[j].id = id
TGetSilent(id) ==
  /\ getting[id] /\ sess[id] = "new" /\ l <= Len(TraceLog) /\ HasAccept(id)
  /\ TraceLog[NextAcceptOf(id)].addr = RingGet(id)      \* a placement that does not explain the logged value dies here
  /\ GetAddr(id, AddrFor(id))
  /\ getting' = [getting EXCEPT ![id] = FALSE]
  /\ UNCHANGED <<l, pend, wr, rd, flags>>
TAcceptKcp ==
  /\ Is("srv.accept") /\ Step
  /\ e.id \in Ids
  /\ IF getting[e.id] /\ sess[e.id] = "new"
       THEN e.addr = RingGet(e.id) /\ GetAddr(e.id, AddrFor(e.id)) /\ getting' = [getting EXCEPT ![e.id] = FALSE]
       ELSE sess[e.id] = "est" /\ sessAddr[e.id] = (IF e.addr = NoAddr THEN "" ELSE e.addr) /\ UNCHANGED <<vars, getting>>
  /\ UNCHANGED <<pend, wr, rd, flags>>

(* app.accept: Accept() returned a connection; its RemoteAddr() is e.addr
   ("<nil>" when it is a nil net.Addr).  srv.accept logs the RESULT OF THE
   LOOKUP (NoAddr = not found); the session's address is AddrFor: that result,
   or "" when nothing was found. *)
TAccept ==
  /\ Is("app.accept") /\ Step
  /\ e.id \in Ids /\ sess[e.id] = "est"
  /\ opened' = [opened EXCEPT ![e.id] = TRUE]
  /\ accepted' = Append(accepted, [id |-> e.id, addr |-> e.addr, want |-> sessWant[e.id]])
  /\ flags' = IF e.addr = sessAddr[e.id] THEN flags ELSE flags \cup {"RemoteAddr differs from the address looked up"}
  /\ UNCHANGED <<carrierVars, recvQ, outQ, sess, conv, syn, sessAddr, sessWant, sets, flagVars, expired, pend, getting, wr, rd>>

(* app.addr: RemoteAddr() of a connection accepted for the session was read
   again at a later moment (e.when: after a later carrier presenting the same
   ClientID attached, when the streams were complete, after probe carriers with
   another / no / an invalid client_ip, for a later stream of the session,
   after eviction pressure on the bounded memory).  The property fixes the
   address at session establishment: sessAddr[id] is that history (the result
   of the lookup in acceptStreams, "" when nothing was found), and every later
   read must equal it - whatever has been Set for the ClientID since, and
   whether or not the memory still remembers it. *)
TAddrRead ==
  /\ Is("app.addr") /\ Step
  /\ e.id \in Ids /\ sess[e.id] = "est"
  /\ flags' = IF e.addr = sessAddr[e.id] THEN flags
              ELSE flags \cup {"RemoteAddr read later (" \o e.when \o ") differs from the address fixed when the session was established"}
  /\ UNCHANGED <<vars, pend, getting, wr, rd>>

(* app.read: n bytes were read at offset off of stream (s, d); ok = they equal
   the keyed stream of that session and direction at that offset. *)
TRead ==
  /\ Is("app.read") /\ Step
  /\ LET id == SName(e.s) IN
       /\ rd' = [rd EXCEPT ![id][e.d] = @ + e.n]
       /\ flags' = flags \cup (IF e.ok /\ e.off = rd[id][e.d] /\ e.off + e.n <= wr[id][e.d] THEN {}
                               ELSE {"bytes read are not a prefix of the session's stream"})
  /\ UNCHANGED <<vars, pend, getting, wr>>

(* An application-level error or a redial layer that gave up. *)
TAppErr ==
  /\ (Is("app.rerr") \/ Is("app.werr") \/ Is("cli.dead")) /\ Step
  /\ Flag(e.ev) /\ UNCHANGED <<vars, pend, getting, wr, rd>>

(* end: when the driver saw every stream complete, every byte committed must
   have been read. *)
TEnd ==
  /\ Is("end") /\ Step
  /\ flags' = IF e.done /\ \E i \in Ids, d \in Dirs : rd[i][d] # wr[i][d]
                THEN flags \cup {"stream reported complete but bytes are missing"} ELSE flags
  /\ UNCHANGED <<vars, pend, getting, wr, rd>>

(* srv.flood: n carriers outside the scenario's bookkeeping attached, each
   with a ClientID of its own (the rig counted them at their srv.attached
   hook): n further Set calls on the address memory. *)
TFlood ==
  /\ Is("srv.flood") /\ Step
  /\ sets' = sets \o [j \in 1..e.n |-> [id |-> "flood", addr |-> "203.0.113.77:1", k |-> 0]]
  /\ UNCHANGED <<carrierVars, recvQ, outQ, kcpVars, flagVars, expired>> /\ Keep

(* cli.pkt / srv.pkt: packets read from the carrier by the client's redial layer
   (hook ex.read) / by the server's handler (hook srv.in); known = the driver
   found the very same packet among those the other end wrote towards the
   carrier (hooks srv.out / ex.write).  The carrier is a reliable ordered byte
   stream and the framing restarts on every carrier, so every packet read is
   one that the peer wrote: anything else is a chunk nobody wrote (framing
   lost, bytes dropped or mixed below the packet layer). *)
TPkt ==
  /\ (Is("cli.pkt") \/ Is("srv.pkt")) /\ Step
  /\ flags' = IF e.known THEN flags ELSE flags \cup {"a packet was read from the carrier that the peer never wrote"}
  /\ UNCHANGED <<vars, pend, getting, wr, rd>>

TNext ==
  \/ TPkt \/ TFlood \/ TEnd \/ TReset \/ TSkip \/ TSesStart \/ TCarOpen \/ TClientGone \/ TSrvClosed \/ TNotClosed
  \/ TAttach \/ TAttached \/ TSrvIn \/ TSrvOut \/ TDetach
  \/ TSession \/ TAcceptKcp \/ TAccept \/ TAddrRead \/ TRead \/ TAppErr
  \/ \E k \in Carriers : TSetSilent(k)
  \/ \E id \in Ids : TGetSilent(id)

TSpec == TInit /\ [][TNext]_tvars

-----------------------------------------------------------------------------
(* High-water mark and acceptance. *)
Mark == TLCSet(1, IF l > TLCGet(1) THEN l ELSE TLCGet(1))
Accepted ==
  \/ TLCGet(1) = Len(TraceLog) + 1
  \/ Print(<<"UNEXPLAINED", TLCGet(1), IF TLCGet(1) <= Len(TraceLog) THEN TraceLog[TLCGet(1)] ELSE "eof">>, FALSE)

(* Trace-level properties in addition to those of ServerMux. *)
NoFlags == flags = {}
=============================================================================
