CONSTANTS
  Ids = {"A", "B"}
  Carriers = {1, 2, 3, 4, 5}
  Plan <- PlanFive
  Segs = {1}
  QCap = 1
  RingCap = 3
  MaxExpire = 0
SPECIFICATION Spec
INVARIANTS TypeOK TagIsPresented NoForeignInput DownOnlyToSameID OneAcceptPerSession NoTokenNoConn SetIsSanitised RemoteAddrRight

CHECK_DEADLOCK FALSE
