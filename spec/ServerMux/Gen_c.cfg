CONSTANTS
  Ids = {"A", "B"}
  Carriers = {1, 2, 3, 4, 5, 6, 7}
  Plan <- GenPlan
  GenIPs <- IPSeqC
  MaxLive = 2
  Segs = {1, 2}
  QCap = 1
  RingCap = 8
  MaxExpire = 2
SPECIFICATION GenSpec
INVARIANTS TagIsPresented NoForeignInput DownOnlyToSameID OneAcceptPerSession NoTokenNoConn SetIsSanitised RemoteAddrRight
CHECK_DEADLOCK FALSE
