CONSTANTS
  Ids = {"A", "B"}
  Carriers = {1, 2}
  Plan <- PlanTwo
  Segs = {1, 2}
  QCap = 1
  RingCap = 1
  MaxExpire = 1
SPECIFICATION Spec
INVARIANTS TypeOK TagIsPresented NoForeignInput DownOnlyToSameID OneAcceptPerSession NoTokenNoConn SetIsSanitised RemoteAddrRight

PROPERTIES SessionPersists
CHECK_DEADLOCK FALSE
