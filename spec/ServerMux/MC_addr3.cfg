CONSTANTS
  Ids = {"A"}
  Carriers = {1, 2, 3}
  Plan <- PlanAddr3
  Segs = {1}
  QCap = 1
  RingCap = 2
  MaxExpire = 0
SPECIFICATION Spec
INVARIANTS TypeOK TagIsPresented NoForeignInput DownOnlyToSameID OneAcceptPerSession NoTokenNoConn SetIsSanitised RemoteAddrRight

CHECK_DEADLOCK FALSE
