------------------------------ MODULE CacheURL ------------------------------
(* common/amp/cache.go: the AMP cache URL of a publisher (broker) URL.

   Part 1, the domain prefix.  A domain is a sequence of abstract CHARACTERS
   [c |-> class, i |-> index in the input]; classes
       "a"  an ASCII letter          "-"  hyphen          "."  dot
       "u2" "u3" "u4"  one non-ASCII character of 2, 3, 4 UTF-8 bytes
       "0"  the digit zero (only ever inserted by step 4)
   Basic(dom) follows the text of the AMP specification literally
   (https://amp.dev/documentation/guides-and-tutorials/learn/amp-caches-and-cors/amp-cache-urls/):
     1. Punycode Decode the publisher domain.            (left to the library)
     2. Replace any "-" (hyphen) character with "--".
     3. Replace any "." (dot) character with "-".
     4. If the output of step 3 has a "-" at both POSITIONS 3 and 4, add a
        prefix of "0-" and a suffix of "-0".             (positions of characters)
     5. Punycode Encode the output.                      (left to the library)
   The result is   Puny(Basic(dom))  if that is a valid DNS label (at most 63
   bytes), else  Fallback(dom) = base32(SHA-256(dom)).   Puny, SHA-256 and
   base32 are uninterpreted here; the Go driver takes them from
   golang.org/x/net/idna and the standard library.  For all-ASCII domains
   Puny is the identity and the model decides basic/fallback itself.

   Part 2, the URL.  Publisher and cache URLs are records of component
   classes; paths are sequences of segment classes
       "n" a name   "e" a name with escapes (my%2Fpath)   "d" .   "dd" ..
       "z" the empty segment (//)   "edd" %2e%2e (an escaped .., an ordinary name)
   Contract: scheme, userinfo and port of the cache; host = prefix "." cache
   host; path = Clean(cache path) / content type / [s] / publisher host /
   Clean(publisher path); query and fragment of the publisher.  Clean is
   path.Clean on rooted paths, the normalisation the repository's own tests
   document (dot segments resolved, empty segments and the trailing slash
   dropped); a ".." that would climb above the publisher's root is dropped
   there (RFC 3986 5.2.4), it never removes the /c[/s]/host/ prefix.

   DON'T-CARE:
   * a character of 4 UTF-8 bytes before position 4: "position" counted in
     characters (the text) and in UTF-16 units (the reference implementation
     amp-toolbox, String.charAt) differ; where the two readings disagree on
     step 4 both prefixes are accepted (wrap = "either");
   * publisher URLs that have no faithful cache form (scheme other than
     http/https, non-default port, userinfo, empty host), an empty content
     type, and cache URLs with a query or fragment: error or anything else
     (class "any"); only the absence of a panic is required;
   * how the publisher host is escaped inside the path (compared unescaped). *)
EXTENDS Integers, Sequences, FiniteSets, TLC, Json

CONSTANTS Mode,      \* "prefix" | "url"
          MaxLead    \* "prefix": maximum number of leading characters enumerated

Ch(c, i) == [c |-> c, i |-> i]
Hy == Ch("-", 0)          \* an inserted hyphen
Ze == Ch("0", 0)          \* an inserted zero

RECURSIVE Step2From(_, _)
Step2From(s, j) == IF j > Len(s) THEN <<>> ELSE (IF s[j].c = "-" THEN <<s[j], Hy>> ELSE <<s[j]>>) \o Step2From(s, j + 1)
Step2(s) == Step2From(s, 1)
Step3(s) == [j \in DOMAIN s |-> IF s[j].c = "." THEN Hy ELSE s[j]]
HyAt34(s) == Len(s) >= 4 /\ s[3].c = "-" /\ s[4].c = "-"
Wrapped(s) == <<Ze, Hy>> \o s \o <<Hy, Ze>>
Step4(s) == IF HyAt34(s) THEN Wrapped(s) ELSE s
Basic(dom) == Step4(Step3(Step2(dom)))

(* the same positions counted in UTF-16 code units (a u4 character is two units) *)
RECURSIVE UnitsFrom(_, _)
UnitsFrom(s, j) == IF j > Len(s) THEN <<>> ELSE (IF s[j].c = "u4" THEN <<s[j], s[j]>> ELSE <<s[j]>>) \o UnitsFrom(s, j + 1)
Units(s) == UnitsFrom(s, 1)
Basic16(dom) == LET s == Step3(Step2(dom)) IN IF HyAt34(Units(s)) THEN Wrapped(s) ELSE s

Ascii(s) == \A j \in DOMAIN s : s[j].c \in {"a", "-", ".", "0"}
MaxLabel == 63

PrefixExpect(dom) ==
  LET p == Basic(dom) p16 == Basic16(dom) IN
  [pre |-> p, pre16 |-> IF p16 = p THEN <<>> ELSE p16,      \* pre16 only where the UTF-16 reading differs
   wrap |-> IF p # p16 THEN "either" ELSE IF HyAt34(Step3(Step2(dom))) THEN "yes" ELSE "no",
   \* "basic"/"fallback" where the model can count the bytes itself, else the driver measures Puny(pre)
   alg |-> IF Ascii(dom) THEN (IF Len(p) <= MaxLabel THEN "basic" ELSE "fallback") ELSE "by-length",
   len |-> IF Ascii(dom) THEN Len(p) ELSE -1]

(* properties of the algorithm itself, checked on every enumerated domain *)
NoDotLeft(dom) == \A j \in DOMAIN Basic(dom) : Basic(dom)[j].c # "."
WrapIffHy34(dom) == (Basic(dom)[1] = Ze) <=> HyAt34(Step3(Step2(dom)))
KeepsChars(dom) ==                               \* every input character other than a dot survives, in order
  SelectSeq(Basic(dom), LAMBDA ch : ch.i # 0) = SelectSeq(Step3(dom), LAMBDA ch : ch.i # 0)

-----------------------------------------------------------------------------
(* Domains of the prefix cases: a lead of 1..MaxLead characters, then a rest. *)
LeadClasses == {"a", "-", ".", "u2", "u3", "u4"}
Leads == {l \in UNION {[1..n -> LeadClasses] : n \in 1..MaxLead} :
            /\ l[1] # "." /\ l[Len(l)] # "."
            /\ \A j \in 1..(Len(l) - 1) : ~(l[j] = "." /\ l[j + 1] = ".")}
Rep(c, n) == [j \in 1..n |-> c]
Com == <<".", "a", "a", "a">>
RestOf(name) ==
  CASE name = "com" -> Com
    [] name = "hyph" -> <<"a", "-", "a">> \o Com
    [] name = "sub" -> <<"a", ".", "a", "a">> \o Com
    [] name = "long" -> Rep("a", 70) \o Com
    [] name = "longidn" -> Rep("u2", 30) \o Com
    [] name = "idn" -> <<"u3", "a">> \o Com
RestNames == {"com", "hyph", "sub", "long", "longidn", "idn"}
Index(cl) == [j \in DOMAIN cl |-> Ch(cl[j], j)]
(* all-ASCII leads are also padded with letters so that Basic has exactly n bytes *)
FitRest(lead, n) ==      \* with four letters after the lead, more letters add one byte each and cannot change step 4
  LET b == Len(Basic(Index(lead \o Rep("a", 4) \o Com)))
      k == n - b + 4
  IN IF k >= 4 THEN Rep("a", k) \o Com ELSE <<>>
AsciiLead(l) == \A j \in DOMAIN l : l[j] \in {"a", "-", "."}

-----------------------------------------------------------------------------
(* Part 2: URLs. *)
SegClasses == {"n", "e", "d", "dd", "z", "edd"}
Seg(src, c, j) == [src |-> src, c |-> c, j |-> j]
IndexPath(src, p) == [j \in DOMAIN p |-> Seg(src, p[j], j)]

RECURSIVE CleanFrom(_, _, _)
CleanFrom(p, j, acc) ==
  IF j > Len(p) THEN acc
  ELSE IF p[j].c \in {"d", "z"} THEN CleanFrom(p, j + 1, acc)
  ELSE IF p[j].c = "dd" THEN CleanFrom(p, j + 1, IF acc = <<>> THEN acc ELSE SubSeq(acc, 1, Len(acc) - 1))
  ELSE CleanFrom(p, j + 1, Append(acc, p[j]))
Clean(p) == CleanFrom(p, 1, <<>>)
(* some ".." of p would climb above the root (and is dropped by Clean) *)
RECURSIVE ClimbsFrom(_, _, _)
ClimbsFrom(p, j, depth) ==
  IF j > Len(p) THEN FALSE
  ELSE IF p[j] \in {"d", "z"} THEN ClimbsFrom(p, j + 1, depth)
  ELSE IF p[j] = "dd" THEN (depth = 0 \/ ClimbsFrom(p, j + 1, depth - 1))
  ELSE ClimbsFrom(p, j + 1, depth + 1)
Climbs(p) == ClimbsFrom(p, 1, 0)

HostDoms ==      \* host classes of the URL cases, as domains
  [plain |-> Index(<<"a", "a", "a", "a", "a", ".", "a", "a", "a">>),
   hyph34 |-> Index(<<"a", "a", "-", "a", "a", ".", "a", "a", "a">>),
   idn |-> Index(<<"u2", "-", "a", "a", ".", "a", "a", "a">>),
   idn2 |-> Index(<<"u2", "u2", "-", "a", ".", "a", "a", "a">>),
   empty |-> <<>>]

Pub(scheme, host, port, user, path, trail, query, frag) ==
  [scheme |-> scheme, host |-> host, port |-> port, user |-> user, path |-> path, trail |-> trail, query |-> query, frag |-> frag]
Cache(scheme, port, user, path, trail, query, frag) ==
  [scheme |-> scheme, port |-> port, user |-> user, path |-> path, trail |-> trail, query |-> query, frag |-> frag]

Faithful(pub, cache, ct) ==
  /\ pub.scheme \in {"http", "https"} /\ pub.port \in {"none", "default"} /\ pub.user = "none" /\ pub.host # "empty"
  /\ cache.query = "none" /\ cache.frag = "none" /\ ct # "empty"

URLExpect(pub, cache, ct) ==
  IF ~Faithful(pub, cache, ct) THEN [class |-> "any"]
  ELSE [class |-> "url",
        scheme |-> cache.scheme, user |-> cache.user, port |-> cache.port,
        prefix |-> PrefixExpect(HostDoms[pub.host]),
        path |-> Clean(IndexPath("cache", cache.path)) \o <<Seg("ct", ct, 0)>>
                 \o (IF pub.scheme = "https" THEN <<Seg("s", "s", 0)>> ELSE <<>>)
                 \o <<Seg("host", pub.host, 0)>> \o Clean(IndexPath("pub", pub.path)),
        query |-> pub.query, frag |-> pub.frag,
        climbs |-> Climbs(pub.path)]            \* (names the case class in a report)

(* the clause of the property, as a statement about the contract *)
UnderPrefix(pub, cache, ct) ==
  Faithful(pub, cache, ct) =>
    LET e == URLExpect(pub, cache, ct).path
        k == CHOOSE k \in DOMAIN e : e[k].src = "host" IN
    /\ \A j \in 1..(k - 1) : e[j].src \in {"cache", "ct", "s"}
    /\ \A j \in (k + 1)..Len(e) : e[j].src = "pub" /\ e[j].c \notin {"d", "dd", "z"}
    /\ SubSeq(e, k + 1, Len(e)) = Clean(IndexPath("pub", pub.path))

Paths(n) == UNION {[1..k -> SegClasses] : k \in 0..n}
DefaultPub == Pub("https", "plain", "none", "none", <<"n">>, FALSE, "none", "none")
DefaultCache == Cache("https", "none", "none", <<>>, TRUE, "none", "none")

URLCases ==
  \* (a) paths: every publisher path of up to 3 segments, against four cache paths
  {[pub |-> [DefaultPub EXCEPT !.path = p, !.trail = t, !.scheme = s], cache |-> [DefaultCache EXCEPT !.path = cp[1], !.trail = cp[2]], ct |-> "c"] :
      p \in Paths(3), t \in BOOLEAN, s \in {"http", "https"},
      cp \in {<< <<>>, TRUE >>, << <<"n">>, FALSE >>, << <<"n", "dd", "dd", "n", "e">>, TRUE >>, << <<"dd", "z", "n">>, TRUE >>}}
  \cup
  \* (b) authority: schemes, ports, userinfo, host classes, cache authority, content types
  {[pub |-> [DefaultPub EXCEPT !.scheme = s, !.host = h, !.port = po, !.user = u], cache |-> [DefaultCache EXCEPT !.scheme = cs, !.port = cpo, !.user = cu], ct |-> ct] :
      s \in {"http", "https", "ftp", "none"}, h \in {"plain", "hyph34", "idn", "idn2", "empty"}, po \in {"none", "default", "other"},
      u \in {"none", "user", "userpass"}, cs \in {"http", "https"}, cpo \in {"none", "p123"}, cu \in {"none", "cuser"},
      ct \in {"c", "i", "slash", "empty"}}
  \cup
  \* (c) query and fragment
  {[pub |-> [DefaultPub EXCEPT !.query = q, !.frag = f, !.path = p, !.host = h], cache |-> [DefaultCache EXCEPT !.query = cq, !.frag = cf, !.path = cp], ct |-> "c"] :
      q \in {"none", "simple", "escaped", "slashes"}, f \in {"none", "frag"}, p \in {<<>>, <<"n">>, <<"e", "n">>}, h \in {"plain", "idn"},
      cq \in {"none", "q"}, cf \in {"none", "f"}, cp \in {<<>>, <<"n">>}}

-----------------------------------------------------------------------------
VARIABLES cs
vars == <<cs>>

Init ==
  \/ /\ Mode = "prefix"
     /\ \E l \in Leads :
          \/ \E r \in RestNames, form \in {"unicode", "ace"} :
               /\ (form = "ace" => ~Ascii(Index(l \o RestOf(r))))     \* the ACE form differs only for IDNs
               /\ (r \in {"long", "longidn"} => Len(l) <= 2)          \* the long rests only decide basic/fallback
               /\ cs = [dom |-> Index(l \o RestOf(r)), form |-> form, rest |-> r]
          \/ \E n \in {62, 63, 64, 65} :
               /\ AsciiLead(l) /\ Len(l) <= 3 /\ FitRest(l, n) # <<>>
               /\ cs = [dom |-> Index(l \o FitRest(l, n)), form |-> "unicode", rest |-> "fit"]
  \/ /\ Mode = "url"
     /\ \E c \in URLCases : cs = c
Stutter == UNCHANGED vars

PrefixProps == Mode = "prefix" => NoDotLeft(cs.dom) /\ WrapIffHy34(cs.dom) /\ KeepsChars(cs.dom)
URLProps == Mode = "url" => UnderPrefix(cs.pub, cs.cache, cs.ct)

Emit ==
  IF Mode = "prefix" THEN PrintT(ToJson([dom |-> cs.dom, form |-> cs.form, rest |-> cs.rest, expect |-> PrefixExpect(cs.dom)]))
  ELSE PrintT(ToJson([pub |-> cs.pub, cache |-> cs.cache, ct |-> cs.ct,
                      dom |-> HostDoms[cs.pub.host], expect |-> URLExpect(cs.pub, cs.cache, cs.ct)]))
=============================================================================
