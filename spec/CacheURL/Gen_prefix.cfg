CONSTANTS
  Mode = "prefix"
  MaxLead = 5
INIT Init
NEXT Stutter
INVARIANTS PrefixProps Emit
CHECK_DEADLOCK FALSE
