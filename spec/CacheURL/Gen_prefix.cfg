CONSTANTS
  Mode = "prefix"
  MaxLead = 4
INIT Init
NEXT Stutter
INVARIANTS PrefixProps Emit
CHECK_DEADLOCK FALSE
