CONSTANTS
  Mode = "url"
  MaxLead = 1
INIT Init
NEXT Stutter
INVARIANTS URLProps Emit
CHECK_DEADLOCK FALSE
