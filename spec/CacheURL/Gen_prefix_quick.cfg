CONSTANTS
  Mode = "prefix"
  MaxLead = 3
INIT Init
NEXT Stutter
INVARIANTS PrefixProps Emit
CHECK_DEADLOCK FALSE
