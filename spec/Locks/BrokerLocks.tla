----------------------------- MODULE BrokerLocks -----------------------------
(* Lock discipline of the broker's shared state (C20, in-family part).

   Sites is the table of critical sections and lock-free accesses of
   broker/broker.go, ipc.go, metrics.go, prometheus.go: which shared variables
   each touches, how (R/W), which locks are held, and whether the access is a
   single atomic operation.  Two goroutines execute sites concurrently; each
   access is split into Begin/End so that two of them can overlap.  TLC checks
   NoConcurrentConflict: no reachable state has two goroutines inside
   conflicting accesses (same variable, at least one write, not both atomic)
   without a common lock.

   The table is bound to the code by the `locked` probes of the hooked sites:
   every event logged inside a critical section carries the result of a
   TryLock on the lock this table names, and Broker_Trace (RequireLocked =
   TRUE) rejects an execution in which the lock was not held. *)
EXTENDS Integers, FiniteSets, TLC

CONSTANT Fixed   \* TRUE: the tree with the D13 repairs; FALSE: the pinned tree

S(name, vars, kind, locks, atomic, hook) == [name |-> name, vars |-> vars, kind |-> kind, locks |-> locks, atomic |-> atomic, hook |-> hook]
Sites ==
  { S("AddSnowflake",           {"heaps", "idmap", "gauge"}, "W", {"snowflakeLock"}, FALSE, "add"),
    S("Broker.timeout",         {"heaps", "idmap", "gauge"}, "W", {"snowflakeLock"}, FALSE, "w.locked"),
    S("matchSnowflake",         {"heaps"},                   "W", {"snowflakeLock"}, FALSE, "c.match"),
    S("ClientOffers.cleanup",   {"idmap", "gauge"},          "W", {"snowflakeLock"}, FALSE, "c.cleanup"),
    S("ProxyAnswers.lookup",    {"idmap"},                   "R", {"snowflakeLock"}, FALSE, "a.lookup"),
    S("Debug",                  {"idmap"},                   "R", {"snowflakeLock"}, FALSE, "none"),
    S("ProxyPolls.counters",    {"counters", "addrsets"},    "W", {"metricsLock"},   FALSE, "m.locked"),
    S("UpdateCountryStats",     {"geoipdb"},                 "R", {"metricsLock"},   FALSE, "m.locked"),
    S("LoadGeoipDatabases",     {"geoipdb"},                 "W", IF Fixed THEN {"metricsLock"} ELSE {}, FALSE, "none"),
    S("ClientOffers.counters",  {"counters"},                "W", {"metricsLock"},   FALSE, "m.locked"),
    S("ClientOffers.roundtrip", {"roundtrip"},               "W", IF Fixed THEN {"metricsLock"} ELSE {}, FALSE, "m.locked"),
    S("printMetrics",           {"counters", "addrsets"},    "R", {"metricsLock"},   FALSE, "m.locked"),
    S("zeroMetrics",            {"counters", "addrsets"},    "W", IF Fixed THEN {"metricsLock"} ELSE {}, FALSE, "m.locked"),
    S("roundedCounter.Inc",     {"rounded"},                 "W", {},                Fixed, "none"),
    S("roundedCounter.Write",   {"rounded"},                 "R", {},                Fixed, "none"),
    S("ProxyPolls.matchedInc",  {"rounded"},                 "W", {},                Fixed, "none") }

Procs == {1, 2}
VARIABLE in   \* in[p] = the site goroutine p is inside, or "idle"
Init == in = [p \in Procs |-> "idle"]
Begin(p, s) == in[p] = "idle" /\ in' = [in EXCEPT ![p] = s.name]
              \* a lock is exclusive: p cannot enter while the other goroutine holds one of the locks s needs
              /\ \A q \in Procs \ {p} : in[q] = "idle" \/ (CHOOSE t \in Sites : t.name = in[q]).locks \cap s.locks = {}
End(p) == in[p] # "idle" /\ in' = [in EXCEPT ![p] = "idle"]
Next == \E p \in Procs : End(p) \/ \E s \in Sites : Begin(p, s)

SiteOf(n) == CHOOSE t \in Sites : t.name = n
Conflict(a, b) == /\ a.vars \cap b.vars # {} /\ (a.kind = "W" \/ b.kind = "W") /\ ~(a.atomic /\ b.atomic)
NoConcurrentConflict ==
  \A p, q \in Procs : (p # q /\ in[p] # "idle" /\ in[q] # "idle") => ~Conflict(SiteOf(in[p]), SiteOf(in[q]))
=============================================================================
