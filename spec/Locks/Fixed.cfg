CONSTANT Fixed = TRUE
INIT Init
NEXT Next
INVARIANT NoConcurrentConflict
CHECK_DEADLOCK FALSE
