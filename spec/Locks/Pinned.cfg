CONSTANT Fixed = FALSE
INIT Init
NEXT Next
INVARIANT NoConcurrentConflict
CHECK_DEADLOCK FALSE
