CONSTANTS
  Sessions = {"A", "B"}
  Carriers = {1, 2, 3, 4}
  NUp = 1
  NDown = 1
  MaxFaults = 2
  MaxDrops = 1
  MaxStalls = 0
SPECIFICATION FairSpec
INVARIANTS TypeOK PrefixDelivered OnlyOwnSegments OneAcceptPerSession OneCurrent NeverDead
PROPERTIES NoLossBeforeFraming EventuallyDelivered
CHECK_DEADLOCK FALSE
