CONSTANTS
  Sessions = {"A", "B"}
  Carriers = {1, 2, 3, 4, 5}
  NUp = 2
  NDown = 2
  MaxFaults = 2
  MaxDrops = 0
  MaxStalls = 0
SPECIFICATION Spec
INVARIANTS TypeOK PrefixDelivered OnlyOwnSegments OneAcceptPerSession OneCurrent NeverDead

PROPERTIES NoLossBeforeFraming
CHECK_DEADLOCK FALSE
