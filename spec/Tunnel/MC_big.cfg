CONSTANTS
  Sessions = {"A", "B"}
  Carriers = {1, 2, 3, 4, 5}
  NUp = 2
  NDown = 2
  MaxFaults = 3
  AsIs_D15 = FALSE
SPECIFICATION Spec
INVARIANTS TypeOK PrefixDelivered OnlyOwnSegments OneAcceptPerSession OneCurrent DeadOnlyByD15

CHECK_DEADLOCK FALSE
