CONSTANTS
  Sessions = {"A"}
  Carriers = {1, 2}
  NUp = 1
  NDown = 1
  MaxFaults = 1
  MaxDrops = 1
  MaxStalls = 1
SPECIFICATION GenSpec
INVARIANTS TypeOK PrefixDelivered OnlyOwnSegments OneAcceptPerSession OneCurrent NeverDead
CHECK_DEADLOCK FALSE
