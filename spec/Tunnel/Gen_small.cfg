CONSTANTS
  Sessions = {"A"}
  Carriers = {1, 2}
  NUp = 1
  NDown = 1
  MaxFaults = 1
  AsIs_D15 = FALSE
SPECIFICATION GenSpec
INVARIANTS TypeOK PrefixDelivered OnlyOwnSegments OneAcceptPerSession OneCurrent DeadOnlyByD15
CHECK_DEADLOCK FALSE
