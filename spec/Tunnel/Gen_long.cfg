CONSTANTS
  Sessions = {"A"}
  Carriers = {1, 2, 3, 4, 5, 6, 7, 8, 9, 10, 11, 12, 13}
  NUp = 2
  NDown = 2
  MaxFaults = 12
  MaxDrops = 0
  MaxStalls = 0
SPECIFICATION GenSpec
INVARIANTS TypeOK PrefixDelivered OnlyOwnSegments OneAcceptPerSession OneCurrent NeverDead
CHECK_DEADLOCK FALSE
