CONSTANTS
  Sessions = {"A", "B"}
  Carriers = {1, 2, 3, 4}
  NUp = 1
  NDown = 1
  MaxFaults = 2
  AsIs_D15 = TRUE
SPECIFICATION FairSpec
INVARIANTS TypeOK PrefixDelivered OnlyOwnSegments OneAcceptPerSession OneCurrent DeadOnlyByD15
PROPERTIES EventuallyDelivered
CHECK_DEADLOCK FALSE
