----------------------------- MODULE Tunnel_Gen -----------------------------
(* Fault-schedule generation for the core rig and the system rig: Tunnel with
   nothing added but the guarantee that a behaviour is worth executing (a fault
   is only injected into a carrier that some session actually uses or is about
   to use - a cut of a pooled, never popped peer is invisible to the client).
   lib/checks/c01.py projects a behaviour onto forwarder actions: per session
   the carriers it popped in order, for each the fault (Cut before the token
   write, Cut/Freeze after so many segments with or without a segment in
   flight, half-open when the server had not detached before the next carrier
   attached), AnswerLost as refused dials, an empty pool as a dial delay. *)
EXTENDS Tunnel

(* A reserve is only killed in the pool if it is the one Pop takes next. *)
G_Cut(k) == (car[k] = "pool" => \A j \in Carriers : j < k => car[j] # "pool") /\ Cut(k)

GenNext ==
  \/ ClientNext \/ ServerNext \/ EnvNext
  \/ \E k \in Carriers : G_Cut(k) \/ Freeze(k) \/ AnswerLost(k)
GenSpec == Init /\ [][GenNext]_vars
=============================================================================
