CONSTANTS
  Sessions = {"A", "B"}
  Carriers = {1, 2, 3, 4, 5, 6, 7}
  NUp = 2
  NDown = 2
  MaxFaults = 5
  MaxDrops = 1
  MaxStalls = 1
SPECIFICATION GenSpec
INVARIANTS TypeOK PrefixDelivered OnlyOwnSegments OneAcceptPerSession OneCurrent NeverDead
CHECK_DEADLOCK FALSE
