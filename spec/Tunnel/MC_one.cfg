CONSTANTS
  Sessions = {"A"}
  Carriers = {1, 2, 3}
  NUp = 2
  NDown = 2
  MaxFaults = 2
  MaxDrops = 1
  MaxStalls = 1
SPECIFICATION FairSpec
INVARIANTS TypeOK PrefixDelivered OnlyOwnSegments OneAcceptPerSession OneCurrent NeverDead
PROPERTIES NoLossBeforeFraming EventuallyDelivered
CHECK_DEADLOCK FALSE
