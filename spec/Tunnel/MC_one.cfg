CONSTANTS
  Sessions = {"A"}
  Carriers = {1, 2, 3}
  NUp = 2
  NDown = 2
  MaxFaults = 2
  AsIs_D15 = FALSE
SPECIFICATION FairSpec
INVARIANTS TypeOK PrefixDelivered OnlyOwnSegments OneAcceptPerSession OneCurrent DeadOnlyByD15
PROPERTIES EventuallyDelivered
CHECK_DEADLOCK FALSE
