------------------------------- MODULE Tunnel -------------------------------
(* client/lib/snowflake.go (newSession: dialContext, RedialPacketConn, KCP,
   smux), client/lib/peers.go (Pop), common/turbotunnel/redialpacketconn.go,
   server/lib/http.go + snowflake.go (the ServerMux part, collapsed):
   the end-to-end byte stream of a session across proxy churn.

   What snowflake adds around the third-party reliable layer is modelled; the
   reliable layer itself (KCP + smux) is ASSUMED to be a sliding window with
   idealised acknowledgements: a segment is (re)transmitted while it is neither
   received nor in flight, the receiver delivers the in-order prefix.

   Collapsed shape (DESIGN 3.6; the naive shape exceeded 45 M states):
     * every queue and pipe is a one-place slot: the client's send queue
       csend[s], the upstream and downstream pipe of each carrier up[k] /
       down[k], the server's outgoing queue outQ[s] (a full slot still means
       "drop": the sender simply cannot enqueue);
     * at most one copy of a segment is in flight;
     * the application's writes are committed up front (upstream at start,
       downstream when the session is accepted);
     * the server side of a carrier is the ServerMux handler reduced to
       attached / not attached (token check, ClientID and address are
       ServerMux's business, spec/ServerMux);
     * the client notices a cut at once (its read fails), the server notices
       separately (SrvDetach), so a carrier can be half-open and swallow
       downstream packets; a frozen carrier is noticed by the client only
       through the staleness timer (StaleClose).

   D15 (DESIGN 7): in the pinned code a failed token/ClientID write on a
   freshly popped peer made dialContext return the error, which closed the
   RedialPacketConn for good (dead[s]); TLC found Pop -> Cut -> WriteIdFails ->
   dead as a violation of EventuallyDelivered by itself and the system rig
   reproduced it on the real client.  It is repaired in /repo (95c9a77: the
   failed peer is closed and the next one is popped), so the deviation
   constant is gone and WriteIdFails is the repaired step; dead[s] remains as
   the observable "the redial layer surfaced an error" (NeverDead).

   Don't care: which packets are lost, how often a segment is retransmitted,
   the order in which segments are sent, what a half-open carrier swallows. *)
EXTENDS Integers, FiniteSets, TLC

CONSTANTS
  Sessions,    \* e.g. {"A"} or {"A", "B"}
  Carriers,    \* 1..K: proxies the broker can ever hand out
  NUp, NDown,  \* segments written per session, upstream / downstream
  MaxFaults,   \* bound on environment faults
  MaxDrops,    \* how many queue-full drops are made explicit (they are stuttering steps otherwise)
  MaxStalls    \* how often an application stops reading for a while

None == "none"
Segs(n) == 1..n

VARIABLES
  car,      \* [Carriers -> "unborn" | "pool" | "popped" | "live" | "frozen" | "dead"]  client view of the peer
  owner,    \* [Carriers -> Sessions \cup {None}]  which session popped it
  broken,   \* [Carriers -> BOOLEAN]  the transport under it is cut (client has not yet tried to use it)
  marked,   \* [Carriers -> BOOLEAN]  ... and the client's close callback has run: WebRTCPeer.Closed() is true
  att,      \* [Carriers -> BOOLEAN]  the server's handler is attached (it read token + ClientID)
  cur,      \* [Sessions -> Carriers \cup {0}]  carrier the redial layer currently exchanges on
  dead,     \* [Sessions -> BOOLEAN]  the redial layer closed for good
  csend,    \* [Sessions -> 0..NUp]    client send queue (one place), 0 = empty
  up,       \* [Carriers -> 0..NUp]    upstream pipe of the carrier
  outQ,     \* [Sessions -> 0..NDown]  server's outgoing queue of the session
  down,     \* [Carriers -> 0..NDown]  downstream pipe of the carrier
  held,     \* [Carriers -> 0..NDown]  message the data channel has DELIVERED to the client (OnMessage) and the
            \*                         framing layer has not read yet (the synchronous pipe of WebRTCPeer)
  stall,    \* [Sessions -> SUBSET {"up", "down"}]  directions whose reading application is currently stalled
  nstall,   \* reader stalls so far
  rcvU,     \* [Sessions -> SUBSET 1..NUp]    segments the server's reliable layer has
  rcvD,     \* [Sessions -> SUBSET 1..NDown]  segments the client's reliable layer has
  acc,      \* [Sessions -> Nat]  connections accepted for the session
  nf,       \* faults so far
  ndrop     \* queue-full drops so far

vars == <<car, owner, broken, marked, att, cur, dead, csend, up, outQ, down, held, stall, nstall, rcvU, rcvD, acc, nf, ndrop>>

Init ==
  /\ car = [k \in Carriers |-> "unborn"] /\ owner = [k \in Carriers |-> None]
  /\ broken = [k \in Carriers |-> FALSE] /\ marked = [k \in Carriers |-> FALSE] /\ att = [k \in Carriers |-> FALSE]
  /\ cur = [s \in Sessions |-> 0] /\ dead = [s \in Sessions |-> FALSE]
  /\ csend = [s \in Sessions |-> 0] /\ up = [k \in Carriers |-> 0]
  /\ outQ = [s \in Sessions |-> 0] /\ down = [k \in Carriers |-> 0]
  /\ held = [k \in Carriers |-> 0] /\ stall = [s \in Sessions |-> {}] /\ nstall = 0
  /\ rcvU = [s \in Sessions |-> {}] /\ rcvD = [s \in Sessions |-> {}]
  /\ acc = [s \in Sessions |-> 0] /\ nf = 0 /\ ndrop = 0

(* The in-order prefix the reliable layer hands to the application. *)
Prefix(S, n) == IF \E m \in 0..n : (\A j \in 1..m : j \in S) /\ (m = n \/ (m + 1) \notin S)
                THEN CHOOSE m \in 0..n : (\A j \in 1..m : j \in S) /\ (m = n \/ (m + 1) \notin S) ELSE 0
DeliveredUp(s)   == Prefix(rcvU[s], NUp)
DeliveredDown(s) == Prefix(rcvD[s], NDown)

InFlightUp(s, i)   == csend[s] = i \/ \E k \in Carriers : owner[k] = s /\ up[k] = i
InFlightDown(s, i) == outQ[s] = i \/ \E k \in Carriers : owner[k] = s /\ (down[k] = i \/ held[k] = i)

-----------------------------------------------------------------------------
(* Broker and pool (client/lib/peers.go). *)

(* connectLoop + Collect: a proxy answered and its data channel opened. *)
Collect(k) ==
  /\ car[k] = "unborn" /\ \A j \in Carriers : j < k => car[j] # "unborn"
  /\ car' = [car EXCEPT ![k] = "pool"]
  /\ UNCHANGED <<owner, broken, marked, att, cur, dead, csend, up, outQ, down, held, stall, nstall, rcvU, rcvD, acc, nf, ndrop>>

(* dialContext: snowflakes.Pop() (skips peers that are already closed). *)
Pop(s, k) ==
  /\ ~dead[s] /\ cur[s] = 0 /\ car[k] = "pool" /\ ~marked[k]
  /\ \A j \in Carriers : owner[j] = s => car[j] # "popped"
  /\ \A j \in Carriers : j < k => car[j] # "pool"
  /\ car' = [car EXCEPT ![k] = "popped"] /\ owner' = [owner EXCEPT ![k] = s]
  /\ UNCHANGED <<broken, marked, att, cur, dead, csend, up, outQ, down, held, stall, nstall, rcvU, rcvD, acc, nf, ndrop>>

(* Pop's loop: `if snowflake.Closed() { continue }` - a reserve that died in
   the pool AND is already marked closed is dropped without being used. *)
PopSkip(s, k) ==
  /\ ~dead[s] /\ cur[s] = 0 /\ car[k] = "pool" /\ marked[k]
  /\ \A j \in Carriers : owner[j] = s => car[j] # "popped"
  /\ \A j \in Carriers : j < k => car[j] # "pool"
  /\ car' = [car EXCEPT ![k] = "dead"]
  /\ UNCHANGED <<owner, broken, marked, att, cur, dead, csend, up, outQ, down, held, stall, nstall, rcvU, rcvD, acc, nf, ndrop>>

(* The client's data channel OnClose callback runs some time after the
   transport died: only then is the peer MARKED closed (WebRTCPeer.Closed()).
   Until then a dead peer looks usable to Pop and fails at its first write. *)
MarkClosed(k) ==
  /\ broken[k] /\ ~marked[k] /\ car[k] \in {"pool", "popped"}
  /\ marked' = [marked EXCEPT ![k] = TRUE]
  /\ UNCHANGED <<car, owner, broken, att, cur, dead, csend, up, outQ, down, held, stall, nstall, rcvU, rcvD, acc, nf, ndrop>>

(* conn.Write(Token); conn.Write(clientID): the carrier becomes the current one
   and the server's handler attaches. *)
WriteId(s, k) ==
  /\ car[k] = "popped" /\ owner[k] = s /\ ~broken[k]
  /\ car' = [car EXCEPT ![k] = "live"] /\ cur' = [cur EXCEPT ![s] = k]
  /\ att' = [att EXCEPT ![k] = TRUE]
  /\ UNCHANGED <<owner, broken, marked, dead, csend, up, outQ, down, held, stall, nstall, rcvU, rcvD, acc, nf, ndrop>>

(* The first write on the popped peer fails: its transport died after Pop's
   closed-check (or before it, but the close callback had not run yet).  Two
   sub-cases, which the client must treat alike - close this peer and pop the
   next one; returning the error instead would close the RedialPacketConn for
   good (D15, and its narrowed variant that skips only peers already marked):
     WriteIdFailsMarked    the close callback has already marked the peer closed;
     WriteIdFailsUnmarked  the write fails while Closed() is still false. *)
WriteIdFailsEffect(s, k) ==
  /\ car[k] = "popped" /\ owner[k] = s /\ broken[k]
  /\ car' = [car EXCEPT ![k] = "dead"]
  /\ UNCHANGED <<owner, broken, marked, att, cur, dead, csend, up, outQ, down, held, stall, nstall, rcvU, rcvD, acc, nf, ndrop>>
WriteIdFailsMarked(s, k)   == marked[k] /\ WriteIdFailsEffect(s, k)
WriteIdFailsUnmarked(s, k) == ~marked[k] /\ WriteIdFailsEffect(s, k)
WriteIdFails(s, k) == WriteIdFailsMarked(s, k) \/ WriteIdFailsUnmarked(s, k)

(* WebRTCPeer.checkForStaleness: nothing received for the timeout. *)
StaleClose(s) ==
  /\ cur[s] # 0 /\ car[cur[s]] = "frozen"
  /\ car' = [car EXCEPT ![cur[s]] = "dead"] /\ cur' = [cur EXCEPT ![s] = 0]
  /\ held' = [held EXCEPT ![cur[s]] = 0]
  /\ UNCHANGED <<owner, broken, marked, att, dead, csend, up, outQ, down, stall, nstall, rcvU, rcvD, acc, nf, ndrop>>

-----------------------------------------------------------------------------
(* Packets. *)

(* The client's reliable layer (re)transmits a segment: RedialPacketConn.WriteTo. *)
ClientSend(s, i) ==
  /\ ~dead[s] /\ i \in Segs(NUp) /\ i \notin rcvU[s] /\ ~InFlightUp(s, i) /\ csend[s] = 0
  /\ csend' = [csend EXCEPT ![s] = i]
  /\ UNCHANGED <<car, owner, broken, marked, att, cur, dead, up, outQ, down, held, stall, nstall, rcvU, rcvD, acc, nf, ndrop>>

(* The send queue is full (nobody drains it: the redial layer is between two
   carriers, or the carrier is slow): RedialPacketConn.WriteTo DROPS the packet
   and reports success.  The reliable layer treats a write error as fatal, so
   "drop, never an error" is part of what keeps the stream alive across an
   outage: there is no transition from a full queue to dead[s], and the
   segment stays eligible for retransmission.  (Without the counter this is a
   stuttering step; MaxDrops makes a few of them explicit.) *)
ClientSendDrop(s, i) ==
  /\ ndrop < MaxDrops
  /\ ~dead[s] /\ i \in Segs(NUp) /\ i \notin rcvU[s] /\ ~InFlightUp(s, i) /\ csend[s] # 0
  /\ ndrop' = ndrop + 1
  /\ UNCHANGED <<car, owner, broken, marked, att, cur, dead, csend, up, outQ, down, held, stall, nstall, rcvU, rcvD, acc, nf>>

(* exchange: sendQueue -> conn.WriteTo on the current carrier (a frozen
   carrier swallows the packet). *)
CarrierUp(s) ==
  /\ csend[s] # 0 /\ cur[s] # 0 /\ up[cur[s]] = 0
  /\ up' = [up EXCEPT ![cur[s]] = IF car[cur[s]] = "live" THEN csend[s] ELSE 0]
  /\ csend' = [csend EXCEPT ![s] = 0]
  /\ UNCHANGED <<car, owner, broken, marked, att, cur, dead, outQ, down, held, stall, nstall, rcvU, rcvD, acc, nf, ndrop>>

(* ServerMux: QueueIncoming tagged with the carrier's ClientID + KcpInput. *)
ServerRecv(k) ==
  /\ att[k] /\ up[k] # 0 /\ "up" \notin stall[owner[k]]
  /\ rcvU' = [rcvU EXCEPT ![owner[k]] = @ \cup {up[k]}]
  /\ up' = [up EXCEPT ![k] = 0]
  /\ UNCHANGED <<car, owner, broken, marked, att, cur, dead, csend, outQ, down, held, stall, nstall, rcvD, acc, nf, ndrop>>

(* ServerMux: Accept.  The stream open rides on the first upstream segment;
   with nothing to send upstream the open itself is segment "0": accepted as
   soon as the server's handler is attached. *)
Accept(s) ==
  /\ acc[s] = 0
  /\ IF NUp = 0 THEN \E k \in Carriers : owner[k] = s /\ att[k] ELSE 1 \in rcvU[s]
  /\ acc' = [acc EXCEPT ![s] = @ + 1]
  /\ UNCHANGED <<car, owner, broken, marked, att, cur, dead, csend, up, outQ, down, held, stall, nstall, rcvU, rcvD, nf, ndrop>>

(* The server's reliable layer (re)transmits: QueuePacketConn.WriteTo. *)
ServerSend(s, i) ==
  /\ acc[s] > 0 /\ i \in Segs(NDown) /\ i \notin rcvD[s] /\ ~InFlightDown(s, i) /\ outQ[s] = 0
  /\ outQ' = [outQ EXCEPT ![s] = i]
  /\ UNCHANGED <<car, owner, broken, marked, att, cur, dead, csend, up, down, held, stall, nstall, rcvU, rcvD, acc, nf, ndrop>>

(* The per-client outgoing queue is full (no carrier of the session is
   attached, or it is half-open and slow): QueuePacketConn.WriteTo drops the
   packet and reports success, for the same reason as on the client side. *)
ServerSendDrop(s, i) ==
  /\ ndrop < MaxDrops
  /\ acc[s] > 0 /\ i \in Segs(NDown) /\ i \notin rcvD[s] /\ ~InFlightDown(s, i) /\ outQ[s] # 0
  /\ ndrop' = ndrop + 1
  /\ UNCHANGED <<car, owner, broken, marked, att, cur, dead, csend, up, outQ, down, held, stall, nstall, rcvU, rcvD, acc, nf>>

(* ServerMux: DownFrame(k) pops the outgoing queue of the carrier's ClientID;
   a half-open or frozen carrier swallows the packet. *)
DownFrame(k) ==
  /\ att[k] /\ outQ[owner[k]] # 0 /\ down[k] = 0
  /\ down' = [down EXCEPT ![k] = IF car[k] = "live" /\ ~broken[k] THEN outQ[owner[k]] ELSE 0]
  /\ outQ' = [outQ EXCEPT ![owner[k]] = 0]
  /\ UNCHANGED <<car, owner, broken, marked, att, cur, dead, csend, up, held, stall, nstall, rcvU, rcvD, acc, nf, ndrop>>

(* WebRTCPeer's OnMessage: the data channel DELIVERS the next message to the
   client.  The carrier is reliable and ordered, and from here on nothing may
   be lost before the framing layer has read it: OnMessage hands the message
   to a synchronous pipe and does not return before it has been read, so while
   a message is held the data channel delivers no further one (back-pressure;
   the slot down[k] stays full and the server's write loop waits). *)
OnMessage(k) ==
  /\ down[k] # 0 /\ held[k] = 0 /\ car[k] = "live" /\ ~broken[k]
  /\ held' = [held EXCEPT ![k] = down[k]]
  /\ down' = [down EXCEPT ![k] = 0]
  /\ UNCHANGED <<car, owner, broken, marked, att, cur, dead, csend, up, outQ, stall, nstall, rcvU, rcvD, acc, nf, ndrop>>

(* exchange: encapsulation ReadData on the pipe -> recvQueue -> the client's
   reliable layer.  A stalled reading application eventually stops everything
   above the pipe (stream window, receive buffers); the model takes the
   extreme: while the application behind the client is stalled nothing is
   read from the pipe. *)
ClientRecv(s) ==
  /\ cur[s] # 0 /\ held[cur[s]] # 0 /\ "down" \notin stall[s]
  /\ rcvD' = [rcvD EXCEPT ![s] = @ \cup {held[cur[s]]}]
  /\ held' = [held EXCEPT ![cur[s]] = 0]
  /\ UNCHANGED <<car, owner, broken, marked, att, cur, dead, csend, up, outQ, down, stall, nstall, rcvU, acc, nf, ndrop>>

(* The application that reads a direction ("down": behind the client, "up":
   behind the server) stops reading for a while and resumes (environment;
   bounded; resuming is fair - the property speaks of a reader that comes
   back).  The stream must then continue exact and ordered. *)
ReaderStalls(s, d) ==
  /\ nstall < MaxStalls /\ d \notin stall[s]
  /\ nstall' = nstall + 1 /\ stall' = [stall EXCEPT ![s] = @ \cup {d}]
  /\ UNCHANGED <<car, owner, broken, marked, att, cur, dead, csend, up, outQ, down, held, rcvU, rcvD, acc, nf, ndrop>>
ReaderResumes(s, d) ==
  /\ d \in stall[s]
  /\ stall' = [stall EXCEPT ![s] = @ \ {d}]
  /\ UNCHANGED <<car, owner, broken, marked, att, cur, dead, csend, up, outQ, down, held, nstall, rcvU, rcvD, acc, nf, ndrop>>

(* The server's handler notices that its carrier is gone. *)
SrvDetach(k) ==
  /\ att[k] /\ car[k] = "dead" /\ up[k] = 0
  /\ att' = [att EXCEPT ![k] = FALSE]
  /\ UNCHANGED <<car, owner, broken, marked, cur, dead, csend, up, outQ, down, held, stall, nstall, rcvU, rcvD, acc, nf, ndrop>>

-----------------------------------------------------------------------------
(* Faults (environment; bounded by MaxFaults; no fairness). *)

(* The proxy dies / the TCP connection is cut: everything in flight on k is
   lost; a current carrier is dropped by the client at once; a reserve that
   dies in the pool or between Pop and its first write is only broken - the
   client finds out at MarkClosed or at the failing write. *)
Cut(k) ==
  /\ nf < MaxFaults /\ car[k] \in {"pool", "popped", "live", "frozen"} /\ ~broken[k]
  /\ nf' = nf + 1
  /\ up' = [up EXCEPT ![k] = 0] /\ down' = [down EXCEPT ![k] = 0]
  /\ held' = [held EXCEPT ![k] = 0]          \* the client closes the peer: its pipe goes with it
  /\ IF car[k] \in {"pool", "popped"}
       THEN broken' = [broken EXCEPT ![k] = TRUE] /\ UNCHANGED <<car, cur>>
       ELSE /\ car' = [car EXCEPT ![k] = "dead"] /\ UNCHANGED broken
            /\ cur' = [s \in Sessions |-> IF cur[s] = k THEN 0 ELSE cur[s]]
  /\ UNCHANGED <<owner, marked, att, dead, csend, outQ, stall, nstall, rcvU, rcvD, acc, ndrop>>

(* The proxy freezes (SIGSTOP, black hole): nothing passes any more. *)
Freeze(k) ==
  /\ nf < MaxFaults /\ car[k] = "live"
  /\ nf' = nf + 1
  /\ car' = [car EXCEPT ![k] = "frozen"]
  /\ up' = [up EXCEPT ![k] = 0] /\ down' = [down EXCEPT ![k] = 0]
  /\ UNCHANGED <<owner, broken, marked, att, cur, dead, csend, outQ, held, stall, nstall, rcvU, rcvD, acc, ndrop>>

(* The broker's answer is lost / no proxy: this proxy never materialises. *)
AnswerLost(k) ==
  /\ nf < MaxFaults /\ car[k] = "unborn" /\ \A j \in Carriers : j < k => car[j] # "unborn"
  /\ nf' = nf + 1
  /\ car' = [car EXCEPT ![k] = "dead"]
  /\ UNCHANGED <<owner, broken, marked, att, cur, dead, csend, up, outQ, down, held, stall, nstall, rcvU, rcvD, acc, ndrop>>

-----------------------------------------------------------------------------
ClientNext ==
  \/ \E s \in Sessions, k \in Carriers : Pop(s, k) \/ PopSkip(s, k) \/ WriteId(s, k)
  \/ \E s \in Sessions, k \in Carriers : WriteIdFailsMarked(s, k) \/ WriteIdFailsUnmarked(s, k)
  \/ \E k \in Carriers : MarkClosed(k)
  \/ \E s \in Sessions : StaleClose(s) \/ CarrierUp(s) \/ ClientRecv(s)
  \/ \E k \in Carriers : OnMessage(k)
  \/ \E s \in Sessions, i \in Segs(NUp) : ClientSend(s, i) \/ ClientSendDrop(s, i)
ServerNext ==
  \/ \E k \in Carriers : ServerRecv(k) \/ DownFrame(k) \/ SrvDetach(k)
  \/ \E s \in Sessions : Accept(s)
  \/ \E s \in Sessions, i \in Segs(NDown) : ServerSend(s, i) \/ ServerSendDrop(s, i)
EnvNext ==
  \/ \E k \in Carriers : Collect(k)
  \/ \E s \in Sessions, d \in {"up", "down"} : ReaderStalls(s, d) \/ ReaderResumes(s, d)
FaultNext ==
  \/ \E k \in Carriers : Cut(k) \/ Freeze(k) \/ AnswerLost(k)

Next == ClientNext \/ ServerNext \/ EnvNext \/ FaultNext
Spec == Init /\ [][Next]_vars

(* One weak-fairness conjunct per goroutine step; none for faults.  Collect is
   the property's proviso "some working proxy eventually becomes available". *)
Fair ==
  /\ \A s \in Sessions, k \in Carriers : WF_vars(Pop(s, k)) /\ WF_vars(PopSkip(s, k)) /\ WF_vars(WriteId(s, k)) /\ WF_vars(WriteIdFails(s, k))
  /\ \A s \in Sessions : WF_vars(StaleClose(s)) /\ WF_vars(CarrierUp(s)) /\ WF_vars(ClientRecv(s)) /\ WF_vars(Accept(s))
  /\ \A s \in Sessions, i \in Segs(NUp) : WF_vars(ClientSend(s, i))
  /\ \A s \in Sessions, i \in Segs(NDown) : WF_vars(ServerSend(s, i))
  /\ \A k \in Carriers : WF_vars(ServerRecv(k)) /\ WF_vars(DownFrame(k)) /\ WF_vars(SrvDetach(k)) /\ WF_vars(Collect(k)) /\ WF_vars(OnMessage(k))
  /\ \A s \in Sessions, d \in {"up", "down"} : WF_vars(ReaderResumes(s, d))
FairSpec == Spec /\ Fair

-----------------------------------------------------------------------------
TypeOK ==
  /\ car \in [Carriers -> {"unborn", "pool", "popped", "live", "frozen", "dead"}]
  /\ cur \in [Sessions -> Carriers \cup {0}]
  /\ \A s \in Sessions : csend[s] \in 0..NUp /\ outQ[s] \in 0..NDown
  /\ \A k \in Carriers : up[k] \in 0..NUp /\ down[k] \in 0..NDown /\ held[k] \in 0..NDown

(* Safety half of C01: what the applications have read is always a prefix of
   what was written, and only segments of the session itself ever reach its
   reliable layers (segments are numbered per session and direction; a
   carrier carries only its owner's segments and the server files them under
   the owner - the attribution proper is ServerMux's TagIsPresented /
   DownOnlyToSameID). *)
PrefixDelivered ==
  \A s \in Sessions :
    /\ rcvU[s] \subseteq Segs(NUp) /\ rcvD[s] \subseteq Segs(NDown)
    /\ DeliveredUp(s) \in 0..NUp /\ DeliveredDown(s) \in 0..NDown
    /\ (acc[s] = 0 => rcvD[s] = {})
OnlyOwnSegments ==
  \A k \in Carriers : (up[k] # 0 \/ down[k] # 0 \/ att[k]) => owner[k] \in Sessions
OneAcceptPerSession == \A s \in Sessions : acc[s] <= 1
(* Nothing the data channel delivered is dropped before the framing layer: a
   held message leaves the pipe only by being read (it is then in the client's
   reliable layer) or together with its carrier when the client lets that go;
   and it is never overwritten by the next one. *)
NoLossBeforeFraming ==
  [][\A k \in Carriers : held[k] # 0 /\ held'[k] # held[k] =>
        /\ held'[k] = 0
        /\ (held[k] \in rcvD'[owner[k]] \/ car'[k] = "dead")]_vars
(* The redial layer exchanges on at most one carrier and only on one it popped. *)
OneCurrent ==
  \A s \in Sessions : cur[s] # 0 => owner[cur[s]] = s /\ car[cur[s]] \in {"live", "frozen"}
(* The redial layer never closes for good while the session has work (it
   would only do so when dialContext fails: Pop after End, not modelled). *)
NeverDead == \A s \in Sessions : ~dead[s]

(* Liveness half: with bounded faults and one more carrier than faults every
   byte written is eventually read, in both directions - in particular after
   an outage during which the queues overflowed and packets were dropped
   (ClientSendDrop / ServerSendDrop): drops are invisible to the stream. *)
Delivered == \A s \in Sessions : DeliveredUp(s) = NUp /\ DeliveredDown(s) = NDown /\ acc[s] = 1
EventuallyDelivered == <>Delivered
=============================================================================
