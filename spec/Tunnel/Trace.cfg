CONSTANTS
  Sessions <- TSessions
  Carriers <- TCarriers
  NUp = 0
  NDown = 0
  MaxFaults = 1000
  AsIs_D15 = FALSE
SPECIFICATION TSpec
INVARIANTS OneAcceptPerSession OneCurrent NeverDeadT NoFlags
CONSTRAINT Mark
POSTCONDITION Accepted
CHECK_DEADLOCK FALSE
