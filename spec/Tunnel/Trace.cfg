CONSTANTS
  Sessions <- TSessions
  Carriers <- TCarriers
  NUp = 0
  NDown = 0
  MaxFaults = 1000
  MaxDrops = 0
  MaxStalls = 0
SPECIFICATION TSpec
INVARIANTS OneAcceptPerSession OneCurrent NeverDead NoFlags
CONSTRAINT Mark
POSTCONDITION Accepted
CHECK_DEADLOCK FALSE
