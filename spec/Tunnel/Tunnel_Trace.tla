---------------------------- MODULE Tunnel_Trace ----------------------------
(* Trace validation for Tunnel: events recorded by the core rig (harness/rig)
   or the system rig (harness/cmd/sysrig) from the real redial layer, the real
   server and the applications at both ends.

   The reliable layer's segments are not observable (and a real transfer has
   thousands of them): the segment-level variables of Tunnel stay at their
   initial values and the byte streams are followed by the trace-level
   counters wr (committed by the writer) and rd (read so far), against which
   every app.read event is judged: the bytes equal the session's keyed stream
   at exactly the running offset (ok, computed by the driver by comparing
   data) and do not exceed what was written - "each read extends a prefix of
   that session's writes".  Carrier lifecycle, attachment, acceptance and the
   redial layer's death are Tunnel's own variables, driven by the events:

     car.open(k,s)      = Collect(k) ; Pop(s,k)
     car.hello(k,full)  = WriteId(s,k), client half (cur, car)
     srv.attach(k,id)   = WriteId(s,k), server half (att)
     car.fault(k,kind)  = Cut(k) / Freeze(k), environment half (nothing passes any more)
     car.end(k)         = the client half of Cut / StaleClose / WriteIdFails
     srv.in / srv.out   = ServerRecv(k) / DownFrame(k) on a packet whose owner is logged
     srv.detach(k)      = SrvDetach(k)
     app.accept(s)      = Accept(s)
     cli.dead(s)        = dead[s] (the redial layer surfaced an error)

   Logged values that contradict the model raise a flag (invariant NoFlags)
   instead of making the trace unexplainable, so the report names what broke. *)
EXTENDS Tunnel, Sequences, Json, TLCExt

TraceLog == ndJsonDeserialize("trace.ndjson")
TCarriers == 1..64
TSessions == {"S0", "S1", "S2", "S3", "S4", "S5", "S6", "S7"}
Dirs == {"up", "down"}

VARIABLES l, wr, rd, flags
tvars == <<vars, l, wr, rd, flags>>
segVars == <<csend, up, outQ, down, held, stall, nstall, rcvU, rcvD, ndrop>>

e == TraceLog[l]
Is(name) == l <= Len(TraceLog) /\ e.ev = name
Step == l' = l + 1
SName(i) == "S" \o ToString(i)
Flag(f) == flags' = flags \cup {f}

TInit ==
  /\ Init /\ l = 1 /\ TLCSet(1, 1)
  /\ wr = [s \in Sessions |-> [d \in Dirs |-> 0]] /\ rd = [s \in Sessions |-> [d \in Dirs |-> 0]]
  /\ flags = {}

TReset ==
  /\ Is("reset") /\ Step
  /\ car' = [k \in Carriers |-> "unborn"] /\ owner' = [k \in Carriers |-> None]
  /\ broken' = [k \in Carriers |-> FALSE] /\ marked' = [k \in Carriers |-> FALSE] /\ att' = [k \in Carriers |-> FALSE]
  /\ cur' = [s \in Sessions |-> 0] /\ dead' = [s \in Sessions |-> FALSE]
  /\ acc' = [s \in Sessions |-> 0] /\ nf' = 0 /\ ndrop' = 0
  /\ wr' = [s \in Sessions |-> [d \in Dirs |-> 0]] /\ rd' = [s \in Sessions |-> [d \in Dirs |-> 0]]
  /\ flags' = {} /\ UNCHANGED segVars

Skipped == {"app.stall", "app.resume", "app.mismatch", "srv.flood", "srv.attached", "srv.session", "srv.accept", "srv.stream", "app.done", "stall", "car.refused", "ses.over",
            "car.srvclosed", "car.notclosed", "sys.note", "dial.popped", "prx.open", "prx.kill", "brk.offer", "brk.drop"}
TSkip == l <= Len(TraceLog) /\ e.ev \in Skipped /\ Step /\ UNCHANGED <<vars, wr, rd, flags>>

TSesStart ==
  /\ Is("ses.start") /\ Step
  /\ wr' = [wr EXCEPT ![e.id] = IF e.bad = "" THEN [up |-> e.up, down |-> e.down] ELSE [up |-> 0, down |-> 0]]
  /\ UNCHANGED <<vars, rd, flags>>

(* The session's dialContext obtains a new peer. *)
TCarOpen ==
  /\ Is("car.open") /\ Step
  /\ IF e.s < 0 \/ e.role = "extra" THEN UNCHANGED <<vars, flags>>
     ELSE LET s == SName(e.s) IN
       /\ car[e.k] = "unborn"
       /\ car' = [car EXCEPT ![e.k] = "popped"] /\ owner' = [owner EXCEPT ![e.k] = s]
       /\ flags' = flags \cup (IF cur[s] # 0 THEN {"redial while a carrier is still current"} ELSE {})
                         \cup (IF dead[s] THEN {"dial after the redial layer closed"} ELSE {})
       /\ UNCHANGED <<broken, marked, att, cur, dead, segVars, acc, nf>>
  /\ UNCHANGED <<wr, rd>>

TCarHello ==
  /\ Is("car.hello") /\ Step
  /\ IF owner[e.k] = None \/ e.wrote # "full" THEN UNCHANGED vars
     ELSE /\ car[e.k] = "popped"
          /\ car' = [car EXCEPT ![e.k] = "live"] /\ cur' = [cur EXCEPT ![owner[e.k]] = e.k]
          /\ UNCHANGED <<owner, broken, marked, att, dead, segVars, acc, nf>>
  /\ UNCHANGED <<wr, rd, flags>>

(* The forwarder / the killed proxy: from now on nothing passes on k. *)
TFault ==
  /\ Is("car.fault") /\ Step
  /\ IF car[e.k] = "live" /\ e.kind \in {"stall", "cutsrv", "freeze"}
       THEN car' = [car EXCEPT ![e.k] = "frozen"] /\ UNCHANGED broken
       ELSE broken' = [broken EXCEPT ![e.k] = TRUE] /\ UNCHANGED car
  /\ nf' = nf + 1
  /\ UNCHANGED <<owner, marked, att, cur, dead, segVars, acc, wr, rd, flags>>

(* The client let go of the carrier (read/write error, staleness, failed
   dial or preamble write: the harness / the repaired client then pops the
   next one). *)
TCarEnd ==
  /\ Is("car.end") /\ Step
  /\ IF owner[e.k] = None \/ car[e.k] = "dead" THEN UNCHANGED vars
     ELSE /\ car' = [car EXCEPT ![e.k] = "dead"]
          /\ cur' = [s \in Sessions |-> IF cur[s] = e.k THEN 0 ELSE cur[s]]
          /\ UNCHANGED <<owner, broken, marked, att, dead, segVars, acc, nf>>
  /\ UNCHANGED <<wr, rd, flags>>

TAttach ==
  /\ Is("srv.attach") /\ Step
  /\ IF owner[e.k] = None THEN UNCHANGED <<att, flags>>       \* an extra carrier (C05's business)
     ELSE /\ att' = [att EXCEPT ![e.k] = TRUE]
          /\ flags' = IF owner[e.k] = e.id THEN flags ELSE flags \cup {"server attached the carrier under another ClientID"}
  /\ UNCHANGED <<car, owner, broken, marked, cur, dead, segVars, acc, nf, wr, rd>>

TDetach ==
  /\ Is("srv.detach") /\ Step
  /\ att' = [att EXCEPT ![e.k] = FALSE]
  /\ UNCHANGED <<car, owner, broken, marked, cur, dead, segVars, acc, nf, wr, rd, flags>>

Owner(own) == IF own >= 0 THEN SName(own) ELSE "unknown"
TPacket ==
  /\ (Is("srv.in") \/ Is("srv.out")) /\ Step
  /\ IF owner[e.k] = None THEN UNCHANGED flags ELSE
     /\ att[e.k]
     /\ flags' = flags \cup (IF e.id # owner[e.k] THEN {"packet filed under another ClientID than its carrier presented"} ELSE {})
                      \cup (IF e.own # -3 /\ Owner(e.own) # owner[e.k] THEN {"packet of another session on this carrier"} ELSE {})
  /\ UNCHANGED <<vars, wr, rd>>

TAccept ==
  /\ Is("app.accept") /\ Step
  /\ acc' = [acc EXCEPT ![e.id] = @ + 1]
  /\ UNCHANGED <<car, owner, broken, marked, att, cur, dead, segVars, nf, wr, rd, flags>>

TRead ==
  /\ Is("app.read") /\ Step
  /\ LET s == SName(e.s) IN
       /\ rd' = [rd EXCEPT ![s][e.d] = @ + e.n]
       /\ flags' = flags \cup (IF e.ok /\ e.off = rd[s][e.d] /\ e.off + e.n <= wr[s][e.d] THEN {}
                               ELSE {"bytes read are not a prefix of the session's stream"})
                         \cup (IF e.d = "up" /\ acc[s] = 0 THEN {"bytes read at the server before any connection was accepted"} ELSE {})
  /\ UNCHANGED <<vars, wr>>

TDead ==
  /\ Is("cli.dead") /\ Step
  /\ dead' = [dead EXCEPT ![SName(e.s)] = TRUE]
  /\ UNCHANGED <<car, owner, broken, marked, att, cur, segVars, acc, nf, wr, rd, flags>>

TAppErr ==
  /\ (Is("app.rerr") \/ Is("app.werr")) /\ Step
  /\ Flag(e.ev) /\ UNCHANGED <<vars, wr, rd>>

TEnd ==
  /\ Is("end") /\ Step
  /\ flags' = IF e.done /\ \E s \in Sessions, d \in Dirs : rd[s][d] # wr[s][d]
                THEN flags \cup {"stream reported complete but bytes are missing"} ELSE flags
  /\ UNCHANGED <<vars, wr, rd>>

(* cli.pkt / srv.pkt: packets read from the carrier by the client's redial layer
   (hook ex.read) / by the server's handler (hook srv.in); known = the driver
   found the very same packet among those the other end wrote towards the
   carrier (hooks srv.out / ex.write).  The carrier is a reliable ordered byte
   stream and the framing restarts on every carrier, so every packet read is
   one that the peer wrote: anything else is a chunk nobody wrote (framing
   lost, bytes dropped or mixed below the packet layer). *)
TPkt ==
  /\ (Is("cli.pkt") \/ Is("srv.pkt")) /\ Step
  /\ flags' = IF e.known THEN flags ELSE flags \cup {"a packet was read from the carrier that the peer never wrote"}
  /\ UNCHANGED <<vars, wr, rd>>

TNext ==
  \/ TPkt \/ TReset \/ TSkip \/ TSesStart \/ TCarOpen \/ TCarHello \/ TFault \/ TCarEnd
  \/ TAttach \/ TDetach \/ TPacket \/ TAccept \/ TRead \/ TDead \/ TAppErr \/ TEnd
TSpec == TInit /\ [][TNext]_tvars

Mark == TLCSet(1, IF l > TLCGet(1) THEN l ELSE TLCGet(1))
Accepted ==
  \/ TLCGet(1) = Len(TraceLog) + 1
  \/ Print(<<"UNEXPLAINED", TLCGet(1), IF TLCGet(1) <= Len(TraceLog) THEN TraceLog[TLCGet(1)] ELSE "eof">>, FALSE)

NoFlags == flags = {}
=============================================================================
