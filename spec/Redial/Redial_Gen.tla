----------------------------- MODULE Redial_Gen -----------------------------
(* Redial with generation-only restrictions: the behaviours whose
   environment/user steps are replayed into the real RedialPacketConn.

   * EnvAtRest = TRUE in the configurations: environment steps only at rest,
     the grain at which the replay driver can act (it waits for quiescence
     of the real object after every step it makes).
   * User writes are issued one at a time (none while a writer is inside a
     carrier write or a packet is still queued): their only purpose is to
     park the current writer inside WriteTo so that "which direction fails
     second" covers both the parked and the selecting writer.
   * FaultsOnly: no carrier data and at most one user write per generation,
     only while a carrier is active - then the maximal behaviours are exactly
     the combinations of fault orders per generation (read first / write
     first / both / neither before Close / dial failure) and are enumerated
     exhaustively.
   * The error-returning user operations after Close (UserReadErr, UserWrite
     on a closed conn, CloseAgain) are not enumerated here: the driver probes
     all three at every quiescent point after the conn was closed. *)
EXTENDS Redial
CONSTANT FaultsOnly
GUserWrite ==
  /\ ~closed /\ sendQ = <<>> /\ (\A g \in Gens : wpc[g] # "inWrite")
  /\ (FaultsOnly => (dl = "exch" /\ nWrite < gen))
  /\ UserWrite
GenNext ==
  \/ Internal
  \/ DialOK \/ DialFails
  \/ (\E g \in Gens : Deliver(g) \/ ReadFails(g) \/ WriteOK(g) \/ WriteFails(g) \/ BothFail(g))
  \/ UserReadOK \/ GUserWrite \/ Close
GenSpec == Init /\ [][GenNext]_vars
=============================================================================
