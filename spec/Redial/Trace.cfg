CONSTANTS
  G = 3
  ErrChanCap = 1
  QCap = 2048
  MaxDeliver = 1000000
  MaxWrite = 1000000
  MaxURead = 1000000
  EnvAtRest = FALSE
  Window = 3
SPECIFICATION TSpec
CONSTRAINT Mark
INVARIANTS TypeOK ErrorOnlyAfterCloseOrDialFail AtMostOneActive EveryCarrierClosed QueuesFIFO ObservedNoLeak
POSTCONDITION Accepted
CHECK_DEADLOCK FALSE
