CONSTANTS
  G = 2
  ErrChanCap = 1
  QCap = 4
  MaxDeliver = 2
  MaxWrite = 2
  MaxURead = 0
  EnvAtRest = TRUE
  FaultsOnly = FALSE
SPECIFICATION GenSpec
INVARIANTS TypeOK
CHECK_DEADLOCK FALSE
