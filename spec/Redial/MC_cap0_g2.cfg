CONSTANTS
  G = 2
  ErrChanCap = 0
  QCap = 1
  MaxDeliver = 1
  MaxWrite = 1
  MaxURead = 1
  EnvAtRest = FALSE
SPECIFICATION FairSpec
INVARIANTS TypeOK ErrorOnlyAfterCloseOrDialFail AtMostOneActive EveryCarrierClosed QueuesFIFO
PROPERTIES NoLeak
CHECK_DEADLOCK FALSE
