CONSTANTS
  G = 1
  ErrChanCap = 1
  QCap = 1
  MaxDeliver = 2
  MaxWrite = 2
  MaxURead = 1
  EnvAtRest = FALSE
SPECIFICATION FairSpec
INVARIANTS TypeOK ErrorOnlyAfterCloseOrDialFail AtMostOneActive EveryCarrierClosed QueuesFIFO
PROPERTIES ErrorStep ReadIsHead NoLeak
CHECK_DEADLOCK FALSE
