---------------------------- MODULE Redial_Trace ----------------------------
(* Trace specification: validates executions recorded from the real
   turbotunnel.RedialPacketConn (harness/cmd/redialdrv) against Redial.

   trace.ndjson holds many traces separated by {"ev":"reset"} lines.  Every
   other line is one observation:

     driver-made (logged before the dial gate is released / after the call returned)
       dialok{g}  dialfail
     logged by the scripted carrier on the calling goroutine, when the call returns
       deliver{g,pkt}  readfail{g}  writeok{g,pkt}  writefail{g}
       uread{res,pkt}  uwrite{pkt,res}  closecall  closeret{res}
     logged by the scripted carrier on the calling goroutine
       cclosed{g}   dialLoop called carrier g's Close
       rclosed{g}   a ReadFrom of carrier g returned "closed" because g is closed
       wclosed{g}   same for WriteTo
     quiescent point (all goroutines of the object parked; runtime.Stack profile)
       quiesce{dl, rInRead, rSendErr, wSelect, wInWrite, wSendErr, other}

   Steps of the goroutines that the harness cannot see (select choices, error
   sends and receives, dialLoop's closed check) are composed silently.  A
   trace is accepted when some interleaving of silent steps explains every
   observation; acceptance is the high-water mark of l (TLC register 1). *)
EXTENDS Redial, Json

CONSTANT Window   \* silent goroutine steps are looked for in the last Window generations only
                  \* (= G: no restriction.  The 500-redial trace uses a small window: every
                  \* redial of that run starts from a quiescent point, where older generations
                  \* have no step left - AtRest, checked over ALL generations at every
                  \* quiescent point, is what establishes that.)

TraceLog == ndJsonDeserialize("trace.ndjson")

VARIABLES l,        \* index of the next observation to explain
          leak      \* a quiescent point with an abandoned generation still holding goroutines was observed
tvars == <<vars, l, leak>>

Ev == TraceLog[l]
Is(name) == l <= Len(TraceLog) /\ Ev.ev = name
Step == l' = l + 1

TInit == Init /\ l = 1 /\ leak = FALSE /\ TLCSet(1, 1)

Count(f, v) == Cardinality({g \in Gens : f[g] = v})
DlClass == IF dl = "exch" THEN "exch" ELSE IF dl = "dial" THEN "dial" ELSE IF dl = "done" THEN "done" ELSE "running"

EvDialOK    == Is("dialok")    /\ DialOK /\ gen' = Ev.g           /\ Step /\ UNCHANGED leak
EvDialFail  == Is("dialfail")  /\ DialFails                       /\ Step /\ UNCHANGED leak
EvDeliver   == Is("deliver")   /\ Ev.g \in Gens /\ Deliver(Ev.g) /\ nDeliv' = Ev.pkt /\ Step /\ UNCHANGED leak
\* (a scripted failure may be taken by a call that races with the carrier's
\*  Close: same effect as the forced failure)
EvReadFail  == Is("readfail")  /\ Ev.g \in Gens /\ (ReadFails(Ev.g) \/ ReadFailsClosed(Ev.g)) /\ Step /\ UNCHANGED leak
EvWriteOK   == Is("writeok")   /\ Ev.g \in Gens /\ wcur[Ev.g] = Ev.pkt /\ WriteOK(Ev.g) /\ Step /\ UNCHANGED leak
EvWriteFail == Is("writefail") /\ Ev.g \in Gens /\ (WriteFails(Ev.g) \/ WriteFailsClosed(Ev.g)) /\ Step /\ UNCHANGED leak
EvCClosed   == Is("cclosed")   /\ gen = Ev.g /\ DlCloseConn               /\ Step /\ UNCHANGED leak
EvRClosed   == Is("rclosed")   /\ Ev.g \in Gens /\ ReadFailsClosed(Ev.g)  /\ Step /\ UNCHANGED leak
EvWClosed   == Is("wclosed")   /\ Ev.g \in Gens /\ WriteFailsClosed(Ev.g) /\ Step /\ UNCHANGED leak

EvURead ==
  /\ Is("uread") /\ Step /\ UNCHANGED leak
  /\ \/ Ev.res = "ok"  /\ UserReadOK /\ last'.pkt = Ev.pkt
     \/ Ev.res = "err" /\ UserReadErr
EvUWrite ==
  /\ Is("uwrite") /\ Step /\ UNCHANGED leak
  /\ UserWrite /\ last'.pkt = Ev.pkt /\ last'.res = Ev.res
(* Close takes effect inside the call (goroutines react before it returns),
   so the call and its result are two observations. *)
EvCloseCall ==
  /\ Is("closecall") /\ Step /\ UNCHANGED leak
  /\ \/ Close
     \/ /\ closed /\ last' = [op |-> "close", res |-> "err", pkt |-> 0]
        /\ UNCHANGED <<dl, gen, closed, cause, carrier, rpc, wpc, xpc, rch, wch, wcur, sendQ, recvQ, nDeliv, nWrite, nURead>>
EvCloseRet ==
  /\ Is("closeret") /\ Step /\ UNCHANGED leak
  /\ last.op = "close" /\ last.res = Ev.res /\ UNCHANGED vars

(* A quiescent point of the real object: the model must be at rest and the
   goroutine profile (frames of turbotunnel RedialPacketConn methods) must be the
   model's live set, class by class. *)
EvQuiesce ==
  /\ Is("quiesce") /\ AtRest
  /\ Ev.dl = DlClass
  /\ Ev.rInRead  = Count(rpc, "inRead")  /\ Ev.rSendErr = Count(rpc, "sendErr")
  /\ Ev.wSelect  = Count(wpc, "select")  /\ Ev.wInWrite = Count(wpc, "inWrite")
  /\ Ev.wSendErr = Count(wpc, "sendErr") /\ Ev.other = 0
  /\ leak' = (leak \/ \E g \in Gens : Abandoned(g) /\ ~GoroutinesGone(g))
  /\ Step /\ UNCHANGED vars

EvReset ==
  /\ Is("reset") /\ Step /\ leak' = FALSE
  /\ dl' = "check" /\ gen' = 0 /\ closed' = FALSE /\ cause' = "none"
  /\ carrier' = [g \in Gens |-> "none"]
  /\ rpc' = [g \in Gens |-> "none"] /\ wpc' = [g \in Gens |-> "none"] /\ xpc' = [g \in Gens |-> "none"]
  /\ rch' = [g \in Gens |-> Chan0] /\ wch' = [g \in Gens |-> Chan0]
  /\ wcur' = [g \in Gens |-> 0]
  /\ sendQ' = <<>> /\ recvQ' = <<>> /\ nDeliv' = 0 /\ nWrite' = 0 /\ nURead' = 0
  /\ last' = [op |-> "none", res |-> "none", pkt |-> 0]

(* Unobserved goroutine steps. *)
Silent ==
  /\ l <= Len(TraceLog)
  /\ UNCHANGED <<l, leak>>
  /\ \/ DlCheck
     \/ \E g \in {h \in (gen - Window + 1)..gen : h \in Gens} :
          \/ ExchangeRecvR(g) \/ ExchangeRecvW(g)
          \/ ReaderSeesClosed(g) \/ ReaderRecvW(g) \/ ReaderDefault(g) \/ ReaderSendErrBuf(g)
          \/ WriterSeesClosed(g) \/ WriterRecvR(g) \/ WriterTake(g) \/ WriterSendErrBuf(g)

TNext ==
  \/ EvDialOK \/ EvDialFail \/ EvDeliver \/ EvReadFail \/ EvWriteOK \/ EvWriteFail
  \/ EvCClosed \/ EvRClosed \/ EvWClosed \/ EvURead \/ EvUWrite \/ EvCloseCall \/ EvCloseRet
  \/ EvQuiesce \/ EvReset \/ Silent

TSpec == TInit /\ [][TNext]_tvars

Mark == IF l > TLCGet(1) THEN TLCSet(1, l) ELSE TRUE

Accepted ==
  \/ TLCGet(1) = Len(TraceLog) + 1
  \/ /\ PrintT(<<"UNEXPLAINED", TLCGet(1)>>)
     /\ PrintT(ToJson(TraceLog[TLCGet(1)]))
     /\ FALSE

(* Evaluated on every state of every explanation of the observed executions. *)
ObservedNoLeak == ~leak
=============================================================================
