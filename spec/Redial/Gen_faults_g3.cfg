CONSTANTS
  G = 3
  ErrChanCap = 1
  QCap = 4
  MaxDeliver = 0
  MaxWrite = 3
  MaxURead = 0
  EnvAtRest = TRUE
  FaultsOnly = TRUE
SPECIFICATION GenSpec
INVARIANTS TypeOK
CHECK_DEADLOCK FALSE
