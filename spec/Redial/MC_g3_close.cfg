CONSTANTS
  G = 3
  ErrChanCap = 1
  QCap = 1
  MaxDeliver = 1
  MaxWrite = 1
  MaxURead = 1
  EnvAtRest = FALSE
SPECIFICATION FairCarrierSpec
INVARIANTS TypeOK ErrorOnlyAfterCloseOrDialFail AtMostOneActive EveryCarrierClosed QueuesFIFO
PROPERTIES CloseReleases
CHECK_DEADLOCK FALSE
