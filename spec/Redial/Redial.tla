------------------------------- MODULE Redial -------------------------------
(* common/turbotunnel/redialpacketconn.go: RedialPacketConn.

   One goroutine `dialLoop` obtains carriers (net.PacketConn) one after the
   other from dialContext; for carrier number g ("generation" g) it runs
   exchange(conn), which creates two error channels, starts a reader and a
   writer goroutine and waits for the first of the two channels to yield;
   then dialLoop closes the carrier and dials again.  The user side is a
   net.PacketConn over two bounded queues (sendQ, recvQ; full => drop).

   Grain of the actions = one Go `select`/channel operation/carrier call per
   action.  A goroutine's final `return` and its deferred close(errCh) are
   one step (nothing else of that goroutine lies in between).

   Environment (no fairness):   DialOK, DialFails, Deliver(g), ReadFails(g),
                                WriteOK(g), WriteFails(g), BothFail(g),
                                UserRead, UserWrite, Close.
   Carrier assumption (fair):   once carrier g has been closed, a ReadFrom /
                                WriteTo that is pending or newly issued on it
                                returns an error (ReadFailsClosed(g),
                                WriteFailsClosed(g)).  This is the assumption
                                under which the property speaks of "retaining
                                no goroutine": a carrier that keeps a caller
                                blocked after Close is outside the statement.
   Goroutine steps (one WF each): everything else.

   ErrChanCap is the capacity of readErrCh / writeErrCh as written in the
   code (0 = `make(chan error)`, 1 = `make(chan error, 1)`).

   Don't-care (deliberately not constrained):
   * which ready case a `select` takes (all ready cases are offered);
   * the error values (only "error or not");
   * what ReadFrom returns when Close races with a queued packet: the model
     is used at the grain where user operations are sequential, there the
     code is deterministic (closed => error);
   * a dialContext that never returns (the code cannot cancel it: ctx is
     cancelled only after dialLoop left the loop) - environment.
   * packets still in sendQ when the conn is closed or between carriers may be
     written to a later carrier or never (bounded buffering, drop allowed). *)
EXTENDS Integers, Sequences, FiniteSets, TLC

CONSTANTS
  G,            \* maximum number of carriers dialled (bound in the guard of DialOK)
  ErrChanCap,   \* 0 or 1: capacity of the two error channels of exchange()
  QCap,         \* capacity of sendQ and of recvQ (2048 in the code)
  MaxDeliver,   \* bound on packets delivered by carriers   (guard of Deliver)
  MaxWrite,     \* bound on packets written by the user     (guard of UserWrite)
  MaxURead,     \* bound on failing user reads              (guard of UserRead when closed)
  EnvAtRest     \* TRUE: environment/user actions only in states where no
                \* goroutine step is enabled (behaviour generation at the
                \* grain at which the replay driver can schedule)

ASSUME ErrChanCap \in {0, 1} /\ G \in Nat /\ QCap \in Nat \ {0}

Gens == 1..G

VARIABLES
  dl,       \* dialLoop: "check" | "dial" | "exch" | "closeConn" | "done"
  gen,      \* number of carriers obtained so far; the current one while dl \in {"exch","closeConn"}
  closed,   \* c.closed has been closed
  cause,    \* "none" | "close" | "dialfail": what closed it (first cause wins, closeOnce)
  carrier,  \* [Gens -> "none" | "open" | "closed"]
  rpc,      \* reader g:  "none" | "check" | "inRead" | "sendErr" | "done"
  wpc,      \* writer g:  "none" | "select" | "inWrite" | "sendErr" | "done"
  xpc,      \* exchange g: "none" | "wait" | "ret"
  rch, wch, \* error channels of generation g: [n |-> buffered values, cl |-> closed]
  wcur,     \* packet writer g is writing (0 = none)
  sendQ, recvQ,     \* sequences of packet ids
  nDeliv, nWrite,   \* packets delivered by carriers / written by the user so far (= last id used)
  nURead,           \* failing user reads so far
  last      \* observation: the last user-visible result [op, res, pkt]

vars == <<dl, gen, closed, cause, carrier, rpc, wpc, xpc, rch, wch, wcur,
          sendQ, recvQ, nDeliv, nWrite, nURead, last>>
\* `last` is an observation only; it is excluded from the state by the VIEW.
view == <<dl, gen, closed, cause, carrier, rpc, wpc, xpc, rch, wch, wcur,
          sendQ, recvQ, nDeliv, nWrite, nURead>>

Chan0 == [n |-> 0, cl |-> FALSE]

Init ==
  /\ dl = "check" /\ gen = 0 /\ closed = FALSE /\ cause = "none"
  /\ carrier = [g \in Gens |-> "none"]
  /\ rpc = [g \in Gens |-> "none"] /\ wpc = [g \in Gens |-> "none"] /\ xpc = [g \in Gens |-> "none"]
  /\ rch = [g \in Gens |-> Chan0] /\ wch = [g \in Gens |-> Chan0]
  /\ wcur = [g \in Gens |-> 0]
  /\ sendQ = <<>> /\ recvQ = <<>> /\ nDeliv = 0 /\ nWrite = 0 /\ nURead = 0
  /\ last = [op |-> "none", res |-> "none", pkt |-> 0]

-----------------------------------------------------------------------------
(* Channel readiness.  A receive from an error channel can proceed when a
   value is buffered, the channel is closed, or (unbuffered channel) the
   owner is parked in its send. *)
RRecvReady(g) == rch[g].n > 0 \/ rch[g].cl \/ (ErrChanCap = 0 /\ rpc[g] = "sendErr")
WRecvReady(g) == wch[g].n > 0 \/ wch[g].cl \/ (ErrChanCap = 0 /\ wpc[g] = "sendErr")

(* Receiving from readErrCh[g] / writeErrCh[g]: the effect on the channel and
   on its owner.  Unbuffered: the parked sender is released and (its next and
   last step being `return` + deferred close) finishes. *)
TakeR(g) ==
  IF rch[g].n > 0 THEN rch' = [rch EXCEPT ![g].n = 0] /\ UNCHANGED rpc
  ELSE IF rch[g].cl THEN UNCHANGED <<rch, rpc>>
  ELSE rpc' = [rpc EXCEPT ![g] = "done"] /\ rch' = [rch EXCEPT ![g].cl = TRUE]
TakeW(g) ==
  IF wch[g].n > 0 THEN wch' = [wch EXCEPT ![g].n = 0] /\ UNCHANGED wpc
  ELSE IF wch[g].cl THEN UNCHANGED <<wch, wpc>>
  ELSE wpc' = [wpc EXCEPT ![g] = "done"] /\ wch' = [wch EXCEPT ![g].cl = TRUE]

-----------------------------------------------------------------------------
(* dialLoop *)

DlCheck ==            \* select { case <-c.closed: return; default: }
  /\ dl = "check"
  /\ dl' = (IF closed THEN "done" ELSE "dial")
  /\ UNCHANGED <<gen, closed, cause, carrier, rpc, wpc, xpc, rch, wch, wcur, sendQ, recvQ, nDeliv, nWrite, nURead, last>>

ExchangeRecvR(g) ==   \* exchange's select takes <-readErrCh
  /\ xpc[g] = "wait" /\ RRecvReady(g)
  /\ TakeR(g)
  /\ xpc' = [xpc EXCEPT ![g] = "ret"] /\ dl' = "closeConn"
  /\ UNCHANGED <<gen, closed, cause, carrier, wpc, wch, wcur, sendQ, recvQ, nDeliv, nWrite, nURead, last>>

ExchangeRecvW(g) ==   \* exchange's select takes <-writeErrCh
  /\ xpc[g] = "wait" /\ WRecvReady(g)
  /\ TakeW(g)
  /\ xpc' = [xpc EXCEPT ![g] = "ret"] /\ dl' = "closeConn"
  /\ UNCHANGED <<gen, closed, cause, carrier, rpc, rch, wcur, sendQ, recvQ, nDeliv, nWrite, nURead, last>>

DlCloseConn ==        \* conn.Close() after exchange returned
  /\ dl = "closeConn"
  /\ carrier' = [carrier EXCEPT ![gen] = "closed"]
  /\ dl' = "check"
  /\ UNCHANGED <<gen, closed, cause, rpc, wpc, xpc, rch, wch, wcur, sendQ, recvQ, nDeliv, nWrite, nURead, last>>

-----------------------------------------------------------------------------
(* reader of generation g *)

ReaderSeesClosed(g) ==   \* case <-c.closed: return  (+ deferred close(readErrCh))
  /\ rpc[g] = "check" /\ closed
  /\ rpc' = [rpc EXCEPT ![g] = "done"] /\ rch' = [rch EXCEPT ![g].cl = TRUE]
  /\ UNCHANGED <<dl, gen, closed, cause, carrier, wpc, xpc, wch, wcur, sendQ, recvQ, nDeliv, nWrite, nURead, last>>

ReaderRecvW(g) ==        \* case <-writeErrCh: return
  /\ rpc[g] = "check" /\ WRecvReady(g)
  /\ TakeW(g)
  /\ rpc' = [rpc EXCEPT ![g] = "done"] /\ rch' = [rch EXCEPT ![g].cl = TRUE]
  /\ UNCHANGED <<dl, gen, closed, cause, carrier, xpc, wcur, sendQ, recvQ, nDeliv, nWrite, nURead, last>>

ReaderDefault(g) ==      \* default: -> conn.ReadFrom   (only when no other case is ready)
  /\ rpc[g] = "check" /\ ~closed /\ ~WRecvReady(g)
  /\ rpc' = [rpc EXCEPT ![g] = "inRead"]
  /\ UNCHANGED <<dl, gen, closed, cause, carrier, wpc, xpc, rch, wch, wcur, sendQ, recvQ, nDeliv, nWrite, nURead, last>>

ReadFailsClosed(g) ==    \* carrier assumption: a closed carrier fails ReadFrom
  /\ rpc[g] = "inRead" /\ carrier[g] = "closed"
  /\ rpc' = [rpc EXCEPT ![g] = "sendErr"]
  /\ UNCHANGED <<dl, gen, closed, cause, carrier, wpc, xpc, rch, wch, wcur, sendQ, recvQ, nDeliv, nWrite, nURead, last>>

ReaderSendErrBuf(g) ==   \* readErrCh <- err; return   (buffered channel, never blocks: one send per channel)
  /\ rpc[g] = "sendErr" /\ ErrChanCap = 1 /\ rch[g].n = 0
  /\ rch' = [rch EXCEPT ![g] = [n |-> 1, cl |-> TRUE]]
  /\ rpc' = [rpc EXCEPT ![g] = "done"]
  /\ UNCHANGED <<dl, gen, closed, cause, carrier, wpc, xpc, wch, wcur, sendQ, recvQ, nDeliv, nWrite, nURead, last>>
\* With ErrChanCap = 0 the send is a rendezvous: it happens as part of
\* ExchangeRecvR(g) or WriterRecvR(g) (see TakeR).

-----------------------------------------------------------------------------
(* writer of generation g *)

WriterSeesClosed(g) ==   \* case <-c.closed: return (+ deferred close(writeErrCh))
  /\ wpc[g] = "select" /\ closed
  /\ wpc' = [wpc EXCEPT ![g] = "done"] /\ wch' = [wch EXCEPT ![g].cl = TRUE]
  /\ UNCHANGED <<dl, gen, closed, cause, carrier, rpc, xpc, rch, wcur, sendQ, recvQ, nDeliv, nWrite, nURead, last>>

WriterRecvR(g) ==        \* case <-readErrCh: return
  /\ wpc[g] = "select" /\ RRecvReady(g)
  /\ TakeR(g)
  /\ wpc' = [wpc EXCEPT ![g] = "done"] /\ wch' = [wch EXCEPT ![g].cl = TRUE]
  /\ UNCHANGED <<dl, gen, closed, cause, carrier, xpc, wcur, sendQ, recvQ, nDeliv, nWrite, nURead, last>>

WriterTake(g) ==         \* case p := <-c.sendQueue: -> conn.WriteTo(p)
  /\ wpc[g] = "select" /\ sendQ # <<>>
  /\ wcur' = [wcur EXCEPT ![g] = Head(sendQ)] /\ sendQ' = Tail(sendQ)
  /\ wpc' = [wpc EXCEPT ![g] = "inWrite"]
  /\ UNCHANGED <<dl, gen, closed, cause, carrier, rpc, xpc, rch, wch, recvQ, nDeliv, nWrite, nURead, last>>

WriteFailsClosed(g) ==   \* carrier assumption: a closed carrier fails WriteTo
  /\ wpc[g] = "inWrite" /\ carrier[g] = "closed"
  /\ wpc' = [wpc EXCEPT ![g] = "sendErr"] /\ wcur' = [wcur EXCEPT ![g] = 0]
  /\ UNCHANGED <<dl, gen, closed, cause, carrier, rpc, xpc, rch, wch, sendQ, recvQ, nDeliv, nWrite, nURead, last>>

WriterSendErrBuf(g) ==
  /\ wpc[g] = "sendErr" /\ ErrChanCap = 1 /\ wch[g].n = 0
  /\ wch' = [wch EXCEPT ![g] = [n |-> 1, cl |-> TRUE]]
  /\ wpc' = [wpc EXCEPT ![g] = "done"]
  /\ UNCHANGED <<dl, gen, closed, cause, carrier, rpc, xpc, rch, wcur, sendQ, recvQ, nDeliv, nWrite, nURead, last>>

-----------------------------------------------------------------------------

ReaderStep(g) == ReaderSeesClosed(g) \/ ReaderRecvW(g) \/ ReaderDefault(g) \/ ReadFailsClosed(g) \/ ReaderSendErrBuf(g)
WriterStep(g) == WriterSeesClosed(g) \/ WriterRecvR(g) \/ WriterTake(g) \/ WriteFailsClosed(g) \/ WriterSendErrBuf(g)
DialStep      == DlCheck \/ DlCloseConn \/ (\E g \in Gens : ExchangeRecvR(g) \/ ExchangeRecvW(g))
Internal      == DialStep \/ (\E g \in Gens : ReaderStep(g) \/ WriterStep(g))

(* No goroutine of the object can take a step: everything is parked. *)
AtRest == ~ENABLED Internal
EnvGuard == EnvAtRest => AtRest

-----------------------------------------------------------------------------
(* Environment and user actions.  With EnvAtRest they are offered only in
   states at rest (behaviour generation for the replay driver, which acts at
   quiescent points); EnvGuard is TRUE otherwise.  Every one of them is a
   top-level disjunct of Next so that TLC's action labels name it. *)

DialOK ==             \* dialContext returns a carrier; exchange() starts both goroutines and waits
  /\ EnvGuard
  /\ dl = "dial" /\ gen < G
  /\ gen' = gen + 1 /\ dl' = "exch"
  /\ carrier' = [carrier EXCEPT ![gen + 1] = "open"]
  /\ rpc' = [rpc EXCEPT ![gen + 1] = "check"]
  /\ wpc' = [wpc EXCEPT ![gen + 1] = "select"]
  /\ xpc' = [xpc EXCEPT ![gen + 1] = "wait"]
  /\ UNCHANGED <<closed, cause, rch, wch, wcur, sendQ, recvQ, nDeliv, nWrite, nURead, last>>

DialFails ==          \* dialContext returns an error: closeWithError(err); return
  /\ EnvGuard
  /\ dl = "dial"
  /\ dl' = "done"
  /\ closed' = TRUE
  /\ cause' = (IF closed THEN cause ELSE "dialfail")
  /\ UNCHANGED <<gen, carrier, rpc, wpc, xpc, rch, wch, wcur, sendQ, recvQ, nDeliv, nWrite, nURead, last>>

Deliver(g) ==            \* environment: carrier g yields the next packet; copied; non-blocking enqueue
  /\ EnvGuard
  /\ rpc[g] = "inRead" /\ carrier[g] = "open" /\ nDeliv < MaxDeliver
  /\ nDeliv' = nDeliv + 1
  /\ recvQ' = (IF Len(recvQ) < QCap THEN Append(recvQ, nDeliv + 1) ELSE recvQ)
  /\ rpc' = [rpc EXCEPT ![g] = "check"]
  /\ UNCHANGED <<dl, gen, closed, cause, carrier, wpc, xpc, rch, wch, wcur, sendQ, nWrite, nURead, last>>

ReadFails(g) ==          \* environment: carrier g's ReadFrom returns an error
  /\ EnvGuard
  /\ rpc[g] = "inRead" /\ carrier[g] = "open"
  /\ rpc' = [rpc EXCEPT ![g] = "sendErr"]
  /\ UNCHANGED <<dl, gen, closed, cause, carrier, wpc, xpc, rch, wch, wcur, sendQ, recvQ, nDeliv, nWrite, nURead, last>>

WriteOK(g) ==            \* environment: carrier g accepts the packet
  /\ EnvGuard
  /\ wpc[g] = "inWrite" /\ carrier[g] = "open"
  /\ wpc' = [wpc EXCEPT ![g] = "select"] /\ wcur' = [wcur EXCEPT ![g] = 0]
  /\ UNCHANGED <<dl, gen, closed, cause, carrier, rpc, xpc, rch, wch, sendQ, recvQ, nDeliv, nWrite, nURead, last>>

WriteFails(g) ==         \* environment: carrier g's WriteTo returns an error
  /\ EnvGuard
  /\ wpc[g] = "inWrite" /\ carrier[g] = "open"
  /\ wpc' = [wpc EXCEPT ![g] = "sendErr"] /\ wcur' = [wcur EXCEPT ![g] = 0]
  /\ UNCHANGED <<dl, gen, closed, cause, carrier, rpc, xpc, rch, wch, sendQ, recvQ, nDeliv, nWrite, nURead, last>>

BothFail(g) ==           \* environment: both directions of carrier g fail before either goroutine moves on
  /\ EnvGuard
  /\ rpc[g] = "inRead" /\ wpc[g] = "inWrite" /\ carrier[g] = "open"      \* (= ReadFails(g) . WriteFails(g))
  /\ rpc' = [rpc EXCEPT ![g] = "sendErr"]
  /\ wpc' = [wpc EXCEPT ![g] = "sendErr"] /\ wcur' = [wcur EXCEPT ![g] = 0]
  /\ UNCHANGED <<dl, gen, closed, cause, carrier, xpc, rch, wch, sendQ, recvQ, nDeliv, nWrite, nURead, last>>

UserReadOK ==            \* ReadFrom: not closed, a packet is queued
  /\ EnvGuard
  /\ ~closed /\ recvQ # <<>>
  /\ last' = [op |-> "read", res |-> "ok", pkt |-> Head(recvQ)]
  /\ recvQ' = Tail(recvQ)
  /\ UNCHANGED <<dl, gen, closed, cause, carrier, rpc, wpc, xpc, rch, wch, wcur, sendQ, nDeliv, nWrite, nURead>>

UserReadErr ==           \* ReadFrom after the conn was closed
  /\ EnvGuard
  /\ closed /\ nURead < MaxURead
  /\ nURead' = nURead + 1
  /\ last' = [op |-> "read", res |-> "err", pkt |-> 0]
  /\ UNCHANGED <<dl, gen, closed, cause, carrier, rpc, wpc, xpc, rch, wch, wcur, sendQ, recvQ, nDeliv, nWrite>>

UserWrite ==             \* WriteTo: copy, non-blocking enqueue (drop when full); error when closed
  /\ EnvGuard
  /\ nWrite < MaxWrite
  /\ nWrite' = nWrite + 1
  /\ IF closed
     THEN /\ last' = [op |-> "write", res |-> "err", pkt |-> nWrite + 1]
          /\ UNCHANGED sendQ
     ELSE /\ last' = [op |-> "write", res |-> "ok", pkt |-> nWrite + 1]
          /\ sendQ' = (IF Len(sendQ) < QCap THEN Append(sendQ, nWrite + 1) ELSE sendQ)
  /\ UNCHANGED <<dl, gen, closed, cause, carrier, rpc, wpc, xpc, rch, wch, wcur, recvQ, nDeliv, nURead>>

Close ==                 \* first Close closes c.closed and returns nil
  /\ EnvGuard
  /\ ~closed
  /\ closed' = TRUE /\ cause' = "close"
  /\ last' = [op |-> "close", res |-> "ok", pkt |-> 0]
  /\ UNCHANGED <<dl, gen, carrier, rpc, wpc, xpc, rch, wch, wcur, sendQ, recvQ, nDeliv, nWrite, nURead>>

CloseAgain ==            \* a Close of a closed conn reports an error and changes nothing
  /\ EnvGuard
  /\ closed /\ last.op # "close"      \* (bounds the repetition; any number is the same state)
  /\ last' = [op |-> "close", res |-> "err", pkt |-> 0]
  /\ UNCHANGED <<dl, gen, closed, cause, carrier, rpc, wpc, xpc, rch, wch, wcur, sendQ, recvQ, nDeliv, nWrite, nURead>>

EnvStep ==
  \/ DialOK \/ DialFails
  \/ (\E g \in Gens : Deliver(g) \/ ReadFails(g) \/ WriteOK(g) \/ WriteFails(g) \/ BothFail(g))
  \/ UserReadOK \/ UserReadErr \/ UserWrite \/ Close \/ CloseAgain

Next == Internal \/ EnvStep

Spec == Init /\ [][Next]_vars

(* One weak-fairness conjunct per goroutine step; none for the environment. *)
Fair ==
  /\ WF_vars(DlCheck) /\ WF_vars(DlCloseConn)
  /\ \A g \in Gens :
       /\ WF_vars(ExchangeRecvR(g)) /\ WF_vars(ExchangeRecvW(g))
       /\ WF_vars(ReaderSeesClosed(g)) /\ WF_vars(ReaderRecvW(g)) /\ WF_vars(ReaderDefault(g))
       /\ WF_vars(ReadFailsClosed(g)) /\ WF_vars(ReaderSendErrBuf(g))
       /\ WF_vars(WriterSeesClosed(g)) /\ WF_vars(WriterRecvR(g)) /\ WF_vars(WriterTake(g))
       /\ WF_vars(WriteFailsClosed(g)) /\ WF_vars(WriterSendErrBuf(g))
FairSpec == Spec /\ Fair

(* Additionally: a carrier's WriteTo eventually returns (needed only for
   CloseReleases - a writer parked inside a carrier write cannot see Close). *)
FairCarrierSpec == FairSpec /\ \A g \in Gens : WF_vars(WriteOK(g) \/ WriteFails(g))

-----------------------------------------------------------------------------
(* Properties *)

PcR == {"none", "check", "inRead", "sendErr", "done"}
PcW == {"none", "select", "inWrite", "sendErr", "done"}
TypeOK ==
  /\ dl \in {"check", "dial", "exch", "closeConn", "done"} /\ gen \in 0..G
  /\ closed \in BOOLEAN /\ cause \in {"none", "close", "dialfail"}
  /\ carrier \in [Gens -> {"none", "open", "closed"}]
  /\ rpc \in [Gens -> PcR] /\ wpc \in [Gens -> PcW] /\ xpc \in [Gens -> {"none", "wait", "ret"}]
  /\ \A g \in Gens : rch[g].n \in 0..ErrChanCap /\ wch[g].n \in 0..ErrChanCap
  /\ Len(sendQ) <= QCap /\ Len(recvQ) <= QCap

(* The conn fails user operations only after Close or a failed dial. *)
ErrorOnlyAfterCloseOrDialFail ==
  /\ (closed <=> cause # "none")
  /\ (last.res = "err" => cause # "none")
ErrorStep ==   \* as an action property: an operation that reports an error happens in a closed conn
  [][(last'.res = "err" /\ last' # last) => closed]_vars

(* At most one carrier is open at any time, and it is the latest one. *)
AtMostOneActive ==
  /\ Cardinality({g \in Gens : carrier[g] = "open"}) <= 1
  /\ \A g \in Gens : carrier[g] = "open" => (g = gen /\ dl \in {"exch", "closeConn"})
  /\ \A g \in Gens : xpc[g] = "wait" => (g = gen /\ dl = "exch")

(* Every carrier obtained is closed before the next dial and when dialLoop ends. *)
EveryCarrierClosed ==
  (dl \in {"check", "dial", "done"}) => \A g \in Gens : g <= gen => carrier[g] = "closed"

(* Packets are written only to an open-or-just-closed carrier of their own
   generation; structural here.  Queue contents are distinct packets in
   acceptance order (FIFO / identity): ids are issued increasingly. *)
Increasing(s) == \A i \in 1..(Len(s) - 1) : s[i] < s[i + 1]
QueuesFIFO == Increasing(recvQ) /\ Increasing(sendQ)
               /\ (\A i \in DOMAIN recvQ : recvQ[i] \in 1..nDeliv)
               /\ (\A i \in DOMAIN sendQ : sendQ[i] \in 1..nWrite)
ReadIsHead ==  \* a successful user read returns the oldest accepted packet not yet returned
  [][(last'.op = "read" /\ last'.res = "ok" /\ last' # last) => (recvQ # <<>> /\ last'.pkt = Head(recvQ) /\ recvQ' = Tail(recvQ))]_vars

(* Safety form of NoLeak, meaningful in states at rest (used on observed
   executions, where every quiescent point of the real code is a state at rest). *)
Abandoned(g) == xpc[g] = "ret" /\ carrier[g] = "closed"
GoroutinesGone(g) == rpc[g] = "done" /\ wpc[g] = "done"
NoLeakAtRest == AtRest => \A g \in Gens : Abandoned(g) => GoroutinesGone(g)

(* Liveness. *)
NoLeak == \A g \in Gens : Abandoned(g) ~> GoroutinesGone(g)

(* After the conn is closed dialLoop ends with every carrier closed, unless
   it is inside a dialContext call that does not return (environment). *)
CloseReleases == closed ~> (dl = "dial" \/ (dl = "done" /\ \A g \in Gens : g <= gen => carrier[g] = "closed"))

=============================================================================
