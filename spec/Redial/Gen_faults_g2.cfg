CONSTANTS
  G = 2
  ErrChanCap = 1
  QCap = 4
  MaxDeliver = 0
  MaxWrite = 2
  MaxURead = 0
  EnvAtRest = TRUE
  FaultsOnly = TRUE
SPECIFICATION GenSpec
INVARIANTS TypeOK
CHECK_DEADLOCK FALSE
