CONSTANTS
  T = 10
  Fns = {"check"}
  Full = FALSE
  MaxServers = 2
  MaxSilent = 1
  Pollers = {"q1"}
  MaxPolls = 1
SPECIFICATION GSpec
INVARIANT Emit
CHECK_DEADLOCK FALSE
