CONSTANTS
  T = 10
  Fns = {"check"}
  Full = FALSE
  AsIs_Leak = FALSE
SPECIFICATION Spec
INVARIANTS NeverDupServed
CHECK_DEADLOCK FALSE
