------------------------------ MODULE NatTable ------------------------------
(* Constant level of spec/NatDiscovery: the grammar of scripted STUN server behaviours and the
   CONTRACT of common/nat (the classification table).  NatDiscovery.tla (the machine of the two
   tests) and NatClient.tla (updateNATType and the BrokerChannel) both extend it.  The commentary
   is in NatDiscovery.tla. *)
EXTENDS Integers, Sequences, FiniteSets, TLC, Json

CONSTANTS
  T,            \* RoundTrip timeout in ticks
  Fns,          \* which tests: subset of {"check", "filtering"}   ("check" = CheckIfRestrictedNAT = mapping)
  Full          \* BOOLEAN: full response grammar / reduced (quick)

Pick(full, reduced) == IF Full THEN full ELSE reduced

-----------------------------------------------------------------------------
(* ---- the case: address class and the two scripted responses ---- *)
BadAddrs  == {"noport", "turnurl", "badhost", "badport", "v6"}       \* net.ResolveUDPAddr("udp4", ..) fails
Addrs     == {"ok", "empty"} \cup BadAddrs
BadKinds  == {"garbage", "short", "oversize"}                        \* the listener cannot Decode them
BareKinds == {"noxor", "errresp"}                                    \* STUN messages without XOR-MAPPED-ADDRESS
Others    == {"alt", "self", "none", "changed", "v6"}
UsableOthers == {"alt", "self"}

Silent == [kind |-> "silent", other |-> "-", mapped |-> "-", from |-> "-", txid |-> "-", copies |-> 0, delay |-> 0]
Plain(k, f) == [kind |-> k, other |-> "-", mapped |-> "-", from |-> f, txid |-> "echo", copies |-> 1, delay |-> 0]
Success(o, m, f, x, c, d) == [kind |-> "success", other |-> o, mapped |-> m, from |-> f, txid |-> x, copies |-> c, delay |-> d]

Froms == {"dst", "cross"}
Txids == {"echo", "wrong"}
(* reduced grammar: source and transaction id vary together *)
FromTx == Pick(Froms \X Txids, {<<"dst", "echo">>, <<"cross", "wrong">>})

R1s(fn) ==
  {Silent}
  \cup {Plain(k, f) : k \in BadKinds \cup BareKinds, f \in Pick(Froms, {"dst"})}
  \cup {Success(o, "same", ft[1], ft[2], c, d) :
          o \in (IF fn = "filtering" THEN {"none", "alt"} ELSE Others), ft \in FromTx, c \in {1, 2}, d \in {0, 1}}

R2s(fn) ==
  {Silent}
  \cup {Plain(k, f) : k \in BadKinds \cup BareKinds, f \in Pick(Froms, {"dst"})}
  \cup {Success("-", m, ft[1], ft[2], c, d) :
          m \in (IF fn = "filtering" THEN {"same"} ELSE {"same", "diffport", "diffip"}), ft \in FromTx, c \in {1, 2}, d \in {0, 1}}

(* does the first response lead to a second request at all *)
Proceeds(fn, a, r) == a = "ok" /\ r.kind = "success" /\ (fn = "filtering" \/ r.other \in UsableOthers)

Cases == {c \in [fn : Fns, addr : Addrs, r1 : UNION {R1s(f) : f \in Fns}, r2 : UNION {R2s(f) : f \in Fns}] :
            /\ c.r1 \in R1s(c.fn) /\ c.r2 \in R2s(c.fn)
            /\ (c.addr # "ok" => c.r1 = Silent)
            /\ (~Proceeds(c.fn, c.addr, c.r1) => c.r2 = Silent)}

-----------------------------------------------------------------------------
(* ---- the contract: the classification table ---- *)
Res(r, s, c, t, n) == [restricted |-> r, stage |-> s, cause |-> c, ticks |-> t, requests |-> n]
Ok(r, t)        == Res(r, "none", "none", t, 2)
Err(s, c, t, n) == Res(FALSE, s, c, t, n)        \* S8: an error is always (false, err)

(* mapping test; stage names follow the code's error prefixes *)
MapSecond(r1, r2) ==
  IF r1.copies = 2 THEN Ok(FALSE, r1.delay)                                   \* S1: the duplicate is "the answer"
  ELSE CASE r2.kind = "silent"    -> Err("roundtrip2", "timeout", r1.delay + T, 2)
         [] r2.kind \in BadKinds  -> Err("roundtrip2", "chan", r1.delay + r2.delay, 2)      \* S3
         [] r2.kind \in BareKinds -> Err("xor", "attr", r1.delay + r2.delay, 2)
         [] OTHER                 -> Ok(r2.mapped # "same", r1.delay + r2.delay)

MapContract(a, r1, r2) ==
  CASE a \in BadAddrs          -> Err("connect", "resolve", 0, 0)                        \* S7
    [] a = "empty"             -> Err("roundtrip1", "other", 0, 0)                       \* S7: WriteTo fails
    [] r1.kind = "silent"      -> Err("roundtrip1", "timeout", T, 1)
    [] r1.kind \in BadKinds    -> Err("roundtrip1", "chan", r1.delay, 1)                 \* S3
    [] r1.kind \in BareKinds   -> Err("xor", "attr", r1.delay, 1)
    [] r1.other \in {"none", "changed"} -> Err("notsupported", "attr", r1.delay, 1)      \* S4
    [] r1.other = "v6"         -> Err("resolveother", "resolve", r1.delay, 1)            \* S5
    [] OTHER                   -> MapSecond(r1, r2)

(* filtering test: errors come back unwrapped, the stage is not visible ("any") *)
FilSecond(r1, r2) ==
  IF r1.copies = 2 THEN Ok(FALSE, r1.delay)
  ELSE CASE r2.kind = "silent"   -> Ok(TRUE, r1.delay + T)                                  \* the only way to "restricted"
         [] r2.kind \in BadKinds -> Err("any", "chan", r1.delay + r2.delay, 2)
         [] OTHER                -> Ok(FALSE, r1.delay + r2.delay)                           \* S6: any STUN message

FilContract(a, r1, r2) ==
  CASE a \in BadAddrs         -> Err("any", "resolve", 0, 0)
    [] a = "empty"            -> Err("any", "other", 0, 0)
    [] r1.kind = "silent"     -> Err("any", "timeout", T, 1)
    [] r1.kind \in BadKinds   -> Err("any", "chan", r1.delay, 1)
    [] r1.kind \in BareKinds  -> Err("any", "attr", r1.delay, 1)
    [] OTHER                  -> FilSecond(r1, r2)

Contract(c) == IF c.fn = "filtering" THEN FilContract(c.addr, c.r1, c.r2) ELSE MapContract(c.addr, c.r1, c.r2)

(* the table in one line each, for the reader:
     unrestricted  <=>  both round trips answered with XOR-MAPPED-ADDRESS and x2 = x1
     restricted    <=>  both answered and x2 # x1
     error         <=>  everything else: no/undecodable/attribute-less answer, no usable OTHER-ADDRESS, bad address *)
Classification(c) == LET k == Contract(c) IN IF k.stage # "none" THEN "error" ELSE IF k.restricted THEN "restricted" ELSE "unrestricted"
BoundTicks == 2 * T       \* an answered first round trip (< T) and an expired second one (T)

=============================================================================
