CONSTANTS
  T = 10
  Fns = {"check"}
  Full = FALSE
  MaxServers = 3
  MaxSilent = 3
  Pollers = {"q1", "q2"}
  MaxPolls = 2
SPECIFICATION Spec
INVARIANTS TypeOK FinalIsContract ReportedOK UnknownUntilCompleted StopAtFirst NoRace NeverBlocksPolls
PROPERTIES SetOnce
CHECK_DEADLOCK FALSE
