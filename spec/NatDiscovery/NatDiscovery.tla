---------------------------- MODULE NatDiscovery ----------------------------
(* Client-side NAT discovery: common/nat/nat.go.

   CheckIfRestrictedNAT(server) is isRestrictedMapping(server): ONE of the two
   RFC 5780 tests.  isRestrictedFiltering is still in the package but has no
   caller ("determined only by their mapping type"); it is modelled and bound
   too (fn = "filtering") because it shares connect / RoundTrip / listen.

     mapping    Test I   binding request to the primary address      -> XOR-MAPPED-ADDRESS x1, OTHER-ADDRESS
                Test II  the SAME message (same transaction id) to OTHER-ADDRESS (other IP AND other port;
                         RFC 5780 4.3 sends to the other IP first and to the other port only if that
                         differs - the code does the combined step only)                -> x2
                restricted := x1 # x2         (address- or address-and-port-dependent mapping)
     filtering  Test I   as above (OTHER-ADDRESS not needed)
                Test III the request again to the PRIMARY address with CHANGE-REQUEST "change port"
                restricted := no answer within the timeout

   The machine, at the grain of the code:

     caller     connect (resolve udp4; ListenUDP; start the listener goroutine)
                RoundTrip k = WriteTo; select { message from messageChan | channel closed | time.After(10 s) }
                decode attributes; return; the deferred Close closes the socket
     listener   for { ReadFromUDP (1024-byte buffer); Decode; messages <- m }     messages is UNBUFFERED
                read error -> close(messages), exit      decode error -> close(messages), exit (for good)
     server     scripted: what it sends back for the first and for the second request (r1, r2)
     clock      explicit ticks; RoundTrip's timer T ticks; a response may be sent `delay` ticks late

   What the code does NOT look at (so the model's message has no such field, and the contract is
   the same over all these classes - the conformance cases vary them):
     * the source address of a response (an answer from the other socket, or from anyone, is taken);
     * the transaction id (a response to something else is taken);
     * the message type/class (an error response or an indication is a "response"; only the
       attributes are looked for).

   SURPRISES (all confirmed on the real code, see notes/NatDiscovery.md):
     S1 a DUPLICATE of the first response answers the second round trip (same transaction id, no
        source check): x2 = x1, the NAT is called unrestricted whatever the second answer would
        have said.  A late first response that arrives during the second round trip does the same.
     S2 a server that advertises ITSELF as OTHER-ADDRESS makes Test II a repetition of Test I:
        always unrestricted.
     S3 one undecodable datagram (garbage, shorter than a STUN header, or longer than the 1024-byte
        buffer) from anyone ends the listener: the round trip in flight and all later ones fail with
        "error reading from messageChan" at once - an ERROR, not a timeout, and not a classification.
     S4 RFC 3489 servers (CHANGED-ADDRESS 0x0005 instead of OTHER-ADDRESS 0x802c) are "not supported".
     S5 OTHER-ADDRESS with an IPv6 address: error (udp4 only).
     S6 filtering: ANY decodable STUN message during Test III means "unrestricted", also an error
        response, also one from the SAME port (a server that ignores CHANGE-REQUEST).
     S7 the address must be host:port: a STUN URL without a port (RFC 7064 default 3478), a turn:
        URL, an IPv6 literal: error before any packet; an EMPTY address resolves "successfully" and
        fails in the first WriteTo.
     S8 errors never classify: every error is (false, err); the caller must look at err first.

   DEVIATION CONSTANT
     AsIs_Leak = TRUE: the pinned code.  A message that arrives when nobody will receive any more
        (second copy of the last response, an answer to Test II after a duplicate already served
        it) is read by the listener, which then blocks in `messages <- m` FOR EVER: Close only
        closes the socket and that wakes a reader, not a sender.  One goroutine (+1 KiB buffer) per
        call stays behind.  Repaired: Close drains the channel until the listener has closed it.

   PROPERTIES
     Total            the call returns for every server behaviour (liveness under WF of the code's
                      own steps and of the clock), never later than BoundTicks
     ResultIsContract what it returns is Contract(case): the classification table
     SocketClosed     when it has returned the socket is closed (or was never opened)
     NoListenerLeft   when it has returned the listener is not parked in its send; ListenerExits
     OneTimeoutAtMost a call waits for at most one timeout (an expired round trip returns)

   DON'T-CARE: the text of error messages (the conformance driver maps prefixes to stage names;
   for fn = "filtering" errors are returned unwrapped and the stage is "any"); what happens when a
   response and the timeout fall on the same instant (Go's select picks either; the cases avoid
   ties: delay < T). *)
EXTENDS NatTable

CONSTANT AsIs_Leak

-----------------------------------------------------------------------------
(* ---- the machine ---- *)
NoMsg == [dec |-> "-", xor |-> "-", other |-> "-"]
(* what Decode + the attribute getters can see of a response: nothing of from / txid (see above) *)
MsgOf(r) == IF r.kind \in BadKinds THEN [dec |-> "bad", xor |-> "-", other |-> "-"]
            ELSE IF r.kind \in BareKinds THEN [dec |-> "stun", xor |-> "none", other |-> "-"]
            ELSE [dec |-> "stun", xor |-> r.mapped, other |-> r.other]

VARIABLES
  cs,        \* the case
  pc,        \* caller: connect send1 wait1 proc1 send2 wait2 proc2 close drain ret
  sock,      \* none | open | closed
  lst,       \* listener goroutine: none | read | send | exited
  held,      \* the message it holds in `messages <- m`
  ch,        \* messageChan: none | open | closed
  net,       \* datagrams on their way to the client's socket: sequence of [msg, due]
  timer,     \* time.After of the RoundTrip in progress: remaining ticks, -1 = none
  got,       \* message the RoundTrip returned
  x1,        \* first mapped address
  res,       \* what the call returns
  sent,      \* requests written (ghost)
  elapsed,   \* ticks since the call (ghost)
  nto        \* timeouts taken (ghost)

vars == <<cs, pc, sock, lst, held, ch, net, timer, got, x1, res, sent, elapsed, nto>>
NoRes == [restricted |-> FALSE, stage |-> "-", cause |-> "-"]

Init ==
  /\ cs \in Cases
  /\ pc = "connect" /\ sock = "none" /\ lst = "none" /\ held = NoMsg /\ ch = "none" /\ net = <<>>
  /\ timer = -1 /\ got = NoMsg /\ x1 = "-" /\ res = NoRes /\ sent = 0 /\ elapsed = 0 /\ nto = 0

Mapping == cs.fn # "filtering"
StageOr(s) == IF Mapping THEN s ELSE "any"

(* return statement: the result is fixed, the deferred Close runs next (only if connect succeeded) *)
Return(r, s, c) ==
  /\ res' = [restricted |-> r, stage |-> s, cause |-> c]
  /\ pc' = IF sock = "open" THEN "close" ELSE "ret"
  /\ timer' = -1

Connect ==
  /\ pc = "connect"
  /\ IF cs.addr \in BadAddrs
     THEN Return(FALSE, StageOr("connect"), "resolve") /\ UNCHANGED <<sock, lst, ch>>
     ELSE sock' = "open" /\ lst' = "read" /\ ch' = "open" /\ pc' = "send1" /\ UNCHANGED <<res, timer>>
  /\ UNCHANGED <<cs, held, net, got, x1, sent, elapsed, nto>>

(* the scripted server: everything it sends for request k enters the network at once, in order *)
Reply(r) == [i \in 1..r.copies |-> [msg |-> MsgOf(r), due |-> r.delay]]

Send(k) ==
  /\ pc = (IF k = 1 THEN "send1" ELSE "send2")
  /\ IF cs.addr = "empty"
     THEN Return(FALSE, StageOr("roundtrip1"), "other") /\ UNCHANGED <<net, sent>>         \* WriteTo: invalid argument
     ELSE /\ net' = net \o Reply(IF k = 1 THEN cs.r1 ELSE cs.r2)
          /\ sent' = sent + 1 /\ timer' = T /\ pc' = (IF k = 1 THEN "wait1" ELSE "wait2")
          /\ UNCHANGED res
  /\ UNCHANGED <<cs, sock, lst, held, ch, got, x1, elapsed, nto>>

Waiting == pc \in {"wait1", "wait2"}
K == IF pc = "wait1" THEN 1 ELSE 2

(* select case: a message *)
Recv ==
  /\ Waiting /\ lst = "send"
  /\ got' = held /\ held' = NoMsg /\ lst' = "read" /\ timer' = -1
  /\ pc' = (IF K = 1 THEN "proc1" ELSE "proc2")
  /\ UNCHANGED <<cs, sock, ch, net, x1, res, sent, elapsed, nto>>

(* select case: the channel is closed (the listener gave up) *)
RecvClosed ==
  /\ Waiting /\ ch = "closed"
  /\ Return(FALSE, StageOr(IF K = 1 THEN "roundtrip1" ELSE "roundtrip2"), "chan")
  /\ UNCHANGED <<cs, sock, lst, held, ch, net, got, x1, sent, elapsed, nto>>

(* select case: time.After *)
Timeout ==
  /\ Waiting /\ timer = 0
  /\ nto' = nto + 1
  /\ IF Mapping \/ K = 1
     THEN Return(FALSE, StageOr(IF K = 1 THEN "roundtrip1" ELSE "roundtrip2"), "timeout")
     ELSE Return(TRUE, "none", "none")                       \* filtering, Test III: silence IS the result
  /\ UNCHANGED <<cs, sock, lst, held, ch, net, got, x1, sent, elapsed>>

Proc1 ==
  /\ pc = "proc1"
  /\ IF got.xor = "none" THEN Return(FALSE, StageOr("xor"), "attr") /\ UNCHANGED x1
     ELSE /\ x1' = got.xor
          /\ IF Mapping /\ got.other \in {"none", "changed"} THEN Return(FALSE, "notsupported", "attr")
             ELSE IF Mapping /\ got.other = "v6" THEN Return(FALSE, "resolveother", "resolve")
             ELSE pc' = "send2" /\ UNCHANGED <<res, timer>>
  /\ UNCHANGED <<cs, sock, lst, held, ch, net, got, sent, elapsed, nto>>

Proc2 ==
  /\ pc = "proc2"
  /\ IF Mapping
     THEN IF got.xor = "none" THEN Return(FALSE, "xor", "attr") ELSE Return(got.xor # x1, "none", "none")
     ELSE Return(FALSE, "none", "none")                                                  \* S6
  /\ UNCHANGED <<cs, sock, lst, held, ch, net, got, x1, sent, elapsed, nto>>

(* deferred mapTestConn.Close() *)
Close ==
  /\ pc = "close"
  /\ sock' = "closed"
  /\ pc' = IF AsIs_Leak THEN "ret" ELSE "drain"
  /\ UNCHANGED <<cs, lst, held, ch, net, timer, got, x1, res, sent, elapsed, nto>>

(* repaired Close: for range c.messageChan {} *)
DrainOne ==
  /\ pc = "drain" /\ lst = "send"
  /\ held' = NoMsg /\ lst' = "read"
  /\ UNCHANGED <<cs, pc, sock, ch, net, timer, got, x1, res, sent, elapsed, nto>>
DrainEnd ==
  /\ pc = "drain" /\ ch = "closed"
  /\ pc' = "ret"
  /\ UNCHANGED <<cs, sock, lst, held, ch, net, timer, got, x1, res, sent, elapsed, nto>>

CallerStep == Connect \/ Send(1) \/ Send(2) \/ Recv \/ RecvClosed \/ Timeout \/ Proc1 \/ Proc2 \/ Close \/ DrainOne \/ DrainEnd

(* ---- the listener goroutine ---- *)
DueNow == net # <<>> /\ Head(net).due = 0
LRead ==
  /\ lst = "read" /\ sock = "open" /\ DueNow
  /\ net' = Tail(net)
  /\ IF Head(net).msg.dec = "bad"
     THEN ch' = "closed" /\ lst' = "exited" /\ UNCHANGED held            \* S3
     ELSE held' = Head(net).msg /\ lst' = "send" /\ UNCHANGED ch
  /\ UNCHANGED <<cs, pc, sock, timer, got, x1, res, sent, elapsed, nto>>
LReadErr ==
  /\ lst = "read" /\ sock = "closed"
  /\ ch' = "closed" /\ lst' = "exited"
  /\ UNCHANGED <<cs, pc, sock, held, net, timer, got, x1, res, sent, elapsed, nto>>
ListenerStep == LRead \/ LReadErr

(* ---- the clock: advances only when the code is at rest ---- *)
AtRest == Waiting /\ lst # "send" /\ ch # "closed" /\ ~(lst = "read" /\ DueNow) /\ timer > 0
Tick ==
  /\ AtRest
  /\ timer' = timer - 1 /\ elapsed' = elapsed + 1
  /\ net' = [i \in DOMAIN net |-> [net[i] EXCEPT !.due = IF @ > 0 THEN @ - 1 ELSE 0]]
  /\ UNCHANGED <<cs, pc, sock, lst, held, ch, got, x1, res, sent, nto>>

Next == CallerStep \/ ListenerStep \/ Tick
Spec == Init /\ [][Next]_vars
LSpec == Spec /\ WF_vars(CallerStep) /\ WF_vars(ListenerStep) /\ WF_vars(Tick)

-----------------------------------------------------------------------------
(* ---- properties ---- *)
TypeOK ==
  /\ pc \in {"connect", "send1", "wait1", "proc1", "send2", "wait2", "proc2", "close", "drain", "ret"}
  /\ sock \in {"none", "open", "closed"} /\ lst \in {"none", "read", "send", "exited"} /\ ch \in {"none", "open", "closed"}
  /\ timer \in -1..T /\ sent \in 0..2 /\ elapsed \in 0..BoundTicks /\ nto \in 0..1

Returned == pc = "ret"
ResultIsContract ==
  Returned => LET k == Contract(cs) IN
                /\ res = [restricted |-> k.restricted, stage |-> k.stage, cause |-> k.cause]
                /\ elapsed = k.ticks /\ sent = k.requests
ErrorsNeverClassify == Returned /\ res.stage # "none" => res.restricted = FALSE
SocketClosed == Returned => sock \in {"none", "closed"}
NoListenerLeft == Returned => lst # "send"
OneTimeoutAtMost == nto <= 1 /\ (nto = 1 => elapsed >= T)
Bounded == elapsed <= BoundTicks /\ (Returned /\ nto = 0 => elapsed < T + 1)
(* the timer never runs while the call is not in a round trip *)
TimerOnlyInRoundTrip == timer >= 0 <=> Waiting
(* sensitivity helpers: configurations list them to show that TLC reaches the interesting cases *)
NeverRestricted == ~(Returned /\ res.restricted)
NeverDupServed == ~(Returned /\ cs.r1.copies = 2 /\ cs.r2.kind = "success" /\ cs.r2.mapped # "same" /\ res.stage = "none")

Total == <>Returned
ListenerExits == <>[](lst \in {"none", "exited"})

-----------------------------------------------------------------------------
(* ---- GenSpec: the cases for the conformance driver, with what the contract demands ---- *)
GInit ==
  /\ cs \in Cases
  /\ pc = "ret" /\ sock = "none" /\ lst = "none" /\ held = NoMsg /\ ch = "none" /\ net = <<>>
  /\ timer = -1 /\ got = NoMsg /\ x1 = "-" /\ res = NoRes /\ sent = 0 /\ elapsed = 0 /\ nto = 0
GSpec == GInit /\ [][UNCHANGED vars]_vars

Expect(c) == LET k == Contract(c) IN
  [restricted |-> k.restricted, stage |-> k.stage, cause |-> k.cause, ticks |-> k.ticks, requests |-> k.requests,
   class |-> Classification(c),
   second_at |-> (IF k.requests < 2 THEN "-" ELSE IF c.fn = "filtering" \/ c.r1.other = "self" THEN "primary" ELSE "alt"),
   change_request |-> (k.requests = 2 /\ c.fn = "filtering"),
   sock_bound |-> FALSE,                       \* SocketClosed
   listener_left |-> 0,                        \* NoListenerLeft / ListenerExits
   nontrivial |-> (k.stage # "none" \/ k.restricted \/ c.r1.copies = 2 \/ c.r2.copies = 2 \/ c.r1.from = "cross" \/ c.r2.from = "cross"
                   \/ c.r1.txid = "wrong" \/ c.r2.txid = "wrong" \/ c.r1.other = "self")]

Emit == PrintT(ToJson([fn |-> cs.fn, addr |-> cs.addr, r1 |-> cs.r1, r2 |-> cs.r2, expect |-> Expect(cs)]))
=============================================================================
