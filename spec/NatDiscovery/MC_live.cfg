CONSTANTS
  T = 10
  Fns = {"check", "filtering"}
  Full = FALSE
  AsIs_Leak = FALSE
SPECIFICATION LSpec
INVARIANTS TypeOK
PROPERTIES Total ListenerExits
CHECK_DEADLOCK FALSE
