CONSTANTS
  T = 10
  Fns = {"check", "filtering"}
  Full = FALSE
  AsIs_Leak = TRUE
SPECIFICATION Spec
INVARIANTS TypeOK ResultIsContract SocketClosed NoListenerLeft
CHECK_DEADLOCK FALSE
