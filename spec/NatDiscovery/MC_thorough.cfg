CONSTANTS
  T = 10
  Fns = {"check", "filtering"}
  Full = TRUE
  AsIs_Leak = FALSE
SPECIFICATION Spec
INVARIANTS TypeOK ResultIsContract ErrorsNeverClassify SocketClosed NoListenerLeft OneTimeoutAtMost Bounded TimerOnlyInRoundTrip
CHECK_DEADLOCK FALSE
