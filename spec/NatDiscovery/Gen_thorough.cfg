CONSTANTS
  T = 10
  Fns = {"check", "filtering"}
  Full = TRUE
  AsIs_Leak = FALSE
SPECIFICATION GSpec
INVARIANT Emit
CHECK_DEADLOCK FALSE
