CONSTANTS
  T = 10
  Fns = {"check", "filtering"}
  Full = FALSE
  AsIs_Leak = FALSE
SPECIFICATION GSpec
INVARIANT Emit
CHECK_DEADLOCK FALSE
