------------------------------ MODULE NatClient ------------------------------
(* How the result of NAT discovery becomes the `nat` member of client polls:
   client/lib/snowflake.go updateNATType (started as a goroutine by
   NewSnowflakeClient) and client/lib/rendezvous.go BrokerChannel (natType under
   bc.lock: written by SetNATType, read by Negotiate while it encodes the poll
   request; initial value "unknown" set by newBrokerChannelFromConfig).

     updateNATType(servers, broker):
        for each server, in order:  addr := TrimPrefix(URLs[0], "stun:")
                                    (restricted, err) := nat.CheckIfRestrictedNAT(addr)      [blocks: up to 2 round trips]
                                    err  -> log, next server
                                    else -> SetNATType(restricted / unrestricted); break
        if err != nil (the LAST call failed, i.e. every server failed): SetNATType(unknown)

   A server of the list is a behaviour class; its outcome is the CLASSIFICATION the contract of
   common/nat (NatTable.tla, checked against the machine in NatDiscovery.tla) gives to a
   representative case of that class - nothing about STUN is re-stated here.

   PROPERTIES
     Contract          when updateNATType has returned, natType is the class of the FIRST server
                       whose test completed, "unknown" if there is none (also for an empty list:
                       then nothing is stored at all)
     ReportedOK        every poll reports one of the three names, and reports anything but
                       "unknown" only if a test has completed - and then that test's class
     SetOnce           a measured value is never overwritten (in particular not by "unknown")
     StopAtFirst       servers after the first completed test are not contacted
     NoRace            natType is only touched with bc.lock held
     NeverBlocksPolls  the lock is not held while a STUN test is in flight; PollReturns (liveness)
     UpdateReturns     updateNATType ends (every test is Total: NatDiscovery)

   SURPRISES: a URL that is not literally "stun:host:port" (no port, "turn:", "stuns:", IPv6
   literal) is an ERROR for this purpose even when ICE can use it; only URLs[0] of a server is
   ever tried; NewSnowflakeClient shuffles the list and keeps half of it (when longer than two),
   so which server decides is random; the value is measured once per Transport and never
   refreshed. *)
EXTENDS NatTable

CONSTANTS
  MaxServers,    \* longest server list
  MaxSilent,     \* at most this many servers that never answer (10 s of real time each)
  Pollers,       \* poller ids (Spec)
  MaxPolls       \* polls per poller (Spec)

NAT == {"unknown", "restricted", "unrestricted"}

(* ---- server behaviour classes and their representative cases of NatTable ---- *)
Classes == {"restricted", "unrestricted", "noother", "garbage", "noport", "turnurl", "silent"}
OkR1 == Success("alt", "same", "dst", "echo", 1, 0)
Rep(cl) ==
  CASE cl = "restricted"   -> [fn |-> "check", addr |-> "ok", r1 |-> OkR1, r2 |-> Success("-", "diffport", "dst", "echo", 1, 0)]
    [] cl = "unrestricted" -> [fn |-> "check", addr |-> "ok", r1 |-> OkR1, r2 |-> Success("-", "same", "dst", "echo", 1, 0)]
    [] cl = "noother"      -> [fn |-> "check", addr |-> "ok", r1 |-> Success("none", "same", "dst", "echo", 1, 0), r2 |-> Silent]
    [] cl = "garbage"      -> [fn |-> "check", addr |-> "ok", r1 |-> Plain("garbage", "dst"), r2 |-> Silent]
    [] cl = "noport"       -> [fn |-> "check", addr |-> "noport", r1 |-> Silent, r2 |-> Silent]
    [] cl = "turnurl"      -> [fn |-> "check", addr |-> "turnurl", r1 |-> Silent, r2 |-> Silent]
    [] cl = "silent"       -> [fn |-> "check", addr |-> "ok", r1 |-> Silent, r2 |-> Silent]
Outcome(cl)  == Classification(Rep(cl))             \* "restricted" | "unrestricted" | "error"
Requests(cl) == Contract(Rep(cl)).requests
Ticks(cl)    == Contract(Rep(cl)).ticks
ASSUME \A cl \in Classes : Rep(cl) \in [fn : {"check"}, addr : Addrs, r1 : R1s("check"), r2 : R2s("check")]

(* ---- the contract ---- *)
RECURSIVE FirstDone(_, _)
FirstDone(s, i) == IF i > Len(s) THEN 0 ELSE IF Outcome(s[i]) # "error" THEN i ELSE FirstDone(s, i + 1)
Final(s) == IF FirstDone(s, 1) = 0 THEN "unknown" ELSE Outcome(s[FirstDone(s, 1)])
Tried(s) == IF FirstDone(s, 1) = 0 THEN Len(s) ELSE FirstDone(s, 1)       \* how many servers are called

-----------------------------------------------------------------------------
VARIABLES
  servers,    \* the case
  upc,        \* updateNATType: loop call set_lock set_cs after done
  i,          \* loop index
  err,        \* the err variable of updateNATType (TRUE = non-nil)
  toSet,      \* argument of the SetNATType call in progress
  brk,        \* the SetNATType call in progress is the one before `break`
  natType, lockOwner,
  contacted,  \* requests each server has received (ghost)
  completed,  \* class of the test that completed, "-" if none yet (ghost)
  qpc, qval, qn, reported,
  race

vars == <<servers, upc, i, err, toSet, brk, natType, lockOwner, contacted, completed, qpc, qval, qn, reported, race>>

Lists == UNION {[1..n -> Classes] : n \in 0..MaxServers}
NSilent(s) == Cardinality({k \in DOMAIN s : s[k] = "silent"})
CaseLists == {s \in Lists : NSilent(s) <= MaxSilent}

Init ==
  /\ servers \in CaseLists
  /\ upc = "loop" /\ i = 1 /\ err = FALSE /\ toSet = "-" /\ brk = FALSE
  /\ natType = "unknown" /\ lockOwner = ""
  /\ contacted = [k \in DOMAIN servers |-> 0] /\ completed = "-"
  /\ qpc = [q \in Pollers |-> "idle"] /\ qval = [q \in Pollers |-> "-"] /\ qn = [q \in Pollers |-> 0]
  /\ reported = [q \in Pollers |-> "-"]
  /\ race = FALSE

QVars == <<qpc, qval, qn, reported>>

ULoop ==
  /\ upc = "loop"
  /\ upc' = (IF i > Len(servers) THEN "after" ELSE "call")
  /\ UNCHANGED <<servers, i, err, toSet, brk, natType, lockOwner, contacted, completed, QVars, race>>

(* nat.CheckIfRestrictedNAT: blocks; Total (NatDiscovery) *)
UCall ==
  /\ upc = "call"
  /\ contacted' = [contacted EXCEPT ![i] = Requests(servers[i])]
  /\ IF Outcome(servers[i]) = "error"
     THEN err' = TRUE /\ i' = i + 1 /\ upc' = "loop" /\ UNCHANGED <<toSet, brk, completed>>
     ELSE err' = FALSE /\ toSet' = Outcome(servers[i]) /\ brk' = TRUE /\ completed' = Outcome(servers[i]) /\ upc' = "set_lock" /\ UNCHANGED i
  /\ UNCHANGED <<servers, natType, lockOwner, QVars, race>>

USetLock ==
  /\ upc = "set_lock" /\ lockOwner = ""
  /\ lockOwner' = "update" /\ upc' = "set_cs"
  /\ UNCHANGED <<servers, i, err, toSet, brk, natType, contacted, completed, QVars, race>>

USet ==
  /\ upc = "set_cs"
  /\ natType' = toSet /\ race' = (race \/ lockOwner # "update")
  /\ lockOwner' = "" /\ upc' = (IF brk THEN "after" ELSE "done") /\ brk' = FALSE
  /\ UNCHANGED <<servers, i, err, toSet, contacted, completed, QVars>>

UAfter ==
  /\ upc = "after"
  /\ IF err THEN toSet' = "unknown" /\ upc' = "set_lock"
     ELSE upc' = "done" /\ UNCHANGED toSet
  /\ UNCHANGED <<servers, i, err, brk, natType, lockOwner, contacted, completed, QVars, race>>

UpdateStep == ULoop \/ UCall \/ USetLock \/ USet \/ UAfter

(* ---- pollers: Negotiate encodes the request under bc.lock, then exchanges ---- *)
UVars == <<servers, upc, i, err, toSet, brk, natType, contacted, completed>>

PollStart(q) ==
  /\ qpc[q] = "idle" /\ qn[q] < MaxPolls
  /\ qpc' = [qpc EXCEPT ![q] = "q_lock"] /\ qn' = [qn EXCEPT ![q] = @ + 1]
  /\ UNCHANGED <<UVars, lockOwner, qval, reported, race>>
PollLock(q) ==
  /\ qpc[q] = "q_lock" /\ lockOwner = ""
  /\ lockOwner' = q /\ qpc' = [qpc EXCEPT ![q] = "q_cs"]
  /\ UNCHANGED <<UVars, qval, qn, reported, race>>
PollRead(q) ==
  /\ qpc[q] = "q_cs"
  /\ qval' = [qval EXCEPT ![q] = natType] /\ race' = (race \/ lockOwner # q)
  /\ lockOwner' = "" /\ qpc' = [qpc EXCEPT ![q] = "q_send"]
  /\ UNCHANGED <<UVars, qn, reported>>
PollSend(q) ==
  /\ qpc[q] = "q_send"
  /\ reported' = [reported EXCEPT ![q] = qval[q]] /\ qpc' = [qpc EXCEPT ![q] = "idle"]
  /\ UNCHANGED <<UVars, lockOwner, qval, qn, race>>
PollStep(q) == PollLock(q) \/ PollRead(q) \/ PollSend(q)

Next == UpdateStep \/ (\E q \in Pollers : PollStart(q) \/ PollStep(q))
Spec == Init /\ [][Next]_vars
(* sync.Mutex is starvation-free: strong fairness on the acquisitions *)
LSpec == Spec /\ WF_vars(ULoop \/ UCall \/ USet \/ UAfter) /\ SF_vars(USetLock)
              /\ \A q \in Pollers : WF_vars(PollRead(q) \/ PollSend(q)) /\ SF_vars(PollLock(q))

-----------------------------------------------------------------------------
TypeOK ==
  /\ natType \in NAT /\ upc \in {"loop", "call", "set_lock", "set_cs", "after", "done"}
  /\ \A q \in Pollers : reported[q] \in NAT \cup {"-"}
FinalIsContract == upc = "done" => natType = Final(servers)
ReportedOK == \A q \in Pollers : reported[q] \notin {"-", "unknown"} => (completed # "-" /\ reported[q] = completed /\ reported[q] = Final(servers))
UnknownUntilCompleted == completed = "-" => natType = "unknown"
StopAtFirst == /\ (\A k \in DOMAIN servers : (k > Tried(servers) => contacted[k] = 0))
               /\ (upc = "done" => (\A j \in 1..Tried(servers) : contacted[j] = Requests(servers[j])))
NoRace == ~race
NeverBlocksPolls == upc = "call" => lockOwner # "update"
SetOnce == [][natType # "unknown" => natType' = natType]_vars
UpdateReturns == <>(upc = "done")
PollReturns == \A q \in Pollers : (qpc[q] # "idle") ~> (qpc[q] = "idle")

-----------------------------------------------------------------------------
(* GenSpec: server lists for the conformance driver.  The driver polls before updateNATType
   starts, while the first request that reaches any server is held (nothing has completed then),
   and after it has returned. *)
GInit ==
  /\ servers \in CaseLists
  /\ upc = "done" /\ i = 1 /\ err = FALSE /\ toSet = "-" /\ brk = FALSE
  /\ natType = "unknown" /\ lockOwner = ""
  /\ contacted = [k \in DOMAIN servers |-> 0] /\ completed = "-"
  /\ qpc = [q \in Pollers |-> "idle"] /\ qval = [q \in Pollers |-> "-"] /\ qn = [q \in Pollers |-> 0]
  /\ reported = [q \in Pollers |-> "-"]
  /\ race = FALSE
GSpec == GInit /\ [][UNCHANGED vars]_vars

RECURSIVE SumTicks(_, _)
SumTicks(s, n) == IF n = 0 THEN 0 ELSE Ticks(s[n]) + SumTicks(s, n - 1)
NonError(s) == Cardinality({k \in DOMAIN s : Outcome(s[k]) # "error"})

Expect(s) ==
  [before |-> "unknown",
   held |-> (\E k \in 1..Tried(s) : Requests(s[k]) > 0),      \* some request reaches a server: a poll is made while it is held
   during |-> "unknown",                                     \* UnknownUntilCompleted
   after |-> Final(s),
   contacted |-> [k \in DOMAIN s |-> IF k <= Tried(s) THEN Requests(s[k]) ELSE 0],
   ticks |-> SumTicks(s, Tried(s)),
   \* NewSnowflakeClient shuffles the list (and halves it when longer than two): only lists whose
   \* result does not depend on the order can also be run through it
   order_free |-> (Len(s) <= 2 /\ NonError(s) <= 1),
   nontrivial |-> (Len(s) = 0 \/ \E k \in 1..Tried(s) : Outcome(s[k]) = "error")]

Emit == PrintT(ToJson([servers |-> servers, expect |-> Expect(servers)]))
=============================================================================
