CONSTANTS
  T = 10
  Fns = {"check"}
  Full = FALSE
  MaxServers = 2
  MaxSilent = 2
  Pollers = {"q1", "q2"}
  MaxPolls = 1
SPECIFICATION LSpec
INVARIANTS TypeOK
PROPERTIES UpdateReturns PollReturns
CHECK_DEADLOCK FALSE
