---- MODULE ClientMain_TTrace_1790417626 ----
EXTENDS ClientMain, Sequences, TLCExt, Toolbox, Naturals, TLC

_expression ==
    LET ClientMain_TEExpression == INSTANCE ClientMain_TEExpression
    IN ClientMain_TEExpression!expression
----

_trace ==
    LET ClientMain_TETrace == INSTANCE ClientMain_TETrace
    IN ClientMain_TETrace!trace
----

_inv ==
    ~(
        TLCGet("level") = Len(_TETrace)
        /\
        wg = (0)
        /\
        shared = (("max" :> 0 @@ "url" :> 0 @@ "utls-nosni" :> 0))
        /\
        C = (<<[args |-> ("max" :> "absent" @@ "url" :> "absent" @@ "utls-nosni" :> "absent"), h |-> "none", cfg |-> ("max" :> -1 @@ "url" :> -1 @@ "utls-nosni" :> -1), seen |-> ("max" :> -1 @@ "url" :> -1 @@ "utls-nosni" :> -1), reply |-> "none", d |-> "none", dialplan |-> "ok", dialerr |-> FALSE, hch |-> FALSE, u |-> "none", uhold |-> 0, v |-> "none", vhold |-> 0, done |-> 0, recvd |-> 0, sq |-> <<>>, ssent |-> 0, send |-> "open", staken |-> 0, sclosed |-> 0, swfail |-> FALSE, sgot |-> <<>>, fq |-> <<>>, fsent |-> 0, fend |-> "open", ftaken |-> 0, fclosed |-> 0, fwfail |-> FALSE, fgot |-> <<>>, lostUp |-> 0, lostDown |-> 0]>>)
        /\
        L = ([pc |-> "accept", temps |-> 1, pauses |-> 0, spin |-> 1, perm |-> FALSE, nacc |-> 0, lncloses |-> 0])
        /\
        M = ([pc |-> "serve", sigq |-> 0, stdin |-> "open", lnClosed |-> FALSE])
        /\
        shutdown = (FALSE)
    )
----

_init ==
    /\ shutdown = _TETrace[1].shutdown
    /\ shared = _TETrace[1].shared
    /\ C = _TETrace[1].C
    /\ L = _TETrace[1].L
    /\ M = _TETrace[1].M
    /\ wg = _TETrace[1].wg
----

_next ==
    /\ \E i,j \in DOMAIN _TETrace:
        /\ \/ /\ j = i + 1
              /\ i = TLCGet("level")
        /\ shutdown  = _TETrace[i].shutdown
        /\ shutdown' = _TETrace[j].shutdown
        /\ shared  = _TETrace[i].shared
        /\ shared' = _TETrace[j].shared
        /\ C  = _TETrace[i].C
        /\ C' = _TETrace[j].C
        /\ L  = _TETrace[i].L
        /\ L' = _TETrace[j].L
        /\ M  = _TETrace[i].M
        /\ M' = _TETrace[j].M
        /\ wg  = _TETrace[i].wg
        /\ wg' = _TETrace[j].wg

\* Uncomment the ASSUME below to write the states of the error trace
\* to the given file in Json format. Note that you can pass any tuple
\* to `JsonSerialize`. For example, a sub-sequence of _TETrace.
    \* ASSUME
    \*     LET J == INSTANCE Json
    \*         IN J!JsonSerialize("ClientMain_TTrace_1790417626.json", _TETrace)

=============================================================================

 Note that you can extract this module `ClientMain_TEExpression`
  to a dedicated file to reuse `expression` (the module in the 
  dedicated `ClientMain_TEExpression.tla` file takes precedence 
  over the module `ClientMain_TEExpression` below).

---- MODULE ClientMain_TEExpression ----
EXTENDS ClientMain, Sequences, TLCExt, Toolbox, Naturals, TLC

expression == 
    [
        \* To hide variables of the `ClientMain` spec from the error trace,
        \* remove the variables below.  The trace will be written in the order
        \* of the fields of this record.
        shutdown |-> shutdown
        ,shared |-> shared
        ,C |-> C
        ,L |-> L
        ,M |-> M
        ,wg |-> wg
        
        \* Put additional constant-, state-, and action-level expressions here:
        \* ,_stateNumber |-> _TEPosition
        \* ,_shutdownUnchanged |-> shutdown = shutdown'
        
        \* Format the `shutdown` variable as Json value.
        \* ,_shutdownJson |->
        \*     LET J == INSTANCE Json
        \*     IN J!ToJson(shutdown)
        
        \* Lastly, you may build expressions over arbitrary sets of states by
        \* leveraging the _TETrace operator.  For example, this is how to
        \* count the number of times a spec variable changed up to the current
        \* state in the trace.
        \* ,_shutdownModCount |->
        \*     LET F[s \in DOMAIN _TETrace] ==
        \*         IF s = 1 THEN 0
        \*         ELSE IF _TETrace[s].shutdown # _TETrace[s-1].shutdown
        \*             THEN 1 + F[s-1] ELSE F[s-1]
        \*     IN F[_TEPosition - 1]
    ]

=============================================================================



Parsing and semantic processing can take forever if the trace below is long.
 In this case, it is advised to uncomment the module below to deserialize the
 trace from a generated binary file.

\*
\*---- MODULE ClientMain_TETrace ----
\*EXTENDS ClientMain, IOUtils, TLC
\*
\*trace == IODeserialize("ClientMain_TTrace_1790417626.bin", TRUE)
\*
\*=============================================================================
\*

---- MODULE ClientMain_TETrace ----
EXTENDS ClientMain, TLC

trace == 
    <<
    ([wg |-> 0,shared |-> ("max" :> 0 @@ "url" :> 0 @@ "utls-nosni" :> 0),C |-> <<[args |-> ("max" :> "absent" @@ "url" :> "absent" @@ "utls-nosni" :> "absent"), h |-> "none", cfg |-> ("max" :> -1 @@ "url" :> -1 @@ "utls-nosni" :> -1), seen |-> ("max" :> -1 @@ "url" :> -1 @@ "utls-nosni" :> -1), reply |-> "none", d |-> "none", dialplan |-> "ok", dialerr |-> FALSE, hch |-> FALSE, u |-> "none", uhold |-> 0, v |-> "none", vhold |-> 0, done |-> 0, recvd |-> 0, sq |-> <<>>, ssent |-> 0, send |-> "open", staken |-> 0, sclosed |-> 0, swfail |-> FALSE, sgot |-> <<>>, fq |-> <<>>, fsent |-> 0, fend |-> "open", ftaken |-> 0, fclosed |-> 0, fwfail |-> FALSE, fgot |-> <<>>, lostUp |-> 0, lostDown |-> 0]>>,L |-> [pc |-> "accept", temps |-> 0, pauses |-> 0, spin |-> 0, perm |-> FALSE, nacc |-> 0, lncloses |-> 0],M |-> [pc |-> "serve", sigq |-> 0, stdin |-> "open", lnClosed |-> FALSE],shutdown |-> FALSE]),
    ([wg |-> 0,shared |-> ("max" :> 0 @@ "url" :> 0 @@ "utls-nosni" :> 0),C |-> <<[args |-> ("max" :> "absent" @@ "url" :> "absent" @@ "utls-nosni" :> "absent"), h |-> "none", cfg |-> ("max" :> -1 @@ "url" :> -1 @@ "utls-nosni" :> -1), seen |-> ("max" :> -1 @@ "url" :> -1 @@ "utls-nosni" :> -1), reply |-> "none", d |-> "none", dialplan |-> "ok", dialerr |-> FALSE, hch |-> FALSE, u |-> "none", uhold |-> 0, v |-> "none", vhold |-> 0, done |-> 0, recvd |-> 0, sq |-> <<>>, ssent |-> 0, send |-> "open", staken |-> 0, sclosed |-> 0, swfail |-> FALSE, sgot |-> <<>>, fq |-> <<>>, fsent |-> 0, fend |-> "open", ftaken |-> 0, fclosed |-> 0, fwfail |-> FALSE, fgot |-> <<>>, lostUp |-> 0, lostDown |-> 0]>>,L |-> [pc |-> "accept", temps |-> 1, pauses |-> 0, spin |-> 1, perm |-> FALSE, nacc |-> 0, lncloses |-> 0],M |-> [pc |-> "serve", sigq |-> 0, stdin |-> "open", lnClosed |-> FALSE],shutdown |-> FALSE])
    >>
----


=============================================================================

---- CONFIG ClientMain_TTrace_1790417626 ----
CONSTANTS
    NConns = 1
    NUp = 0
    NDown = 0
    MaxTemp = 1
    MaxPerm = 0
    Fields <- F3
    ArgChoices <- ArgsOnlyNone
    WithMain = FALSE
    StdinClose = FALSE
    Mode = "socks"
    DialFails = FALSE
    EnvLite = TRUE
    AsIs_Spin = TRUE
    AsIs_SharedConfig = FALSE
    Mut = "none"

INVARIANT
    _inv

CHECK_DEADLOCK
    \* CHECK_DEADLOCK off because of PROPERTY or INVARIANT above.
    FALSE

INIT
    _init

NEXT
    _next

CONSTANT
    _TETrace <- _trace

ALIAS
    _expression
=============================================================================
\* Generated on Sat Sep 26 10:13:48 UTC 2026