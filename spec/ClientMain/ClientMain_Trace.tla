------------------------- MODULE ClientMain_Trace -------------------------
(* Trace specification for ClientMain (DESIGN 2.2 item 4).

   traces.ndjson: one JSON object per line, recorded from the REAL code of
   /repo/client by harness/inpkg/client/clientmain_verif_test.go:
     {"id": n, "events": [e1, e2, ...]}
   All traces of one file were recorded in the same mode (constants Mode and
   WithMain of the configuration).

   socks mode (real socksAcceptLoop with its handlers, a scripted listener under
   goptlib's SocksListener, real SOCKS5 clients of the harness over loopback, the
   real sf.NewSnowflakeClient / Transport.Dial; the config is seen through the
   guarded hook newclient.config):
     Connect{args,q}      the next SOCKS request; args: field -> absent | ok | bad; q = FALSE:
                          part of a burst (several requests let through in a row, the
                          handlers run side by side, one observation after the last)
     AcceptTemp AcceptPerm
     SocksEnd{i,kind}     the SOCKS client ends its stream (half-close)
     Shutdown             the harness closes the shutdown channel
     obs                  at rest: loop, (pauses: not compared,) ln.Close calls, wg counter zero?,
                          SnowflakeConn.Close calls so far, per connection where
                          handler / dial goroutine / copiers are parked, the SOCKS
                          reply, the config NewSnowflakeClient was given (per field:
                          0 = command line, j = argument of connection j), whether
                          the SOCKS client has seen the handler's close
   copy mode (real copyLoop between two scripted conns; the caller's closes are
   mirrored by the harness exactly as the handler and its dial goroutine make them):
     SocksChunk SocksEnd SocksWriteFail SfChunk SfEnd SfWriteFail   {i = 1}
     cobs                 where caller and copiers are, Close calls per conn, what
                          arrived on each side
   process mode (the real main() in a child process):
     Connect{args} SocksEnd{i} Sigterm StdinEOF
     pobs                 exited?, per connection reply / config / close seen

   Commands were issued at rest, observations are explained by a quiescent
   state that agrees on everything observed; the goroutines' own steps are
   silent.  Acceptance as in ServerMain_Trace. *)
EXTENDS ClientMain, Json, TLCExt

VARIABLES tr, l

tvars == <<vars, tr, l>>

Traces == ndJsonDeserialize("traces.ndjson")
NT == Len(Traces)
Events(t) == Traces[t].events

TInit ==
  /\ tr \in 1..NT
  /\ l = 1
  /\ Init
  /\ TLCSet(tr, 1)

HasNext == l <= Len(Events(tr))
E == Events(tr)[l]
IsEv(n) == HasNext /\ E.ev = n
Adv == l' = l + 1 /\ tr' = tr
IOk == E.i \in Conns

ArgsOf(e) == [f \in FieldSet |-> e.args[f]]

(* q = FALSE: a request of a burst - sent and accepted without waiting for the process to come to rest *)
TConnect     == IsEv("Connect") /\ ArgsOf(E) \in ArgChoices /\ (IF E.q THEN GConnect(ArgsOf(E)) ELSE LAcceptConn(ArgsOf(E))) /\ Adv
TAcceptTemp  == IsEv("AcceptTemp") /\ (GAcceptRetryAtOnce \/ GAcceptRetryAfterPause) /\ Adv    \* either way (not judged)
TAcceptPerm  == IsEv("AcceptPerm") /\ GAcceptPerm /\ Adv
TSocksChunk  == IsEv("SocksChunk") /\ IOk /\ GSocksChunk(E.i) /\ Adv
TSocksEnd    == IsEv("SocksEnd") /\ IOk /\ E.kind \in {"eof", "err"} /\ GSocksEnd(E.i, E.kind) /\ Adv
TSocksWFail  == IsEv("SocksWriteFail") /\ IOk /\ GSocksWriteFail(E.i) /\ Adv
TSfChunk     == IsEv("SfChunk") /\ IOk /\ GSfChunk(E.i) /\ Adv
TSfEnd       == IsEv("SfEnd") /\ IOk /\ E.kind \in {"eof", "err"} /\ GSfEnd(E.i, E.kind) /\ Adv
TSfWFail     == IsEv("SfWriteFail") /\ IOk /\ GSfWriteFail(E.i) /\ Adv
TShutdown    == IsEv("Shutdown") /\ GShutdown /\ Adv
TSigterm     == IsEv("Sigterm") /\ GSigterm /\ Adv
TStdinEOF    == IsEv("StdinEOF") /\ GStdinEOF /\ Adv

TSilent == HasNext /\ CodeNext /\ UNCHANGED <<tr, l>>

SeqEq(s, o) == Len(s) = Len(o) /\ \A k \in 1..Len(s) : s[k] = o[k]

(* the observed config: per field the source of the value; the flag utls-nosni is seen as a boolean *)
CfgMatch(i, o) ==
  IF o.hascfg
    THEN /\ C[i].seen # NoCfg
         /\ \A f \in FieldSet :
              IF f = "utls-nosni" THEN (C[i].seen[f] # 0) = (o.cfg[f] # 0) ELSE C[i].seen[f] = o.cfg[f]
    ELSE C[i].seen = NoCfg

ConnMatch(i, o) ==
  /\ C[i].h = o.h /\ C[i].d = o.d /\ C[i].u = o.u /\ C[i].v = o.v
  /\ C[i].reply = o.reply
  /\ (C[i].sclosed > 0) = o.sclosed
  /\ CfgMatch(i, o)

Sum(f, S) == LET RECURSIVE Acc(_)
                 Acc(T) == IF T = {} THEN 0 ELSE LET x == CHOOSE x \in T : TRUE IN f[x] + Acc(T \ {x})
             IN Acc(S)

TObs ==
  /\ IsEv("obs")
  /\ Quiescent
  /\ L.pc = E.loop /\ L.lncloses = E.lncloses      \* (E.pauses is recorded for the check's note, it is not compared)
  /\ shutdown = E.shutdown /\ (wg = 0) = E.wgzero
  /\ Sum([i \in Conns |-> C[i].fclosed], Conns) = E.sfcloses
  /\ Len(E.conns) = L.nacc
  /\ \A i \in 1..Len(E.conns) : i \in Conns /\ ConnMatch(i, E.conns[i])
  /\ UNCHANGED vars /\ Adv

TCObs ==       \* copy mode: connection 1 only
  /\ IsEv("cobs")
  /\ Quiescent
  /\ C[1].h = E.h /\ C[1].d = E.d /\ C[1].u = E.u /\ C[1].v = E.v
  /\ C[1].sclosed = E.sclosed /\ C[1].fclosed = E.fclosed
  /\ C[1].staken = E.staken /\ C[1].ftaken = E.ftaken
  /\ SeqEq(C[1].sgot, E.sgot) /\ SeqEq(C[1].fgot, E.fgot)
  /\ UNCHANGED vars /\ Adv

PConnMatch(i, o) ==
  /\ C[i].reply = o.reply
  /\ (C[i].sclosed > 0 \/ M.pc = "exited") = o.sclosed       \* at exit the kernel closes what is left
  /\ CfgMatch(i, o)

TPObs ==
  /\ IsEv("pobs")
  /\ Quiescent
  /\ (M.pc = "exited") = E.exited
  /\ Len(E.conns) = L.nacc
  /\ \A i \in 1..Len(E.conns) : i \in Conns /\ PConnMatch(i, E.conns[i])
  /\ UNCHANGED vars /\ Adv

TNext ==
  \/ TConnect \/ TAcceptTemp \/ TAcceptPerm \/ TSocksChunk \/ TSocksEnd \/ TSocksWFail \/ TSfChunk \/ TSfEnd \/ TSfWFail
  \/ TShutdown \/ TSigterm \/ TStdinEOF \/ TSilent \/ TObs \/ TCObs \/ TPObs

TSpec == TInit /\ [][TNext]_tvars

Mark == (IF l > TLCGet(tr) THEN TLCSet(tr, l) ELSE TRUE)

Rejected == {t \in 1..NT : TLCGet(t) # Len(Events(t)) + 1}

Post ==
  PrintT(ToJson([nt |-> NT, rejected |-> {<<Traces[t].id, TLCGet(t)>> : t \in Rejected}]))

TCopyLaw == CopyLaw
TClosedOnce == SocksClosedOnce /\ SfClosedOnce
TReplyLaw == ReplyLaw
TConfig == ConfigIsolation /\ ConfigSeenWhenDue
TLoop == LoopEndsOnlyOnPerm /\ LnClosedByLoop
TNoStuck == NoStuck /\ NoLeak
=============================================================================
