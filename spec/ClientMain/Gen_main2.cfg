CONSTANTS
  NParts = 1
  Part = 0
  NConns = 2
  NUp = 0
  NDown = 0
  MaxTemp = 0
  MaxPerm = 0
  Fields <-F4
  ArgChoices <-ArgsFew
  WithMain = TRUE
  StdinClose = TRUE
  Mode = "socks"
  DialFails = FALSE
  SfScripted = FALSE
  EnvLite = TRUE
  AsIs_SharedConfig = FALSE
  Mut = "none"
SPECIFICATION GenSpec
INVARIANTS TypeOK CopyLaw SocksClosedOnce SfClosedOnce ReplyLaw ConfigIsolation ConfigSeenWhenDue LoopEndsOnlyOnPerm LnClosedByLoop NoLeak NoStuck
CHECK_DEADLOCK FALSE
