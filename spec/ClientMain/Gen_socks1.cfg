CONSTANTS
  NParts = 1
  Part = 0
  NConns = 1
  NUp = 0
  NDown = 0
  MaxTemp = 1
  MaxPerm = 1
  Fields <-F4
  ArgChoices <-ArgsFew
  WithMain = FALSE
  StdinClose = FALSE
  Mode = "socks"
  DialFails = FALSE
  SfScripted = FALSE
  EnvLite = TRUE
  AsIs_SharedConfig = FALSE
  Mut = "none"
SPECIFICATION GenSpec
INVARIANTS TypeOK CopyLaw SocksClosedOnce SfClosedOnce ReplyLaw ConfigIsolation ConfigSeenWhenDue LoopEndsOnlyOnPerm LnClosedByLoop NoLeak NoStuck
CHECK_DEADLOCK FALSE
