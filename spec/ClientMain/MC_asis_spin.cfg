CONSTANTS
  NParts = 1
  Part = 0
  NConns = 1
  NUp = 0
  NDown = 0
  MaxTemp = 1
  MaxPerm = 0
  Fields <-F3
  ArgChoices <-ArgsOnlyNone
  WithMain = FALSE
  StdinClose = FALSE
  Mode = "socks"
  DialFails = FALSE
  SfScripted = TRUE
  EnvLite = TRUE
  AsIs_Spin = TRUE
  AsIs_SharedConfig = FALSE
  Mut = "none"
SPECIFICATION Spec
INVARIANTS TypeOK NoSpin
CHECK_DEADLOCK FALSE
