CONSTANTS
  NParts = 1
  Part = 0
  NConns = 1
  NUp = 0
  NDown = 0
  MaxTemp = 0
  MaxPerm = 0
  Fields <-F3
  ArgChoices <-ArgsFew
  WithMain = TRUE
  StdinClose = TRUE
  Mode = "socks"
  DialFails = FALSE
  SfScripted = TRUE
  EnvLite = TRUE
  AsIs_SharedConfig = FALSE
  Mut = "none"
SPECIFICATION Spec
INVARIANTS TypeOK CopyLaw SocksClosedOnce SfClosedOnce ReplyLaw ConfigIsolation ConfigSeenWhenDue LoopEndsOnlyOnPerm LnClosedByLoop NoLeak NoStuck
PROPERTIES HandlersLeaveLoopAlone ShutdownReachesAll HandlerEnds Replied LoopEnds ShutdownExits
CHECK_DEADLOCK FALSE
