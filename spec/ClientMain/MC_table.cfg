CONSTANTS
  NParts = 1
  Part = 0
  NConns = 1
  NUp = 0
  NDown = 0
  MaxTemp = 0
  MaxPerm = 0
  Fields <-F8
  ArgChoices <-ArgsAll
  WithMain = FALSE
  StdinClose = FALSE
  Mode = "socks"
  DialFails = FALSE
  SfScripted = TRUE
  EnvLite = TRUE
  AsIs_SharedConfig = FALSE
  Mut = "none"
CONSTRAINT UpToReply
SPECIFICATION Spec
INVARIANTS TypeOK CopyLaw SocksClosedOnce SfClosedOnce ReplyLaw ConfigIsolation ConfigSeenWhenDue LoopEndsOnlyOnPerm LnClosedByLoop NoLeak NoStuck
CHECK_DEADLOCK FALSE
