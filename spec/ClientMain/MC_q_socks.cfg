CONSTANTS
  NParts = 1
  Part = 0
  NConns = 1
  NUp = 0
  NDown = 0
  MaxTemp = 1
  MaxPerm = 1
  Fields <-F4
  ArgChoices <-ArgsTiny
  WithMain = FALSE
  StdinClose = FALSE
  Mode = "socks"
  DialFails = TRUE
  SfScripted = TRUE
  EnvLite = TRUE
  AsIs_SharedConfig = FALSE
  Mut = "none"
SPECIFICATION Spec
INVARIANTS TypeOK CopyLaw SocksClosedOnce SfClosedOnce ReplyLaw ConfigIsolation ConfigSeenWhenDue LoopEndsOnlyOnPerm LnClosedByLoop NoLeak NoStuck
PROPERTIES HandlersLeaveLoopAlone ShutdownReachesAll HandlerEnds Replied LoopEnds
CHECK_DEADLOCK FALSE
