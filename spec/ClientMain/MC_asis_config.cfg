CONSTANTS
  NParts = 1
  Part = 0
  NConns = 2
  NUp = 0
  NDown = 0
  MaxTemp = 0
  MaxPerm = 0
  Fields <-F3
  ArgChoices <-ArgsTiny
  WithMain = FALSE
  StdinClose = FALSE
  Mode = "socks"
  DialFails = FALSE
  SfScripted = TRUE
  EnvLite = TRUE
  AsIs_SharedConfig = TRUE
  Mut = "none"
SPECIFICATION GenSpec
INVARIANTS TypeOK ConfigIsolation
CHECK_DEADLOCK FALSE
