\* template: lib/checks/c15_clientmain.py replaces Mode / WithMain per group of traces
CONSTANTS
  NParts = 1
  Part = 0
  NConns = 4
  NUp = 4
  NDown = 4
  MaxTemp = 4
  MaxPerm = 1
  Fields <- F8
  ArgChoices <- ArgsAll
  WithMain = FALSE
  StdinClose = TRUE
  Mode = "socks"
  DialFails = FALSE
  SfScripted = FALSE
  EnvLite = FALSE
  AsIs_SharedConfig = FALSE
  Mut = "none"
SPECIFICATION TSpec
CONSTRAINT Mark
POSTCONDITION Post
INVARIANTS TCopyLaw TClosedOnce TReplyLaw TConfig TLoop TNoStuck
CHECK_DEADLOCK FALSE
