CONSTANTS
  NParts = 1
  Part = 0
  NConns = 1
  NUp = 1
  NDown = 0
  MaxTemp = 0
  MaxPerm = 0
  Fields <-F4
  ArgChoices <-ArgsFew
  WithMain = FALSE
  StdinClose = FALSE
  Mode = "copy"
  DialFails = FALSE
  SfScripted = TRUE
  EnvLite = FALSE
  AsIs_SharedConfig = FALSE
  Mut = "none"
SPECIFICATION Spec
INVARIANTS TypeOK CopyLaw SocksClosedOnce SfClosedOnce ReplyLaw ConfigIsolation ConfigSeenWhenDue LoopEndsOnlyOnPerm LnClosedByLoop NoLeak NoStuck
PROPERTIES HandlersLeaveLoopAlone ShutdownReachesAll HandlerEnds Replied LoopEnds
CHECK_DEADLOCK FALSE
