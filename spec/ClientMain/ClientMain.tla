----------------------------- MODULE ClientMain -----------------------------
(* client/snowflake.go: the main loop of the client pluggable transport - the
   glue between tor's SOCKS requests and the verified client library
   (spec/Peers, spec/Tunnel, property C15).

     main             flags -> ClientConfig; per method: ListenSocks, go
                      socksAcceptLoop(ln, config, shutdown, &wg); sigChan
                      (capacity 1) <- SIGTERM | stdin EOF; after the signal:
                      ln.Close() for every listener, close(shutdown), wg.Wait(),
                      return.
     socksAcceptLoop  defer ln.Close()
                      for { conn, err := ln.AcceptSocks()     (SOCKS negotiation inside)
                            temporary net.Error -> continue ; other error -> break
                            wg.Add(1); go handler(conn) }
     handler          defer wg.Done(); defer conn.Close()
                      config := the loop's config overridden by the SOCKS arguments
                        ampcache front ice max url utls-nosni utls-imitate fingerprint
                        (in this order; max that is not a number: conn.Reject(), return)
                      transport, err := sf.NewSnowflakeClient(config); err: conn.Reject(), return
                      conn.Grant(..); err: return
                      handler := make(chan struct{})
                      go func(){ defer close(handler)
                                 sconn, err := transport.Dial(); err: return
                                 defer sconn.Close(); copyLoop(conn, sconn) }()
                      select { <-shutdown ; <-handler }
     copyLoop         done := make(chan struct{}, 2)
                      V: io.Copy(socks, sfconn); done <- {}     U: io.Copy(sfconn, socks); done <- {}
                      <-done          (ONE of the two; copyLoop closes nothing)

   C[i] is connection i: handler goroutine h, dial goroutine d, copy goroutines u
   (SOCKS to snowflake) and v (snowflake to SOCKS), the SOCKS side s.., the
   snowflake side f...  L is the accept loop, M main.

   WHO CLOSES WHAT (as the code does it, and as this module states it):
   * the SOCKS conn is closed exactly once, by the handler's deferred Close, on
     every path (SocksClosedOnce);
   * the snowflake conn is closed exactly once, by the dial goroutine's deferred
     Close when copyLoop returns (SfClosedOnce) - the handler does not wait for
     that on the shutdown path: main may exit before it happened (the process
     ends then anyway);
   * copyLoop returns when the FIRST direction ends; the other copier ends only
     because the callers then close both conns (sconn by the dial goroutine, the
     SOCKS conn by the handler): NoLeak.  The done channel must have room for
     both (what-if doneUnbuffered: the second copier parks for ever);
   * end of the SOCKS stream -> everything the snowflake side still sends is
     dropped; end of the snowflake stream -> likewise the other way round
     (no half-close).

   THE SOCKS REPLY: Reject for an unparsable max and for a config
   NewSnowflakeClient refuses (bad url / ampcache / utls-imitate); otherwise Grant
   BEFORE transport.Dial is even called.  A Dial error can therefore not be
   reported in the SOCKS reply: the request has been granted, the conn is then
   closed (DialFailAfterGrant: stated as the code behaves; transport.Dial of the
   real library fails only when NewPeers / smux refuse, never because the broker
   or the proxies are unreachable - that is retried for ever by connectLoop, C15).

   CONFIG PRECEDENCE (Expected): per argument, present -> the argument's value,
   absent -> the command-line value; utls-nosni: "true"/"yes" (any case) -> true,
   anything else is ignored; max not a number -> Reject before anything after it
   in the list is looked at.  The table is total over absent / ok / bad per
   argument (ArgsAll).  ConfigIsolation: the config handed to NewSnowflakeClient
   for connection i is Expected(i) - in particular it does not depend on the
   arguments of OTHER connections (AsIs_SharedConfig = TRUE: the pinned code let
   every handler write into the one config variable of the loop - an argument of
   one connection stayed in force for all later ones, a bad url made every later
   connection without url= fail, and concurrent handlers raced on the fields).

   SHUTDOWN: close(shutdown) reaches every handler that is or will be in its
   select; handlers return without waiting for Dial, copyLoop or sconn.Close();
   wg.Wait() returns; main exits (ShutdownExits, liveness with WF on the code's
   own steps only; NoStuck is its shadow at rest).  "Closing the connection
   returns in bounded time" (C15) is what bounds sconn.Close() on the OTHER path
   (handler ended): there the handler waits for the dial goroutine (DSfClose is a
   step with WF: C15 is assumed here, it is decided by bin/check C15).

   Deviation constants (TRUE = the pinned code before the repair):
     AsIs_SharedConfig  handlers override the loop's config in place
   What-if constant Mut ("none" = the code), each must violate the property named:
     "doneUnbuffered"  done has no buffer                    -> NoLeak
     "waitBoth"        copyLoop waits for both directions     -> NoStuck
     "noDeferConn"     handler does not close the SOCKS conn  -> SocksClosedOnce
     "noSfClose"       dial goroutine does not close sconn    -> SfClosedOnce
     "noShutdownCase"  handler ignores shutdown               -> NoStuck / ShutdownExits
     "noWgDone"        handler forgets wg.Done()              -> ShutdownExits / NoStuck
     "breakOnTemp"     loop ends on a temporary error         -> LoopEndsOnlyOnPerm
     "rejectEndsLoop"  a rejected request ends the loop       -> LoopEndsOnlyOnPerm
     "grantOnBadMax"   unparsable max is ignored              -> ReplyLaw

   Don't-care regions
   * the SOCKS negotiation itself (goptlib; it runs inside AcceptSocks, i.e. in the
     loop: a client that connects and stays silent delays the loop by up to 5 s);
   * which ready case a select takes; error texts; log lines;
   * what NewSnowflakeClient does with the config (C11, C15);
   * the Max value is observed only as "flag" / "argument of connection i";
   * wg.Add racing with wg.Wait for a connection accepted while main closes the
     listeners (Accept + Add is one step here). *)
EXTENDS Integers, Sequences, FiniteSets, TLC

CONSTANTS
  NConns,        \* connections the listener can deliver
  NUp, NDown,    \* chunks per connection: SOCKS -> snowflake, snowflake -> SOCKS
  MaxTemp, MaxPerm,
  Fields,        \* the SOCKS arguments, in the order the handler applies them (a sequence)
  ArgChoices,    \* the argument vectors the environment may send (a set of functions field -> class)
  NParts, Part,  \* ArgsPart is the Part-th of NParts slices of the full table (keeps simulation affordable)
  WithMain, StdinClose,
  Mode,          \* "socks": connections arrive through the loop ; "copy": connection 1 exists, granted and dialled (copyLoop alone)
  DialFails,     \* BOOLEAN: transport.Dial may fail (never with the real library)
  EnvLite,       \* BOOLEAN: no read errors / write failures, only ends of stream
  SfScripted,    \* BOOLEAN: the environment drives the snowflake side (FALSE: the real Transport, whose stream stays silent)
  AsIs_SharedConfig,
  Mut

(* the argument lists of the configurations (a .cfg file cannot spell a sequence) *)
F8 == <<"ampcache", "front", "ice", "max", "url", "utls-nosni", "utls-imitate", "fingerprint">>     \* the code
F4 == <<"front", "max", "url", "utls-nosni">>      \* one argument of each kind: free, number, validated, flag
F3 == <<"max", "url", "utls-nosni">>

FieldSet == {Fields[k] : k \in DOMAIN Fields}
Validated == {"url", "ampcache", "utls-imitate"}          \* NewSnowflakeClient refuses a bad value
Free      == {"front", "ice", "fingerprint"}               \* any value is taken as it is
Classes(f) == IF f \in Free THEN {"absent", "ok"} ELSE {"absent", "ok", "bad"}
ArgsAll == {a \in [FieldSet -> {"absent", "ok", "bad"}] : \A f \in FieldSet : a[f] \in Classes(f)}
ArgsNone == [f \in FieldSet |-> "absent"]
(* a few representative vectors for the configurations that explore interleavings *)
ArgsFew == {a \in ArgsAll : Cardinality({f \in FieldSet : a[f] # "absent"}) <= 1} \cup
           {a \in ArgsAll : \A f \in FieldSet : a[f] = "ok"}

ClsCode(c) == IF c = "absent" THEN 0 ELSE IF c = "ok" THEN 1 ELSE 2
RECURSIVE WeightUpTo(_, _)
WeightUpTo(a, k) == IF k = 0 THEN 0 ELSE (2 * k - 1) * ClsCode(a[Fields[k]]) + WeightUpTo(a, k - 1)
ArgsPart == {a \in ArgsAll : WeightUpTo(a, Len(Fields)) % NParts = Part}
ArgsOnlyNone == {ArgsNone}
(* the vectors that matter between connections: nothing, a value, a bad value, the flag, an unparsable max *)
ArgsTiny == {a \in ArgsFew : \A f \in FieldSet \ {"url", "max", "utls-nosni"} : a[f] = "absent"} \ {a \in ArgsAll : "max" \in FieldSet /\ a["max"] = "ok"}

ASSUME NConns \in Nat /\ NUp \in Nat /\ NDown \in Nat /\ MaxTemp \in Nat /\ MaxPerm \in 0..1
ASSUME WithMain \in BOOLEAN /\ StdinClose \in BOOLEAN /\ DialFails \in BOOLEAN /\ EnvLite \in BOOLEAN
ASSUME SfScripted \in BOOLEAN
ASSUME AsIs_SharedConfig \in BOOLEAN /\ Mode \in {"socks", "copy"}
ASSUME ArgChoices \subseteq ArgsAll /\ NParts \in Nat \ {0} /\ Part \in 0..(NParts - 1)
ASSUME Mut \in {"none", "doneUnbuffered", "waitBoth", "noDeferConn", "noSfClose", "noShutdownCase", "noWgDone",
                "breakOnTemp", "rejectEndsLoop", "grantOnBadMax"}

Conns == 1..NConns

VARIABLES
  L,        \* accept loop: [pc, temps, pauses, perm, nacc, lncloses]
  C,        \* connections
  M,        \* main: [pc, sigq, stdin, lnClosed]
  shutdown, \* close(shutdown) has happened
  wg,       \* the handlers' WaitGroup counter
  shared    \* the loop's config variable (only AsIs_SharedConfig writes it): field -> source

vars == <<L, C, M, shutdown, wg, shared>>

(* a config is a function field -> source: 0 = the command line, i > 0 = the SOCKS
   argument of connection i; NoCfg: NewSnowflakeClient was not called *)
FlagCfg == [f \in FieldSet |-> 0]
NoCfg == [f \in FieldSet |-> -1]

Fresh == [
  args |-> ArgsNone, \* the SOCKS arguments of the request (environment)
  h |-> "none",      \* handler: none | parse | new | reject | grant | select | sclose | wgdone | done
  cfg |-> NoCfg,     \* the handler's config after the overrides
  seen |-> NoCfg,    \* what NewSnowflakeClient was given
  reply |-> "none",  \* none | granted | rejected
  d |-> "none",      \* dial goroutine: none | dial | copy | sfclose | chclose | done
  dialplan |-> "ok", \* fate of transport.Dial (environment)
  dialerr |-> FALSE,
  hch |-> FALSE,     \* close(handler) has happened
  u |-> "none", uhold |-> 0,     \* U: io.Copy(sfconn, socks): none | read | write | signal | done
  v |-> "none", vhold |-> 0,     \* V: io.Copy(socks, sfconn)
  done |-> 0,        \* values in / sent on the done channel
  recvd |-> 0,       \* values copyLoop has received from it
  sq |-> <<>>, ssent |-> 0, send |-> "open", staken |-> 0,    \* SOCKS side: what Read returns next; sent; ended; taken by U
  sclosed |-> 0,     \* Close calls on the SOCKS conn
  swfail |-> FALSE, sgot |-> <<>>,
  fq |-> <<>>, fsent |-> 0, fend |-> "open", ftaken |-> 0,    \* snowflake side
  fclosed |-> 0,     \* Close calls on the snowflake conn
  fwfail |-> FALSE, fgot |-> <<>>,
  lostUp |-> 0, lostDown |-> 0
]

(* copy mode: connection 1 is where the handler is after Grant and a successful Dial *)
Established == [Fresh EXCEPT !.h = "select", !.reply = "granted", !.d = "copy", !.u = "read", !.v = "read", !.cfg = FlagCfg, !.seen = FlagCfg]

HPcs == {"none", "parse", "new", "reject", "grant", "select", "sclose", "wgdone", "done"}
DPcs == {"none", "dial", "copy", "sfclose", "chclose", "done"}
UPcs == {"none", "read", "write", "signal", "done"}

TypeOK ==
  /\ L.pc \in {"accept", "backoff", "lnclose", "ended"} /\ L.temps \in 0..MaxTemp /\ L.pauses \in 0..MaxTemp
  /\ L.perm \in BOOLEAN /\ L.nacc \in 0..NConns /\ L.lncloses \in 0..1
  /\ M.pc \in {"serve", "closing", "broadcast", "wait", "return", "exited"} /\ M.sigq \in 0..1 /\ M.stdin \in {"open", "eof", "sent"} /\ M.lnClosed \in BOOLEAN
  /\ shutdown \in BOOLEAN /\ wg \in 0..NConns
  /\ shared \in [FieldSet -> 0..NConns]
  /\ \A i \in Conns :
       /\ C[i].h \in HPcs /\ C[i].d \in DPcs /\ C[i].u \in UPcs /\ C[i].v \in UPcs
       /\ C[i].args \in ArgsAll /\ C[i].reply \in {"none", "granted", "rejected"}
       /\ C[i].done \in 0..2 /\ C[i].recvd \in 0..2 /\ C[i].sclosed \in 0..1 /\ C[i].fclosed \in 0..1

Init ==
  /\ L = [pc |-> (IF Mode = "copy" THEN "ended" ELSE "accept"), temps |-> 0, pauses |-> 0, perm |-> FALSE,
          nacc |-> (IF Mode = "copy" THEN 1 ELSE 0), lncloses |-> 0]
  /\ C = [i \in Conns |-> IF Mode = "copy" /\ i = 1 THEN Established ELSE Fresh]
  /\ M = [pc |-> "serve", sigq |-> 0, stdin |-> "open", lnClosed |-> FALSE]
  /\ shutdown = FALSE
  /\ wg = (IF Mode = "copy" THEN 1 ELSE 0)
  /\ shared = FlagCfg

Alive == M.pc # "exited"

-----------------------------------------------------------------------------
(* the config contract *)

Cls(a, f, src) == IF src <= 0 THEN "ok" ELSE a[src][f]        \* class of the value a source stands for
Idx(f) == CHOOSE k \in DOMAIN Fields : Fields[k] = f
MaxIdx == IF "max" \in FieldSet THEN Idx("max") ELSE Len(Fields) + 1

(* argument f of connection i overrides the config *)
Overrides(args, f) == args[f] # "absent" /\ ~(f = "utls-nosni" /\ args[f] = "bad")
BadMax(args) == "max" \in FieldSet /\ args["max"] = "bad" /\ Mut # "grantOnBadMax"

(* base config overridden by the arguments of connection i; an unparsable max stops
   the handler: only the fields before it have been applied *)
Apply(base, i, args) ==
  [f \in FieldSet |->
     IF Overrides(args, f) /\ ~(f = "max" /\ args[f] = "bad") /\ (BadMax(args) => Idx(f) < MaxIdx)
       THEN i ELSE base[f]]

Expected(i) == Apply(FlagCfg, i, C[i].args)
AllArgs == [i \in Conns |-> C[i].args]
Refused(cfg) == \E f \in FieldSet \cap Validated : Cls(AllArgs, f, cfg[f]) = "bad"

-----------------------------------------------------------------------------
(* accept loop *)

LAcceptConn(a) ==     \* environment: AcceptSocks returns the next request; wg.Add(1); go handler
  /\ Alive /\ L.pc = "accept" /\ ~M.lnClosed /\ L.nacc < NConns
  /\ a \in ArgChoices
  /\ L' = [L EXCEPT !.nacc = @ + 1]
  /\ C' = [C EXCEPT ![L.nacc + 1].h = "parse", ![L.nacc + 1].args = a]
  /\ wg' = wg + 1
  /\ UNCHANGED <<M, shutdown, shared>>

(* environment: AcceptSocks returns a temporary net.Error.  As-is: continue, AcceptSocks is called again at
   once (with a listener that keeps failing, e.g. EMFILE, a busy loop).  What the loop does between the error
   and the next call is NOT a property: a tree that pauses first (AcceptRetryAfterPause) is accepted as well;
   which of the two was seen is noted by the check, never judged. *)
AcceptRetryAtOnce ==
  /\ Alive /\ L.pc = "accept" /\ ~M.lnClosed /\ L.temps < MaxTemp
  /\ L' = (IF Mut = "breakOnTemp" THEN [L EXCEPT !.temps = @ + 1, !.pc = "lnclose"]
           ELSE [L EXCEPT !.temps = @ + 1])
  /\ UNCHANGED <<C, M, shutdown, wg, shared>>

AcceptRetryAfterPause ==
  /\ Alive /\ L.pc = "accept" /\ ~M.lnClosed /\ L.temps < MaxTemp /\ Mut # "breakOnTemp"
  /\ L' = [L EXCEPT !.temps = @ + 1, !.pauses = @ + 1, !.pc = "backoff"]
  /\ UNCHANGED <<C, M, shutdown, wg, shared>>

LBackoffDone ==
  /\ Alive /\ L.pc = "backoff"
  /\ L' = [L EXCEPT !.pc = "accept"]
  /\ UNCHANGED <<C, M, shutdown, wg, shared>>

LAcceptPerm ==
  /\ Alive /\ L.pc = "accept" /\ ~M.lnClosed /\ ~L.perm /\ MaxPerm = 1
  /\ L' = [L EXCEPT !.pc = "lnclose", !.perm = TRUE]
  /\ UNCHANGED <<C, M, shutdown, wg, shared>>

LAcceptClosed ==      \* main closed the listener: Accept fails for good
  /\ Alive /\ L.pc = "accept" /\ M.lnClosed
  /\ L' = [L EXCEPT !.pc = "lnclose"]
  /\ UNCHANGED <<C, M, shutdown, wg, shared>>

LLnClose ==           \* the deferred ln.Close()
  /\ Alive /\ L.pc = "lnclose"
  /\ L' = [L EXCEPT !.pc = "ended", !.lncloses = 1]
  /\ UNCHANGED <<C, M, shutdown, wg, shared>>

-----------------------------------------------------------------------------
(* handler *)

HParse(i) ==          \* the overrides (one step: see the header for the finer grain of the pinned code)
  /\ Alive /\ C[i].h = "parse"
  /\ LET base == IF AsIs_SharedConfig THEN shared ELSE FlagCfg
         cfg == Apply(base, i, C[i].args)
     IN /\ C' = [C EXCEPT ![i].cfg = cfg, ![i].h = (IF BadMax(C[i].args) THEN "reject" ELSE "new")]
        /\ shared' = (IF AsIs_SharedConfig THEN cfg ELSE shared)
  /\ UNCHANGED <<L, M, shutdown, wg>>

HNew(i) ==            \* sf.NewSnowflakeClient(config)
  /\ Alive /\ C[i].h = "new"
  /\ C' = [C EXCEPT ![i].seen = C[i].cfg, ![i].h = (IF Refused(C[i].cfg) THEN "reject" ELSE "grant")]
  /\ UNCHANGED <<L, M, shutdown, wg, shared>>

HReject(i) ==         \* conn.Reject(); return
  /\ Alive /\ C[i].h = "reject"
  /\ C' = [C EXCEPT ![i].reply = "rejected", ![i].h = "sclose"]
  /\ L' = (IF Mut = "rejectEndsLoop" /\ L.pc = "accept" THEN [L EXCEPT !.pc = "lnclose"] ELSE L)
  /\ UNCHANGED <<M, shutdown, wg, shared>>

HGrant(i) ==          \* conn.Grant(); go dial goroutine; select
  /\ Alive /\ C[i].h = "grant"
  /\ C' = [C EXCEPT ![i].reply = "granted", ![i].h = "select", ![i].d = "dial"]
  /\ UNCHANGED <<L, M, shutdown, wg, shared>>

HSelectShutdown(i) ==
  /\ Alive /\ C[i].h = "select" /\ shutdown /\ Mut # "noShutdownCase"
  /\ C' = [C EXCEPT ![i].h = "sclose"]
  /\ UNCHANGED <<L, M, shutdown, wg, shared>>

HSelectHandler(i) ==
  /\ Alive /\ C[i].h = "select" /\ C[i].hch
  /\ C' = [C EXCEPT ![i].h = "sclose"]
  /\ UNCHANGED <<L, M, shutdown, wg, shared>>

HSocksClose(i) ==     \* deferred conn.Close()
  /\ Alive /\ C[i].h = "sclose"
  /\ C' = (IF Mut = "noDeferConn" THEN [C EXCEPT ![i].h = "wgdone"]
           ELSE [C EXCEPT ![i].h = "wgdone", ![i].sclosed = @ + 1])
  /\ UNCHANGED <<L, M, shutdown, wg, shared>>

HWgDone(i) ==         \* deferred wg.Done()
  /\ Alive /\ C[i].h = "wgdone"
  /\ C' = [C EXCEPT ![i].h = "done"]
  /\ wg' = (IF Mut = "noWgDone" THEN wg ELSE wg - 1)
  /\ UNCHANGED <<L, M, shutdown, shared>>

-----------------------------------------------------------------------------
(* dial goroutine and copyLoop *)

DDial(i) ==           \* transport.Dial(); copyLoop: go V, go U, <-done
  /\ Alive /\ C[i].d = "dial"
  /\ C' = (IF C[i].dialplan = "ok"
             THEN [C EXCEPT ![i].d = "copy", ![i].u = "read", ![i].v = "read"]
             ELSE [C EXCEPT ![i].d = "chclose", ![i].dialerr = TRUE])
  /\ UNCHANGED <<L, M, shutdown, wg, shared>>

Need == IF Mut = "waitBoth" THEN 2 ELSE 1
DCopyRecv(i) ==       \* <-done
  /\ Alive /\ C[i].d = "copy" /\ Mut # "doneUnbuffered" /\ C[i].done > C[i].recvd
  /\ C' = [C EXCEPT ![i].recvd = @ + 1, ![i].d = (IF C[i].recvd + 1 >= Need THEN "sfclose" ELSE "copy")]
  /\ UNCHANGED <<L, M, shutdown, wg, shared>>

DSfClose(i) ==        \* deferred sconn.Close() (bounded: C15)
  /\ Alive /\ C[i].d = "sfclose"
  /\ C' = (IF Mut = "noSfClose" THEN [C EXCEPT ![i].d = "chclose"]
           ELSE [C EXCEPT ![i].d = "chclose", ![i].fclosed = @ + 1])
  /\ UNCHANGED <<L, M, shutdown, wg, shared>>

DChClose(i) ==        \* deferred close(handler)
  /\ Alive /\ C[i].d = "chclose"
  /\ C' = [C EXCEPT ![i].d = "done", ![i].hch = TRUE]
  /\ UNCHANGED <<L, M, shutdown, wg, shared>>

(* U: io.Copy(sfconn, socks) *)
UReadChunk(i) ==
  /\ Alive /\ C[i].u = "read" /\ C[i].sclosed = 0 /\ Len(C[i].sq) > 0 /\ Head(C[i].sq) > 0
  /\ C' = [C EXCEPT ![i].u = "write", ![i].uhold = Head(C[i].sq), ![i].sq = Tail(@), ![i].staken = @ + 1]
  /\ UNCHANGED <<L, M, shutdown, wg, shared>>
UReadEnd(i) ==        \* EOF, an error, or "use of closed network connection" after the handler's Close
  /\ Alive /\ C[i].u = "read" /\ (C[i].sclosed > 0 \/ (Len(C[i].sq) > 0 /\ Head(C[i].sq) < 0))
  /\ C' = [C EXCEPT ![i].u = "signal"]
  /\ UNCHANGED <<L, M, shutdown, wg, shared>>
UWrite(i) ==
  /\ Alive /\ C[i].u = "write"
  /\ C' = (IF C[i].fclosed > 0 \/ C[i].fwfail
             THEN [C EXCEPT ![i].u = "signal", ![i].uhold = 0, ![i].lostUp = @ + 1]
             ELSE [C EXCEPT ![i].u = "read", ![i].uhold = 0, ![i].fgot = Append(@, C[i].uhold)])
  /\ UNCHANGED <<L, M, shutdown, wg, shared>>
USignal(i) ==         \* done <- struct{}{}: room for both (what-if: a rendezvous with copyLoop's receive)
  /\ Alive /\ C[i].u = "signal"
  /\ (Mut = "doneUnbuffered" => C[i].d = "copy")
  /\ C' = (IF Mut = "doneUnbuffered"
             THEN [C EXCEPT ![i].u = "done", ![i].done = @ + 1, ![i].recvd = @ + 1, ![i].d = "sfclose"]
             ELSE [C EXCEPT ![i].u = "done", ![i].done = @ + 1])
  /\ UNCHANGED <<L, M, shutdown, wg, shared>>

(* V: io.Copy(socks, sfconn) *)
VReadChunk(i) ==
  /\ Alive /\ C[i].v = "read" /\ C[i].fclosed = 0 /\ Len(C[i].fq) > 0 /\ Head(C[i].fq) > 0
  /\ C' = [C EXCEPT ![i].v = "write", ![i].vhold = Head(C[i].fq), ![i].fq = Tail(@), ![i].ftaken = @ + 1]
  /\ UNCHANGED <<L, M, shutdown, wg, shared>>
VReadEnd(i) ==
  /\ Alive /\ C[i].v = "read" /\ (C[i].fclosed > 0 \/ (Len(C[i].fq) > 0 /\ Head(C[i].fq) < 0))
  /\ C' = [C EXCEPT ![i].v = "signal"]
  /\ UNCHANGED <<L, M, shutdown, wg, shared>>
VWrite(i) ==
  /\ Alive /\ C[i].v = "write"
  /\ C' = (IF C[i].sclosed > 0 \/ C[i].swfail
             THEN [C EXCEPT ![i].v = "signal", ![i].vhold = 0, ![i].lostDown = @ + 1]
             ELSE [C EXCEPT ![i].v = "read", ![i].vhold = 0, ![i].sgot = Append(@, C[i].vhold)])
  /\ UNCHANGED <<L, M, shutdown, wg, shared>>
VSignal(i) ==
  /\ Alive /\ C[i].v = "signal"
  /\ (Mut = "doneUnbuffered" => C[i].d = "copy")
  /\ C' = (IF Mut = "doneUnbuffered"
             THEN [C EXCEPT ![i].v = "done", ![i].done = @ + 1, ![i].recvd = @ + 1, ![i].d = "sfclose"]
             ELSE [C EXCEPT ![i].v = "done", ![i].done = @ + 1])
  /\ UNCHANGED <<L, M, shutdown, wg, shared>>

-----------------------------------------------------------------------------
(* environment: tor on the SOCKS side, the snowflake stream on the other *)

EndMark(kind) == IF kind = "eof" THEN -1 ELSE -2
Granted(i) == C[i].reply = "granted" /\ C[i].h # "done"

SocksChunk(i) ==
  /\ Alive /\ Granted(i) /\ C[i].send = "open" /\ C[i].ssent < NUp
  /\ C' = [C EXCEPT ![i].ssent = @ + 1, ![i].sq = Append(@, C[i].ssent + 1)]
  /\ UNCHANGED <<L, M, shutdown, wg, shared>>
SocksEnd(i, kind) ==
  /\ (EnvLite => kind = "eof")
  /\ Alive /\ Granted(i) /\ C[i].send = "open"
  /\ C' = [C EXCEPT ![i].send = kind, ![i].sq = Append(@, EndMark(kind))]
  /\ UNCHANGED <<L, M, shutdown, wg, shared>>
SocksWriteFail(i) ==
  /\ ~EnvLite /\ Alive /\ Granted(i) /\ ~C[i].swfail
  /\ C' = [C EXCEPT ![i].swfail = TRUE]
  /\ UNCHANGED <<L, M, shutdown, wg, shared>>
SfChunk(i) ==
  /\ SfScripted /\ Alive /\ C[i].d = "copy" /\ C[i].fend = "open" /\ C[i].fsent < NDown
  /\ C' = [C EXCEPT ![i].fsent = @ + 1, ![i].fq = Append(@, C[i].fsent + 1)]
  /\ UNCHANGED <<L, M, shutdown, wg, shared>>
SfEnd(i, kind) ==
  /\ (EnvLite => kind = "eof")
  /\ SfScripted /\ Alive /\ C[i].d = "copy" /\ C[i].fend = "open"
  /\ C' = [C EXCEPT ![i].fend = kind, ![i].fq = Append(@, EndMark(kind))]
  /\ UNCHANGED <<L, M, shutdown, wg, shared>>
SfWriteFail(i) ==
  /\ ~EnvLite /\ SfScripted /\ Alive /\ C[i].d = "copy" /\ ~C[i].fwfail
  /\ C' = [C EXCEPT ![i].fwfail = TRUE]
  /\ UNCHANGED <<L, M, shutdown, wg, shared>>
DialWillFail(i) ==    \* environment: fixed before the dial goroutine runs
  /\ DialFails /\ Alive /\ C[i].h = "parse" /\ C[i].dialplan = "ok"
  /\ C' = [C EXCEPT ![i].dialplan = "fail"]
  /\ UNCHANGED <<L, M, shutdown, wg, shared>>

(* without main (in-package harness): the harness closes the shutdown channel itself *)
EnvShutdown ==
  /\ ~WithMain /\ Mode = "socks" /\ ~shutdown
  /\ shutdown' = TRUE
  /\ UNCHANGED <<L, C, M, wg, shared>>

-----------------------------------------------------------------------------
(* main *)

MSigterm ==
  /\ WithMain /\ Alive
  /\ M' = [M EXCEPT !.sigq = 1]
  /\ UNCHANGED <<L, C, shutdown, wg, shared>>
MStdinEOF ==
  /\ WithMain /\ StdinClose /\ Alive /\ M.stdin = "open"
  /\ M' = [M EXCEPT !.stdin = "eof"]
  /\ UNCHANGED <<L, C, shutdown, wg, shared>>
MStdinSend ==
  /\ WithMain /\ Alive /\ M.stdin = "eof" /\ M.sigq = 0
  /\ M' = [M EXCEPT !.stdin = "sent", !.sigq = 1]
  /\ UNCHANGED <<L, C, shutdown, wg, shared>>
MRecv ==
  /\ WithMain /\ M.pc = "serve" /\ M.sigq = 1
  /\ M' = [M EXCEPT !.pc = "closing", !.sigq = 0]
  /\ UNCHANGED <<L, C, shutdown, wg, shared>>
MCloseListeners ==
  /\ WithMain /\ M.pc = "closing"
  /\ M' = [M EXCEPT !.pc = "broadcast", !.lnClosed = TRUE]
  /\ UNCHANGED <<L, C, shutdown, wg, shared>>
MBroadcast ==         \* close(shutdown)
  /\ WithMain /\ M.pc = "broadcast"
  /\ M' = [M EXCEPT !.pc = "wait"]
  /\ shutdown' = TRUE
  /\ UNCHANGED <<L, C, wg, shared>>
MWait ==              \* wg.Wait()
  /\ WithMain /\ M.pc = "wait" /\ wg = 0
  /\ M' = [M EXCEPT !.pc = "return"]
  /\ UNCHANGED <<L, C, shutdown, wg, shared>>
MExit ==
  /\ WithMain /\ M.pc = "return"
  /\ M' = [M EXCEPT !.pc = "exited"]
  /\ UNCHANGED <<L, C, shutdown, wg, shared>>

-----------------------------------------------------------------------------
HandlerCode(i) == HParse(i) \/ HNew(i) \/ HReject(i) \/ HGrant(i) \/ HSelectShutdown(i) \/ HSelectHandler(i) \/ HSocksClose(i) \/ HWgDone(i)
DialCode(i) == DDial(i) \/ DCopyRecv(i) \/ DSfClose(i) \/ DChClose(i)
UCode(i) == UReadChunk(i) \/ UReadEnd(i) \/ UWrite(i) \/ USignal(i)
VCode(i) == VReadChunk(i) \/ VReadEnd(i) \/ VWrite(i) \/ VSignal(i)
MainCode == MStdinSend \/ MRecv \/ MCloseListeners \/ MBroadcast \/ MWait \/ MExit

CodeNext ==
  \/ LBackoffDone \/ LAcceptClosed \/ LLnClose \/ MainCode
  \/ \E i \in Conns : HandlerCode(i) \/ DialCode(i) \/ UCode(i) \/ VCode(i)

EnvNext ==
  \/ (\E a \in ArgChoices : LAcceptConn(a)) \/ AcceptRetryAtOnce \/ AcceptRetryAfterPause \/ LAcceptPerm
  \/ (\E i \in Conns : SocksChunk(i) \/ SocksEnd(i, "eof") \/ SocksEnd(i, "err") \/ SocksWriteFail(i)
                        \/ SfChunk(i) \/ SfEnd(i, "eof") \/ SfEnd(i, "err") \/ SfWriteFail(i) \/ DialWillFail(i))
  \/ EnvShutdown \/ MSigterm \/ MStdinEOF

Next == CodeNext \/ EnvNext

Fairness ==
  /\ WF_vars(LBackoffDone) /\ WF_vars(LAcceptClosed) /\ WF_vars(LLnClose)
  /\ WF_vars(MStdinSend) /\ WF_vars(MRecv) /\ WF_vars(MCloseListeners) /\ WF_vars(MBroadcast) /\ WF_vars(MWait) /\ WF_vars(MExit)
  /\ \A i \in Conns :
       /\ WF_vars(HParse(i)) /\ WF_vars(HNew(i)) /\ WF_vars(HReject(i)) /\ WF_vars(HGrant(i))
       /\ WF_vars(HSelectShutdown(i) \/ HSelectHandler(i)) /\ WF_vars(HSocksClose(i)) /\ WF_vars(HWgDone(i))
       /\ WF_vars(DDial(i)) /\ WF_vars(DCopyRecv(i)) /\ WF_vars(DSfClose(i)) /\ WF_vars(DChClose(i))
       /\ WF_vars(UReadChunk(i)) /\ WF_vars(UReadEnd(i)) /\ WF_vars(UWrite(i)) /\ WF_vars(USignal(i))
       /\ WF_vars(VReadChunk(i)) /\ WF_vars(VReadEnd(i)) /\ WF_vars(VWrite(i)) /\ WF_vars(VSignal(i))

Spec == Init /\ [][Next]_vars /\ Fairness

(* Generation grain (gated replay): the environment moves only when the process is at rest *)
Quiescent == ~ENABLED CodeNext
GConnect(a)        == Quiescent /\ LAcceptConn(a)
GAcceptRetryAtOnce     == Quiescent /\ AcceptRetryAtOnce
GAcceptRetryAfterPause == Quiescent /\ AcceptRetryAfterPause
GAcceptPerm        == Quiescent /\ LAcceptPerm
GSocksChunk(i)     == Quiescent /\ SocksChunk(i)
GSocksEnd(i, k)    == Quiescent /\ SocksEnd(i, k)
GSocksWriteFail(i) == Quiescent /\ SocksWriteFail(i)
GSfChunk(i)        == Quiescent /\ SfChunk(i)
GSfEnd(i, k)       == Quiescent /\ SfEnd(i, k)
GSfWriteFail(i)    == Quiescent /\ SfWriteFail(i)
GShutdown          == Quiescent /\ EnvShutdown
GSigterm           == Quiescent /\ M.sigq = 0 /\ M.pc = "serve" /\ MSigterm
GStdinEOF          == Quiescent /\ M.pc = "serve" /\ MStdinEOF

GenNext ==
  \/ LBackoffDone \/ LAcceptClosed \/ LLnClose \/ MStdinSend \/ MRecv \/ MCloseListeners \/ MBroadcast \/ MWait \/ MExit
  \/ (\E i \in Conns : HParse(i) \/ HNew(i) \/ HReject(i) \/ HGrant(i) \/ HSelectShutdown(i) \/ HSelectHandler(i) \/ HSocksClose(i) \/ HWgDone(i))
  \/ (\E i \in Conns : DDial(i) \/ DCopyRecv(i) \/ DSfClose(i) \/ DChClose(i))
  \/ (\E i \in Conns : UReadChunk(i) \/ UReadEnd(i) \/ UWrite(i) \/ USignal(i))
  \/ (\E i \in Conns : VReadChunk(i) \/ VReadEnd(i) \/ VWrite(i) \/ VSignal(i))
  \/ (\E a \in ArgChoices : GConnect(a)) \/ GAcceptRetryAtOnce \/ GAcceptRetryAfterPause \/ GAcceptPerm
  \/ (\E i \in Conns : GSocksChunk(i) \/ GSocksEnd(i, "eof") \/ GSocksEnd(i, "err") \/ GSocksWriteFail(i)
                        \/ GSfChunk(i) \/ GSfEnd(i, "eof") \/ GSfEnd(i, "err") \/ GSfWriteFail(i))
  \/ GShutdown \/ GSigterm \/ GStdinEOF
GenSpec == Init /\ [][GenNext]_vars

-----------------------------------------------------------------------------
(* Properties *)

IsPrefixNat(s, n) == Len(s) <= n /\ \A k \in 1..Len(s) : s[k] = k
InHandU(i) == IF C[i].u = "write" THEN 1 ELSE 0
InHandV(i) == IF C[i].v = "write" THEN 1 ELSE 0

CopyLaw ==
  \A i \in Conns :
    /\ IsPrefixNat(C[i].fgot, C[i].staken) /\ IsPrefixNat(C[i].sgot, C[i].ftaken)
    /\ Len(C[i].fgot) + InHandU(i) + C[i].lostUp = C[i].staken
    /\ Len(C[i].sgot) + InHandV(i) + C[i].lostDown = C[i].ftaken
    /\ (C[i].lostUp > 0 => C[i].fclosed > 0 \/ C[i].fwfail)
    /\ (C[i].lostDown > 0 => C[i].sclosed > 0 \/ C[i].swfail)

(* exactly one Close of each conn once the goroutine that owns it has finished; never two *)
SocksClosedOnce == \A i \in Conns : C[i].sclosed <= 1 /\ (C[i].h = "done" => C[i].sclosed = 1)
SfClosedOnce    == \A i \in Conns : C[i].fclosed <= 1 /\ (C[i].d = "done" /\ ~C[i].dialerr => C[i].fclosed = 1)

(* the SOCKS reply: rejected exactly for an unparsable max or a refused config; one reply before the close *)
ShouldReject(i) == ("max" \in FieldSet /\ C[i].args["max"] = "bad") \/ Refused(Expected(i))
ReplyLaw ==
  \A i \in Conns : C[i].h \in {"select", "sclose", "wgdone", "done"} =>
     C[i].reply = (IF ShouldReject(i) THEN "rejected" ELSE "granted")

(* CONSTRAINT of the configurations that check the whole precedence table: what happens after the reply does
   not depend on the arguments, it is explored by the other configurations *)
UpToReply == \A i \in Conns : C[i].d = "none"

(* the config precedence table *)
ConfigIsolation ==
  \A i \in Conns : C[i].seen # NoCfg => C[i].seen = Expected(i)
ConfigSeenWhenDue ==
  \A i \in Conns : C[i].h \in {"grant", "select", "sclose", "wgdone", "done"} /\ ~("max" \in FieldSet /\ C[i].args["max"] = "bad")
                      => C[i].seen # NoCfg

LoopEndsOnlyOnPerm == L.pc \in {"lnclose", "ended"} => (L.perm \/ M.lnClosed \/ Mode = "copy")
LnClosedByLoop == L.pc = "ended" /\ Mode = "socks" => L.lncloses = 1

(* nothing a handler does to its own connection touches the loop or main *)
HandlersLeaveLoopAlone ==
  [][\A i \in Conns : (C'[i] # C[i] /\ L.nacc >= i) => (L' = L /\ M' = M)]_vars

(* at rest *)
NoLeak ==
  (Quiescent /\ Alive) => \A i \in Conns :
     (C[i].h = "done" /\ C[i].d \in {"none", "done"}) => (C[i].u \in {"none", "done"} /\ C[i].v \in {"none", "done"})
NoStuck ==
  (Quiescent /\ Alive) =>
     /\ \A i \in Conns :
          /\ C[i].h \in {"none", "select", "done"}
          /\ C[i].d \in {"none", "copy", "done"}
          /\ (C[i].h = "select" => (~shutdown /\ C[i].d = "copy" /\ C[i].u = "read" /\ C[i].v = "read"))
          /\ (C[i].d = "copy" => (C[i].u = "read" /\ C[i].v = "read"))
     /\ (shutdown => wg = 0)
     /\ (M.pc \in {"serve"})

(* liveness *)
ShutdownReachesAll == \A i \in Conns : (shutdown /\ C[i].h # "none") ~> (C[i].h = "done" \/ ~Alive)
ShutdownExits == (M.sigq = 1 \/ M.stdin = "eof") ~> (M.pc = "exited")
Ended(i) == C[i].send # "open" \/ C[i].fend # "open"
HandlerEnds == \A i \in Conns : (C[i].h = "select" /\ (Ended(i) \/ C[i].dialerr)) ~> (C[i].h = "done" \/ ~Alive)
Replied == \A i \in Conns : (C[i].h = "parse") ~> (C[i].reply # "none" \/ ~Alive)
LoopEnds == (L.perm \/ M.lnClosed) ~> (L.pc = "ended" \/ ~Alive)
=============================================================================
