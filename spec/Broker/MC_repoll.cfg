\* generated by lib/brokerlib.py mc_configs (kept here so that the model can be run by hand: tlc -config MC_repoll.cfg Broker.tla)
CONSTANTS
  Proxies = {"p1", "p2"}
  Clients = {"c1"}
  Answers = {"a1"}
  PT = 2
  CT = 2
  Loads = {0, 8}
  NoTies = TRUE
  StrictTimers = FALSE
  D1Fixed = TRUE
  D2Fixed = TRUE
  PNatSet = {"unrestricted"}
  CNatSet = {"restricted"}
  FpSet = {"default"}
  UnknownTargets = FALSE
  Bridges = {"default", "b2"}
  DupSids = TRUE
  Rejects = FALSE
  MaxDebug = 0
  None = None
SPECIFICATION Spec
VIEW view
INVARIANTS TypeOK NoCrossWire OneOfferPerPoll OnePollPerOffer ClaimsDisjoint RelayURLRight UnlistedNeverMatched NATCompatible NoGhost GaugeIsIdmap HeapsInIdmap GaugeCountsHeaps
PROPERTIES MatchRight EveryRequestCompletes
