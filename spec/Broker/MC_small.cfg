CONSTANTS
  Proxies = {"p1"}
  Clients = {"c1"}
  Answers = {"a1"}
  PT = 2
  CT = 2
  Loads = {0, 8}
  NoTies = FALSE
  StrictTimers = FALSE
  D1Fixed = TRUE
  D2Fixed = TRUE
  PNatSet = {"unrestricted", "restricted", "unknown"}
  CNatSet = {"unrestricted", "restricted", "unknown", "absent"}
  FpSet = {"default", "b2", "unlisted"}
  UnknownTargets = TRUE
  None = None
SPECIFICATION Spec
VIEW view
INVARIANTS TypeOK NoCrossWire OneOfferPerPoll OnePollPerOffer ClaimsDisjoint RelayURLRight UnlistedNeverMatched NATCompatible NoGhost GaugeIsIdmap HeapsInIdmap
PROPERTIES MatchRight EveryRequestCompletes
