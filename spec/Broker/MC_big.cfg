\* generated by lib/brokerlib.py mc_configs (kept here so that the model can be run by hand: tlc -config MC_big.cfg Broker.tla)
CONSTANTS
  Proxies = {"p1", "p2", "p3"}
  Clients = {"c1", "c2"}
  Answers = {"a1", "a2"}
  PT = 2
  CT = 2
  Loads = {0, 8, 16}
  NoTies = TRUE
  StrictTimers = FALSE
  D1Fixed = TRUE
  D2Fixed = TRUE
  PNatSet = {"unrestricted"}
  CNatSet = {"restricted"}
  FpSet = {"default"}
  UnknownTargets = FALSE
  Bridges = {"default", "b2"}
  DupSids = FALSE
  Rejects = FALSE
  MaxDebug = 0
  None = None
SPECIFICATION Spec
VIEW view
INVARIANTS TypeOK NoCrossWire OneOfferPerPoll OnePollPerOffer ClaimsDisjoint RelayURLRight UnlistedNeverMatched NATCompatible NoGhost GaugeIsIdmap HeapsInIdmap GaugeCountsHeaps
PROPERTIES MatchRight 
