\* generated by lib/brokerlib.py gen_configs (tlc -simulate num=N -depth 60 -config Gen_core.cfg Broker.tla)
CONSTANTS
  Proxies = {"p1", "p2"}
  Clients = {"c1", "c2"}
  Answers = {"a1", "a2"}
  PT = 2
  CT = 2
  Loads = {0, 5, 8, 13, 20, 21, 28, 29}
  NoTies = TRUE
  StrictTimers = TRUE
  D1Fixed = TRUE
  D2Fixed = TRUE
  PNatSet = {"unrestricted", "restricted", "unknown"}
  CNatSet = {"unrestricted", "restricted", "unknown", "absent"}
  FpSet = {"default", "b2"}
  UnknownTargets = TRUE
  Bridges = {"default", "b2"}
  DupSids = FALSE
  Rejects = TRUE
  MaxDebug = 2
  None = None
INIT Init
NEXT Next
CHECK_DEADLOCK FALSE
