CONSTANTS
  Proxies = {"p1", "p2"}
  Clients = {"c1", "c2"}
  Answers = {"a1", "a2"}
  PT = 2
  CT = 2
  Loads = {0, 8}
  NoTies = TRUE
  StrictTimers = FALSE
  D1Fixed = TRUE
  D2Fixed = TRUE
  PNatSet = {"unrestricted"}
  CNatSet = {"restricted"}
  FpSet = {"default", "b2"}
  UnknownTargets = TRUE
  None = None
SPECIFICATION Spec
VIEW view
INVARIANTS TypeOK NoCrossWire OneOfferPerPoll OnePollPerOffer ClaimsDisjoint RelayURLRight UnlistedNeverMatched NATCompatible NoGhost GaugeIsIdmap HeapsInIdmap
PROPERTIES MatchRight 
