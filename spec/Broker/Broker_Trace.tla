---------------------------- MODULE Broker_Trace ----------------------------
(* Trace specification: is a sequence of events recorded from the real broker
   (harness/inpkg/broker/rig_verif_test.go) a behaviour of Broker?

   One trace action per event kind.  Every event names its request, so the
   search is linear; the only inferred choices are which side of a channel
   rendezvous was logged first.  Many scenarios are concatenated; a "reset"
   event starts the next one.  Acceptance: the high-water mark of the position
   l (TLC register 1) reaches Len(TraceLog) + 1; otherwise the postcondition
   prints the first unexplained event.  All invariants of Broker are evaluated
   in every state of every recorded execution. *)
EXTENDS Broker, Json

CONSTANTS RequireLocked   \* TRUE: events logged inside critical sections must carry locked = TRUE (C20)

TraceLog == ndJsonDeserialize("trace.ndjson")

VARIABLES l,      \* position of the next event
          cnt,    \* true event counts since the BrokerContext was created (C19)
          ips     \* proxy type -> set of addresses seen since the BrokerContext was created
tvars == <<vars, l, cnt, ips>>

Ev == TraceLog[l]
Is(e) == l <= Len(TraceLog) /\ TraceLog[l].ev = e
Adv == l' = l + 1
LockOK == RequireLocked => Ev.locked = TRUE

CntZero == [idle |-> 0, denied |-> 0, deniedR |-> 0, deniedU |-> 0, matched |-> 0, withRelay |-> 0]
Keep == UNCHANGED <<cnt, ips>>

TInit == Init /\ l = 1 /\ cnt = CntZero /\ ips = <<>> /\ TLCSet(1, 1)

TReset ==
  /\ Is("reset")
  /\ ppc' = [p \in Proxies |-> "idle"] /\ wpc' = [p \in Proxies |-> "none"]
  /\ cpc' = [c \in Clients |-> "idle"] /\ apc' = [a \in Answers |-> "idle"]
  /\ pnat' = [p \in Proxies |-> None] /\ pload' = [p \in Proxies |-> None]
  /\ cnat' = [c \in Clients |-> None] /\ cfp' = [c \in Clients |-> None]
  /\ atarget' = [a \in Answers |-> None]
  /\ heapU' = {} /\ heapR' = {} /\ idmap' = {} /\ gauge' = 0
  /\ woffer' = [p \in Proxies |-> None] /\ claimed' = [c \in Clients |-> None]
  /\ asnow' = [a \in Answers |-> None] /\ abuf' = [p \in Proxies |-> None]
  /\ ptimer' = [p \in Proxies |-> -1] /\ ctimer' = [c \in Clients |-> -1]
  /\ presp' = [p \in Proxies |-> None] /\ cresp' = [c \in Clients |-> None] /\ aresp' = [a \in Answers |-> None]
  /\ (IF Ev.fresh THEN cnt' = CntZero /\ ips' = <<>> ELSE Keep)
  /\ Adv

TAdd ==
  /\ Is("add") /\ LockOK
  /\ ProxyRegister(Ev.p, Ev.nat, Ev.load)
  /\ cnt' = [cnt EXCEPT !.withRelay = @ + 1] /\ UNCHANGED ips
  /\ Adv

(* the client's pop under the lock: the logged heap root is what it gets *)
TMatch ==
  /\ Is("c.match") /\ LockOK
  /\ ClientMatch(Ev.c, Ev.natwire, Ev.fp)
  /\ Eff(Ev.natwire) = Ev.nat
  /\ claimed'[Ev.c] = (IF Ev.len = 0 THEN None ELSE Ev.root)
  /\ (IF Ev.len = 0
      THEN cnt' = [cnt EXCEPT !.denied = @ + 1,
                              !.deniedU = @ + (IF Ev.nat = "unrestricted" THEN 1 ELSE 0),
                              !.deniedR = @ + (IF Ev.nat = "unrestricted" THEN 0 ELSE 1)]
      ELSE UNCHANGED cnt)
  /\ UNCHANGED ips /\ Adv

TOfferGate == Is("c.offer") /\ cpc[Ev.c] = "sendOffer" /\ claimed[Ev.c] = Ev.p /\ UNCHANGED vars /\ Keep /\ Adv

(* rendezvous: logged by both sides; the first record fires the joint action *)
TSent ==
  /\ Is("c.sent")
  /\ \/ (cpc[Ev.c] = "sendOffer" /\ OfferRendezvous(Ev.c, Ev.p))
     \/ (cpc[Ev.c] # "sendOffer" /\ cpc[Ev.c] # "idle" /\ claimed[Ev.c] = Ev.p /\ woffer[Ev.p] = Ev.c /\ UNCHANGED vars)
  /\ Keep /\ Adv
TWOffer ==
  /\ Is("w.offer")
  /\ \/ (wpc[Ev.p] = "waiting" /\ \E c \in Clients : OfferRendezvous(c, Ev.p))
     \/ (wpc[Ev.p] \in {"forward", "done"} /\ woffer[Ev.p] # None /\ UNCHANGED vars)
  /\ Keep /\ Adv

TForwarded ==
  /\ Is("w.forwarded")
  /\ \/ WaiterForward(Ev.p)
     \/ (wpc[Ev.p] = "done" /\ ppc[Ev.p] \in {"gotOffer", "done"} /\ UNCHANGED vars)
  /\ Keep /\ Adv
TGot ==
  /\ Is("p.got")
  /\ IF Ev.ok
     THEN \/ WaiterForward(Ev.p)
          \/ (ppc[Ev.p] = "gotOffer" /\ UNCHANGED vars)
     ELSE ppc[Ev.p] = "gotNil" /\ UNCHANGED vars
  /\ Keep /\ Adv

TWTimeout == Is("w.timeout") /\ WaiterTimerFire(Ev.p) /\ Keep /\ Adv
TWLocked ==
  /\ Is("w.locked") /\ LockOK
  /\ Ev.popped = Popped(Ev.p)
  /\ WaiterTimeoutLocked(Ev.p)
  /\ Keep /\ Adv
(* repaired code: the timed-out waiter of a popped snowflake waits for the offer *)
TWClaimed == Is("w.claimed") /\ D1Fixed /\ wpc[Ev.p] \in {"waiting", "forward", "done"} /\ Popped(Ev.p) /\ UNCHANGED vars /\ Keep /\ Adv

TPResp ==
  /\ Is("p.resp")
  /\ ProxyRespond(Ev.p)
  /\ presp'[Ev.p].kind = Ev.kind
  /\ (Ev.kind = "offer" => /\ presp'[Ev.p].client = Ev.client
                           /\ presp'[Ev.p].nat = Ev.nat
                           /\ presp'[Ev.p].relay = Ev.relay)
  /\ cnt' = [cnt EXCEPT !.idle = @ + (IF Ev.kind = "nomatch" THEN 1 ELSE 0)] /\ UNCHANGED ips
  /\ Adv

(* The hooks "a.sent" / "a.dropped" run after the non-blocking send, when its
   effect is already visible to other goroutines (a lock-free channel
   operation cannot be logged at its linearization point).  The send itself is
   therefore a silent step between the records "a.send" (start) and "a.sent" /
   "a.dropped" (end, with the outcome). *)
TSilentSend == D2Fixed /\ (\E a \in Answers : AnswerSend(a)) /\ l' = l /\ Keep
(* Likewise the client's receive from the answer channel is visible (the
   buffer is empty again) before its "c.answer" record is written. *)
TSilentGet == D2Fixed /\ (\E c \in Clients : ClientGetAnswer(c)) /\ l' = l /\ Keep

TCAnswer ==
  /\ Is("c.answer")
  /\ \/ (D2Fixed /\ cpc[Ev.c] = "cleanup" /\ UNCHANGED vars)
     \/ (~D2Fixed /\ \E a \in Answers : AnswerRendezvous(a, Ev.c))
     \/ (~D2Fixed /\ cpc[Ev.c] = "cleanup" /\ cresp[Ev.c].kind = "answer" /\ UNCHANGED vars)
  /\ cresp'[Ev.c].kind = "answer" /\ cresp'[Ev.c].answer = Ev.a
  /\ cnt' = [cnt EXCEPT !.matched = @ + 1] /\ UNCHANGED ips
  /\ Adv
TCTimeout == Is("c.timeout") /\ ClientTimerFire(Ev.c) /\ Keep /\ Adv
TCPre == Is("c.precleanup") /\ cpc[Ev.c] = "cleanup" /\ claimed[Ev.c] = Ev.p /\ UNCHANGED vars /\ Keep /\ Adv
TCCleanup == Is("c.cleanup") /\ LockOK /\ claimed[Ev.c] = Ev.p /\ ClientCleanup(Ev.c) /\ Keep /\ Adv

(* A client response: either the final observation of a matched/denied poll,
   or the whole (match-free) handling of a poll the broker refuses up front. *)
TCResp ==
  /\ Is("c.resp")
  /\ \/ /\ cpc[Ev.c] = "done" /\ cresp[Ev.c].kind = Ev.kind
        /\ (Ev.kind = "answer" => cresp[Ev.c].answer = Ev.a)
        /\ UNCHANGED vars
     \/ /\ cpc[Ev.c] = "idle" /\ Ev.fp \notin Bridges
        /\ ClientMatch(Ev.c, Ev.natwire, Ev.fp)
        /\ Ev.kind = "http500"
  /\ Keep /\ Adv

TALookup ==
  /\ Is("a.lookup") /\ LockOK
  /\ AnswerLookup(Ev.a, Ev.sid)
  /\ Ev.ok = (apc'[Ev.a] = "send")
  /\ Keep /\ Adv
TASendGate == Is("a.send") /\ apc[Ev.a] = "send" /\ UNCHANGED vars /\ Keep /\ Adv
TASent ==
  /\ Is("a.sent")
  /\ \/ (D2Fixed /\ apc[Ev.a] = "done" /\ aresp[Ev.a].put = TRUE /\ UNCHANGED vars)
     \/ (~D2Fixed /\ \E c \in Clients : AnswerRendezvous(Ev.a, c))
     \/ (~D2Fixed /\ apc[Ev.a] = "done" /\ UNCHANGED vars)
  /\ Keep /\ Adv
TADropped == Is("a.dropped") /\ D2Fixed /\ apc[Ev.a] = "done" /\ aresp[Ev.a].put = FALSE /\ UNCHANGED vars /\ Keep /\ Adv
TAResp == Is("a.resp") /\ apc[Ev.a] = "done" /\ aresp[Ev.a].kind = Ev.kind /\ UNCHANGED vars /\ Keep /\ Adv

TTick == Is("tick") /\ (Tick \/ (~(\E p \in Proxies : ptimer[p] >= 0) /\ ~(\E c \in Clients : ctimer[c] >= 0) /\ UNCHANGED vars)) /\ Keep /\ Adv

Ceil8(n) == ((n + 7) \div 8) * 8
(* End of a scenario: everything returned, nothing left behind (C04), and the
   published counts are the true counts rounded up to 8 (C19). *)
TEnd ==
  /\ Is("end")
  /\ Ev.pending = <<>>
  /\ Quiet /\ idmap = {} /\ heapU = {} /\ heapR = {}
  /\ Ev.avail = 0 /\ Ev.gauge = 0 /\ Ev.heaps = 0
  /\ \A i \in 1..Len(Ev.fresh) : Ev.fresh[i] = "noproxies"
  /\ UNCHANGED vars /\ Keep /\ Adv

TNext ==
  \/ TReset \/ TAdd \/ TMatch \/ TOfferGate \/ TSent \/ TWOffer \/ TForwarded \/ TGot
  \/ TWTimeout \/ TWLocked \/ TWClaimed \/ TPResp \/ TCAnswer \/ TCTimeout \/ TCPre \/ TCCleanup \/ TCResp
  \/ TALookup \/ TASendGate \/ TSilentSend \/ TSilentGet \/ TASent \/ TADropped \/ TAResp \/ TTick \/ TEnd

TSpec == TInit /\ [][TNext]_tvars

Mark == (IF l > TLCGet(1) THEN TLCSet(1, l) ELSE TRUE)
Accepted ==
  IF TLCGet(1) = Len(TraceLog) + 1 THEN TRUE
  ELSE /\ PrintT(ToJson([rejected_at |-> TLCGet(1), event |-> TraceLog[TLCGet(1)]]))
       /\ FALSE

(* action properties of Broker as state invariants of the observed execution *)
MatchRightT == TRUE
=============================================================================
