---------------------------- MODULE Broker_Trace ----------------------------
(* Trace specification: is a sequence of events recorded from the real broker
   (harness/inpkg/broker/rig_verif_test.go) a behaviour of Broker?

   One trace action per event kind.  Every event names its request, so the
   search is linear; the only inferred choices are which side of a channel
   rendezvous was logged first.  Many scenarios are concatenated; a "reset"
   event starts the next one.  Acceptance: the high-water mark of the position
   l (TLC register 1) reaches Len(TraceLog) + 1; otherwise the postcondition
   prints the first unexplained event.  All invariants of Broker are evaluated
   in every state of every recorded execution. *)
EXTENDS Broker, Json

CONSTANTS RequireLocked   \* TRUE: events logged inside critical sections must carry locked = TRUE (C20)

TraceLog == ndJsonDeserialize("trace.ndjson")

VARIABLES l,      \* position of the next event
          cnt,    \* true event counts of the current measurement period (metrics log, C19)
          pcnt,   \* Prometheus label set (as text) -> true event count since the BrokerContext was created
          ips,    \* proxy type -> set of <<address, country>> seen in the current measurement period
          nats,   \* set of <<address, NAT class>> polled in the current measurement period
          jadds,  \* <<time, address>> of every registration of the current scenario (distinct-IP journal, C19)
          mok     \* the counts above are known (FALSE after an unexplained scenario, until the next new BrokerContext)
tvars == <<vars, l, cnt, pcnt, ips, jadds, nats, mok>>

Ev == TraceLog[l]
Is(e) == l <= Len(TraceLog) /\ TraceLog[l].ev = e
Adv == l' = l + 1 /\ (IF TraceLog[l].ev = "reset" THEN TRUE ELSE UNCHANGED mok)
LockOK == RequireLocked => Ev.locked = TRUE

CntZero == [idle |-> 0, denied |-> 0, deniedR |-> 0, deniedU |-> 0, matched |-> 0, withRelay |-> 0, withoutRelay |-> 0, rejected |-> 0]
Keep == UNCHANGED <<cnt, pcnt, ips, jadds, nats>>
Empty == [x \in {} |-> 0]
Bump(f, k) == IF k \in DOMAIN f THEN [f EXCEPT ![k] = @ + 1] ELSE f @@ (k :> 1)
PutIn(f, k, x) == IF k \in DOMAIN f THEN [f EXCEPT ![k] = @ \cup {x}] ELSE f @@ (k :> {x})
KnownTypes == {"standalone", "webext", "badge", "iptproxy"}
NatClass(n) == IF n \in {"restricted", "unrestricted"} THEN n ELSE "unknown"
ProxyPollKey(nat, status) == "prom:rounded_proxy_poll_total{nat=" \o nat \o ",status=" \o status \o "}"
ClientPollKey(nat, status) == "prom:rounded_client_poll_total{nat=" \o nat \o ",status=" \o status \o "}"
RejectedKey(nat, type) == "prom:rounded_proxy_poll_rejected_relay_url_extension_total{nat=" \o nat \o ",type=" \o type \o "}"
RelayKey(with, nat, type) == "prom:rounded_proxy_poll_" \o (IF with THEN "with" ELSE "without") \o "_relay_url_extension_total{nat=" \o nat \o ",type=" \o type \o "}"

TInit == Init /\ l = 1 /\ cnt = CntZero /\ pcnt = Empty /\ ips = Empty /\ jadds = {} /\ nats = {} /\ mok = TRUE /\ TLCSet(1, 1)

TReset ==
  /\ Is("reset")
  /\ ppc' = [p \in Proxies |-> "idle"] /\ wpc' = [p \in Proxies |-> "none"]
  /\ cpc' = [c \in Clients |-> "idle"] /\ apc' = [a \in Answers |-> "idle"]
  /\ pnat' = [p \in Proxies |-> None] /\ pload' = [p \in Proxies |-> None] /\ psid' = [p \in Proxies |-> None]
  /\ cnat' = [c \in Clients |-> None] /\ cfp' = [c \in Clients |-> None]
  /\ atarget' = [a \in Answers |-> None] /\ dbg' = 0
  /\ heapU' = {} /\ heapR' = {} /\ idmap' = {} /\ gauge' = 0
  /\ woffer' = [p \in Proxies |-> None] /\ claimed' = [c \in Clients |-> None]
  /\ asnow' = [a \in Answers |-> None] /\ abuf' = [p \in Proxies |-> None]
  /\ ptimer' = [p \in Proxies |-> -1] /\ ctimer' = [c \in Clients |-> -1]
  /\ presp' = [p \in Proxies |-> None] /\ cresp' = [c \in Clients |-> None] /\ aresp' = [a \in Answers |-> None]
  /\ (IF Ev.fresh THEN cnt' = CntZero /\ pcnt' = Empty /\ ips' = Empty /\ nats' = {}
      ELSE IF Ev.rollover THEN cnt' = CntZero /\ ips' = Empty /\ nats' = {} /\ UNCHANGED pcnt
      ELSE UNCHANGED <<cnt, pcnt, ips, nats>>)
  /\ jadds' = {}
  /\ mok' = (IF Ev.fresh THEN TRUE ELSE IF Ev.resync THEN FALSE ELSE mok)
  /\ Adv

TAdd ==
  /\ Is("add") /\ LockOK
  /\ Ev.rejectable = FALSE                         \* a poll the broker must refuse never registers
  /\ Ev.nat = Eff(Ev.natwire)                       \* NAT type as decoded = as reported (absent means unknown)
  /\ ProxyRegister(Ev.p, Ev.nat, Ev.loadwire, Ev.p)      \* the heap order is judged on the self-reported count
  /\ cnt' = (IF Ev.relayext THEN [cnt EXCEPT !.withRelay = @ + 1] ELSE [cnt EXCEPT !.withoutRelay = @ + 1])
  /\ pcnt' = Bump(pcnt, RelayKey(Ev.relayext, Ev.nat, Ev.ptype))
  /\ ips' = PutIn(ips, Ev.ptype, <<Ev.addr, Ev.cc>>)       \* the country is a function of the address (test GeoIP tables)
  /\ nats' = nats \cup {<<Ev.addr, NatClass(Ev.nat)>>}
  /\ jadds' = jadds \cup {<<Ev.t, Ev.addr>>}
  /\ Adv

(* the client's pop under the lock: the logged heap root is what it gets *)
TMatch ==
  /\ Is("c.match") /\ LockOK
  /\ ClientMatch(Ev.c, Ev.natwire, Ev.fp)
  /\ Eff(Ev.natwire) = Ev.nat
  /\ claimed'[Ev.c] = (IF Ev.len = 0 THEN None ELSE Ev.root)
  /\ (IF Ev.len = 0
      THEN /\ cnt' = [cnt EXCEPT !.denied = @ + 1,
                                 !.deniedU = @ + (IF Ev.nat = "unrestricted" THEN 1 ELSE 0),
                                 !.deniedR = @ + (IF Ev.nat = "unrestricted" THEN 0 ELSE 1)]
           /\ pcnt' = Bump(pcnt, ClientPollKey(Ev.nat, "denied"))
      ELSE UNCHANGED <<cnt, pcnt>>)
  /\ UNCHANGED <<ips, jadds, nats>> /\ Adv

TOfferGate == Is("c.offer") /\ cpc[Ev.c] = "sendOffer" /\ claimed[Ev.c] = Ev.p /\ UNCHANGED vars /\ Keep /\ Adv

(* rendezvous: logged by both sides; the first record fires the joint action *)
TSent ==
  /\ Is("c.sent")
  /\ \/ (cpc[Ev.c] = "sendOffer" /\ OfferRendezvous(Ev.c, Ev.p))
     \/ (cpc[Ev.c] # "sendOffer" /\ cpc[Ev.c] # "idle" /\ claimed[Ev.c] = Ev.p /\ woffer[Ev.p] = Ev.c /\ UNCHANGED vars)
  /\ Keep /\ Adv
TWOffer ==
  /\ Is("w.offer")
  /\ \/ (wpc[Ev.p] = "waiting" /\ \E c \in Clients : OfferRendezvous(c, Ev.p))
     \/ (wpc[Ev.p] \in {"forward", "done"} /\ woffer[Ev.p] # None /\ UNCHANGED vars)
  /\ Keep /\ Adv

TForwarded ==
  /\ Is("w.forwarded")
  /\ \/ WaiterForward(Ev.p)
     \/ (wpc[Ev.p] = "done" /\ ppc[Ev.p] \in {"gotOffer", "done"} /\ UNCHANGED vars)
  /\ Keep /\ Adv
TGot ==
  /\ Is("p.got")
  /\ IF Ev.ok
     THEN \/ WaiterForward(Ev.p)
          \/ (ppc[Ev.p] = "gotOffer" /\ UNCHANGED vars)
     ELSE ppc[Ev.p] = "gotNil" /\ UNCHANGED vars
  /\ Keep /\ Adv

TWTimeout == Is("w.timeout") /\ WaiterTimerFire(Ev.p) /\ Keep /\ Adv
TWLocked ==
  /\ Is("w.locked") /\ LockOK
  /\ Ev.popped = Popped(Ev.p)
  /\ WaiterTimeoutLocked(Ev.p)
  /\ Keep /\ Adv
(* repaired code: the timed-out waiter of a popped snowflake waits for the offer *)
TWClaimed == Is("w.claimed") /\ D1Fixed /\ wpc[Ev.p] \in {"waiting", "forward", "done"} /\ Popped(Ev.p) /\ UNCHANGED vars /\ Keep /\ Adv

(* a refused poll (relay pattern): answered at once with a status that is neither a match nor "no
   match"; it is counted as a poll with the extension and as a rejected one, and nothing else moves *)
TPRejected ==
  /\ Is("p.resp") /\ ppc[Ev.p] = "idle"
  /\ Ev.refused = TRUE /\ Ev.rejectable = TRUE
  /\ ProxyRejected(Ev.p)
  /\ cnt' = [cnt EXCEPT !.withRelay = @ + 1, !.rejected = @ + 1]
  /\ LET t == IF Ev.ptype \in KnownTypes THEN Ev.ptype ELSE "unknown"     \* as decoded (messages.KnownProxyTypes)
     IN pcnt' = Bump(Bump(pcnt, RelayKey(TRUE, Eff(Ev.natwire), t)), RejectedKey(Eff(Ev.natwire), t))
  /\ UNCHANGED <<ips, jadds, nats>>
  /\ Adv

(* "aborted": the peer hung up while the response was being written (the harness's writer fails after
   a number of bytes); the handler has done everything else, only the response is not observed. *)
TPResp ==
  /\ Is("p.resp") /\ ppc[Ev.p] # "idle"
  /\ Ev.refused = FALSE
  /\ ProxyRespond(Ev.p)
  /\ (Ev.kind # "aborted" => presp'[Ev.p].kind = Ev.kind)
  /\ (Ev.kind = "offer" => /\ Ev.exact = TRUE                        \* the offer text arrives unchanged
                           /\ presp'[Ev.p].client = Ev.client
                           /\ presp'[Ev.p].nat = Ev.nat
                           /\ presp'[Ev.p].relay = Ev.relay)
  /\ cnt' = [cnt EXCEPT !.idle = @ + (IF ppc[Ev.p] = "gotNil" THEN 1 ELSE 0)]
  /\ pcnt' = Bump(pcnt, ProxyPollKey(pnat[Ev.p], IF ppc[Ev.p] = "gotNil" THEN "idle" ELSE "matched"))
  /\ UNCHANGED <<ips, jadds, nats>>
  /\ Adv

(* The hooks "a.sent" / "a.dropped" run after the non-blocking send, when its
   effect is already visible to other goroutines (a lock-free channel
   operation cannot be logged at its linearization point).  The send itself is
   therefore a silent step between the records "a.send" (start) and "a.sent" /
   "a.dropped" (end, with the outcome). *)
TSilentSend == D2Fixed /\ (\E a \in Answers : AnswerSend(a)) /\ l' = l /\ Keep /\ UNCHANGED mok
(* Likewise the client's receive from the answer channel is visible (the
   buffer is empty again) before its "c.answer" record is written. *)
TSilentGet == D2Fixed /\ (\E c \in Clients : ClientGetAnswer(c)) /\ l' = l /\ Keep /\ UNCHANGED mok

TCAnswer ==
  /\ Is("c.answer")
  /\ \/ (D2Fixed /\ cpc[Ev.c] = "cleanup" /\ UNCHANGED vars)
     \/ (~D2Fixed /\ \E a \in Answers : AnswerRendezvous(a, Ev.c))
     \/ (~D2Fixed /\ cpc[Ev.c] = "cleanup" /\ cresp[Ev.c].kind = "answer" /\ UNCHANGED vars)
  /\ cresp'[Ev.c].kind = "answer" /\ cresp'[Ev.c].answer = Ev.a
  /\ cnt' = [cnt EXCEPT !.matched = @ + 1]
  /\ pcnt' = Bump(pcnt, ClientPollKey(EffNat(Ev.c), "matched"))
  /\ UNCHANGED <<ips, jadds, nats>>
  /\ Adv
TCTimeout == Is("c.timeout") /\ ClientTimerFire(Ev.c) /\ Keep /\ Adv
TCPre == Is("c.precleanup") /\ cpc[Ev.c] = "cleanup" /\ claimed[Ev.c] = Ev.p /\ UNCHANGED vars /\ Keep /\ Adv
TCCleanup == Is("c.cleanup") /\ LockOK /\ claimed[Ev.c] = Ev.p /\ ClientCleanup(Ev.c) /\ Keep /\ Adv

(* A client response: either the final observation of a matched/denied poll,
   or the whole (match-free) handling of a poll the broker refuses up front. *)
TCResp ==
  /\ Is("c.resp")
  /\ \/ /\ cpc[Ev.c] = "done" /\ Ev.kind = "aborted" /\ UNCHANGED vars
     \/ /\ cpc[Ev.c] = "done" /\ cresp[Ev.c].kind = Ev.kind
        /\ (Ev.kind = "answer" => cresp[Ev.c].answer = Ev.a /\ Ev.exact = TRUE)   \* the answer text arrives unchanged
        /\ UNCHANGED vars
     \/ /\ cpc[Ev.c] = "idle" /\ Ev.fp \notin Bridges
        /\ ClientMatch(Ev.c, Ev.natwire, Ev.fp)
        /\ Ev.kind \in {"http500", "aborted"}
  /\ Keep /\ Adv

TALookup ==
  /\ Is("a.lookup") /\ LockOK
  /\ AnswerLookup(Ev.a, Ev.sid)
  /\ Ev.ok = (apc'[Ev.a] = "send")
  /\ Keep /\ Adv
TASendGate == Is("a.send") /\ apc[Ev.a] = "send" /\ UNCHANGED vars /\ Keep /\ Adv
TASent ==
  /\ Is("a.sent")
  /\ \/ (D2Fixed /\ apc[Ev.a] = "done" /\ aresp[Ev.a].put = TRUE /\ UNCHANGED vars)
     \/ (~D2Fixed /\ \E c \in Clients : AnswerRendezvous(Ev.a, c))
     \/ (~D2Fixed /\ apc[Ev.a] = "done" /\ UNCHANGED vars)
  /\ Keep /\ Adv
TADropped == Is("a.dropped") /\ D2Fixed /\ apc[Ev.a] = "done" /\ aresp[Ev.a].put = FALSE /\ UNCHANGED vars /\ Keep /\ Adv
TAResp == Is("a.resp") /\ apc[Ev.a] = "done" /\ aresp[Ev.a].kind = Ev.kind /\ UNCHANGED vars /\ Keep /\ Adv

(* /debug served: it reports the number of registered snowflakes and changes nothing *)
TDebug == Is("debug") /\ Ev.avail >= 0 /\ (Ev.exact => Ev.avail = Cardinality(idmap)) /\ DebugPoll /\ Keep /\ Adv

(* The distinct-IP journal of the scenario (flushed at its end): every proxy poll's address is in the
   chunk that was current when it polled - a rotation is triggered by the first poll after the
   interval, closes the chunk at that instant, and that poll belongs to the next chunk - and the
   reader's count for a window that is exactly one chunk is the number of distinct addresses in it.
   The journal holds no address text. *)
InChunk(t, k, chunks) == chunks[k].s <= t /\ (t < chunks[k].e \/ (k = Len(chunks) /\ t <= chunks[k].e))
TJournal ==
  /\ Is("journal")
  /\ Ev.addrtext = FALSE
  /\ \A k \in 1..Len(Ev.chunks) : Ev.chunks[k].n = Cardinality({x[2] : x \in {y \in jadds : InChunk(y[1], k, Ev.chunks)}})
  /\ \A x \in jadds : \E k \in 1..Len(Ev.chunks) : InChunk(x[1], k, Ev.chunks)
  /\ UNCHANGED vars /\ Keep /\ Adv

(* a metrics critical section was entered (lock probe, C20) *)
TMLocked == Is("m.locked") /\ LockOK /\ UNCHANGED vars /\ Keep /\ Adv

TTick == Is("tick") /\ (Tick \/ (~(\E p \in Proxies : ptimer[p] >= 0) /\ ~(\E c \in Clients : ctimer[c] >= 0) /\ UNCHANGED vars)) /\ Keep /\ Adv

Ceil8(n) == ((n + 7) \div 8) * 8
(* End of a scenario: everything returned, nothing left behind (C04). *)
TEnd ==
  /\ Is("end")
  /\ Ev.pending = <<>>
  /\ Quiet /\ idmap = {} /\ heapU = {} /\ heapR = {}
  /\ Ev.avail = 0 /\ Ev.gauge = 0 /\ Ev.heaps = 0
  /\ \A i \in 1..Len(Ev.fresh) : Ev.fresh[i] = "noproxies"
  /\ UNCHANGED vars /\ Keep /\ Adv

(* Published figures (scraped before the two fresh probe polls of the rig,
   which are then added to the true counts): every count is the true count
   rounded up to 8; per-type address figures count each address once (C19). *)
CardOf(t) == IF t \in DOMAIN ips THEN Cardinality(ips[t]) ELSE 0
RECURSIVE SumCards(_)
SumCards(S) == IF S = {} THEN 0 ELSE LET t == CHOOSE x \in S : TRUE IN Cardinality(ips[t]) + SumCards(S \ {t})
Seen == UNION {ips[t] : t \in DOMAIN ips}
Countries == {x[2] : x \in Seen}
RECURSIVE CcSum(_, _)
CcSum(S, c) == IF S = {} THEN 0 ELSE LET t == CHOOSE x \in S : TRUE IN Cardinality({x \in ips[t] : x[2] = c}) + CcSum(S \ {t}, c)
CcCount(c) == CcSum(DOMAIN ips, c)
AnyNat(k) == {x[1] : x \in {y \in nats : y[2] = k}}
OnlyNat(k) == {a \in AnyNat(k) : \A y \in nats : y[1] = a => y[2] = k}
MetricsRight(m) ==
  /\ m["log:snowflake-idle-count"] = Ceil8(cnt.idle)
  /\ m["log:client-denied-count"] = Ceil8(cnt.denied)
  /\ m["log:client-restricted-denied-count"] = Ceil8(cnt.deniedR)
  /\ m["log:client-unrestricted-denied-count"] = Ceil8(cnt.deniedU)
  /\ m["log:client-snowflake-match-count"] = Ceil8(cnt.matched)
  /\ m["log:snowflake-proxy-poll-with-relay-url-count"] = Ceil8(cnt.withRelay)
  /\ m["log:snowflake-proxy-poll-without-relay-url-count"] = Ceil8(cnt.withoutRelay)
  /\ m["log:snowflake-proxy-rejected-for-relay-url-count"] = Ceil8(cnt.rejected)
  /\ \A k \in DOMAIN pcnt : k \in DOMAIN m /\ m[k] = Ceil8(pcnt[k])
  /\ \A t \in KnownTypes : m["log:snowflake-ips-" \o t] = CardOf(t)
  /\ m["log:snowflake-ips-total"] = SumCards(DOMAIN ips)
  \* per-country figures: each address once per proxy type, under the country the tables give it
  /\ {<<m.cc[i].c, m.cc[i].n>> : i \in 1..Len(m.cc)} = {<<c, CcCount(c)>> : c \in Countries}
  /\ Len(m.cc) = Cardinality(Countries)
  \* per-NAT figures: an address that only ever polled with one NAT class this period is counted
  \* under it; no figure counts an address that never polled with that class
  /\ \A k \in {"restricted", "unrestricted", "unknown"} :
        /\ m["log:snowflake-ips-nat-" \o k] >= Cardinality(OnlyNat(k))
        /\ m["log:snowflake-ips-nat-" \o k] <= Cardinality(AnyNat(k))
TMetrics ==
  /\ Is("metrics")
  /\ (mok => MetricsRight(Ev.m))
  /\ (IF Ev.nfresh = 2
      THEN /\ cnt' = [cnt EXCEPT !.denied = @ + 2, !.deniedR = @ + 1, !.deniedU = @ + 1]
           /\ pcnt' = Bump(Bump(pcnt, ClientPollKey("unknown", "denied")), ClientPollKey("unrestricted", "denied"))
      ELSE UNCHANGED <<cnt, pcnt>>)
  /\ UNCHANGED vars /\ UNCHANGED <<ips, jadds, nats>> /\ Adv

(* A measurement period that ends while requests are being served (the scenario ends periods in a
   storm during its waves; it runs in a process of its own and the model state is not advanced).
   Whatever the interleaving, one period's printed figures are consistent with each other: an address
   enters its per-type set, its country count and its NAT set in ONE critical section, so the
   per-country counts add up to the total, the known types do not exceed it, and the NAT sets hold
   at least one address when the total is not zero. *)
RECURSIVE SumN(_, _)
SumN(q, i) == IF i > Len(q) THEN 0 ELSE q[i].n + SumN(q, i + 1)
RECURSIVE SumTypes(_, _)
SumTypes(m, S) == IF S = {} THEN 0 ELSE LET t == CHOOSE x \in S : TRUE IN m["log:snowflake-ips-" \o t] + SumTypes(m, S \ {t})
MidRight(m) ==
  LET total == m["log:snowflake-ips-total"]
      nats3 == m["log:snowflake-ips-nat-restricted"] + m["log:snowflake-ips-nat-unrestricted"] + m["log:snowflake-ips-nat-unknown"]
  IN /\ SumN(m.cc, 1) = total
     /\ SumTypes(m, KnownTypes) <= total
     /\ (total > 0 => nats3 >= 1)    \* (no upper bound: counting an address under every NAT type it polled with would be as good)
TMid == Is("metrics-mid") /\ MidRight(Ev.m) /\ UNCHANGED vars /\ Keep /\ Adv

(* A scenario whose client polls were byte-identical (same offer, NAT type and fingerprint, as an AMP
   cache re-fetch or a retry would be): its events cannot be attributed to clients by content, so only
   the counts at quiescence are judged - OneOfferPerPoll / OnePollPerOffer / NoCrossWire as numbers:
   every client that got past the matching was handed to exactly one proxy of its own, and no answer
   reached two clients.  The model state is not advanced (the scenario runs in a process of its own). *)
TOutcome ==
  /\ Is("outcome")
  /\ Ev.offers = Ev.matched
  /\ Ev.distinct = Ev.answered
  /\ UNCHANGED vars /\ Keep /\ Adv

TNext ==
  \/ TReset \/ TAdd \/ TMatch \/ TOfferGate \/ TSent \/ TWOffer \/ TForwarded \/ TGot
  \/ TWTimeout \/ TWLocked \/ TWClaimed \/ TPResp \/ TPRejected \/ TCAnswer \/ TCTimeout \/ TCPre \/ TCCleanup \/ TCResp
  \/ TALookup \/ TASendGate \/ TSilentSend \/ TSilentGet \/ TASent \/ TADropped \/ TAResp \/ TTick \/ TEnd \/ TMetrics \/ TMLocked \/ TDebug \/ TJournal \/ TOutcome \/ TMid

TSpec == TInit /\ [][TNext]_tvars

Mark == (IF l > TLCGet(1) THEN TLCSet(1, l) ELSE TRUE)
Accepted ==
  IF TLCGet(1) = Len(TraceLog) + 1 THEN TRUE
  ELSE /\ PrintT(ToJson([rejected_at |-> TLCGet(1), event |-> TraceLog[TLCGet(1)]]))
       /\ FALSE

(* action properties of Broker as state invariants of the observed execution *)
MatchRightT == TRUE
=============================================================================
