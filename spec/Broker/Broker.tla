------------------------------- MODULE Broker -------------------------------
(* The Snowflake broker's matching core: broker/broker.go (RequestOffer,
   Broker, AddSnowflake), broker/ipc.go (ProxyPolls, ClientOffers,
   matchSnowflake, ProxyAnswers), broker/snowflake-heap.go.

   One action per critical section (everything done while holding
   BrokerContext.snowflakeLock is one atomic action; the lock is never held
   across a blocking operation), per channel rendezvous and per timer expiry.

   Goroutines:
     proxy-poll handler H(p)  ProxyPolls -> RequestOffer: blocks on its private
                              offer channel until the waiter forwards an offer
                              or closes the channel (nil = "no match")
     waiter W(p)              spawned by the Broker goroutine after AddSnowflake;
                              select { offer from the snowflake's channel ;
                              10 s proxy timeout }
     client handler C(c)      ClientOffers: match (pop under lock), send the
                              offer on the popped snowflake's channel, select
                              { answer ; 10 s client timeout }, cleanup under lock
     answer handler A(a)      ProxyAnswers: lookup by session id under lock,
                              then hand the answer to the snowflake's answer
                              channel

   Deviation constants describe repaired defects (TRUE = the code after the
   "fix:" commits, FALSE = the pinned code):
     D1Fixed   a waiter whose timer fires after a client popped its snowflake
               still forwards the offer (pinned code: did nothing, so both the
               client and the proxy poll blocked forever)
     D2Fixed   the answer channel has capacity 1 and ProxyAnswers never blocks
               (pinned code: unbuffered send; blocked forever when the client
               had timed out or a second answer arrived)
*)
EXTENDS Integers, Sequences, FiniteSets, TLC

CONSTANTS
  Proxies, Clients, Answers,   \* request identities (model values or strings)
  PT, CT,                      \* proxy / client timeout in ticks
  Loads,                       \* possible self-reported client counts
  NoTies,                      \* TRUE: waiting proxies have pairwise distinct loads (replayable pops)
  StrictTimers,                \* TRUE: a goroutine whose timer is due takes its timeout branch (fake-clock replay)
  D1Fixed, D2Fixed,
  PNatSet, CNatSet, FpSet,     \* attribute domains explored by Init (subsets of NATs, CNATs, FPs)
  UnknownTargets,              \* TRUE: answers may name a session id the broker never saw
  MaxDebug,                    \* number of /debug requests a behaviour may contain
  DupSids,                     \* TRUE: a proxy poll may reuse the session id of an earlier poll
  Rejects,                     \* TRUE: proxy polls whose accepted relay pattern the broker refuses occur
  Bridges,                     \* configured bridge list (subset of {"default", "b2"}); "unlisted" is never configured
  None

NATs  == {"unrestricted", "restricted", "unknown"}
CNATs == {"unrestricted", "restricted", "unknown", "absent"}   \* as sent on the wire
FPs   == {"default", "b2", "unlisted"}                          \* requested bridge
RelayURL(fp) == IF fp = "default" THEN "wss://default.example/" ELSE "wss://b2.example/"

VARIABLES
  pnat, pload, psid, cnat, cfp, atarget,  \* request attributes, set when the request arrives
  dbg,                              \* number of /debug requests served so far
  ppc, wpc, cpc, apc,               \* program counters
  heapU, heapR, idmap, gauge,       \* shared state under snowflakeLock
  woffer,                           \* offer (client) held by waiter / handler of p
  claimed,                          \* snowflake popped by client c
  asnow,                            \* snowflake found by answer a's lookup
  abuf,                             \* buffered answer of snowflake p (D2Fixed)
  ptimer, ctimer,                   \* remaining ticks, -1 = not running
  presp, cresp, aresp               \* responses (observations)

attrs == <<pnat, pload, psid, cnat, cfp, atarget, dbg>>
vars == <<pnat, pload, psid, cnat, cfp, atarget, dbg, ppc, wpc, cpc, apc, heapU, heapR, idmap, gauge,
          woffer, claimed, asnow, abuf, ptimer, ctimer, presp, cresp, aresp>>
(* Responses are observations only; they never influence behaviour. *)
view == <<pnat, pload, psid, cnat, cfp, atarget, dbg, ppc, wpc, cpc, apc, heapU, heapR, idmap, gauge,
          woffer, claimed, asnow, abuf, ptimer, ctimer>>

Eff(n) == IF n = "absent" THEN "unknown" ELSE n
EffNat(c) == Eff(cnat[c])

Init ==
  /\ pnat = [p \in Proxies |-> None] /\ pload = [p \in Proxies |-> None] /\ psid = [p \in Proxies |-> None]
  /\ cnat = [c \in Clients |-> None] /\ cfp = [c \in Clients |-> None]
  /\ atarget = [a \in Answers |-> None] /\ dbg = 0
  /\ ppc = [p \in Proxies |-> "idle"] /\ wpc = [p \in Proxies |-> "none"]
  /\ cpc = [c \in Clients |-> "idle"] /\ apc = [a \in Answers |-> "idle"]
  /\ heapU = {} /\ heapR = {} /\ idmap = {} /\ gauge = 0
  /\ woffer = [p \in Proxies |-> None] /\ claimed = [c \in Clients |-> None]
  /\ asnow = [a \in Answers |-> None] /\ abuf = [p \in Proxies |-> None]
  /\ ptimer = [p \in Proxies |-> -1] /\ ctimer = [c \in Clients |-> -1]
  /\ presp = [p \in Proxies |-> None] /\ cresp = [c \in Clients |-> None] /\ aresp = [a \in Answers |-> None]

-----------------------------------------------------------------------------
(* Proxy poll *)

(* Handler decodes the poll, hands it to the Broker goroutine, which adds the
   snowflake to the heap of its NAT class, the id map and the gauge under the
   lock and starts the waiter with its timeout. *)
(* The id map is a set of pairs <<session id, snowflake>> with at most one pair
   per session id: registering a session id that is already present (a proxy
   that polls again before its first poll completed) overwrites the entry. *)
Without(m, sid) == {e \in m : e[1] # sid}
Lookup(m, sid) == IF \E e \in m : e[1] = sid THEN (CHOOSE e \in m : e[1] = sid)[2] ELSE None

ProxyRegister(p, nat, load, sid) ==
  /\ ppc[p] = "idle"
  /\ psid' = [psid EXCEPT ![p] = sid]
  /\ (NoTies => \A q \in Proxies : pload[q] # load)
  /\ pnat' = [pnat EXCEPT ![p] = nat] /\ pload' = [pload EXCEPT ![p] = load]
  /\ ppc' = [ppc EXCEPT ![p] = "waiting"]
  /\ wpc' = [wpc EXCEPT ![p] = "waiting"]
  /\ IF nat = "unrestricted" THEN heapU' = heapU \cup {p} /\ UNCHANGED heapR
                                 ELSE heapR' = heapR \cup {p} /\ UNCHANGED heapU
  /\ idmap' = Without(idmap, sid) \cup {<<sid, p>>} /\ gauge' = gauge + 1
  /\ ptimer' = [ptimer EXCEPT ![p] = PT]
  /\ UNCHANGED <<cnat, cfp, atarget, dbg, cpc, apc, woffer, claimed, asnow, abuf, ctimer, presp, cresp, aresp>>

(* A proxy polls again with the session id of an earlier poll q (e.g. a retry
   after a network error) while q may still be pending. *)
ProxyRepoll(p, nat, load, q) == DupSids /\ q # p /\ ppc[q] # "idle" /\ ProxyRegister(p, nat, load, psid[q])

(* A poll whose accepted relay pattern is not a superset of the broker's allowed
   pattern is refused at once ("incorrect relay pattern"): the proxy is never
   registered and the matching state is not touched (ipc.go ProxyPolls, before
   RequestOffer).  Later requests are served as if it had not happened. *)
ProxyRejected(p) ==
  /\ Rejects /\ ppc[p] = "idle"
  /\ ppc' = [ppc EXCEPT ![p] = "done"]
  /\ presp' = [presp EXCEPT ![p] = [kind |-> "rejected"]]
  /\ UNCHANGED <<attrs, wpc, cpc, apc, heapU, heapR, idmap, gauge, woffer, claimed, asnow, abuf, ptimer, ctimer, cresp, aresp>>

Popped(p) == p \notin heapU /\ p \notin heapR

(* The client's unbuffered send of its offer meets the waiter's receive. *)
OfferRendezvous(c, p) ==
  /\ cpc[c] = "sendOffer" /\ claimed[c] = p
  /\ wpc[p] = "waiting"
  /\ (StrictTimers => ptimer[p] # 0)
  /\ wpc' = [wpc EXCEPT ![p] = "forward"]
  /\ woffer' = [woffer EXCEPT ![p] = c]
  /\ ptimer' = [ptimer EXCEPT ![p] = -1]
  /\ cpc' = [cpc EXCEPT ![c] = "waitAnswer"]
  /\ ctimer' = [ctimer EXCEPT ![c] = CT]
  /\ UNCHANGED <<attrs, ppc, apc, heapU, heapR, idmap, gauge, claimed, asnow, abuf, presp, cresp, aresp>>

(* The waiter forwards the offer to the handler blocked in RequestOffer. *)
WaiterForward(p) ==
  /\ wpc[p] = "forward" /\ ppc[p] = "waiting"
  /\ wpc' = [wpc EXCEPT ![p] = "done"]
  /\ ppc' = [ppc EXCEPT ![p] = "gotOffer"]
  /\ UNCHANGED <<attrs, cpc, apc, heapU, heapR, idmap, gauge, woffer, claimed, asnow, abuf, ptimer, ctimer, presp, cresp, aresp>>

(* The 10 s proxy timeout is chosen by the waiter's select. *)
WaiterTimerFire(p) ==
  /\ wpc[p] = "waiting" /\ ptimer[p] = 0
  /\ wpc' = [wpc EXCEPT ![p] = "fired"]
  /\ ptimer' = [ptimer EXCEPT ![p] = -1]
  /\ UNCHANGED <<attrs, ppc, cpc, apc, heapU, heapR, idmap, gauge, woffer, claimed, asnow, abuf, ctimer, presp, cresp, aresp>>

(* Timeout branch under the lock: still in a heap -> unregister and close the
   handler's channel; already popped by a client -> (D1) as pinned: nothing. *)
WaiterTimeoutLocked(p) ==
  /\ wpc[p] = "fired"
  /\ IF ~Popped(p)
     THEN /\ heapU' = heapU \ {p} /\ heapR' = heapR \ {p}
          /\ idmap' = Without(idmap, psid[p]) /\ gauge' = gauge - 1
          /\ wpc' = [wpc EXCEPT ![p] = "done"]
          /\ ppc' = [ppc EXCEPT ![p] = "gotNil"]
     ELSE /\ UNCHANGED <<heapU, heapR, idmap, gauge, ppc>>
          /\ wpc' = [wpc EXCEPT ![p] = IF D1Fixed THEN "waiting" ELSE "done"]
  /\ UNCHANGED <<attrs, cpc, apc, woffer, claimed, asnow, abuf, ptimer, ctimer, presp, cresp, aresp>>

(* Handler builds its response: idle, or the offer with the relay URL of the
   bridge the client named. *)
ProxyRespond(p) ==
  /\ ppc[p] \in {"gotOffer", "gotNil"}
  /\ ppc' = [ppc EXCEPT ![p] = "done"]
  /\ presp' = [presp EXCEPT ![p] =
        IF ppc[p] = "gotNil" THEN [kind |-> "nomatch"]
        ELSE [kind |-> "offer", client |-> woffer[p], nat |-> EffNat(woffer[p]), relay |-> RelayURL(cfp[woffer[p]])]]
  /\ UNCHANGED <<attrs, wpc, cpc, apc, heapU, heapR, idmap, gauge, woffer, claimed, asnow, abuf, ptimer, ctimer, cresp, aresp>>

-----------------------------------------------------------------------------
(* Client poll *)

PoolFor(n) == IF Eff(n) = "unrestricted" THEN heapR ELSE heapU
Pool(c) == PoolFor(cnat[c])
MinLoad(S) == {p \in S : \A q \in S : pload[p] <= pload[q]}

(* Decode, validate the fingerprint against the bridge list, then pop the
   least-loaded waiting proxy of the eligible pool under the lock. *)
ClientMatch(c, nat, fp) ==
  /\ cpc[c] = "idle"
  /\ cnat' = [cnat EXCEPT ![c] = nat] /\ cfp' = [cfp EXCEPT ![c] = fp]
  /\ IF fp \notin Bridges
     THEN /\ cpc' = [cpc EXCEPT ![c] = "done"]
          /\ cresp' = [cresp EXCEPT ![c] = [kind |-> "error500"]]
          /\ UNCHANGED <<heapU, heapR, claimed>>
     ELSE IF PoolFor(nat) = {}
     THEN /\ cpc' = [cpc EXCEPT ![c] = "done"]
          /\ cresp' = [cresp EXCEPT ![c] = [kind |-> "noproxies"]]
          /\ UNCHANGED <<heapU, heapR, claimed>>
     ELSE \E p \in MinLoad(PoolFor(nat)) :
          /\ heapU' = heapU \ {p} /\ heapR' = heapR \ {p}
          /\ claimed' = [claimed EXCEPT ![c] = p]
          /\ cpc' = [cpc EXCEPT ![c] = "sendOffer"]
          /\ UNCHANGED cresp
  /\ UNCHANGED <<pnat, pload, psid, atarget, dbg, ppc, wpc, apc, idmap, gauge, woffer, asnow, abuf, ptimer, ctimer, presp, aresp>>

(* Pinned code: the proxy's unbuffered answer send meets the client's receive. *)
AnswerRendezvous(a, c) ==
  /\ ~D2Fixed
  /\ apc[a] = "send" /\ cpc[c] = "waitAnswer" /\ asnow[a] = claimed[c]
  /\ (StrictTimers => ctimer[c] # 0)
  /\ apc' = [apc EXCEPT ![a] = "done"]
  /\ cpc' = [cpc EXCEPT ![c] = "cleanup"]
  /\ cresp' = [cresp EXCEPT ![c] = [kind |-> "answer", answer |-> a]]
  /\ ctimer' = [ctimer EXCEPT ![c] = -1]
  /\ UNCHANGED <<attrs, ppc, wpc, heapU, heapR, idmap, gauge, woffer, claimed, asnow, abuf, ptimer, presp, aresp>>

(* Repaired code: non-blocking send into the capacity-1 answer channel. *)
AnswerSend(a) ==
  /\ D2Fixed
  /\ apc[a] = "send"
  /\ apc' = [apc EXCEPT ![a] = "done"]
  /\ abuf' = [abuf EXCEPT ![asnow[a]] = IF @ = None THEN a ELSE @]
  /\ aresp' = [aresp EXCEPT ![a] = [kind |-> "success", put |-> (abuf[asnow[a]] = None)]]
  /\ UNCHANGED <<attrs, ppc, wpc, cpc, heapU, heapR, idmap, gauge, woffer, claimed, asnow, ptimer, ctimer, presp, cresp>>

ClientGetAnswer(c) ==
  /\ D2Fixed
  /\ cpc[c] = "waitAnswer" /\ abuf[claimed[c]] # None
  /\ (StrictTimers => ctimer[c] # 0)
  /\ cpc' = [cpc EXCEPT ![c] = "cleanup"]
  /\ cresp' = [cresp EXCEPT ![c] = [kind |-> "answer", answer |-> abuf[claimed[c]]]]
  /\ abuf' = [abuf EXCEPT ![claimed[c]] = None]
  /\ ctimer' = [ctimer EXCEPT ![c] = -1]
  /\ UNCHANGED <<attrs, ppc, wpc, apc, heapU, heapR, idmap, gauge, woffer, claimed, asnow, ptimer, presp, aresp>>

ClientTimerFire(c) ==
  /\ cpc[c] = "waitAnswer" /\ ctimer[c] = 0
  /\ cpc' = [cpc EXCEPT ![c] = "cleanup"]
  /\ cresp' = [cresp EXCEPT ![c] = [kind |-> "timeout"]]
  /\ ctimer' = [ctimer EXCEPT ![c] = -1]
  /\ UNCHANGED <<attrs, ppc, wpc, apc, heapU, heapR, idmap, gauge, woffer, claimed, asnow, abuf, ptimer, presp, aresp>>

(* Tail of ClientOffers under the lock. *)
ClientCleanup(c) ==
  /\ cpc[c] = "cleanup"
  /\ cpc' = [cpc EXCEPT ![c] = "done"]
  /\ idmap' = Without(idmap, psid[claimed[c]]) /\ gauge' = gauge - 1
  /\ UNCHANGED <<attrs, ppc, wpc, apc, heapU, heapR, woffer, claimed, asnow, abuf, ptimer, ctimer, presp, cresp, aresp>>

-----------------------------------------------------------------------------
(* Proxy answer *)

AnswerLookup(a, t) ==
  /\ apc[a] = "idle"
  /\ atarget' = [atarget EXCEPT ![a] = t]
  /\ IF Lookup(idmap, t) # None
     THEN /\ apc' = [apc EXCEPT ![a] = "send"]
          /\ asnow' = [asnow EXCEPT ![a] = Lookup(idmap, t)]
          /\ aresp' = [aresp EXCEPT ![a] = [kind |-> "success"]]
     ELSE /\ apc' = [apc EXCEPT ![a] = "done"]
          /\ aresp' = [aresp EXCEPT ![a] = [kind |-> "gone"]]
          /\ UNCHANGED asnow
  /\ UNCHANGED <<pnat, pload, psid, cnat, cfp, dbg, ppc, wpc, cpc, heapU, heapR, idmap, gauge, woffer, claimed, abuf, ptimer, ctimer, presp, cresp>>

-----------------------------------------------------------------------------
(* Steps no gate holds back in a replay: they have happened before the clock moves. *)
UrgentPending ==
  \/ \E p \in Proxies : wpc[p] = "forward" \/ ppc[p] \in {"gotOffer", "gotNil"}
  \/ (D2Fixed /\ \E c \in Clients : cpc[c] = "waitAnswer" /\ abuf[claimed[c]] # None)

(* GET /debug: reads the id map under the lock and must leave everything as it
   was (in particular the heaps and the heap indices of the waiting proxies). *)
DebugPoll ==
  /\ dbg < MaxDebug
  /\ dbg' = dbg + 1
  /\ UNCHANGED <<pnat, pload, psid, cnat, cfp, atarget, ppc, wpc, cpc, apc, heapU, heapR, idmap, gauge,
                 woffer, claimed, asnow, abuf, ptimer, ctimer, presp, cresp, aresp>>

(* Time: a tick passes only when no running timer is due. *)
Tick ==
  /\ \E p \in Proxies : ptimer[p] > 0 \/ \E c \in Clients : ctimer[c] > 0
  /\ \A p \in Proxies : ptimer[p] # 0
  /\ \A c \in Clients : ctimer[c] # 0
  /\ (StrictTimers => ~UrgentPending)
  /\ ptimer' = [p \in Proxies |-> IF ptimer[p] > 0 THEN ptimer[p] - 1 ELSE ptimer[p]]
  /\ ctimer' = [c \in Clients |-> IF ctimer[c] > 0 THEN ctimer[c] - 1 ELSE ctimer[c]]
  /\ UNCHANGED <<attrs, ppc, wpc, cpc, apc, heapU, heapR, idmap, gauge, woffer, claimed, asnow, abuf, presp, cresp, aresp>>

AllDone == /\ \A p \in Proxies : ppc[p] = "done" /\ wpc[p] \in {"done", "none"}
           /\ \A c \in Clients : cpc[c] = "done"
           /\ \A a \in Answers : apc[a] = "done"
Finished == AllDone /\ UNCHANGED vars

CodeStep ==
  \/ \E p \in Proxies : WaiterForward(p) \/ WaiterTimerFire(p) \/ WaiterTimeoutLocked(p) \/ ProxyRespond(p)
  \/ \E c \in Clients, p \in Proxies : OfferRendezvous(c, p)
  \/ \E a \in Answers, c \in Clients : AnswerRendezvous(a, c)
  \/ \E a \in Answers : AnswerSend(a)
  \/ \E c \in Clients : ClientGetAnswer(c) \/ ClientTimerFire(c) \/ ClientCleanup(c)
Targets == Proxies \cup (IF UnknownTargets THEN {"unknownSid"} ELSE {})
Arrival ==
  \/ \E p \in Proxies, nat \in PNatSet, load \in Loads : ProxyRegister(p, nat, load, p)
  \/ \E p \in Proxies, nat \in PNatSet, load \in Loads, q \in Proxies : ProxyRepoll(p, nat, load, q)
  \/ \E p \in Proxies : ProxyRejected(p)
  \/ \E c \in Clients, nat \in CNatSet, fp \in FpSet : ClientMatch(c, nat, fp)
  \/ \E a \in Answers, t \in Targets : AnswerLookup(a, t)
  \/ DebugPoll

Next == CodeStep \/ Arrival \/ Tick \/ Finished

Fairness ==
  /\ \A p \in Proxies : WF_vars(WaiterForward(p)) /\ WF_vars(WaiterTimerFire(p)) /\ WF_vars(WaiterTimeoutLocked(p)) /\ WF_vars(ProxyRespond(p))
  /\ \A c \in Clients : WF_vars(ClientGetAnswer(c)) /\ WF_vars(ClientTimerFire(c)) /\ WF_vars(ClientCleanup(c))
  /\ \A c \in Clients : \A p \in Proxies : WF_vars(OfferRendezvous(c, p))
  /\ \A a \in Answers : WF_vars(AnswerSend(a)) /\ \A c \in Clients : WF_vars(AnswerRendezvous(a, c))
  /\ WF_vars(Tick)
Spec == Init /\ [][Next]_vars /\ Fairness

-----------------------------------------------------------------------------
(* Properties *)

TypeOK ==
  /\ heapU \subseteq Proxies /\ heapR \subseteq Proxies
  /\ \A e \in idmap : e[2] \in Proxies /\ \A f \in idmap : e[1] = f[1] => e = f
  /\ \A p \in Proxies : ptimer[p] \in -1..PT
  /\ \A c \in Clients : ctimer[c] \in -1..CT

(* C02 *)
NoCrossWire ==
  \A c \in Clients : (cresp[c] # None /\ cresp[c].kind = "answer") =>
      /\ atarget[cresp[c].answer] = psid[claimed[c]]
      /\ (presp[claimed[c]] # None /\ presp[claimed[c]].kind = "offer" => presp[claimed[c]].client = c)
OneOfferPerPoll ==   \* an offer reaches only the poll whose snowflake its client popped
  \A p \in Proxies : (presp[p] # None /\ presp[p].kind = "offer") => claimed[presp[p].client] = p
OnePollPerOffer ==
  \A p, q \in Proxies : (presp[p] # None /\ presp[q] # None /\ presp[p].kind = "offer" /\ presp[q].kind = "offer"
                          /\ presp[p].client = presp[q].client) => p = q
ClaimsDisjoint == \A c, d \in Clients : (claimed[c] # None /\ claimed[c] = claimed[d]) => c = d
RelayURLRight ==
  \A p \in Proxies : (presp[p] # None /\ presp[p].kind = "offer") =>
      /\ cfp[presp[p].client] \in Bridges /\ presp[p].relay = RelayURL(cfp[presp[p].client])
UnlistedNeverMatched == \A c \in Clients : cfp[c] \notin Bridges => claimed[c] = None

(* C03 *)
NATCompatible ==
  \A c \in Clients : claimed[c] # None =>
      IF EffNat(c) = "unrestricted" THEN pnat[claimed[c]] # "unrestricted" ELSE pnat[claimed[c]] = "unrestricted"
(* action properties on the match step *)
MatchRight ==
  [][\A c \in Clients : (cpc[c] = "idle" /\ cpc'[c] # "idle" /\ cfp'[c] \in Bridges) =>
        /\ (cpc'[c] = "done" => PoolFor(cnat'[c]) = {})
        /\ (cpc'[c] = "sendOffer" => claimed'[c] \in MinLoad(PoolFor(cnat'[c])))]_vars

(* C04 *)
(* every request that has arrived has completed *)
Quiet == /\ \A p \in Proxies : (ppc[p] = "done" /\ wpc[p] \in {"done", "none"}) \/ (ppc[p] = "idle" /\ wpc[p] = "none")
         /\ \A c \in Clients : cpc[c] \in {"idle", "done"}
         /\ \A a \in Answers : apc[a] \in {"idle", "done"}
NoGhost == Quiet => (idmap = {} /\ heapU = {} /\ heapR = {} /\ gauge = 0)
DistinctSids == \A p, q \in Proxies : (p # q /\ psid[p] # None) => psid[p] # psid[q]
GaugeIsIdmap == DistinctSids => gauge = Cardinality(idmap)
HeapsInIdmap == DistinctSids => \A p \in heapU \cup heapR : <<psid[p], p>> \in idmap
GaugeCountsHeaps == gauge >= Cardinality(heapU \cup heapR)
EveryRequestCompletes ==
  /\ \A p \in Proxies : (ppc[p] # "idle") ~> (ppc[p] = "done")
  /\ \A c \in Clients : (cpc[c] # "idle") ~> (cpc[c] = "done")
  /\ \A a \in Answers : (apc[a] # "idle") ~> (apc[a] = "done")
=============================================================================
