CONSTANTS
  Limit = 3
  Timeout = 3
  TimeoutMS = 3000
  Methods = {"POST", "HEAD"}
  AsIs_NilErr = TRUE
  AsIs_DoubleClose = FALSE
  AsIs_CloseAtOpen = FALSE
SPECIFICATION Spec
INVARIANTS TypeOK NoPanic NoCrash BoundedRead ResponseIsContract ErrorPathClosesPC OwnedPC ClosedByDeadline LifeIsContract ClosedOnce NoProbeLost SignalMeansDone
CHECK_DEADLOCK FALSE
