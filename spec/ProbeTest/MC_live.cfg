CONSTANTS
  Limit = 3
  Timeout = 3
  TimeoutMS = 3000
  Methods = {"POST", "HEAD"}
  AsIs_NilErr = FALSE
  AsIs_DoubleClose = FALSE
  AsIs_CloseAtOpen = FALSE
SPECIFICATION LSpec
INVARIANTS TypeOK
PROPERTIES HandlerReturns PCEventuallyClosed GoroutineEnds
CHECK_DEADLOCK FALSE
