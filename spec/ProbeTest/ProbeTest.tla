------------------------------ MODULE ProbeTest ------------------------------
(* The NAT probe server: probetest/probetest.go, probeHandler and
   makePeerConnectionFromOffer.  A proxy POSTs a poll-response-like body that
   carries an SDP offer; the server makes a PeerConnection, answers, and waits
   for the proxy's data channel; when the proxy has seen it open and closed it
   again - or after dataChannelTimeout - it closes the PeerConnection.  (The
   PROXY creates the data channel; the server accepts it.  The proxy decides
   from its own side whether it opened: spec/ProxyNAT.)

   The handler, one action per step that can fail:

     h_read     ioutil.ReadAll(http.MaxBytesReader(body, readLimit))        too long -> 400
     h_decode   messages.DecodePollResponse                                 error    -> 400
     h_empty    offer == ""  (a "no match" body: no offer, NO error)        -> 400   [AsIs_NilErr: err.Error() on a nil error: panic]
     h_deser    util.DeserializeSessionDescription                          error    -> 400
     h_newpc    webrtc.NewPeerConnection; OnDataChannel{OnClose{once{close(dataChan)}}}   [pinned: OnOpen{close(dataChan)}]
     h_setrem   pc.SetRemoteDescription                                     error    -> pc.Close, 500
     h_answer   pc.CreateAnswer                                             error    -> pc.Close, 500
     h_setloc   pc.SetLocalDescription                                      error    -> pc.Close, 500
     h_gather   <-GatheringCompletePromise                                  [blocks until pion has finished gathering]
     h_encode   SerializeSessionDescription, EncodeAnswerRequest            (cannot fail on a description pion produced)
     h_write    w.Write(body); go { select { <-dataChan | <-timer(dataChannelTimeout) }; pc.Close() }

   and, outside the handler: the timeout goroutine, the pion callbacks of the remote peer's data
   channels (the one that signals dataChan), pion's acknowledgement of an accepted channel on its
   way to the peer, the remote peer, and the clock.

   The proxy decides ON ITS OWN SIDE whether the probe succeeded: its OnOpen runs when the
   server's acknowledgement (DATA_CHANNEL_ACK) has reached it.  pc.Close() throws away what pion
   has not written yet.

   The method is never looked at, nor the path's query, nor any header: GET, PUT, OPTIONS and
   HEAD are handled like POST (for HEAD net/http drops the body; the PeerConnection is made all
   the same).

   DEVIATION CONSTANTS (TRUE = the pinned code)
     AsIs_NilErr       the `offer == ""` branch logs err.Error() with err == nil: the handler
                       panics (net/http recovers it, logs a stack and cuts the connection: the proxy
                       gets no response at all).  Reached by {"Status":"no match"}.
     AsIs_DoubleClose  OnOpen closes dataChan without a guard: when the remote peer opens a SECOND
                       data channel the callback closes a closed channel.  That panic is in a pion
                       goroutine, nobody recovers it: the whole probe server process dies.  Any
                       client can do that with one request.

     AsIs_CloseAtOpen  dataChan is signalled in the server's OnOpen, so the goroutine closes the
                       PeerConnection the moment the SERVER's side of the channel is open - while the
                       acknowledgement may still be unwritten.  The proxy then never sees its channel
                       open, waits its 20 s and records "restricted" although it is reachable
                       (measured with the real proxy against the real server binary on one host:
                       31 of 240 probes).  Repaired: dataChan is signalled in OnClose - the server
                       waits until the proxy has closed (it does, right after measuring) or the
                       timeout expires.

   PROPERTIES
     ResponseIsContract  every request that ends gets exactly the response Expect gives its class
     NoPanic, NoCrash    no panic in the handler; the process never dies
     BoundedRead         the handler never takes more than readLimit + 1 bytes from the body
     ErrorPathClosesPC   a request answered with an error leaves no PeerConnection
     OwnedPC             an open PeerConnection always has somebody who will close it (the handler
                         before it answers, the timeout goroutine afterwards)
     ClosedByDeadline    it is closed when dataChannelTimeout has expired
     NoProbeLost         the acknowledgement of an accepted data channel is never thrown away by the
                         server's own close - unless the timeout has expired (then the proxy's has too)
     HandlerReturns, PCEventuallyClosed, GoroutineEnds   (liveness)

   DON'T-CARE: the text logged; the SDP of the answer beyond "an answer that
   DeserializeSessionDescription accepts, sid stub-sid, no local/loopback host candidates";
   response headers other than Access-Control-Allow-Origin. *)
EXTENDS Integers, Sequences, FiniteSets, TLC, Json

CONSTANTS
  Limit,        \* readLimit (bytes).  MC: small number; Gen: 100000
  Timeout,      \* dataChannelTimeout in ticks
  Methods,      \* HTTP methods to enumerate
  TimeoutMS,    \* dataChannelTimeout in milliseconds (only printed with the cases: the driver's clock)
  AsIs_NilErr, AsIs_DoubleClose, AsIs_CloseAtOpen

-----------------------------------------------------------------------------
(* ---- request classes ---- *)
Sizes   == {"plain", "atlimit", "overlimit", "endless"}     \* the body is the document (<= Limit), padded with JSON white space to Limit / Limit + 1, or never ends
Tops    == {"empty", "garbage", "null", "array", "string", "object"}
Statuses == {"absent", "empty", "nomatch", "match", "other", "number"}
(* the Offer member: absent, "", or a string holding ... *)
OffersBad   == {"notjson", "nonobject", "notype", "nosdp", "typenum", "sdpnum", "unknowntype"}   \* Deserialize refuses
OffersNoSet == {"answer", "pranswer", "rollback", "sdpempty", "sdpgarbage"}                      \* Deserialize accepts, pion refuses
OffersGood  == {"noapp", "app", "app2"}             \* a real offer: without a data section / with one data channel / with two
Offers == {"absent", "empty"} \cup OffersBad \cup OffersNoSet \cup OffersGood
Relays == {"absent", "set"}
Peers  == {"none", "connect"}                       \* what the harness peer does with the answer
Modes  == {"wire", "direct"}                        \* through net/http, or the handler called on a recorder

NoObj(t) == [top |-> t, status |-> "-", offer |-> "-", relay |-> "-"]
Bodies ==
  {NoObj(t) : t \in Tops \ {"object"}}
  \cup {[top |-> "object", status |-> s, offer |-> o, relay |-> r] :
          s \in Statuses \ {"match"}, o \in {"absent", "empty", "app"}, r \in Relays}
  \cup {[top |-> "object", status |-> "match", offer |-> o, relay |-> "set"] : o \in {"absent", "empty", "app"}}
  \cup {[top |-> "object", status |-> "match", offer |-> o, relay |-> "absent"] : o \in Offers}

Requests ==
  {[mode |-> m, method |-> h, size |-> z, top |-> b.top, status |-> b.status, offer |-> b.offer, relay |-> b.relay, peer |-> p] :
     m \in Modes, h \in Methods, z \in Sizes, b \in Bodies, p \in Peers}
ValidRequest(q) ==
  /\ (q.size = "endless" => (q.mode = "direct" /\ q.top = "object"))     \* an endless body cannot be sent by a real client; it starts with a document
  /\ (q.mode = "direct" => q.size \in {"plain", "endless"})
  /\ (q.peer = "connect" => q.top = "object" /\ q.status = "match" /\ q.relay = "absent" /\ q.offer \in OffersGood /\ q.size \in {"plain", "atlimit"})
  /\ (q.top = "empty" => q.size = "plain")                              \* nothing to pad

-----------------------------------------------------------------------------
(* ---- the contract ---- *)
ReadOK(q) == q.size \in {"plain", "atlimit"}
(* messages.DecodePollResponse on the body classes: "err", "nooffer" (no error and no offer), "offer" *)
Decode(q) ==
  CASE q.top # "object" -> "err"                              \* not JSON, not an object, or null (Status = "")
    [] q.status \in {"absent", "empty", "number", "other"} -> "err"
    [] q.relay = "set" -> "err"                               \* ErrExtraInfo, also for "no match"
    [] q.status = "nomatch" -> "nooffer"                      \* the Offer member is dropped, err = nil
    [] q.offer \in {"absent", "empty"} -> "err"               \* "client match" without an offer
    [] OTHER -> "offer"
Code(q) ==
  CASE ~ReadOK(q) -> 400
    [] Decode(q) = "err" -> 400
    [] Decode(q) = "nooffer" -> 400
    [] q.offer \in OffersBad -> 400
    [] q.offer \in OffersNoSet -> 500
    [] OTHER -> 200
(* how long the handler's PeerConnection lives: none; until the peer, which has seen its data channel open, has
   closed ("until-done"; the pinned code: until the server's side is open); until the timeout *)
PCLife(q) ==
  IF Code(q) # 200 THEN "none"
  ELSE IF q.peer = "connect" /\ q.offer \in {"app", "app2"} THEN "until-done" ELSE "until-timeout"
NChannels(q) == CASE q.offer = "app" -> 1 [] q.offer = "app2" -> 2 [] OTHER -> 0
Min(a, b) == IF a < b THEN a ELSE b

HeadOnWire(q) == q.method = "HEAD" /\ q.mode = "wire"        \* net/http drops the body of a HEAD response (a recorder does not)
Expect(q) ==
  [code |-> Code(q),
   body |-> (IF Code(q) = 200 /\ ~HeadOnWire(q) THEN "answer" ELSE "empty"),
   acao |-> "*",
   panic |-> FALSE, crash |-> FALSE,
   limit |-> Limit, maxread |-> Limit + 1,
   pc |-> PCLife(q), timeout_ms |-> TimeoutMS,
   peer_open |-> (PCLife(q) = "until-done")]       \* NoProbeLost: a peer that connects sees its data channel open

-----------------------------------------------------------------------------
(* ---- the machine (one request; requests share nothing) ---- *)
VARIABLES
  rq,        \* the request class
  hpc,       \* handler: h_read h_decode h_empty h_deser h_newpc h_setrem h_answer h_setloc h_gather h_encode h_write done panicked
  nread,     \* bytes taken from the body
  resp,      \* [code, body] or NoResp
  pcs,       \* the handler's PeerConnection: none | open | closed
  ncloses,   \* pc.Close() calls
  dchan,     \* dataChan: none | open | closed
  gpc,       \* timeout goroutine: none | wait | closing | done
  timer,     \* its timer: remaining ticks, -1 = none
  opens,     \* data channels of the remote peer the server has accepted (its OnOpen has run)
  crashed,   \* a panic nobody recovers
  age,       \* ticks since the response (ghost)
  ack,       \* the acknowledgement of the first accepted channel: none | flight | delivered (the peer's OnOpen runs) | dropped
  pclosed,   \* the peer has closed its connection (the proxy does, once it has measured)
  ccbs,      \* OnClose callbacks that have run on the server
  why        \* what woke the goroutine: "-" | "signal" | "timer"

vars == <<rq, hpc, nread, resp, pcs, ncloses, dchan, gpc, timer, opens, crashed, age, ack, pclosed, ccbs, why>>
NoResp == [code |-> 0, body |-> "-"]

(* body sizes, in bytes, of the size classes (the document itself is one byte in the model) *)
SizeOf(z) == CASE z = "plain" -> 1 [] z = "atlimit" -> Limit [] z = "overlimit" -> Limit + 1 [] z = "endless" -> Limit + 1000

Init ==
  /\ rq \in {q \in Requests : ValidRequest(q)}
  /\ hpc = "h_read" /\ nread = 0 /\ resp = NoResp /\ pcs = "none" /\ ncloses = 0 /\ dchan = "none"
  /\ gpc = "none" /\ timer = -1 /\ opens = 0 /\ crashed = FALSE /\ age = 0
  /\ ack = "none" /\ pclosed = FALSE /\ ccbs = 0 /\ why = "-"

Respond(c) ==
  /\ resp' = [code |-> c, body |-> (IF c = 200 /\ ~HeadOnWire(rq) THEN "answer" ELSE "empty")]
  /\ hpc' = "done"

HVars == <<rq, gpc, timer, opens, crashed, age, ack, pclosed, ccbs, why>>

(* MaxBytesReader: at most Limit + 1 bytes are ever read; more than Limit is an error *)
HRead ==
  /\ hpc = "h_read" /\ ~crashed
  /\ nread' = Min(SizeOf(rq.size), Limit + 1)
  /\ IF SizeOf(rq.size) > Limit THEN Respond(400) ELSE hpc' = "h_decode" /\ UNCHANGED resp
  /\ UNCHANGED <<HVars, pcs, ncloses, dchan>>

HDecode ==
  /\ hpc = "h_decode" /\ ~crashed
  /\ IF Decode(rq) = "err" THEN Respond(400) ELSE hpc' = "h_empty" /\ UNCHANGED resp
  /\ UNCHANGED <<HVars, nread, pcs, ncloses, dchan>>

HEmpty ==
  /\ hpc = "h_empty" /\ ~crashed
  /\ IF Decode(rq) = "nooffer"
     THEN IF AsIs_NilErr THEN hpc' = "panicked" /\ UNCHANGED resp      \* err.Error() on a nil error
          ELSE Respond(400)
     ELSE hpc' = "h_deser" /\ UNCHANGED resp
  /\ UNCHANGED <<HVars, nread, pcs, ncloses, dchan>>

HDeser ==
  /\ hpc = "h_deser" /\ ~crashed
  /\ IF rq.offer \in OffersBad THEN Respond(400) ELSE hpc' = "h_newpc" /\ UNCHANGED resp
  /\ UNCHANGED <<HVars, nread, pcs, ncloses, dchan>>

HNewPC ==
  /\ hpc = "h_newpc" /\ ~crashed
  /\ pcs' = "open" /\ dchan' = "open" /\ hpc' = "h_setrem"
  /\ UNCHANGED <<HVars, nread, resp, ncloses>>

HSetRem ==
  /\ hpc = "h_setrem" /\ ~crashed
  /\ IF rq.offer \in OffersNoSet
     THEN pcs' = "closed" /\ ncloses' = ncloses + 1 /\ Respond(500)
     ELSE hpc' = "h_answer" /\ UNCHANGED <<resp, pcs, ncloses>>
  /\ UNCHANGED <<HVars, nread, dchan>>

(* CreateAnswer / SetLocalDescription / gathering / encoding do not fail on an offer pion accepted *)
HStep(from, to) ==
  /\ hpc = from /\ ~crashed /\ hpc' = to
  /\ UNCHANGED <<HVars, nread, resp, pcs, ncloses, dchan>>
HAnswer == HStep("h_answer", "h_setloc")
HSetLoc == HStep("h_setloc", "h_gather")
HGather == HStep("h_gather", "h_encode")
HEncode == HStep("h_encode", "h_write")

HWrite ==
  /\ hpc = "h_write" /\ ~crashed
  /\ Respond(200) /\ gpc' = "wait" /\ timer' = Timeout
  /\ UNCHANGED <<rq, nread, pcs, ncloses, dchan, opens, crashed, age, ack, pclosed, ccbs, why>>

HandlerStep == HRead \/ HDecode \/ HEmpty \/ HDeser \/ HNewPC \/ HSetRem \/ HAnswer \/ HSetLoc \/ HGather \/ HEncode \/ HWrite

(* ---- the timeout goroutine ---- *)
GVars == <<rq, hpc, nread, resp, opens, crashed, age, pclosed, ccbs>>
GWake ==
  /\ gpc = "wait" /\ ~crashed /\ (dchan = "closed" \/ timer = 0)
  /\ gpc' = "closing" /\ timer' = -1
  /\ why' = (IF timer = 0 THEN "timer" ELSE "signal")
  /\ UNCHANGED <<GVars, pcs, ncloses, dchan, ack>>
GClose ==
  /\ gpc = "closing" /\ ~crashed
  /\ pcs' = "closed" /\ ncloses' = ncloses + 1 /\ gpc' = "done"
  /\ ack' = (IF ack = "flight" THEN "dropped" ELSE ack)           \* pc.Close() discards what pion has not written yet
  /\ UNCHANGED <<GVars, dchan, timer, why>>
GoroutineStep == GWake \/ GClose

(* close(dataChan) in a pion callback: guarded by a sync.Once, or not *)
Signal ==
  IF dchan = "open" THEN dchan' = "closed" /\ UNCHANGED crashed
  ELSE IF AsIs_DoubleClose THEN crashed' = TRUE /\ UNCHANGED dchan          \* close of closed channel, in a pion goroutine
  ELSE UNCHANGED <<dchan, crashed>>

(* ---- the remote peer and pion ---- *)
(* the server accepts one of the peer's data channels (needs the answer): pion queues the acknowledgement, OnOpen runs *)
DCOpen ==
  /\ rq.peer = "connect" /\ resp.code = 200 /\ pcs = "open" /\ ~crashed /\ opens < NChannels(rq) /\ ~pclosed
  /\ opens' = opens + 1
  /\ ack' = (IF ack = "none" THEN "flight" ELSE ack)
  /\ (IF AsIs_CloseAtOpen THEN Signal ELSE UNCHANGED <<dchan, crashed>>)
  /\ UNCHANGED <<rq, hpc, nread, resp, pcs, ncloses, gpc, timer, age, pclosed, ccbs, why>>

(* pion's write loop sends the acknowledgement; the peer's OnOpen runs *)
AckDeliver ==
  /\ ack = "flight" /\ pcs = "open" /\ ~crashed
  /\ ack' = "delivered"
  /\ UNCHANGED <<rq, hpc, nread, resp, pcs, ncloses, dchan, gpc, timer, opens, crashed, age, pclosed, ccbs, why>>

(* the peer has measured and closes its connection (environment) *)
PeerClose ==
  /\ rq.peer = "connect" /\ ack = "delivered" /\ ~pclosed /\ ~crashed
  /\ pclosed' = TRUE
  /\ UNCHANGED <<rq, hpc, nread, resp, pcs, ncloses, dchan, gpc, timer, opens, crashed, age, ack, ccbs, why>>

(* ... the server's OnClose callback of each accepted channel runs - IF the peer's close reaches the server: the
   teardown of a PeerConnection is best effort (a DTLS close_notify that may not get out before the ICE transport is
   stopped), so this step has no fairness; a close that is not noticed leaves the PeerConnection to the timeout *)
DCClosed ==
  /\ pclosed /\ pcs = "open" /\ ~crashed /\ ccbs < opens
  /\ ccbs' = ccbs + 1
  /\ (IF AsIs_CloseAtOpen THEN UNCHANGED <<dchan, crashed>> ELSE Signal)
  /\ UNCHANGED <<rq, hpc, nread, resp, pcs, ncloses, gpc, timer, opens, age, ack, pclosed, why>>

PionStep == AckDeliver

(* ---- the clock ---- *)
Tick ==
  /\ gpc = "wait" /\ timer > 0 /\ dchan # "closed" /\ ~crashed
  /\ timer' = timer - 1 /\ age' = age + 1
  /\ UNCHANGED <<rq, hpc, nread, resp, pcs, ncloses, dchan, gpc, opens, crashed, ack, pclosed, ccbs, why>>

Next == HandlerStep \/ GoroutineStep \/ DCOpen \/ PionStep \/ DCClosed \/ PeerClose \/ Tick
Spec == Init /\ [][Next]_vars
(* fairness: the handler's and the goroutine's own steps (pion's gathering ends: it has its own
   timeouts), pion's write loop and the clock; not the remote peer, nor the arrival of its close *)
LSpec == Spec /\ WF_vars(HandlerStep) /\ WF_vars(GoroutineStep) /\ WF_vars(PionStep) /\ WF_vars(Tick)

-----------------------------------------------------------------------------
TypeOK ==
  /\ hpc \in {"h_read", "h_decode", "h_empty", "h_deser", "h_newpc", "h_setrem", "h_answer", "h_setloc", "h_gather", "h_encode", "h_write", "done", "panicked"}
  /\ pcs \in {"none", "open", "closed"} /\ dchan \in {"none", "open", "closed"} /\ gpc \in {"none", "wait", "closing", "done"}
  /\ timer \in -1..Timeout /\ opens \in 0..2 /\ ncloses \in 0..1 /\ age \in 0..Timeout
  /\ ack \in {"none", "flight", "delivered", "dropped"} /\ ccbs \in 0..2 /\ why \in {"-", "signal", "timer"}

NoPanic == hpc # "panicked"
NoCrash == ~crashed
BoundedRead == nread <= Limit + 1
ResponseIsContract == hpc = "done" => (resp.code = Expect(rq).code /\ resp.body = Expect(rq).body)
ErrorPathClosesPC == hpc = "done" /\ resp.code # 200 => pcs \in {"none", "closed"}
OwnedPC == pcs = "open" => (hpc \notin {"done", "panicked"} \/ gpc \in {"wait", "closing"})
ClosedByDeadline == (pcs = "open" /\ hpc = "done") => (timer > 0 \/ gpc = "closing" \/ (gpc = "wait" /\ timer = 0))
LifeIsContract == (gpc = "done" /\ ~crashed) =>
                    CASE PCLife(rq) = "until-timeout" -> age = Timeout
                      [] PCLife(rq) = "until-done" -> (IF AsIs_CloseAtOpen THEN opens >= 1 ELSE pclosed) \/ age = Timeout   \* the peer may also never get there
                      [] OTHER -> FALSE
ClosedOnce == ncloses <= 1
(* the server's own close never throws the acknowledgement away - unless the timeout has expired *)
NoProbeLost == ack = "dropped" => why = "timer"
(* the goroutine is woken by the signal only when the peer is done *)
SignalMeansDone == (why = "signal" /\ ~AsIs_CloseAtOpen) => pclosed

HandlerReturns == <>(hpc \in {"done"} \/ crashed)
PCEventuallyClosed == <>[](pcs \in {"none", "closed"} \/ crashed)
GoroutineEnds == <>[](gpc \in {"none", "done"} \/ crashed)

-----------------------------------------------------------------------------
(* GenSpec: the request classes for the conformance driver with what the contract demands *)
GInit ==
  /\ rq \in {q \in Requests : ValidRequest(q)}
  /\ hpc = "done" /\ nread = 0 /\ resp = NoResp /\ pcs = "none" /\ ncloses = 0 /\ dchan = "none"
  /\ gpc = "none" /\ timer = -1 /\ opens = 0 /\ crashed = FALSE /\ age = 0
  /\ ack = "none" /\ pclosed = FALSE /\ ccbs = 0 /\ why = "-"
GSpec == GInit /\ [][UNCHANGED vars]_vars

Nontrivial(q) == Code(q) # 200 \/ q.size # "plain" \/ q.method # "POST" \/ q.offer = "app2" \/ q.peer = "none"
Emit == PrintT(ToJson([mode |-> rq.mode, method |-> rq.method, size |-> rq.size, top |-> rq.top, status |-> rq.status,
                       offer |-> rq.offer, relay |-> rq.relay, peer |-> rq.peer,
                       decode |-> (IF ReadOK(rq) THEN Decode(rq) ELSE "-"),
                       nt |-> Nontrivial(rq), expect |-> Expect(rq)]))
=============================================================================
