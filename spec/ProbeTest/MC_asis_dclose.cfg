CONSTANTS
  Limit = 3
  Timeout = 3
  TimeoutMS = 3000
  Methods = {"POST", "HEAD"}
  AsIs_NilErr = FALSE
  AsIs_DoubleClose = TRUE
  AsIs_CloseAtOpen = TRUE
SPECIFICATION Spec
INVARIANTS TypeOK NoPanic NoCrash BoundedRead ResponseIsContract ErrorPathClosesPC OwnedPC ClosedByDeadline LifeIsContract ClosedOnce NoProbeLost SignalMeansDone
CHECK_DEADLOCK FALSE
