CONSTANTS
  Limit = 100000
  Timeout = 10
  TimeoutMS = 20000
  Methods = {"POST", "GET", "PUT", "OPTIONS", "HEAD"}
  AsIs_NilErr = FALSE
  AsIs_DoubleClose = FALSE
  AsIs_CloseAtOpen = FALSE
SPECIFICATION GSpec
INVARIANT Emit
CHECK_DEADLOCK FALSE
