CONSTANTS
  Mode = "writer1"
  Gen = FALSE
  Addrs = {}
  Delims = {}
  MinLen = 1
  MaxLen = 1
  WLineSet <- LinesQ
  WTails <- NoTail
  WMaxLines = 2
  MaxCuts = 1
  Styles = {}
  MutConsumeDelim = TRUE
INIT Init
NEXT Next
INVARIANTS EmittedIsContract
CHECK_DEADLOCK FALSE
