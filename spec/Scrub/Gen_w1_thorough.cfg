CONSTANTS
  Mode = "writer1"
  Gen = TRUE
  Addrs = {}
  Delims = {}
  MinLen = 1
  MaxLen = 1
  WLineSet <- LinesT
  WTails <- TailsT
  WMaxLines = 2
  MaxCuts = 3
  Styles = {}
  MutConsumeDelim = FALSE
INIT Init
NEXT Stutter
INVARIANT Emit
CHECK_DEADLOCK FALSE
