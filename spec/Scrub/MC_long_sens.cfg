CONSTANTS
  Bounds = {4096, 8192}
  Deltas = {0, 1, 2}
  AddrLens = {21}
  Chunks = {512, 4096, 999999999, 0}
  FullSlideMax = 8192
  HugeDeltas = {1}
  HugeChunks = {4096}
  PendingCap = 4096
  Gen = FALSE
SPECIFICATION Spec
INVARIANTS LNothingEarly
CHECK_DEADLOCK FALSE
