------------------------------- MODULE Scrub -------------------------------
(* common/safelog: the address scrubber (Scrub) and the line-buffering writer
   (LogScrubber) that sits between the log package and the log sink.

   Property C07: every IPv4/IPv6 address that appears in a log line bounded on
   each side by a line boundary, whitespace or punctuation other than ':' is
   replaced by a placeholder, however many addresses the line has and however
   they are separated; the result does not depend on how the bytes are split
   across Write calls and only complete lines are ever emitted.

   The module has two parts.

   1. THE TOKEN GRAMMAR AND THE CONTRACT.  A line is a sequence of tokens; a
      token is an address form or a delimiter class.  Must(ts, i) says which
      address tokens MUST be replaced; Exact(ts) says for which lines the
      complete output text is determined (every address token is a Must token,
      so the output is the line with "[scrubbed]" in place of every address).
      Mode "lines" enumerates the lines as TLC initial states and Emit prints
      each with the contract's verdict.  The driver gives every address token
      a distinct concrete address.

      DON'T-CARE REGIONS (the contract demands nothing there):
        * an address token whose left or right neighbour character is a word
          character (letter, digit, '_'), ':' (excluded by the property; also
          the trailing ": " the code happens to accept), '[' or ']' (they
          belong to the bracketed forms), another address token, a fragment
          of an address, or a '.' whose other side is not whitespace / a line
          boundary ("1.2.3.4.5" is a different token).  Such neighbours can
          fuse with the address into a different address or a non-address;
        * the exact output text of every line that contains a don't-care
          address token, a zone form (the "%zone" text is kept by the code),
          or non-address tokens that spell an address by accident ("::",
          five or more ':' tokens, three or more '.' tokens, a fragment of an
          address left by interleaved partial writes): for those lines
          only "no Must address survives" is checked;
        * which placeholder text is used is fixed by the driver ("[scrubbed]").

   2. THE LogScrubber MACHINE.  buffer / Write(chunk) / sink.  A Write appends
      the chunk to the buffer, and while the buffer contains a newline emits
      Scrub(everything up to the last newline) to the sink as ONE block and
      keeps the rest (the code holds its mutex during the whole call, so Write
      is one atomic action; removing the mutex is a data race, property C20).
      Streams are sequences of CELLS: a delimiter token is one cell, an address
      token three cells (so that one or two write boundaries fall inside an
      address), a newline one cell.  TLC explores every splitting of a 1-2 line
      input (plus an optional unterminated tail) into <= MaxCuts+1 writes, and
      every interleaving of two writers, and checks
          EmittedIsContract : what reached the sink = contract scrub of the
                              complete lines written so far (split-independent)
          WholeLinesOnly    : every block handed to the sink ends in a newline
          BufferIsPendingLine, OneBlockPerNLWrite, NothingLost,
          OwnLinesIntact / OwnMustReplaced for writers that write whole lines.
      With two writers that write PIECES of lines the lines of the stream are
      mixtures; the property demands nothing about them beyond the generic
      invariants above (fragments of addresses are don't-care tokens "frag").

      The model's Scrub is the contract itself (ScrubCells(_, FALSE)), which is
      line-local.  MutConsumeDelim = TRUE replaces it by a scrubber that, like
      the pinned code before the D6 repair, consumes the delimiter after a
      replaced address so that an address directly after that single delimiter
      (a newline included) is missed; it is used only as a sensitivity
      self-check: TLC must then report EmittedIsContract violated. *)
EXTENDS Integers, Sequences, FiniteSets, TLC, Json

CONSTANTS
  Mode,            \* "lines" | "writer1" | "writer2"
  Gen,             \* TRUE: enumerate cases and print them (NEXT Stutter); FALSE: model-check the machine
  Addrs, Delims,   \* Mode "lines": alphabet (subsets of AddrForms / DelimClasses)
  MinLen, MaxLen,  \* Mode "lines": line lengths in tokens
  WLineSet,        \* writer modes: set of token lines a writer's input is made of
  WTails,          \* Mode "writer1": set of unterminated tails (<<>> = none)
  WMaxLines,       \* writer modes: lines per writer (1..WMaxLines)
  MaxCuts,         \* Mode "writer1": maximum number of write boundaries
  Styles,          \* Mode "writer2": subset of {"whole", "multi", "pieces"}
  MutConsumeDelim  \* sensitivity mutation of the model's Scrub (see above)

AddrForms == {"v4", "v4p", "v6f", "v6c", "v6b", "v6bp", "v6m", "v6z", "v6zp"}
  \* v4 1.2.3.4 | v4p 1.2.3.4:80 | v6f full 8 groups | v6c with "::" | v6b [v6] | v6bp [v6]:80
  \* v6m IPv4-embedded | v6z fe80::1%eth0 | v6zp [fe80::1%eth0]:80
ZoneForms == {"v6z", "v6zp"}
DelimClasses == {"sp", "tab", "comma", "lpar", "rpar", "quote", "eq", "punct",
                 "colon", "colsp", "let", "hex", "dig", "us", "dot", "lbr", "rbr"}
  \* punct: any other safe ASCII punctuation (chosen by the driver); colsp ": ";
  \* let: non-hex letter; hex: a-f A-F; us "_"; internal classes: "nl", "frag"

IsAddr(t) == t \in AddrForms

(* Input families of the writer modes (selected in the .cfg files with "<-"). *)
NoSeq == {}
NoTail == {<<>>}
LinesQ == {<<>>, <<"v4p">>, <<"v4p", "sp", "v6bp">>, <<"let", "v4">>, <<"v6c", "comma">>}
TailsQ == {<<>>, <<"v4">>, <<"let", "sp">>}
LinesT == {<<>>, <<"v4p">>, <<"v4p", "sp", "v6bp">>, <<"let", "v4">>, <<"v6c", "comma">>, <<"sp", "v6m">>,
           <<"v6b", "colsp", "let">>, <<"v4", "comma", "v4p">>, <<"dig">>}
TailsT == {<<>>, <<"v4">>, <<"let", "sp">>, <<"v6bp">>}
Lines2 == {<<"v4p">>, <<"v6bp", "sp", "v4">>, <<"let", "sp", "v4p">>}

(* Character class of the first / last character of a non-address token. *)
DFirst(d) ==
  CASE d \in {"sp", "tab", "nl"} -> "ws"
    [] d \in {"comma", "lpar", "rpar", "quote", "eq", "punct"} -> "safe"
    [] d \in {"colon", "colsp"} -> "colon"
    [] d = "dot" -> "dot"
    [] d \in {"lbr", "rbr"} -> "brack"
    [] OTHER -> "word"             \* let, hex, dig, us, frag
DLast(d) == IF d = "colsp" THEN "ws" ELSE DFirst(d)

-----------------------------------------------------------------------------
(* 1. The contract. *)

LeftCls(ts, i)  == IF i <= 1 THEN "edge" ELSE IF IsAddr(ts[i - 1]) THEN "addr" ELSE DLast(ts[i - 1])
RightCls(ts, i) == IF i >= Len(ts) THEN "edge" ELSE IF IsAddr(ts[i + 1]) THEN "addr" ELSE DFirst(ts[i + 1])

LeftSafe(ts, i) ==
  LET c == LeftCls(ts, i) IN
    \/ c \in {"edge", "ws", "safe"}
    \/ (c = "dot" /\ LeftCls(ts, i - 1) \in {"edge", "ws"})
RightSafe(ts, i) ==
  LET c == RightCls(ts, i) IN
    \/ c \in {"edge", "ws", "safe"}
    \/ (c = "dot" /\ RightCls(ts, i + 1) \in {"edge", "ws"})

(* The address token at position i must be replaced.  In the zone forms the IP
   address proper is followed by '%', a safe punctuation, whatever follows the
   token. *)
Must(ts, i) ==
  /\ IsAddr(ts[i])
  /\ LeftSafe(ts, i)
  /\ (ts[i] \in ZoneForms \/ RightSafe(ts, i))

MustSet(ts) == {i \in DOMAIN ts : Must(ts, i)}

(* Non-address tokens that could spell an address by accident. *)
Accidental(ts) ==
  \/ \E i \in 1..(Len(ts) - 1) : /\ ~IsAddr(ts[i]) /\ ~IsAddr(ts[i + 1])
                                 /\ DLast(ts[i]) = "colon" /\ DFirst(ts[i + 1]) = "colon"
  \/ Cardinality({i \in DOMAIN ts : ts[i] \in {"colon", "colsp"}}) >= 5
  \/ Cardinality({i \in DOMAIN ts : ts[i] = "dot"}) >= 3
  \/ \E i \in DOMAIN ts : ts[i] = "frag"     \* a piece of an address may itself be an address

(* The whole output text of the line is determined. *)
Exact(ts) ==
  /\ \A i \in DOMAIN ts : IsAddr(ts[i]) => (Must(ts, i) /\ ts[i] \notin ZoneForms)
  /\ ~Accidental(ts)

(* Output tokens: "S" is the placeholder. *)
ScrubTokens(ts) == [i \in DOMAIN ts |-> IF Must(ts, i) THEN "S" ELSE ts[i]]

(* The sensitivity mutant: the delimiter after a replaced address is consumed,
   so an address that follows it directly is not seen. *)
RECURSIVE RepMut(_, _)
RepMut(ts, j) ==
  /\ Must(ts, j)
  /\ ~(j >= 3 /\ ~IsAddr(ts[j - 1]) /\ IsAddr(ts[j - 2]) /\ RepMut(ts, j - 2))
Replaced(ts, j, mut) == IF mut THEN RepMut(ts, j) ELSE Must(ts, j)

-----------------------------------------------------------------------------
(* 2. Cells and the machine. *)

VARIABLES line,                      \* Mode "lines": the case
          toks,                      \* writer modes: token table of the case (all writers, "nl" included)
          chunks,                    \* writer modes: chunks[w] = the sequence of chunks writer w passes to Write
          sched,                     \* order of the Write calls (Gen: the whole schedule; MC: history)
          pc,                        \* pc[w] = index of writer w's next chunk
          buffer, sink,              \* the machine: pending bytes; blocks handed to the sink
          lin                        \* ghost: all cells written so far, in lock order
vars == <<line, toks, chunks, sched, pc, buffer, sink, lin>>

(* Cell code 5k+p for token k: p = 0 a delimiter token, 1..3 the three parts
   of an address token, 4 a newline.  0 is the placeholder cell. *)
S == 0
IsNL(c) == c % 5 = 4
IsPart(c) == c % 5 \in {1, 2, 3}

RECURSIVE CellsFrom(_, _, _)
CellsFrom(ts, i, off) ==
  IF i > Len(ts) THEN <<>>
  ELSE LET k == 5 * (i + off) IN
    (IF IsAddr(ts[i]) THEN <<k + 1, k + 2, k + 3>> ELSE IF ts[i] = "nl" THEN <<k + 4>> ELSE <<k>>)
    \o CellsFrom(ts, i + 1, off)
Cells(ts, off) == CellsFrom(ts, 1, off)

RECURSIVE LastNLFrom(_, _)
LastNLFrom(s, i) == IF i = 0 THEN 0 ELSE IF IsNL(s[i]) THEN i ELSE LastNLFrom(s, i - 1)
LastNL(s) == LastNLFrom(s, Len(s))
NLCount(s) == Cardinality({i \in DOMAIN s : IsNL(s[i])})

RECURSIVE Flatten(_)
Flatten(ss) == IF ss = <<>> THEN <<>> ELSE Head(ss) \o Flatten(Tail(ss))

(* Re-tokenise a cell sequence: three consecutive parts of one address are that
   address token again; any other address part is a fragment. *)
Whole(s, i) == /\ s[i] % 5 = 1 /\ i + 2 <= Len(s) /\ s[i + 1] = s[i] + 1 /\ s[i + 2] = s[i] + 2
RECURSIVE TokScan(_, _)
TokScan(s, i) ==
  IF i > Len(s) THEN <<>>
  ELSE IF Whole(s, i) THEN <<[c |-> toks[s[i] \div 5], at |-> i, n |-> 3, id |-> s[i] \div 5]>> \o TokScan(s, i + 3)
  ELSE IF IsPart(s[i]) THEN <<[c |-> "frag", at |-> i, n |-> 1, id |-> 0]>> \o TokScan(s, i + 1)
  ELSE IF s[i] = S THEN <<[c |-> "frag", at |-> i, n |-> 1, id |-> 0]>> \o TokScan(s, i + 1)
  ELSE <<[c |-> toks[s[i] \div 5], at |-> i, n |-> 1, id |-> s[i] \div 5]>> \o TokScan(s, i + 1)
Classes(r) == [j \in DOMAIN r |-> r[j].c]

(* Scrub on cells.  A newline is whitespace, so the contract is line-local:
   ScrubCells(a \o b, FALSE) = ScrubCells(a, FALSE) \o ScrubCells(b, FALSE)
   whenever a ends in a newline (TLC checks this through EmittedIsContract). *)
ScrubCells(s, mut) ==
  LET r == TokScan(s, 1)
      ts == Classes(r)
      piece(j) == IF Replaced(ts, j, mut) THEN <<S>> ELSE SubSeq(s, r[j].at, r[j].at + r[j].n - 1)
  IN Flatten([j \in DOMAIN r |-> piece(j)])

(* The complete lines of a cell sequence (newline cells dropped). *)
RECURSIVE LinesOf(_, _, _)
LinesOf(s, i, cur) ==
  IF i > Len(s) THEN <<>>
  ELSE IF IsNL(s[i]) THEN <<cur>> \o LinesOf(s, i + 1, <<>>)
  ELSE LinesOf(s, i + 1, Append(cur, s[i]))
CompleteLines(s) == LinesOf(s, 1, <<>>)

(* --- the code: Write --- *)
(* for { i := LastIndexByte(buffer, '\n'); if i == -1 { return }
         Output.Write(Scrub(buffer[:i+1])); buffer = buffer[i+1:] } *)
RECURSIVE Drain(_, _)
Drain(b, out) ==
  LET i == LastNL(b) IN
    IF i = 0 THEN [buf |-> b, out |-> out]
    ELSE Drain(SubSeq(b, i + 1, Len(b)), Append(out, ScrubCells(SubSeq(b, 1, i), MutConsumeDelim)))

Write(w) ==
  /\ ~Gen
  /\ pc[w] <= Len(chunks[w])
  /\ LET d == Drain(buffer \o chunks[w][pc[w]], sink) IN
       /\ buffer' = d.buf
       /\ sink' = d.out
  /\ lin' = lin \o chunks[w][pc[w]]
  /\ pc' = [pc EXCEPT ![w] = @ + 1]
  /\ sched' = Append(sched, w)
  /\ UNCHANGED <<line, toks, chunks>>

Next == \E w \in DOMAIN chunks : Write(w)
Stutter == UNCHANGED vars

(* --- case families --- *)
Min(X) == CHOOSE x \in X : \A y \in X : x <= y
RECURSIVE SplitAt(_, _, _)
SplitAt(s, cuts, from) ==
  IF cuts = {} THEN <<SubSeq(s, from, Len(s))>>
  ELSE LET m == Min(cuts) IN <<SubSeq(s, from, m)>> \o SplitAt(s, cuts \ {m}, m + 1)

CutSets(n, m) ==      \* subsets of 1..n with at most m (<= 3) elements
  {{}} \cup (IF m >= 1 THEN {{a} : a \in 1..n} ELSE {})
       \cup (IF m >= 2 THEN {{a, b} : a, b \in 1..n} ELSE {})
       \cup (IF m >= 3 THEN {{a, b, c} : a, b, c \in 1..n} ELSE {})

LineSeqs == UNION {[1..k -> WLineSet] : k \in 1..WMaxLines}
RECURSIVE JoinLines(_)
JoinLines(ls) == IF ls = <<>> THEN <<>> ELSE Head(ls) \o <<"nl">> \o JoinLines(Tail(ls))

(* the chunks of one writer: one Write per line / one Write for everything /
   every line in two pieces *)
RECURSIVE CellLines(_, _, _)
CellLines(s, i, cur) ==
  IF i > Len(s) THEN (IF cur = <<>> THEN <<>> ELSE <<cur>>)
  ELSE IF IsNL(s[i]) THEN <<Append(cur, s[i])>> \o CellLines(s, i + 1, <<>>)
  ELSE CellLines(s, i + 1, Append(cur, s[i]))
Halves(l) == IF Len(l) < 2 THEN <<l>> ELSE <<SubSeq(l, 1, Len(l) \div 2), SubSeq(l, Len(l) \div 2 + 1, Len(l))>>
ChunkBy(style, cells) ==
  IF style = "multi" THEN <<cells>>
  ELSE IF style = "whole" THEN CellLines(cells, 1, <<>>)
  ELSE Flatten([j \in DOMAIN CellLines(cells, 1, <<>>) |-> Halves(CellLines(cells, 1, <<>>)[j])])

Interleavings(n1, n2) ==
  {s \in [1..(n1 + n2) -> {1, 2}] : Cardinality({i \in DOMAIN s : s[i] = 1}) = n1}

Rest0 == /\ pc = [w \in DOMAIN chunks |-> 1] /\ buffer = <<>> /\ sink = <<>> /\ lin = <<>>

InitLines ==
  /\ Mode = "lines"
  /\ line \in UNION {[1..k -> Addrs \cup Delims] : k \in MinLen..MaxLen}
  /\ \E i \in DOMAIN line : IsAddr(line[i])
  /\ toks = <<>> /\ chunks = <<>> /\ sched = <<>> /\ Rest0

InitW1 ==
  /\ Mode = "writer1"
  /\ line = <<>>
  /\ \E ls \in LineSeqs, tl \in WTails : toks = JoinLines(ls) \o tl
  /\ \E cs \in CutSets(Len(Cells(toks, 0)) - 1, MaxCuts) : chunks = <<SplitAt(Cells(toks, 0), cs, 1)>>
  /\ sched = (IF Gen THEN [k \in 1..Len(chunks[1]) |-> 1] ELSE <<>>)
  /\ Rest0

InitW2 ==
  /\ Mode = "writer2"
  /\ line = <<>>
  /\ \E la \in LineSeqs, lb \in LineSeqs, sa \in Styles, sb \in Styles :
       LET ta == JoinLines(la) tb == JoinLines(lb) IN
         /\ toks = ta \o tb
         /\ chunks = <<ChunkBy(sa, Cells(ta, 0)), ChunkBy(sb, Cells(tb, Len(ta)))>>
  /\ (IF Gen THEN sched \in Interleavings(Len(chunks[1]), Len(chunks[2])) ELSE sched = <<>>)
  /\ Rest0

Init == InitLines \/ InitW1 \/ InitW2
Spec == Init /\ [][Next]_vars

-----------------------------------------------------------------------------
(* Invariants of the machine. *)

Done == \A w \in DOMAIN chunks : pc[w] > Len(chunks[w])
(* the k-th Write call of the schedule *)
WriteAt(k) == chunks[sched[k]][Cardinality({i \in 1..k : sched[i] = sched[k]})]

TypeOK ==
  /\ ~Gen
  /\ \A w \in DOMAIN chunks : pc[w] \in 1..(Len(chunks[w]) + 1)
  /\ Len(lin) = Len(Flatten([k \in DOMAIN sched |-> WriteAt(k)]))

(* C07: only complete lines are ever emitted. *)
WholeLinesOnly == \A k \in DOMAIN sink : sink[k] # <<>> /\ IsNL(sink[k][Len(sink[k])])

(* bytes after the last newline are held back, and nothing else is *)
BufferIsPendingLine == buffer = SubSeq(lin, LastNL(lin) + 1, Len(lin))

(* C07: what reached the sink is the contract's scrub of the complete lines
   written so far - a function of the stream, not of the write boundaries. *)
EmittedIsContract == Flatten(sink) = ScrubCells(SubSeq(lin, 1, LastNL(lin)), FALSE)

(* a Write reaches the sink exactly once if its chunk completes a line, never
   otherwise.  This is the grain of the pinned code (one block per Write), a
   fact about the model; the driver does NOT demand it of the real code: any
   number of blocks is fine as long as each ends a line. *)
OneBlockPerNLWrite ==
  Len(sink) = Cardinality({k \in DOMAIN sched : NLCount(WriteAt(k)) > 0})

(* nothing lost: every newline written has been emitted, and at the end only
   the unterminated tail is pending *)
NothingLost ==
  /\ NLCount(Flatten(sink)) = NLCount(lin)
  /\ (Done => Len(lin) = Len(Flatten([w \in DOMAIN chunks |-> Flatten(chunks[w])])))

(* single writer: the final output is a function of the input alone *)
SplitIndependent ==
  (Mode = "writer1" /\ Done) =>
     LET all == Cells(toks, 0) IN Flatten(sink) = ScrubCells(SubSeq(all, 1, LastNL(all)), FALSE)

(* writers that pass complete lines to every Write call *)
WholeLineWriters == \A w \in DOMAIN chunks : \A k \in DOMAIN chunks[w] :
                       chunks[w][k] # <<>> /\ IsNL(chunks[w][k][Len(chunks[w][k])])
OwnLines(w) == CompleteLines(Flatten(chunks[w]))
OwnLinesIntact ==
  WholeLineWriters =>
    \A j \in DOMAIN CompleteLines(lin) : \E w \in DOMAIN chunks : \E m \in DOMAIN OwnLines(w) :
        CompleteLines(lin)[j] = OwnLines(w)[m]
(* ... and then no address that is in a safe context within its writer's own
   line survives: its cells never reach the sink *)
OwnMustReplaced ==
  WholeLineWriters =>
    \A w \in DOMAIN chunks : \A m \in DOMAIN OwnLines(w) :
      LET r == TokScan(OwnLines(w)[m], 1) ts == Classes(r) IN
        \A j \in DOMAIN r : Must(ts, j) =>
          \A x \in DOMAIN Flatten(sink) : Flatten(sink)[x] \div 5 # r[j].id \/ Flatten(sink)[x] = S

-----------------------------------------------------------------------------
(* Case emission (Gen = TRUE, NEXT Stutter, one worker). *)

LineExpect(l) ==            \* l: the cells of one complete line of the stream
  LET ts == Classes(TokScan(l, 1)) IN
    [cells |-> l, line |-> ts, must |-> MustSet(ts), exact |-> Exact(ts), out |-> ScrubTokens(ts)]

EmitLines ==
  PrintT(ToJson([line |-> line,
                 expect |-> [must |-> MustSet(line), exact |-> Exact(line), out |-> ScrubTokens(line)]]))

EmitWriter ==
  LET all == Flatten([k \in DOMAIN sched |-> WriteAt(k)])
      cl == CompleteLines(all)
  IN PrintT(ToJson([toks |-> toks,
                    writes |-> [k \in DOMAIN sched |-> [w |-> sched[k], cells |-> WriteAt(k)]],
                    expect |-> [emit |-> [k \in DOMAIN sched |-> NLCount(WriteAt(k))],
                                lines |-> [j \in DOMAIN cl |-> LineExpect(cl[j])]]]))

Emit == IF ~Gen THEN TRUE ELSE IF Mode = "lines" THEN EmitLines ELSE EmitWriter
=============================================================================
