CONSTANTS
  Bounds = {1024, 4096}
  Deltas = {0, 1, 2}
  AddrLens = {7, 21}
  Chunks = {7, 512, 4095, 4096, 4097, 999999999, 0}
  FullSlideMax = 8192
  HugeDeltas = {1}
  HugeChunks = {4096}
  PendingCap = 0
  Gen = FALSE
SPECIFICATION Spec
INVARIANTS TypeOK LWholeLinesOnly LNothingEarly LPendingIsRest LEmittedOnce LAddressReplaced
PROPERTY Terminates
CHECK_DEADLOCK FALSE
