CONSTANTS
  Mode = "writer1"
  Gen = FALSE
  Addrs = {}
  Delims = {}
  MinLen = 1
  MaxLen = 1
  WLineSet <- LinesT
  WTails <- TailsT
  WMaxLines = 2
  MaxCuts = 3
  Styles = {}
  MutConsumeDelim = FALSE
INIT Init
NEXT Next
INVARIANTS TypeOK WholeLinesOnly BufferIsPendingLine EmittedIsContract OneBlockPerNLWrite NothingLost SplitIndependent
CHECK_DEADLOCK FALSE
