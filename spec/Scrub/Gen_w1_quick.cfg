CONSTANTS
  Mode = "writer1"
  Gen = TRUE
  Addrs = {}
  Delims = {}
  MinLen = 1
  MaxLen = 1
  WLineSet <- LinesQ
  WTails <- TailsQ
  WMaxLines = 2
  MaxCuts = 3
  Styles = {}
  MutConsumeDelim = FALSE
INIT Init
NEXT Stutter
INVARIANT Emit
CHECK_DEADLOCK FALSE
