CONSTANTS
  Mode = "writer2"
  Gen = FALSE
  Addrs = {}
  Delims = {}
  MinLen = 1
  MaxLen = 1
  WLineSet <- Lines2
  WTails = {}
  WMaxLines = 2
  MaxCuts = 0
  Styles = {"whole", "multi", "pieces"}
  MutConsumeDelim = FALSE
INIT Init
NEXT Next
INVARIANTS TypeOK WholeLinesOnly BufferIsPendingLine EmittedIsContract OneBlockPerNLWrite NothingLost OwnLinesIntact OwnMustReplaced
CHECK_DEADLOCK FALSE
