CONSTANTS
  Mode = "lines"
  Gen = TRUE
  Addrs = {"v4", "v4p", "v6f", "v6c", "v6b", "v6bp", "v6m", "v6z", "v6zp"}
  Delims = {"sp", "tab", "comma", "lpar", "rpar", "quote", "eq", "punct", "colon", "colsp", "let", "hex", "dig", "us", "dot", "lbr", "rbr"}
  MinLen = 1
  MaxLen = 3
  WLineSet = {}
  WTails = {}
  WMaxLines = 1
  MaxCuts = 0
  Styles = {}
  MutConsumeDelim = FALSE
INIT Init
NEXT Stutter
INVARIANT Emit
CHECK_DEADLOCK FALSE
