CONSTANTS
  Mode = "writer2"
  Gen = TRUE
  Addrs = {}
  Delims = {}
  MinLen = 1
  MaxLen = 1
  WLineSet <- Lines2
  WTails = {}
  WMaxLines = 2
  MaxCuts = 0
  Styles = {"whole", "multi", "pieces"}
  MutConsumeDelim = FALSE
INIT Init
NEXT Stutter
INVARIANT Emit
CHECK_DEADLOCK FALSE
