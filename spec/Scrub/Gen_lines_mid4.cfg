CONSTANTS
  Mode = "lines"
  Gen = TRUE
  Addrs = {"v4", "v4p", "v6f", "v6c", "v6b", "v6bp", "v6m", "v6z"}
  Delims = {"sp", "tab", "comma", "lpar", "quote", "eq", "colon", "colsp", "let", "dig", "dot"}
  MinLen = 4
  MaxLen = 4
  WLineSet = {}
  WTails = {}
  WMaxLines = 1
  MaxCuts = 0
  Styles = {}
  MutConsumeDelim = FALSE
INIT Init
NEXT Stutter
INVARIANT Emit
CHECK_DEADLOCK FALSE
