----------------------------- MODULE ScrubLong -----------------------------
(* common/safelog LogScrubber with LONG unterminated pending data (property
   C07: "the result does not depend on how the bytes are split across writes,
   and only complete lines are ever emitted").

   Companion of Scrub.tla.  There a stream is a short sequence of cells; here a
   line is described by byte counts only, so that pending data of 1 KiB .. 1 MiB
   can be modelled:

       line = filler .. ' ' ADDRESS ' ' 'x' '\n'        (pos = "straddle")
       line = filler .. ' ' ADDRESS '\n'                (pos = "end")

   In the token grammar of Scrub.tla this is  <<..., sp, addr, sp, ...>>  resp.
   <<..., sp, addr>> : Scrub!Must holds for the address whatever its form, and
   the line is Exact.  The filler contains no address and no newline.

   A case fixes a boundary b (1 KiB, 4 KiB, 8 KiB, 64 KiB, 1 MiB), a position
   P = b + d (d in -1..1), the address length, the SLIDE s (the address begins
   s bytes before P, s = 0..alen: the position P is slid byte by byte across
   the address) and a chunk class (fixed chunk size / the whole line / two
   writes cut at P).  "end" cases have total = P exactly (totals just below /
   at / above the boundary) with the address directly before the newline.

   CONTRACT: nothing reaches the sink before the Write that delivers the
   newline; that Write hands over the whole line, once, with the address
   replaced - for every chunk class (split independence).

   The machine is the code's Write with byte counts (append; if the buffer
   holds a newline emit Scrub(everything up to the last newline)).  A block's
   scrub replaces the address iff the address lies inside that one block.
   PendingCap = 0 is the code as it is.  PendingCap > 0 is a sensitivity
   mutant ("flush an unterminated buffer longer than PendingCap"): TLC must
   then report LNothingEarly / LWholeLinesOnly / LAddressReplaced violated. *)
EXTENDS Integers, Sequences, FiniteSets, TLC, Json

CONSTANTS
  Bounds,        \* boundaries b
  Deltas,        \* P = b + d - 1 for the members d of this set (a .cfg file cannot hold negative numbers)
  AddrLens,      \* address lengths in bytes (the driver spells an address of exactly that length)
  Chunks,        \* chunk classes: n > 0 fixed size, 0 the whole line, CutClass two writes cut at P
  FullSlideMax,  \* boundaries up to this size get every slide 0..alen, larger ones five representatives
  HugeDeltas,    \* deltas used for boundaries above 64 KiB (a Scrub of 1 MiB costs 0.25 s)
  HugeChunks,    \* chunk classes used for boundaries above 64 KiB
  PendingCap,    \* 0, or the cap of the sensitivity mutant
  Gen            \* TRUE: enumerate and print the cases (NEXT Stutter)

CutClass == 999999999

VARIABLES lc, written, pending, sink
vars == <<lc, written, pending, sink>>

MinOf(a, b) == IF a < b THEN a ELSE b

Slides(b, alen) == IF b <= FullSlideMax THEN 0..alen ELSE {0, 1, alen \div 2, alen - 1, alen}
(* one-byte and seven-byte chunks only up to 8 KiB, 512-byte chunks up to 64 KiB
   (the code rescans its whole buffer on every Write) *)
Feasible(b, c) == /\ (c \in {1, 7} => b <= 8192)
                  /\ (c = 512 => b <= 65536)

P(c) == c.b + c.d
AStart(c) == IF c.pos = "straddle" THEN P(c) - c.s ELSE P(c) - 1 - c.alen
Total(c) == IF c.pos = "straddle" THEN AStart(c) + c.alen + 3 ELSE P(c)
Cut(c) == IF c.pos = "straddle" THEN P(c) ELSE AStart(c) + (c.alen \div 2)

Cases ==
  {[b |-> b, d |-> d, alen |-> a, s |-> s, c |-> c, pos |-> "straddle"] :
      b \in Bounds, d \in {x - 1 : x \in Deltas}, a \in AddrLens, s \in 0..47, c \in Chunks}
  \cup {[b |-> b, d |-> d, alen |-> a, s |-> 0, c |-> c, pos |-> "end"] :
      b \in Bounds, d \in {x - 1 : x \in Deltas}, a \in AddrLens, c \in Chunks}
ValidCase(c) == /\ Feasible(c.b, c.c)
                /\ (c.b > 65536 => (c.d + 1 \in HugeDeltas /\ c.c \in HugeChunks))
                /\ (c.pos = "straddle" => c.s \in Slides(c.b, c.alen))

(* the length of the next Write *)
NextLen(c, w) ==
  IF c.c = 0 THEN Total(c) - w
  ELSE IF c.c = CutClass THEN (IF w = 0 THEN Cut(c) ELSE Total(c) - w)
  ELSE MinOf(c.c, Total(c) - w)

NWrites(c) ==
  IF c.c = 0 THEN 1 ELSE IF c.c = CutClass THEN 2 ELSE (Total(c) + c.c - 1) \div c.c

Init ==
  /\ lc \in Cases
  /\ ValidCase(lc)
  /\ written = 0 /\ pending = 0 /\ sink = <<>>

(* Write(b): buffer = append(buffer, b...); for { i := LastIndexByte(buffer, '\n');
   if i == -1 { return }; Output.Write(Scrub(buffer[:i+1])); buffer = buffer[i+1:] }
   The only newline is the last byte of the line. *)
Write ==
  /\ ~Gen
  /\ written < Total(lc)
  /\ LET n == NextLen(lc, written)
         w2 == written + n
         p2 == pending + n
     IN /\ written' = w2
        /\ IF w2 = Total(lc) \/ (PendingCap > 0 /\ p2 > PendingCap)
           THEN /\ sink' = Append(sink, [from |-> w2 - p2, to |-> w2])
                /\ pending' = 0
           ELSE /\ sink' = sink
                /\ pending' = p2
  /\ UNCHANGED lc

Next == Write
Stutter == UNCHANGED vars
Spec == Init /\ [][Next]_vars /\ WF_vars(Write)

TypeOK == /\ written \in 0..Total(lc) /\ pending \in 0..written

(* C07: only complete lines are ever emitted *)
LWholeLinesOnly == \A k \in DOMAIN sink : sink[k].to = Total(lc)
LNothingEarly == written < Total(lc) => sink = <<>>
(* nothing is lost or held back: what is not in the sink is pending *)
LPendingIsRest == pending = written - (IF sink = <<>> THEN 0 ELSE sink[Len(sink)].to)
(* C07: the same line whatever the chunk class: the whole line, once *)
LEmittedOnce == written = Total(lc) => (sink = <<[from |-> 0, to |-> Total(lc)]>> /\ pending = 0)
(* C07: the address is replaced - it lies inside one scrubbed block *)
LAddressReplaced ==
  written = Total(lc) =>
    \E k \in DOMAIN sink : sink[k].from <= AStart(lc) /\ AStart(lc) + lc.alen <= sink[k].to
Terminates == <>(written = Total(lc))

Emit ==
  IF ~Gen THEN TRUE
  ELSE PrintT(ToJson([b |-> lc.b, d |-> lc.d, alen |-> lc.alen, s |-> lc.s, c |-> lc.c, pos |-> lc.pos,
                      expect |-> [total |-> Total(lc), astart |-> AStart(lc), cut |-> Cut(lc),
                                  nwrites |-> NWrites(lc), emitat |-> NWrites(lc), blocks |-> 1]]))
=============================================================================
