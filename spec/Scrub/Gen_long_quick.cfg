CONSTANTS
  Bounds = {1024, 4096, 8192, 65536, 1048576}
  Deltas = {0, 1, 2}
  AddrLens = {7, 21, 47}
  Chunks = {1, 7, 512, 4095, 4096, 4097, 999999999, 0}
  FullSlideMax = 8192
  HugeDeltas = {1}
  HugeChunks = {4096, 999999999}
  PendingCap = 0
  Gen = TRUE
INIT Init
NEXT Stutter
INVARIANT Emit
CHECK_DEADLOCK FALSE
