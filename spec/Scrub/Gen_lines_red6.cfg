CONSTANTS
  Mode = "lines"
  Gen = TRUE
  Addrs = {"v4", "v6c", "v6bp"}
  Delims = {"sp", "comma", "colon", "colsp", "let"}
  MinLen = 5
  MaxLen = 6
  WLineSet = {}
  WTails = {}
  WMaxLines = 1
  MaxCuts = 0
  Styles = {}
  MutConsumeDelim = FALSE
INIT Init
NEXT Stutter
INVARIANT Emit
CHECK_DEADLOCK FALSE
