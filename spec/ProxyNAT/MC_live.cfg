CONSTANTS
  MaxProbes = 1
  Pollers = {"q1", "q2"}
  MaxPolls = 2
  MaxTimeouts = 3
  AsIs_BadURL = FALSE
  AsIs_PCLeak = FALSE
SPECIFICATION LSpec
INVARIANTS TypeOK Contract
PROPERTIES PollReturns
CHECK_DEADLOCK FALSE
