CONSTANTS
  MaxProbes = 3
  Pollers = {"q1", "q2"}
  MaxPolls = 2
  MaxTimeouts = 3
  AsIs_BadURL = FALSE
  AsIs_PCLeak = FALSE
SPECIFICATION Spec
INVARIANTS TypeOK Contract ReportedOK SwitchIsResult SwitchKeepDead NoRace NoCrash ProbeNeverBlocksPolling NoPCLeft
CHECK_DEADLOCK FALSE
