CONSTANTS
  MaxProbes = 1
  Pollers = {"q1"}
  MaxPolls = 1
  MaxTimeouts = 1
  AsIs_BadURL = TRUE
  AsIs_PCLeak = TRUE
SPECIFICATION GSpec
INVARIANT Emit
CHECK_DEADLOCK FALSE
