------------------------------ MODULE ProxyNAT ------------------------------
(* The proxy's NAT-type state machine: proxy/lib/snowflake.go checkNATType,
   the package global currentNATType with its lock currentNATTypeAccess
   (sync.RWMutex), getCurrentNATType, and what pollOffer reports to the broker.

   checkNATType, step by step (one action per line of consequence; the
   outcome of the probe is the environment's choice, fixed per probe by
   `oc`):

     p_url      newSignalingServer(probeURL)     "badurl": the URL does not parse
     p_mkpc     makeNewPeerConnection            "pcfail": error, return
     p_post     probe.Post(offer)                "unreachable" | "status": error, return   [blocks: HTTP]
     p_decode   DecodeAnswerRequest              "badjson": error, return
     p_deser    DeserializeSessionDescription    "badsdp": error, return
     p_setrem   pc.SetRemoteDescription          "badremote": error, return
     p_load     loaded := getCurrentNATType()    RLock; read; RUnlock
     p_wait     select { dataChan -> unrestricted; time.After(20 s) -> restricted }         [blocks]
     p_switch   toStore := switch loaded + "->" + result { ... }  (as written in the code)
     p_store    Lock; currentNATType = toStore; Unlock
     p_close    pc.Close()

   every error path returns WITHOUT touching the global.  So the table the
   code implements is

       Table(prev, outcome) ==  open    -> unrestricted
                                timeout -> restricted
                                any error (unreachable probe server, bad status, undecodable answer,
                                bad session description, peer connection failure) -> prev  (kept)

   What one might expect and the code does NOT do:
   * a failed probe does not downgrade to "unknown": the last measured value
     is reported for ever while the probe server is unreachable;
   * the switch in the code has two special cases, "unrestricted->unknown" and
     "restricted->unknown" (keep the previous value when the test result is
     unknown); they are DEAD: the select always yields unrestricted or
     restricted, the test result is never "unknown" when the switch is
     reached (SwitchIsResult; the coverage of SwitchKeep is 0).  `loaded` is
     therefore read but never matters, and the read-wait-write sequence is
     not a lost-update hazard;
   * the global outlives the SnowflakeProxy value: a second Start in the same
     process begins with the first one's last measurement (Init enumerates
     all three initial values for that reason).

   Deviation constants (TRUE = the pinned code):
     AsIs_BadURL   with an unparsable probe URL newSignalingServer returns nil
                   and the code only logs: probe.Post then dereferences the nil
                   pointer and the proxy panics.  Repaired: return.
     AsIs_PCLeak   every error path after makeNewPeerConnection returns without
                   pc.Close(): one PeerConnection (ICE agent, sockets,
                   goroutines) is left behind per failed probe.  Repaired:
                   deferred Close.

   Pollers: pollOffer reads the global through getCurrentNATType (RLock) and
   puts it into the poll request.  Property: the reported value is always one
   of the three names and equals the result, per Table, of the latest
   COMPLETED probe (Contract); a probe in flight never holds the lock while it
   blocks (ProbeNeverBlocksPolling, PollReturns).

   RWMutex as Go implements it: readers share; a writer excludes; a waiting
   writer keeps new readers out.

   Two uses: Spec = the concurrent machine (MaxProbes sequential probes by one
   prober - probes never overlap: Start runs the first one synchronously and
   the retests are runs of ONE task.Periodic, spec/Periodic NoOverlap - and
   Pollers pollers at any point).  GenSpec = the cases for the conformance
   driver: Init enumerates probe scripts, Emit prints each with the values the
   contract demands (never re-implemented in Go or Python). *)
EXTENDS Integers, Sequences, FiniteSets, TLC, Json

CONSTANTS
  MaxProbes,     \* probes per behaviour (Spec) / maximal script length (GenSpec)
  Pollers,       \* set of poller ids
  MaxPolls,      \* polls per poller (Spec)
  MaxTimeouts,   \* GenSpec: at most this many "timeout" outcomes per script (20 s of real time each)
  AsIs_BadURL, AsIs_PCLeak

NAT == {"unknown", "restricted", "unrestricted"}
Errors == {"badurl", "pcfail", "unreachable", "status", "badjson", "badsdp", "badremote"}
Outcomes == {"open", "timeout"} \cup Errors

(* ---- the contract ---- *)
Table(prev, o) == CASE o = "open" -> "unrestricted" [] o = "timeout" -> "restricted" [] OTHER -> prev

RECURSIVE Fold(_, _)
Fold(init, os) == IF os = <<>> THEN init ELSE Fold(Table(init, Head(os)), Tail(os))

(* ---- the code's switch, as written ---- *)
Switch(loaded, result) ==
  CASE loaded = "unrestricted" /\ result = "unknown" -> "unrestricted"
    [] loaded = "restricted" /\ result = "unknown" -> "restricted"
    [] OTHER -> result
SwitchKeep(loaded, result) == result = "unknown" /\ loaded \in {"unrestricted", "restricted"}

(* where an outcome makes checkNATType return *)
FailsAt(o) == CASE o = "badurl" -> "p_url" [] o = "pcfail" -> "p_mkpc" [] o \in {"unreachable", "status"} -> "p_post"
                [] o = "badjson" -> "p_decode" [] o = "badsdp" -> "p_deser" [] o = "badremote" -> "p_setrem"
                [] OTHER -> "none"

VARIABLES
  nat,        \* currentNATType
  readers,    \* set of holders of the read lock
  writer,     \* holder of the write lock ("" = none)
  wwait,      \* a writer is waiting (new readers stay out)
  ppc,        \* prober: pc
  oc,         \* outcome of the probe in flight
  loaded, result, toStore,
  pcOpen,     \* PeerConnections created by probes and not closed
  done,       \* outcomes of the completed probes, in order (ghost)
  init0,      \* initial value of the global (ghost)
  qpc, qval, qn,   \* pollers: pc, value read, polls made
  reported,   \* last value each poller put into a poll request ("-" = none yet)
  crashed,
  race        \* ghost: the global was accessed without the lock held in the right mode

vars == <<nat, readers, writer, wwait, ppc, oc, loaded, result, toStore, pcOpen, done, init0, qpc, qval, qn, reported, crashed, race>>

Init ==
  /\ nat \in NAT /\ init0 = nat
  /\ readers = {} /\ writer = "" /\ wwait = FALSE
  /\ ppc = "idle" /\ oc = "none" /\ loaded = "-" /\ result = "-" /\ toStore = "-"
  /\ pcOpen = 0 /\ done = <<>>
  /\ qpc = [q \in Pollers |-> "idle"] /\ qval = [q \in Pollers |-> "-"] /\ qn = [q \in Pollers |-> 0]
  /\ reported = [q \in Pollers |-> "-"]
  /\ crashed = FALSE /\ race = FALSE

CanRLock == writer = "" /\ ~wwait
CanWLock == writer = "" /\ readers = {}

(* ---- the prober ---- *)
PVars == <<readers, writer, wwait, nat, qpc, qval, qn, reported, init0>>

ProbeStart(o) ==
  /\ ppc = "idle" /\ ~crashed /\ Len(done) < MaxProbes /\ o \in Outcomes
  /\ ppc' = "p_url" /\ oc' = o
  /\ UNCHANGED <<PVars, loaded, result, toStore, pcOpen, done, crashed, race>>

Return ==      \* checkNATType returns
  /\ ppc' = "idle" /\ done' = Append(done, oc) /\ oc' = "none"

PUrl ==
  /\ ppc = "p_url"
  /\ IF oc = "badurl"
     THEN IF AsIs_BadURL
          THEN ppc' = "p_mkpc" /\ UNCHANGED <<oc, done>>          \* only logged; probe == nil from here on
          ELSE Return
     ELSE ppc' = "p_mkpc" /\ UNCHANGED <<oc, done>>
  /\ UNCHANGED <<PVars, loaded, result, toStore, pcOpen, crashed, race>>

PMkpc ==
  /\ ppc = "p_mkpc"
  /\ IF oc = "pcfail"
     THEN Return /\ UNCHANGED pcOpen
     ELSE ppc' = "p_post" /\ pcOpen' = pcOpen + 1 /\ UNCHANGED <<oc, done>>
  /\ UNCHANGED <<PVars, loaded, result, toStore, crashed, race>>

(* an error return after the PeerConnection exists: the pinned code forgets pc.Close() *)
ErrReturn == Return /\ pcOpen' = (IF AsIs_PCLeak THEN pcOpen ELSE pcOpen - 1)

PPost ==
  /\ ppc = "p_post"
  /\ IF oc = "badurl"
     THEN crashed' = TRUE /\ UNCHANGED <<ppc, oc, done, pcOpen>>    \* probe.url: nil pointer dereference
     ELSE /\ UNCHANGED crashed
          /\ IF oc \in {"unreachable", "status"} THEN ErrReturn ELSE (ppc' = "p_decode" /\ UNCHANGED <<oc, done, pcOpen>>)
  /\ UNCHANGED <<PVars, loaded, result, toStore, race>>

PStepErr(from, bad, to) ==
  /\ ppc = from
  /\ IF oc = bad THEN ErrReturn ELSE (ppc' = to /\ UNCHANGED <<oc, done, pcOpen>>)
  /\ UNCHANGED <<PVars, loaded, result, toStore, crashed, race>>

PDecode == PStepErr("p_decode", "badjson", "p_deser")
PDeser  == PStepErr("p_deser", "badsdp", "p_setrem")
PSetRem == PStepErr("p_setrem", "badremote", "p_load")

PLoadLock ==
  /\ ppc = "p_load" /\ CanRLock
  /\ readers' = readers \cup {"probe"} /\ ppc' = "p_load_cs"
  /\ UNCHANGED <<nat, writer, wwait, oc, loaded, result, toStore, pcOpen, done, init0, qpc, qval, qn, reported, crashed, race>>

PLoad ==
  /\ ppc = "p_load_cs"
  /\ loaded' = nat /\ race' = (race \/ "probe" \notin readers)
  /\ readers' = readers \ {"probe"} /\ ppc' = "p_wait"
  /\ UNCHANGED <<nat, writer, wwait, oc, result, toStore, pcOpen, done, init0, qpc, qval, qn, reported, crashed>>

(* the data channel opens, or 20 s pass: environment, no fairness *)
PWait ==
  /\ ppc = "p_wait"
  /\ result' = (IF oc = "open" THEN "unrestricted" ELSE "restricted")
  /\ ppc' = "p_switch"
  /\ UNCHANGED <<PVars, oc, loaded, toStore, pcOpen, done, crashed, race>>

PSwitch ==
  /\ ppc = "p_switch"
  /\ toStore' = Switch(loaded, result) /\ ppc' = "p_store"
  /\ UNCHANGED <<PVars, oc, loaded, result, pcOpen, done, crashed, race>>

PStoreWant ==
  /\ ppc = "p_store"
  /\ \/ CanWLock /\ writer' = "probe" /\ ppc' = "p_store_cs" /\ wwait' = FALSE
     \/ ~CanWLock /\ ~wwait /\ wwait' = TRUE /\ UNCHANGED <<writer, ppc>>      \* Lock() announces the writer: new readers wait
  /\ UNCHANGED <<nat, readers, oc, loaded, result, toStore, pcOpen, done, init0, qpc, qval, qn, reported, crashed, race>>

PStore ==
  /\ ppc = "p_store_cs"
  /\ nat' = toStore /\ race' = (race \/ writer # "probe")
  /\ writer' = "" /\ ppc' = "p_close"
  /\ UNCHANGED <<readers, wwait, oc, loaded, result, toStore, pcOpen, done, init0, qpc, qval, qn, reported, crashed>>

PClose ==
  /\ ppc = "p_close"
  /\ pcOpen' = pcOpen - 1 /\ Return
  /\ UNCHANGED <<PVars, loaded, result, toStore, crashed, race>>

ProbeStep == PUrl \/ PMkpc \/ PPost \/ PDecode \/ PDeser \/ PSetRem \/ PLoadLock \/ PLoad \/ PSwitch \/ PStoreWant \/ PStore \/ PClose

(* ---- pollers: pollOffer -> getCurrentNATType -> encode -> POST ---- *)
QVars == <<nat, writer, wwait, ppc, oc, loaded, result, toStore, pcOpen, done, init0, crashed>>

PollStart(q) ==
  /\ qpc[q] = "idle" /\ qn[q] < MaxPolls /\ ~crashed
  /\ qpc' = [qpc EXCEPT ![q] = "q_lock"] /\ qn' = [qn EXCEPT ![q] = qn[q] + 1]
  /\ UNCHANGED <<QVars, readers, qval, reported, race>>

PollLock(q) ==
  /\ qpc[q] = "q_lock" /\ CanRLock
  /\ readers' = readers \cup {q} /\ qpc' = [qpc EXCEPT ![q] = "q_cs"]
  /\ UNCHANGED <<QVars, qval, qn, reported, race>>

PollRead(q) ==
  /\ qpc[q] = "q_cs"
  /\ qval' = [qval EXCEPT ![q] = nat] /\ race' = (race \/ q \notin readers)
  /\ readers' = readers \ {q} /\ qpc' = [qpc EXCEPT ![q] = "q_send"]
  /\ UNCHANGED <<QVars, qn, reported>>

PollSend(q) ==
  /\ qpc[q] = "q_send"
  /\ reported' = [reported EXCEPT ![q] = qval[q]] /\ qpc' = [qpc EXCEPT ![q] = "idle"]
  /\ UNCHANGED <<QVars, readers, qval, qn, race>>

PollStep(q) == PollLock(q) \/ PollRead(q) \/ PollSend(q)

Next == (\E o \in Outcomes : ProbeStart(o)) \/ ProbeStep \/ PWait \/ (\E q \in Pollers : PollStart(q) \/ PollStep(q))

Spec == Init /\ [][Next]_vars
(* fairness: the code's own steps; not the start of probes or polls, not the end of the wait *)
LSpec == Spec /\ WF_vars(ProbeStep) /\ \A q \in Pollers : WF_vars(PollStep(q))

(* ---- properties ---- *)
TypeOK ==
  /\ nat \in NAT /\ loaded \in NAT \cup {"-"} /\ result \in {"unrestricted", "restricted", "-"} /\ toStore \in NAT \cup {"-"}
  /\ \A q \in Pollers : reported[q] \in NAT \cup {"-"}

(* the global always holds the result, per Table, of the completed probes; a probe in flight
   that has already stored (p_close) counts as completed for the global *)
Stored == IF ppc = "p_close" THEN Append(done, oc) ELSE done
Contract == nat = Fold(init0, Stored)
(* every reported value is one of the three names and is a value the contract allows at some
   point between the start and the end of that poll: the value before or after the probe in flight *)
ReportedOK == \A q \in Pollers : reported[q] # "-" =>
                 \E k \in 0..Len(Stored) : reported[q] = Fold(init0, SubSeq(Stored, 1, k))
SwitchIsResult == ppc = "p_store" => toStore = result
SwitchKeepDead == ppc = "p_switch" => ~SwitchKeep(loaded, result)
NoRace == ~race
NoCrash == ~crashed
(* the probe never holds the lock at a step that blocks (HTTP round trip, the 20 s wait) *)
ProbeNeverBlocksPolling == ppc \in {"p_post", "p_wait"} => ("probe" \notin readers /\ writer # "probe" /\ ~wwait)
(* nothing is left behind by a completed probe *)
NoPCLeft == ppc = "idle" => pcOpen = 0
(* liveness: a poll that has started reports, whatever the probe is waiting for *)
PollReturns == \A q \in Pollers : (qpc[q] # "idle") ~> (qpc[q] = "idle")

-----------------------------------------------------------------------------
(* GenSpec: probe scripts for the conformance driver.

   A case: an initial value of the global and a sequence of 1..MaxProbes probe
   outcomes.  The driver polls (real pollOffer against a scripted broker)
   before the first probe, while each probe is in flight (the scripted probe
   server holds its response; for "timeout" also one second into the 20 s
   wait) and after each probe has returned; the contract gives the value of
   every one of those polls. *)
Scripts == UNION {[1..n -> Outcomes] : n \in 1..MaxProbes}
NTimeouts(s) == Cardinality({i \in DOMAIN s : s[i] = "timeout"})

(* the case is carried by the machine's own ghost variables: init0 = initial value, done = the script *)
GInit ==
  /\ nat \in NAT /\ init0 = nat
  /\ done \in {s \in Scripts : NTimeouts(s) <= MaxTimeouts}
  /\ readers = {} /\ writer = "" /\ wwait = FALSE
  /\ ppc = "idle" /\ oc = "none" /\ loaded = "-" /\ result = "-" /\ toStore = "-"
  /\ pcOpen = 0
  /\ qpc = [q \in Pollers |-> "idle"] /\ qval = [q \in Pollers |-> "-"] /\ qn = [q \in Pollers |-> 0]
  /\ reported = [q \in Pollers |-> "-"]
  /\ crashed = FALSE /\ race = FALSE
GSpec == GInit /\ [][UNCHANGED vars]_vars

(* is the probe server reached at all (a poll can be made while its response is held) *)
Reaches(o) == o \notin {"badurl", "pcfail", "unreachable"}
(* does the probe survive without taking the process down (as the code is / repaired) *)
Crashes(o) == AsIs_BadURL /\ o = "badurl"

Expect(i0, s) ==
  [before |-> i0,
   probes |-> [k \in DOMAIN s |->
                 [outcome |-> s[k],
                  held |-> Reaches(s[k]),                                  \* a poll is made while the POST is held
                  during |-> Fold(i0, SubSeq(s, 1, k - 1)),                \* what every poll reports while probe k is in flight
                  after |-> Fold(i0, SubSeq(s, 1, k)),                     \* ... and after it has returned
                  crash |-> Crashes(s[k]),
                  pcleft |-> (IF AsIs_PCLeak /\ s[k] \in Errors \ {"badurl", "pcfail"} THEN 1 ELSE 0)]]]

Emit == PrintT(ToJson([init |-> init0, script |-> done, expect |-> Expect(init0, done)]))
=============================================================================
