CONSTANTS
  MaxProbes = 3
  Pollers = {"q1"}
  MaxPolls = 1
  MaxTimeouts = 2
  AsIs_BadURL = FALSE
  AsIs_PCLeak = FALSE
SPECIFICATION GSpec
INVARIANT Emit
CHECK_DEADLOCK FALSE
