CONSTANTS
  MaxProbes = 1
  Pollers = {"q1"}
  MaxPolls = 1
  MaxTimeouts = 3
  AsIs_BadURL = FALSE
  AsIs_PCLeak = TRUE
SPECIFICATION Spec
INVARIANTS TypeOK Contract ReportedOK SwitchIsResult SwitchKeepDead NoRace NoCrash ProbeNeverBlocksPolling NoPCLeft
CHECK_DEADLOCK FALSE
