CONSTANTS
  AsIs_D10 = FALSE
  Mut_NilFailedEvent = FALSE
  Mut_NegotiateLeaksLock = TRUE
SPECIFICATION Spec
INVARIANTS TypeOK NoPanic Outcome Reported LockReleased
PROPERTY Terminates
CHECK_DEADLOCK FALSE
