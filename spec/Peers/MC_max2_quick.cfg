CONSTANTS
  Max = 2
  NPeers = 3
  MaxCatches = 3
  Closers = {1, 2}
  AsIs_D8 = FALSE
  AsIs_D9 = FALSE
  Mut_CloseSkipsDeadStream = FALSE
SPECIFICATION Spec
INVARIANTS TypeOK Bound NoPanic AllClosedAfterEnd LockOK ChanOK NoStuckEnd
PROPERTIES PopNeverClosed NoCatchAfterEnd EndReturns
CHECK_DEADLOCK FALSE
