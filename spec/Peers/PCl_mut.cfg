CONSTANTS
  Closers = {1,2}
  Atomic = FALSE
SPECIFICATION Spec
INVARIANTS TypeOK CloseOnce
PROPERTIES AllReturn CleanedUp
CHECK_DEADLOCK FALSE
