CONSTANTS
  AsIs_D10 = FALSE
  Mut_NilFailedEvent = TRUE
  Mut_NegotiateLeaksLock = FALSE
SPECIFICATION Spec
INVARIANTS TypeOK NoPanic Outcome Reported
PROPERTY Terminates
CHECK_DEADLOCK FALSE
