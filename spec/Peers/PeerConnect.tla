---------------------------- MODULE PeerConnect ----------------------------
(* client/lib/webrtc.go NewWebRTCPeerWithEvents -> connect, with
   preparePeerConnection and rendezvous.go BrokerChannel.Negotiate: one
   attempt to obtain a peer (what Tongue.Catch does for the real dialer).

   A sequential machine
       prepare -> negotiate -> setRemote -> waitOpen -> done
   whose outcome at every step is decided by the class of the configuration /
   of the environment's answer:

   ice     how the ICE servers were configured (client -ice / ClientConfig.ICEAddresses)
             none          no server
             valid         one well-formed stun: URL (a responder exists)
             empty         one server whose URL is the empty string (what the
                           client binary passes when -ice is not given)
             garbage       one server whose URL does not parse as stun:/turn:
             turn_nocred   a turn: URL without credentials
   broker  what the rendezvous returns
             transport_error   the HTTP round trip fails
             non200            HTTP status other than 200
             errjson_noproxy   200, {"error":"no snowflake proxies currently available."}
             errjson_empty     200, {} (neither answer nor error)
             malformed         200, not JSON
             nonstring_type    200, answer whose "type" member is not a string
             nonstring_sdp     200, answer whose "sdp" member is not a string
             bad_sdp           200, well-formed answer whose SDP is not SDP
             good              200, a real answer from a real peer
   dc      what the remote peer does afterwards
             opens             the data channel opens
             never             it never opens (DataChannelTimeout expires)

   Contract (the property): every path ends in (peer, nil) or (nil, err) -
   never a panic - and the step that failed is reported to the event
   receiver: offer creation and broker rendezvous report their error, the
   data-channel timeout reports a connection failure.  (SetRemoteDescription
   failing is only logged by the code; the contract does not demand an event
   there: don't-care.)

   Events are CONSUMED, not only emitted: the client binary attaches
   ptEventLogger (client/snowflake.go) to the dispatcher, and that listener
   calls String() on every event synchronously, on the goroutine that
   emitted it (connect <- Collect <- connectLoop), without recover.  The
   machine therefore has a Consume step after every emission: an event that is
   not printable - an error-carrying failure event whose error is nil makes
   String() dereference nil - is a panic of the client process.  Event names:
   "offer:ok" "offer:err" "rendezvous:ok" "rendezvous:err" "connected"
   "failed" (EventOnSnowflakeConnectionFailed with its error) and
   "failed:nilerr" (the same event with a nil error; only emitted by the
   what-if constant Mut_NilFailedEvent, whose configuration must violate
   NoPanic - vacuity check of the Consume step).

   Deviation constant AsIs_D10: the pinned code calls
   c.pc.LocalDescription() before looking at the error of
   preparePeerConnection; when NewPeerConnection rejected the configuration
   c.pc is nil and the call panics.

   Cases are enumerated as initial states; the invariant Emit prints one JSON
   line per finished path with the outcome the contract demands; the Go
   driver runs the real code on a concretisation of every case. *)
EXTENDS Integers, Sequences, TLC, Json

CONSTANTS AsIs_D10, Mut_NilFailedEvent

IceClasses    == {"none", "valid", "empty", "garbage", "turn_nocred"}
BrokerClasses == {"transport_error", "non200", "errjson_noproxy", "errjson_empty", "malformed",
                  "nonstring_type", "nonstring_sdp", "bad_sdp", "good"}
DCClasses     == {"opens", "never"}

IceOK(i) == i \in {"none", "valid"}
NegotiateOK(b) == b \in {"bad_sdp", "good"}     \* Negotiate returns a session description
RemoteOK(b) == b = "good"                        \* SetRemoteDescription accepts it

VARIABLES ice, broker, dc,       \* the case; "-" = never looked at on this path
          pc, result, failstep, events,
          printed                \* number of events the listener has consumed (String() called)

vars == <<ice, broker, dc, pc, result, failstep, events, printed>>

(* the listener can print every event except a failure event without error *)
Printable(e) == e # "failed:nilerr"
(* OnNewSnowflakeEvent is synchronous: the machine moves on only when the
   listener has returned *)
Delivered == printed = Len(events)

Init ==
  /\ ice \in IceClasses
  /\ broker \in (IF IceOK(ice) THEN BrokerClasses ELSE {"-"})
  /\ dc \in (IF IceOK(ice) /\ broker = "good" THEN DCClasses ELSE {"-"})
  /\ pc = "prepare" /\ result = "none" /\ failstep = "none" /\ events = <<>> /\ printed = 0

Fail(step, ev) ==
  /\ result' = "err" /\ failstep' = step /\ pc' = "done"
  /\ events' = (IF ev = "" THEN events ELSE Append(events, ev))

Prepare ==
  /\ pc = "prepare" /\ Delivered
  /\ (IF IceOK(ice)
        THEN pc' = "negotiate" /\ events' = Append(events, "offer:ok") /\ UNCHANGED <<result, failstep>>
        ELSE (IF AsIs_D10
                THEN result' = "panic" /\ failstep' = "prepare" /\ pc' = "done" /\ events' = events
                ELSE Fail("prepare", "offer:err")))
  /\ UNCHANGED <<ice, broker, dc, printed>>

Negotiate ==
  /\ pc = "negotiate" /\ Delivered
  /\ (IF NegotiateOK(broker)
        THEN pc' = "setremote" /\ events' = Append(events, "rendezvous:ok") /\ UNCHANGED <<result, failstep>>
        ELSE Fail("negotiate", "rendezvous:err"))
  /\ UNCHANGED <<ice, broker, dc, printed>>

SetRemote ==
  /\ pc = "setremote" /\ Delivered
  /\ (IF RemoteOK(broker)
        THEN pc' = "waitopen" /\ UNCHANGED <<result, failstep, events>>
        ELSE Fail("setremote", ""))
  /\ UNCHANGED <<ice, broker, dc, printed>>

WaitOpen ==
  /\ pc = "waitopen" /\ Delivered
  /\ (IF dc = "opens"
        THEN result' = "peer" /\ pc' = "done" /\ events' = Append(events, "connected") /\ failstep' = failstep
        ELSE Fail("waitopen", IF Mut_NilFailedEvent THEN "failed:nilerr" ELSE "failed"))
  /\ UNCHANGED <<ice, broker, dc, printed>>

(* the listener consumes the next event: ptEventLogger calls e.String() *)
Consume ==
  /\ printed < Len(events) /\ result # "panic"
  /\ (IF Printable(events[printed + 1])
        THEN printed' = printed + 1 /\ UNCHANGED <<pc, result, failstep>>
        ELSE result' = "panic" /\ pc' = "done" /\ UNCHANGED <<printed, failstep>>)
  /\ UNCHANGED <<ice, broker, dc, events>>

Next == Prepare \/ Negotiate \/ SetRemote \/ WaitOpen \/ Consume

Spec == Init /\ [][Next]_vars /\ WF_vars(Next)

TypeOK ==
  /\ pc \in {"prepare", "negotiate", "setremote", "waitopen", "done"}
  /\ result \in {"none", "peer", "err", "panic"}

(* every path ends, and ends in (peer, nil) or (nil, err) *)
Finished == pc = "done" /\ (Delivered \/ result = "panic")
Terminates == <>Finished
NoPanic == result # "panic"
Outcome == Finished =>
  /\ result \in {"peer", "err"}
  /\ ((result = "peer") <=> (failstep = "none"))
  /\ ((result = "peer") <=> (IceOK(ice) /\ broker = "good" /\ dc = "opens"))
(* the failing step is reported (setRemote: don't-care) *)
Reported == (Finished /\ result = "err" /\ failstep # "setremote") =>
              events[Len(events)] \in {"offer:err", "rendezvous:err", "failed"}
(* every event of every path can be consumed by the client's listener *)
AllPrintable == \A i \in DOMAIN events : Printable(events[i])

Emit == Finished =>
  PrintT(ToJson([ice |-> ice, broker |-> broker, dc |-> dc,
                 expect |-> [result |-> result, failstep |-> failstep, events |-> events]]))
=============================================================================
