---------------------------- MODULE PeerConnect ----------------------------
(* client/lib/webrtc.go NewWebRTCPeerWithEvents -> connect, with
   preparePeerConnection and rendezvous.go BrokerChannel.Negotiate: one
   attempt to obtain a peer (what Tongue.Catch does for the real dialer).

   A sequential machine
       prepare -> negotiate -> setRemote -> waitOpen -> done
   whose outcome at every step is decided by the class of the configuration /
   of the environment's answer:

   ice     how the ICE servers were configured (client -ice / ClientConfig.ICEAddresses)
             none          no server
             valid         one well-formed stun: URL (a responder exists)
             empty         one server whose URL is the empty string (what the
                           client binary passes when -ice is not given)
             garbage       one server whose URL does not parse as stun:/turn:
             turn_nocred   a turn: URL without credentials
   broker  what the rendezvous returns
             transport_error   the HTTP round trip fails
             non200            HTTP status other than 200
             errjson_noproxy   200, {"error":"no snowflake proxies currently available."}
             errjson_empty     200, {} (neither answer nor error)
             malformed         200, not JSON
             nonstring_type    200, answer whose "type" member is not a string
             nonstring_sdp     200, answer whose "sdp" member is not a string
             bad_sdp           200, well-formed answer whose SDP is not SDP
             good              200, a real answer from a real peer
   dc      what the remote peer does afterwards
             opens             the data channel opens
             never             it never opens (DataChannelTimeout expires)

   Contract (the property): every path ends in (peer, nil) or (nil, err) -
   never a panic - and the step that failed is reported to the event
   receiver: offer creation and broker rendezvous report their error, the
   data-channel timeout reports a connection failure.  (SetRemoteDescription
   failing is only logged by the code; the contract does not demand an event
   there: don't-care.)

   Events are CONSUMED, not only emitted: the client binary attaches
   ptEventLogger (client/snowflake.go) to the dispatcher, and that listener
   calls String() on every event synchronously, on the goroutine that
   emitted it (connect <- Collect <- connectLoop), without recover.  The
   machine therefore has a Consume step after every emission: an event that is
   not printable - an error-carrying failure event whose error is nil makes
   String() dereference nil - is a panic of the client process.  Event names:
   "offer:ok" "offer:err" "rendezvous:ok" "rendezvous:err" "connected"
   "failed" (EventOnSnowflakeConnectionFailed with its error) and
   "failed:nilerr" (the same event with a nil error; only emitted by the
   what-if constant Mut_NilFailedEvent, whose configuration must violate
   NoPanic - vacuity check of the Consume step).

   The channel lock.  All attempts of one client go through ONE BrokerChannel
   (WebRTCDialer embeds it; connectLoop retries on it every ReconnectTimeout,
   every Dial of the Transport and SetNATType share it).  Negotiate takes
   bc.lock to read natType / BridgeFingerprint and encode the poll request, and
   must release it ON EVERY EXIT PATH - otherwise the failed attempt itself
   still looks fine (error returned, event reported) but the NEXT Negotiate
   parks in bc.lock.Lock() inside Collect, which holds collectLock, and
   End/Close never return.  The lock is a variable (chanLock), Negotiate is
   split into lock / encode-under-lock / exchange, every case is run for
   NAttempts consecutive attempts on the same channel, and LockReleased says
   that the lock is held only inside the encode step.  fp is the configured
   bridge fingerprint class ("" / valid 40-hex / invalid: odd length, non-hex,
   wrong length); the pinned code does not look at it client-side - an
   invalid one makes the broker refuse the poll (the driver's broker decodes
   the poll like the real one and answers 400), so such an attempt fails at
   negotiate with the error reported.  What-if constant Mut_NegotiateLeaksLock:
   a client-side fingerprint check under the lock that returns without
   unlocking; its configuration must violate LockReleased (and Terminates).
   Budget: a case whose data channel never opens is attempted once (each
   attempt costs DataChannelTimeout), every other case twice.

   Deviation constant AsIs_D10: the pinned code calls
   c.pc.LocalDescription() before looking at the error of
   preparePeerConnection; when NewPeerConnection rejected the configuration
   c.pc is nil and the call panics.

   Cases are enumerated as initial states; the invariant Emit prints one JSON
   line per finished path with the outcome the contract demands; the Go
   driver runs the real code on a concretisation of every case. *)
EXTENDS Integers, Sequences, TLC, Json

CONSTANTS AsIs_D10, Mut_NilFailedEvent, Mut_NegotiateLeaksLock

IceClasses    == {"none", "valid", "empty", "garbage", "turn_nocred"}
BrokerClasses == {"transport_error", "non200", "errjson_noproxy", "errjson_empty", "malformed",
                  "nonstring_type", "nonstring_sdp", "bad_sdp", "good"}
DCClasses     == {"opens", "never"}
FpClasses     == {"empty", "valid", "odd", "nonhex", "wronglen"}

IceOK(i) == i \in {"none", "valid"}
FpOK(f) == f \in {"empty", "valid"}
NegotiateOK(b, f) == b \in {"bad_sdp", "good"} /\ FpOK(f)   \* Negotiate returns a session description
RemoteOK(b) == b = "good"                        \* SetRemoteDescription accepts it

VARIABLES ice, broker, dc, fp,   \* the case; "-" = never looked at on this path
          pc, result, failstep, events,
          printed,               \* number of events the listener has consumed (String() called)
          chanLock,              \* BrokerChannel.lock: "free" | "held"
          attempt                \* 1..NAttempts, all on the same BrokerChannel

vars == <<ice, broker, dc, fp, pc, result, failstep, events, printed, chanLock, attempt>>

NAttempts == IF dc = "never" THEN 1 ELSE 2

(* the listener can print every event except a failure event without error *)
Printable(e) == e # "failed:nilerr"
(* OnNewSnowflakeEvent is synchronous: the machine moves on only when the
   listener has returned *)
Delivered == printed = Len(events)

Init ==
  /\ ice \in IceClasses
  /\ broker \in (IF IceOK(ice) THEN BrokerClasses ELSE {"-"})
  /\ fp \in (IF IceOK(ice) THEN FpClasses ELSE {"-"})
  /\ dc \in (IF IceOK(ice) /\ broker = "good" /\ FpOK(fp) THEN DCClasses ELSE {"-"})
  /\ pc = "prepare" /\ result = "none" /\ failstep = "none" /\ events = <<>> /\ printed = 0
  /\ chanLock = "free" /\ attempt = 1

UCase == UNCHANGED <<ice, broker, dc, fp, attempt>>

Fail(step, ev) ==
  /\ result' = "err" /\ failstep' = step /\ pc' = "done"
  /\ events' = (IF ev = "" THEN events ELSE Append(events, ev))

Prepare ==
  /\ pc = "prepare" /\ Delivered
  /\ (IF IceOK(ice)
        THEN pc' = "neg_lock" /\ events' = Append(events, "offer:ok") /\ UNCHANGED <<result, failstep>>
        ELSE (IF AsIs_D10
                THEN result' = "panic" /\ failstep' = "prepare" /\ pc' = "done" /\ events' = events
                ELSE Fail("prepare", "offer:err")))
  /\ UNCHANGED <<printed, chanLock>> /\ UCase

(* Negotiate, part 1: bc.lock.Lock() - parks while the lock is held *)
NegLock ==
  /\ pc = "neg_lock" /\ Delivered /\ chanLock = "free"
  /\ chanLock' = "held" /\ pc' = "neg_enc"
  /\ UNCHANGED <<result, failstep, events, printed>> /\ UCase

(* part 2: read natType / fingerprint, encode the poll request, Unlock.
   (Encoding cannot fail for these inputs.)  The what-if variant checks the
   fingerprint here and leaves through its error exit without unlocking. *)
NegEncode ==
  /\ pc = "neg_enc"
  /\ (IF Mut_NegotiateLeaksLock /\ ~FpOK(fp) /\ fp # "-"
        THEN Fail("negotiate", "rendezvous:err") /\ chanLock' = chanLock
        ELSE chanLock' = "free" /\ pc' = "neg_xchg" /\ UNCHANGED <<result, failstep, events>>)
  /\ UNCHANGED printed /\ UCase

(* part 3: the exchange with the broker and the decoding of its answer *)
NegExchange ==
  /\ pc = "neg_xchg"
  /\ (IF NegotiateOK(broker, fp)
        THEN pc' = "setremote" /\ events' = Append(events, "rendezvous:ok") /\ UNCHANGED <<result, failstep>>
        ELSE Fail("negotiate", "rendezvous:err"))
  /\ UNCHANGED <<printed, chanLock>> /\ UCase

SetRemote ==
  /\ pc = "setremote" /\ Delivered
  /\ (IF RemoteOK(broker)
        THEN pc' = "waitopen" /\ UNCHANGED <<result, failstep, events>>
        ELSE Fail("setremote", ""))
  /\ UNCHANGED <<printed, chanLock>> /\ UCase

WaitOpen ==
  /\ pc = "waitopen" /\ Delivered
  /\ (IF dc = "opens"
        THEN result' = "peer" /\ pc' = "done" /\ events' = Append(events, "connected") /\ failstep' = failstep
        ELSE Fail("waitopen", IF Mut_NilFailedEvent THEN "failed:nilerr" ELSE "failed"))
  /\ UNCHANGED <<printed, chanLock>> /\ UCase

(* the listener consumes the next event: ptEventLogger calls e.String() *)
Consume ==
  /\ printed < Len(events) /\ result # "panic"
  /\ (IF Printable(events[printed + 1])
        THEN printed' = printed + 1 /\ UNCHANGED <<pc, result, failstep>>
        ELSE result' = "panic" /\ pc' = "done" /\ UNCHANGED <<printed, failstep>>)
  /\ UNCHANGED <<events, chanLock>> /\ UCase

(* every path ends, and ends in (peer, nil) or (nil, err) *)
Finished == pc = "done" /\ (Delivered \/ result = "panic")

(* connectLoop's retry (or another Dial): the next attempt on the same channel *)
Again ==
  /\ Finished /\ result # "panic" /\ attempt < NAttempts
  /\ attempt' = attempt + 1
  /\ pc' = "prepare" /\ result' = "none" /\ failstep' = "none" /\ events' = <<>> /\ printed' = 0
  /\ UNCHANGED <<ice, broker, dc, fp, chanLock>>

Next == Prepare \/ NegLock \/ NegEncode \/ NegExchange \/ SetRemote \/ WaitOpen \/ Consume \/ Again

Spec == Init /\ [][Next]_vars /\ WF_vars(Next)

TypeOK ==
  /\ pc \in {"prepare", "neg_lock", "neg_enc", "neg_xchg", "setremote", "waitopen", "done"}
  /\ result \in {"none", "peer", "err", "panic"}
  /\ chanLock \in {"free", "held"} /\ attempt \in 1..2

AllDone == Finished /\ (attempt = NAttempts \/ result = "panic")
Terminates == <>AllDone
NoPanic == result # "panic"
(* Negotiate releases the channel lock on every exit path *)
LockReleased == (chanLock = "held") => (pc = "neg_enc")
Outcome == Finished =>
  /\ result \in {"peer", "err"}
  /\ ((result = "peer") <=> (failstep = "none"))
  /\ ((result = "peer") <=> (IceOK(ice) /\ broker = "good" /\ FpOK(fp) /\ dc = "opens"))
(* the failing step is reported (setRemote: don't-care) *)
Reported == (Finished /\ result = "err" /\ failstep # "setremote") =>
              events[Len(events)] \in {"offer:err", "rendezvous:err", "failed"}
(* every event of every path can be consumed by the client's listener *)
AllPrintable == \A i \in DOMAIN events : Printable(events[i])

Emit == Finished =>
  PrintT(ToJson([ice |-> ice, broker |-> broker, dc |-> dc, fp |-> fp, attempt |-> attempt, attempts |-> NAttempts,
                 expect |-> [result |-> result, failstep |-> failstep, events |-> events]]))
=============================================================================
