------------------------------- MODULE Peers -------------------------------
(* client/lib/peers.go (Peers: Collect / Pop / End / Count) together with the
   part of client/lib/snowflake.go that drives it (connectLoop,
   SnowflakeConn.Close -> End).

   One collector goroutine (connectLoop is the only caller of Collect), one
   popper goroutine (RedialPacketConn's dialLoop is the only caller of Pop),
   a set of closers (calls of End: SnowflakeConn.Close and the cleanup of a
   failed Dial; "Close twice" = two closers) and the environment: rendezvous
   attempts (Tongue.Catch) that end well or badly, peers closing on their own
   (staleness, remote close) and the decisions to call Collect/Pop/End.

   The grain is the code's: one action per critical-section step, channel
   operation or lock operation, read line by line from peers.go:

     Collect:  Lock | select melt | Count (purge + compare) | Tongue.Catch
               (start, then OK or error) | PushBack | chan send | Unlock
     Pop:      chan receive | Closed() test -> skip or return
     End:      close(melt) | Lock | close(chan) | Count + Close all | Unlock

   Deviation constants (DESIGN 2.4): the pinned code differed from the
   intended behaviour in two places; TRUE reproduces the pinned code.
     AsIs_D8  End closes `melt` (and the hand-over channel) unconditionally:
              a second End panics ("close of closed channel").  Repaired:
              the whole body of End runs under a sync.Once; a second caller
              waits for the first to finish and returns.
     AsIs_D9  Collect's send into the hand-over channel is a plain send: with
              the channel full of stale (closed) peers it blocks while holding
              collectLock, so End never gets the lock.  Repaired: the send is
              a select on `melt`; on melt Collect closes the caught peer and
              returns the "melted" error.

   The connection above (snowflake.go SnowflakeConn.Close): a closer is a call
   of SnowflakeConn.Close = Stream.Close(); snowflakes.End(); pconn.Close();
   sess.Close().  The reliability layer may die BY ITSELF before the
   application's first Close (environment action SessionDies: smux keep-alive
   timeout after 10 min without inbound data - exactly when no proxy works -
   or the packet conn failing): every stream is then dead and Stream.Close()
   returns io.ErrClosedPipe, exactly as it does for a repeated Close.  The
   obligations after Close returns are the same in both cases (melted, every
   held peer closed, no further Catch; Close idempotent), so Close must not
   take "stream already dead" for "already closed by me".  Stream.Close()
   touches nothing of Peers, so it is merged into the step that makes the call
   (EStart); pconn.Close()/sess.Close() likewise into the returning step.
   What-if constant Mut_CloseSkipsDeadStream (FALSE = the code): Close returns
   early when the stream is already dead; its configuration must violate
   AllClosedAfterEnd (vacuity check of SessionDies).

   Don't-care regions (the property does not speak about them):
   * which error text Collect returns (only its class: melted / capacity /
     catch error / ok);
   * whether Pop returns a peer that closes right after the Closed() test
     (the test and the return are one step here; the property only forbids
     handing out a peer that is ALREADY closed);
   * the order in which End closes the peers (one step);
   * how long a rendezvous attempt takes (CCatchOK/CCatchErr are environment
     steps; End may wait for the one in flight). *)
EXTENDS Integers, Sequences, FiniteSets, TLC

CONSTANTS
  Max,         \* Tongue.GetMax(): capacity of the hand-over channel and bound on live peers
  NPeers,      \* number of peers the environment can ever deliver (bounds the model)
  MaxCatches,  \* bound on the number of rendezvous attempts (guard of LoopWait)
  Closers,     \* identities of the End calls, e.g. {1, 2}
  AsIs_D8,     \* BOOLEAN, see above
  AsIs_D9,     \* BOOLEAN, see above
  Mut_CloseSkipsDeadStream   \* BOOLEAN what-if, see above (FALSE = the code)

ASSUME Max \in Nat \ {0} /\ NPeers \in Nat /\ MaxCatches \in Nat
ASSUME AsIs_D8 \in BOOLEAN /\ AsIs_D9 \in BOOLEAN /\ Mut_CloseSkipsDeadStream \in BOOLEAN
ASSUME Closers \subseteq Nat \ {0}

VARIABLES
  chan,        \* snowflakeChan: sequence of peer ids, Len <= Max
  chanClosed,  \* close(snowflakeChan) has happened
  active,      \* activePeers: set of peer ids (order is irrelevant to every reader)
  closedPeers, \* peers whose `closed` channel is closed
  melted,      \* close(melt) has happened
  lockHolder,  \* collectLock: 0 = free, -1 = the collector, i \in Closers
  cpc, cres, cur,   \* collector: pc, class of the last Collect result, peer in hand
  nextPeer,    \* next fresh peer id (peers 1..nextPeer-1 have been caught)
  catches,     \* number of Tongue.Catch calls started
  ppc, preg, pres, inUse,   \* popper: pc, peer just received, last result (-1 none yet, 0 nil), peer handed out last
  epc,         \* closers: pc of every End call
  panicked,    \* some goroutine panicked
  streamDead   \* the smux stream is dead: the session died by itself, or a Close call closed it

vars == <<chan, chanClosed, active, closedPeers, melted, lockHolder, cpc, cres, cur,
          nextPeer, catches, ppc, preg, pres, inUse, epc, panicked, streamDead>>

Caught == 1..(nextPeer - 1)
Held   == Caught \ closedPeers              \* live peers the client holds
Live(S) == S \ closedPeers

CPcs == {"idle", "wantlock", "locked", "count", "catchstart", "catching", "push", "send", "unlock", "stopped"}
PPcs == {"idle", "recv", "check"}
EPcs == {"idle", "melt", "wantlock", "closechan", "closeall", "unlock", "waitonce", "done", "panicked"}
CRes == {"none", "ok", "melted", "capacity", "err"}

TypeOK ==
  /\ chan \in Seq(1..NPeers) /\ Len(chan) <= Max
  /\ chanClosed \in BOOLEAN /\ melted \in BOOLEAN /\ panicked \in BOOLEAN
  /\ active \subseteq 1..NPeers /\ closedPeers \subseteq 1..NPeers
  /\ lockHolder \in {0, -1} \cup Closers
  /\ cpc \in CPcs /\ cres \in CRes /\ cur \in 0..NPeers
  /\ nextPeer \in 1..(NPeers + 1) /\ catches \in 0..MaxCatches
  /\ ppc \in PPcs /\ preg \in 0..NPeers /\ pres \in -1..NPeers /\ inUse \in 0..NPeers
  /\ epc \in [Closers -> EPcs]
  /\ streamDead \in BOOLEAN

Init ==
  /\ chan = <<>> /\ chanClosed = FALSE /\ active = {} /\ closedPeers = {}
  /\ melted = FALSE /\ lockHolder = 0
  /\ cpc = "idle" /\ cres = "none" /\ cur = 0 /\ nextPeer = 1 /\ catches = 0
  /\ ppc = "idle" /\ preg = 0 /\ pres = -1 /\ inUse = 0
  /\ epc = [i \in Closers |-> "idle"]
  /\ panicked = FALSE
  /\ streamDead = FALSE

-----------------------------------------------------------------------------
(* Collector: connectLoop + Collect *)

UC == UNCHANGED <<ppc, preg, pres, inUse, epc, panicked, streamDead>>   \* collector steps leave popper/closers alone

(* connectLoop: the timer branch of its select (or the first iteration):
   call Collect again.  Environment step (time passing); the select may take
   it even when melt is closed, because both cases can be ready. *)
LoopWait ==
  /\ cpc = "idle" /\ catches < MaxCatches
  /\ cpc' = "wantlock"
  /\ UNCHANGED <<chan, chanClosed, active, closedPeers, melted, lockHolder, cres, cur, nextPeer, catches>> /\ UC

(* connectLoop: the Melted() branch: the loop ends for good. *)
LoopStop ==
  /\ cpc = "idle" /\ melted
  /\ cpc' = "stopped"
  /\ UNCHANGED <<chan, chanClosed, active, closedPeers, melted, lockHolder, cres, cur, nextPeer, catches>> /\ UC

CLock ==
  /\ cpc = "wantlock" /\ lockHolder = 0
  /\ lockHolder' = -1 /\ cpc' = "locked"
  /\ UNCHANGED <<chan, chanClosed, active, closedPeers, melted, cres, cur, nextPeer, catches>> /\ UC

CCheckMelt ==
  /\ cpc = "locked"
  /\ (IF melted THEN cres' = "melted" /\ cpc' = "unlock" ELSE cres' = cres /\ cpc' = "count")
  /\ UNCHANGED <<chan, chanClosed, active, closedPeers, melted, lockHolder, cur, nextPeer, catches>> /\ UC

(* Count(): purge the closed peers from the active list, compare with capacity. *)
CCount ==
  /\ cpc = "count"
  /\ active' = Live(active)
  /\ (IF Cardinality(Live(active)) >= Max THEN cres' = "capacity" /\ cpc' = "unlock"
                                          ELSE cres' = cres /\ cpc' = "catchstart")
  /\ UNCHANGED <<chan, chanClosed, closedPeers, melted, lockHolder, cur, nextPeer, catches>> /\ UC

CCatchStart ==
  /\ cpc = "catchstart"
  /\ catches' = catches + 1 /\ cpc' = "catching"
  /\ UNCHANGED <<chan, chanClosed, active, closedPeers, melted, lockHolder, cres, cur, nextPeer>> /\ UC

(* The rendezvous attempt ends: environment decides how, but it does end. *)
CCatchOK ==
  /\ cpc = "catching" /\ nextPeer <= NPeers
  /\ cur' = nextPeer /\ nextPeer' = nextPeer + 1 /\ cpc' = "push"
  /\ UNCHANGED <<chan, chanClosed, active, closedPeers, melted, lockHolder, cres, catches>> /\ UC

CCatchErr ==
  /\ cpc = "catching"
  /\ cres' = "err" /\ cpc' = "unlock"
  /\ UNCHANGED <<chan, chanClosed, active, closedPeers, melted, lockHolder, cur, nextPeer, catches>> /\ UC

CPush ==
  /\ cpc = "push"
  /\ active' = active \cup {cur} /\ cpc' = "send"
  /\ UNCHANGED <<chan, chanClosed, closedPeers, melted, lockHolder, cres, cur, nextPeer, catches>> /\ UC

(* p.snowflakeChan <- connection: possible only while the buffer has room.
   (The channel cannot be closed here: End closes it under collectLock.) *)
CSend ==
  /\ cpc = "send" /\ Len(chan) < Max /\ ~chanClosed
  /\ chan' = Append(chan, cur) /\ cres' = "ok" /\ cpc' = "unlock"
  /\ UNCHANGED <<chanClosed, active, closedPeers, melted, lockHolder, cur, nextPeer, catches>> /\ UC

(* Repaired code only: the other case of the select. *)
CSendMelted ==
  /\ ~AsIs_D9
  /\ cpc = "send" /\ melted
  /\ closedPeers' = closedPeers \cup {cur} /\ cres' = "melted" /\ cpc' = "unlock"
  /\ UNCHANGED <<chan, chanClosed, active, melted, lockHolder, cur, nextPeer, catches>> /\ UC

CUnlock ==
  /\ cpc = "unlock"
  /\ lockHolder' = 0 /\ cpc' = "idle"
  /\ UNCHANGED <<chan, chanClosed, active, closedPeers, melted, cres, cur, nextPeer, catches>> /\ UC

-----------------------------------------------------------------------------
(* Popper: Pop *)

UP == UNCHANGED <<chanClosed, active, melted, lockHolder, cpc, cres, cur, nextPeer, catches, epc, panicked, streamDead>>

PopCall ==
  /\ ppc = "idle"
  /\ ppc' = "recv"
  /\ UNCHANGED <<chan, closedPeers, preg, pres, inUse>> /\ UP

(* A closed Go channel still delivers what is buffered. *)
PopRecv ==
  /\ ppc = "recv" /\ Len(chan) > 0
  /\ preg' = Head(chan) /\ chan' = Tail(chan) /\ ppc' = "check"
  /\ UNCHANGED <<closedPeers, pres, inUse>> /\ UP

PopRecvClosed ==
  /\ ppc = "recv" /\ Len(chan) = 0 /\ chanClosed
  /\ pres' = 0 /\ ppc' = "idle"
  /\ UNCHANGED <<chan, closedPeers, preg, inUse>> /\ UP

PopSkipClosed ==
  /\ ppc = "check" /\ preg \in closedPeers
  /\ ppc' = "recv"
  /\ UNCHANGED <<chan, closedPeers, preg, pres, inUse>> /\ UP

PopReturn ==
  /\ ppc = "check" /\ preg \notin closedPeers
  /\ inUse' = preg /\ pres' = preg /\ ppc' = "idle"
  /\ UNCHANGED <<chan, closedPeers, preg>> /\ UP

-----------------------------------------------------------------------------
(* Environment: a live peer closes on its own (staleness, remote close, the
   data path giving it up). *)
PeerCloses(k) ==
  /\ k \in Held
  /\ closedPeers' = closedPeers \cup {k}
  /\ UNCHANGED <<chan, chanClosed, active, melted, lockHolder, cpc, cres, cur, nextPeer, catches,
                 ppc, preg, pres, inUse, epc, panicked, streamDead>>

(* Environment: the reliability layer above closes itself (smux keep-alive
   timeout, packet conn failure): the stream is dead before the application
   has called Close.  Nothing of Peers changes. *)
SessionDies ==
  /\ ~streamDead
  /\ streamDead' = TRUE
  /\ UNCHANGED <<chan, chanClosed, active, closedPeers, melted, lockHolder, cpc, cres, cur, nextPeer, catches,
                 ppc, preg, pres, inUse, epc, panicked>>

-----------------------------------------------------------------------------
(* Closers: End *)

UE == UNCHANGED <<cpc, cres, cur, nextPeer, catches, ppc, preg, pres, inUse>>
UES == UE /\ UNCHANGED streamDead
Set(i, pc) == epc' = [epc EXCEPT ![i] = pc]

(* the call, with Stream.Close() (see the head comment) *)
EStart(i) ==
  /\ epc[i] = "idle"
  /\ (IF Mut_CloseSkipsDeadStream /\ streamDead THEN Set(i, "done") ELSE Set(i, "melt"))
  /\ streamDead' = TRUE
  /\ UNCHANGED <<chan, chanClosed, active, closedPeers, melted, lockHolder, panicked>> /\ UE

(* Pinned code: close(p.melt) whatever its state.
   Repaired code: sync.Once - the first caller runs the body, a later caller
   waits until the body has finished. *)
EMelt(i) ==
  /\ epc[i] = "melt"
  /\ (IF melted
        THEN (IF AsIs_D8 THEN panicked' = TRUE /\ Set(i, "panicked")
                         ELSE panicked' = panicked /\ Set(i, "waitonce")) /\ melted' = melted
        ELSE melted' = TRUE /\ panicked' = panicked /\ Set(i, "wantlock"))
  /\ UNCHANGED <<chan, chanClosed, active, closedPeers, lockHolder>> /\ UES

EWaitOnce(i) ==
  /\ epc[i] = "waitonce" /\ (\E j \in Closers : epc[j] = "done")
  /\ Set(i, "done")
  /\ UNCHANGED <<chan, chanClosed, active, closedPeers, melted, lockHolder, panicked>> /\ UES

ELock(i) ==
  /\ epc[i] = "wantlock" /\ lockHolder = 0
  /\ lockHolder' = i /\ Set(i, "closechan")
  /\ UNCHANGED <<chan, chanClosed, active, closedPeers, melted, panicked>> /\ UES

(* close(p.snowflakeChan); a second close panics and the deferred Unlock runs.
   (Unreachable in both variants - the second End never gets this far - but
   modelled because the code is written that way.) *)
ECloseChan(i) ==
  /\ epc[i] = "closechan"
  /\ (IF chanClosed
        THEN panicked' = TRUE /\ Set(i, "panicked") /\ lockHolder' = 0 /\ chanClosed' = chanClosed
        ELSE chanClosed' = TRUE /\ Set(i, "closeall") /\ UNCHANGED <<panicked, lockHolder>>)
  /\ UNCHANGED <<chan, active, closedPeers, melted>> /\ UES

(* Count() then Close + Remove of every element. *)
ECloseAll(i) ==
  /\ epc[i] = "closeall"
  /\ closedPeers' = closedPeers \cup active /\ active' = {}
  /\ Set(i, "unlock")
  /\ UNCHANGED <<chan, chanClosed, melted, lockHolder, panicked>> /\ UES

EUnlock(i) ==
  /\ epc[i] = "unlock"
  /\ lockHolder' = 0 /\ Set(i, "done")
  /\ UNCHANGED <<chan, chanClosed, active, closedPeers, melted, panicked>> /\ UES

-----------------------------------------------------------------------------
CollectorCode == CLock \/ CCheckMelt \/ CCount \/ CCatchStart \/ CPush \/ CSend \/ CSendMelted \/ CUnlock
PopperCode    == PopRecv \/ PopRecvClosed \/ PopSkipClosed \/ PopReturn
CloserCode(i) == EMelt(i) \/ EWaitOnce(i) \/ ELock(i) \/ ECloseChan(i) \/ ECloseAll(i) \/ EUnlock(i)

(* Steps a goroutine takes by itself once it has been started. *)
CodeNext == CollectorCode \/ PopperCode \/ (\E i \in Closers : CloserCode(i))

(* Decisions of the environment / of the callers. *)
EnvNext ==
  \/ LoopWait \/ LoopStop \/ CCatchOK \/ CCatchErr \/ PopCall
  \/ (\E i \in Closers : EStart(i))
  \/ (\E k \in 1..NPeers : PeerCloses(k))
  \/ SessionDies

Next == CodeNext \/ EnvNext

(* Fairness: every step of Collect and of End is taken when it stays enabled
   (one WF per step, DESIGN 2.3); a rendezvous attempt in flight ends somehow;
   sync.Mutex does not starve a waiter (Go >= 1.9 starvation mode), hence SF
   for the two lock acquisitions.  NO fairness for Pop, for peers closing, for
   further Collect/End calls: End may wait for one attempt in flight and for
   nothing else. *)
Fairness ==
  /\ SF_vars(CLock) /\ WF_vars(CCheckMelt) /\ WF_vars(CCount) /\ WF_vars(CCatchStart)
  /\ WF_vars(CPush) /\ WF_vars(CSend) /\ WF_vars(CSendMelted) /\ WF_vars(CUnlock)
  /\ WF_vars(CCatchOK \/ CCatchErr)
  /\ \A i \in Closers :
       /\ WF_vars(EMelt(i)) /\ WF_vars(EWaitOnce(i)) /\ SF_vars(ELock(i))
       /\ WF_vars(ECloseChan(i)) /\ WF_vars(ECloseAll(i)) /\ WF_vars(EUnlock(i))

Spec == Init /\ [][Next]_vars /\ Fairness

(* Generation grain (replay): the harness issues a command only when every
   goroutine it started has come to rest, so environment steps are taken in
   quiescent states only.  Every behaviour of GenSpec is a behaviour of Spec. *)
Quiescent == ~ENABLED CodeNext
GLoopWait     == Quiescent /\ LoopWait
GCatchOK      == Quiescent /\ CCatchOK
GCatchErr     == Quiescent /\ CCatchErr
GPopCall      == Quiescent /\ PopCall
GEStart(i)    == Quiescent /\ EStart(i)
GPeerCloses(k) == Quiescent /\ PeerCloses(k)
(* written as one flat disjunction so that TLC labels every edge of the dumped
   state graph with the action (and its argument) that produced it *)
GenNext ==
  \/ CLock \/ CCheckMelt \/ CCount \/ CCatchStart \/ CPush \/ CSend \/ CSendMelted \/ CUnlock
  \/ PopRecv \/ PopRecvClosed \/ PopSkipClosed \/ PopReturn
  \/ (\E i \in Closers : EMelt(i) \/ EWaitOnce(i) \/ ELock(i) \/ ECloseChan(i) \/ ECloseAll(i) \/ EUnlock(i))
  \/ GLoopWait \/ GCatchOK \/ GCatchErr \/ GPopCall
  \/ (\E i \in Closers : GEStart(i))
  \/ (\E k \in 1..NPeers : GPeerCloses(k))
GenSpec == Init /\ [][GenNext]_vars

-----------------------------------------------------------------------------
(* Properties *)

(* never more than Max live peers: in the active list, and in total (a caught
   peer that has not been pushed yet counts too) *)
Bound == Cardinality(Live(active)) <= Max /\ Cardinality(Held) <= Max

NoPanic == ~panicked

(* Pop never hands out a peer that is already closed. *)
PopNeverClosed == [][\A k \in 1..NPeers : (pres' = k /\ ppc = "check" /\ ppc' = "idle") => k \notin closedPeers]_vars

EndDone == \E i \in Closers : epc[i] = "done"

(* when an End call has returned, every peer ever caught is closed, the
   hand-over channel is closed and the melt signal is set *)
AllClosedAfterEnd == EndDone => (Caught \subseteq closedPeers /\ chanClosed /\ melted /\ active = {})

(* once an End call has returned no rendezvous attempt is started *)
NoCatchAfterEnd == [][EndDone => catches' = catches]_vars

(* an End call that started eventually returns *)
EndReturns == \A i \in Closers : (epc[i] = "melt") ~> (epc[i] = "done")

(* the safety shadow of EndReturns: a state in which every goroutine is parked
   and no rendezvous attempt is in flight has no End call pending - what is
   pending there could only be released by an (unfair) environment step.  This
   is what the replay harness observes at its final observation. *)
NoStuckEnd == (Quiescent /\ cpc # "catching") => \A i \in Closers : epc[i] \in {"idle", "done", "panicked"}

(* sanity of the lock model *)
LockOK ==
  /\ (lockHolder = -1) <=> (cpc \in {"locked", "count", "catchstart", "catching", "push", "send", "unlock"})
  /\ \A i \in Closers : (lockHolder = i) <=> (epc[i] \in {"closechan", "closeall", "unlock"})

(* a peer is sent to the hand-over channel at most once and only after being counted *)
ChanOK == \A j \in 1..Len(chan) : chan[j] \in Caught /\ (\A j2 \in 1..Len(chan) : chan[j2] = chan[j] => j2 = j)
=============================================================================
