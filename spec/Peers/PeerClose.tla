----------------------------- MODULE PeerClose -----------------------------
(* client/lib/webrtc.go WebRTCPeer.Close, Closed and cleanup.

   A peer is closed by whoever notices first, and several notice at once:
   Peers.End (the user's SnowflakeConn.Close) closes every peer it holds;
   the peer closes itself from the data channel's OnClose callback (pion's
   goroutine), from checkForStaleness (its own goroutine), and the data path
   closes the peer it was using (RedialPacketConn's goroutine).  None of
   these goroutines recovers, so a panic in Close ends the client process -
   the last sentence of C15 - and a panic inside Peers.end also leaves the
   remaining peers open.

   Close at the grain of its statements, for a set of concurrent closers:

     pinned code (Atomic = TRUE):   c.once.Do(func() { close(c.closed); c.cleanup() })
        Enter    sync.Once: the first caller is chosen atomically; a later
                 caller waits until the first has finished, then returns
        Mark     close(c.closed)
        Cleanup  c.cleanup(): pipe, data channel, PeerConnection
     what-if (Atomic = FALSE):      if c.Closed() { return nil }; close(c.closed); c.cleanup()
        Check    read the closed flag: set -> return at once, clear -> go on
        Mark     close(c.closed): panics when it is closed already
        Cleanup

   CloseOnce: no panic; the closed channel is closed once; cleanup runs
   exactly once, however many closers there are; when a Close call has
   returned, Closed() is true.  (Under sync.Once a returned call also means
   the cleanup is complete; the property does not need that.)
   TLC shows that the atomic version satisfies CloseOnce for 2 and 3 closers
   and that the check-then-act version violates it (PCl_mut.cfg must fail).

   The terminal observation (what the concurrent driver compares with) is
   printed by Emit: closers returned, panics, cleanups, closed. *)
EXTENDS Integers, FiniteSets, TLC, Json

CONSTANTS Closers,   \* e.g. {1, 2}
          Atomic     \* TRUE = sync.Once (the code), FALSE = check-then-act (what-if)

VARIABLES pc,        \* per closer: "idle" "enter" "mark" "cleanup" "wait" "done" "panicked"
          closed,    \* close(c.closed) has happened
          cleanups,  \* how many times cleanup ran
          onceOwner, \* sync.Once: 0 = nobody yet, else the closer running the body
          onceDone,  \* sync.Once: the body has finished
          panics

vars == <<pc, closed, cleanups, onceOwner, onceDone, panics>>

Init ==
  /\ pc = [i \in Closers |-> "idle"]
  /\ closed = FALSE /\ cleanups = 0 /\ onceOwner = 0 /\ onceDone = FALSE /\ panics = 0

Set(i, v) == pc' = [pc EXCEPT ![i] = v]

(* a closer arrives: End's loop, OnClose, staleness, the data path *)
Call(i) == pc[i] = "idle" /\ Set(i, "enter") /\ UNCHANGED <<closed, cleanups, onceOwner, onceDone, panics>>

Enter(i) ==
  /\ pc[i] = "enter"
  /\ (IF Atomic
        THEN (IF onceOwner = 0 THEN onceOwner' = i /\ Set(i, "mark") ELSE onceOwner' = onceOwner /\ Set(i, "wait"))
        ELSE onceOwner' = onceOwner /\ (IF closed THEN Set(i, "done") ELSE Set(i, "mark")))   \* Check
  /\ UNCHANGED <<closed, cleanups, onceDone, panics>>

Mark(i) ==
  /\ pc[i] = "mark"
  /\ (IF closed THEN panics' = panics + 1 /\ Set(i, "panicked") /\ closed' = closed      \* close of closed channel
                ELSE closed' = TRUE /\ Set(i, "cleanup") /\ panics' = panics)
  /\ UNCHANGED <<cleanups, onceOwner, onceDone>>

Cleanup(i) ==
  /\ pc[i] = "cleanup"
  /\ cleanups' = cleanups + 1 /\ Set(i, "done")
  /\ onceDone' = (IF Atomic THEN TRUE ELSE onceDone)
  /\ UNCHANGED <<closed, onceOwner, panics>>

Wait(i) ==
  /\ pc[i] = "wait" /\ onceDone
  /\ Set(i, "done")
  /\ UNCHANGED <<closed, cleanups, onceOwner, onceDone, panics>>

Next == \E i \in Closers : Call(i) \/ Enter(i) \/ Mark(i) \/ Cleanup(i) \/ Wait(i)

Spec == Init /\ [][Next]_vars /\ \A i \in Closers : WF_vars(Enter(i) \/ Mark(i) \/ Cleanup(i) \/ Wait(i))

TypeOK == pc \in [Closers -> {"idle", "enter", "mark", "cleanup", "wait", "done", "panicked"}] /\ cleanups \in 0..Cardinality(Closers)

NoPanic == panics = 0
AtMostOneCleanup == cleanups <= 1
ClosedWhenReturned == (\E i \in Closers : pc[i] = "done") => closed
CloseOnce == NoPanic /\ AtMostOneCleanup /\ ClosedWhenReturned
(* every call returns, and then cleanup has run exactly once *)
AllReturn == \A i \in Closers : (pc[i] = "enter") ~> (pc[i] = "done")
CleanedUp == [](((\A i \in Closers : pc[i] \in {"done", "panicked"})) => cleanups = 1)

Terminal == \A i \in Closers : pc[i] \in {"done", "panicked"}
Emit == Terminal =>
  PrintT(ToJson([closers |-> Cardinality(Closers), returned |-> Cardinality({i \in Closers : pc[i] = "done"}),
                 panics |-> panics, cleanups |-> cleanups, closed |-> closed]))
=============================================================================
