---------------------------- MODULE Peers_Trace ----------------------------
(* Trace specification for Peers (DESIGN 2.2 item 4).

   traces.ndjson holds one JSON object per line: a trace recorded by
   harness/inpkg/client_lib/peers_verif_test.go from the REAL Peers,
       {"id": n, "max": Max, "events": [e1, e2, ...]}
   All traces of one file were recorded with the same Max (= the constant).
   Events are the commands the harness issued (StartCollect, Catch, StartPop,
   StartEnd, PeerClose), each followed by an observation "obs" taken once all
   operation goroutines had come to rest, and a last observation "final"
   taken after the one rendezvous attempt in flight (if any) was made to end.

   Every trace is a separate initial state (variable tr); TLC searches, for
   each of them, a behaviour of Peers that explains it:
     * a command event is the corresponding environment action of Peers;
     * between a command and the next observation the goroutines take any
       number of code steps (TSilent);
     * an observation is explained by a state that (a) agrees with everything
       that was observed - queue length, active list, closed set, number of
       peers made, number of Catch calls, melt flag, where each operation is
       parked or what it returned - and (b) is quiescent in the model too
       (no code step enabled): the real goroutines were all parked, so a model
       in which one of them could still move does not explain the observation;
     * "final" additionally requires that no End call is pending: what is
       still pending there waits for something other than the one rendezvous
       attempt in flight (the real-code counterpart of EndReturns: a quiescent
       state in which only unfair environment steps are enabled).
   Acceptance: the high-water mark of l per trace (TLCSet/TLCGet register tr,
   -workers 1) must reach Len(events)+1; the POSTCONDITION computes the set
   of rejected traces and prints it as JSON (trace id, index of the first
   unexplained event); it is always TRUE itself so that one TLC run judges
   all traces and the check reads the verdict from the printed line.  The
   property invariants are checked on every explored state. *)
EXTENDS Peers, Json, TLCExt

VARIABLES tr, l

tvars == <<vars, tr, l>>

SeqToSet(s) == {s[i] : i \in DOMAIN s}

Traces == ndJsonDeserialize("traces.ndjson")
NT == Len(Traces)
Events(t) == Traces[t].events

TInit ==
  /\ tr \in 1..NT
  /\ l = 1
  /\ Init
  /\ TLCSet(tr, 1)

HasNext == l <= Len(Events(tr))
E == Events(tr)[l]
IsEv(n) == HasNext /\ E.ev = n
Adv == l' = l + 1 /\ tr' = tr

TStartCollect == IsEv("StartCollect") /\ LoopWait /\ Adv
TCatchOK      == IsEv("Catch") /\ E.ok /\ CCatchOK /\ cur' = E.k /\ Adv
TCatchErr     == IsEv("Catch") /\ ~E.ok /\ CCatchErr /\ Adv
TStartPop     == IsEv("StartPop") /\ PopCall /\ Adv
TStartEnd     == IsEv("StartEnd") /\ E.c \in Closers /\ EStart(E.c) /\ Adv
TPeerClose    == IsEv("PeerClose") /\ E.k \in 1..NPeers /\ PeerCloses(E.k) /\ Adv

IsObs == HasNext /\ E.ev \in {"obs", "final"}

TSilent == IsObs /\ CodeNext /\ UNCHANGED <<tr, l>>

ColMatch(o) ==
  \/ o.st = "idle"  /\ cpc = "idle" /\ cres = o.res
  \/ o.st = "lock"  /\ cpc = "wantlock"
  \/ o.st = "catch" /\ cpc = "catching"
  \/ o.st = "send"  /\ cpc = "send"

PopMatch(o) ==
  \/ o.st = "idle" /\ ppc = "idle" /\ pres = o.k
  \/ o.st = "recv" /\ ppc = "recv"

EndMatch(i, o) ==
  \/ o.st = "idle"  /\ epc[i] = "idle"
  \/ o.st = "lock"  /\ epc[i] = "wantlock"
  \/ o.st = "once"  /\ epc[i] = "waitonce"
  \/ o.st = "done"  /\ epc[i] = "done"
  \/ o.st = "panic" /\ epc[i] = "panicked"

ObsMatch(o) ==
  /\ Len(chan) = o.chanlen
  /\ Live(active) = SeqToSet(o.active) \ SeqToSet(o.closed)   \* closed members awaiting the purge: don't-care
  /\ closedPeers = SeqToSet(o.closed)
  /\ nextPeer - 1 = o.created
  /\ catches = o.catches
  /\ melted = o.melted
  /\ ColMatch(o.col)
  /\ PopMatch(o.pop)
  /\ \A i \in Closers : EndMatch(i, o.ends[i])

EndPending == \E i \in Closers : epc[i] \notin {"idle", "done", "panicked"}

TObs ==
  /\ IsObs
  /\ Quiescent
  /\ ObsMatch(E)
  /\ (E.ev = "final" => ~EndPending)
  /\ UNCHANGED vars /\ Adv

TNext == TStartCollect \/ TCatchOK \/ TCatchErr \/ TStartPop \/ TStartEnd \/ TPeerClose \/ TSilent \/ TObs

TSpec == TInit /\ [][TNext]_tvars

(* CONSTRAINT: side effect only - remember how far each trace was explained *)
Mark == (IF l > TLCGet(tr) THEN TLCSet(tr, l) ELSE TRUE)

Rejected == {t \in 1..NT : TLCGet(t) # Len(Events(t)) + 1}

Post ==
  PrintT(ToJson([nt |-> NT, rejected |-> {<<Traces[t].id, TLCGet(t)>> : t \in Rejected}]))

(* the explained behaviour is a behaviour of Peers step by step, so Peers'
   action properties hold on it by construction of the actions; the state
   invariants are re-checked here because the trace bounds (NPeers,
   MaxCatches) are larger than the model-checked ones *)
TBound == Bound
TNoPanic == NoPanic
TAllClosedAfterEnd == AllClosedAfterEnd
=============================================================================
