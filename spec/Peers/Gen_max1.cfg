CONSTANTS
  Max = 1
  NPeers = 2
  MaxCatches = 3
  Closers = {1, 2}
  AsIs_D8 = FALSE
  AsIs_D9 = FALSE
  Mut_CloseSkipsDeadStream = FALSE
SPECIFICATION GenSpec
INVARIANTS TypeOK Bound AllClosedAfterEnd NoStuckEnd
CHECK_DEADLOCK FALSE
