CONSTANTS
  Max = 2
  NPeers = 8
  MaxCatches = 60
  Closers = {1, 2}
  AsIs_D8 = TRUE
  AsIs_D9 = TRUE
  Mut_CloseSkipsDeadStream = FALSE
SPECIFICATION TSpec
CONSTRAINT Mark
POSTCONDITION Post
INVARIANTS TBound
CHECK_DEADLOCK FALSE
