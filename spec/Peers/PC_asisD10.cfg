CONSTANTS
  AsIs_D10 = TRUE
  Mut_NilFailedEvent = FALSE
  Mut_NegotiateLeaksLock = FALSE
SPECIFICATION Spec
INVARIANTS TypeOK NoPanic Outcome Reported AllPrintable
PROPERTY Terminates
CHECK_DEADLOCK FALSE
