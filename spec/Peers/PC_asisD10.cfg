CONSTANTS
  AsIs_D10 = TRUE
SPECIFICATION Spec
INVARIANTS TypeOK NoPanic Outcome Reported
PROPERTY Terminates
CHECK_DEADLOCK FALSE
