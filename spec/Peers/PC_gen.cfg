CONSTANTS
  AsIs_D10 = FALSE
SPECIFICATION Spec
INVARIANTS TypeOK NoPanic Outcome Reported Emit
PROPERTY Terminates
CHECK_DEADLOCK FALSE
