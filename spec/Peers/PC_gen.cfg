CONSTANTS
  AsIs_D10 = FALSE
  Mut_NilFailedEvent = FALSE
SPECIFICATION Spec
INVARIANTS TypeOK NoPanic Outcome Reported AllPrintable Emit
PROPERTY Terminates
CHECK_DEADLOCK FALSE
