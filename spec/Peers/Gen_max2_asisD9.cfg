CONSTANTS
  Max = 2
  NPeers = 3
  MaxCatches = 4
  Closers = {1, 2}
  AsIs_D8 = FALSE
  AsIs_D9 = TRUE
  Mut_CloseSkipsDeadStream = FALSE
SPECIFICATION GenSpec
INVARIANTS TypeOK NoStuckEnd
CHECK_DEADLOCK FALSE
