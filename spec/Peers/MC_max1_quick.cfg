CONSTANTS
  Max = 1
  NPeers = 2
  MaxCatches = 3
  Closers = {1, 2}
  AsIs_D8 = FALSE
  AsIs_D9 = FALSE
  Mut_CloseSkipsDeadStream = FALSE
SPECIFICATION Spec
INVARIANTS TypeOK Bound NoPanic AllClosedAfterEnd LockOK ChanOK NoStuckEnd
PROPERTIES PopNeverClosed NoCatchAfterEnd EndReturns
CHECK_DEADLOCK FALSE
