CONSTANTS
  Max = 3
  NPeers = 8
  MaxCatches = 60
  Closers = {1, 2}
  AsIs_D8 = FALSE
  AsIs_D9 = FALSE
  Mut_CloseSkipsDeadStream = FALSE
SPECIFICATION TSpec
CONSTRAINT Mark
POSTCONDITION Post
INVARIANTS TBound TNoPanic TAllClosedAfterEnd
CHECK_DEADLOCK FALSE
