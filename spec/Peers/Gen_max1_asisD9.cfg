CONSTANTS
  Max = 1
  NPeers = 2
  MaxCatches = 3
  Closers = {1, 2}
  AsIs_D8 = FALSE
  AsIs_D9 = TRUE
  Mut_CloseSkipsDeadStream = FALSE
SPECIFICATION GenSpec
INVARIANTS TypeOK NoStuckEnd
CHECK_DEADLOCK FALSE
