CONSTANTS
  Max = 3
  NPeers = 5
  MaxCatches = 7
  Closers = {1, 2}
  AsIs_D8 = FALSE
  AsIs_D9 = FALSE
  Mut_CloseSkipsDeadStream = FALSE
SPECIFICATION GenSpec
INVARIANTS TypeOK Bound AllClosedAfterEnd NoStuckEnd
CHECK_DEADLOCK FALSE
