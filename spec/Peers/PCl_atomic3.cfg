CONSTANTS
  Closers = {1,2,3}
  Atomic = TRUE
SPECIFICATION Spec
INVARIANTS TypeOK CloseOnce Emit
PROPERTIES AllReturn CleanedUp
CHECK_DEADLOCK FALSE
