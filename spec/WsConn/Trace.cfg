CONSTANTS
  Chunk = 2048
  Writers = {1, 2}
  Readers = {1, 2}
  Closers = {0, 1, 2}
  WSizes <- TraceNat
  RBufs <- TraceNat
  MSizes <- TraceNat
  Kinds = {"bin", "text", "ping"}
  Codes <- TraceNat
  MaxW = 1000000
  MaxR = 1000000
  MaxMsg = 1000000
  PipeWriteLock = TRUE
  C2ClosesPipe = TRUE
  EnvAtRest = FALSE
  History = FALSE
  Reduce = TRUE
SPECIFICATION TSpec
CONSTRAINT Mark
INVARIANTS TypeOK EOFMeansAllDelivered ErrHasCause LateCallsFail
POSTCONDITION Accepted
CHECK_DEADLOCK FALSE
