CONSTANTS
  Chunk = 2
  Writers = {1, 2}
  Readers = {1, 2}
  Closers = {}
  WSizes = {0, 1, 2, 3, 5}
  RBufs = {1, 2}
  MSizes = {0, 1, 3}
  Kinds = {"bin", "text", "ping"}
  Codes = {1000, 1005, 1001}
  MaxW = 3
  MaxR = 3
  MaxMsg = 4
  PipeWriteLock = TRUE
  C2ClosesPipe = TRUE
  EnvAtRest = FALSE
  History = TRUE
SPECIFICATION Spec
INVARIANTS TypeOK
CHECK_DEADLOCK FALSE
