CONSTANTS
  Chunk = 2
  Writers = {1}
  Readers = {1}
  Closers = {1}
  WSizes = {3}
  RBufs = {2}
  MSizes = {3}
  Kinds = {"bin"}
  Codes = {1000}
  MaxW = 1
  MaxR = 2
  MaxMsg = 1
  PipeWriteLock = TRUE
  EnvAtRest = TRUE
  History = TRUE
SPECIFICATION Spec
INVARIANTS TypeOK
CHECK_DEADLOCK FALSE
