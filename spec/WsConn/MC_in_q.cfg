CONSTANTS
  Chunk = 2
  Writers = {}
  Readers = {1, 2}
  Closers = {1}
  WSizes = {1}
  RBufs = {2}
  MSizes = {3}
  Kinds = {"bin"}
  Codes = {1000, 1001}
  MaxW = 0
  MaxR = 1
  MaxMsg = 1
  PipeWriteLock = TRUE
  C2ClosesPipe = TRUE
  EnvAtRest = FALSE
  History = TRUE
SPECIFICATION Spec
INVARIANTS TypeOK InboundPrefix EOFMeansAllDelivered ErrHasCause CleanEndComplete NoTear SentIsAccepted WriteCountsTaken LateCallsFail FirstCloseOK NoLeakAtRest QuietComplete
PROPERTIES ReadIsNext OnlyReadsMoveRpos CloseIdempotent
CHECK_DEADLOCK FALSE
