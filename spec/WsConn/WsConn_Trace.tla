---------------------------- MODULE WsConn_Trace ----------------------------
(* Trace specification: validates executions recorded from the real
   websocketconn.Conn (harness/cmd/wsconndrv: real gorilla websockets over
   loopback TCP, exported API only) against WsConn.

   trace.ndjson holds many traces separated by {"ev":"reset"} lines.  Every
   other line is one observation, appended to one log under one mutex by the
   goroutine that makes it (so the log order respects happens-before):

     application goroutines (call logged before the call, return after it)
       wcall{w,size,pn,perr}    wret{w,n,err}          err: "nil" | "err"
       rcall{r,buf,pn,poff,perr} rret{r,n,off,err}     err: "nil" | "eof" | "err"
       ccall{c,perr}            cret{c,err}
         off   = where the returned bytes sit in the stream the peer sent (the
                 driver compares them with the keyed filler; -1 = found nowhere)
         pn, poff, perr = the result of this very call, copied by the check from
                 its rret / wret line (a prophecy: the model's hand-over RXfer needs
                 the byte count when it happens, the log has it only at the return;
                 and explanations in which a call heads for another result than the
                 logged one are not pursued)
     the peer (raw gorilla connection; sends logged before they are made)
       psend{k,len}  pclose{code}  pcut
       precv{w,off,len,t}       a message arrived at the peer: bytes of writer w at
                                stream offset off (w = 0 for an empty message), type t
       pend{class}              the peer's ReadMessage failed: "close" = a close error
                                carrying a code (it read a close frame), "err" = anything else
     the driver
       rest                     every goroutine of the object and every pending call is
                                parked (two stack dumps); taken before each scripted step
                                in "rest" mode
       gone | leak{n}           after the last Close returned and every call returned:
                                no goroutine with a websocketconn frame is left | n are left
       hang{who}                a call did not return within the bound (never explainable)
       panic{who}               a call of the package panicked (never explainable)

   Goroutine steps are composed silently.  A trace is accepted when some
   interleaving of silent steps explains every observation; acceptance is the
   high-water mark of l (TLC register 1). *)
EXTENDS WsConn, Json

TraceNat == Nat
TraceLog == ndJsonDeserialize("trace.ndjson")

VARIABLES l,       \* index of the next observation to explain
          proph,   \* [Readers -> [n, off, err]]: the logged result of the Read in progress
          wproph,  \* [Writers -> [n, err]]: the logged result of the Write in progress
          cproph,  \* [Closers -> "nil" | "err" | "none"]: the logged result of the Close in progress
          exp,     \* the messages the peer logs in this trace, in order (copied by the check from the
                   \* precv lines to the reset line: a prophecy, used to stop explanations that put a
                   \* message on the socket which the peer is not going to see next)
          nprecv   \* precv observations consumed in this trace
tvars == <<vars, l, proph, wproph, cproph, exp, nprecv>>
pvars == <<proph, wproph, cproph, exp, nprecv>>

Ev == TraceLog[l]
Is(name) == l <= Len(TraceLog) /\ Ev.ev = name
Step == l' = l + 1
P0 == [n |-> 0, off |-> 0, err |-> "none"]
W0 == [n |-> 0, err |-> "none"]

TInit == Init /\ l = 1 /\ proph = [r \in Readers |-> P0] /\ wproph = [w \in Writers |-> W0] /\ cproph = [c \in Closers |-> "none"] /\ exp = <<>> /\ nprecv = 0 /\ TLCSet(1, 1)

EvWCall ==
  /\ Is("wcall") /\ Ev.w \in Writers /\ WCall(Ev.w, Ev.size) /\ Step /\ UNCHANGED <<proph, cproph, exp, nprecv>>
  /\ wproph' = [wproph EXCEPT ![Ev.w] = [n |-> Ev.pn, err |-> Ev.perr]]
EvWRet ==
  /\ Is("wret") /\ Ev.w \in Writers /\ Step /\ UNCHANGED pvars
  /\ wr[Ev.w].pc = "got" /\ wr[Ev.w].done = Ev.n /\ ((Ev.err = "nil") = (wr[Ev.w].res = "nil"))
  /\ WRet(Ev.w)
EvRCall ==
  /\ Is("rcall") /\ Ev.r \in Readers /\ RCall(Ev.r, Ev.buf) /\ Step /\ UNCHANGED <<wproph, cproph, exp, nprecv>>
  /\ proph' = [proph EXCEPT ![Ev.r] = [n |-> Ev.pn, off |-> Ev.poff, err |-> Ev.perr]]
EvRRet ==
  /\ Is("rret") /\ Ev.r \in Readers /\ Step /\ UNCHANGED pvars
  /\ rd[Ev.r].pc = "got" /\ rd[Ev.r].res = Ev.err
  /\ (Ev.err = "nil" => (rd[Ev.r].off = Ev.off /\ rd[Ev.r].n = Ev.n))
  /\ (Ev.err # "nil" => Ev.n = 0)
  /\ RRet(Ev.r)
EvCCall ==
  /\ Is("ccall") /\ Ev.c \in Closers /\ CCall(Ev.c) /\ Step /\ UNCHANGED <<proph, wproph, exp, nprecv>>
  /\ cproph' = [cproph EXCEPT ![Ev.c] = Ev.perr]
EvCRet ==
  /\ Is("cret") /\ Ev.c \in Closers /\ Step /\ UNCHANGED pvars
  /\ cl[Ev.c].pc = "got" /\ (cl[Ev.c].res = "ok" => Ev.err = "nil")
  /\ CRet(Ev.c)

EvPSend  == Is("psend")  /\ PeerSend(Ev.k, Ev.len) /\ Step /\ UNCHANGED pvars
EvPClose == Is("pclose") /\ PeerClose(Ev.code)     /\ Step /\ UNCHANGED pvars
EvPCut   == Is("pcut")   /\ PeerCut                /\ Step /\ UNCHANGED pvars
EvPRecv ==
  /\ Is("precv") /\ Step /\ UNCHANGED <<proph, wproph, cproph, exp>> /\ nprecv' = nprecv + 1
  /\ nrecv < Len(sentlog)
  /\ LET c == sentlog[nrecv + 1] IN
       /\ Ev.t = "bin" /\ c.len = Ev.len
       /\ (Ev.len > 0 => (c.w = Ev.w /\ c.off = Ev.off))
  /\ PeerRecv
EvPEnd ==
  /\ Is("pend") /\ Step /\ UNCHANGED pvars
  /\ \/ Ev.class = "close" /\ PeerEndClose
     \/ Ev.class = "err" /\ PeerEndErr

(* A quiescent point of the real object.  Steps that wait for the network
   (NextReader noticing a frame or a closed socket) are exempt: a goroutine
   parked in "IO wait" may be about to be woken by the poller. *)
RestSteps ==
  \/ RlCopyFail \/ WlStep
  \/ (\E r \in Readers : ReaderStep(r))
  \/ (\E w \in Writers : WriterStep(w))
  \/ (\E c \in Closers : CloserStep(c))
EvRest == Is("rest") /\ ~ENABLED RestSteps /\ Step /\ UNCHANGED <<vars, pvars>>

AllReturned ==
  /\ \A r \in Readers : rd[r].pc = "idle"
  /\ \A w \in Writers : wr[w].pc = "idle"
  /\ \A c \in Closers : cl[c].pc \in {"idle", "ret"}
EvGone == Is("gone") /\ LoopsGone /\ AllReturned /\ Step /\ UNCHANGED <<vars, pvars>>
EvLeak == Is("leak") /\ AtRest /\ ~LoopsGone /\ Step /\ UNCHANGED <<vars, pvars>>

EvReset ==
  /\ Is("reset") /\ Step /\ proph' = [r \in Readers |-> P0] /\ wproph' = [w \in Writers |-> W0] /\ cproph' = [c \in Closers |-> "none"] /\ exp' = Ev.pr /\ nprecv' = 0
  /\ win' = <<>> /\ psent' = 0 /\ pstate' = "open" /\ pcode' = 0 /\ nmsg' = 0
  /\ rl' = "next" /\ rmsg' = NoMsg /\ p1r' = FALSE /\ p1w' = "open" /\ rpos' = 0
  /\ rd' = [r \in Readers |-> Rd0] /\ nr' = [r \in Readers |-> 0]
  /\ wr' = [w \in Writers |-> Wr0] /\ nw' = [w \in Writers |-> 0] /\ wnext' = [w \in Writers |-> 0]
  /\ wlock' = 0 /\ wl' = "read" /\ wchunk' = NoChunk /\ p2w' = FALSE /\ p2r' = FALSE
  /\ acc' = <<>> /\ sentlog' = <<>> /\ nrecv' = 0 /\ pend' = "none"
  /\ werr' = "none" /\ tcp' = "open" /\ rst' = FALSE /\ irst' = "no"
  /\ cl' = [c \in Closers |-> Cl0]

(* Unobserved goroutine steps.  The Read steps are taken only towards the
   result the log holds for that Read.

   Silent steps are taken lazily: only in states in which the next observation
   cannot be consumed yet.  This loses no explanation: no observation disables
   a goroutine step or changes its effect (observations start calls, append
   frames to the inbound wire, or only read the state), so a goroutine step
   taken before an observation that was already possible can as well be taken
   after it.  Without the rule the silent machinery may run ahead by any number
   of steps at every observation, and the number of states per observation is
   the product of the run-ahead of every goroutine (1100 states per
   observation were measured on herd traces; with the rule about 10). *)
GWRet == Ev.w \in Writers /\ wr[Ev.w].pc = "got" /\ wr[Ev.w].done = Ev.n /\ ((Ev.err = "nil") = (wr[Ev.w].res = "nil"))
GRRet == /\ Ev.r \in Readers /\ rd[Ev.r].pc = "got" /\ rd[Ev.r].res = Ev.err
         /\ (Ev.err = "nil" => (rd[Ev.r].off = Ev.off /\ rd[Ev.r].n = Ev.n))
GCRet == Ev.c \in Closers /\ cl[Ev.c].pc = "got"
GPRecv == /\ pend = "none" /\ nrecv < Len(sentlog)
          /\ sentlog[nrecv + 1].len = Ev.len
          /\ (Ev.len > 0 => (sentlog[nrecv + 1].w = Ev.w /\ sentlog[nrecv + 1].off = Ev.off))
GPEnd == pend = "none" /\ pstate # "cut"
         /\ \/ Ev.class = "close" /\ werr = "closesent" /\ nrecv = Len(sentlog)
            \/ Ev.class = "err" /\ tcp = "lclosed" /\ rst
Ready ==   \* the next observation can be consumed in this state
  \/ Ev.ev \in {"wcall", "rcall", "ccall", "psend", "pclose", "pcut", "reset"}
  \/ Ev.ev = "wret" /\ GWRet
  \/ Ev.ev = "rret" /\ GRRet
  \/ Ev.ev = "cret" /\ GCRet
  \/ Ev.ev = "precv" /\ GPRecv
  \/ Ev.ev = "pend" /\ GPEnd
  \/ Ev.ev = "rest" /\ ~ENABLED RestSteps
  \/ Ev.ev = "gone" /\ LoopsGone /\ AllReturned
  \/ Ev.ev = "leak" /\ AtRest /\ ~LoopsGone

SilentRead(r) ==
  \/ proph[r].err = "nil" /\ proph[r].n >= 1 /\ rl = "copy" /\ proph[r].off = rmsg.off /\ RXfer(r, proph[r].n)
  \/ proph[r].err = "nil" /\ RCheck(r) /\ rd'[r].pc = "wait"
  \/ proph[r].err # "nil" /\ RCheck(r) /\ (rd'[r].pc = "wait" \/ rd'[r].res = proph[r].err)
  \/ proph[r].err # "nil" /\ RFail(r) /\ rd'[r].res = proph[r].err
(* With Reduce, a silent step is also taken only if it can matter for the
   observation that is waited for.  The two directions influence each other
   only through steps that disable steps of the other direction: the
   statements of Close (so everything is offered while a Close is in progress),
   the echo of a close frame, which makes later sends fail (so inbound steps
   are offered for outbound observations while a close frame is unread, and
   outbound steps for inbound observations when the close frame is the next
   thing readLoop consumes), and a reset after the peer cut the connection
   (outbound steps are offered for inbound observations then).
   Reduce = TRUE is the fast path of the check: a trace it accepts is accepted
   (fewer explanations are tried, none is invented); a trace it does not accept
   is validated again with Reduce = FALSE, where every silent step is offered
   in every state, and only that verdict is reported. *)
CONSTANT Reduce
CloseUnread == \E i \in DOMAIN win : win[i].k = "close"
ClosePending == \E c \in Closers : cl[c].pc \in {"c1", "c2", "c3", "c4"}
(* The statements of Close enable nothing that a successful result or a message
   at the peer needs; while such an observation is waited for they are postponed. *)
CloseMatters == ~Reduce \/ ~(Ev.ev = "precv" \/ (Ev.ev \in {"wret", "rret"} /\ Ev.err = "nil"))
InboundMatters  == ~Reduce \/ ClosePending \/ CloseUnread \/ Ev.ev \notin {"wret", "precv"}
CloseNext == rl = "next" /\ win # <<>> /\ Head(win).k = "close"     \* the echo is readLoop's next step
OutboundMatters == ~Reduce \/ ClosePending \/ CloseNext \/ tcp = "pcut" \/ Ev.ev # "rret"
(* The Write steps are taken only towards the logged result of that Write
   (pn, perr copied by the check from the wret line to the wcall line). *)
SilentWrite(w) ==
  \/ WCheck(w) /\ (wr'[w].pc = "got" => (wproph[w].err = "err" /\ wproph[w].n = 0))
  \/ WAcquire(w)
  \/ (wr[w].done < wproph[w].n \/ (wr[w].size = 0 /\ wproph[w].err = "nil")) /\ WXfer(w)
  \/ wproph[w].err = "nil" /\ WDone(w)
  \/ wproph[w].err = "err" /\ wr[w].done = wproph[w].n /\ WFail(w)

(* The k-th message put on the socket is the k-th message the peer sees (as far as it sees any). *)
SentCount == IF History THEN Len(sentlog) ELSE nprecv + Len(sentlog)
SendExpected ==
  SentCount < Len(exp) =>
    LET e == exp[SentCount + 1] IN e[3] = wchunk.len /\ (e[3] > 0 => (e[1] = wchunk.w /\ e[2] = wchunk.off))
Silent ==
  /\ l <= Len(TraceLog) /\ ~Is("reset")
  /\ (Reduce => ~Ready)
  /\ UNCHANGED <<l, pvars>>
  /\ \/ InboundMatters /\ (RlStep \/ (\E r \in Readers : SilentRead(r)))
     \/ OutboundMatters /\ (WlReadFail \/ WlSendFail \/ (SendExpected /\ WlSendOK) \/ (\E w \in Writers : SilentWrite(w)))
     \/ CloseMatters /\ (\E c \in Closers : C1(c) \/ C2(c) \/ C3(c) \/ C3PeerGone(c)
                                                \/ ((cproph[c] = "err" => tcp = "lclosed") /\ C4(c)))   \* a Close that failed was not the first

TNext ==
  \/ EvWCall \/ EvWRet \/ EvRCall \/ EvRRet \/ EvCCall \/ EvCRet
  \/ EvPSend \/ EvPClose \/ EvPCut \/ EvPRecv \/ EvPEnd
  \/ EvRest \/ EvGone \/ EvLeak \/ EvReset \/ Silent

TSpec == TInit /\ [][TNext]_tvars

Mark == IF l > TLCGet(1) THEN TLCSet(1, l) ELSE TRUE

Accepted ==
  \/ TLCGet(1) = Len(TraceLog) + 1
  \/ /\ PrintT(<<"UNEXPLAINED", TLCGet(1)>>)
     /\ PrintT(ToJson(TraceLog[TLCGet(1)]))
     /\ FALSE
=============================================================================
