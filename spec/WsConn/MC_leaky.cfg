CONSTANTS
  Chunk = 2
  Writers = {1}
  Readers = {}
  Closers = {1}
  WSizes = {3}
  RBufs = {1}
  MSizes = {1}
  Kinds = {"bin"}
  Codes = {1000}
  MaxW = 1
  MaxR = 0
  MaxMsg = 0
  PipeWriteLock = TRUE
  C2ClosesPipe = FALSE
  EnvAtRest = FALSE
  History = TRUE
SPECIFICATION FairSpec
INVARIANTS TypeOK
PROPERTIES NoLeak
CHECK_DEADLOCK FALSE
