------------------------------- MODULE WsConn -------------------------------
(* common/websocketconn/websocketconn.go: a net.Conn over a gorilla WebSocket.

     New(ws):  pr1,pw1 := io.Pipe();  go { pw1.CloseWithError(closeErrorToEOF(readLoop(pw1, ws))) }
               pr2,pw2 := io.Pipe();  go { pr2.CloseWithError(closeErrorToEOF(writeLoop(ws, pr2))) }
     Read  = pr1.Read      Write = pw2.Write
     Close = pr1.Close(); pw2.Close(); ws.WriteControl(Close frame, 1 s); ws.Close()

   Two synchronous pipes (io.Pipe has no buffer: a pipe Write hands its slice
   to Reads until it is used up) and two goroutines.  The model follows the
   code at the grain of its blocking operations:

     readLoop    RlFrame     ws.NextReader returns a data message, skips a control
                             frame, or fails on a close frame / the end of the stream
                 RlSockFail  NextReader fails: the socket was closed by ws.Close()
                 RlSockReset NextReader or the message reader fails: connection reset
                 RXfer(r,n)  pipe-1 rendezvous: n bytes of the message being copied
                             go to the parked Read of application goroutine r
                 RlCopyFail  the pipe-1 write fails (read side closed by Close)
     writeLoop   WXfer(w)    pipe-2 rendezvous: writeLoop's Read (buffer of Chunk
                             bytes) takes the next piece of the Write of goroutine w
                 WlReadFail  pipe-2 Read fails (write side closed by Close)
                 WlSendOK | WlSendFail   NextWriter + Write + Close = one binary message on
                             the socket, or an error (close frame already sent, socket dead)
     Write(b)    WCall WCheck WAcquire (WXfer)* WDone | WFail       (io.Pipe.Write:
                             done-check, wrMu, one rendezvous per piece, at least one)
     Read(b)     RCall RCheck (RXfer | RFail)                       (io.Pipe.Read)
     Close()     CCall C1 C2 C3 C4  = the four statements of Conn.Close
     peer + TCP  PeerSend PeerClose PeerCut PeerRecv PeerEnd*  (environment)

   Bytes are not modelled; a byte is identified by its position.  Outbound:
   (writer w, offset in the concatenation of w's Writes).  Inbound: offset in the
   concatenation of the payloads of the peer's data messages.  The conformance
   driver fills payloads with a keyed function of that identity and reports
   where the bytes it received sit (harness/cmd/wsconndrv), so "bytes equal"
   becomes "offsets equal" here.

   What the code guarantees about Write (read from io.Pipe and writeLoop):
   one Write(b) becomes ceil(len(b)/Chunk) binary messages (one empty message
   for an empty b), each the next Chunk-sized piece of b; pipe.wrMu is held for
   the whole Write, so the pieces of concurrent Writes never interleave; and
   Write returns once writeLoop has *taken* the last piece - before it is on
   the socket.  Hence a Write can report success for a last piece that is then
   lost because the connection closes (Close does not flush; the package's own
   TestWrite says so).  The model has exactly this: `acc` (pieces taken by
   writeLoop) against `sentlog` (messages put on the socket).

   Don't-care (deliberately not constrained):
   * how many bytes a Read returns, as long as it is at least one, at most
     len(b), and does not run past the end of the current message (the split of
     a message into pipe writes is chosen by gorilla, bufio and TCP);
   * the concrete error values: the model knows "nil", "eof" (io.EOF) and "err";
   * the return value of every Close but the first to reach ws.Close();
   * what the peer still receives after the local side closed the socket while
     inbound data was unread or arriving (TCP answers with RST and drops what it
     has not transmitted: variable rst), and anything the peer sees after it cut
     the connection itself;
   * symmetrically, how much of what the peer wrote before it cut the
     connection still arrives when the peer closed its socket with unread data
     or the local side writes to the closed socket afterwards (variable irst;
     observed on loopback: 61 440 of 102 768 bytes, then ECONNRESET).  What does
     arrive is a prefix, and it ends with an error, never with io.EOF;
   * ping/pong contents; a blocked socket write (the peer is assumed to keep
     reading or the kernel to buffer: WlSend always completes);
   * the message type the peer uses for data: text and binary are both
     delivered (the code says so; gorilla never returns another type).

   Not a don't-care but a fact used by the model: a rendezvous on an unbuffered
   channel needs one party parked, closing a pipe's `done` channel wakes every
   parked party and nobody parks afterwards, so no hand-over happens once a
   pipe is closed (no RXfer after Done1, no WXfer after Done2).  A first version
   offered both outcomes of such a "race"; TLC then produced a torn Write that
   the real pipe cannot produce. *)
EXTENDS Integers, Sequences, FiniteSets, TLC

CONSTANTS
  Chunk,          \* size of writeLoop's buffer (2048 in the code)
  Writers,        \* application goroutines that call Write
  Readers,        \* application goroutines that call Read
  Closers,        \* application goroutines that call Close (each at most once)
  WSizes,         \* sizes an application Write may have            (guard of WCall)
  RBufs,          \* buffer sizes an application Read may pass      (guard of RCall)
  MSizes,         \* payload sizes of peer data messages            (guard of PeerSend)
  Kinds,          \* frame kinds the peer sends: subset of {"bin","text","ping"}
  Codes,          \* close codes the peer may send: 1000 normal, 1005 = empty close frame, others abnormal
  MaxW, MaxR,     \* calls per writer / per reader                  (guards)
  MaxMsg,         \* frames sent by the peer                        (guard)
  PipeWriteLock,  \* TRUE = io.Pipe serialises whole Writes with wrMu (as the code is);
                  \* FALSE exists only to show that NoTear depends on it (vacuity guard)
  C2ClosesPipe,   \* TRUE = Close closes the write pipe (as the code does); FALSE exists only to show that
                  \* NoLeak / NoLeakAtRest notice a writeLoop that is never told to stop (vacuity guard)
  History,        \* TRUE: keep the histories acc and sentlog in full (the outbound invariants are stated on
                  \* them).  FALSE (trace validation of long executions): acc is not kept and sentlog holds
                  \* only what the peer has not received yet - same behaviours, smaller states
  EnvAtRest       \* TRUE: application/peer steps only when no goroutine step is enabled
                  \* (behaviour generation at the grain of a driver that waits for quiescence)

NormalCodes == {1000, 1005}        \* closeErrorToEOF: CloseNormalClosure, CloseNoStatusReceived
Min(a, b) == IF a < b THEN a ELSE b

VARIABLES
  \* inbound: peer -> socket -> readLoop -> pipe 1 -> Read
  win,      \* frames written by the peer and not yet consumed by readLoop
            \*   [k |-> "bin"|"text"|"ping"|"close"|"cut", off, len, code]
  psent,    \* payload bytes of data messages sent by the peer so far (= next offset)
  pstate,   \* peer: "open" | "closed" (sent a close frame) | "cut" (closed its socket)
  pcode,    \* the close code the peer sent (0 = none yet)
  nmsg,     \* frames sent by the peer
  rl,       \* readLoop: "next" (in NextReader) | "copy" (in io.Copy) | "done"
  rmsg,     \* rl = "copy": the part of the message not yet handed over [off, len]
  p1r,      \* pipe 1 read side closed (Close, statement 1)
  p1w,      \* pipe 1 write side: "open" | "eof" | "err" (how readLoop ended)
  rpos,     \* inbound bytes handed to application Reads so far
  rd,       \* [Readers -> [pc, buf, off, n, res, late]]   pc: idle check wait got
  nr,       \* Reads started per reader
  \* outbound: Write -> pipe 2 -> writeLoop -> socket -> peer
  wr,       \* [Writers -> [pc, size, done, base, res, late]]   pc: idle check lock xfer got
  nw,       \* Writes started per writer
  wnext,    \* next stream offset per writer
  wlock,    \* holder of pipe 2's wrMu (0 = free)
  wl,       \* writeLoop: "read" (in pipe Read) | "send" (has a piece) | "done"
  wchunk,   \* wl = "send": the piece [w, off, len, end]  (end = stream offset where its Write ends)
  p2w,      \* pipe 2 write side closed (Close, statement 2)
  p2r,      \* pipe 2 read side closed (writeLoop ended)
  acc,      \* history: pieces taken by writeLoop, in order
  sentlog,  \* history: messages put on the socket, in order
  nrecv,    \* the peer has received sentlog[1..nrecv]
  pend,     \* how the peer's receive loop ended: "none" | "close" (saw a close frame) | "err"
  \* the connection
  werr,     \* gorilla's sticky write error: "none" | "closesent" | "neterr"
  tcp,      \* "open" | "pcut" (peer closed its socket) | "lclosed" (ws.Close() done)
  rst,      \* the local socket was closed with unread inbound data, or data arrived after (RST hazard)
  irst,     \* the same hazard for the inbound direction: "no" | "maybe" (the local side has written control
            \* frames the peer may not have read) | "yes" (the peer closed its socket with unread data, or
            \* the local side wrote to a socket the peer had closed: the peer's kernel answers RST and drops
            \* what it had not yet transmitted)
  cl        \* [Closers -> [pc, res]]   pc: idle c1 c2 c3 c4 got ret;  res: none ok any

inV   == <<win, psent, pstate, pcode, nmsg, rl, rmsg, p1r, p1w, rpos, rd, nr>>
outV  == <<wr, nw, wnext, wlock, wl, wchunk, p2w, p2r, acc, sentlog, nrecv, pend>>
connV == <<werr, tcp, rst, irst, cl>>
vars  == <<inV, outV, connV>>

NoMsg   == [off |-> 0, len |-> 0]
NoChunk == [w |-> 0, off |-> 0, len |-> 0, end |-> 0]
Rd0 == [pc |-> "idle", buf |-> 0, off |-> 0, n |-> 0, res |-> "none", late |-> FALSE]
Wr0 == [pc |-> "idle", size |-> 0, done |-> 0, base |-> 0, res |-> "none", late |-> FALSE]
Cl0 == [pc |-> "idle", res |-> "none"]

Init ==
  /\ win = <<>> /\ psent = 0 /\ pstate = "open" /\ pcode = 0 /\ nmsg = 0
  /\ rl = "next" /\ rmsg = NoMsg /\ p1r = FALSE /\ p1w = "open" /\ rpos = 0
  /\ rd = [r \in Readers |-> Rd0] /\ nr = [r \in Readers |-> 0]
  /\ wr = [w \in Writers |-> Wr0] /\ nw = [w \in Writers |-> 0] /\ wnext = [w \in Writers |-> 0]
  /\ wlock = 0 /\ wl = "read" /\ wchunk = NoChunk /\ p2w = FALSE /\ p2r = FALSE
  /\ acc = <<>> /\ sentlog = <<>> /\ nrecv = 0 /\ pend = "none"
  /\ werr = "none" /\ tcp = "open" /\ rst = FALSE /\ irst = "no"
  /\ cl = [c \in Closers |-> Cl0]

Done1 == p1r \/ p1w # "open"          \* pipe 1's done channel is closed
Done2 == p2w \/ p2r                   \* pipe 2's done channel is closed
ReadErrClass == IF p1r THEN "err" ELSE p1w     \* io.Pipe readCloseError: own side first
CloseReturned == \E c \in Closers : cl[c].pc \in {"got", "ret"}
Closing == \E c \in Closers : cl[c].pc # "idle"
CtlWrite == IF tcp = "pcut" THEN "yes" ELSE IF irst = "no" /\ tcp = "open" THEN "maybe" ELSE irst   \* a control frame is written
CloseW1(class) == IF p1w = "open" THEN class ELSE p1w     \* onceError: the first CloseWithError wins

-----------------------------------------------------------------------------
(* readLoop *)

RlFrame ==        \* NextReader consumes the next frame
  /\ rl = "next" /\ win # <<>>
  /\ LET h == Head(win) IN
     /\ win' = Tail(win)
     /\ (IF h.k \in {"bin", "text"} /\ h.len > 0
           THEN rl' = "copy" /\ rmsg' = [off |-> h.off, len |-> h.len]
         ELSE IF h.k \in {"close", "cut"} THEN rl' = "done" /\ UNCHANGED rmsg
         ELSE UNCHANGED <<rl, rmsg>>)            \* empty message: io.Copy writes nothing; ping: gorilla answers with a pong and reads on
     /\ p1w' = (IF h.k = "close" THEN CloseW1(IF h.code \in NormalCodes THEN "eof" ELSE "err")
                ELSE IF h.k = "cut" THEN CloseW1("err")        \* EOF from the socket: CloseError 1006, not mapped
                ELSE p1w)
     /\ werr' = (IF h.k = "close" /\ werr = "none" /\ tcp = "open" THEN "closesent" ELSE werr)   \* default close handler echoes a close frame
     /\ irst' = (IF h.k \in {"ping", "close"} THEN CtlWrite ELSE irst)
  /\ UNCHANGED <<psent, pstate, pcode, nmsg, p1r, rpos, rd, nr, outV, tcp, rst, cl>>

RlSockFail ==     \* NextReader on a socket closed by ws.Close()  (frames already buffered may still be parsed: RlFrame)
  /\ rl = "next" /\ tcp = "lclosed"
  /\ rl' = "done" /\ p1w' = CloseW1("err")
  /\ UNCHANGED <<win, psent, pstate, pcode, nmsg, rmsg, p1r, rpos, rd, nr, outV, connV>>

RlSockReset ==    \* the peer's kernel reset the connection: what it had not transmitted is lost; NextReader or
                  \* the message reader fails with ECONNRESET after the bytes that did arrive
  /\ rl \in {"next", "copy"} /\ tcp = "pcut" /\ irst = "yes"
  /\ rl' = "done" /\ rmsg' = NoMsg /\ p1w' = CloseW1("err")
  /\ UNCHANGED <<win, psent, pstate, pcode, nmsg, p1r, rpos, rd, nr, outV, connV>>

RXfer(r, n) ==    \* pipe-1 rendezvous between readLoop's Write and the parked Read of r
  /\ rl = "copy" /\ rd[r].pc = "wait" /\ ~Done1
  /\ n \in 1..Min(rd[r].buf, rmsg.len)
  /\ rd' = [rd EXCEPT ![r] = [@ EXCEPT !.pc = "got", !.off = rmsg.off, !.n = n, !.res = "nil"]]
  /\ rpos' = rpos + n
  /\ (IF n = rmsg.len THEN rl' = "next" /\ rmsg' = NoMsg
                      ELSE rl' = rl /\ rmsg' = [off |-> rmsg.off + n, len |-> rmsg.len - n])
  /\ UNCHANGED <<win, psent, pstate, pcode, nmsg, p1r, p1w, nr, outV, connV>>

RlCopyFail ==     \* pw1.Write fails: the read side was closed;  readLoop returns io.ErrClosedPipe
  /\ rl = "copy" /\ p1r
  /\ rl' = "done" /\ rmsg' = NoMsg /\ p1w' = CloseW1("err")
  /\ UNCHANGED <<win, psent, pstate, pcode, nmsg, p1r, rpos, rd, nr, outV, connV>>

(* application Read *)
RCheck(r) ==      \* io.Pipe.Read: done already closed -> error at once, else park
  /\ rd[r].pc = "check"
  /\ rd' = [rd EXCEPT ![r] = IF Done1 THEN [@ EXCEPT !.pc = "got", !.res = ReadErrClass, !.n = 0]
                                       ELSE [@ EXCEPT !.pc = "wait"]]
  /\ UNCHANGED <<win, psent, pstate, pcode, nmsg, rl, rmsg, p1r, p1w, rpos, nr, outV, connV>>

RFail(r) ==       \* a parked Read is woken by done
  /\ rd[r].pc = "wait" /\ Done1
  /\ rd' = [rd EXCEPT ![r] = [@ EXCEPT !.pc = "got", !.res = ReadErrClass, !.n = 0]]
  /\ UNCHANGED <<win, psent, pstate, pcode, nmsg, rl, rmsg, p1r, p1w, rpos, nr, outV, connV>>

-----------------------------------------------------------------------------
(* application Write *)

WCheck(w) ==      \* io.Pipe.Write: done already closed -> error at once
  /\ wr[w].pc = "check"
  /\ wr' = [wr EXCEPT ![w] = IF Done2 THEN [@ EXCEPT !.pc = "got", !.res = "err"] ELSE [@ EXCEPT !.pc = "lock"]]
  /\ UNCHANGED <<inV, nw, wnext, wlock, wl, wchunk, p2w, p2r, acc, sentlog, nrecv, pend, connV>>

WAcquire(w) ==    \* wrMu.Lock()
  /\ wr[w].pc = "lock"
  /\ (PipeWriteLock => wlock = 0)
  /\ wlock' = (IF PipeWriteLock THEN w ELSE wlock)
  /\ wr' = [wr EXCEPT ![w].pc = "xfer"]
  /\ UNCHANGED <<inV, nw, wnext, wl, wchunk, p2w, p2r, acc, sentlog, nrecv, pend, connV>>

Rem(w) == wr[w].size - wr[w].done
WXfer(w) ==       \* pipe-2 rendezvous: writeLoop's Read takes the next piece (at least one rendezvous per Write)
  /\ wr[w].pc = "xfer" /\ wl = "read" /\ ~Done2
  /\ (Rem(w) > 0 \/ wr[w].res = "none")
  /\ LET n == Min(Chunk, Rem(w))
         ch == [w |-> w, off |-> wr[w].base + wr[w].done, len |-> n, end |-> wr[w].base + wr[w].size] IN
     /\ wchunk' = ch /\ acc' = (IF History THEN Append(acc, ch) ELSE acc) /\ wl' = "send"
     /\ wr' = [wr EXCEPT ![w] = [@ EXCEPT !.done = @ + n, !.res = "part"]]
  /\ UNCHANGED <<inV, nw, wnext, wlock, p2w, p2r, sentlog, nrecv, pend, connV>>

Unlock(w) == wlock' = (IF wlock = w THEN 0 ELSE wlock)

WDone(w) ==       \* everything handed over: return (len(b), nil)
  /\ wr[w].pc = "xfer" /\ Rem(w) = 0 /\ wr[w].res = "part"
  /\ wr' = [wr EXCEPT ![w] = [@ EXCEPT !.pc = "got", !.res = "nil"]]
  /\ Unlock(w)
  /\ UNCHANGED <<inV, nw, wnext, wl, wchunk, p2w, p2r, acc, sentlog, nrecv, pend, connV>>

WFail(w) ==       \* select takes <-done: return (bytes handed over so far, error)
  /\ wr[w].pc = "xfer" /\ Done2
  /\ (Rem(w) > 0 \/ wr[w].res = "none")
  /\ wr' = [wr EXCEPT ![w] = [@ EXCEPT !.pc = "got", !.res = "err"]]
  /\ Unlock(w)
  /\ UNCHANGED <<inV, nw, wnext, wl, wchunk, p2w, p2r, acc, sentlog, nrecv, pend, connV>>

(* writeLoop *)
WlReadFail ==     \* pr2.Read returns io.EOF: the write side was closed;  pr2.CloseWithError
  /\ wl = "read" /\ p2w
  /\ wl' = "done" /\ p2r' = TRUE
  /\ UNCHANGED <<inV, wr, nw, wnext, wlock, wchunk, p2w, acc, sentlog, nrecv, pend, connV>>

WlSendOK ==       \* the message goes onto the socket
  /\ wl = "send" /\ werr = "none" /\ tcp \in {"open", "pcut"}
  /\ sentlog' = Append(sentlog, wchunk) /\ wl' = "read" /\ wchunk' = NoChunk
  /\ irst' = (IF tcp = "pcut" THEN "yes" ELSE irst)
  /\ UNCHANGED <<inV, wr, nw, wnext, wlock, p2w, p2r, acc, nrecv, pend, werr, tcp, rst, cl>>

WlSendFail ==     \* close frame already sent, socket closed locally, or the peer is gone (EPIPE/RST)
  /\ wl = "send" /\ (werr # "none" \/ tcp # "open")
  /\ wl' = "done" /\ p2r' = TRUE /\ wchunk' = NoChunk
  /\ werr' = (IF werr = "none" THEN "neterr" ELSE werr)
  /\ UNCHANGED <<inV, wr, nw, wnext, wlock, p2w, acc, sentlog, nrecv, pend, tcp, rst, irst, cl>>

-----------------------------------------------------------------------------
(* Conn.Close, statement by statement *)

C1(c) ==          \* conn.Reader.(*io.PipeReader).Close()
  /\ cl[c].pc = "c1" /\ p1r' = TRUE /\ cl' = [cl EXCEPT ![c].pc = "c2"]
  /\ UNCHANGED <<win, psent, pstate, pcode, nmsg, rl, rmsg, p1w, rpos, rd, nr, outV, werr, tcp, rst, irst>>

C2(c) ==          \* conn.Writer.(*io.PipeWriter).Close()
  /\ cl[c].pc = "c2" /\ p2w' = (p2w \/ C2ClosesPipe) /\ cl' = [cl EXCEPT ![c].pc = "c3"]
  /\ UNCHANGED <<inV, wr, nw, wnext, wlock, wl, wchunk, p2r, acc, sentlog, nrecv, pend, werr, tcp, rst, irst>>

C3(c) ==          \* WriteControl(CloseMessage): error ignored
  /\ cl[c].pc = "c3" /\ cl' = [cl EXCEPT ![c].pc = "c4"]
  /\ werr' = (IF werr # "none" THEN werr
              ELSE IF tcp = "open" THEN "closesent"
              ELSE IF tcp = "pcut" THEN werr      \* the kernel may accept or refuse it: both below
              ELSE "neterr")
  /\ irst' = CtlWrite
  /\ UNCHANGED <<inV, outV, tcp, rst>>
C3PeerGone(c) ==  \* close frame to a socket the peer has closed: refused
  /\ cl[c].pc = "c3" /\ werr = "none" /\ tcp = "pcut"
  /\ cl' = [cl EXCEPT ![c].pc = "c4"] /\ werr' = "neterr"
  /\ UNCHANGED <<inV, outV, tcp, rst, irst>>

C4(c) ==          \* return conn.Conn.Close()
  /\ cl[c].pc = "c4"
  /\ cl' = [cl EXCEPT ![c] = [pc |-> "got", res |-> IF tcp = "lclosed" THEN "any" ELSE "ok"]]
  /\ tcp' = "lclosed"
  /\ rst' = (rst \/ (tcp # "lclosed" /\ win # <<>>))
  /\ UNCHANGED <<inV, outV, werr, irst>>

-----------------------------------------------------------------------------
ReaderStep(r) == RCheck(r) \/ RFail(r) \/ (\E n \in 1..Min(rd[r].buf, rmsg.len) : RXfer(r, n))
WriterStep(w) == WCheck(w) \/ WAcquire(w) \/ WXfer(w) \/ WDone(w) \/ WFail(w)
CloserStep(c) == C1(c) \/ C2(c) \/ C3(c) \/ C3PeerGone(c) \/ C4(c)
RlStep == RlFrame \/ RlSockFail \/ RlSockReset \/ RlCopyFail
WlStep == WlReadFail \/ WlSendOK \/ WlSendFail
Internal ==
  \/ RlStep \/ WlStep
  \/ (\E r \in Readers : ReaderStep(r))
  \/ (\E w \in Writers : WriterStep(w))
  \/ (\E c \in Closers : CloserStep(c))

AtRest == ~ENABLED Internal
EnvGuard == EnvAtRest => AtRest

-----------------------------------------------------------------------------
(* Application calls and returns, peer, network: environment (no fairness).
   Every one is a top-level disjunct of Next so that TLC's action labels carry
   the arguments: the labels are the script the conformance driver executes. *)

WCall(w, s) ==
  /\ EnvGuard /\ wr[w].pc = "idle" /\ nw[w] < MaxW /\ s \in WSizes
  /\ wr' = [wr EXCEPT ![w] = [pc |-> "check", size |-> s, done |-> 0, base |-> wnext[w], res |-> "none", late |-> CloseReturned]]
  /\ nw' = [nw EXCEPT ![w] = @ + 1] /\ wnext' = [wnext EXCEPT ![w] = @ + s]
  /\ UNCHANGED <<inV, wlock, wl, wchunk, p2w, p2r, acc, sentlog, nrecv, pend, connV>>
WRet(w) ==        \* the call has returned and the caller has looked at (n, err)
  /\ wr[w].pc = "got" /\ nw[w] < MaxW          \* (offered only while another call can follow: bound in the guard)
  /\ wr' = [wr EXCEPT ![w].pc = "idle"]
  /\ UNCHANGED <<inV, nw, wnext, wlock, wl, wchunk, p2w, p2r, acc, sentlog, nrecv, pend, connV>>

RCall(r, b) ==
  /\ EnvGuard /\ rd[r].pc = "idle" /\ nr[r] < MaxR /\ b \in RBufs
  /\ rd' = [rd EXCEPT ![r] = [pc |-> "check", buf |-> b, off |-> 0, n |-> 0, res |-> "none", late |-> CloseReturned]]
  /\ nr' = [nr EXCEPT ![r] = @ + 1]
  /\ UNCHANGED <<win, psent, pstate, pcode, nmsg, rl, rmsg, p1r, p1w, rpos, outV, connV>>
RRet(r) ==
  /\ rd[r].pc = "got" /\ nr[r] < MaxR
  /\ rd' = [rd EXCEPT ![r].pc = "idle"]
  /\ UNCHANGED <<win, psent, pstate, pcode, nmsg, rl, rmsg, p1r, p1w, rpos, nr, outV, connV>>

CCall(c) ==
  /\ EnvGuard /\ cl[c].pc = "idle" /\ cl' = [cl EXCEPT ![c].pc = "c1"]
  /\ UNCHANGED <<inV, outV, werr, tcp, rst, irst>>
CRet(c) ==        \* (used by the trace specification only: nothing can follow a Close by the same goroutine)
  /\ cl[c].pc = "got" /\ cl' = [cl EXCEPT ![c].pc = "ret"]
  /\ UNCHANGED <<inV, outV, werr, tcp, rst, irst>>

PeerSend(k, n) == \* one frame: a data message (binary or text) of n payload bytes, or a ping
  /\ EnvGuard /\ pstate = "open" /\ nmsg < MaxMsg /\ k \in Kinds
  /\ n \in (IF k = "ping" THEN {0} ELSE MSizes)
  /\ win' = Append(win, [k |-> k, off |-> psent, len |-> n, code |-> 0])
  /\ psent' = psent + n /\ nmsg' = nmsg + 1
  /\ rst' = (rst \/ tcp = "lclosed")
  /\ UNCHANGED <<pstate, pcode, rl, rmsg, p1r, p1w, rpos, rd, nr, outV, werr, tcp, irst, cl>>

PeerClose(code) == \* a close frame
  /\ EnvGuard /\ pstate = "open" /\ code \in Codes
  /\ win' = Append(win, [k |-> "close", off |-> psent, len |-> 0, code |-> code])
  /\ pstate' = "closed" /\ pcode' = code
  /\ rst' = (rst \/ tcp = "lclosed")
  /\ UNCHANGED <<psent, nmsg, rl, rmsg, p1r, p1w, rpos, rd, nr, outV, werr, tcp, irst, cl>>

PeerCut ==         \* the peer's socket is closed without (or after) a close frame: FIN after everything sent
  /\ EnvGuard /\ pstate \in {"open", "closed"}
  /\ win' = Append(win, [k |-> "cut", off |-> psent, len |-> 0, code |-> 0])
  /\ pstate' = "cut"
  /\ tcp' = (IF tcp = "open" THEN "pcut" ELSE tcp)
  /\ irst' = (IF irst = "maybe" \/ nrecv < Len(sentlog) THEN "yes" ELSE irst)   \* close() with unread data: RST instead of FIN
  /\ UNCHANGED <<psent, pcode, nmsg, rl, rmsg, p1r, p1w, rpos, rd, nr, outV, werr, rst, cl>>

PeerRecv ==        \* the peer's ReadMessage returns the next message
  /\ pend = "none" /\ nrecv < Len(sentlog)      \* (also after its own cut: messages already in the peer's read buffer)
  /\ (IF History THEN nrecv' = nrecv + 1 /\ UNCHANGED sentlog
                 ELSE sentlog' = Tail(sentlog) /\ UNCHANGED nrecv)
  /\ UNCHANGED <<inV, wr, nw, wnext, wlock, wl, wchunk, p2w, p2r, acc, pend, connV>>

PeerEndClose ==    \* the peer's ReadMessage returns a close error carrying a code: it read a close frame
  /\ pstate # "cut" /\ pend = "none" /\ werr = "closesent" /\ nrecv = Len(sentlog)
  /\ pend' = "close"
  /\ UNCHANGED <<inV, wr, nw, wnext, wlock, wl, wchunk, p2w, p2r, acc, sentlog, nrecv, connV>>

PeerEndErr ==      \* the peer's ReadMessage fails otherwise: only after a local close under the RST hazard
  /\ pstate # "cut" /\ pend = "none" /\ tcp = "lclosed" /\ rst
  /\ pend' = "err"
  /\ UNCHANGED <<inV, wr, nw, wnext, wlock, wl, wchunk, p2w, p2r, acc, sentlog, nrecv, connV>>

EnvStep ==
  \/ (\E w \in Writers, s \in WSizes : WCall(w, s)) \/ (\E w \in Writers : WRet(w))
  \/ (\E r \in Readers, b \in RBufs : RCall(r, b)) \/ (\E r \in Readers : RRet(r))
  \/ (\E c \in Closers : CCall(c))
  \/ (\E k \in Kinds, n \in MSizes \cup {0} : PeerSend(k, n))
  \/ (\E code \in Codes : PeerClose(code)) \/ PeerCut
  \/ PeerRecv \/ PeerEndClose \/ PeerEndErr

Next == Internal \/ EnvStep
Spec == Init /\ [][Next]_vars

(* One weak-fairness conjunct per goroutine step; none for the environment. *)
Fair ==
  /\ WF_vars(RlFrame) /\ WF_vars(RlSockFail) /\ WF_vars(RlCopyFail)      \* (RlSockReset is the network's doing: no fairness)
  /\ WF_vars(WlReadFail) /\ WF_vars(WlSendOK) /\ WF_vars(WlSendFail)
  /\ \A r \in Readers : WF_vars(RCheck(r)) /\ WF_vars(RFail(r))
                        /\ WF_vars(\E n \in 1..Min(rd[r].buf, rmsg.len) : RXfer(r, n))
  /\ \A w \in Writers : WF_vars(WCheck(w)) /\ WF_vars(WAcquire(w)) /\ WF_vars(WXfer(w))
                        /\ WF_vars(WDone(w)) /\ WF_vars(WFail(w))
  /\ \A c \in Closers : WF_vars(C1(c)) /\ WF_vars(C2(c)) /\ WF_vars(C3(c) \/ C3PeerGone(c)) /\ WF_vars(C4(c))
FairSpec == Spec /\ Fair

-----------------------------------------------------------------------------
(* Properties *)

RdPc == {"idle", "check", "wait", "got"}
WrPc == {"idle", "check", "lock", "xfer", "got"}
TypeOK ==
  /\ rl \in {"next", "copy", "done"} /\ wl \in {"read", "send", "done"}
  /\ p1r \in BOOLEAN /\ p2w \in BOOLEAN /\ p2r \in BOOLEAN /\ rst \in BOOLEAN /\ irst \in {"no", "maybe", "yes"}
  /\ p1w \in {"open", "eof", "err"} /\ werr \in {"none", "closesent", "neterr"}
  /\ tcp \in {"open", "pcut", "lclosed"} /\ pstate \in {"open", "closed", "cut"}
  /\ pend \in {"none", "close", "err"}
  /\ \A r \in Readers : rd[r].pc \in RdPc /\ rd[r].res \in {"none", "nil", "eof", "err"}
  /\ \A w \in Writers : wr[w].pc \in WrPc /\ wr[w].res \in {"none", "part", "nil", "err"} /\ wr[w].done \in 0..wr[w].size
  /\ wlock \in Writers \cup {0}
  /\ rpos \in 0..psent /\ nrecv \in 0..Len(sentlog)
  /\ (rl = "copy") = (rmsg.len > 0)

(* --- inbound: what Reads have returned is a prefix of what the peer sent, in order --- *)

(* rpos counts the bytes handed out; every successful Read returned [off, off+n)
   with off = the value of rpos before it (action property), so the results are
   consecutive, disjoint and start at 0: the concatenation in hand-over order is
   the stream prefix [0, rpos).  Undelivered bytes are still ahead: *)
InboundPrefix ==
  /\ rpos <= psent
  /\ (rl = "copy" => rmsg.off = rpos)
  /\ \A i \in DOMAIN win : win[i].k \in {"bin", "text"} => win[i].off >= rpos + rmsg.len
ReadIsNext ==   \* action property: a Read that gets data gets the next undelivered bytes, at most buf of them
  [][\A r \in Readers : (rd[r].pc = "wait" /\ rd'[r].pc = "got" /\ rd'[r].res = "nil")
        => (rd'[r].off = rpos /\ rd'[r].n \in 1..rd[r].buf /\ rpos' = rpos + rd'[r].n)]_vars
OnlyReadsMoveRpos ==
  [][rpos' # rpos => \E r \in Readers : rd[r].pc = "wait" /\ rd'[r].pc = "got" /\ rd'[r].res = "nil"]_vars

(* io.EOF only when the peer closed with a normal code, and only after all data. *)
EOFMeansAllDelivered ==
  /\ (p1w = "eof" => (pstate \in {"closed", "cut"} /\ pcode \in NormalCodes /\ rpos = psent))
  /\ \A r \in Readers : rd[r].res = "eof" => (p1w = "eof" /\ ~rd[r].late)
(* A Read fails with something else than io.EOF only for a reason: local Close,
   abnormal close code, or a cut connection. *)
ErrHasCause ==
  /\ (p1w = "err" => (Closing \/ pstate = "cut" \/ (pstate = "closed" /\ pcode \notin NormalCodes)))
  /\ \A r \in Readers : rd[r].res = "err" => (p1r \/ p1w = "err")
(* Complete when readLoop finished cleanly. *)
CleanEndComplete == (rl = "done" /\ p1w = "eof") => (rpos = psent /\ \A i \in DOMAIN win : win[i].k = "cut")

(* --- outbound --- *)

(* Contract of the message sequence, stated on the history `acc` without
   reference to the pipe machinery: per writer the pieces are the consecutive
   Chunk-sized pieces of its stream (nothing reordered, duplicated or skipped),
   no piece spans two Writes, and the pieces of one Write are adjacent. *)
PiecesOf(w) == SelectSeq(acc, LAMBDA c : c.w = w)
NoTear ==
  /\ \A i \in DOMAIN acc :
       /\ acc[i].len = Min(Chunk, acc[i].end - acc[i].off)
       /\ acc[i].off + acc[i].len <= acc[i].end
  /\ \A i \in 1..(Len(acc) - 1) :
       acc[i].off + acc[i].len < acc[i].end                  \* not the last piece of its Write
         => (acc[i + 1].w = acc[i].w /\ acc[i + 1].off = acc[i].off + acc[i].len /\ acc[i + 1].end = acc[i].end)
  /\ \A w \in Writers :
       LET s == PiecesOf(w) IN
         /\ (s # <<>> => s[1].off = 0)
         /\ \A i \in 1..(Len(s) - 1) : s[i + 1].off = s[i].off + s[i].len
                                        /\ (s[i + 1].end = s[i].end \/ s[i + 1].off = s[i].end)
(* What is on the socket is what writeLoop took, in order, minus at most the
   piece it holds or lost when the connection went away. *)
SentIsAccepted ==
  /\ Len(sentlog) <= Len(acc) /\ Len(acc) - Len(sentlog) <= 1
  /\ sentlog = SubSeq(acc, 1, Len(sentlog))
  /\ (wl = "read" => sentlog = acc)
(* A Write reports success only for bytes writeLoop has taken; a failed Write
   reports exactly the bytes taken. *)
WriteCountsTaken ==
  \A w \in Writers : wr[w].pc = "got" =>
     /\ (wr[w].res = "nil" => wr[w].done = wr[w].size)
     /\ \/ wr[w].done = 0
        \/ \E i \in DOMAIN acc : acc[i].w = w /\ acc[i].off + acc[i].len = wr[w].base + wr[w].done

(* --- Close --- *)
(* Calls that start after a Close has returned fail (Read never with io.EOF
   standing for "no error": EOFMeansAllDelivered excludes late eof). *)
LateCallsFail ==
  /\ \A r \in Readers : (rd[r].late /\ rd[r].pc = "got") => rd[r].res = "err"
  /\ \A w \in Writers : (wr[w].late /\ wr[w].pc = "got") => (wr[w].res = "err" /\ wr[w].done = 0)
(* Close is idempotent: once one Close has returned, further Closes change nothing of the object. *)
objV == <<inV, outV, tcp, rst, irst>>    \* (gorilla's sticky write error is not part of the object: every send fails once the socket is closed)
CloseIdempotent ==
  [][\A c \in Closers : (cl[c].pc \in {"c1", "c2", "c3", "c4"} /\ cl'[c].pc # cl[c].pc
                          /\ \E d \in Closers : d # c /\ cl[d].pc \in {"got", "ret"})
        => (objV' = objV /\ (cl'[c].pc = "got" => cl'[c].res = "any"))]_vars
FirstCloseOK == Cardinality({c \in Closers : cl[c].res = "ok"}) <= 1
                /\ (tcp = "lclosed" => \E c \in Closers : cl[c].res = "ok")
(* Safety form of "no leak": once a Close has returned and nothing can move,
   both goroutines are gone and no call is pending. *)
NoLeakAtRest ==
  (AtRest /\ CloseReturned) =>
     /\ rl = "done" /\ wl = "done"
     /\ \A r \in Readers : rd[r].pc \in {"idle", "got"}
     /\ \A w \in Writers : wr[w].pc \in {"idle", "got"}
(* At rest without any close or failure everything written is on the socket and
   everything the peer sent is with a Read or waiting for one. *)
QuietComplete ==
  (AtRest /\ ~Closing /\ pstate = "open") =>
     /\ sentlog = acc /\ wl = "read" /\ rl # "done" /\ wlock = 0
     /\ (rl = "next" => win = <<>>)
     /\ \A w \in Writers : wr[w].pc \in {"idle", "got"} /\ (wr[w].pc = "got" => wr[w].res = "nil")

(* --- liveness, under per-step weak fairness of the goroutines --- *)
LoopsGone == rl = "done" /\ wl = "done"
CloseTerminates == \A c \in Closers : (cl[c].pc = "c1") ~> (cl[c].pc \in {"got", "ret"})
NoLeak == CloseReturned ~> LoopsGone
ReadsReturnAfterClose ==
  \A r \in Readers : (CloseReturned /\ rd[r].pc \in {"check", "wait"}) ~> (rd[r].pc \in {"got", "idle"})
WritesReturnAfterClose ==
  \A w \in Writers : (CloseReturned /\ wr[w].pc \in {"check", "lock", "xfer"}) ~> (wr[w].pc \in {"got", "idle"})
(* After a normal close by the peer a pending Read returns (data or io.EOF) and
   readLoop ends with io.EOF, unless it waits for a reader or a local Close intervenes. *)
PeerCloseReachesEOF ==
  (pstate = "closed" /\ pcode \in NormalCodes) ~>
     (p1w = "eof" \/ Closing \/ pstate = "cut" \/ (rl = "copy" /\ \A r \in Readers : rd[r].pc \in {"idle", "got"}))
=============================================================================
