CONSTANTS
  Chunk = 2
  Writers = {1, 2}
  Readers = {}
  Closers = {1}
  WSizes = {0, 3}
  RBufs = {1}
  MSizes = {1}
  Kinds = {"bin"}
  Codes = {1000}
  MaxW = 1
  MaxR = 0
  MaxMsg = 0
  PipeWriteLock = TRUE
  C2ClosesPipe = TRUE
  EnvAtRest = FALSE
  History = TRUE
SPECIFICATION Spec
INVARIANTS TypeOK InboundPrefix EOFMeansAllDelivered ErrHasCause CleanEndComplete NoTear SentIsAccepted WriteCountsTaken LateCallsFail FirstCloseOK NoLeakAtRest QuietComplete
PROPERTIES ReadIsNext OnlyReadsMoveRpos CloseIdempotent
CHECK_DEADLOCK FALSE
