CONSTANTS
  Chunk = 2
  Writers = {1}
  Readers = {1}
  Closers = {1}
  WSizes = {3}
  RBufs = {3}
  MSizes = {3}
  Kinds = {"bin"}
  Codes = {1000}
  MaxW = 1
  MaxR = 1
  MaxMsg = 1
  PipeWriteLock = TRUE
  C2ClosesPipe = TRUE
  EnvAtRest = FALSE
  History = TRUE
SPECIFICATION Spec
INVARIANTS TypeOK InboundPrefix EOFMeansAllDelivered ErrHasCause CleanEndComplete NoTear SentIsAccepted WriteCountsTaken LateCallsFail FirstCloseOK NoLeakAtRest QuietComplete
PROPERTIES ReadIsNext OnlyReadsMoveRpos CloseIdempotent
CHECK_DEADLOCK FALSE
