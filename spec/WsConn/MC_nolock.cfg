CONSTANTS
  Chunk = 2
  Writers = {1, 2}
  Readers = {}
  Closers = {}
  WSizes = {3}
  RBufs = {1}
  MSizes = {1}
  Kinds = {"bin"}
  Codes = {1000}
  MaxW = 1
  MaxR = 0
  MaxMsg = 0
  PipeWriteLock = FALSE
  C2ClosesPipe = TRUE
  EnvAtRest = FALSE
  History = TRUE
SPECIFICATION Spec
INVARIANTS TypeOK NoTear

CHECK_DEADLOCK FALSE
