CONSTANTS
  Full = FALSE
  Part = "all"
INIT Init
NEXT Stutter
INVARIANTS RoundTrip Total WellFormedAccepted
CHECK_DEADLOCK FALSE
