------------------------------ MODULE SdpJson ------------------------------
(* common/util SerializeSessionDescription / DeserializeSessionDescription, and
   the places where a string chosen by a remote party reaches them: the proxy
   (pollOffer: the client's offer relayed by the broker), the client
   (BrokerChannel.Negotiate: the proxy's answer), and remoteIPFromSDP (any SDP
   text).

   1. CONTRACT.  A session description is (type, text): one of the four SDP
      types and any SDP text.
        * Deserialize(Serialize(d)) = d.
        * For EVERY string: Deserialize returns a value or an error - never a
          panic, never "no value and no error".  Only the documents that have
          exactly the shape Serialize produces (WellFormed) must yield a
          value, and then the value they spell.
        * The callers: pollOffer returns that description or nil; Negotiate
          returns that description or an error; remoteIPFromSDP returns an
          address or nil.
   2. The functions AS DOCUMENTED (a JSON object with string members "type"
      and "sdp"), over abstract documents: Serialize, Deserialize, ProxyPath,
      ClientPath.  TLC checks the round trip and that they stay within the
      contract on every enumerated document.
   3. Case enumeration (TLC initial states) and Emit.

   A document is [top, mem]: top = how the bytes are produced (a JSON object
   written from the member list mem, or one of the non-object / non-JSON
   forms); a member is [n |-> name, k |-> JSON kind, v |-> value].  SDP text
   is abstract: a record of line classes (session header, media section,
   connection line, candidate line, line ending, damage) or a whole-text
   class; the driver writes it out with seeded addresses, ports and bytes.

   DON'T-CARE: which of value/error is returned for anything that is not
   WellFormed (and which value); text that is not valid UTF-8 cannot be
   carried by JSON unchanged, so equality is not demanded for it (no panic
   is); an offer larger than the proxy's 100 000 byte read limit may come
   back as nil; which address remoteIPFromSDP picks (that is C18). *)
EXTENDS Integers, Sequences, FiniteSets, TLC, Json

CONSTANTS
  Full,     \* BOOLEAN: the full text grammar (thorough) or the reduced one (quick)
  Part      \* "doc", "rt", "text" or "all"

SdpTypes == {"offer", "pranswer", "answer", "rollback"}
Pick(full, reduced) == IF Full THEN full ELSE reduced

-----------------------------------------------------------------------------
(* SDP text classes *)
Structured(h, m, c, a, e, g) == [raw |-> "", hdr |-> h, media |-> m, cline |-> c, cand |-> a, eol |-> e, dmg |-> g]
Raw(cls) == [raw |-> cls, hdr |-> "-", media |-> "-", cline |-> "-", cand |-> "-", eol |-> "-", dmg |-> "-"]

Hdrs   == {"valid", "none", "noversion"}
Medias == Pick({"app", "none", "two"}, {"app", "none"})
CLines == Pick({"none", "ip4remote", "ip4local", "ip4ttl", "ip4zero", "ip4bad", "ip6remote", "ip6local", "ip6bad"},
               {"none", "ip4remote", "ip4local", "ip4bad", "ip6remote", "ip6bad"})
Cands  == Pick({"none", "hostremote", "hostlocal", "srflx", "v6", "mdns", "tcp", "short", "badaddr", "badport"},
               {"none", "hostremote", "hostlocal", "v6", "short", "badaddr"})
Eols   == Pick({"crlf", "lf", "mixed"}, {"crlf", "lf"})
Dmgs   == Pick({"none", "truncated", "garbageprefix", "nul", "emptyline", "longline", "quotes", "multibyte", "invalidutf8"},
               {"none", "truncated", "nul", "quotes", "invalidutf8"})
RawClasses == {"empty", "garbage", "binary", "json", "newlines", "huge", "onlyattr", "html"}

BadLines == {"ip4bad", "ip6bad", "short", "badaddr", "badport"}
Plain(t) == t.raw = "" /\ t.hdr = "valid" /\ t.dmg = "none" /\ t.cline \notin BadLines /\ t.cand \notin BadLines
Utf8OK(t) == t.dmg # "invalidutf8" /\ t.raw # "binary"
Huge(t) == t.raw = "huge"

(* the texts used inside hand-made documents *)
DocTexts == {Raw("empty"), Raw("garbage"), Raw("json"), Raw("binary"), Raw("huge"),
             Structured("valid", "app", "ip4remote", "hostremote", "crlf", "none"),
             Structured("valid", "app", "ip4local", "hostlocal", "lf", "quotes"),
             Structured("valid", "app", "ip6remote", "v6", "crlf", "multibyte"),
             Structured("none", "app", "ip4bad", "short", "crlf", "truncated"),
             Structured("valid", "two", "none", "srflx", "mixed", "invalidutf8")}

-----------------------------------------------------------------------------
(* 1. Contract *)
ERR == [res |-> "error"]
NIL == [res |-> "nil"]              \* pollOffer: "no offer"
ANYVALUE == [res |-> "value-any"]   \* some description, fields not constrained
Value(t, x) == [res |-> "value", type |-> t, text |-> x]

ObjTops == {"object", "object-ws"}
WellFormed(d) ==
  /\ d.top = "object" /\ Len(d.mem) = 2
  /\ d.mem[1].n = "type" /\ d.mem[1].k = "str" /\ d.mem[1].v \in SdpTypes
  /\ d.mem[2].n = "sdp" /\ d.mem[2].k = "str" /\ Utf8OK(d.mem[2].v)
Spelled(d) == Value(d.mem[1].v, d.mem[2].v)

Allowed(d)       == IF WellFormed(d) THEN {Spelled(d)} ELSE {ANYVALUE, ERR}
ClientAllowed(d) == Allowed(d)
ProxyAllowed(d)  == IF WellFormed(d) /\ ~Huge(d.mem[2].v) THEN {Spelled(d)} ELSE {ANYVALUE, NIL}
RTAllowed(t, x)  == IF Utf8OK(x) THEN {Value(t, x)} ELSE {ANYVALUE, ERR}

Within(o, A) == o \in A \/ (o.res = "value" /\ ANYVALUE \in A)

-----------------------------------------------------------------------------
(* 2. The functions as documented *)
TM(k, v) == [n |-> "type", k |-> k, v |-> v]
SM(k, v) == [n |-> "sdp", k |-> k, v |-> v]
NoText == Raw("-")

Serialize(t, x) == [top |-> "object", mem |-> <<TM("str", t), SM("str", x)>>]

(* json.Unmarshal into a map: only a JSON object (or null, which leaves the
   map nil) is accepted; the last occurrence of a member wins; a null member
   is present with a nil value; names are case-sensitive. *)
Eff(d, name) ==
  LET o == SelectSeq(d.mem, LAMBDA e : e.n = name) IN
    IF Len(o) = 0 THEN [n |-> name, k |-> "absent", v |-> ""] ELSE o[Len(o)]
Deserialize(d) ==
  IF d.top \notin ObjTops \cup {"null"} THEN ERR
  ELSE IF d.top = "null" THEN ERR
  ELSE LET t == Eff(d, "type") s == Eff(d, "sdp") IN
    IF t.k = "absent" \/ s.k = "absent" THEN ERR
    ELSE IF t.k # "str" THEN ERR                   \* checked assertion (D5 repaired)
    ELSE IF t.v \notin SdpTypes THEN ERR
    ELSE IF s.k # "str" THEN ERR                   \* checked assertion (D5 repaired)
    ELSE Value(t.v, s.v)

(* proxy: the broker wraps the string in a poll response; an empty offer is
   "no supplied offer"; a response beyond the read limit is cut and fails to
   parse; a description that does not deserialise gives nil *)
TooBig(d) == \E i \in DOMAIN d.mem : d.mem[i].n = "sdp" /\ d.mem[i].k = "str" /\ Huge(d.mem[i].v)
ProxyPath(d) ==
  IF d.top = "empty" \/ (d.top \in ObjTops /\ TooBig(d)) THEN NIL
  ELSE IF Deserialize(d) = ERR THEN NIL ELSE Deserialize(d)
(* client: an empty answer without error is "received empty broker response" *)
ClientPath(d) == IF d.top = "empty" THEN ERR ELSE Deserialize(d)

-----------------------------------------------------------------------------
(* 3. Cases *)
VARIABLES mode, shape, doc, ty, text
vars == <<mode, shape, doc, ty, text>>
NoDoc == [top |-> "none", mem |-> <<>>]

TyMembers == {TM("absent", "")} \cup {TM("str", t) : t \in SdpTypes \cup {"$other", "", "$upper"}}
             \cup {TM(k, "") : k \in {"number", "null", "bool", "array", "object"}}
SdpMembers == {SM("absent", NoText)} \cup {SM("str", x) : x \in DocTexts}
              \cup {SM(k, NoText) : k \in {"number", "null", "bool", "array", "object"}}
M(e) == IF e.k = "absent" THEN <<>> ELSE <<e>>
X(k) == [n |-> "extra", k |-> k, v |-> ""]
MU(e) == IF e.k = "absent" THEN <<>> ELSE <<[n |-> IF e.n = "type" THEN "Type" ELSE "SDP", k |-> e.k, v |-> e.v]>>

Shapes == {"canonical", "reordered", "ws", "extra", "decoy-type-first", "decoy-type-last",
           "decoy-sdp-first", "decoy-sdp-last", "uppernames"}
Build(t, s, sh) ==
  CASE sh = "canonical" -> [top |-> "object", mem |-> M(t) \o M(s)]
    [] sh = "reordered" -> [top |-> "object", mem |-> M(s) \o M(t)]
    [] sh = "ws" -> [top |-> "object-ws", mem |-> M(t) \o M(s)]
    [] sh = "extra" -> [top |-> "object", mem |-> <<X("object")>> \o M(t) \o M(s) \o <<X("str")>>]
    [] sh = "decoy-type-first" -> [top |-> "object", mem |-> <<TM("number", "")>> \o M(t) \o M(s)]
    [] sh = "decoy-type-last" -> [top |-> "object", mem |-> M(t) \o M(s) \o <<TM("array", "")>>]
    [] sh = "decoy-sdp-first" -> [top |-> "object", mem |-> <<SM("null", NoText)>> \o M(t) \o M(s)]
    [] sh = "decoy-sdp-last" -> [top |-> "object", mem |-> M(t) \o M(s) \o <<SM("object", NoText)>>]
    [] sh = "uppernames" -> [top |-> "object", mem |-> MU(t) \o MU(s)]

OtherTops == {"array", "string", "number", "true", "null", "garbage", "truncated", "trailing", "empty", "bom", "deeparray", "deepsdp", "deepobject", "sdptext"}

InitDoc ==
  /\ Part \in {"doc", "all"}
  /\ mode = "doc" /\ ty = "-" /\ text = NoText
  /\ \/ \E t \in TyMembers, s \in SdpMembers, sh \in Shapes : shape = sh /\ doc = Build(t, s, sh)
     \/ \E tp \in OtherTops, x \in {Raw("garbage"), Structured("valid", "app", "ip4remote", "hostremote", "crlf", "none")} :
          /\ shape = "top:" \o tp
          /\ doc = [top |-> tp, mem |-> <<TM("str", "offer"), SM("str", x)>>]

Texts(t) ==
  \/ \E c \in RawClasses : t = Raw(c)
  \/ \E h \in Hdrs, m \in Medias, c \in CLines, a \in Cands, e \in Eols, g \in Dmgs : t = Structured(h, m, c, a, e, g)

InitRT ==
  /\ Part \in {"rt", "all"}
  /\ mode = "rt" /\ shape = "rt" /\ doc = NoDoc
  /\ ty \in SdpTypes
  /\ Texts(text)

InitText ==
  /\ Part \in {"text", "all"}
  /\ mode = "text" /\ shape = "text" /\ doc = NoDoc /\ ty = "-"
  /\ Texts(text)

Init == InitDoc \/ InitRT \/ InitText
Stutter == UNCHANGED vars
Spec == Init /\ [][Stutter]_vars

-----------------------------------------------------------------------------
(* Design-level checks *)
RoundTrip == mode = "rt" => /\ Deserialize(Serialize(ty, text)) = Value(ty, text)
                            /\ (Utf8OK(text) => WellFormed(Serialize(ty, text)))
Total == mode = "doc" => /\ Within(Deserialize(doc), Allowed(doc))
                         /\ Within(ProxyPath(doc), ProxyAllowed(doc))
                         /\ Within(ClientPath(doc), ClientAllowed(doc))
WellFormedAccepted == (mode = "doc" /\ WellFormed(doc)) => Deserialize(doc) = Spelled(doc)

-----------------------------------------------------------------------------
(* hostile = anything a well-behaved peer would not send *)
NonTrivial == IF mode = "doc" THEN ~WellFormed(doc) \/ ~Plain(doc.mem[2].v) ELSE ~Plain(text)

Emit ==
  IF mode = "doc"
  THEN PrintT(ToJson([mode |-> mode, shape |-> shape, doc |-> doc, wf |-> WellFormed(doc), nt |-> NonTrivial,
                      expect |-> [deser |-> Allowed(doc), proxy |-> ProxyAllowed(doc), client |-> ClientAllowed(doc)]]))
  ELSE IF mode = "rt"
  THEN PrintT(ToJson([mode |-> mode, shape |-> shape, type |-> ty, text |-> text, nt |-> NonTrivial,
                      expect |-> [deser |-> RTAllowed(ty, text)]]))
  ELSE PrintT(ToJson([mode |-> mode, shape |-> shape, text |-> text, nt |-> NonTrivial,
                      expect |-> [ip |-> "address-or-nil"]]))
=============================================================================
