CONSTANTS
  Full = TRUE
  Part = "all"
INIT Init
NEXT Stutter
INVARIANT Emit
CHECK_DEADLOCK FALSE
