CONSTANTS
  Full = TRUE
  Part = "all"
INIT Init
NEXT Stutter
INVARIANTS RoundTrip Total WellFormedAccepted
CHECK_DEADLOCK FALSE
