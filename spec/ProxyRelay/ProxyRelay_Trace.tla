-------------------------- MODULE ProxyRelay_Trace --------------------------
(* Trace validation of the proxy's data path: is the log recorded from the
   real proxy (harness/inpkg/proxy_lib/relay_verif_test.go; lib/checks/
   c16_relay.py filters it to the events named here) a behaviour of
   ProxyRelay, with the invariants holding on every state?

   Events written by the rig BEFORE it acts (causal): relay.accept, client.send,
   relay.send, client.close, client.abort, client.vanish, relay.close.
   Events written AFTER the fact: relay.recv / client.recv (what arrived, with
   `ok` = the bytes continue this session's keyed stream), relay.end by=proxy,
   client.sawclose, and the hooks of the code: dc.onmsg (after AddOutbound),
   conn.write (after the dc.Send-or-drop decision), dc.onclose (after GetStat,
   with the figures), event.over (what a listener of the proxy's dispatcher
   got), cl.end, conn.pcclose, tok.ret, dh.end.
   Steps without an event are silent.  The copier ws -> conn has only one hook
   (conn.write) for its three steps; its read takes the size of the NEXT
   conn.write event of the session, so the read-and-count may be placed
   before a dc.onclose that overtakes it (the chunk is then in the figures).  *)
EXTENDS ProxyRelay, Json, TLCExt

VARIABLES l, ack,           \* ack[s]: the dispatcher event of session s has been seen
          early             \* early[s]: the send of the chunk D holds was taken before its conn.write event arrived
                            \* (the hook runs after dc.Send: the client may log the receipt first)
tvars == <<vars, l, ack, early>>

TraceLog == ndJsonDeserialize("trace.ndjson")
NEv == Len(TraceLog)
Ev == TraceLog[l]
Is(name) == l <= NEv /\ Ev.ev = name
Step == l' = l + 1
Keep == UNCHANGED <<ack, early>>

TInit == Init /\ l = 1 /\ ack = [s \in Sessions |-> FALSE] /\ early = [s \in Sessions |-> FALSE] /\ TLCSet(1, 1)

(* size of the next conn.write.counted / conn.write event of session s at or after position l (0: none) *)
NextWrite(s) ==
  LET idx == {i \in l..NEv : TraceLog[i].ev \in {"conn.write.counted", "conn.write"} /\ TraceLog[i].s = s}
  IN IF idx = {} THEN 0 ELSE TraceLog[CHOOSE i \in idx : \A j \in idx : i <= j].n

TStart == Is("relay.accept") /\ Start(Ev.s) /\ Step /\ Keep
TClientSend == Is("client.send") /\ ClientSend(Ev.s, Ev.n) /\ Step /\ Keep
TRelaySend == Is("relay.send") /\ RelaySend(Ev.s, Ev.n) /\ Step /\ Keep
TClientClose == Is("client.close") /\ ClientCloseDc(Ev.s) /\ Step /\ Keep
TClientAbort == Is("client.abort") /\ ClientAbort(Ev.s) /\ Step /\ Keep
TClientVanish == Is("client.vanish") /\ ClientVanish(Ev.s) /\ Step /\ Keep
TStall == Is("client.stall") /\ ClientStallsReading(Ev.s) /\ Step /\ Keep
TResume == Is("client.resume") /\ ClientResumes(Ev.s) /\ Step /\ Keep
TRelayClose == Is("relay.close") /\ RelayCloseWs(Ev.s) /\ Step /\ Keep
TOnMsg ==
  /\ Is("dc.onmsg") /\ Step /\ Keep
  /\ IF Ev.n = Ev.len
       THEN X(Ev.s).R = "add" /\ X(Ev.s).rmsg = Ev.n /\ DcAddOutbound(Ev.s)
       ELSE X(Ev.s).R = "writing" /\ X(Ev.s).rmsg = Ev.len /\ Ev.n = 0 /\ PipeWriteFails(Ev.s)
TRelayRecv == Is("relay.recv") /\ Ev.ok = TRUE /\ RelayRecv(Ev.s, Ev.n) /\ Step /\ Keep
TClientRecv ==
  /\ Is("client.recv") /\ Ev.ok = TRUE /\ Step /\ Keep
  /\ X(Ev.s).dcDown # <<>> /\ Head(X(Ev.s).dcDown) = Ev.n /\ ClientRecv(Ev.s)
NextSent(s) ==              \* the next conn.write event of session s says the chunk was sent
  LET idx == {i \in l..NEv : TraceLog[i].ev = "conn.write" /\ TraceLog[i].s = s}
  IN idx # {} /\ TraceLog[CHOOSE i \in idx : \A j \in idx : i <= j].sent
TConnWrite ==
  /\ Is("conn.write") /\ Step /\ UNCHANGED ack
  /\ IF early[Ev.s]
       THEN Ev.sent /\ UNCHANGED vars /\ early' = [early EXCEPT ![Ev.s] = FALSE]
       ELSE /\ X(Ev.s).D = "send" /\ X(Ev.s).dbuf = Ev.n /\ UNCHANGED early
            /\ IF Ev.sent THEN CopyToClient(Ev.s) ELSE CopyToClientDropped(Ev.s)
TCounted ==                    \* conn.Write has counted the chunk (hook after AddInbound, before conn.lock)
  /\ Is("conn.write.counted") /\ Step /\ UNCHANGED <<vars, ack, early>>
  /\ X(Ev.s).D = "send" /\ X(Ev.s).dbuf = Ev.n
TOnClose ==
  /\ Is("dc.onclose") /\ Step /\ Keep
  /\ X(Ev.s).inCnt = Ev.in /\ X(Ev.s).outCnt = Ev.out      \* the figures the code read are the model's counters
  /\ DcOnClose(Ev.s)
TOver ==
  /\ Is("event.over") /\ Step /\ UNCHANGED <<vars, early>>
  /\ \E s \in Sessions : /\ ~ack[s] /\ X(s).over = <<Ev.in, Ev.out>>
                         /\ ack' = [ack EXCEPT ![s] = TRUE]
TRelayEnd ==
  /\ Is("relay.end") /\ Step /\ Keep
  /\ IF Ev.by = "proxy" THEN RelaySeesClose(Ev.s) ELSE UNCHANGED vars     \* other values: the rig's own marks
TClientSaw ==                  \* a client that closed by itself also gets its own close callback: nothing to explain
  /\ Is("client.sawclose") /\ Step /\ Keep
  /\ IF X(Ev.s).cst = "open" THEN ClientSeesClose(Ev.s) ELSE UNCHANGED vars
TClEnd == Is("cl.end") /\ CopyLoopEnds(Ev.s) /\ Step /\ Keep
TPcClose == Is("conn.pcclose") /\ ConnClose(Ev.s) /\ Step /\ Keep
TTokRet == Is("tok.ret") /\ HandlerReturns(Ev.s) /\ Step /\ Keep
TDhEnd == Is("dh.end") /\ X(Ev.s).H = "done" /\ Step /\ UNCHANGED <<vars, ack, early>>
TSkip == l <= NEv /\ Ev.ev \in {"start", "harness.note"} /\ Step /\ UNCHANGED <<vars, ack, early>>

SilentEarlySend ==
  /\ l <= NEv /\ UNCHANGED <<l, ack>>
  /\ \E s \in Sessions : /\ X(s).D = "send" /\ ~early[s] /\ NextSent(s) /\ CopyToClient(s)
                         /\ early' = [early EXCEPT ![s] = TRUE]
Silent ==
  /\ l <= NEv /\ UNCHANGED <<l, ack, early>>
  /\ \E s \in Sessions :
       \/ DcOnMessageStart(s) \/ PipeRendezvous(s) \/ DcReadErr(s) \/ DcLoss(s) \/ DownLoss(s) \/ UpLoss(s) \/ LoggerDrain(s)
       \/ CopyUpEOF(s) \/ CopyUpClosed(s) \/ CopyToRelay(s) \/ CopyUpFails(s)
       \/ CopyDownEOF(s) \/ ConnWriteAdd(s) \/ PrClose(s) \/ WsClose(s)
       \/ (NextWrite(s) > 0 /\ ~early[s] /\ CopyDownRead(s, NextWrite(s)))

(* end of the recording: every session one of whose ends closed is over - event published (and seen by the
   listener), slot returned, both copiers stopped, one pc.Close *)
TEnd ==
  /\ Is("end") /\ Step /\ UNCHANGED <<vars, ack, early>>
  /\ \A s \in Sessions : Ends(s) =>
       (X(s).nOver = 1 /\ ack[s] /\ X(s).retd = 1 /\ X(s).H = "done" /\ X(s).U = "ended" /\ X(s).D = "ended" /\ X(s).pcCloses = 1)
TDiverged == Is("diverged") /\ l' = NEv + 1 /\ UNCHANGED <<vars, ack, early>>
TDone == l > NEv /\ UNCHANGED tvars

TNext ==
  \/ TStart \/ TClientSend \/ TRelaySend \/ TClientClose \/ TClientAbort \/ TClientVanish \/ TStall \/ TResume \/ TRelayClose
  \/ TOnMsg \/ TRelayRecv \/ TClientRecv \/ TCounted \/ TConnWrite \/ TOnClose \/ TOver \/ TRelayEnd \/ TClientSaw
  \/ TClEnd \/ TPcClose \/ TTokRet \/ TDhEnd \/ TSkip \/ Silent \/ SilentEarlySend \/ TEnd \/ TDiverged \/ TDone
TSpec == TInit /\ [][TNext]_tvars

Mark == IF l > TLCGet(1) THEN TLCSet(1, l) ELSE TRUE
TraceAccepted ==
  LET hw == TLCGet(1) IN
  IF hw = NEv + 1 THEN TRUE
  ELSE /\ PrintT(ToJson([unexplained |-> hw, event |-> TraceLog[hw]]))
       /\ FALSE
=============================================================================
