\* sensitivity: the pinned pipe (reader never closed): OnMessage parks for ever, no connection-over event
CONSTANTS
  Sessions = {1}
  Sizes = {1}
  MaxUp = 2
  MaxDown = 1
  ChanCap = 1
  AsIs_LoggerLag = FALSE
  AsIs_PipeHang = TRUE
  EnvAtQuiet = FALSE
  GenMinMsgs = 0
SPECIFICATION Spec
INVARIANTS TypeOK
CHECK_DEADLOCK TRUE
