\* sensitivity: the pinned logger (amounts travel through buffered channels): stale figures
CONSTANTS
  Sessions = {1}
  Sizes = {1}
  MaxUp = 2
  MaxDown = 1
  ChanCap = 1
  AsIs_LoggerLag = TRUE
  AsIs_PipeHang = FALSE
  EnvAtQuiet = FALSE
  GenMinMsgs = 0
SPECIFICATION Spec
INVARIANTS FiguresRight

CHECK_DEADLOCK FALSE
