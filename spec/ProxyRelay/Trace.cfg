\* template: lib/checks/c16_relay.py rewrites Sessions and the deviation constants per recorded trace
CONSTANTS
  Sessions = {1, 2}
  Sizes = {}
  MaxUp = 1000000
  MaxDown = 1000000
  ChanCap = 5
  AsIs_LoggerLag = FALSE
  AsIs_PipeHang = FALSE
  EnvAtQuiet = FALSE
  GenMinMsgs = 0
SPECIFICATION TSpec
CONSTRAINT Mark
INVARIANTS TypeOK UpPrefix DownPrefix PcCloseOnce OverOnce SlotOnce FiguresRight ClosedBoth
POSTCONDITION TraceAccepted
CHECK_DEADLOCK FALSE
