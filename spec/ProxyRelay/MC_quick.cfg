\* one session, small bounds (quick tier)
CONSTANTS
  Sessions = {1}
  Sizes = {1}
  MaxUp = 2
  MaxDown = 1
  ChanCap = 1
  AsIs_LoggerLag = FALSE
  AsIs_PipeHang = FALSE
  EnvAtQuiet = FALSE
  GenMinMsgs = 0
SPECIFICATION FairSpec
INVARIANTS TypeOK UpPrefix DownPrefix PcCloseOnce OverOnce SlotOnce FiguresRight ClosedBoth NoSendAfterNil
PROPERTY GetsOver
CHECK_DEADLOCK TRUE
