\* one session, all interleavings, repaired code: empty and non-empty messages, two per direction (thorough tier)
CONSTANTS
  Sessions = {1}
  Sizes = {0, 1}
  MaxUp = 2
  MaxDown = 2
  ChanCap = 1
  AsIs_LoggerLag = FALSE
  AsIs_PipeHang = FALSE
  EnvAtQuiet = FALSE
  GenMinMsgs = 0
SPECIFICATION FairSpec
INVARIANTS TypeOK UpPrefix DownPrefix PcCloseOnce OverOnce SlotOnce FiguresRight ClosedBoth NoSendAfterNil
PROPERTY GetsOver
CHECK_DEADLOCK TRUE
