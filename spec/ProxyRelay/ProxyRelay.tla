----------------------------- MODULE ProxyRelay -----------------------------
(* proxy/lib: the DATA PATH of an established proxy session,
       client data channel <-> proxy <-> relay WebSocket
   (snowflake.go OnDataChannel callbacks, datachannelHandler, copyLoop;
   webrtcconn.go Read/Write/Close; util.go bytesSyncLogger;
   event.EventOnProxyConnectionOver; common/websocketconn).

   A session starts here when its handler has connected to the relay and
   copyLoop runs.  Goroutines of the proxy, per session:
     R    pion's data channel read loop: calls OnMessage for every client
          message (pw.Write - a rendezvous with the pipe reader - then
          AddOutbound) and, when the channel's transport reports the end,
          spawns the OnClose callback.  OnMessage calls are sequential and
          all of them precede OnClose.
     OC   the OnClose callback: under conn.lock reads the traffic figures,
          publishes EventOnProxyConnectionOver, sets conn.dc = nil, closes
          the data channel and the pipe writer.
     U    copyer conn -> ws: pipe read, then WebSocket write.
     D    copyer ws -> conn: WebSocket read, then conn.Write = AddInbound,
          then (under conn.lock) dc.Send if conn.dc != nil.
     H    the handler: waits for the first copyer to end (copyLoop), then
          conn.Close() (pc.Close, once), wsConn.Close(), tokens.ret().
     L    the bytesSyncLogger goroutine (pinned code only): takes amounts off
          two channels buffered ChanCap and adds them to the counters.

   Data is counted in bytes.  Client -> relay: the data channel keeps message
   boundaries (dcUp is a sequence of sizes), the pipe and the WebSocket do not
   (wsUp is a byte count: websocketconn cuts writes into 2048-byte messages).
   Relay -> client: wsDown is a byte count, D forwards chunks, each chunk is
   one data channel message (dcDown).  Content (order, no duplication, no
   mixing of sessions) is checked concretely by the harness with a keyed byte
   stream per session and direction; here every queue is FIFO.

   Deviation constants.
     AsIs_LoggerLag  TRUE = pinned code: AddOutbound/AddInbound only put the
                     amount into a buffered channel; GetStat (OnClose) reads
                     the counters without synchronising with L, so the
                     published figures can miss up to ChanCap + 1 amounts per
                     direction (and the read is a data race).  FALSE =
                     repaired code: the counters are updated by the caller.
     AsIs_PipeHang   TRUE = pinned code: nothing closes the pipe READER, so an
                     OnMessage that arrives after copyer U has ended (its
                     WebSocket write failed) but before the peer connection is
                     torn down blocks in pw.Write for ever: R never reports the
                     end, OnClose never runs, no connection-over event.

   What the figures legitimately lag by (named, not loosened silently):
     * CopyToClientDropped: conn.Write counts the chunk BEFORE it looks at
       conn.dc; a chunk that arrives when the channel is already gone is
       counted but not delivered (InboundTraffic >= bytes the client got).
     * bytes the pipe has handed to U but U could not write to a WebSocket
       the relay has already closed are counted in OutboundTraffic
       (OutboundTraffic >= bytes the relay got).
     * the figures are a snapshot at OnClose; chunks D handles later are not in.
   Don't-care: durations; the throughput summary's seconds; how the WebSocket
   cuts the stream into messages; what a vanished client's transport does
   before the relay gives up.                                                *)
EXTENDS Integers, Sequences, FiniteSets, TLC

CONSTANTS
  Sessions,        \* session ids
  Sizes,           \* message sizes the environment may send (bytes, abstract)
  MaxUp, MaxDown,  \* messages per session and direction (guards)
  ChanCap,         \* buffer of the logger channels (5 in the code)
  AsIs_LoggerLag, AsIs_PipeHang,
  EnvAtQuiet,      \* TRUE: environment acts only when the proxy is at rest (replayable behaviours)
  GenMinMsgs       \* generation only: an end closes / falls silent only after that many messages of the session

VARIABLE ss        \* ss[s]: the record of session s
vars == <<ss>>

RECURSIVE Sum(_)
Sum(q) == IF q = <<>> THEN 0 ELSE Head(q) + Sum(Tail(q))

InitRec ==
  [live |-> FALSE,
   cst |-> "open", rst |-> "open",           \* client: open | closed | gone ; relay endpoint: open | closed
   nUp |-> 0, nDown |-> 0,
   upSent |-> 0, dcUp |-> <<>>,              \* client -> proxy, in flight on the data channel
   R |-> "idle", rmsg |-> 0, piped |-> 0,    \* R: idle | writing | add | done
   U |-> "read", ubuf |-> 0,                 \* U: read | write | ended
   wsUp |-> 0, upAtRelay |-> 0,
   downSent |-> 0, wsDown |-> 0,
   D |-> "read", dbuf |-> 0,                 \* D: read | add | send | ended
   written |-> 0, dcSent |-> 0, dcDown |-> <<>>, downAtClient |-> 0,
   dcNil |-> FALSE, pwClosed |-> FALSE, prClosed |-> FALSE,
   OC |-> "none",                            \* none | spawned | done
   done |-> FALSE, H |-> "wait",             \* H: wait | pcclose | wsclose | ret | done
   pcCloses |-> 0, pcDead |-> FALSE, wsClosed |-> FALSE,
   over |-> <<>>, nOver |-> 0, writtenAtOver |-> 0, retd |-> 0,
   outCh |-> <<>>, inCh |-> <<>>, outCnt |-> 0, inCnt |-> 0,
   cSaw |-> FALSE, rSaw |-> FALSE,
   stalled |-> FALSE]                        \* the client has stopped reading (its transport stays up)

Init == ss = [s \in Sessions |-> InitRec]

Set(s, r) == ss' = [ss EXCEPT ![s] = r]
X(s) == ss[s]

(* The proxy side of session s is at rest. *)
RQuiet(s) ==
  \/ X(s).R = "done"
  \/ (X(s).R = "idle" /\ X(s).dcUp = <<>> /\ ~X(s).pcDead /\ X(s).cst # "closed")
  \/ (X(s).R = "idle" /\ X(s).cst = "gone" /\ X(s).dcUp = <<>> /\ ~X(s).pcDead)
  \/ (X(s).R = "writing" /\ X(s).U = "ended" /\ ~X(s).prClosed)        \* parked for ever (AsIs_PipeHang)
ProxyQuiet(s) ==
  \/ ~X(s).live
  \/ /\ RQuiet(s)
     /\ X(s).OC # "spawned"
     /\ ((X(s).U = "read" /\ X(s).R # "writing" /\ ~X(s).pwClosed) \/ X(s).U = "ended")
     /\ ((X(s).D = "read" /\ X(s).wsDown = 0 /\ X(s).rst = "open" /\ ~X(s).wsClosed) \/ X(s).D = "ended")
     /\ ((X(s).H = "wait" /\ ~X(s).done) \/ X(s).H = "done")
     /\ X(s).outCh = <<>> /\ X(s).inCh = <<>>
     /\ (X(s).wsUp = 0 \/ X(s).rst = "closed")
     /\ (X(s).dcDown = <<>> \/ X(s).stalled)
     /\ ~(X(s).wsClosed /\ X(s).rst = "open" /\ ~X(s).rSaw)
     /\ ~((X(s).pcDead \/ X(s).dcNil) /\ X(s).cst = "open" /\ ~X(s).cSaw)
EnvOK == (~EnvAtQuiet) \/ \A s \in Sessions : ProxyQuiet(s)
MayEnd(s) == X(s).nUp + X(s).nDown >= GenMinMsgs

(* ---- session start: the handler has dialled the relay, copyLoop runs ---- *)
Start(s) == ~X(s).live /\ Set(s, [X(s) EXCEPT !.live = TRUE])

(* ---- environment: client ---- *)
ClientSend(s, m) ==
  /\ X(s).live /\ X(s).cst = "open" /\ X(s).nUp < MaxUp /\ EnvOK
  /\ Set(s, [X(s) EXCEPT !.nUp = @ + 1, !.upSent = @ + m,      \* towards a proxy that has closed, it goes nowhere
                         !.dcUp = IF X(s).pcDead \/ X(s).cSaw THEN @ ELSE Append(@, m)])
ClientRecv(s) ==               \* (a client that has closed its data channel may still be handed what was in flight)
  /\ X(s).cst # "gone" /\ X(s).dcDown # <<>> /\ ~X(s).stalled
  /\ Set(s, [X(s) EXCEPT !.downAtClient = @ + Head(X(s).dcDown), !.dcDown = Tail(@)])
ClientCloseDc(s) ==            \* graceful: what was sent before arrives before the end
  /\ X(s).live /\ X(s).cst = "open" /\ EnvOK /\ MayEnd(s)
  /\ Set(s, [X(s) EXCEPT !.cst = "closed"])
DownLoss(s) ==                 \* ... or not: what was still on its way when the channel went away (the client closed
                               \* it, or the proxy closed the peer connection) may be lost - the tail, never the middle
  /\ (X(s).cst = "closed" \/ X(s).pcDead) /\ X(s).dcDown # <<>>
  /\ Set(s, [X(s) EXCEPT !.dcDown = SubSeq(@, 1, Len(@) - 1)])
ClientAbort(s) ==              \* the client tears its peer connection down: what is still in flight may be lost
  /\ X(s).live /\ X(s).cst = "open" /\ EnvOK /\ MayEnd(s)
  /\ Set(s, [X(s) EXCEPT !.cst = "closed", !.dcDown = <<>>])
DcLoss(s) ==                   \* ... the loss itself: the tail of what was in flight (also when the proxy closes)
  /\ (X(s).cst # "open" \/ X(s).pcDead) /\ X(s).dcUp # <<>>
  /\ Set(s, [X(s) EXCEPT !.dcUp = SubSeq(@, 1, Len(@) - 1)])
ClientVanish(s) ==             \* no signalling at all; the proxy only learns it through the relay
  /\ X(s).live /\ X(s).cst = "open" /\ EnvOK /\ MayEnd(s)
  /\ Set(s, [X(s) EXCEPT !.cst = "gone", !.dcDown = <<>>])      \* (what it had sent may still arrive, or be lost: DcLoss)
(* Bulk download with a reader that does not keep up: the client stops taking messages; what the
   relay goes on sending piles up on the way (in this code: without bound in the proxy's data channel
   queue - conn.Write never waits; an implementation with back-pressure would stop reading the
   WebSocket instead: D may lag as far as it likes here, so both are behaviours of this model).
   Whatever is queued when the channel goes away is counted-but-undelivered: DownLoss / ClientAbort. *)
ClientStallsReading(s) ==
  /\ X(s).live /\ X(s).cst = "open" /\ ~X(s).stalled /\ EnvOK
  /\ Set(s, [X(s) EXCEPT !.stalled = TRUE])
ClientResumes(s) ==
  /\ X(s).cst = "open" /\ X(s).stalled /\ EnvOK
  /\ Set(s, [X(s) EXCEPT !.stalled = FALSE])
ClientSeesClose(s) ==
  /\ X(s).cst = "open" /\ ~X(s).cSaw /\ (X(s).pcDead \/ X(s).dcNil)
  /\ Set(s, [X(s) EXCEPT !.cSaw = TRUE])

(* ---- environment: relay ---- *)
RelaySend(s, m) ==
  /\ X(s).live /\ X(s).rst = "open" /\ X(s).nDown < MaxDown /\ EnvOK
  /\ Set(s, [X(s) EXCEPT !.nDown = @ + 1, !.downSent = @ + m,
                         !.wsDown = IF X(s).wsClosed THEN @ ELSE @ + m])
RelayRecv(s, k) ==
  /\ X(s).rst = "open" /\ k \in 1..X(s).wsUp
  /\ Set(s, [X(s) EXCEPT !.wsUp = @ - k, !.upAtRelay = @ + k])
RelayCloseWs(s) ==
  /\ X(s).live /\ X(s).rst = "open" /\ EnvOK /\ MayEnd(s)
  /\ Set(s, [X(s) EXCEPT !.rst = "closed"])
UpLoss(s) ==                   \* bytes written to a WebSocket that was closed before the relay took them
  /\ X(s).wsClosed /\ X(s).wsUp > 0
  /\ Set(s, [X(s) EXCEPT !.wsUp = 0])
RelaySeesClose(s) ==           \* in order: after whatever of the stream arrives
  /\ X(s).rst = "open" /\ ~X(s).rSaw /\ X(s).wsClosed /\ X(s).wsUp = 0
  /\ Set(s, [X(s) EXCEPT !.rSaw = TRUE])

(* ---- R: OnMessage ---- *)
DcOnMessageStart(s) ==         \* next client message: OnMessage enters pw.Write
  /\ X(s).live /\ X(s).R = "idle" /\ X(s).dcUp # <<>>      \* (also what the transport had taken in before pc.Close())
  /\ Set(s, [X(s) EXCEPT !.R = "writing", !.rmsg = Head(X(s).dcUp), !.dcUp = Tail(@)])
PipeRendezvous(s) ==           \* U's pr.Read takes what OnMessage writes
  /\ X(s).R = "writing" /\ X(s).U = "read" /\ ~X(s).prClosed
  /\ Set(s, [X(s) EXCEPT !.R = "add",
                         !.U = IF X(s).rmsg > 0 THEN "write" ELSE "read",   \* io.Copy ignores an empty read
                         !.ubuf = X(s).rmsg])
PipeWriteFails(s) ==           \* repaired code only: the pipe reader was closed, pw.Write returns at once
  /\ ~AsIs_PipeHang /\ X(s).R = "writing" /\ X(s).prClosed
  /\ Set(s, [X(s) EXCEPT !.R = "idle", !.rmsg = 0])
DcAddOutbound(s) ==            \* OnMessage: AddOutbound(n)
  /\ X(s).R = "add"
  /\ IF AsIs_LoggerLag
       THEN /\ Len(X(s).outCh) < ChanCap
            /\ Set(s, [X(s) EXCEPT !.R = "idle", !.piped = @ + X(s).rmsg, !.outCh = Append(@, X(s).rmsg)])
       ELSE Set(s, [X(s) EXCEPT !.R = "idle", !.piped = @ + X(s).rmsg, !.outCnt = @ + X(s).rmsg])
DcReadErr(s) ==                \* the transport reports the end: readLoop spawns OnClose
  /\ X(s).live /\ X(s).R = "idle"
  /\ (X(s).pcDead \/ X(s).cst = "closed") /\ X(s).dcUp = <<>>
  /\ Set(s, [X(s) EXCEPT !.R = "done", !.OC = "spawned"])

(* ---- L ---- *)
LoggerDrain(s) ==
  \/ (X(s).outCh # <<>> /\ Set(s, [X(s) EXCEPT !.outCnt = @ + Head(X(s).outCh), !.outCh = Tail(@)]))
  \/ (X(s).inCh # <<>> /\ Set(s, [X(s) EXCEPT !.inCnt = @ + Head(X(s).inCh), !.inCh = Tail(@)]))

(* ---- OC ---- *)
DcOnClose(s) ==                \* GetStat ; event ; conn.dc = nil ; dc.Close() ; pw.Close()
  /\ X(s).OC = "spawned"      \* (conn.lock only orders dc.Send against conn.dc = nil; both are single steps here)
  /\ Set(s, [X(s) EXCEPT !.OC = "done", !.over = <<X(s).inCnt, X(s).outCnt>>, !.nOver = @ + 1,
                         !.writtenAtOver = X(s).written, !.dcNil = TRUE, !.pwClosed = TRUE])

(* ---- U: conn -> ws ---- *)
CopyUpEOF(s) ==
  /\ X(s).live /\ X(s).U = "read" /\ X(s).pwClosed /\ X(s).R # "writing"
  /\ Set(s, [X(s) EXCEPT !.U = "ended", !.done = TRUE])
CopyUpClosed(s) ==             \* repaired code: conn.Close() has closed the pipe reader
  /\ X(s).live /\ X(s).U = "read" /\ X(s).prClosed
  /\ Set(s, [X(s) EXCEPT !.U = "ended", !.done = TRUE])
CopyToRelay(s) ==              \* WebSocket write succeeds (towards a relay that has closed, the bytes go nowhere)
  /\ X(s).U = "write" /\ ~X(s).wsClosed
  /\ Set(s, [X(s) EXCEPT !.U = "read", !.wsUp = IF X(s).rst = "open" THEN @ + X(s).ubuf ELSE @])
CopyUpFails(s) ==              \* WebSocket write fails: our side closed it, or the relay did
  /\ X(s).U = "write" /\ (X(s).wsClosed \/ X(s).rst = "closed")
  /\ Set(s, [X(s) EXCEPT !.U = "ended", !.done = TRUE])

(* ---- D: ws -> conn ---- *)
CopyDownRead(s, k) ==
  /\ X(s).live /\ X(s).D = "read" /\ ~X(s).wsClosed /\ k \in 1..X(s).wsDown
  /\ Set(s, [X(s) EXCEPT !.D = "add", !.dbuf = k, !.wsDown = @ - k])
CopyDownEOF(s) ==
  /\ X(s).live /\ X(s).D = "read"
  /\ (X(s).wsClosed \/ (X(s).rst = "closed" /\ X(s).wsDown = 0))
  /\ Set(s, [X(s) EXCEPT !.D = "ended", !.done = TRUE, !.wsDown = 0])
ConnWriteAdd(s) ==             \* conn.Write: AddInbound(len(b)) - before it looks at conn.dc
  /\ X(s).D = "add"
  /\ IF AsIs_LoggerLag
       THEN /\ Len(X(s).inCh) < ChanCap
            /\ Set(s, [X(s) EXCEPT !.D = "send", !.written = @ + X(s).dbuf, !.inCh = Append(@, X(s).dbuf)])
       ELSE Set(s, [X(s) EXCEPT !.D = "send", !.written = @ + X(s).dbuf, !.inCnt = @ + X(s).dbuf])
CopyToClient(s) ==             \* under conn.lock: conn.dc != nil -> dc.Send
  /\ X(s).D = "send" /\ ~X(s).dcNil
  /\ Set(s, [X(s) EXCEPT !.D = "read", !.dcSent = @ + X(s).dbuf,
                         !.dcDown = IF X(s).cst = "open" /\ ~X(s).pcDead THEN Append(@, X(s).dbuf) ELSE @])
CopyToClientDropped(s) ==      \* conn.dc == nil: counted, not delivered
  /\ X(s).D = "send" /\ X(s).dcNil
  /\ Set(s, [X(s) EXCEPT !.D = "read"])

(* ---- H ---- *)
CopyLoopEnds(s) ==
  /\ X(s).live /\ X(s).H = "wait" /\ X(s).done
  /\ Set(s, [X(s) EXCEPT !.H = "pcclose"])
ConnClose(s) ==                \* conn.Close(): pc.Close() through sync.Once ...
  /\ X(s).H = "pcclose"
  /\ Set(s, [X(s) EXCEPT !.H = "prclose", !.pcCloses = @ + 1, !.pcDead = TRUE])
     \* (dcDown is NOT emptied: what has already reached the client's transport is still handed to its reader,
     \*  e.g. when it resumes reading after the proxy has closed; what had not arrived is lost: DownLoss)
PrClose(s) ==                  \* ... then (repaired code) the pipe reader
  /\ X(s).H = "prclose"
  /\ Set(s, [X(s) EXCEPT !.H = "wsclose", !.prClosed = ~AsIs_PipeHang])
WsClose(s) ==                  \* wsConn.Close()
  /\ X(s).H = "wsclose"
  /\ Set(s, [X(s) EXCEPT !.H = "ret", !.wsClosed = TRUE])
     \* (wsUp is NOT emptied: what was written before the close still reaches a relay that is reading, before
     \*  it sees the close; what does not is lost: UpLoss)
HandlerReturns(s) ==           \* deferred: wsConn.Close() again, tokens.ret(), conn.Close() (no-op)
  /\ X(s).H = "ret"
  /\ Set(s, [X(s) EXCEPT !.H = "done", !.retd = @ + 1])

ProxyStep(s) ==
  \/ DcOnMessageStart(s) \/ PipeRendezvous(s) \/ PipeWriteFails(s) \/ DcAddOutbound(s) \/ DcReadErr(s) \/ LoggerDrain(s)
  \/ DcOnClose(s) \/ CopyUpEOF(s) \/ CopyUpClosed(s) \/ CopyToRelay(s) \/ CopyUpFails(s) \/ CopyDownEOF(s) \/ ConnWriteAdd(s)
  \/ CopyToClient(s) \/ CopyToClientDropped(s) \/ CopyLoopEnds(s) \/ ConnClose(s) \/ PrClose(s) \/ WsClose(s) \/ HandlerReturns(s)
  \/ (\E k \in 1..X(s).wsDown : CopyDownRead(s, k))
EnvStep(s) ==
  \/ Start(s) \/ ClientRecv(s) \/ ClientStallsReading(s) \/ ClientResumes(s) \/ ClientCloseDc(s) \/ ClientAbort(s) \/ DcLoss(s) \/ DownLoss(s) \/ ClientVanish(s) \/ ClientSeesClose(s)
  \/ RelayCloseWs(s) \/ RelaySeesClose(s) \/ UpLoss(s)
  \/ (\E m \in Sizes : ClientSend(s, m) \/ RelaySend(s, m))
  \/ (\E k \in 1..X(s).wsUp : RelayRecv(s, k))

AllOver == \A s \in Sessions : X(s).live /\ X(s).H = "done" /\ X(s).OC = "done" /\ X(s).U = "ended" /\ X(s).D = "ended"
                                /\ X(s).outCh = <<>> /\ X(s).inCh = <<>>
Finished == AllOver /\ UNCHANGED vars
Next == (\E s \in Sessions : ProxyStep(s) \/ EnvStep(s)) \/ Finished
Spec == Init /\ [][Next]_vars

Fair ==
  \A s \in Sessions :
    /\ WF_vars(DcOnMessageStart(s)) /\ WF_vars(PipeRendezvous(s)) /\ WF_vars(PipeWriteFails(s)) /\ WF_vars(DcAddOutbound(s))
    /\ WF_vars(DcReadErr(s)) /\ WF_vars(LoggerDrain(s)) /\ WF_vars(DcOnClose(s)) /\ WF_vars(CopyUpEOF(s)) /\ WF_vars(CopyUpClosed(s))
    /\ WF_vars(CopyToRelay(s) \/ CopyUpFails(s)) /\ WF_vars(CopyDownEOF(s)) /\ WF_vars(ConnWriteAdd(s))
    /\ WF_vars(CopyToClient(s)) /\ WF_vars(CopyToClientDropped(s)) /\ WF_vars(CopyLoopEnds(s)) /\ WF_vars(ConnClose(s)) /\ WF_vars(PrClose(s))
    /\ WF_vars(WsClose(s)) /\ WF_vars(HandlerReturns(s))
    /\ WF_vars(\E k \in 1..X(s).wsDown : CopyDownRead(s, k))
FairSpec == Spec /\ Fair

-----------------------------------------------------------------------------
TypeOK ==
  \A s \in Sessions :
    /\ X(s).cst \in {"open", "closed", "gone"} /\ X(s).rst \in {"open", "closed"}
    /\ X(s).R \in {"idle", "writing", "add", "done"} /\ X(s).U \in {"read", "write", "ended"}
    /\ X(s).D \in {"read", "add", "send", "ended"} /\ X(s).OC \in {"none", "spawned", "done"}
    /\ X(s).H \in {"wait", "pcclose", "prclose", "wsclose", "ret", "done"}
    /\ Len(X(s).outCh) <= ChanCap /\ Len(X(s).inCh) <= ChanCap

(* each direction delivers no more than was handed on, stage by stage (FIFO stages: a prefix, in order) *)
UpPrefix == \A s \in Sessions :
  /\ X(s).upAtRelay + X(s).wsUp <= X(s).piped + (IF X(s).R = "add" THEN X(s).rmsg ELSE 0)
  /\ X(s).piped + Sum(X(s).dcUp) + (IF X(s).R \in {"writing", "add"} THEN X(s).rmsg ELSE 0) <= X(s).upSent
DownPrefix == \A s \in Sessions :
  /\ X(s).downAtClient + Sum(X(s).dcDown) <= X(s).dcSent
  /\ X(s).dcSent <= X(s).written
  /\ X(s).written + X(s).wsDown + (IF X(s).D = "add" THEN X(s).dbuf ELSE 0) <= X(s).downSent
PcCloseOnce == \A s \in Sessions : X(s).pcCloses <= 1
OverOnce == \A s \in Sessions : X(s).nOver <= 1
SlotOnce == \A s \in Sessions : X(s).retd <= 1
(* the published figures: OutboundTraffic is everything OnMessage piped (all OnMessage calls precede OnClose);
   InboundTraffic is everything conn.Write had counted when OnClose read it, which covers every byte sent on *)
FiguresRight == \A s \in Sessions : X(s).over # <<>> =>
  /\ X(s).over[2] = X(s).piped
  /\ X(s).over[1] = X(s).writtenAtOver
  /\ X(s).upAtRelay <= X(s).over[2] /\ X(s).over[2] <= X(s).upSent
  /\ X(s).dcSent <= X(s).over[1] /\ X(s).over[1] <= X(s).downSent
(* when everything of the session has stopped: both ends closed, one pc.Close, slot back *)
ClosedBoth == \A s \in Sessions : X(s).H = "done" => (X(s).pcDead /\ X(s).wsClosed /\ X(s).pcCloses = 1 /\ X(s).retd = 1)
NoSendAfterNil == \A s \in Sessions : X(s).dcNil => X(s).OC = "done"

(* liveness: once either end has closed, the session gets over: event published, slot returned *)
Ends(s) == X(s).live /\ (X(s).cst = "closed" \/ X(s).rst = "closed")
GetsOver == \A s \in Sessions : Ends(s) ~> (X(s).nOver = 1 /\ X(s).retd = 1 /\ X(s).H = "done" /\ X(s).U = "ended" /\ X(s).D = "ended")
=============================================================================
