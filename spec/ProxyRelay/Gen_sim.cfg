\* behaviour sampling (tlc -simulate): two sessions, environment acts when the proxy is at rest; sizes are abstract
\* (0 empty, 1 small, 2 medium, 3 larger than 16 KiB; lib/checks/c16_relay.py makes them concrete)
CONSTANTS
  Sessions = {1, 2}
  Sizes = {0, 1, 2, 3}
  MaxUp = 4
  MaxDown = 4
  ChanCap = 5
  AsIs_LoggerLag = FALSE
  AsIs_PipeHang = FALSE
  EnvAtQuiet = TRUE
  GenMinMsgs = 3
SPECIFICATION Spec
INVARIANTS TypeOK UpPrefix DownPrefix PcCloseOnce OverOnce SlotOnce FiguresRight ClosedBoth
CHECK_DEADLOCK FALSE
