\* one session, environment steps at any time: dot dump, goal-directed paths (send-and-close at once, close
\* during traffic, a message parked in its pipe write when the relay side has ended)
CONSTANTS
  Sessions = {1}
  Sizes = {1}
  MaxUp = 2
  MaxDown = 1
  ChanCap = 5
  AsIs_LoggerLag = FALSE
  AsIs_PipeHang = FALSE
  EnvAtQuiet = FALSE
  GenMinMsgs = 0
SPECIFICATION Spec
INVARIANTS TypeOK UpPrefix DownPrefix PcCloseOnce OverOnce SlotOnce FiguresRight ClosedBoth
CHECK_DEADLOCK FALSE
