#!/usr/bin/env python3
"""Final sweep: every change under /verif/seeded against the checks listed in its
meta.json (check_runs keys, at least its own property), N streams in parallel.

  selftest/sweep.py [--jobs 3] [--only C02,C14] [--ids C02-a,C14-f]

Each run applies the patch to a scratch copy of /repo (never /repo itself) and
merges the outcome into seeded/<id>/meta.json.  Afterwards: selftest/seed_table.py."""
import json
import os
import subprocess
import sys
from concurrent.futures import ThreadPoolExecutor

VERIF = os.path.dirname(os.path.dirname(os.path.abspath(__file__)))


def main():
    args = sys.argv[1:]
    jobs, only, ids = 3, None, None
    for i, a in enumerate(args):
        if a == "--jobs":
            jobs = int(args[i + 1])
        if a == "--only":
            only = set(args[i + 1].split(","))
        if a == "--ids":
            ids = set(args[i + 1].split(","))
    todo = []
    for sid in sorted(os.listdir(os.path.join(VERIF, "seeded"))):
        d = os.path.join(VERIF, "seeded", sid)
        if not os.path.exists(os.path.join(d, "meta.json")):
            continue
        meta = json.load(open(os.path.join(d, "meta.json")))
        prop = meta["property"]
        checks = sorted(set([prop] + list(meta.get("check_runs", {}).keys())))
        if only and not (set(checks) & only):
            continue
        if ids and sid not in ids:
            continue
        if only:
            checks = [c for c in checks if c in only]
        todo.append((d, checks))

    def one(item):
        d, checks = item
        p = subprocess.run([sys.executable, os.path.join(VERIF, "selftest", "confirm_seed.py"), d, "--checks", ",".join(checks), "--skip-demo", "--update-meta"],
                           stdout=subprocess.PIPE, stderr=subprocess.STDOUT)
        line = p.stdout.decode("utf-8", "replace").strip().splitlines()[-1:] or ["?"]
        print(line[0], flush=True)
    with ThreadPoolExecutor(jobs) as ex:
        list(ex.map(one, todo))


main()
