#!/usr/bin/env python3
"""Apply one named source mutation to a scratch copy of /repo and run a check
against it (binding self-test; DESIGN.md section 6).  Usage:
  selftest/mutate.py <mutation-name> <Cnn> [tier]      -> prints exit code of the check
  selftest/mutate.py --list"""
import json, os, shutil, subprocess, sys, tempfile
HERE = os.path.dirname(os.path.abspath(__file__))
MUTS = json.load(open(os.path.join(HERE, "mutations.json")))

def main():
    if sys.argv[1] == "--list":
        for m in MUTS:
            print(m["name"], m["props"], "-", m["what"])
        return
    name, prop = sys.argv[1], sys.argv[2]
    tier = sys.argv[3] if len(sys.argv) > 3 else "quick"
    m = [x for x in MUTS if x["name"] == name][0]
    d = tempfile.mkdtemp(prefix="mut-")
    try:
        repo = os.path.join(d, "repo")
        shutil.copytree("/repo", repo, ignore=shutil.ignore_patterns(".git"))
        for e in m["edits"]:
            p = os.path.join(repo, e["file"])
            s = open(p).read()
            if s.count(e["old"]) != 1:
                print("mutation does not apply (%d matches): %s" % (s.count(e["old"]), e["file"]))
                sys.exit(3)
            open(p, "w").write(s.replace(e["old"], e["new"]))
        env = dict(os.environ, VERIF_REPO=repo)
        r = subprocess.run([os.path.join(os.path.dirname(HERE), "bin", "check"), prop, "--tier", tier], env=env, stdout=subprocess.PIPE, stderr=subprocess.STDOUT)
        out = r.stdout.decode()
        lines = [l for l in out.splitlines() if l.startswith(("VIOLATION", "  signature", "INCONCLUSIVE", "KNOWN", "[" + prop + "]"))]
        print("\n".join(lines[-8:]))
        print("MUTATION %s on %s -> exit %d" % (name, prop, r.returncode))
    finally:
        shutil.rmtree(d, ignore_errors=True)

main()
