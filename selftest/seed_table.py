#!/usr/bin/env python3
"""Markdown table of the seeded changes and which checks catch them (from seeded/*/meta.json)."""
import json, glob, os
ROOT = os.path.dirname(os.path.dirname(os.path.abspath(__file__)))
print("| seed | breaks | change | needs | caught by (quick unless noted) |")
print("|------|--------|--------|-------|-------------------------------|")
for d in sorted(glob.glob(os.path.join(ROOT, "seeded", "C*"))):
    m = json.load(open(os.path.join(d, "meta.json")))
    runs = m.get("check_runs", {})
    caught = [("%s%s" % (c, " (thorough)" if v.get("tier") == "thorough" else "")) for c, v in sorted(runs.items()) if v.get("exit") == 1]
    missed = [c for c, v in sorted(runs.items()) if v.get("exit") != 1]
    txt = ", ".join(caught) if caught else "**not caught**"
    if caught and missed:
        txt += " (not by %s)" % ", ".join(missed)
    print("| %s | %s | %s | %s | %s |" % (os.path.basename(d), m.get("property"), (m.get("title") or "").replace("|", "/")[:110],
                                       (m.get("needs") or "").replace("|", "/").replace("\n", " ")[:140], txt))
