#!/usr/bin/env python3
"""Markdown table of the seeded changes and which checks catch them (from seeded/*/meta.json)."""
import json, glob, os
ROOT = os.path.dirname(os.path.dirname(os.path.abspath(__file__)))
out = []
print_ = out.append
print_("| seed | breaks | change | needs | caught by (quick unless noted) |")
print_("|------|--------|--------|-------|-------------------------------|")
for d in sorted(glob.glob(os.path.join(ROOT, "seeded", "C*"))):
    m = json.load(open(os.path.join(d, "meta.json")))
    runs = m.get("check_runs", {})
    caught = [("%s%s" % (c, " (thorough)" if v.get("tier") == "thorough" else "")) for c, v in sorted(runs.items()) if v.get("exit") == 1]
    missed = [c for c, v in sorted(runs.items()) if v.get("exit") != 1]
    txt = ", ".join(caught) if caught else "**not caught**"
    if caught and missed:
        txt += " (not by %s)" % ", ".join(missed)
    print_("| %s | %s | %s | %s | %s |" % (os.path.basename(d), m.get("property"), (m.get("title") or "").replace("|", "/")[:110],
                                       (m.get("needs") or "").replace("|", "/").replace("\n", " ")[:140], txt))

p = os.path.join(ROOT, "DESIGN.md")
t = open(p).read()
b, e = "<!-- seed-table:begin -->", "<!-- seed-table:end -->"
if b in t and e in t:
    t = t[:t.index(b) + len(b)] + "\n" + "\n".join(out) + "\n" + t[t.index(e):]
    open(p, "w").write(t)
    print("%d seeds written into DESIGN.md" % (len(out) - 2))
else:
    print("\n".join(out))
